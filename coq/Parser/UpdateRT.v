(* C16 deepening: the six update forms - quad blocks with GRAPH templates, the DATA-block checks, through parse_top. *)
Require Import List NArith Bool PeanoNat Lia ZifyBool ZifyN.
Require Import KV.Parser.Utf8 KV.Parser.Unicode KV.Parser.Keywords KV.Parser.Scanners KV.Parser.Grammar KV.Parser.Run.
Require Import KV.Parser.Utf8Proofs KV.Parser.ScannerProofs KV.Parser.GrammarProofs.
Require Import KV.Parser.RoundTrip KV.Parser.RoundTrip2 KV.Parser.RoundTrip3 KV.Parser.Lex KV.Parser.StmtRT KV.Parser.FilterRT KV.Parser.FilterRT2
               KV.Parser.SelectRT KV.Parser.BindRT KV.Parser.ValuesRT KV.Parser.GroupRT KV.Parser.PrologueRT KV.Parser.TopRT KV.Parser.SizeRT.
Import ListNotations.
Open Scope N_scope.

(* ---- the DATA-block checks: first variable / first blank node among the tokens of the quads ------------------------------ *)
Definition plain_tok (is_hit : str -> bool) (t : str) : bool := negb (is_hit t) && negb (starts_with [60; 60] t).
Lemma term_first_plain : forall is_hit t f, plain_tok is_hit t = true -> term_first is_hit (S f) t = Ok None.
Proof. intros is_hit t f H. unfold plain_tok in H. apply andb_true_iff in H. destruct H as [H1 H2]. apply negb_true_iff in H1. cbn [term_first]. now rewrite H1, H2. Qed.
Lemma ptok_first_plain : forall is_hit (t : ptok), plain_tok is_hit (fst t) = true -> ptok_first is_hit t = Ok None.
Proof. intros is_hit t H. unfold ptok_first. now rewrite term_first_plain. Qed.
Lemma ptok_first_hit : forall is_hit (t : ptok), is_hit (fst t) = true -> exists x, ptok_first is_hit t = Ok (Some x).
Proof. intros is_hit t H. unfold ptok_first. cbn [term_first]. rewrite H. cbn [bind option_map]. eauto. Qed.

Definition quad_plain (is_hit : str -> bool) (with_graph : bool) (q : quad) : bool :=
  match q with
  | (g, (s, p, o)) =>
      match g with Some gt => if with_graph then plain_tok is_hit gt else true | None => true end
      && plain_tok is_hit s && plain_tok is_hit p && plain_tok is_hit o
  end.
Lemma quads_first_plain : forall is_hit wg (qs : list pquad), forallb (quad_plain is_hit wg) (map strip_q qs) = true -> quads_first is_hit wg qs = Ok None.
Proof.
  intros is_hit wg. induction qs as [|[g [[s p] o]] t IH]; intros H; [reflexivity|]. cbn [map forallb] in H. apply andb_true_iff in H. destruct H as [Hq Ht].
  unfold strip_q, quad_plain in Hq. cbn [fst snd strip_t option_map] in Hq.
  apply andb_true_iff in Hq. destruct Hq as [Hq Ho]. apply andb_true_iff in Hq. destruct Hq as [Hq Hp]. apply andb_true_iff in Hq. destruct Hq as [Hg Hs].
  cbn [quads_first].
  assert (Eg : match g with Some gt => if wg then ptok_first is_hit gt else Ok None | None => Ok None end = Ok None).
  { destruct g as [gt|]; [|reflexivity]. cbn [option_map] in Hg. destruct wg; [now apply ptok_first_plain|reflexivity]. }
  rewrite Eg. cbn [bind or_else_opt]. rewrite (ptok_first_plain _ s Hs). cbn [bind or_else_opt]. rewrite (ptok_first_plain _ p Hp). cbn [bind or_else_opt].
  rewrite (ptok_first_plain _ o Ho). cbn [bind or_else_opt]. now apply IH.
Qed.

(* a block with an offending token (and no quoted-triple terms): the check answers Some *)
Definition tok_simple (t : str) : bool := negb (starts_with [60; 60] t).
Definition quad_simple (q : quad) : bool :=
  match q with (g, (s, p, o)) => match g with Some gt => tok_simple gt | None => true end && tok_simple s && tok_simple p && tok_simple o end.
Definition quad_hit (is_hit : str -> bool) (with_graph : bool) (q : quad) : bool :=
  match q with (g, (s, p, o)) => match g with Some gt => with_graph && is_hit gt | None => false end || is_hit s || is_hit p || is_hit o end.
Lemma ptok_first_simple : forall is_hit (t : ptok), tok_simple (fst t) = true -> exists r, ptok_first is_hit t = Ok r /\ (r = None <-> is_hit (fst t) = false).
Proof.
  intros is_hit t H. unfold ptok_first. cbn [term_first]. destruct (is_hit (fst t)) eqn:E.
  - cbn [bind option_map]. eexists. split; [reflexivity|]. split; discriminate.
  - unfold tok_simple in H. rewrite H. cbn [bind option_map]. eexists. split; [reflexivity|]. split; reflexivity.
Qed.
Lemma quads_first_hit : forall is_hit wg (qs : list pquad), forallb quad_simple (map strip_q qs) = true -> existsb (quad_hit is_hit wg) (map strip_q qs) = true ->
  exists x, quads_first is_hit wg qs = Ok (Some x).
Proof.
  intros is_hit wg. induction qs as [|[g [[s p] o]] t IH]; intros Hs Hh; [discriminate|]. cbn [map forallb existsb] in *.
  apply andb_true_iff in Hs. destruct Hs as [Hq Hts]. unfold strip_q, quad_simple, quad_hit in *. cbn [fst snd strip_t option_map] in *.
  apply andb_true_iff in Hq. destruct Hq as [Hq Ho]. apply andb_true_iff in Hq. destruct Hq as [Hq Hp]. apply andb_true_iff in Hq. destruct Hq as [Hg Hsu].
  cbn [quads_first].
  destruct (ptok_first_simple is_hit s Hsu) as (rs & Es & Is). destruct (ptok_first_simple is_hit p Hp) as (rp & Ep & Ip). destruct (ptok_first_simple is_hit o Ho) as (ro & Eo & Io).
  assert (Eg : exists rg, match g with Some gt => if wg then ptok_first is_hit gt else Ok None | None => Ok None end = Ok rg /\
                          (rg = None <-> match g with Some gt => wg && is_hit (fst gt) | None => false end = false)).
  { destruct g as [gt|]; [|eexists; split; [reflexivity|tauto]]. cbn [option_map] in *. destruct wg; [|eexists; split; [reflexivity|tauto]].
    destruct (ptok_first_simple is_hit gt Hg) as (rg & E & I). exists rg. split; [assumption|]. cbn [andb]. exact I. }
  destruct Eg as (rg & Eg & Ig). destruct g as [gt|]; cbn [option_map] in *; rewrite Eg; cbn [bind].
  all: destruct rg as [x|]; cbn [or_else_opt bind]; [eauto|].
  all: rewrite Es; cbn [bind]; destruct rs as [x|]; cbn [or_else_opt bind]; [eauto|].
  all: rewrite Ep; cbn [bind]; destruct rp as [x|]; cbn [or_else_opt bind]; [eauto|].
  all: rewrite Eo; cbn [bind]; destruct ro as [x|]; cbn [or_else_opt bind]; [eauto|].
  all: apply IH; [assumption|].
  all: try rewrite (proj1 Ig eq_refl) in Hh; rewrite (proj1 Is eq_refl), (proj1 Ip eq_refl), (proj1 Io eq_refl) in Hh; exact Hh.
Qed.

(* ---- statements inside blocks -------------------------------------------------------------------------------------------------- *)
Definition SD := (Stmt * option L)%type.
Definition pr_sd (x : SD) : str := pr_stmt (fst x) ++ pr_dot (snd x).
Definition pr_sds (l : list SD) : str := flat_map pr_sd l.
Definition dot_end (d : option L) (following : str) : bool := wf_dot d && match d with Some _ => true | None => nolead 46 following end.
Definition wf_sd (x : SD) (following : str) : bool :=
  let X := pr_dot (snd x) ++ following in
  wf_stmt (fst x) X && stmt_endb (fst x) X && dot_end (snd x) following
  && kwfree [kw_graph] (pr_stmt (fst x) ++ X) && nolead 125 (pr_stmt (fst x) ++ X).
Fixpoint wf_sds (l : list SD) (following : str) : bool :=
  match l with [] => true | x :: t => wf_sd x (pr_sds t ++ following) && wf_sds t following end.
Definition sds_triples (l : list SD) : list triple := flat_map (fun x => stmt_triples (fst x)) l.
Definition after_dot (d : option L) (R : str) : str := match d with Some _ => R | None => skip_ws R end.

Lemma dot_end_dot : forall d f, dot_end d f = true -> wf_dot d = true.
Proof. intros d f H. unfold dot_end in H. apply andb_true_iff in H. now destruct H. Qed.
Lemma sd_valid : forall x f, wf_sd x f = true -> Valid (pr_sd x).
Proof.
  intros x f H. unfold wf_sd in H. cbv zeta in H. do 2 (apply andb_true_iff in H; destruct H as [H _]). apply andb_true_iff in H. destruct H as [H Hd].
  apply andb_true_iff in H. destruct H as [H _]. unfold pr_sd. apply valid_app; [eapply stmt_valid; eassumption|apply dot_valid; eapply dot_end_dot; eassumption].
Qed.
Lemma sds_valid : forall l f, wf_sds l f = true -> Valid (pr_sds l).
Proof.
  induction l as [|x t IH]; intros f H; [apply valid_nil|]. cbn [wf_sds pr_sds flat_map] in *. apply andb_true_iff in H. destruct H.
  apply valid_app; [eapply sd_valid; eassumption|eapply IH; eassumption].
Qed.
Lemma sds_length : forall l f, wf_sds l f = true -> (length l <= length (pr_sds l))%nat.
Proof.
  induction l as [|x t IH]; intros f H; [cbn; lia|]. cbn [wf_sds pr_sds flat_map length] in *. fold (pr_sds t) in *. apply andb_true_iff in H. destruct H as [H1 H2].
  specialize (IH _ H2). unfold wf_sd in H1. cbv zeta in H1. do 4 (apply andb_true_iff in H1; destruct H1 as [H1 _]).
  pose proof (stmt_nonempty _ _ H1). unfold pr_sd. rewrite !app_length. lia.
Qed.

Lemma dot_step : forall d R, dot_end d R = true -> Valid R ->
  match strip_prefix [46] (skip_ws (pr_dot d ++ R)) with Some r => r | None => skip_ws (pr_dot d ++ R) end = after_dot d R.
Proof.
  intros d R H HR. unfold dot_end in H. apply andb_true_iff in H. destruct H as [Hw Hd]. destruct d as [l|]; cbn [pr_dot wf_dot after_dot] in *.
  - rewrite <- app_assoc. cbn [app]. rewrite lead_skip by (try assumption; try lia; reflexivity). now rewrite strip1_some.
  - cbn [app]. apply nolead_ok in Hd. unfold no_lead in Hd. now rewrite Hd.
Qed.

(* one statement at the head of a block: the parser is called on the text with its leading layout skipped *)
Lemma stmt_in_block : forall st X, wf_stmt st X = true -> stmt_endb st X = true -> Valid X ->
  exists ts, triples_statement (S (length (skip_ws (pr_stmt st ++ X)))) (skip_ws (pr_stmt st ++ X)) = Ok (ts, X) /\ map strip_t ts = stmt_triples st.
Proof.
  intros st X Hst Hse VX. destruct (stmt_unlay_wf st X Hst) as (Hst' & Hl & Htok).
  assert (VU : Valid (pr_stmt (stmt_unlay st) ++ X)) by (apply valid_app; [eapply stmt_valid; eassumption|assumption]).
  assert (Esk : skip_ws (pr_stmt st ++ X) = pr_stmt (stmt_unlay st) ++ X).
  { rewrite stmt_split, <- app_assoc. apply skip_ws_closed; [now apply lay_ok|assumption|].
    unfold pr_stmt, stmt_unlay, pr_o. cbn [sj olay oterm lay_bytes flat_map app]. rewrite <- app_assoc. now apply term_not_layout. }
  assert (Follow : stmt_follow (stmt_unlay st) X).
  { split; [assumption|]. unfold stmt_endb in Hse. cbn [stmt_unlay trail]. destruct (trail st) as [tr|].
    - destruct X as [|b X']; [discriminate|]. cbn [starts_with] in Hse. rewrite !andb_true_r in Hse.
      assert (Hb : b = 46 \/ b = 125) by lia. split.
      + apply ascii_head_not_layout; destruct Hb; subst; first [lia | reflexivity].
      + cbn [stmt_stops_after_semicolon]. destruct Hb; subst; reflexivity.
    - apply andb_true_iff in Hse. destruct Hse. split; now apply nolead_ok. }
  rewrite Esk. destruct (stmt_roundtrip (stmt_unlay st) (length (pr_stmt (stmt_unlay st) ++ X)) X Hst' Follow) as (ts & Ets & Etr).
  exists ts. split; [exact Ets|]. rewrite Etr. reflexivity.
Qed.

Lemma graph_block_loop_S : forall f g input acc,
  graph_block_loop (S f) g input acc =
      let gi := skip_ws input in
      match strip_prefix [125] gi with
      | Some remaining => Ok (acc, remaining)
      | None =>
          do '(ts, remaining) <- triples_statement (S (length gi)) gi;
          let acc' := acc ++ map (fun t => (Some g, t)) ts in
          let g2 := skip_ws remaining in
          graph_block_loop f g (match strip_prefix [46] g2 with Some r => r | None => g2 end) acc'
      end.
Proof. reflexivity. Qed.
Lemma graph_block_loop_skip : forall f g x acc, Valid x -> graph_block_loop f g (skip_ws x) acc = graph_block_loop f g x acc.
Proof. intros [|f] g x acc Hv; [reflexivity|]. rewrite !graph_block_loop_S. cbv zeta. now rewrite skip_ws_idem. Qed.
Lemma graph_block_loop_after : forall f g d R acc, Valid R -> graph_block_loop f g (after_dot d R) acc = graph_block_loop f g R acc.
Proof. intros f g [l|] R acc HR; [reflexivity|]. now apply graph_block_loop_skip. Qed.

Lemma graph_block_loop_rt : forall sds fuel g acc rb R, (length sds < fuel)%nat -> wf_sds sds (lay_bytes rb ++ 125 :: R) = true -> lay_okb rb = true -> Valid R ->
  exists new, graph_block_loop fuel g (pr_sds sds ++ lay_bytes rb ++ 125 :: R) acc = Ok (acc ++ new, R)
              /\ map strip_q new = map (fun t => (Some (fst g), t)) (sds_triples sds).
Proof.
  induction sds as [|[st d] t IH]; intros fuel g acc rb R Hf H Hrb HR; (destruct fuel as [|f]; [cbn in Hf; lia|]); rewrite graph_block_loop_S; cbv zeta.
  - cbn [pr_sds flat_map app]. rewrite lead_skip by (try assumption; try lia; reflexivity). rewrite strip1_some. exists []. now rewrite app_nil_r.
  - cbn [wf_sds pr_sds flat_map sds_triples] in *. fold (pr_sds t) (sds_triples t) in *. apply andb_true_iff in H. destruct H as [Hx Ht].
    assert (VR : Valid (lay_bytes rb ++ 125 :: R)) by (apply valid_app; [now apply lay_valid|now apply v1]).
    assert (VT : Valid (pr_sds t ++ lay_bytes rb ++ 125 :: R)) by (apply valid_app; [eapply sds_valid; eassumption|assumption]).
    unfold wf_sd in Hx. cbv zeta in Hx. cbn [fst snd] in *.
    apply andb_true_iff in Hx. destruct Hx as [Hx N125]. apply andb_true_iff in Hx. destruct Hx as [Hx _]. apply andb_true_iff in Hx. destruct Hx as [Hx Hd].
    apply andb_true_iff in Hx. destruct Hx as [Hst Hse].
    set (R' := pr_sds t ++ lay_bytes rb ++ 125 :: R) in *. set (X := pr_dot d ++ R') in *.
    assert (VX : Valid X) by (apply valid_app; [apply dot_valid; eapply dot_end_dot; eassumption|assumption]).
    assert (E0 : (pr_sd (st, d) ++ pr_sds t) ++ lay_bytes rb ++ 125 :: R = pr_stmt st ++ X).
    { unfold pr_sd, X, R'. cbn [fst snd]. now rewrite <- !app_assoc. }
    rewrite E0. apply nolead_ok in N125. unfold no_lead in N125. rewrite N125.
    destruct (stmt_in_block st X Hst Hse VX) as (ts & Ets & Etr). rewrite Ets. cbn [bind].
    unfold X. rewrite (dot_step d R' Hd VT). rewrite graph_block_loop_after by assumption.
    destruct (IH f g (acc ++ map (fun t0 => (Some g, t0)) ts) rb R ltac:(cbn in Hf; lia) Ht Hrb HR) as (new & En & Em).
    unfold R'. rewrite En. exists (map (fun t0 => (Some g, t0)) ts ++ new). split; [now rewrite <- app_assoc|].
    rewrite !map_app. f_equal; [|exact Em]. rewrite !map_map. unfold strip_q. cbn [fst snd option_map]. rewrite <- Etr, map_map. reflexivity.
Qed.

(* ---- quad blocks: `{` (statement | GRAPH name `{` statements `}`) ... `}` ----------------------------------------------------------- *)
Inductive QItem := QStmt (x : SD) | QGraph (kl : L) (kw : str) (name : OTok) (lb : L) (sds : list SD) (rb : L) (dot : option L).
Definition pr_qitem (it : QItem) : str :=
  match it with
  | QStmt x => pr_sd x
  | QGraph kl kw name lb sds rb d => lay_bytes kl ++ kw ++ pr_o name ++ lay_bytes lb ++ 123 :: pr_sds sds ++ lay_bytes rb ++ 125 :: pr_dot d
  end.
Definition pr_qitems (l : list QItem) : str := flat_map pr_qitem l.
Definition tr_qitem (it : QItem) : list quad :=
  match it with
  | QStmt x => map (fun t => (None, t)) (stmt_triples (fst x))
  | QGraph _ _ name _ sds _ _ => map (fun t => (Some (term_text (oterm name)), t)) (sds_triples sds)
  end.
Definition wf_qitem (it : QItem) (following : str) : bool :=
  match it with
  | QStmt x => wf_sd x following
  | QGraph kl kw name lb sds rb d =>
      let X := pr_dot d ++ following in
      let B := lay_bytes lb ++ 123 :: pr_sds sds ++ lay_bytes rb ++ 125 :: X in
      wf_kw kw_graph kw kl (pr_o name ++ B) && wf_gname name B && lay_okb lb && lay_okb rb && wf_sds sds (lay_bytes rb ++ 125 :: X) && dot_end d following
  end.
Fixpoint wf_qitems (l : list QItem) (following : str) : bool :=
  match l with [] => true | it :: t => wf_qitem it (pr_qitems t ++ following) && wf_qitems t following end.

Lemma qitem_valid : forall it f, wf_qitem it f = true -> Valid (pr_qitem it).
Proof.
  intros [x|kl kw name lb sds rb d] f H; cbn [wf_qitem pr_qitem] in *; [eapply sd_valid; eassumption|]. cbv zeta in H.
  apply andb_true_iff in H. destruct H as [H Hd]. apply andb_true_iff in H. destruct H as [H Hs]. apply andb_true_iff in H. destruct H as [H Hrb].
  apply andb_true_iff in H. destruct H as [H Hlb]. apply andb_true_iff in H. destruct H as [Hk Hn].
  rewrite app_assoc. apply valid_app; [eapply wf_kw_valid; [|eassumption]; kw_a|]. apply valid_app; [eapply gname_valid; eassumption|].
  apply valid_app; [now apply lay_valid|]. apply v1; [lia|]. apply valid_app; [eapply sds_valid; eassumption|]. apply valid_app; [now apply lay_valid|].
  apply v1; [lia|]. apply dot_valid. eapply dot_end_dot; eassumption.
Qed.
Lemma qitems_valid : forall l f, wf_qitems l f = true -> Valid (pr_qitems l).
Proof.
  induction l as [|x t IH]; intros f H; [apply valid_nil|]. cbn [wf_qitems pr_qitems flat_map] in *. apply andb_true_iff in H. destruct H.
  apply valid_app; [eapply qitem_valid; eassumption|eapply IH; eassumption].
Qed.
Lemma qitems_length : forall l f, wf_qitems l f = true -> (length l <= length (pr_qitems l))%nat.
Proof.
  induction l as [|x t IH]; intros f H; [cbn; lia|]. cbn [wf_qitems pr_qitems flat_map length] in *. fold (pr_qitems t) in *. apply andb_true_iff in H. destruct H as [H1 H2].
  specialize (IH _ H2). rewrite app_length. assert (1 <= length (pr_qitem x))%nat; [|lia]. destruct x as [x|kl kw name lb sds rb d]; cbn [wf_qitem pr_qitem] in *.
  - unfold wf_sd in H1. cbv zeta in H1. do 4 (apply andb_true_iff in H1; destruct H1 as [H1 _]).
    pose proof (stmt_nonempty _ _ H1). unfold pr_sd. rewrite app_length. lia.
  - repeat first [rewrite app_length | progress cbn [length]]. lia.
Qed.

Lemma quad_block_loop_S : forall f input0 acc,
  quad_block_loop (S f) input0 acc =
      let input := skip_ws input0 in
      match strip_prefix [125] input with
      | Some remaining => Ok (acc, remaining)
      | None =>
          do '(acc', i1) <-
            match keyword kw_graph input with
            | Ok (_, after_graph) =>
                do '(g, after_name) <- positioned (graph_name after_graph);
                do gi <- schar 123 after_name;
                graph_block_loop (S (length gi)) g gi acc
            | Err _ _ _ =>
                do '(ts, remaining) <- triples_statement (S (length input)) input;
                Ok (acc ++ map (fun t => (None, t)) ts, remaining)
            | Panic => Panic
            | Fuel => Fuel
            end;
          let i2 := skip_ws i1 in
          quad_block_loop f (match strip_prefix [46] i2 with Some r => r | None => i2 end) acc'
      end.
Proof. reflexivity. Qed.
Lemma quad_block_loop_skip : forall f x acc, Valid x -> quad_block_loop f (skip_ws x) acc = quad_block_loop f x acc.
Proof. intros [|f] x acc Hv; [reflexivity|]. rewrite !quad_block_loop_S. cbv zeta. now rewrite skip_ws_idem. Qed.
Lemma quad_block_loop_after : forall f d R acc, Valid R -> quad_block_loop f (after_dot d R) acc = quad_block_loop f R acc.
Proof. intros f [l|] R acc HR; [reflexivity|]. now apply quad_block_loop_skip. Qed.

Lemma quad_block_loop_rt : forall items fuel acc rb R, (length items < fuel)%nat -> wf_qitems items (lay_bytes rb ++ 125 :: R) = true -> lay_okb rb = true -> Valid R ->
  exists new, quad_block_loop fuel (pr_qitems items ++ lay_bytes rb ++ 125 :: R) acc = Ok (acc ++ new, R)
              /\ map strip_q new = flat_map tr_qitem items.
Proof.
  induction items as [|it t IH]; intros fuel acc rb R Hf H Hrb HR; (destruct fuel as [|f]; [cbn in Hf; lia|]); rewrite quad_block_loop_S; cbv zeta.
  - cbn [pr_qitems flat_map app]. rewrite lead_skip by (try assumption; try lia; reflexivity). rewrite strip1_some. exists []. now rewrite app_nil_r.
  - cbn [wf_qitems pr_qitems flat_map] in *. fold (pr_qitems t) in *. apply andb_true_iff in H. destruct H as [Hx Ht].
    assert (VR : Valid (lay_bytes rb ++ 125 :: R)) by (apply valid_app; [now apply lay_valid|now apply v1]).
    assert (VT : Valid (pr_qitems t ++ lay_bytes rb ++ 125 :: R)) by (apply valid_app; [eapply qitems_valid; eassumption|assumption]).
    set (R' := pr_qitems t ++ lay_bytes rb ++ 125 :: R) in *. rewrite <- app_assoc. fold R'.
    destruct it as [[st d]|kl kw name lb sds rb0 d]; cbn [wf_qitem pr_qitem tr_qitem fst] in *.
    + unfold wf_sd in Hx. cbv zeta in Hx. cbn [fst snd] in *.
      apply andb_true_iff in Hx. destruct Hx as [Hx N125]. apply andb_true_iff in Hx. destruct Hx as [Hx Hkw]. apply andb_true_iff in Hx. destruct Hx as [Hx Hd].
      apply andb_true_iff in Hx. destruct Hx as [Hst Hse].
      set (X := pr_dot d ++ R') in *.
      assert (VX : Valid X) by (apply valid_app; [apply dot_valid; eapply dot_end_dot; eassumption|assumption]).
      assert (VI0 : Valid (pr_stmt st ++ X)) by (apply valid_app; [eapply stmt_valid; eassumption|assumption]).
      assert (E0 : pr_sd (st, d) ++ R' = pr_stmt st ++ X) by (unfold pr_sd, X; cbn [fst snd]; now rewrite <- app_assoc).
      rewrite E0. apply nolead_ok in N125. unfold no_lead in N125. rewrite N125.
      rewrite keyword_skip by assumption. destruct (kwfree_err _ kw_graph _ Hkw ltac:(now left) ltac:(kw_a) VI0) as (? & ? & ? & ->).
      destruct (stmt_in_block st X Hst Hse VX) as (ts & Ets & Etr). rewrite Ets. cbn [bind].
      unfold X. rewrite (dot_step d R' Hd VT). rewrite quad_block_loop_after by assumption.
      destruct (IH f (acc ++ map (fun t0 => (None, t0)) ts) rb R ltac:(cbn in Hf; lia) Ht Hrb HR) as (new & En & Em).
      unfold R'. rewrite En. exists (map (fun t0 => (None, t0)) ts ++ new). split; [now rewrite <- app_assoc|].
      rewrite !map_app. f_equal; [|exact Em]. rewrite !map_map. unfold strip_q. cbn [fst snd option_map]. rewrite <- Etr, map_map. reflexivity.
    + cbv zeta in Hx.
      apply andb_true_iff in Hx. destruct Hx as [Hx Hd]. apply andb_true_iff in Hx. destruct Hx as [Hx Hs]. apply andb_true_iff in Hx. destruct Hx as [Hx Hrb0].
      apply andb_true_iff in Hx. destruct Hx as [Hx Hlb]. apply andb_true_iff in Hx. destruct Hx as [Hk Hn].
      set (X := pr_dot d ++ R') in *. set (B := lay_bytes lb ++ 123 :: pr_sds sds ++ lay_bytes rb0 ++ 125 :: X) in *.
      assert (VX : Valid X) by (apply valid_app; [apply dot_valid; eapply dot_end_dot; eassumption|assumption]).
      assert (VS : Valid (pr_sds sds ++ lay_bytes rb0 ++ 125 :: X)).
      { apply valid_app; [eapply sds_valid; eassumption|]. apply valid_app; [now apply lay_valid|now apply v1]. }
      assert (VB : Valid B) by (apply valid_app; [now apply lay_valid|now apply v1]).
      assert (VN : Valid (pr_o name ++ B)) by (apply valid_app; [eapply gname_valid; eassumption|assumption]).
      assert (E0 : (lay_bytes kl ++ kw ++ pr_o name ++ lay_bytes lb ++ 123 :: pr_sds sds ++ lay_bytes rb0 ++ 125 :: pr_dot d) ++ R' = lay_bytes kl ++ kw ++ pr_o name ++ B).
      { unfold B, X. repeat first [rewrite <- app_assoc | progress cbn [app]]. reflexivity. }
      rewrite E0.
      assert (Hk0 := Hk). unfold wf_kw in Hk0. apply andb_true_iff in Hk0. destruct Hk0 as [Hk0 _]. apply andb_true_iff in Hk0. destruct Hk0 as [Hkl Hkc].
      assert (VK : Valid (kw ++ pr_o name ++ B)) by (apply valid_app; [eapply (kw_valid kw_graph); [kw_a|eassumption]|assumption]).
      assert (VI0 : Valid (lay_bytes kl ++ kw ++ pr_o name ++ B)) by (apply valid_app; [now apply lay_valid|assumption]).
      destruct (kw_item_head kw_graph _ _ kw kl _ eq_refl eq_refl Hkl Hkc VK) as (b0 & t0 & Esk & Lb & _). pose proof (letter_le b0 Lb) as Hle.
      assert (E125 : strip_prefix [125] (skip_ws (lay_bytes kl ++ kw ++ pr_o name ++ B)) = None) by (rewrite Esk; apply strip1_none; lia).
      rewrite E125. rewrite keyword_skip by assumption.
      rewrite (wf_kw_rt kw_graph kw kl _ ltac:(kw_a) eq_refl Hk VN). unfold positioned. rewrite (gname_rt name B Hn VB). cbn [bind].
      unfold B. rewrite schar_roundtrip by (try assumption; try lia; try reflexivity; now apply lay_ok). cbn [bind].
      destruct (graph_block_loop_rt sds (S (length (pr_sds sds ++ lay_bytes rb0 ++ 125 :: X))) (term_text (oterm name), length B) acc rb0 X) as (new1 & En1 & Em1); try assumption.
      { rewrite app_length. pose proof (sds_length _ _ Hs). lia. }
      fold B. rewrite En1. cbn [bind].
      unfold X. rewrite (dot_step d R' Hd VT). rewrite quad_block_loop_after by assumption.
      destruct (IH f (acc ++ new1) rb R ltac:(cbn in Hf; lia) Ht Hrb HR) as (new & En & Em).
      unfold R'. rewrite En. exists (new1 ++ new). split; [now rewrite <- app_assoc|].
      rewrite map_app. f_equal; [exact Em1|exact Em].
Qed.

Record QBlock := { qb_l : L; qb_items : list QItem; qb_r : L }.
Definition pr_qb (q : QBlock) : str := lay_bytes (qb_l q) ++ 123 :: pr_qitems (qb_items q) ++ lay_bytes (qb_r q) ++ [125].
Definition tr_qb (q : QBlock) : list quad := flat_map tr_qitem (qb_items q).
Definition wf_qb (q : QBlock) (following : str) : bool :=
  lay_okb (qb_l q) && lay_okb (qb_r q) && wf_qitems (qb_items q) (lay_bytes (qb_r q) ++ 125 :: following).
Lemma qb_valid : forall q f, wf_qb q f = true -> Valid (pr_qb q).
Proof.
  intros q f H. unfold wf_qb in H. apply andb_true_iff in H. destruct H as [H Hi]. apply andb_true_iff in H. destruct H as [Hl Hr].
  unfold pr_qb. apply valid_app; [now apply lay_valid|]. apply v1; [lia|]. apply valid_app; [eapply qitems_valid; eassumption|].
  apply valid_app; [now apply lay_valid|apply valid_ascii; repeat constructor; lia].
Qed.
Theorem quad_block_rt : forall q R, wf_qb q R = true -> Valid R ->
  exists qs, quad_block (pr_qb q ++ R) = Ok (qs, R) /\ map strip_q qs = tr_qb q.
Proof.
  intros q R H HR. unfold wf_qb in H. apply andb_true_iff in H. destruct H as [H Hi]. apply andb_true_iff in H. destruct H as [Hl Hr].
  assert (VT : Valid (pr_qitems (qb_items q) ++ lay_bytes (qb_r q) ++ 125 :: R)).
  { apply valid_app; [eapply qitems_valid; eassumption|]. apply valid_app; [now apply lay_valid|now apply v1]. }
  assert (E0 : pr_qb q ++ R = lay_bytes (qb_l q) ++ 123 :: pr_qitems (qb_items q) ++ lay_bytes (qb_r q) ++ 125 :: R).
  { unfold pr_qb. repeat first [rewrite <- app_assoc | progress cbn [app]]. reflexivity. }
  rewrite E0. unfold quad_block. rewrite schar_roundtrip by (try assumption; try lia; try reflexivity; now apply lay_ok). cbn [bind].
  destruct (quad_block_loop_rt (qb_items q) (S (length (pr_qitems (qb_items q) ++ lay_bytes (qb_r q) ++ 125 :: R))) [] (qb_r q) R) as (new & En & Em); try assumption.
  { rewrite app_length. pose proof (qitems_length _ _ Hi). lia. }
  exists new. split; [exact En|exact Em].
Qed.

(* ---- the six update forms ---------------------------------------------------------------------------------------------------------- *)
Inductive UpdC :=
| UInsertData (l : L) (kw : str) (l2 : L) (kw2 : str) (qb : QBlock)
| UDeleteData (l : L) (kw : str) (l2 : L) (kw2 : str) (qb : QBlock)
| UInsertWhere (l : L) (kw : str) (qb : QBlock) (wl : L) (wkw : str) (p : Grp)
| UDeleteWhere (l : L) (kw : str) (qb : QBlock) (wl : L) (wkw : str) (p : Grp)
| UDeleteInsertWhere (l : L) (kw : str) (del : QBlock) (il : L) (ikw : str) (ins : QBlock) (wl : L) (wkw : str) (p : Grp)
| UDeleteWhereShort (l : L) (kw : str) (wl : L) (wkw : str) (qb : QBlock).

Definition pr_upd (u : UpdC) : str :=
  match u with
  | UInsertData l kw l2 kw2 qb | UDeleteData l kw l2 kw2 qb => lay_bytes l ++ kw ++ lay_bytes l2 ++ kw2 ++ pr_qb qb
  | UInsertWhere l kw qb wl wkw p | UDeleteWhere l kw qb wl wkw p => lay_bytes l ++ kw ++ pr_qb qb ++ lay_bytes wl ++ wkw ++ pr_grp p
  | UDeleteInsertWhere l kw del il ikw ins wl wkw p => lay_bytes l ++ kw ++ pr_qb del ++ lay_bytes il ++ ikw ++ pr_qb ins ++ lay_bytes wl ++ wkw ++ pr_grp p
  | UDeleteWhereShort l kw wl wkw qb => lay_bytes l ++ kw ++ lay_bytes wl ++ wkw ++ pr_qb qb
  end.
Definition tr_upd (u : UpdC) : update :=
  match u with
  | UInsertData _ _ _ _ qb => InsertData (tr_qb qb)
  | UDeleteData _ _ _ _ qb => DeleteData (tr_qb qb)
  | UInsertWhere _ _ qb _ _ p => InsertWhere (tr_qb qb) (tr_grp p)
  | UDeleteWhere _ _ qb _ _ p => DeleteWhere (tr_qb qb) (tr_grp p)
  | UDeleteInsertWhere _ _ del _ _ ins _ _ p => DeleteInsertWhere (tr_qb del) (tr_qb ins) (tr_grp p)
  | UDeleteWhereShort _ _ _ _ qb => DeleteWhereShorthand (tr_qb qb) (quads_to_group (tr_qb qb))
  end.
Definition sz_upd (u : UpdC) : nat :=
  match u with
  | UInsertWhere _ _ _ _ _ p | UDeleteWhere _ _ _ _ _ p | UDeleteInsertWhere _ _ _ _ _ _ _ _ p => sz_grp p
  | _ => O
  end.
Definition no_vars (qs : list quad) : bool := forallb (quad_plain is_variable_term true) qs.
Definition no_blanks (qs : list quad) : bool := forallb (quad_plain is_blank_term false) qs.
(* the syntactic part: keywords, blocks, pattern *)
Definition wf_upd_syntax (u : UpdC) (following : str) : bool :=
  match u with
  | UInsertData l kw l2 kw2 qb =>
      wf_kw kw_insert kw l (lay_bytes l2 ++ kw2 ++ pr_qb qb ++ following) && wf_kw kw_data kw2 l2 (pr_qb qb ++ following) && wf_qb qb following
  | UDeleteData l kw l2 kw2 qb =>
      wf_kw kw_delete kw l (lay_bytes l2 ++ kw2 ++ pr_qb qb ++ following) && wf_kw kw_data kw2 l2 (pr_qb qb ++ following) && wf_qb qb following
  | UInsertWhere l kw qb wl wkw p =>
      let x := lay_bytes wl ++ wkw ++ pr_grp p ++ following in
      wf_kw kw_insert kw l (pr_qb qb ++ x) && wf_qb qb x && wf_kw kw_where wkw wl (pr_grp p ++ following) && wf_grp p following
  | UDeleteWhere l kw qb wl wkw p =>
      let x := lay_bytes wl ++ wkw ++ pr_grp p ++ following in
      wf_kw kw_delete kw l (pr_qb qb ++ x) && wf_qb qb x && wf_kw kw_where wkw wl (pr_grp p ++ following) && wf_grp p following
  | UDeleteInsertWhere l kw del il ikw ins wl wkw p =>
      let x := lay_bytes wl ++ wkw ++ pr_grp p ++ following in
      let y := lay_bytes il ++ ikw ++ pr_qb ins ++ x in
      wf_kw kw_delete kw l (pr_qb del ++ y) && wf_qb del y && wf_kw kw_insert ikw il (pr_qb ins ++ x) && wf_qb ins x
      && wf_kw kw_where wkw wl (pr_grp p ++ following) && wf_grp p following
  | UDeleteWhereShort l kw wl wkw qb =>
      wf_kw kw_delete kw l (lay_bytes wl ++ wkw ++ pr_qb qb ++ following) && wf_kw kw_where wkw wl (pr_qb qb ++ following) && wf_qb qb following
  end.
(* the DATA-block checks of the parser: no variable in DATA blocks, no blank node in anything that is deleted *)
Definition wf_upd_terms (u : UpdC) : bool :=
  match u with
  | UInsertData _ _ _ _ qb => no_vars (tr_qb qb)
  | UDeleteData _ _ _ _ qb => no_vars (tr_qb qb) && no_blanks (tr_qb qb)
  | UInsertWhere _ _ _ _ _ _ => true
  | UDeleteWhere _ _ qb _ _ _ => no_blanks (tr_qb qb)
  | UDeleteInsertWhere _ _ del _ _ _ _ _ _ => no_blanks (tr_qb del)
  | UDeleteWhereShort _ _ _ _ qb => no_blanks (tr_qb qb)
  end.
Definition wf_upd (u : UpdC) (following : str) : bool := wf_upd_syntax u following && wf_upd_terms u.

Lemma kw_other_err : forall kw k kw' kwo ko kwo' txt l x, kw = k :: kw' -> kwo = ko :: kwo' -> is_ascii_alpha k = true ->
  ascii_lower k <> ascii_lower ko -> wf_kw kw txt l x = true -> ascii_str kw -> Valid x -> is_err (keyword kwo (lay_bytes l ++ txt ++ x)).
Proof.
  intros kw k kw' kwo ko kwo' txt l x Ek Eo Hk Hne H Ha Hx. unfold wf_kw in H. apply andb_true_iff in H. destruct H as [H _]. apply andb_true_iff in H. destruct H as [Hl Hc].
  assert (VT : Valid (txt ++ x)) by (apply valid_app; [eapply kw_valid; eassumption|assumption]).
  destruct (kw_item_head kw k kw' txt l x Ek Hk Hl Hc VT) as (b & t & Esk & _ & Hlow).
  apply (keyword_fail kwo ko kwo' _ b t Eo Esk). congruence.
Qed.
Lemma qb_kw_err : forall kwo ko kwo' q f x, kwo = ko :: kwo' -> is_ascii_alpha ko = true -> wf_qb q f = true -> Valid x -> is_err (keyword kwo (pr_qb q ++ x)).
Proof.
  intros kwo ko kwo' q f x Eo Hk H Hx. pose proof (qb_valid _ _ H) as Vq. unfold wf_qb in H. apply andb_true_iff in H. destruct H as [H _]. apply andb_true_iff in H. destruct H as [Hl _].
  unfold pr_qb in *. repeat first [rewrite <- app_assoc | progress cbn [app]].
  apply (brace_kw_err kwo ko kwo' _ _ Eo Hk Hl).
  assert (V : Valid ((lay_bytes (qb_l q) ++ 123 :: pr_qitems (qb_items q) ++ lay_bytes (qb_r q) ++ [125]) ++ x)) by now apply valid_app.
  repeat first [rewrite <- app_assoc in V | progress cbn [app] in V]. now destruct (valid_split_ascii _ _ _ V ltac:(lia)) as (_ & _ & ?).
Qed.

Lemma no_vars_ok : forall (qs : list pquad), no_vars (map strip_q qs) = true -> quads_first_variable qs = Ok None.
Proof. intros qs H. now apply quads_first_plain. Qed.
Lemma no_blanks_ok : forall (qs : list pquad), no_blanks (map strip_q qs) = true -> quads_first_blank_node qs = Ok None.
Proof. intros qs H. now apply quads_first_plain. Qed.
Lemma kw_text_nonempty : forall kw k kw' txt l x, kw = k :: kw' -> is_ascii_alpha k = true -> wf_kw kw txt l x = true -> ascii_str kw -> Valid x ->
  Nat.eqb (length (skip_ws (lay_bytes l ++ txt ++ x))) 0 = false.
Proof.
  intros kw k kw' txt l x Ek Hk H Ha Hx. unfold wf_kw in H. apply andb_true_iff in H. destruct H as [H _]. apply andb_true_iff in H. destruct H as [Hl Hc].
  assert (VT : Valid (txt ++ x)) by (apply valid_app; [eapply kw_valid; eassumption|assumption]).
  destruct (kw_item_head kw k kw' txt l x Ek Hk Hl Hc VT) as (b & t & Esk & _). now rewrite Esk.
Qed.

Ltac split3 H A B C := apply andb_true_iff in H; destruct H as [H C]; apply andb_true_iff in H; destruct H as [A B].

Theorem update_rt : forall u fuel allow R, (sz_upd u <= fuel)%nat -> wf_upd u R = true -> Valid R ->
  update_core fuel allow (pr_upd u ++ R) = Ok (tr_upd u, R).
Proof.
  intros u fuel allow R Hf H HR. unfold wf_upd in H. apply andb_true_iff in H. destruct H as [H Ht].
  assert (Ains : ascii_str kw_insert) by kw_a. assert (Adel : ascii_str kw_delete) by kw_a. assert (Adat : ascii_str kw_data) by kw_a. assert (Awh : ascii_str kw_where) by kw_a.
  destruct u as [l kw l2 kw2 qb|l kw l2 kw2 qb|l kw qb wl wkw p|l kw qb wl wkw p|l kw del il ikw ins wl wkw p|l kw wl wkw qb];
    cbn [wf_upd_syntax wf_upd_terms pr_upd tr_upd sz_upd] in *; cbv zeta in H; unfold update_core.
  - (* INSERT DATA *)
    split3 H Hk Hk2 Hq. repeat rewrite <- app_assoc.
    assert (VQ : Valid (pr_qb qb ++ R)) by (apply valid_app; [eapply qb_valid; eassumption|assumption]).
    assert (V2 : Valid (lay_bytes l2 ++ kw2 ++ pr_qb qb ++ R)) by (rewrite app_assoc; apply valid_app; [eapply wf_kw_valid; [|eassumption]; kw_a|assumption]).
    rewrite (wf_kw_rt kw_insert _ _ _ Ains eq_refl Hk V2). rewrite (wf_kw_rt kw_data _ _ _ Adat eq_refl Hk2 VQ).
    destruct (quad_block_rt qb R Hq HR) as (qs & Eq & Em). rewrite Eq. cbn [bind]. rewrite <- Em in Ht. rewrite (no_vars_ok qs Ht). cbn [bind reject_if]. now rewrite Em.
  - (* DELETE DATA *)
    split3 H Hk Hk2 Hq. apply andb_true_iff in Ht. destruct Ht as [Hv Hb]. repeat rewrite <- app_assoc.
    assert (VQ : Valid (pr_qb qb ++ R)) by (apply valid_app; [eapply qb_valid; eassumption|assumption]).
    assert (V2 : Valid (lay_bytes l2 ++ kw2 ++ pr_qb qb ++ R)) by (rewrite app_assoc; apply valid_app; [eapply wf_kw_valid; [|eassumption]; kw_a|assumption]).
    destruct (kw_other_err kw_delete _ _ kw_insert _ _ kw l _ eq_refl eq_refl eq_refl ltac:(cbv; discriminate) Hk Adel V2) as (? & ? & ? & ->).
    rewrite (wf_kw_rt kw_delete _ _ _ Adel eq_refl Hk V2). cbn [bind]. rewrite (wf_kw_rt kw_data _ _ _ Adat eq_refl Hk2 VQ).
    destruct (quad_block_rt qb R Hq HR) as (qs & Eq & Em). rewrite Eq. cbn [bind]. rewrite <- Em in Hv, Hb. rewrite (no_vars_ok qs Hv). cbn [bind or_else_opt].
    rewrite (no_blanks_ok qs Hb). cbn [bind reject_if]. now rewrite Em.
  - (* INSERT { } WHERE { } *)
    apply andb_true_iff in H. destruct H as [H Hp]. split3 H Hk Hq Hw. repeat rewrite <- app_assoc.
    assert (VP : Valid (pr_grp p ++ R)) by (apply valid_app; [eapply grp_valid; eassumption|assumption]).
    assert (VX : Valid (lay_bytes wl ++ wkw ++ pr_grp p ++ R)) by (rewrite app_assoc; apply valid_app; [eapply wf_kw_valid; [|eassumption]; kw_a|assumption]).
    assert (VQ : Valid (pr_qb qb ++ lay_bytes wl ++ wkw ++ pr_grp p ++ R)) by (apply valid_app; [eapply qb_valid; eassumption|assumption]).
    rewrite (wf_kw_rt kw_insert _ _ _ Ains eq_refl Hk VQ).
    destruct (qb_kw_err kw_data _ _ qb _ (lay_bytes wl ++ wkw ++ pr_grp p ++ R) eq_refl eq_refl Hq VX) as (? & ? & ? & ->).
    destruct (quad_block_rt qb _ Hq VX) as (qs & Eq & Em). rewrite Eq. cbn [bind].
    rewrite (wf_kw_rt kw_where _ _ _ Awh eq_refl Hw VP).
    rewrite (proj1 (proj2 (proj2 (proj2 group_rt))) p fuel R Hf Hp HR). cbn [bind]. now rewrite Em.
  - (* DELETE { } WHERE { } *)
    apply andb_true_iff in H. destruct H as [H Hp]. split3 H Hk Hq Hw. repeat rewrite <- app_assoc.
    assert (VP : Valid (pr_grp p ++ R)) by (apply valid_app; [eapply grp_valid; eassumption|assumption]).
    assert (VX : Valid (lay_bytes wl ++ wkw ++ pr_grp p ++ R)) by (rewrite app_assoc; apply valid_app; [eapply wf_kw_valid; [|eassumption]; kw_a|assumption]).
    assert (VQ : Valid (pr_qb qb ++ lay_bytes wl ++ wkw ++ pr_grp p ++ R)) by (apply valid_app; [eapply qb_valid; eassumption|assumption]).
    destruct (kw_other_err kw_delete _ _ kw_insert _ _ kw l _ eq_refl eq_refl eq_refl ltac:(cbv; discriminate) Hk Adel VQ) as (? & ? & ? & ->).
    rewrite (wf_kw_rt kw_delete _ _ _ Adel eq_refl Hk VQ). cbn [bind].
    destruct (qb_kw_err kw_data _ _ qb _ (lay_bytes wl ++ wkw ++ pr_grp p ++ R) eq_refl eq_refl Hq VX) as (? & ? & ? & ->).
    destruct (qb_kw_err kw_where _ _ qb _ (lay_bytes wl ++ wkw ++ pr_grp p ++ R) eq_refl eq_refl Hq VX) as (? & ? & ? & ->).
    destruct (quad_block_rt qb _ Hq VX) as (qs & Eq & Em). rewrite Eq. cbn [bind]. rewrite <- Em in Ht. rewrite (no_blanks_ok qs Ht). cbn [bind reject_if].
    rewrite (kw_text_nonempty kw_where _ _ wkw wl _ eq_refl eq_refl Hw Awh VP), andb_false_r.
    destruct (kw_other_err kw_where _ _ kw_insert _ _ wkw wl _ eq_refl eq_refl eq_refl ltac:(cbv; discriminate) Hw Awh VP) as (? & ? & ? & ->). cbn [bind].
    rewrite (wf_kw_rt kw_where _ _ _ Awh eq_refl Hw VP). cbn [bind].
    rewrite (proj1 (proj2 (proj2 (proj2 group_rt))) p fuel R Hf Hp HR). cbn [bind]. now rewrite Em.
  - (* DELETE { } INSERT { } WHERE { } *)
    apply andb_true_iff in H. destruct H as [H Hp]. apply andb_true_iff in H. destruct H as [H Hw]. apply andb_true_iff in H. destruct H as [H Hqi].
    split3 H Hk Hqd Hki. repeat rewrite <- app_assoc.
    assert (VP : Valid (pr_grp p ++ R)) by (apply valid_app; [eapply grp_valid; eassumption|assumption]).
    assert (VX : Valid (lay_bytes wl ++ wkw ++ pr_grp p ++ R)) by (rewrite app_assoc; apply valid_app; [eapply wf_kw_valid; [|eassumption]; kw_a|assumption]).
    assert (VQI : Valid (pr_qb ins ++ lay_bytes wl ++ wkw ++ pr_grp p ++ R)) by (apply valid_app; [eapply qb_valid; eassumption|assumption]).
    assert (VY : Valid (lay_bytes il ++ ikw ++ pr_qb ins ++ lay_bytes wl ++ wkw ++ pr_grp p ++ R)) by (rewrite app_assoc; apply valid_app; [eapply wf_kw_valid; [|eassumption]; kw_a|assumption]).
    assert (VQ : Valid (pr_qb del ++ lay_bytes il ++ ikw ++ pr_qb ins ++ lay_bytes wl ++ wkw ++ pr_grp p ++ R)) by (apply valid_app; [eapply qb_valid; eassumption|assumption]).
    destruct (kw_other_err kw_delete _ _ kw_insert _ _ kw l _ eq_refl eq_refl eq_refl ltac:(cbv; discriminate) Hk Adel VQ) as (? & ? & ? & ->).
    rewrite (wf_kw_rt kw_delete _ _ _ Adel eq_refl Hk VQ). cbn [bind].
    destruct (qb_kw_err kw_data _ _ del _ _ eq_refl eq_refl Hqd VY) as (? & ? & ? & ->).
    destruct (qb_kw_err kw_where _ _ del _ _ eq_refl eq_refl Hqd VY) as (? & ? & ? & ->).
    destruct (quad_block_rt del _ Hqd VY) as (qs & Eq & Em). rewrite Eq. cbn [bind]. rewrite <- Em in Ht. rewrite (no_blanks_ok qs Ht). cbn [bind reject_if].
    rewrite (kw_text_nonempty kw_insert _ _ ikw il _ eq_refl eq_refl Hki Ains VQI), andb_false_r.
    rewrite (wf_kw_rt kw_insert _ _ _ Ains eq_refl Hki VQI).
    destruct (quad_block_rt ins _ Hqi VX) as (qs2 & Eq2 & Em2). rewrite Eq2. cbn [bind].
    rewrite (wf_kw_rt kw_where _ _ _ Awh eq_refl Hw VP). cbn [bind].
    rewrite (proj1 (proj2 (proj2 (proj2 group_rt))) p fuel R Hf Hp HR). cbn [bind]. now rewrite Em, Em2.
  - (* DELETE WHERE { } *)
    split3 H Hk Hw Hq. repeat rewrite <- app_assoc.
    assert (VQ : Valid (pr_qb qb ++ R)) by (apply valid_app; [eapply qb_valid; eassumption|assumption]).
    assert (V2 : Valid (lay_bytes wl ++ wkw ++ pr_qb qb ++ R)) by (rewrite app_assoc; apply valid_app; [eapply wf_kw_valid; [|eassumption]; kw_a|assumption]).
    destruct (kw_other_err kw_delete _ _ kw_insert _ _ kw l _ eq_refl eq_refl eq_refl ltac:(cbv; discriminate) Hk Adel V2) as (? & ? & ? & ->).
    rewrite (wf_kw_rt kw_delete _ _ _ Adel eq_refl Hk V2). cbn [bind].
    destruct (kw_other_err kw_where _ _ kw_data _ _ wkw wl _ eq_refl eq_refl eq_refl ltac:(cbv; discriminate) Hw Awh VQ) as (? & ? & ? & ->).
    rewrite (wf_kw_rt kw_where _ _ _ Awh eq_refl Hw VQ).
    destruct (quad_block_rt qb R Hq HR) as (qs & Eq & Em). rewrite Eq. cbn [bind]. rewrite <- Em in Ht. rewrite (no_blanks_ok qs Ht). cbn [bind reject_if]. now rewrite Em.
Qed.

(* ---- through parse_top ---------------------------------------------------------------------------------------------------------------- *)
Lemma update_core_skip : forall f a x, Valid x -> update_core f a (skip_ws x) = update_core f a x.
Proof. intros f a x Hv. unfold update_core. now rewrite !keyword_skip. Qed.

Lemma upd_head : forall u x, wf_upd_syntax u x = true -> Valid x ->
  exists K k K' txt l X, pr_upd u ++ x = lay_bytes l ++ txt ++ X /\ wf_kw K txt l X = true /\ K = k :: K' /\ (K = kw_insert \/ K = kw_delete) /\ Valid X.
Proof.
  intros u x H Hx. assert (Awh : ascii_str kw_where) by kw_a. assert (Adat : ascii_str kw_data) by kw_a. assert (Ains : ascii_str kw_insert) by kw_a.
  destruct u as [l kw l2 kw2 qb|l kw l2 kw2 qb|l kw qb wl wkw p|l kw qb wl wkw p|l kw del il ikw ins wl wkw p|l kw wl wkw qb];
    cbn [wf_upd_syntax pr_upd] in *; cbv zeta in H.
  - split3 H Hk Hk2 Hq. exists kw_insert, (hd 0 kw_insert), (List.tl kw_insert), kw, l, (lay_bytes l2 ++ kw2 ++ pr_qb qb ++ x). repeat rewrite <- app_assoc. repeat split; auto.
    rewrite app_assoc. apply valid_app; [eapply wf_kw_valid; [|eassumption]; kw_a|]. apply valid_app; [eapply qb_valid; eassumption|assumption].
  - split3 H Hk Hk2 Hq. exists kw_delete, (hd 0 kw_delete), (List.tl kw_delete), kw, l, (lay_bytes l2 ++ kw2 ++ pr_qb qb ++ x). repeat rewrite <- app_assoc. repeat split; auto.
    rewrite app_assoc. apply valid_app; [eapply wf_kw_valid; [|eassumption]; kw_a|]. apply valid_app; [eapply qb_valid; eassumption|assumption].
  - apply andb_true_iff in H. destruct H as [H Hp]. split3 H Hk Hq Hw. exists kw_insert, (hd 0 kw_insert), (List.tl kw_insert), kw, l, (pr_qb qb ++ lay_bytes wl ++ wkw ++ pr_grp p ++ x).
    repeat rewrite <- app_assoc. repeat split; auto. apply valid_app; [eapply qb_valid; eassumption|]. rewrite app_assoc.
    apply valid_app; [eapply wf_kw_valid; [|eassumption]; kw_a|]. apply valid_app; [eapply grp_valid; eassumption|assumption].
  - apply andb_true_iff in H. destruct H as [H Hp]. split3 H Hk Hq Hw. exists kw_delete, (hd 0 kw_delete), (List.tl kw_delete), kw, l, (pr_qb qb ++ lay_bytes wl ++ wkw ++ pr_grp p ++ x).
    repeat rewrite <- app_assoc. repeat split; auto. apply valid_app; [eapply qb_valid; eassumption|]. rewrite app_assoc.
    apply valid_app; [eapply wf_kw_valid; [|eassumption]; kw_a|]. apply valid_app; [eapply grp_valid; eassumption|assumption].
  - apply andb_true_iff in H. destruct H as [H Hp]. apply andb_true_iff in H. destruct H as [H Hw]. apply andb_true_iff in H. destruct H as [H Hqi]. split3 H Hk Hqd Hki.
    exists kw_delete, (hd 0 kw_delete), (List.tl kw_delete), kw, l, (pr_qb del ++ lay_bytes il ++ ikw ++ pr_qb ins ++ lay_bytes wl ++ wkw ++ pr_grp p ++ x).
    repeat rewrite <- app_assoc. repeat split; auto. apply valid_app; [eapply qb_valid; eassumption|]. rewrite app_assoc.
    apply valid_app; [eapply wf_kw_valid; [|eassumption]; kw_a|]. apply valid_app; [eapply qb_valid; eassumption|]. rewrite app_assoc.
    apply valid_app; [eapply wf_kw_valid; [|eassumption]; kw_a|]. apply valid_app; [eapply grp_valid; eassumption|assumption].
  - split3 H Hk Hw Hq. exists kw_delete, (hd 0 kw_delete), (List.tl kw_delete), kw, l, (lay_bytes wl ++ wkw ++ pr_qb qb ++ x). repeat rewrite <- app_assoc. repeat split; auto.
    rewrite app_assoc. apply valid_app; [eapply wf_kw_valid; [|eassumption]; kw_a|]. apply valid_app; [eapply qb_valid; eassumption|assumption].
Qed.

Theorem top_update_roundtrip : forall ps u e fuel aliases, (sz_upd u <= fuel)%nat -> forallb wf_prefix ps = true -> wf_upd u (pr_end e) = true -> wf_end e = true ->
  parse_top fuel aliases (pr_prologue ps ++ pr_upd u ++ pr_end e) = Ok (TUpdate (tr_prologue ps []) (tr_upd u)).
Proof.
  intros ps u e fuel aliases Hf Hps H He. destruct (end_facts e He) as [Ee Ve].
  pose proof (update_rt u fuel aliases _ Hf H Ve) as U. unfold wf_upd in H. apply andb_true_iff in H. destruct H as [Hs _].
  destruct (upd_head u _ Hs Ve) as (K & k & K' & txt & l & X & E0 & Hk & EK & HK & VX).
  assert (AK : ascii_str K) by (destruct HK as [HK|HK]; rewrite HK; kw_a). assert (Hal : is_ascii_alpha k = true) by (destruct HK as [HK|HK]; rewrite HK in EK; injection EK as <- _; reflexivity).
  assert (Hlow : ascii_lower k = 105 \/ ascii_lower k = 100) by (destruct HK as [HK|HK]; rewrite HK in EK; injection EK as <- _; [left|right]; reflexivity).
  set (T := pr_upd u ++ pr_end e) in *.
  assert (VT : Valid T). { rewrite E0. apply valid_app; [unfold wf_kw in Hk; apply andb_true_iff in Hk; destruct Hk as [Hk _]; apply andb_true_iff in Hk; destruct Hk; now apply lay_valid|]. apply valid_app; [|assumption].
    unfold wf_kw in Hk. apply andb_true_iff in Hk. destruct Hk as [Hk _]. apply andb_true_iff in Hk. destruct Hk. eapply kw_valid; eassumption. }
  assert (Fail : forall kwo ko kwo', kwo = ko :: kwo' -> ascii_lower ko <> 105 -> ascii_lower ko <> 100 -> is_err (keyword kwo T)).
  { intros kwo ko kwo' Eo H1 H2. rewrite E0. eapply (kw_other_err K k K' kwo ko kwo'); try eassumption. destruct Hlow as [-> | ->]; congruence. }
  assert (Esk : exists b t, skip_ws T = b :: t).
  { rewrite E0. unfold wf_kw in Hk. apply andb_true_iff in Hk. destruct Hk as [Hk _]. apply andb_true_iff in Hk. destruct Hk as [Hl Hc].
    destruct (kw_item_head K k K' txt l X EK Hal Hl Hc ltac:(apply valid_app; [eapply kw_valid; eassumption|assumption])) as (b & t & Esk & _). eauto. }
  destruct Esk as (b & t & Esk).
  unfold parse_top, sparql_prefixes. rewrite (prefixes_loop_rt ps _ [] T); try assumption.
  2:{ rewrite app_length. pose proof (prologue_length ps Hps). lia. }
  2:{ apply (Fail kw_prefix _ _ eq_refl); cbv; discriminate. }
  cbn [bind]. rewrite update_core_skip by assumption. rewrite !starts_keyword_skip by assumption. rewrite Esk.
  rewrite (starts_keyword_false _ _ (Fail kw_select _ _ eq_refl ltac:(cbv; discriminate) ltac:(cbv; discriminate))). cbn [bind].
  assert (U0 := U). unfold update_core in U0. unfold starts_keyword.
  destruct (keyword kw_insert T) as [[m r]|? ? ?| |] eqn:Ei; try discriminate.
  - cbn [bind]. rewrite U. cbn [bind]. unfold finish. now rewrite Ee.
  - cbn [bind]. destruct (keyword kw_delete T) as [[m r]|? ? ?| |] eqn:Ed; try discriminate.
    cbn [bind]. rewrite U. cbn [bind]. unfold finish. now rewrite Ee.
Qed.

(* ---- the DATA-block checks reject: a variable in INSERT DATA / DELETE DATA, a blank node in DELETE DATA ------------------------------ *)
Lemma plain_of_simple : forall is_hit wg qs, forallb quad_simple qs = true -> existsb (quad_hit is_hit wg) qs = false -> forallb (quad_plain is_hit wg) qs = true.
Proof.
  intros is_hit wg. induction qs as [|[g [[s p] o]] t IH]; intros Hs Hh; [reflexivity|]. cbn [forallb existsb] in *.
  apply andb_true_iff in Hs. destruct Hs as [Hq Ht]. apply orb_false_iff in Hh. destruct Hh as [Hh Hht]. rewrite (IH Ht Hht), andb_true_r.
  unfold quad_simple, quad_hit, quad_plain, plain_tok, tok_simple in *.
  apply andb_true_iff in Hq. destruct Hq as [Hq Ho]. apply andb_true_iff in Hq. destruct Hq as [Hq Hp]. apply andb_true_iff in Hq. destruct Hq as [Hg Hsu].
  apply orb_false_iff in Hh. destruct Hh as [Hh Hho]. apply orb_false_iff in Hh. destruct Hh as [Hh Hhp]. apply orb_false_iff in Hh. destruct Hh as [Hhg Hhs].
  rewrite Hhs, Hhp, Hho, Hsu, Hp, Ho. cbn [negb andb]. rewrite andb_true_r. destruct g as [gt|]; [|reflexivity]. destruct wg; [|reflexivity].
  cbn [andb] in Hhg. now rewrite Hhg, Hg.
Qed.

Theorem insert_data_rejects_variables : forall l kw l2 kw2 qb fuel allow R,
  wf_upd_syntax (UInsertData l kw l2 kw2 qb) R = true -> forallb quad_simple (tr_qb qb) = true ->
  existsb (quad_hit is_variable_term true) (tr_qb qb) = true -> Valid R ->
  is_err (update_core fuel allow (pr_upd (UInsertData l kw l2 kw2 qb) ++ R)).
Proof.
  intros l kw l2 kw2 qb fuel allow R H Hs Hh HR. cbn [wf_upd_syntax pr_upd] in *. split3 H Hk Hk2 Hq. repeat rewrite <- app_assoc.
  assert (Ains : ascii_str kw_insert) by kw_a. assert (Adat : ascii_str kw_data) by kw_a.
  assert (VQ : Valid (pr_qb qb ++ R)) by (apply valid_app; [eapply qb_valid; eassumption|assumption]).
  assert (V2 : Valid (lay_bytes l2 ++ kw2 ++ pr_qb qb ++ R)) by (rewrite app_assoc; apply valid_app; [eapply wf_kw_valid; [|eassumption]; kw_a|assumption]).
  unfold update_core. rewrite (wf_kw_rt kw_insert _ _ _ Ains eq_refl Hk V2). rewrite (wf_kw_rt kw_data _ _ _ Adat eq_refl Hk2 VQ).
  destruct (quad_block_rt qb R Hq HR) as (qs & Eq & Em). rewrite Eq. cbn [bind]. rewrite <- Em in Hs, Hh.
  destruct (quads_first_hit is_variable_term true qs Hs Hh) as ([ln en] & Ex). unfold quads_first_variable. rewrite Ex. cbn [bind reject_if]. repeat eexists.
Qed.

Theorem delete_data_rejects_variables_and_blank_nodes : forall l kw l2 kw2 qb fuel allow R,
  wf_upd_syntax (UDeleteData l kw l2 kw2 qb) R = true -> forallb quad_simple (tr_qb qb) = true ->
  existsb (quad_hit is_variable_term true) (tr_qb qb) || existsb (quad_hit is_blank_term false) (tr_qb qb) = true -> Valid R ->
  is_err (update_core fuel allow (pr_upd (UDeleteData l kw l2 kw2 qb) ++ R)).
Proof.
  intros l kw l2 kw2 qb fuel allow R H Hs Hh HR. cbn [wf_upd_syntax pr_upd] in *. split3 H Hk Hk2 Hq. repeat rewrite <- app_assoc.
  assert (Adel : ascii_str kw_delete) by kw_a. assert (Adat : ascii_str kw_data) by kw_a.
  assert (VQ : Valid (pr_qb qb ++ R)) by (apply valid_app; [eapply qb_valid; eassumption|assumption]).
  assert (V2 : Valid (lay_bytes l2 ++ kw2 ++ pr_qb qb ++ R)) by (rewrite app_assoc; apply valid_app; [eapply wf_kw_valid; [|eassumption]; kw_a|assumption]).
  unfold update_core.
  destruct (kw_other_err kw_delete _ _ kw_insert _ _ kw l _ eq_refl eq_refl eq_refl ltac:(cbv; discriminate) Hk Adel V2) as (? & ? & ? & ->).
  rewrite (wf_kw_rt kw_delete _ _ _ Adel eq_refl Hk V2). cbn [bind]. rewrite (wf_kw_rt kw_data _ _ _ Adat eq_refl Hk2 VQ).
  destruct (quad_block_rt qb R Hq HR) as (qs & Eq & Em). rewrite Eq. cbn [bind]. rewrite <- Em in Hs, Hh.
  destruct (existsb (quad_hit is_variable_term true) (map strip_q qs)) eqn:Ev.
  - destruct (quads_first_hit is_variable_term true qs Hs Ev) as ([ln en] & Ex). unfold quads_first_variable. rewrite Ex. cbn [bind or_else_opt reject_if]. repeat eexists.
  - cbn [orb] in Hh. unfold quads_first_variable. rewrite (quads_first_plain _ _ qs (plain_of_simple _ _ _ Hs Ev)). cbn [bind or_else_opt].
    destruct (quads_first_hit is_blank_term false qs Hs Hh) as ([ln en] & Ex). unfold quads_first_blank_node. rewrite Ex. cbn [bind reject_if]. repeat eexists.
Qed.

Lemma upd_size : forall u f, wf_upd_syntax u f = true -> (sz_upd u <= 3 * length (pr_upd u))%nat.
Proof.
  intros u f H. destruct u as [l kw l2 kw2 qb|l kw l2 kw2 qb|l kw qb wl wkw p|l kw qb wl wkw p|l kw del il ikw ins wl wkw p|l kw wl wkw qb];
    cbn [wf_upd_syntax pr_upd sz_upd] in *; cbv zeta in H; try lia.
  all: apply andb_true_iff in H; destruct H as [_ Hp]; pose proof (proj1 (proj2 (proj2 (proj2 group_size))) p _ Hp); repeat first [rewrite app_length | progress cbn [length]]; lia.
Qed.

Theorem top_update_roundtrip_default : forall ps u e aliases, forallb wf_prefix ps = true -> wf_upd u (pr_end e) = true -> wf_end e = true ->
  let text := pr_prologue ps ++ pr_upd u ++ pr_end e in
  parse_top (default_fuel text) aliases text = Ok (TUpdate (tr_prologue ps []) (tr_upd u)).
Proof.
  intros ps u e aliases Hps H He text. apply top_update_roundtrip; try assumption.
  unfold wf_upd in H. apply andb_true_iff in H. destruct H as [Hs _]. pose proof (upd_size u _ Hs). unfold default_fuel, text. rewrite !app_length. lia.
Qed.
