(* Safety of the grammar model on valid UTF-8: no slice of the recursive parser panics, and whatever a parser
   function returns as "remaining input" is a suffix of its input cut at a character boundary. *)
Require Import List NArith Bool PeanoNat Lia ZifyBool ZifyN.
Require Import KV.Parser.Utf8 KV.Parser.Unicode KV.Parser.Keywords KV.Parser.Scanners KV.Parser.Grammar.
Require Import KV.Parser.Utf8Proofs KV.Parser.ScannerProofs.
Import ListNotations.
Open Scope N_scope.

Definition ascii_strb (l : str) : bool := forallb (fun b => b <? 128) l && negb (Nat.eqb (length l) 0).
Lemma ascii_strb_ok : forall l, ascii_strb l = true -> ascii_str l /\ l <> [].
Proof.
  intros l H. apply andb_true_iff in H. destruct H as [H1 H2]. split.
  - unfold ascii_str. apply Forall_forall. intros b Hb. rewrite forallb_forall in H1. specialize (H1 b Hb). lia.
  - intro E. subst l. discriminate.
Qed.
Ltac kw_a := match goal with |- ascii_str ?l => exact (proj1 (ascii_strb_ok l eq_refl)) end.
Ltac kw_n := match goal with |- ?l <> [] => exact (proj2 (ascii_strb_ok l eq_refl)) end.
Ltac kw_side := first [ kw_a | kw_n ].

(* b is a suffix of a that starts at a character boundary *)
Definition Suf (a b : str) : Prop := exists e, Bnd a e /\ b = skipn e a.

Lemma suf_refl : forall a, Valid a -> Suf a a.
Proof. intros a Hv. exists 0%nat. split; [now apply valid_bnd_0|reflexivity]. Qed.

Lemma suf_trans : forall a b c, Suf a b -> Suf b c -> Suf a c.
Proof.
  intros a b c (e1 & B1 & ->) (e2 & B2 & ->). exists (e1 + e2)%nat. split; [now apply bnd_skipn_add|].
  apply skipn_plus.
Qed.

Lemma suf_valid : forall a b, Suf a b -> Valid b.
Proof. intros a b (e & B & ->). now apply bnd_skipn_valid. Qed.

Lemma suf_valid_l : forall a b, Suf a b -> Valid a.
Proof. intros a b (e & B & _). now apply (bnd_valid _ _ B). Qed.

Lemma suf_skip_ws : forall s, Valid s -> Suf s (skip_ws s).
Proof. intros s Hv. destruct (skip_ws_bnd s Hv) as (k & B & E). exists k. auto. Qed.

Lemma suf_pos : forall a b, Suf a b -> Bnd a (length a - length b) /\ b = skipn (length a - length b) a.
Proof.
  intros a b (e & B & ->). pose proof (bnd_le _ _ B). rewrite skipn_length.
  replace (length a - (length a - e))%nat with e by lia. auto.
Qed.

Lemma suf_length : forall a b, Suf a b -> (length b <= length a)%nat.
Proof. intros a b (e & B & ->). rewrite skipn_length. lia. Qed.

Lemma suf_strip : forall p s r, Valid s -> ascii_str p -> p <> [] -> strip_prefix p s = Some r -> Suf s r.
Proof. intros p s r Hv Hp Hne H. destruct (strip_prefix_bnd p s r Hv Hp Hne H) as [-> B]. exists (length p). auto. Qed.

(* result shapes: "S" variants allow Fuel (no claim about fuel), never Panic *)
Definition SafeT (s : str) (r : res (str * str)) : Prop :=
  match r with
  | Ok (tok, rest) => exists e, Bnd (skip_ws s) e /\ (0 < e)%nat /\ tok = firstn e (skip_ws s) /\ rest = skipn e (skip_ws s)
  | Panic => False
  | _ => True
  end.

Definition SafeP {A} (s : str) (r : res (A * str)) : Prop :=
  match r with
  | Ok a => Suf s (snd a)
  | Panic => False
  | _ => True
  end.

Lemma good_safeT : forall s r, Good s r -> SafeT s r.
Proof. intros s [[t r]| | |]; cbn; auto. Qed.

Lemma safeT_safeP : forall s r, Valid s -> SafeT s r -> SafeP s r.
Proof.
  intros s [[t r]| | |] Hv; cbn; auto. intros (e & B & _ & _ & ->).
  apply (suf_trans _ (skip_ws s)); [now apply suf_skip_ws|]. exists e. auto.
Qed.

Lemma safeT_tok_valid : forall s t r, Valid s -> SafeT s (Ok (t, r)) -> Valid t /\ Valid r /\ t <> [].
Proof.
  intros s t r Hv (e & B & He & -> & ->). split; [now apply bnd_firstn_valid|]. split; [now apply bnd_skipn_valid|].
  intro E. assert (length (firstn e (skip_ws s)) = 0%nat) by now rewrite E. rewrite firstn_length in H.
  pose proof (bnd_le _ _ B). lia.
Qed.

(* ---- alt ------------------------------------------------------------------------------------- *)
Lemma alt_from_safe : forall ps s last, Valid s -> SafeT s last ->
  Forall (fun p => forall t, Valid t -> SafeT t (p t)) ps -> SafeT s (alt_from last ps s).
Proof.
  induction ps as [|p ps IH]; intros s last Hv Hl Hps; [exact Hl|].
  inversion Hps as [|? ? Hp Hps']; subst. cbn [alt_from]. specialize (Hp s Hv).
  destruct (p s) as [[t r]|k l e| |]; try assumption. apply IH; [assumption|exact I|assumption].
Qed.

Lemma alt_safe : forall ps s, Valid s -> Forall (fun p => forall t, Valid t -> SafeT t (p t)) ps -> SafeT s (alt ps s).
Proof. intros. apply alt_from_safe; [assumption|exact I|assumption]. Qed.

Ltac safe_scanners :=
  repeat (constructor; [intros; apply good_safeT;
     first [apply variable_good | apply iri_good | apply blank_node_good | apply prefixed_name_good | apply bare_identifier_good
           | apply quoted_literal_good | apply numeric_literal_good
           | apply keyword_good; [kw_a|kw_n|] ]; assumption|]).

(* ---- terms ----------------------------------------------------------------------------------- *)
Definition QtSafe (qt : str -> res (str * str)) : Prop := forall t, Valid t -> SafeT t (qt t).

Lemma subject_term_with_safe : forall qt s, QtSafe qt -> Valid s -> SafeT s (subject_term_with qt s).
Proof. intros qt s Hq Hv. apply alt_safe; [assumption|]. constructor; [exact Hq|]. safe_scanners. constructor. Qed.

Lemma object_term_with_safe : forall qt s, QtSafe qt -> Valid s -> SafeT s (object_term_with qt s).
Proof. intros qt s Hq Hv. apply alt_safe; [assumption|]. constructor; [exact Hq|]. safe_scanners. constructor. Qed.

Lemma graph_name_safe : forall s, Valid s -> SafeT s (graph_name s).
Proof. intros s Hv. apply alt_safe; [assumption|]. safe_scanners. constructor. Qed.

Lemma predicate_term_safe : forall s, Valid s -> SafeT s (predicate_term s).
Proof.
  intros s Hv. unfold predicate_term.
  pose proof (good_safeT _ _ (variable_good s Hv)) as G1. destruct (variable s) as [[t r]| | |]; cbn [orelse]; try assumption.
  pose proof (good_safeT _ _ (iri_good s Hv)) as G2. destruct (iri s) as [[t r]| | |]; cbn [orelse]; try assumption.
  pose proof (good_safeT _ _ (prefixed_name_good s Hv)) as G3.
  pose proof (skip_ws_valid s Hv) as Hw.
  destruct (strip_prefix [97] (skip_ws s)) as [remaining|] eqn:E; [|assumption].
  destruct (strip_prefix_bnd [97] (skip_ws s) remaining Hw ltac:(repeat constructor; lia) ltac:(discriminate) E) as [-> B].
  destruct (match next_char (skipn (length [97]) (skip_ws s)) with Some (c, _) => name_character c | None => false end); [assumption|].
  cbn [length] in *. rewrite slice_to_bnd by assumption. cbn [lift bind SafeT]. exists 1%nat. repeat split; [assumption|lia].
Qed.

Lemma positioned_safe : forall s r, Valid s -> SafeT s r -> SafeP s (positioned r).
Proof.
  intros s r Hv H. pose proof (safeT_safeP s r Hv H) as P. destruct r as [[t rest]| | |]; cbn in *; auto.
Qed.

Lemma qt_parts_with_safe : forall qt s, QtSafe qt -> Valid s ->
  match qt_parts_with qt s with
  | Ok (_, rest) => Suf s rest /\ (length rest < length (skip_ws s))%nat
  | Panic => False
  | _ => True
  end.
Proof.
  intros qt s Hq Hv. unfold qt_parts_with. pose proof (skip_ws_valid s Hv) as Hi. pose proof (suf_skip_ws s Hv) as S0.
  destruct (strip_prefix [60; 60] (skip_ws s)) as [i1|] eqn:E1; [|exact I].
  pose proof (suf_strip [60; 60] _ _ Hi ltac:(repeat constructor; lia) ltac:(discriminate) E1) as S1.
  assert (L1 : (length i1 < length (skip_ws s))%nat).
  { destruct (strip_prefix_bnd [60; 60] _ _ Hi ltac:(repeat constructor; lia) ltac:(discriminate) E1) as [-> B].
    rewrite skipn_length. pose proof (bnd_le _ _ B). cbn [length] in *. lia. }
  pose proof (positioned_safe i1 _ (suf_valid _ _ S1) (subject_term_with_safe qt i1 Hq (suf_valid _ _ S1))) as P1.
  destruct (positioned (subject_term_with qt i1)) as [[sub i2]| | |]; cbn in P1; try contradiction; cbn [bind]; try exact I.
  pose proof (positioned_safe i2 _ (suf_valid _ _ P1) (predicate_term_safe i2 (suf_valid _ _ P1))) as P2.
  destruct (positioned (predicate_term i2)) as [[pred i3]| | |]; cbn in P2; try contradiction; cbn [bind]; try exact I.
  pose proof (positioned_safe i3 _ (suf_valid _ _ P2) (object_term_with_safe qt i3 Hq (suf_valid _ _ P2))) as P3.
  destruct (positioned (object_term_with qt i3)) as [[obj i4]| | |]; cbn in P3; try contradiction; cbn [bind]; try exact I.
  pose proof (suf_skip_ws i4 (suf_valid _ _ P3)) as S5.
  destruct (strip_prefix [62; 62] (skip_ws i4)) as [remaining|] eqn:E5; [|exact I].
  pose proof (suf_strip [62; 62] _ _ (suf_valid _ _ S5) ltac:(repeat constructor; lia) ltac:(discriminate) E5) as S6.
  assert (Sall : Suf i1 remaining) by exact (suf_trans _ _ _ P1 (suf_trans _ _ _ P2 (suf_trans _ _ _ P3 (suf_trans _ _ _ S5 S6)))).
  split.
  - eapply suf_trans; [exact S0|]. eapply suf_trans; [exact S1|exact Sall].
  - pose proof (suf_length _ _ Sall). lia.
Qed.

Lemma quoted_triple_safe : forall fuel, QtSafe (quoted_triple fuel).
Proof.
  induction fuel as [|f IH]; intros s Hv; [exact I|].
  cbn [quoted_triple]. pose proof (skip_ws_valid s Hv) as Hi.
  pose proof (qt_parts_with_safe (quoted_triple f) (skip_ws s) IH Hi) as H.
  destruct (qt_parts_with (quoted_triple f) (skip_ws s)) as [[parts remaining]| | |]; try contradiction; cbn [bind]; try exact I.
  destruct H as [Hs Hl]. destruct (suf_pos _ _ Hs) as [B E].
  rewrite slice_to_bnd by assumption. cbn [lift bind SafeT].
  exists (length (skip_ws s) - length remaining)%nat. split; [assumption|]. split; [|split; [reflexivity|assumption]].
  pose proof (skip_ws_length (skip_ws s) Hi). lia.
Qed.

Lemma subject_term_safe : forall fuel s, Valid s -> SafeT s (subject_term fuel s).
Proof. intros. apply subject_term_with_safe; [apply quoted_triple_safe|assumption]. Qed.
Lemma object_term_safe : forall fuel s, Valid s -> SafeT s (object_term fuel s).
Proof. intros. apply object_term_with_safe; [apply quoted_triple_safe|assumption]. Qed.

(* ---- plumbing for the monadic code ----------------------------------------------------------- *)
Definition NoPanic {A} (P : A -> Prop) (r : res A) : Prop :=
  match r with
  | Ok a => P a
  | Panic => False
  | _ => True
  end.

Lemma bind_safe : forall {A B} (r : res A) (k : A -> res (B * str)) (P : A -> Prop) s,
  NoPanic P r -> (forall a, P a -> SafeP s (k a)) -> SafeP s (bind r k).
Proof. intros A B [a|? ? ?| |] kk P s H K; cbn in *; auto. Qed.

Lemma bind_np : forall {A B} (r : res A) (k : A -> res B) (P : A -> Prop) (Q : B -> Prop),
  NoPanic P r -> (forall a, P a -> NoPanic Q (k a)) -> NoPanic Q (bind r k).
Proof. intros A B [a|? ? ?| |] kk P Q H K; cbn in *; auto. Qed.

Lemma safeP_np : forall {A} s (r : res (A * str)), SafeP s r <-> NoPanic (fun a => Suf s (snd a)) r.
Proof. intros A s [a| | |]; cbn; tauto. Qed.

Lemma safeP_weaken : forall {A} s s0 (r : res (A * str)), Suf s s0 -> SafeP s0 r -> SafeP s r.
Proof. intros A s s0 [a| | |] Hs; cbn; auto. intros H. eapply suf_trans; eassumption. Qed.

Lemma np_weaken : forall {A} s s0 (r : res (A * str)), Suf s s0 -> SafeP s0 r -> NoPanic (fun a => Suf s (snd a)) r.
Proof. intros. apply safeP_np. eapply safeP_weaken; eassumption. Qed.

Lemma keyword_safeP : forall kw s, ascii_str kw -> kw <> [] -> Valid s -> SafeP s (keyword kw s).
Proof.
  intros kw s Ha Hne Hv. pose proof (safeT_safeP s _ Hv (good_safeT _ _ (keyword_good kw s Ha Hne Hv))) as H.
  destruct (keyword kw s) as [[t r]| | |]; cbn in *; auto.
Qed.

Lemma schar_np : forall c s, c < 128 -> Valid s -> NoPanic (fun r => Suf s r) (schar c s).
Proof.
  intros c s Hc Hv. pose proof (schar_ok c s Hc Hv) as H. destruct (schar c s) as [r| | |]; try exact I; try contradiction.
  unfold NoPanic. destruct H as (b & E & Vr & B1). eapply suf_trans; [apply suf_skip_ws; assumption|].
  exists 1%nat. split; [assumption|]. rewrite E. reflexivity.
Qed.

Lemma starts_keyword_np : forall kw s, ascii_str kw -> kw <> [] -> Valid s -> NoPanic (fun _ => True) (starts_keyword kw s).
Proof. intros kw s Ha Hne Hv. destruct (starts_keyword_total kw s Ha Hne Hv) as (b & ->). exact I. Qed.

Lemma opt_keyword_np : forall kw s0 s, ascii_str kw -> kw <> [] -> Suf s s0 -> NoPanic (fun a => Suf s (snd a)) (opt_keyword kw s0).
Proof.
  intros kw s0 s Ha Hne Hs. unfold opt_keyword. pose proof (keyword_safeP kw s0 Ha Hne (suf_valid _ _ Hs)) as H.
  destruct (keyword kw s0) as [[t r]| | |]; cbn in *; auto. eapply suf_trans; eassumption.
Qed.



(* one monadic step whose result is a (value, rest) pair parsed from a suffix of s *)
Ltac sp lem :=
  eapply bind_safe;
  [ eapply np_weaken; [eassumption | apply lem; try kw_a; try kw_n; try (eapply suf_valid; eassumption)]
  | let a := fresh "a" in let r := fresh "i" in let H := fresh "S" in intros [a r] H; cbn [snd fst] in H; cbv beta iota ].
(* one step whose result is just the rest (schar) *)
Ltac sc :=
  match goal with
  | |- SafeP ?s (bind (schar ?c ?i) _) =>
      apply (bind_safe (schar c i) _ (fun r => Suf s r));
      [ let H := fresh in
        assert (H : NoPanic (fun r => Suf i r) (schar c i)) by (apply schar_np; [lia|eapply suf_valid; eassumption]);
        destruct (schar c i); cbn in H |- *; auto; eapply suf_trans; [|exact H]; assumption
      | let r := fresh "i" in let H := fresh "S" in intros r H; cbv beta iota ]
  end.

(* ---- sparql_triples_statement ---------------------------------------------------------------- *)
Lemma positioned_object_safe : forall tf s, Valid s -> SafeP s (positioned (object_term tf s)).
Proof. intros. apply positioned_safe; [assumption|now apply object_term_safe]. Qed.
Lemma positioned_subject_safe : forall tf s, Valid s -> SafeP s (positioned (subject_term tf s)).
Proof. intros. apply positioned_safe; [assumption|now apply subject_term_safe]. Qed.
Lemma positioned_predicate_safe : forall s, Valid s -> SafeP s (positioned (predicate_term s)).
Proof. intros. apply positioned_safe; [assumption|now apply predicate_term_safe]. Qed.
Lemma positioned_graph_name_safe : forall s, Valid s -> SafeP s (positioned (graph_name s)).
Proof. intros. apply positioned_safe; [assumption|now apply graph_name_safe]. Qed.

Lemma strip_suf : forall p s0 s r, ascii_str p -> p <> [] -> Suf s s0 -> strip_prefix p (skip_ws s0) = Some r -> Suf s r.
Proof.
  intros p s0 s r Ha Hne Hs E. eapply suf_trans; [eassumption|]. eapply suf_trans; [apply suf_skip_ws; eapply suf_valid; eassumption|].
  eapply suf_strip; try eassumption. apply skip_ws_valid. eapply suf_valid; eassumption.
Qed.

Lemma objects_loop_safe : forall fuel tf subj pred s input acc, Suf s input -> SafeP s (objects_loop fuel tf subj pred input acc).
Proof.
  induction fuel as [|f IH]; intros tf subj pred s input acc Hs; [exact I|]. cbn [objects_loop].
  sp positioned_object_safe.
  destruct (strip_prefix [44] (skip_ws i)) as [after_comma|] eqn:E.
  - apply IH. apply (strip_suf [44] i); [kw_a|kw_n|assumption|assumption].
  - cbn. assumption.
Qed.

Lemma stops_np : forall a, Valid a -> NoPanic (fun _ => True) (stmt_stops_after_semicolon a).
Proof.
  intros a Hv. unfold stmt_stops_after_semicolon. destruct a as [|b t]; [exact I|].
  destruct ((b =? 46) || (b =? 125)); [exact I|].
  eapply bind_np; [apply (starts_keyword_np kw_graph); [kw_a|kw_n|assumption]|]. intros g _.
  destruct g; [exact I|]. apply starts_keyword_np; [kw_a|kw_n|assumption].
Qed.

Lemma preds_loop_safe : forall fuel tf subj s input acc, Suf s input -> SafeP s (preds_loop fuel tf subj input acc).
Proof.
  induction fuel as [|f IH]; intros tf subj s input acc Hs; [exact I|]. cbn [preds_loop].
  sp positioned_predicate_safe.
  eapply bind_safe; [apply safeP_np; apply objects_loop_safe; eassumption|]. intros [acc' input'] S1. cbn [snd] in S1.
  destruct (strip_prefix [59] (skip_ws input')) as [after0|] eqn:E; [|cbn; assumption].
  assert (S2 : Suf s after0) by (apply (strip_suf [59] input'); [kw_a|kw_n|assumption|assumption]).
  assert (S3 : Suf s (skip_ws after0)) by (eapply suf_trans; [eassumption|apply suf_skip_ws; eapply suf_valid; eassumption]).
  eapply bind_safe; [apply stops_np; eapply suf_valid; eassumption|]. intros stop _.
  destruct stop; [cbn; assumption|]. apply IH. assumption.
Qed.

Lemma triples_statement_safe : forall tf s, Valid s -> SafeP s (triples_statement tf s).
Proof.
  intros tf s Hv. unfold triples_statement. pose proof (suf_refl s Hv) as S0.
  sp positioned_subject_safe. apply preds_loop_safe. assumption.
Qed.

(* ---- FILTER ---------------------------------------------------------------------------------- *)
Lemma suf_cons_ascii : forall s b t, Suf s (b :: t) -> b < 128 -> Suf s t.
Proof.
  intros s b t Hs Hb. eapply suf_trans; [eassumption|].
  destruct (valid_ascii_head b t (suf_valid _ _ Hs) Hb) as (_ & B & _). exists 1%nat. auto.
Qed.

Lemma suf_ws : forall s i, Suf s i -> Suf s (skip_ws i).
Proof. intros s i H. eapply suf_trans; [eassumption|]. apply suf_skip_ws. eapply suf_valid; eassumption. Qed.

Lemma filter_operand_token_safe : forall s, Valid s -> SafeP s (filter_operand_token s).
Proof.
  intros s Hv. apply safeT_safeP; [assumption|]. apply alt_safe; [assumption|]. safe_scanners. constructor.
Qed.

Lemma ret_safe : forall {A} s (a : A) r, Suf s r -> SafeP s (Ok (a, r)).
Proof. intros. exact H. Qed.

Lemma arith_safe : forall fuel,
  (forall s i, Suf s i -> SafeP s (f_operand fuel i)) /\
  (forall s e i, Suf s i -> SafeP s (f_product_loop fuel e i)) /\
  (forall s i, Suf s i -> SafeP s (f_product fuel i)) /\
  (forall s e i, Suf s i -> SafeP s (f_arith_loop fuel e i)) /\
  (forall s i, Suf s i -> SafeP s (f_arith fuel i)).
Proof.
  induction fuel as [|f (IHo & IHpl & IHp & IHal & IHa)]; [repeat split; intros; exact I|].
  repeat split.
  - intros s i Hs. cbn [f_operand]. pose proof (suf_ws _ _ Hs) as Hw.
    destruct (strip_prefix [40] (skip_ws i)) as [after_open|] eqn:E.
    + assert (S1 : Suf s after_open) by (apply (strip_suf [40] i); [kw_a|kw_n|assumption|assumption]).
      eapply bind_safe; [apply safeP_np; apply IHa; eassumption|]. intros [e after_e] S2. cbn [snd] in S2.
      sc. apply ret_safe. assumption.
    + eapply bind_safe; [eapply np_weaken; [exact Hw|apply filter_operand_token_safe; eapply suf_valid; eassumption]|].
      intros [t rest] S1. apply ret_safe. assumption.
  - intros s e i Hs. cbn [f_product_loop]. pose proof (suf_ws _ _ Hs) as Hw.
    destruct (skip_ws i) as [|b t]; [apply ret_safe; assumption|].
    destruct ((b =? 42) || (b =? 47)) eqn:Eb; [|apply ret_safe; assumption].
    assert (S1 : Suf s t) by (apply (suf_cons_ascii s b); [assumption|lia]).
    eapply bind_safe; [apply safeP_np; apply IHo; eassumption|]. intros [rhs remaining] S2. apply IHpl. assumption.
  - intros s i Hs. cbn [f_product].
    eapply bind_safe; [apply safeP_np; apply IHo; eassumption|]. intros [e input] S2. apply IHpl. assumption.
  - intros s e i Hs. cbn [f_arith_loop]. pose proof (suf_ws _ _ Hs) as Hw.
    destruct (skip_ws i) as [|b t]; [apply ret_safe; assumption|].
    destruct ((b =? 43) || (b =? 45)) eqn:Eb; [|apply ret_safe; assumption].
    assert (S1 : Suf s t) by (apply (suf_cons_ascii s b); [assumption|lia]).
    eapply bind_safe; [apply safeP_np; apply IHp; eassumption|]. intros [rhs remaining] S2. apply IHal. assumption.
  - intros s i Hs. cbn [f_arith].
    eapply bind_safe; [apply safeP_np; apply IHp; eassumption|]. intros [e input] S2. apply IHal. assumption.
Qed.

Lemma f_arith_safe : forall fuel s i, Suf s i -> SafeP s (f_arith fuel i).
Proof. intros fuel. apply arith_safe. Qed.

Lemma filter_operator_safe : forall s, Valid s -> SafeP s (filter_operator s).
Proof. intros s Hv. apply safeT_safeP; [assumption|]. apply good_safeT. now apply filter_operator_good. Qed.

Lemma f_comparison_safe : forall fuel s i, Suf s i -> SafeP s (f_comparison fuel i).
Proof.
  intros fuel s i Hs. unfold f_comparison. pose proof (suf_ws _ _ Hs) as Hw.
  eapply bind_safe; [apply (safeP_np (skip_ws i)); apply f_arith_safe; apply suf_refl; eapply suf_valid; eassumption|].
  intros [e1 after_left] S1. cbn [snd] in S1. destruct (suf_pos _ _ S1) as [B1 _].
  rewrite slice_to_bnd by assumption. cbn [lift bind].
  assert (S2 : Suf s after_left) by (eapply suf_trans; eassumption).
  sp filter_operator_safe. pose proof (suf_ws _ _ S) as Hw2.
  eapply bind_safe; [apply (safeP_np (skip_ws i0)); apply f_arith_safe; apply suf_refl; eapply suf_valid; eassumption|].
  intros [e2 remaining] S3. cbn [snd] in S3. destruct (suf_pos _ _ S3) as [B3 _].
  rewrite slice_to_bnd by assumption. cbn [lift bind]. apply ret_safe. eapply suf_trans; eassumption.
Qed.

Lemma call_arg_safe : forall tf s, Valid s -> SafeP s (alt [quoted_triple tf; variable; quoted_literal; numeric_literal; iri; prefixed_name] s).
Proof.
  intros tf s Hv. apply safeT_safeP; [assumption|]. apply alt_safe; [assumption|].
  constructor; [apply quoted_triple_safe|]. safe_scanners. constructor.
Qed.

Lemma call_args_loop_safe : forall fuel tf s i acc, Suf s i -> SafeP s (call_args_loop fuel tf i acc).
Proof.
  induction fuel as [|f IH]; intros tf s i acc Hs; [exact I|]. cbn [call_args_loop].
  sp call_arg_safe. pose proof (suf_ws _ _ S) as Hw.
  destruct (strip_prefix [44] (skip_ws i0)) as [r|] eqn:E.
  - apply IH. apply (strip_suf [44] i0); [kw_a|kw_n|assumption|assumption].
  - apply ret_safe. assumption.
Qed.

Lemma kw_case : forall {B} kw s i (X : str -> res (B * str)) (Y : res (B * str)),
  ascii_str kw -> kw <> [] -> Suf s i -> (forall r, Suf s r -> SafeP s (X r)) -> SafeP s Y ->
  SafeP s (match keyword kw i with Ok (_, r) => X r | Err _ _ _ => Y | Panic => Panic | Fuel => Fuel end).
Proof.
  intros B kw s i X Y Ha Hn Hs HX HY. pose proof (keyword_safeP kw i Ha Hn (suf_valid _ _ Hs)) as K.
  destruct (keyword kw i) as [[m r]|? ? ?| |]; cbn in K; try contradiction; try exact I; [|assumption].
  apply HX. eapply suf_trans; eassumption.
Qed.

Lemma f_function_safe : forall tf s i, Suf s i -> SafeP s (f_function tf i).
Proof.
  intros tf s i Hs. unfold f_function. pose proof (suf_ws _ _ Hs) as Hw.
  assert (After : forall name remaining, Suf s remaining ->
            SafeP s (do i1 <- schar 40 remaining;
                     do '(args, i2) <- call_args_loop (S (length i1)) tf i1 [];
                     do i3 <- schar 41 i2; Ok (FCall name args, i3))).
  { intros name remaining Hr. sc.
    eapply bind_safe; [apply safeP_np; apply call_args_loop_safe; eassumption|]. intros [args i2] S2. cbn [snd] in S2.
    sc. apply ret_safe. assumption. }
  repeat (apply kw_case; [kw_a|kw_n|assumption|intros; apply After; assumption|]). exact I.
Qed.

Lemma orelse_safe : forall {A} s (r : res (A * str)) k, SafeP s r -> SafeP s (k tt) -> SafeP s (orelse r k).
Proof. intros A s [a|? ? ?| |] kk H1 H2; cbn in *; auto. Qed.

Lemma filter_safe : forall fuel,
  (forall s i, Suf s i -> SafeP s (f_atom fuel i)) /\
  (forall s e i, Suf s i -> SafeP s (f_and_loop fuel e i)) /\
  (forall s i, Suf s i -> SafeP s (f_and fuel i)) /\
  (forall s e i, Suf s i -> SafeP s (f_or_loop fuel e i)) /\
  (forall s i, Suf s i -> SafeP s (f_or fuel i)).
Proof.
  induction fuel as [|f (IHa & IHal & IHn & IHol & IHo)]; [repeat split; intros; exact I|].
  repeat split.
  - intros s i Hs. cbn [f_atom]. pose proof (suf_ws _ _ Hs) as Hw.
    assert (Rest : SafeP s (orelse (f_function f (skip_ws i)) (fun _ =>
                     orelse (f_comparison f (skip_ws i)) (fun _ =>
                       match strip_prefix [40] (skip_ws i) with
                       | Some after_open => do '(e, after_e) <- f_or f after_open; do remaining <- schar 41 after_e; Ok (e, remaining)
                       | None => do '(a, remaining) <- f_arith f (skip_ws i); Ok (FArith a, remaining)
                       end)))).
    { apply orelse_safe; [apply f_function_safe; assumption|]. apply orelse_safe; [apply f_comparison_safe; assumption|].
      destruct (strip_prefix [40] (skip_ws i)) as [after_open|] eqn:E.
      - assert (S1 : Suf s after_open).
        { eapply suf_trans; [exact Hw|]. apply (suf_strip [40]); [eapply suf_valid; eassumption|kw_a|kw_n|assumption]. }
        eapply bind_safe; [apply safeP_np; apply IHo; eassumption|]. intros [e after_e] S2. cbn [snd] in S2.
        sc. apply ret_safe. assumption.
      - eapply bind_safe; [apply safeP_np; apply f_arith_safe; eassumption|]. intros [a remaining] S2. apply ret_safe. assumption. }
    destruct (strip_prefix [33] (skip_ws i)) as [after_not|] eqn:En; [|exact Rest].
    destruct (starts_with [61] after_not); [exact Rest|].
    assert (S1 : Suf s after_not).
    { eapply suf_trans; [exact Hw|]. apply (suf_strip [33]); [eapply suf_valid; eassumption|kw_a|kw_n|assumption]. }
    eapply bind_safe; [apply safeP_np; apply IHa; eassumption|]. intros [e remaining] S2. apply ret_safe. assumption.
  - intros s e i Hs. cbn [f_and_loop].
    destruct (strip_prefix [38; 38] (skip_ws i)) as [remaining|] eqn:E; [|apply ret_safe; assumption].
    assert (S1 : Suf s remaining) by (apply (strip_suf [38; 38] i); [kw_a|kw_n|assumption|assumption]).
    eapply bind_safe; [apply safeP_np; apply IHa; eassumption|]. intros [rhs after_right] S2. apply IHal. assumption.
  - intros s i Hs. cbn [f_and].
    eapply bind_safe; [apply safeP_np; apply IHa; eassumption|]. intros [e input] S2. apply IHal. assumption.
  - intros s e i Hs. cbn [f_or_loop].
    destruct (strip_prefix [124; 124] (skip_ws i)) as [remaining|] eqn:E; [|apply ret_safe; assumption].
    assert (S1 : Suf s remaining) by (apply (strip_suf [124; 124] i); [kw_a|kw_n|assumption|assumption]).
    eapply bind_safe; [apply safeP_np; apply IHn; eassumption|]. intros [rhs after_right] S2. apply IHol. assumption.
  - intros s i Hs. cbn [f_or].
    eapply bind_safe; [apply safeP_np; apply IHn; eassumption|]. intros [e input] S2. apply IHol. assumption.
Qed.

Lemma filter_clause_safe : forall fuel s i, Suf s i -> SafeP s (filter_clause fuel i).
Proof.
  intros fuel s i Hs. unfold filter_clause.
  sp keyword_safeP. sc.
  eapply bind_safe; [apply safeP_np; apply (proj2 (proj2 (proj2 (proj2 (filter_safe fuel))))); eassumption|]. intros [e i3] S3. cbn [snd] in S3.
  sc. apply ret_safe. assumption.
Qed.

(* ---- BIND ------------------------------------------------------------------------------------ *)
Lemma ends_with_byte_spec : forall b s, ends_with_byte b s = true -> s <> [] /\ nth (length s - 1) s 0 = b.
Proof.
  intros b s H. unfold ends_with_byte in H. destruct (rev s) as [|x l] eqn:E; [discriminate|].
  apply N.eqb_eq in H. subst x. assert (s = rev l ++ [b]) by (rewrite <- (rev_involutive s), E; reflexivity).
  subst s. split; [destruct (rev l); discriminate|].
  rewrite app_length. cbn [length]. rewrite app_nth2 by lia. replace (length (rev l) + 1 - 1 - length (rev l))%nat with 0%nat by lia. reflexivity.
Qed.

Lemma variable_safeP : forall s, Valid s -> SafeP s (variable s).
Proof. intros s Hv. apply safeT_safeP; [assumption|]. apply good_safeT. now apply variable_good. Qed.
Lemma numeric_safeP : forall s, Valid s -> SafeP s (numeric_literal s).
Proof. intros s Hv. apply safeT_safeP; [assumption|]. apply good_safeT. now apply numeric_literal_good. Qed.
Lemma quoted_literal_safeP : forall s, Valid s -> SafeP s (quoted_literal s).
Proof. intros s Hv. apply safeT_safeP; [assumption|]. apply good_safeT. now apply quoted_literal_good. Qed.
Lemma iri_safeP : forall s, Valid s -> SafeP s (iri s).
Proof. intros s Hv. apply safeT_safeP; [assumption|]. apply good_safeT. now apply iri_good. Qed.
Lemma identifier_safeP : forall s, Valid s -> SafeP s (identifier s).
Proof.
  intros s Hv. pose proof (identifier_goodi s Hv) as H. destruct (identifier s) as [[t r]| | |]; cbn in *; auto.
  destruct H as (e & B & _ & _ & ->). exists e. auto.
Qed.

Lemma bind_argument_safe : forall s, Valid s -> SafeP s (bind_argument s).
Proof.
  intros s Hv. unfold bind_argument. apply orelse_safe; [now apply variable_safeP|].
  pose proof (quoted_literal_safeP s Hv) as Q. destruct (quoted_literal s) as [[literal remaining]|? ? ?| |] eqn:E; try assumption.
  - destruct (quoted_literal_len s literal remaining Hv E) as [Hl Hvl].
    assert (Sl : forall q, q < 128 -> starts_with [q] literal = true -> ends_with_byte q literal = true ->
                 slice literal 1 (length literal - 1) = Some (firstn (length literal - 1 - 1) (skipn 1 literal))).
    { intros q Hq Hs He. unfold slice.
      destruct literal as [|b0 l0]; [discriminate|]. cbn [starts_with] in Hs. apply andb_true_iff in Hs. destruct Hs as [Hb0 _].
      apply N.eqb_eq in Hb0. subst b0.
      destruct (valid_ascii_head q l0 Hvl Hq) as (_ & B1 & _).
      destruct (ends_with_byte_spec _ _ He) as [_ Hlast].
      destruct (ascii_byte_bnd (q :: l0) (length (q :: l0) - 1) Hvl) as [Bl _]; [cbn; lia|rewrite Hlast; assumption|].
      rewrite (bnd_is_char_boundary _ _ B1), (bnd_is_char_boundary _ _ Bl).
      replace (Nat.leb 1 (length (q :: l0) - 1)) with true by (symmetry; apply Nat.leb_le; lia). reflexivity. }
    destruct (starts_with [34] literal && ends_with_byte 34 literal) eqn:E1; cbn [orb].
    + apply andb_true_iff in E1. destruct E1 as [Ea Eb]. rewrite (Sl 34) by (try lia; assumption). cbn. assumption.
    + destruct (starts_with [39] literal && ends_with_byte 39 literal) eqn:E2; [|assumption].
      apply andb_true_iff in E2. destruct E2 as [Ea Eb]. rewrite (Sl 39) by (try lia; assumption). cbn. assumption.
  - now apply numeric_safeP.
Qed.

Lemma bind_args_loop_safe : forall fuel s i acc, Suf s i -> SafeP s (bind_args_loop fuel i acc).
Proof.
  induction fuel as [|f IH]; intros s i acc Hs; [exact I|]. cbn [bind_args_loop].
  sp bind_argument_safe. pose proof (suf_ws _ _ S) as Hw.
  destruct (strip_prefix [44] (skip_ws i0)) as [r|] eqn:E.
  - apply IH. apply (strip_suf [44] i0); [kw_a|kw_n|assumption|assumption].
  - apply ret_safe. assumption.
Qed.

Lemma bind_clause_safe : forall s i, Suf s i -> SafeP s (bind_clause i).
Proof.
  intros s i Hs. unfold bind_clause.
  sp keyword_safeP. sc.
  eapply bind_safe; [eapply np_weaken; [apply (suf_ws _ _ S0)|apply identifier_safeP; apply skip_ws_valid; eapply suf_valid; eassumption]|].
  intros [fname0 i3] S3. cbn [snd] in S3. sc.
  eapply bind_safe; [apply safeP_np; apply bind_args_loop_safe; eassumption|]. intros [args i5] S5. cbn [snd] in S5.
  sc. sp keyword_safeP. sp variable_safeP. sc. apply ret_safe. assumption.
Qed.

(* ---- VALUES ---------------------------------------------------------------------------------- *)
Lemma value_token_safe : forall s, Valid s -> SafeP s (alt [iri; quoted_literal; numeric_literal; keyword kw_true; keyword kw_false; prefixed_name] s).
Proof. intros s Hv. apply safeT_safeP; [assumption|]. apply alt_safe; [assumption|]. safe_scanners. constructor. Qed.

Lemma sparql_value_safe : forall s, Valid s -> SafeP s (sparql_value s).
Proof.
  intros s Hv. unfold sparql_value. pose proof (suf_refl s Hv) as S0.
  apply kw_case; [kw_a|kw_n|assumption|intros; assumption|].
  sp value_token_safe. apply ret_safe. assumption.
Qed.

Lemma values_vars_loop_safe : forall fuel s i acc, Suf s i -> SafeP s (values_vars_loop fuel i acc).
Proof.
  induction fuel as [|f IH]; intros s i acc Hs; [exact I|]. cbn [values_vars_loop]. pose proof (suf_ws _ _ Hs) as Hw.
  destruct (strip_prefix [41] (skip_ws i)) as [r|] eqn:E.
  - apply ret_safe. apply (strip_suf [41] i); [kw_a|kw_n|assumption|assumption].
  - sp variable_safeP. apply IH. assumption.
Qed.

Lemma values_row_loop_safe : forall fuel s i acc, Suf s i -> SafeP s (values_row_loop fuel i acc).
Proof.
  induction fuel as [|f IH]; intros s i acc Hs; [exact I|]. cbn [values_row_loop]. pose proof (suf_ws _ _ Hs) as Hw.
  destruct (strip_prefix [41] (skip_ws i)) as [r|] eqn:E.
  - apply ret_safe. apply (strip_suf [41] i); [kw_a|kw_n|assumption|assumption].
  - sp sparql_value_safe. apply IH. assumption.
Qed.

Lemma values_rows_loop_safe : forall fuel n s i acc, Suf s i -> SafeP s (values_rows_loop fuel n i acc).
Proof.
  induction fuel as [|f IH]; intros n s i acc Hs; [exact I|]. cbn [values_rows_loop]. pose proof (suf_ws _ _ Hs) as Hw.
  destruct (strip_prefix [125] (skip_ws i)) as [r|] eqn:E.
  - apply ret_safe. apply (strip_suf [125] i); [kw_a|kw_n|assumption|assumption].
  - eapply bind_safe with (P := fun a => Suf s (snd a)).
    + destruct (Nat.eqb n 1).
      * apply (proj1 (safeP_np _ _)). sp sparql_value_safe. apply ret_safe. assumption.
      * apply (proj1 (safeP_np _ _)). sc. apply values_row_loop_safe. assumption.
    + intros [row i'] S1. cbn [snd] in S1. destruct (Nat.eqb (length row) n); [|exact I]. apply IH. assumption.
Qed.

Lemma values_clause_safe : forall s i, Suf s i -> SafeP s (values_clause i).
Proof.
  intros s i Hs. unfold values_clause. sp keyword_safeP.
  eapply bind_safe with (P := fun a => Suf s (snd a)).
  - pose proof (schar_np 40 i0 ltac:(lia) (suf_valid _ _ S)) as H.
    destruct (schar 40 i0) as [after_open|? ? ?| |]; cbn in H; try contradiction; try exact I.
    + apply (proj1 (safeP_np _ _)). apply values_vars_loop_safe. eapply suf_trans; eassumption.
    + apply (proj1 (safeP_np _ _)). sp variable_safeP. apply ret_safe. assumption.
  - intros [vars i2] S2. cbn [snd] in S2. destruct vars; [exact I|].
    sc. eapply bind_safe; [apply safeP_np; apply values_rows_loop_safe; eassumption|]. intros [rows i4] S4. apply ret_safe. assumption.
Qed.

(* ---- projection and solution modifiers ------------------------------------------------------- *)
Ltac to_safeP := apply (proj1 (safeP_np _ _)).
Ltac bsafe s := eapply bind_safe with (P := fun a => Suf s (snd a)); [apply (proj1 (safeP_np s _))|].

Lemma aggregate_safe : forall s i, Suf s i -> SafeP s (aggregate i).
Proof.
  intros s i Hs. unfold aggregate. pose proof (suf_ws _ _ Hs) as Hw.
  assert (Hin : exists input wrapped, (match strip_prefix [40] (skip_ws i) with Some r => (r, true) | None => (skip_ws i, false) end) = (input, wrapped) /\ Suf s input).
  { destruct (strip_prefix [40] (skip_ws i)) as [r|] eqn:E; eexists _, _; (split; [reflexivity|]); [|assumption].
    apply (strip_suf [40] i); [kw_a|kw_n|assumption|assumption]. }
  destruct Hin as (input & wrapped & -> & Hi).
  assert (After : forall (name : str) i1, Suf s i1 ->
     SafeP s (do i2 <- schar 40 i1; do '(v, i3) <- variable i2; do i4 <- schar 41 i3;
              do '(alias, i5) <- match keyword kw_as i4 with
                                 | Ok (_, r) => do '(a, r') <- variable r; Ok (Some a, r')
                                 | Err _ _ _ => Ok (None, i4) | Panic => Panic | Fuel => Fuel end;
              if wrapped then do i6 <- schar 41 i5; Ok ((name, v, alias), i6) else Ok ((name, v, alias), i5))).
  { intros name i1 H1. sc. sp variable_safeP. sc.
    eapply bind_safe with (P := fun a => Suf s (snd a)).
    - to_safeP. apply kw_case; [kw_a|kw_n|assumption| |apply ret_safe; assumption].
      intros r Hr. sp variable_safeP. apply ret_safe. assumption.
    - intros [alias i5] S5. cbn [snd] in S5. destruct wrapped; [|apply ret_safe; assumption]. sc. apply ret_safe. assumption. }
  repeat (apply kw_case; [kw_a|kw_n|assumption|intros; apply After; assumption|]). exact I.
Qed.

Lemma projection_loop_safe : forall fuel s i acc, Suf s i -> SafeP s (projection_loop fuel i acc).
Proof.
  induction fuel as [|f IH]; intros s i acc Hs; [exact I|]. cbn [projection_loop].
  pose proof (safeP_weaken s i _ Hs (variable_safeP i (suf_valid _ _ Hs))) as V.
  destruct (variable i) as [[v r]|? ? ?| |]; cbn in V; try contradiction; try exact I.
  - apply IH. assumption.
  - pose proof (aggregate_safe s i Hs) as A. destruct (aggregate i) as [[a r]|? ? ?| |]; cbn in A; try contradiction; try exact I.
    + apply IH. assumption.
    + apply ret_safe. assumption.
Qed.

Lemma projection_items_safe : forall s i, Suf s i -> SafeP s (projection_items i).
Proof.
  intros s i Hs. unfold projection_items. pose proof (suf_ws _ _ Hs) as Hw.
  destruct (strip_prefix [42] (skip_ws i)) as [r|] eqn:E.
  - apply ret_safe. apply (strip_suf [42] i); [kw_a|kw_n|assumption|assumption].
  - bsafe s; [apply projection_loop_safe; eassumption|]. intros [vars r] S1. cbn [snd] in S1.
    destruct vars; [exact I|apply ret_safe; assumption].
Qed.

Lemma vars_loop_safe : forall fuel s i acc, Suf s i -> SafeP s (vars_loop fuel i acc).
Proof.
  induction fuel as [|f IH]; intros s i acc Hs; [exact I|]. cbn [vars_loop].
  pose proof (safeP_weaken s i _ Hs (variable_safeP i (suf_valid _ _ Hs))) as V.
  destruct (variable i) as [[v r]|? ? ?| |]; cbn in V; try contradiction; try exact I.
  - apply IH. assumption.
  - apply ret_safe. assumption.
Qed.

Lemma group_by_clause_safe : forall s i, Suf s i -> SafeP s (group_by_clause i).
Proof.
  intros s i Hs. unfold group_by_clause. sp keyword_safeP. sp keyword_safeP.
  bsafe s; [apply vars_loop_safe; eassumption|]. intros [vars r] S2. cbn [snd] in S2.
  destruct vars; [exact I|apply ret_safe; assumption].
Qed.

Lemma order_condition_safe : forall s i, Suf s i -> SafeP s (order_condition i).
Proof.
  intros s i Hs. unfold order_condition. pose proof (suf_ws _ _ Hs) as Hw.
  assert (W : forall r (d : bool), Suf s r -> SafeP s (do i1 <- schar 40 r; do '(v, i2) <- variable i1; do i3 <- schar 41 i2; Ok ((v, d), i3))).
  { intros r d Hr. sc. sp variable_safeP. sc. apply ret_safe. assumption. }
  apply kw_case; [kw_a|kw_n|assumption|intros; apply W; assumption|].
  apply kw_case; [kw_a|kw_n|assumption|intros; apply W; assumption|].
  sp variable_safeP. apply ret_safe. assumption.
Qed.

Lemma order_loop_safe : forall fuel s i acc, Suf s i -> SafeP s (order_loop fuel i acc).
Proof.
  induction fuel as [|f IH]; intros s i acc Hs; [exact I|]. cbn [order_loop]. pose proof (suf_ws _ _ Hs) as Hw.
  destruct (strip_prefix [44] (skip_ws i)) as [r|] eqn:E.
  - apply IH. apply (strip_suf [44] i); [kw_a|kw_n|assumption|assumption].
  - eapply bind_safe with (P := fun _ => True).
    + destruct (skip_ws i) as [|b t] eqn:Ei; [exact I|]. destruct (b =? 125); [exact I|].
      eapply bind_np; [apply (starts_keyword_np kw_limit); [kw_a|kw_n|eapply suf_valid; eassumption]|]. intros l _.
      destruct l; [exact I|]. apply starts_keyword_np; [kw_a|kw_n|eapply suf_valid; eassumption].
    + intros st _. destruct st; [apply ret_safe; assumption|].
      bsafe s; [apply order_condition_safe; eassumption|]. intros [c r] S1. apply IH. assumption.
Qed.

Lemma order_by_clause_safe : forall s i, Suf s i -> SafeP s (order_by_clause i).
Proof.
  intros s i Hs. unfold order_by_clause. sp keyword_safeP. sp keyword_safeP.
  bsafe s; [apply order_loop_safe; eassumption|]. intros [conds r] S2. cbn [snd] in S2.
  destruct conds; [exact I|apply ret_safe; assumption].
Qed.

Lemma limit_clause_safe : forall s i, Suf s i -> SafeP s (limit_clause i).
Proof.
  intros s i Hs. unfold limit_clause. sp keyword_safeP. pose proof (suf_ws _ _ S) as Hw.
  destruct (Nat.eqb (count_while is_ascii_digit (skip_ws i0)) 0); [exact I|].
  pose proof (count_while_asc is_ascii_digit (skip_ws i0) 0 digit_ascii (asc_0 _)) as A. cbn [skipn Nat.add] in A.
  pose proof (asc_bnd _ _ (suf_valid _ _ Hw) A) as B.
  rewrite slice_to_bnd by assumption. cbn [lift bind].
  destruct (dec_val _ <=? usize_max); [|exact I].
  rewrite slice_from_bnd by assumption. cbn [lift bind]. apply ret_safe. eapply suf_trans; [exact Hw|]. eexists. split; [exact B|reflexivity].
Qed.

Lemma from_target_safe : forall s, Valid s -> SafeP s (alt [iri; prefixed_name] s).
Proof. intros s Hv. apply safeT_safeP; [assumption|]. apply alt_safe; [assumption|]. safe_scanners. constructor. Qed.

Lemma from_loop_safe : forall fuel s i fr frn, Suf s i -> NoPanic (fun a => Suf s (snd a)) (from_loop fuel i fr frn).
Proof.
  induction fuel as [|f IH]; intros s i fr frn Hs; [exact I|]. cbn [from_loop].
  pose proof (safeP_weaken s i _ Hs (keyword_safeP kw_from i ltac:(kw_a) ltac:(kw_n) (suf_valid _ _ Hs))) as K.
  destruct (keyword kw_from i) as [[m after_from]|? ? ?| |]; cbn in K; try contradiction; try exact I; [|exact Hs].
  pose proof (safeP_weaken s after_from _ K (keyword_safeP kw_named after_from ltac:(kw_a) ltac:(kw_n) (suf_valid _ _ K))) as K2.
  destruct (keyword kw_named after_from) as [[m2 after_named]|? ? ?| |]; cbn in K2; try contradiction; try exact I.
  - eapply bind_np; [eapply np_weaken; [exact K2|apply from_target_safe; eapply suf_valid; eassumption]|].
    intros [g r] S1. apply IH. assumption.
  - eapply bind_np; [eapply np_weaken; [exact K|apply from_target_safe; eapply suf_valid; eassumption]|].
    intros [g r] S1. apply IH. assumption.
Qed.

Lemma opt_clause_safe : forall {A} kw (p : str -> res (A * str)) dflt s i, ascii_str kw -> kw <> [] -> Suf s i ->
  (forall j, Suf s j -> SafeP s (p j)) -> SafeP s (opt_clause kw p dflt i).
Proof.
  intros A kw p dflt s i Ha Hn Hs Hp. unfold opt_clause.
  eapply bind_safe; [apply (starts_keyword_np kw); [assumption|assumption|eapply suf_valid; eassumption]|].
  intros b _. destruct b; [apply Hp; assumption|apply ret_safe; assumption].
Qed.

(* ---- group graph patterns and SELECT --------------------------------------------------------- *)
Lemma triples_statement_safe' : forall tf s i, Suf s i -> SafeP s (triples_statement tf i).
Proof. intros. eapply safeP_weaken; [eassumption|]. apply triples_statement_safe. eapply suf_valid; eassumption. Qed.

Lemma sk_np : forall kw s i, ascii_str kw -> kw <> [] -> Suf s i -> NoPanic (fun _ : bool => True) (starts_keyword kw i).
Proof. intros. apply starts_keyword_np; try assumption. eapply suf_valid; eassumption. Qed.

Lemma group_safe : forall fuel,
  (forall s i, Suf s i -> SafeP s (group_pattern fuel i)) /\
  (forall s i joined, Suf s i -> SafeP s (group_loop fuel i joined)) /\
  (forall s fb i alts, Suf s i -> SafeP s (union_loop fuel fb i alts)) /\
  (forall s i, Suf s i -> SafeP s (group_primary fuel i)) /\
  (forall s ad i, Suf s i -> SafeP s (select_core fuel ad i)).
Proof.
  induction fuel as [|f (IHg & IHl & IHu & IHp & IHs)]; [repeat split; intros; exact I|].
  repeat split.
  - intros s i Hs. cbn [group_pattern]. sc. apply IHl. assumption.
  - intros s i joined Hs. cbn [group_loop]. pose proof (suf_ws _ _ Hs) as Hw.
    destruct (strip_prefix [125] (skip_ws i)) as [remaining|] eqn:E.
    + apply ret_safe. apply (strip_suf [125] i); [kw_a|kw_n|assumption|assumption].
    + eapply bind_safe; [apply (sk_np kw_filter s); [kw_a|kw_n|exact Hw]|]. intros isf _. destruct isf.
      { bsafe s; [apply filter_clause_safe; exact Hw|]. intros [e r] S1. apply IHl. assumption. }
      eapply bind_safe; [apply (sk_np kw_bind s); [kw_a|kw_n|exact Hw]|]. intros isb _. destruct isb.
      { bsafe s; [apply bind_clause_safe; exact Hw|]. intros [[[fn args] v] r] S1. apply IHl. assumption. }
      eapply bind_safe; [apply (sk_np kw_values s); [kw_a|kw_n|exact Hw]|]. intros isv _. destruct isv.
      { bsafe s; [apply values_clause_safe; exact Hw|]. intros [vc r] S1. apply IHl. assumption. }
      bsafe s; [apply IHp; exact Hw|]. intros [first after_first] S1. cbn [snd] in S1.
      bsafe s; [apply IHu; exact S1|]. intros [alternatives after_alts] S2. cbn [snd] in S2.
      apply IHl. pose proof (suf_ws _ _ S2) as Hw2.
      destruct (strip_prefix [46] (skip_ws after_alts)) as [r|] eqn:E2; [|assumption].
      apply (strip_suf [46] after_alts); [kw_a|kw_n|assumption|assumption].
  - intros s fb i alts Hs. cbn [union_loop].
    apply kw_case; [kw_a|kw_n|assumption| |apply ret_safe; assumption].
    intros after_union Hu. destruct (negb fb || negb (starts_with [123] (skip_ws after_union))); [exact I|].
    bsafe s; [apply IHp; assumption|]. intros [a r] S1. apply IHu. assumption.
  - intros s i Hs. cbn [group_primary]. pose proof (suf_ws _ _ Hs) as Hw.
    apply kw_case; [kw_a|kw_n|assumption| |].
    + intros after_graph Hg.
      bsafe s; [eapply safeP_weaken; [exact Hg|apply safeT_safeP; [eapply suf_valid; eassumption|apply graph_name_safe; eapply suf_valid; eassumption]]|].
      intros [name after_name] S1. cbn [snd] in S1.
      bsafe s; [apply IHg; assumption|]. intros [p remaining] S2. apply ret_safe. assumption.
    + destruct (starts_with [123] (skip_ws i)) eqn:Eb.
      * pose proof (starts_with_bnd [123] (skip_ws i) (suf_valid _ _ Hw) ltac:(kw_a) ltac:(kw_n) Eb) as B1. cbn [length] in B1.
        rewrite slice_from_bnd by assumption. cbn [lift bind].
        assert (S1 : Suf s (skipn 1 (skip_ws i))) by (eapply suf_trans; [exact Hw|]; eexists; split; [exact B1|reflexivity]).
        eapply bind_safe; [apply (sk_np kw_select s); [kw_a|kw_n|apply suf_ws; exact S1]|]. intros issel _.
        destruct issel; [|apply IHg; assumption].
        sc. bsafe s; [apply IHs; assumption|]. intros [q i2] S2. cbn [snd] in S2. sc. apply ret_safe. assumption.
      * bsafe s; [apply triples_statement_safe'; assumption|]. intros [ts r] S1. apply ret_safe. assumption.
  - intros s ad i Hs. cbn [select_core].
    sp keyword_safeP.
    eapply bind_safe; [apply (opt_keyword_np kw_distinct i0 s); [kw_a|kw_n|assumption]|]. intros [distinct i2] S2. cbn [snd] in S2.
    bsafe s; [apply projection_items_safe; assumption|]. intros [vars i3] S3. cbn [snd] in S3.
    eapply bind_safe with (P := fun a => Suf s (snd a)).
    { destruct ad; [apply from_loop_safe; assumption|exact S3]. }
    intros [[from from_named] i4] S4. cbn [snd] in S4.
    eapply bind_safe; [apply (opt_keyword_np kw_where i4 s); [kw_a|kw_n|assumption]|]. intros [w i5] S5. cbn [snd] in S5.
    bsafe s; [apply IHg; assumption|]. intros [pattern i6] S6. cbn [snd] in S6.
    bsafe s; [apply opt_clause_safe; [kw_a|kw_n|assumption|intros; apply group_by_clause_safe; assumption]|]. intros [gv i7] S7. cbn [snd] in S7.
    bsafe s; [apply opt_clause_safe; [kw_a|kw_n|assumption|intros; apply order_by_clause_safe; assumption]|]. intros [ord i8] S8. cbn [snd] in S8.
    bsafe s; [apply opt_clause_safe; [kw_a|kw_n|assumption|]|].
    { intros j Hj. bsafe s; [apply limit_clause_safe; assumption|]. intros [n r] S9. apply ret_safe. assumption. }
    intros [limit i9] S9. apply ret_safe. assumption.
Qed.

Lemma group_pattern_safe : forall fuel s i, Suf s i -> SafeP s (group_pattern fuel i).
Proof. intros fuel. apply group_safe. Qed.
Lemma select_core_safe : forall fuel ad s i, Suf s i -> SafeP s (select_core fuel ad i).
Proof. intros fuel ad s i. apply group_safe. Qed.

(* ---- quad blocks, the variable / blank-node checks, updates ------------------------------------ *)
Lemma graph_block_loop_safe : forall fuel g s i acc, Suf s i -> SafeP s (graph_block_loop fuel g i acc).
Proof.
  induction fuel as [|f IH]; intros g s i acc Hs; [exact I|]. cbn [graph_block_loop]. pose proof (suf_ws _ _ Hs) as Hw.
  destruct (strip_prefix [125] (skip_ws i)) as [remaining|] eqn:E.
  - apply ret_safe. apply (strip_suf [125] i); [kw_a|kw_n|assumption|assumption].
  - bsafe s; [apply triples_statement_safe'; exact Hw|]. intros [ts remaining] S1. cbn [snd] in S1.
    apply IH. destruct (strip_prefix [46] (skip_ws remaining)) as [r|] eqn:E2; [|apply suf_ws; assumption].
    apply (strip_suf [46] remaining); [kw_a|kw_n|assumption|assumption].
Qed.

Lemma quad_block_loop_safe : forall fuel s i acc, Suf s i -> SafeP s (quad_block_loop fuel i acc).
Proof.
  induction fuel as [|f IH]; intros s i acc Hs; [exact I|]. cbn [quad_block_loop]. pose proof (suf_ws _ _ Hs) as Hw.
  destruct (strip_prefix [125] (skip_ws i)) as [remaining|] eqn:E.
  - apply ret_safe. apply (strip_suf [125] i); [kw_a|kw_n|assumption|assumption].
  - eapply bind_safe with (P := fun a => Suf s (snd a)).
    + apply (proj1 (safeP_np s _)). apply kw_case; [kw_a|kw_n|exact Hw| |].
      * intros after_graph Hg.
        bsafe s; [eapply safeP_weaken; [exact Hg|apply positioned_graph_name_safe; eapply suf_valid; eassumption]|].
        intros [g after_name] S1. cbn [snd] in S1. sc. apply graph_block_loop_safe. assumption.
      * bsafe s; [apply triples_statement_safe'; exact Hw|]. intros [ts remaining] S1. apply ret_safe. assumption.
    + intros [acc' i1] S1. cbn [snd] in S1. apply IH.
      destruct (strip_prefix [46] (skip_ws i1)) as [r|] eqn:E2; [|apply suf_ws; assumption].
      apply (strip_suf [46] i1); [kw_a|kw_n|assumption|assumption].
Qed.

Lemma quad_block_safe : forall s i, Suf s i -> SafeP s (quad_block i).
Proof. intros s i Hs. unfold quad_block. sc. apply quad_block_loop_safe. assumption. Qed.

(* tokens produced by the scanners are valid strings; the re-parse of a quoted-triple term cannot panic *)
Definition ptok_valid (t : ptok) : Prop := Valid (fst t).
Definition ptriple_valid (t : ptriple) : Prop := let '(a, b, c) := t in ptok_valid a /\ ptok_valid b /\ ptok_valid c.

Lemma qt_parts_np : forall fuel term, Valid term ->
  NoPanic (fun a => ptriple_valid (fst a)) (qt_parts fuel term).
Proof.
  intros fuel term Hv. unfold qt_parts, qt_parts_with. pose proof (skip_ws_valid term Hv) as Hi.
  destruct (strip_prefix [60; 60] (skip_ws term)) as [i1|] eqn:E1; [|exact I].
  pose proof (suf_strip [60; 60] _ _ Hi ltac:(kw_a) ltac:(kw_n) E1) as S1. pose proof (suf_valid _ _ S1) as V1.
  assert (Pos : forall i (r : res (str * str)), Valid i -> SafeT i r ->
            NoPanic (fun a => ptok_valid (fst a) /\ Valid (snd a)) (positioned r)).
  { intros i r Vi H. destruct r as [[t rest]|? ? ?| |]; cbn in *; auto.
    destruct (safeT_tok_valid i t rest Vi H) as (Vt & Vr & _). split; assumption. }
  eapply bind_np; [apply (Pos i1); [assumption|apply subject_term_with_safe; [apply quoted_triple_safe|assumption]]|].
  intros [sub i2] HH; cbn beta in HH; destruct HH as [Vs V2]. cbn [fst snd] in *.
  eapply bind_np; [apply (Pos i2); [assumption|apply predicate_term_safe; assumption]|].
  intros [pred i3] HH; cbn beta in HH; destruct HH as [Vp V3]. cbn [fst snd] in *.
  eapply bind_np; [apply (Pos i3); [assumption|apply object_term_with_safe; [apply quoted_triple_safe|assumption]]|].
  intros [obj i4] HH; cbn beta in HH; destruct HH as [Vo V4]. cbn [fst snd] in *.
  destruct (strip_prefix [62; 62] (skip_ws i4)); [|exact I]. cbn. auto.
Qed.

Lemma or_else_opt_np : forall {A} (a : option A) b, NoPanic (fun _ => True) (b tt) -> NoPanic (fun _ => True) (or_else_opt a b).
Proof. intros A [x|] b H; cbn; auto. Qed.

Lemma term_first_np : forall is_hit fuel term, Valid term -> NoPanic (fun _ => True) (term_first is_hit fuel term).
Proof.
  intros is_hit. induction fuel as [|f IH]; intros term Hv; [exact I|]. cbn [term_first].
  destruct (is_hit term); [exact I|]. destruct (negb (starts_with [60; 60] term)); [exact I|].
  pose proof (qt_parts_np (S (length term)) term Hv) as Q.
  destruct (qt_parts (S (length term)) term) as [[[[s p] o] remaining]|? ? ?| |]; cbn in Q; try contradiction; try exact I.
  destruct Q as (Vs & Vp & Vo). destruct (negb (Nat.eqb (length (skip_ws remaining)) 0)); [exact I|].
  assert (Sub : forall t : ptok, ptok_valid t ->
            NoPanic (fun _ => True) (do r <- term_first is_hit f (fst t); Ok (option_map (fun x => (fst x, (snd x + snd t)%nat)) r))).
  { intros t Vt. eapply bind_np; [apply IH; exact Vt|]. intros; exact I. }
  eapply bind_np; [apply Sub; assumption|]. intros rs _.
  apply or_else_opt_np. eapply bind_np; [apply Sub; assumption|]. intros rp _.
  apply or_else_opt_np. apply Sub. assumption.
Qed.

Lemma ptok_first_np : forall is_hit t, ptok_valid t -> NoPanic (fun _ => True) (ptok_first is_hit t).
Proof. intros is_hit t Vt. unfold ptok_first. eapply bind_np; [apply term_first_np; exact Vt|]. intros; exact I. Qed.

Definition pquad_valid (q : pquad) : Prop :=
  match fst q with Some g => ptok_valid g | None => True end /\ ptriple_valid (snd q).

Lemma quads_first_np : forall is_hit wg qs, Forall pquad_valid qs -> NoPanic (fun _ => True) (quads_first is_hit wg qs).
Proof.
  intros is_hit wg. induction qs as [|[g [[s p] o]] rest IH]; intros Hq; [exact I|].
  inversion Hq as [|? ? Hq1 Hrest]; subst. unfold pquad_valid, ptriple_valid in Hq1. cbn [fst snd] in Hq1.
  destruct Hq1 as [Hg (Hs & Hp & Ho)]. cbn [quads_first fst snd] in *.
  eapply bind_np with (P := fun _ => True).
  { destruct g as [gt|]; [|exact I]. destruct wg; [apply ptok_first_np; assumption|exact I]. }
  intros rg _. eapply bind_np with (P := fun _ => True).
  { apply or_else_opt_np. eapply bind_np; [apply ptok_first_np; assumption|]. intros rs _.
    apply or_else_opt_np. eapply bind_np; [apply ptok_first_np; assumption|]. intros rp _.
    apply or_else_opt_np. apply ptok_first_np. assumption. }
  intros r _. apply or_else_opt_np. apply IH. assumption.
Qed.

(* tokens of a triples statement / quad block are valid strings (slices at boundaries of a valid input) *)
Lemma positioned_tok_valid : forall s (r : res (str * str)) t rest, Valid s -> SafeT s r -> positioned r = Ok (t, rest) ->
  ptok_valid t /\ Valid rest.
Proof.
  intros s r t rest Hv H E. destruct r as [[tok rs]|? ? ?| |]; cbn in E; try discriminate. inversion E; subst.
  destruct (safeT_tok_valid s tok rest Hv H) as (Vt & Vr & _). split; assumption.
Qed.

Ltac bind_inv H :=
  match type of H with
  | bind ?r _ = Ok _ => let E := fresh "E" in destruct r as [[? ?]|? ? ?| |] eqn:E; cbn [bind] in H; try discriminate H
  end.

Lemma objects_loop_valid : forall fuel tf subj pred input acc ts r, Valid input -> ptok_valid subj -> ptok_valid pred ->
  Forall ptriple_valid acc -> objects_loop fuel tf subj pred input acc = Ok (ts, r) -> Forall ptriple_valid ts /\ Valid r.
Proof.
  induction fuel as [|f IH]; intros tf subj pred input acc ts r Hv Vs Vp Ha H; [discriminate|]. cbn [objects_loop] in H.
  bind_inv H. destruct (positioned_tok_valid input _ _ _ Hv (object_term_safe tf input Hv) E) as [Vo Vr].
  assert (Ha' : Forall ptriple_valid (acc ++ [(subj, pred, p)])) by (apply Forall_app; split; [assumption|repeat constructor; assumption]).
  destruct (strip_prefix [44] (skip_ws s)) as [after_comma|] eqn:Ec.
  - eapply IH; [|exact Vs|exact Vp|exact Ha'|exact H].
    eapply suf_valid. apply (strip_suf [44] s s); [kw_a|kw_n|apply suf_refl; assumption|exact Ec].
  - inversion H; subst. split; assumption.
Qed.

Lemma preds_loop_valid : forall fuel tf subj input acc ts r, Valid input -> ptok_valid subj ->
  Forall ptriple_valid acc -> preds_loop fuel tf subj input acc = Ok (ts, r) -> Forall ptriple_valid ts /\ Valid r.
Proof.
  induction fuel as [|f IH]; intros tf subj input acc ts r Hv Vs Ha H; [discriminate|]. cbn [preds_loop] in H.
  bind_inv H. destruct (positioned_tok_valid input _ _ _ Hv (predicate_term_safe input Hv) E) as [Vp Vr].
  bind_inv H. destruct (objects_loop_valid _ _ _ _ _ _ _ _ Vr Vs Vp Ha E0) as [Ha' Vi'].
  destruct (strip_prefix [59] (skip_ws s0)) as [after0|] eqn:Ec; [|inversion H; subst; split; assumption].
  assert (V2 : Valid (skip_ws after0)).
  { apply skip_ws_valid. eapply suf_valid. apply (strip_suf [59] s0 s0); [kw_a|kw_n|apply suf_refl; assumption|exact Ec]. }
  destruct (stmt_stops_after_semicolon (skip_ws after0)) as [stop|? ? ?| |]; cbn [bind] in H; try discriminate.
  destruct stop; [inversion H; subst; split; assumption|]. eapply IH; [exact V2|exact Vs|exact Ha'|exact H].
Qed.

Lemma triples_statement_valid : forall tf input ts r, Valid input -> triples_statement tf input = Ok (ts, r) ->
  Forall ptriple_valid ts /\ Valid r.
Proof.
  intros tf input ts r Hv H. unfold triples_statement in H. bind_inv H.
  destruct (positioned_tok_valid input _ _ _ Hv (subject_term_safe tf input Hv) E) as [Vs Vr].
  eapply preds_loop_valid; [exact Vr|exact Vs|constructor|exact H].
Qed.

Lemma graph_block_loop_valid : forall fuel g input acc qs r, Valid input -> ptok_valid g -> Forall pquad_valid acc ->
  graph_block_loop fuel g input acc = Ok (qs, r) -> Forall pquad_valid qs.
Proof.
  induction fuel as [|f IH]; intros g input acc qs r Hv Vg Ha H; [discriminate|]. cbn [graph_block_loop] in H.
  destruct (strip_prefix [125] (skip_ws input)) as [remaining|]; [inversion H; subst; assumption|].
  bind_inv H. destruct (triples_statement_valid _ _ _ _ (skip_ws_valid _ Hv) E) as [Vt Vr].
  eapply IH; [| exact Vg | | exact H].
  - destruct (strip_prefix [46] (skip_ws s)) as [r0|] eqn:Ec; [|now apply skip_ws_valid].
    eapply suf_valid. apply (strip_suf [46] s s); [kw_a|kw_n|apply suf_refl; assumption|exact Ec].
  - apply Forall_app. split; [assumption|]. apply Forall_forall. intros q Hq. apply in_map_iff in Hq. destruct Hq as (t & <- & Ht).
    rewrite Forall_forall in Vt. split; [exact Vg|apply Vt; assumption].
Qed.

Lemma quad_block_loop_valid : forall fuel input acc qs r, Valid input -> Forall pquad_valid acc ->
  quad_block_loop fuel input acc = Ok (qs, r) -> Forall pquad_valid qs.
Proof.
  induction fuel as [|f IH]; intros input acc qs r Hv Ha H; [discriminate|]. cbn [quad_block_loop] in H.
  destruct (strip_prefix [125] (skip_ws input)) as [remaining|]; [inversion H; subst; assumption|].
  bind_inv H.
  assert (Step : Forall pquad_valid l /\ Valid s).
  { pose proof (skip_ws_valid _ Hv) as Vw.
    pose proof (quad_block_loop_safe 1 (skip_ws input) (skip_ws input) [] (suf_refl _ Vw)) as _.
    destruct (keyword kw_graph (skip_ws input)) as [[m after_graph]|? ? ?| |] eqn:Ek; try discriminate.
    - pose proof (keyword_safeP kw_graph (skip_ws input) ltac:(kw_a) ltac:(kw_n) Vw) as K. rewrite Ek in K. cbn in K.
      bind_inv E. destruct (positioned_tok_valid after_graph _ _ _ (suf_valid _ _ K) (graph_name_safe _ (suf_valid _ _ K)) E0) as [Vg Vn].
      pose proof (schar_np 123 s0 ltac:(lia) Vn) as C. destruct (schar 123 s0) as [gi|? ? ?| |]; cbn [bind] in E; try discriminate.
      cbn in C. split; [eapply graph_block_loop_valid; [exact (suf_valid _ _ C)|exact Vg|exact Ha|exact E]|].
      pose proof (graph_block_loop_safe (S (length gi)) p gi gi acc (suf_refl _ (suf_valid _ _ C))) as G. rewrite E in G. exact (suf_valid _ _ G).
    - bind_inv E. destruct (triples_statement_valid _ _ _ _ Vw E0) as [Vt Vr]. inversion E; subst. split; [|assumption].
      apply Forall_app. split; [assumption|]. apply Forall_forall. intros q Hq. apply in_map_iff in Hq. destruct Hq as (t & <- & Ht).
      rewrite Forall_forall in Vt. split; [exact I|apply Vt; assumption]. }
  destruct Step as [Vl Vs]. eapply IH; [|exact Vl|exact H].
  destruct (strip_prefix [46] (skip_ws s)) as [r0|] eqn:Ec; [|now apply skip_ws_valid].
  eapply suf_valid. apply (strip_suf [46] s s); [kw_a|kw_n|apply suf_refl; assumption|exact Ec].
Qed.

Lemma quad_block_valid : forall input qs r, Valid input -> quad_block input = Ok (qs, r) -> Forall pquad_valid qs.
Proof.
  intros input qs r Hv H. unfold quad_block in H.
  pose proof (schar_np 123 input ltac:(lia) Hv) as C. destruct (schar 123 input) as [i|? ? ?| |]; cbn [bind] in H; try discriminate.
  eapply quad_block_loop_valid; [exact (suf_valid _ _ C)|constructor|exact H].
Qed.

Lemma quad_block_np : forall s i, Suf s i -> NoPanic (fun a => Forall pquad_valid (fst a) /\ Suf s (snd a)) (quad_block i).
Proof.
  intros s i Hs. pose proof (quad_block_safe s i Hs) as H. destruct (quad_block i) as [[qs r]|? ? ?| |] eqn:E; cbn in *; auto.
  split; [|assumption]. eapply (quad_block_valid i); [exact (suf_valid _ _ Hs)|exact E].
Qed.

Lemma reject_if_safe : forall {A} s hit (k : unit -> res (A * str)), SafeP s (k tt) -> SafeP s (reject_if hit k).
Proof. intros A s [[l e]|] k H; cbn; auto. Qed.

Lemma update_core_safe : forall fuel alias s i, Suf s i -> SafeP s (update_core fuel alias i).
Proof.
  intros fuel alias s i Hs. unfold update_core.
  assert (QF : forall (is_hit : str -> bool) wg qs (k : option (nat * nat) -> res (update * str)), Forall pquad_valid qs ->
             (forall v, SafeP s (k v)) -> SafeP s (bind (quads_first is_hit wg qs) k)).
  { intros is_hit wg qs k Vq Hk. eapply bind_safe; [apply quads_first_np; exact Vq|]. intros v _. apply Hk. }
  apply kw_case; [kw_a|kw_n|assumption| |].
  - intros after_insert Hi. apply kw_case; [kw_a|kw_n|assumption| |].
    + intros after_data Hd. eapply bind_safe; [apply quad_block_np; exact Hd|]. intros [quads remaining] [Vq Sr]. cbn [fst snd] in *.
      apply QF; [assumption|]. intros v. apply reject_if_safe. apply ret_safe. assumption.
    + eapply bind_safe; [apply quad_block_np; exact Hi|]. intros [ins after_template] [Vq Sr]. cbn [fst snd] in *.
      apply kw_case; [kw_a|kw_n|assumption| |].
      * intros after_where Hw. bsafe s; [apply group_pattern_safe; assumption|]. intros [w remaining] S1. apply ret_safe. assumption.
      * destruct (alias && Nat.eqb (length (skip_ws after_template)) 0); [|exact I].
        apply QF; [assumption|]. intros v. apply reject_if_safe. apply ret_safe. assumption.
  - sp keyword_safeP. apply kw_case; [kw_a|kw_n|assumption| |].
    + intros after_data Hd. eapply bind_safe; [apply quad_block_np; exact Hd|]. intros [quads remaining] [Vq Sr]. cbn [fst snd] in *.
      apply QF; [assumption|]. intros v.
      eapply bind_safe with (P := fun _ => True); [apply or_else_opt_np; apply quads_first_np; assumption|]. intros hit _.
      apply reject_if_safe. apply ret_safe. assumption.
    + apply kw_case; [kw_a|kw_n|assumption| |].
      * intros after_where Hw. eapply bind_safe; [apply quad_block_np; exact Hw|]. intros [template remaining] [Vq Sr]. cbn [fst snd] in *.
        apply QF; [assumption|]. intros b. apply reject_if_safe. apply ret_safe. assumption.
      * eapply bind_safe; [apply quad_block_np; exact S|]. intros [del remaining] [Vq Sr]. cbn [fst snd] in *.
        apply QF; [assumption|]. intros b. apply reject_if_safe.
        destruct (alias && Nat.eqb (length (skip_ws remaining)) 0).
        -- apply QF; [assumption|]. intros v. apply reject_if_safe. apply ret_safe. assumption.
        -- eapply bind_safe with (P := fun a => Suf s (snd a)).
           ++ apply (proj1 (safeP_np s _)). apply kw_case; [kw_a|kw_n|assumption| |apply ret_safe; assumption].
              intros after_insert Hi. eapply bind_safe; [apply quad_block_np; exact Hi|]. intros [q r] [_ Sq]. apply ret_safe. assumption.
           ++ intros [ins remaining2] S2. cbn [snd] in S2. sp keyword_safeP.
              bsafe s; [apply group_pattern_safe; assumption|]. intros [w remaining3] S3. cbn [snd] in S3.
              destruct ins; apply ret_safe; assumption.
Qed.

(* ---- prologue and top level ------------------------------------------------------------------ *)
Lemma prefix_declaration_safe : forall s i, Suf s i -> SafeP s (prefix_declaration i).
Proof.
  intros s i Hs. unfold prefix_declaration. sp keyword_safeP. pose proof (suf_ws _ _ S) as Hw. pose proof (suf_valid _ _ Hw) as Vw.
  destruct (find_byte 58 (skip_ws i0)) as [colon|] eqn:Ef; [|exact I].
  destruct (find_byte_spec _ _ _ Ef) as [Hnth Hlt].
  destruct (ascii_byte_bnd (skip_ws i0) colon Vw Hlt) as [Bc Bc1]; [rewrite Hnth; lia|].
  rewrite slice_to_bnd by assumption. cbn [lift bind].
  pose proof (invalid_pn_prefix_ok _ (bnd_firstn_valid _ _ Bc)) as Hp.
  destruct (invalid_pn_prefix (firstn colon (skip_ws i0))) as [[[st ln]|]|? ? ?| |]; cbn in Hp; try contradiction; cbn [bind]; [exact I|].
  replace (colon + 1)%nat with (Datatypes.S colon) by lia. rewrite slice_from_bnd by assumption. cbn [lift bind].
  assert (Sa : Suf s (skipn (Datatypes.S colon) (skip_ws i0))) by (eapply suf_trans; [exact Hw|]; eexists; split; [exact Bc1|reflexivity]).
  pose proof (suf_valid _ _ Sa) as Va.
  pose proof (safeP_weaken s _ _ Sa (iri_safeP _ Va)) as HI.
  destruct (iri (skipn (Datatypes.S colon) (skip_ws i0))) as [[tok remaining]|? ? ?| |] eqn:Ei; cbn in HI; try contradiction; cbn [bind]; try exact I.
  destruct (iri_shape _ _ _ Va Ei) as (Hl & Hfirst & Hlast & Vt).
  assert (B1 : Bnd tok 1).
  { destruct (ascii_byte_bnd tok 0 Vt) as [_ B]; [lia|rewrite Hfirst; lia|exact B]. }
  assert (Bl : Bnd tok (length tok - 1)).
  { destruct (ascii_byte_bnd tok (length tok - 1) Vt) as [B _]; [lia|rewrite Hlast; lia|exact B]. }
  unfold slice. rewrite (bnd_is_char_boundary _ _ B1), (bnd_is_char_boundary _ _ Bl).
  replace (Nat.leb 1 (length tok - 1)) with true by (symmetry; apply Nat.leb_le; lia). cbn [andb lift bind].
  apply ret_safe. assumption.
Qed.

Lemma prefixes_loop_safe : forall fuel s i m, Suf s i -> SafeP s (prefixes_loop fuel i m).
Proof.
  induction fuel as [|f IH]; intros s i m Hs; [exact I|]. cbn [prefixes_loop].
  eapply bind_safe; [apply (sk_np kw_prefix s); [kw_a|kw_n|exact Hs]|]. intros b _. destruct b; [|apply ret_safe; assumption].
  bsafe s; [apply prefix_declaration_safe; assumption|]. intros [d r] S1. apply IH. assumption.
Qed.

Lemma sparql_prefixes_safe : forall s, Valid s -> SafeP s (sparql_prefixes s).
Proof. intros s Hv. apply prefixes_loop_safe. now apply suf_refl. Qed.

Lemma finish_np : forall {A} remaining (a : A), NoPanic (fun _ => True) (finish remaining a).
Proof. intros A remaining a. unfold finish. destruct (skip_ws remaining); exact I. Qed.

(* THE SAFETY THEOREM OF THE GRAMMAR MODEL: no slice anywhere in the modelled parser can panic *)
Theorem parse_sparql_query_no_panic : forall fuel s, Valid s -> parse_sparql_query fuel s <> Panic.
Proof.
  intros fuel s Hv. unfold parse_sparql_query.
  pose proof (sparql_prefixes_safe s Hv) as P. destruct (sparql_prefixes s) as [[m i1]|? ? ?| |]; cbn in P; try contradiction; cbn [bind]; try discriminate.
  pose proof (select_core_safe fuel true s i1 P) as Q. destruct (select_core fuel true i1) as [[q remaining]|? ? ?| |]; cbn in Q; try contradiction; cbn [bind]; try discriminate.
  pose proof (finish_np remaining q) as F. destruct (finish remaining q); cbn in F; try contradiction; discriminate.
Qed.

Theorem parse_top_no_panic : forall fuel alias s, Valid s -> parse_top fuel alias s <> Panic.
Proof.
  intros fuel alias s Hv. unfold parse_top.
  pose proof (sparql_prefixes_safe s Hv) as P. destruct (sparql_prefixes s) as [[m i1]|? ? ?| |]; cbn in P; try contradiction; cbn [bind]; try discriminate.
  pose proof (suf_ws _ _ P) as Hw. destruct (skip_ws i1) as [|b0 t0] eqn:Ei; [discriminate|]. rewrite <- Ei in *.
  pose proof (sk_np kw_select s _ ltac:(kw_a) ltac:(kw_n) Hw) as K1.
  destruct (starts_keyword kw_select (skip_ws i1)) as [issel|? ? ?| |]; cbn in K1; try contradiction; cbn [bind]; try discriminate.
  destruct issel.
  - pose proof (select_core_safe fuel true s _ Hw) as Q. destruct (select_core fuel true (skip_ws i1)) as [[q remaining]|? ? ?| |]; cbn in Q; try contradiction; cbn [bind]; try discriminate.
    pose proof (finish_np remaining (TSelect m q)) as F. destruct (finish remaining (TSelect m q)); cbn in F; try contradiction; discriminate.
  - pose proof (sk_np kw_insert s _ ltac:(kw_a) ltac:(kw_n) Hw) as K2.
    destruct (starts_keyword kw_insert (skip_ws i1)) as [isins|? ? ?| |]; cbn in K2; try contradiction; cbn [bind]; try discriminate.
    assert (K3 : NoPanic (fun _ => True) (if isins then Ok true else starts_keyword kw_delete (skip_ws i1))).
    { destruct isins; [exact I|]. apply (sk_np kw_delete s); [kw_a|kw_n|exact Hw]. }
    destruct (if isins then Ok true else starts_keyword kw_delete (skip_ws i1)) as [isdel|? ? ?| |]; cbn in K3; try contradiction; cbn [bind]; try discriminate.
    destruct isdel; [|discriminate].
    pose proof (update_core_safe fuel alias s _ Hw) as Q. destruct (update_core fuel alias (skip_ws i1)) as [[u remaining]|? ? ?| |]; cbn in Q; try contradiction; cbn [bind]; try discriminate.
    pose proof (finish_np remaining (TUpdate m u)) as F. destruct (finish remaining (TUpdate m u)); cbn in F; try contradiction; discriminate.
Qed.

(* ---- whole input ----------------------------------------------------------------------------- *)
Lemma skip_ws_nil_layout : forall r, Valid r -> skip_ws r = [] -> Layout r.
Proof.
  intros r Hv E. destruct (skip_ws_spec r Hv) as (w & Hw & Er & _). rewrite E, app_nil_r in Er. now subst.
Qed.

Lemma finish_ok : forall {A} remaining (a b : A), finish remaining a = Ok b -> a = b /\ skip_ws remaining = [].
Proof. intros A remaining a b H. unfold finish in H. destruct (skip_ws remaining); [inversion H; auto|discriminate]. Qed.

Theorem parse_sparql_query_whole : forall fuel s q, Valid s -> parse_sparql_query fuel s = Ok q ->
  exists m i1 rest, sparql_prefixes s = Ok (m, i1) /\ select_core fuel true i1 = Ok (q, rest) /\ Suf s rest /\ Layout rest.
Proof.
  intros fuel s q Hv H. unfold parse_sparql_query in H.
  pose proof (sparql_prefixes_safe s Hv) as P. destruct (sparql_prefixes s) as [[m i1]|? ? ?| |] eqn:E1; cbn [bind] in H; try discriminate. cbn in P.
  pose proof (select_core_safe fuel true s i1 P) as Q. destruct (select_core fuel true i1) as [[q' rest]|? ? ?| |] eqn:E2; cbn [bind] in H; try discriminate. cbn in Q.
  destruct (finish_ok _ _ _ H) as [-> E]. exists m, i1, rest. split; [reflexivity|]. split; [assumption|]. split; [assumption|].
  apply skip_ws_nil_layout; [eapply suf_valid; eassumption|assumption].
Qed.

Theorem parse_top_whole : forall fuel alias s t, Valid s -> parse_top fuel alias s = Ok t -> t <> TExtension ->
  exists m i1 rest, sparql_prefixes s = Ok (m, i1) /\ Suf s rest /\ Layout rest /\
    ((exists q, t = TSelect m q /\ select_core fuel true (skip_ws i1) = Ok (q, rest)) \/
     (exists u, t = TUpdate m u /\ update_core fuel alias (skip_ws i1) = Ok (u, rest))).
Proof.
  intros fuel alias s t Hv H Hne. unfold parse_top in H.
  pose proof (sparql_prefixes_safe s Hv) as P. destruct (sparql_prefixes s) as [[m i1]|? ? ?| |] eqn:E1; cbn [bind] in H; try discriminate. cbn in P.
  pose proof (suf_ws _ _ P) as Hw. destruct (skip_ws i1) as [|b0 t0] eqn:Ei; [discriminate|]. rewrite <- Ei in *.
  destruct (starts_keyword kw_select (skip_ws i1)) as [issel|? ? ?| |]; cbn [bind] in H; try discriminate.
  destruct issel.
  - pose proof (select_core_safe fuel true s _ Hw) as Q. destruct (select_core fuel true (skip_ws i1)) as [[q rest]|? ? ?| |] eqn:E2; cbn [bind] in H; try discriminate. cbn in Q.
    destruct (finish_ok _ _ _ H) as [<- E]. exists m, i1, rest. split; [reflexivity|]. split; [assumption|].
    split; [apply skip_ws_nil_layout; [eapply suf_valid; eassumption|assumption]|]. left. exists q. split; [reflexivity|assumption].
  - destruct (starts_keyword kw_insert (skip_ws i1)) as [isins|? ? ?| |]; cbn [bind] in H; try discriminate.
    destruct (if isins then Ok true else starts_keyword kw_delete (skip_ws i1)) as [isdel|? ? ?| |]; cbn [bind] in H; try discriminate.
    destruct isdel; [|inversion H; congruence].
    pose proof (update_core_safe fuel alias s _ Hw) as Q. destruct (update_core fuel alias (skip_ws i1)) as [[u rest]|? ? ?| |] eqn:E2; cbn [bind] in H; try discriminate. cbn in Q.
    destruct (finish_ok _ _ _ H) as [<- E]. exists m, i1, rest. split; [reflexivity|]. split; [assumption|].
    split; [apply skip_ws_nil_layout; [eapply suf_valid; eassumption|assumption]|]. right. exists u. split; [reflexivity|assumption].
Qed.
