(* A first statement-level round trip: one triple whose three terms are variables or IRIs, printed under any layout. *)
Require Import List NArith Bool PeanoNat Lia ZifyBool ZifyN.
Require Import KV.Parser.Utf8 KV.Parser.Unicode KV.Parser.Keywords KV.Parser.Scanners KV.Parser.Grammar.
Require Import KV.Parser.Utf8Proofs KV.Parser.ScannerProofs KV.Parser.GrammarProofs KV.Parser.RoundTrip.
Import ListNotations.
Open Scope N_scope.

Definition SimpleTok (t : str) : Prop := VarTok t \/ IriTok t.

Lemma simple_valid : forall t, SimpleTok t -> Valid t.
Proof.
  intros t [H|H]; inversion H; subst.
  - apply (valid_app [sigil]); [apply valid_ascii; repeat constructor; lia|now apply valid_encode].
  - apply (valid_app [60]); [apply valid_ascii; repeat constructor; lia|]. apply valid_app; [now apply iri_body_valid|apply valid_ascii; repeat constructor; lia].
Qed.

(* first byte of a simple token: ASCII, one of ? $ < *)
Lemma simple_head : forall t, SimpleTok t -> exists b r, t = b :: r /\ (b = 63 \/ b = 36 \/ b = 60).
Proof. intros t [H|H]; inversion H; subst; eexists _, _; (split; [reflexivity|lia]). Qed.

(* what may follow a simple token so that it is scanned back exactly: nothing that continues a variable name *)
Definition simple_stop (rest : str) : Prop := var_stop rest.

Lemma simple_skip : forall w tok rest, LayoutC w -> SimpleTok tok -> Valid rest -> skip_ws (w ++ tok ++ rest) = tok ++ rest.
Proof.
  intros w tok rest Hw Ht Hr. pose proof (simple_valid tok Ht) as Vt. destruct (simple_head tok Ht) as (b & r & Eb & Hb).
  apply skip_ws_closed; [assumption|now apply valid_app|]. rewrite Eb. cbn [app].
  apply ascii_head_not_layout; [lia|destruct Hb as [->|[->| ->]]; reflexivity|lia].
Qed.

Lemma iri_second_not_lt : forall items rest, Forall item_ok items -> match (iri_body items ++ [62]) ++ rest with b :: _ => b <> 60 | [] => True end.
Proof.
  intros items rest Hit. destruct items as [|it items']; [cbn; lia|]. inversion Hit as [|? ? Hit1 _]; subst. cbn [iri_body flat_map]. rewrite <- !app_assoc.
  destruct it as [c|h|h]; cbn [item_bytes item_ok app] in *; try lia.
  destruct Hit1 as (Hc & Hforb & _). destruct (N.lt_ge_cases c 128) as [Hlt|Hge].
  - rewrite encode_char_ascii by assumption. cbn [app]. intro E. subst c. discriminate Hforb.
  - destruct (encode_char c) as [|b t] eqn:E.
    + pose proof (encode_char_len c) as H. rewrite E in H. pose proof (len_utf8_pos c). cbn in H. lia.
    + cbn [app]. pose proof (encode_char_bytes_high c b Hge (scalar_lt _ Hc)) as Hb'. rewrite E in Hb'. specialize (Hb' (or_introl eq_refl)). lia.
Qed.

Lemma subject_term_simple : forall f w tok rest, LayoutC w -> SimpleTok tok -> Valid rest -> simple_stop rest ->
  subject_term (S f) (w ++ tok ++ rest) = Ok (tok, rest).
Proof.
  intros f w tok rest Hw Ht Hr Hst. pose proof (simple_valid tok Ht) as Vt.
  assert (Vall : Valid (w ++ tok ++ rest)) by (apply valid_app; [now apply layoutC_valid|now apply valid_app]).
  pose proof (simple_skip w tok rest Hw Ht Hr) as Esk.
  unfold subject_term, subject_term_with, alt. cbn [alt_from]. destruct Ht as [Hv|Hi].
  - inversion Hv as [sigil cs Hsig Hne Hs Hc]; subst.
    alt_skip (quoted_triple_err f _ _ _ Vall Esk ltac:(lia)). now rewrite variable_roundtrip.
  - inversion Hi as [items Hit]; subst.
    alt_skip (quoted_triple_err2 f _ _ Vall Esk (iri_second_not_lt items rest Hit)).
    alt_skip (variable_err _ _ _ Esk ltac:(lia) ltac:(lia) ltac:(lia)). now rewrite iri_roundtrip.
Qed.

Lemma predicate_term_simple : forall w tok rest, LayoutC w -> SimpleTok tok -> Valid rest -> simple_stop rest ->
  predicate_term (w ++ tok ++ rest) = Ok (tok, rest).
Proof.
  intros w tok rest Hw Ht Hr Hst. pose proof (simple_skip w tok rest Hw Ht Hr) as Esk.
  unfold predicate_term. destruct Ht as [Hv|Hi].
  - now rewrite variable_roundtrip.
  - inversion Hi as [items Hit]; subst.
    alt_skip (variable_err _ _ _ Esk ltac:(lia) ltac:(lia) ltac:(lia)). cbn [orelse]. now rewrite iri_roundtrip.
Qed.

Lemma object_term_simple : forall f w tok rest, LayoutC w -> SimpleTok tok -> Valid rest -> simple_stop rest ->
  object_term (S f) (w ++ tok ++ rest) = Ok (tok, rest).
Proof. intros f w tok rest Hw [Hv|Hi] Hr Hst; [now apply object_term_variable|now apply object_term_iri]. Qed.

(* the statement ends: after optional layout comes `.`, `}` or the end of the input *)
Definition stmt_end (rest : str) : Prop :=
  exists w tail, LayoutC w /\ rest = w ++ tail /\ Valid tail /\ (tail = [] \/ exists r, tail = 46 :: r \/ tail = 125 :: r).

Lemma simple_stop_simple : forall tok rest, SimpleTok tok -> simple_stop (tok ++ rest).
Proof.
  intros tok rest Ht. destruct (simple_head tok Ht) as (b & r & -> & Hb). unfold simple_stop, var_stop. cbn [app next_char].
  destruct (N.ltb_spec b 128); [|lia]. destruct Hb as [->|[->| ->]]; reflexivity.
Qed.

Lemma in_ranges_spec : forall rs c, in_ranges rs c = true -> exists lo hi, In (lo, hi) rs /\ lo <= c <= hi.
Proof.
  induction rs as [|[lo hi] rs IH]; intros c H; [discriminate|]. cbn [in_ranges] in H.
  destruct (N.ltb_spec c lo); [discriminate|]. destruct (N.leb_spec c hi).
  - exists lo, hi. split; [now left|lia].
  - destruct (IH c H) as (l & h & Hin & Hb). exists l, h. split; [now right|assumption].
Qed.

Definition ws_all : list N :=
  [9; 10; 11; 12; 13; 32; 133; 160; 5760; 8192; 8193; 8194; 8195; 8196; 8197; 8198; 8199; 8200; 8201; 8202; 8232; 8233; 8239; 8287; 12288].

Lemma ws_not_var : forall c, is_whitespace c = true -> var_char c = false.
Proof.
  intros c H. assert (Hin : In c ws_all).
  { destruct (in_ranges_spec _ _ H) as (lo & hi & Hr & Hb). unfold whitespace_ranges in Hr. cbn [In] in Hr.
    repeat (destruct Hr as [Hr|Hr]; [injection Hr as <- <-; unfold ws_all; cbn [In]; lia|]). destruct Hr. }
  assert (All : forallb (fun x => negb (var_char x)) ws_all = true) by (vm_compute; reflexivity).
  rewrite forallb_forall in All. specialize (All c Hin). now apply negb_true_iff in All.
Qed.

Lemma simple_stop_layout : forall w tok rest, LayoutC w -> SimpleTok tok -> simple_stop (w ++ tok ++ rest).
Proof.
  intros w tok rest Hw Ht.
  assert (WsHead : forall ws x, WsOnly ws -> simple_stop x -> simple_stop (ws ++ x)).
  { intros ws x Hws Hx. destruct Hws as [|c ws' Hc Hcw Hws']; [exact Hx|].
    unfold simple_stop, var_stop. rewrite <- app_assoc. rewrite next_char_encode by now apply scalar_lt. now apply ws_not_var. }
  destruct Hw as [ws Hws|ws body e w' Hws Hb Hvb He Hw'].
  - apply WsHead; [assumption|now apply simple_stop_simple].
  - rewrite <- app_assoc. apply WsHead; [assumption|]. unfold simple_stop, var_stop. cbn [app next_char]. reflexivity.
Qed.

Lemma stmt_end_facts : forall rest, stmt_end rest ->
  Valid rest /\ simple_stop rest /\ strip_prefix [44] (skip_ws rest) = None /\ strip_prefix [59] (skip_ws rest) = None.
Proof.
  intros rest (w & tail & Hw & -> & Vt & Ht).
  assert (Hnl : ~ starts_layout tail).
  { destruct Ht as [->|(r & [-> | ->])]; [unfold starts_layout; cbn; tauto| |]; apply ascii_head_not_layout; try lia; reflexivity. }
  assert (Hs : simple_stop tail) by (destruct Ht as [->|(r & [-> | ->])]; unfold simple_stop, var_stop; cbn; reflexivity || exact I).
  split; [apply valid_app; [now apply layoutC_valid|assumption]|]. split.
  - assert (WsHead : forall ws x, WsOnly ws -> simple_stop x -> simple_stop (ws ++ x)).
    { intros ws x Hws Hx. destruct Hws as [|c ws' Hc Hcw Hws']; [exact Hx|].
      unfold simple_stop, var_stop. rewrite <- app_assoc. rewrite next_char_encode by now apply scalar_lt. now apply ws_not_var. }
    destruct Hw as [ws Hws|ws body e w' Hws Hb Hvb He Hw'].
    + now apply WsHead.
    + rewrite <- app_assoc. apply WsHead; [assumption|]. unfold simple_stop, var_stop. cbn [app next_char]. reflexivity.
  - rewrite skip_ws_closed by assumption. destruct Ht as [->|(r & [-> | ->])]; split; reflexivity.
Qed.

Theorem triple_roundtrip : forall f w1 s w2 p w3 o rest,
  LayoutC w1 -> LayoutC w2 -> LayoutC w3 -> SimpleTok s -> SimpleTok p -> SimpleTok o -> stmt_end rest ->
  (do r <- triples_statement (S f) (w1 ++ s ++ w2 ++ p ++ w3 ++ o ++ rest); Ok (map strip_t (fst r), snd r)) = Ok ([(s, p, o)], rest).
Proof.
  intros f w1 s w2 p w3 o rest H1 H2 H3 Hs Hp Ho Hend.
  destruct (stmt_end_facts rest Hend) as (Hr & Hst & Hc & Hsc).
  set (R2 := w3 ++ o ++ rest). set (R1 := w2 ++ p ++ R2).
  assert (V2 : Valid R2) by (unfold R2; apply valid_app; [now apply layoutC_valid|apply valid_app; [now apply simple_valid|assumption]]).
  assert (V1 : Valid R1) by (unfold R1; apply valid_app; [now apply layoutC_valid|apply valid_app; [now apply simple_valid|assumption]]).
  unfold triples_statement.
  rewrite (subject_term_simple f w1 s R1 H1 Hs V1 (simple_stop_layout w2 p R2 H2 Hp)). cbn [positioned bind].
  cbn [preds_loop]. unfold R1 at 1.
  rewrite (predicate_term_simple w2 p R2 H2 Hp V2 (simple_stop_layout w3 o rest H3 Ho)). cbn [positioned bind].
  cbn [objects_loop]. unfold R2 at 1.
  rewrite (object_term_simple f w3 o rest H3 Ho Hr Hst). cbn [positioned bind app].
  rewrite Hc. cbn [bind]. rewrite Hsc. cbn [bind map strip_t fst snd]. reflexivity.
Qed.

(* ---- keywords in any letter case, punctuation ------------------------------------------------------ *)
Definition KwCase (kw txt : str) : Prop := Forall2 (fun k b => ascii_lower b = ascii_lower k) kw txt.

Lemma kwcase_prefix : forall kw txt rest, KwCase kw txt -> prefix_nocase kw (txt ++ rest) = true.
Proof. induction 1; cbn [app prefix_nocase]; [reflexivity|]. rewrite H, N.eqb_refl. exact IHForall2. Qed.

Lemma kwcase_length : forall kw txt, KwCase kw txt -> length txt = length kw.
Proof. induction 1; cbn; congruence. Qed.

Lemma kwcase_ascii : forall kw txt, ascii_str kw -> KwCase kw txt -> ascii_str txt.
Proof.
  intros kw txt Ha H. induction H as [|k b kw' txt' Hkb _ IH]; [constructor|]. inversion Ha; subst. constructor; [|now apply IH].
  destruct (N.lt_ge_cases b 128); [assumption|]. rewrite ascii_lower_high in Hkb by assumption. pose proof (ascii_lower_low k H1). lia.
Qed.

Definition letter (b : N) : Prop := is_ascii_alpha b = true.

Lemma letter_not_layout : forall b t, letter b -> ~ starts_layout (b :: t).
Proof.
  intros b t Hb. unfold letter, is_ascii_alpha, is_ascii_upper, is_ascii_lower in Hb.
  apply ascii_head_not_layout; [lia| |lia].
  assert (65 <= b <= 122) by lia. unfold is_whitespace, in_ranges, whitespace_ranges.
  destruct (N.ltb_spec b 9); [lia|]. destruct (N.leb_spec b 13); [lia|]. destruct (N.ltb_spec b 32); [lia|].
  destruct (N.leb_spec b 32); [lia|]. destruct (N.ltb_spec b 133); [reflexivity|lia].
Qed.

Definition name_stop (rest : str) : Prop :=
  match next_char rest with Some (c, _) => name_character c = false | None => True end.

Lemma keyword_roundtrip : forall kw txt w rest, ascii_str kw -> KwCase kw txt -> (exists b t, txt = b :: t /\ letter b) ->
  LayoutC w -> Valid rest -> name_stop rest -> keyword kw (w ++ txt ++ rest) = Ok (txt, rest).
Proof.
  intros kw txt w rest Ha Hk (b & t & Eb & Hb) Hw Hr Hst.
  pose proof (kwcase_ascii kw txt Ha Hk) as Hat. assert (Vt : Valid txt) by now apply valid_ascii.
  unfold keyword. rewrite skip_ws_closed; [|assumption|now apply valid_app|rewrite Eb; cbn [app]; now apply letter_not_layout].
  rewrite kwcase_prefix by assumption. rewrite <- (kwcase_length kw txt Hk).
  rewrite slice_from_bnd, slice_to_bnd by (now apply valid_app_bnd). cbn [lift bind].
  rewrite skipn_app, skipn_all, Nat.sub_diag, firstn_app, firstn_all, Nat.sub_diag. cbn [skipn firstn app]. rewrite app_nil_r.
  unfold name_stop in Hst. destruct (next_char rest) as [[c n]|]; [now rewrite Hst|reflexivity].
Qed.

Lemma keyword_fail : forall kw k0 kw' s b t, kw = k0 :: kw' -> skip_ws s = b :: t -> ascii_lower b <> ascii_lower k0 -> is_err (keyword kw s).
Proof.
  intros kw k0 kw' s b t -> E Hne. unfold keyword. rewrite E. cbn [prefix_nocase].
  destruct (N.eqb_spec (ascii_lower b) (ascii_lower k0)); [congruence|]. cbn [andb]. repeat eexists.
Qed.

Lemma starts_keyword_false : forall kw s, is_err (keyword kw s) -> starts_keyword kw s = Ok false.
Proof. intros kw s (k & l & e & H). unfold starts_keyword. now rewrite H. Qed.

Lemma schar_roundtrip : forall c w rest, c < 128 -> is_whitespace c = false -> c <> 35 -> LayoutC w -> Valid rest ->
  schar c (w ++ c :: rest) = Ok rest.
Proof.
  intros c w rest Hc Hws H35 Hw Hr. unfold schar.
  rewrite skip_ws_closed; [|assumption|apply (valid_app [c]); [apply valid_ascii; repeat constructor; assumption|assumption]|now apply ascii_head_not_layout].
  now rewrite N.eqb_refl.
Qed.

(* ---- { s p o [.] }  ->  Bgp [(s, p, o)] ------------------------------------------------------------- *)
Lemma simple_first_byte : forall tok, SimpleTok tok -> exists b r, tok = b :: r /\ (b = 63 \/ b = 36 \/ b = 60).
Proof. exact simple_head. Qed.

Lemma kw_fail_on_simple : forall kw k0 kw' w tok rest, kw = k0 :: kw' -> letter k0 -> LayoutC w -> SimpleTok tok -> Valid rest ->
  is_err (keyword kw (w ++ tok ++ rest)).
Proof.
  intros kw k0 kw' w tok rest Ek Hl Hw Ht Hr. destruct (simple_head tok Ht) as (b & r & Eb & Hb).
  pose proof (simple_skip w tok rest Hw Ht Hr) as Esk. subst tok. cbn [app] in Esk.
  apply (keyword_fail kw k0 kw' _ b (r ++ rest) Ek Esk).
  unfold letter, is_ascii_alpha, is_ascii_upper, is_ascii_lower in Hl. unfold ascii_lower, is_ascii_upper.
  destruct Hb as [->|[->| ->]]; cbn; destruct ((65 <=? k0) && (k0 <=? 90)) eqn:E; lia.
Qed.

Lemma skip_ws_idem_simple : forall tok rest, SimpleTok tok -> Valid rest -> skip_ws (tok ++ rest) = tok ++ rest.
Proof. intros tok rest Ht Hr. apply (simple_skip [] tok rest); [apply LC_end; constructor|assumption|assumption]. Qed.

Theorem group_roundtrip : forall f w0 w1 s w2 p w3 o w4 rest,
  LayoutC w0 -> LayoutC w1 -> LayoutC w2 -> LayoutC w3 -> LayoutC w4 -> SimpleTok s -> SimpleTok p -> SimpleTok o -> Valid rest ->
  group_pattern (S (S (S f))) (w0 ++ 123 :: (w1 ++ s ++ w2 ++ p ++ w3 ++ o ++ w4 ++ 125 :: rest)) = Ok (GBgp [(s, p, o)], rest).
Proof.
  intros f w0 w1 s w2 p w3 o w4 rest H0 H1 H2 H3 H4 Hs Hp Ho Hr.
  set (A := w4 ++ 125 :: rest). set (T := w2 ++ p ++ w3 ++ o ++ A).
  assert (VA : Valid A) by (unfold A; apply valid_app; [now apply layoutC_valid|apply (valid_app [125]); [apply valid_ascii; repeat constructor; lia|assumption]]).
  assert (EndA : stmt_end A).
  { exists w4, (125 :: rest). repeat split; try assumption; [apply (valid_app [125]); [apply valid_ascii; repeat constructor; lia|assumption]|].
    right. exists rest. now right. }
  assert (VT : Valid T).
  { unfold T. apply valid_app; [now apply layoutC_valid|]. apply valid_app; [now apply simple_valid|].
    apply valid_app; [now apply layoutC_valid|]. apply valid_app; [now apply simple_valid|assumption]. }
  assert (Vbody : Valid (w1 ++ s ++ T)) by (apply valid_app; [now apply layoutC_valid|apply valid_app; [now apply simple_valid|assumption]]).
  cbn [group_pattern]. rewrite schar_roundtrip by (try assumption; try lia; reflexivity). cbn [bind].
  cbn [group_loop]. fold T. rewrite (simple_skip w1 s T H1 Hs VT).
  destruct (simple_head s Hs) as (b & r & Eb & Hb).
  assert (Enot125 : strip_prefix [125] (s ++ T) = None).
  { rewrite Eb. unfold strip_prefix. cbn [app starts_with]. destruct (N.eqb_spec 125 b); [lia|reflexivity]. }
  rewrite Enot125.
  assert (LCnil : LayoutC []) by (apply LC_end; constructor).
  rewrite (starts_keyword_false kw_filter (s ++ T) (kw_fail_on_simple kw_filter _ _ [] s T eq_refl eq_refl LCnil Hs VT)). cbn [bind].
  rewrite (starts_keyword_false kw_bind (s ++ T) (kw_fail_on_simple kw_bind _ _ [] s T eq_refl eq_refl LCnil Hs VT)). cbn [bind].
  rewrite (starts_keyword_false kw_values (s ++ T) (kw_fail_on_simple kw_values _ _ [] s T eq_refl eq_refl LCnil Hs VT)). cbn [bind].
  rewrite (skip_ws_idem_simple s T Hs VT).
  assert (Enot123 : starts_with [123] (s ++ T) = false).
  { rewrite Eb. cbn [app starts_with]. destruct (N.eqb_spec 123 b); [lia|reflexivity]. }
  rewrite Enot123.
  (* group_primary *)
  cbn [group_primary].
  pose proof (kw_fail_on_simple kw_graph _ _ [] s T eq_refl eq_refl LCnil Hs VT) as (k1 & l1 & e1 & Kg). cbn [app] in Kg. rewrite Kg.
  rewrite (skip_ws_idem_simple s T Hs VT), Enot123.
  pose proof (triple_roundtrip (length (s ++ T)) [] s w2 p w3 o A LCnil H2 H3 Hs Hp Ho EndA) as TR. cbn [app] in TR. fold T in TR.
  destruct (triples_statement (S (length (s ++ T))) (s ++ T)) as [[ts r0]|? ? ?| |]; cbn [bind] in TR; try discriminate.
  cbn [fst snd] in TR. injection TR as Ets Er0. subst r0. cbn [bind]. rewrite Ets.
  (* union_loop *)
  cbn [union_loop].
  assert (EskA : skip_ws A = 125 :: rest).
  { unfold A. apply skip_ws_closed; [assumption|apply (valid_app [125]); [apply valid_ascii; repeat constructor; lia|assumption]|].
    apply ascii_head_not_layout; [lia|reflexivity|lia]. }
  pose proof (keyword_fail kw_union _ _ A 125 rest eq_refl EskA ltac:(cbv; discriminate)) as (k2 & l2 & e2 & Ku). rewrite Ku. cbn [bind].
  rewrite EskA. change (strip_prefix [46] (125 :: rest)) with (@None str).
  (* second iteration: the closing brace *)
  cbn [group_loop].
  assert (Esk2 : skip_ws (125 :: rest) = 125 :: rest).
  { apply skip_ws_fixed; [apply (valid_app [125]); [apply valid_ascii; repeat constructor; lia|assumption]|].
    apply ascii_head_not_layout; [lia|reflexivity|lia]. }
  rewrite Esk2. change (strip_prefix [125] (125 :: rest)) with (Some rest). reflexivity.
Qed.

(* ---- SELECT * WHERE { s p o }  under any layout and keyword case -------------------------------------- *)
Lemma ws_not_name : forall c, is_whitespace c = true -> name_character c = false.
Proof.
  intros c H. assert (Hin : In c ws_all).
  { destruct (in_ranges_spec _ _ H) as (lo & hi & Hr & Hb). unfold whitespace_ranges in Hr. cbn [In] in Hr.
    repeat (destruct Hr as [Hr|Hr]; [injection Hr as <- <-; unfold ws_all; cbn [In]; lia|]). destruct Hr. }
  assert (All : forallb (fun x => negb (name_character x)) ws_all = true) by (vm_compute; reflexivity).
  rewrite forallb_forall in All. specialize (All c Hin). now apply negb_true_iff in All.
Qed.

Lemma name_stop_layout : forall w x, LayoutC w -> name_stop x -> name_stop (w ++ x).
Proof.
  intros w x Hw Hx.
  assert (WsHead : forall ws y, WsOnly ws -> name_stop y -> name_stop (ws ++ y)).
  { intros ws y Hws Hy. destruct Hws as [|c ws' Hc Hcw Hws']; [exact Hy|].
    unfold name_stop. rewrite <- app_assoc. rewrite next_char_encode by now apply scalar_lt. now apply ws_not_name. }
  destruct Hw as [ws Hws|ws body e w' Hws Hb Hvb He Hw'].
  - now apply WsHead.
  - rewrite <- app_assoc. apply WsHead; [assumption|]. unfold name_stop. cbn [app next_char]. reflexivity.
Qed.

Lemma to_eol_noeol : forall body, no_eol body -> to_eol body = [].
Proof.
  induction body as [|b body IH]; intros H; [reflexivity|]. inversion H as [|? ? [H1 H2] H']; subst. cbn [to_eol].
  destruct (N.eqb_spec b 13); [lia|]. destruct (N.eqb_spec b 10); [lia|]. cbn [orb]. now apply IH.
Qed.

Lemma skip_ws_aux_nil : forall fuel, skip_ws_aux fuel [] = [].
Proof. destruct fuel; reflexivity. Qed.

Lemma skip_ws_aux_comment_end : forall fuel w body, LayoutC w -> no_eol body -> Valid body ->
  Nat.lt (length (w ++ 35 :: body)) fuel -> skip_ws_aux fuel (w ++ 35 :: body) = [].
Proof.
  induction fuel as [|f IH]; intros w body Hw Hb Hv Hl; [lia|].
  assert (Hnw : no_ws_head (35 :: body)) by (intros c n E; cbn in E; inversion E; reflexivity).
  destruct Hw as [ws Hws|ws body0 e w' Hws Hb0 Hvb0 He Hw'].
  - cbn [skip_ws_aux]. rewrite (trim_exact ws Hws _ (35 :: body) Hnw (le_n _)). rewrite N.eqb_refl, to_eol_noeol by assumption.
    apply skip_ws_aux_nil.
  - cbn [skip_ws_aux]. rewrite <- app_assoc. cbn [app]. rewrite <- app_assoc. cbn [app].
    rewrite (trim_exact ws Hws _ (35 :: body0 ++ e :: w' ++ 35 :: body)).
    + rewrite N.eqb_refl. rewrite to_eol_body by assumption. change (e :: w' ++ 35 :: body) with ((e :: w') ++ 35 :: body).
      apply IH; [now apply lc_cons_ws|assumption|assumption|].
      repeat (rewrite app_length in Hl || cbn [length] in Hl). rewrite app_length. cbn [length]. lia.
    + intros c n E. cbn in E. inversion E. reflexivity.
    + repeat (rewrite app_length in Hl || cbn [length] in Hl). repeat (rewrite app_length || cbn [length]). lia.
Qed.

(* what may remain after the query: closed layout, possibly followed by a comment that runs to the end *)
Definition LayoutEnd (r : str) : Prop :=
  exists wz, LayoutC wz /\ (r = wz \/ exists body, no_eol body /\ Valid body /\ r = wz ++ 35 :: body).

Lemma layout_end_skip : forall r, LayoutEnd r -> skip_ws r = [] /\ Valid r.
Proof.
  intros r (wz & Hw & [->|(body & Hb & Hv & ->)]).
  - split; [|now apply layoutC_valid]. rewrite <- (app_nil_r wz). apply skip_ws_closed; [assumption|apply valid_nil|].
    unfold starts_layout. cbn. tauto.
  - split.
    + unfold skip_ws. apply skip_ws_aux_comment_end; try assumption. lia.
    + apply valid_app; [now apply layoutC_valid|]. apply (valid_app [35]); [apply valid_ascii; repeat constructor; lia|assumption].
Qed.

Lemma keyword_on_nothing : forall kw k0 kw' r, kw = k0 :: kw' -> skip_ws r = [] -> is_err (keyword kw r).
Proof. intros kw k0 kw' r -> E. unfold keyword. rewrite E. cbn [prefix_nocase]. repeat eexists. Qed.

Definition star_tok : str := [42].

Theorem select_roundtrip : forall f wa sel wb wc wh w0 w1 s w2 p w3 o w4 wz,
  LayoutC wa -> KwCase kw_select sel -> LayoutC wb -> LayoutC wc -> KwCase kw_where wh ->
  LayoutC w0 -> LayoutC w1 -> LayoutC w2 -> LayoutC w3 -> LayoutC w4 -> SimpleTok s -> SimpleTok p -> SimpleTok o -> LayoutEnd wz ->
  parse_sparql_query (S (S (S (S f))))
    (wa ++ sel ++ wb ++ star_tok ++ wc ++ wh ++ w0 ++ 123 :: (w1 ++ s ++ w2 ++ p ++ w3 ++ o ++ w4 ++ 125 :: wz))
  = Ok (Select false [(star_tok, star_tok, None)] [] [] (GBgp [(s, p, o)]) [] [] None).
Proof.
  intros f wa sel wb wc wh w0 w1 s w2 p w3 o w4 wz Ha Hsel Hb Hc Hwh H0 H1 H2 H3 H4 Hs Hp Ho Hz.
  destruct (layout_end_skip wz Hz) as [Ez Vz].
  set (G := w0 ++ 123 :: (w1 ++ s ++ w2 ++ p ++ w3 ++ o ++ w4 ++ 125 :: wz)).
  assert (VG : Valid G).
  { unfold G. apply valid_app; [now apply layoutC_valid|]. apply (valid_app [123]); [apply valid_ascii; repeat constructor; lia|].
    apply valid_app; [now apply layoutC_valid|]. apply valid_app; [now apply simple_valid|]. apply valid_app; [now apply layoutC_valid|].
    apply valid_app; [now apply simple_valid|]. apply valid_app; [now apply layoutC_valid|]. apply valid_app; [now apply simple_valid|].
    apply valid_app; [now apply layoutC_valid|]. apply (valid_app [125]); [apply valid_ascii; repeat constructor; lia|assumption]. }
  assert (Asel : ascii_str sel) by (apply (kwcase_ascii kw_select); [kw_a|assumption]).
  assert (Awh : ascii_str wh) by (apply (kwcase_ascii kw_where); [kw_a|assumption]).
  set (R3 := G). set (R2 := wc ++ wh ++ R3). set (R1 := wb ++ star_tok ++ R2).
  assert (V2 : Valid R2) by (unfold R2; apply valid_app; [now apply layoutC_valid|apply valid_app; [now apply valid_ascii|assumption]]).
  assert (V1 : Valid R1) by (unfold R1; apply valid_app; [now apply layoutC_valid|apply (valid_app [42]); [apply valid_ascii; repeat constructor; lia|assumption]]).
  (* first letters of the two keywords *)
  assert (Hsel0 : exists b t, sel = b :: t /\ letter b /\ ascii_lower b = 115).
  { assert (Hsel' := Hsel). change kw_select with (83 :: [69; 76; 69; 67; 84]) in Hsel'. inversion Hsel' as [|k b kw' t Hkb Hrest]; subst.
    exists b, t. split; [reflexivity|]. change (ascii_lower 83) with 115 in Hkb. unfold letter, is_ascii_alpha, is_ascii_upper, is_ascii_lower, ascii_lower, is_ascii_upper in *.
    destruct ((65 <=? b) && (b <=? 90)) eqn:E; split; lia. }
  assert (Hwh0 : exists b t, wh = b :: t /\ letter b /\ ascii_lower b = 119).
  { assert (Hwh' := Hwh). change kw_where with (87 :: [72; 69; 82; 69]) in Hwh'. inversion Hwh' as [|k b kw' t Hkb Hrest]; subst.
    exists b, t. split; [reflexivity|]. change (ascii_lower 87) with 119 in Hkb. unfold letter, is_ascii_alpha, is_ascii_upper, is_ascii_lower, ascii_lower, is_ascii_upper in *.
    destruct ((65 <=? b) && (b <=? 90)) eqn:E; split; lia. }
  destruct Hsel0 as (bs0 & ts0 & Esel & Lsel & Lowsel). destruct Hwh0 as (bw0 & tw0 & Ewh & Lwh & Lowwh).
  assert (Esk_in : skip_ws (wa ++ sel ++ R1) = sel ++ R1).
  { apply skip_ws_closed; [assumption|apply valid_app; [now apply valid_ascii|assumption]|]. rewrite Esel. cbn [app]. now apply letter_not_layout. }
  unfold parse_sparql_query, sparql_prefixes. fold R3 R2 R1. cbn [prefixes_loop].
  assert (Kp : is_err (keyword kw_prefix (wa ++ sel ++ R1))).
  { rewrite Esel in Esk_in. cbn [app] in Esk_in. rewrite Esel. apply (keyword_fail kw_prefix _ _ _ bs0 (ts0 ++ R1) eq_refl Esk_in). rewrite Lowsel. cbv. discriminate. }
  rewrite (starts_keyword_false _ _ Kp). cbn [bind].
  (* SELECT *)
  cbn [select_core].
  assert (Nst1 : name_stop R1) by (unfold R1; apply name_stop_layout; [assumption|unfold name_stop, star_tok; cbn; reflexivity]).
  rewrite (keyword_roundtrip kw_select sel wa R1 ltac:(kw_a) Hsel (ex_intro _ bs0 (ex_intro _ ts0 (conj Esel Lsel))) Ha V1 Nst1). cbn [bind].
  assert (Esk1 : skip_ws R1 = 42 :: R2).
  { unfold R1, star_tok. apply skip_ws_closed; [assumption|apply (valid_app [42]); [apply valid_ascii; repeat constructor; lia|assumption]|].
    apply ascii_head_not_layout; [lia|reflexivity|lia]. }
  pose proof (keyword_fail kw_distinct _ _ R1 42 R2 eq_refl Esk1 ltac:(cbv; discriminate)) as (k1 & l1 & e1 & Kd).
  unfold opt_keyword at 1. rewrite Kd. cbn [bind].
  unfold projection_items. rewrite Esk1. change (strip_prefix [42] (42 :: R2)) with (Some R2). cbn [bind].
  (* FROM: none; WHERE *)
  assert (Esk2 : skip_ws R2 = wh ++ R3).
  { unfold R2. apply skip_ws_closed; [assumption|apply valid_app; [now apply valid_ascii|assumption]|]. rewrite Ewh. cbn [app]. now apply letter_not_layout. }
  assert (Kf : is_err (keyword kw_from R2)).
  { rewrite Ewh in Esk2. cbn [app] in Esk2. apply (keyword_fail kw_from _ _ _ bw0 (tw0 ++ R3) eq_refl Esk2). rewrite Lowwh. cbv. discriminate. }
  destruct Kf as (k2 & l2 & e2 & Kf). cbn [from_loop]. rewrite Kf. cbn [bind].
  assert (Nst3 : name_stop R3).
  { unfold R3, G. apply name_stop_layout; [assumption|unfold name_stop; cbn; reflexivity]. }
  unfold opt_keyword. unfold R2 at 1.
  rewrite (keyword_roundtrip kw_where wh wc R3 ltac:(kw_a) Hwh (ex_intro _ bw0 (ex_intro _ tw0 (conj Ewh Lwh))) Hc VG Nst3). cbn [bind].
  unfold R3, G. rewrite (group_roundtrip f w0 w1 s w2 p w3 o w4 wz H0 H1 H2 H3 H4 Hs Hp Ho Vz). cbn [bind].
  (* no solution modifiers: only layout remains *)
  unfold opt_clause.
  rewrite (starts_keyword_false kw_group wz (keyword_on_nothing kw_group _ _ wz eq_refl Ez)). cbn [bind].
  rewrite (starts_keyword_false kw_order wz (keyword_on_nothing kw_order _ _ wz eq_refl Ez)). cbn [bind].
  rewrite (starts_keyword_false kw_limit wz (keyword_on_nothing kw_limit _ _ wz eq_refl Ez)). cbn [bind].
  unfold finish. rewrite Ez. reflexivity.
Qed.
