(* Entry points of the correspondence check (checks/c16.py): run the model on a byte string and render the
   result with N numbers only (no nat), as constructor terms the Python side parses. *)
Require Import List NArith Bool PeanoNat.
Require Import KV.Parser.Utf8 KV.Parser.Unicode KV.Parser.Keywords KV.Parser.Scanners KV.Parser.Grammar.
Import ListNotations.
Open Scope N_scope.

Inductive out (B : Type) : Type :=
| ROk (b : B)
| RErr (k elen eend : N)
| RPanic
| RFuel.
Arguments ROk {B} b.
Arguments RErr {B} k elen eend.
Arguments RPanic {B}.
Arguments RFuel {B}.

Definition render {A B} (f : A -> B) (r : res A) : out B :=
  match r with
  | Ok a => ROk (f a)
  | Err k l e => RErr k (N.of_nat l) (N.of_nat e)
  | Panic => RPanic
  | Fuel => RFuel
  end.

Definition nlen (s : str) : N := N.of_nat (length s).

(* scanners: (token bytes, length of the rest) *)
Definition run_tok (p : str -> res (str * str)) (s : str) : out (str * N) :=
  render (fun x => (fst x, nlen (snd x))) (p s).
(* grammar functions: (tree, length of the rest) *)
Definition run_p {A} (p : str -> res (A * str)) (s : str) : out (A * N) :=
  render (fun x => (fst x, nlen (snd x))) (p s).
Definition run_v {A} (p : str -> res A) (s : str) : out A := render (fun x => x) (p s).

Definition run_skip_ws (s : str) : N := nlen (skip_ws s).
Definition run_unicode_escape_len (s : str) : out (option N) := render (option_map N.of_nat) (unicode_escape_len s).
Definition run_invalid_pn_prefix (s : str) : out (option (N * N)) :=
  render (option_map (fun x => (N.of_nat (fst x), N.of_nat (snd x)))) (invalid_pn_prefix s).
Definition run_classes (c : N) : N :=
  (if is_alphabetic c then 1 else 0) + (if is_numeric c then 2 else 0) + (if is_whitespace c then 4 else 0)
  + (if is_alphanumeric c then 8 else 0).
Definition run_sparql_classes (c : N) : N :=
  (if name_character c then 1 else 0) + (if pn_chars_base c then 2 else 0) + (if pn_chars_u c then 4 else 0)
  + (if pn_chars c then 8 else 0).

Definition fl (s : str) : nat := default_fuel s.
Definition strip_ts (r : list ptriple * str) := (map strip_t (fst r), snd r).
Definition strip_qs (r : list pquad * str) := (map strip_q (fst r), snd r).

Definition m_subject_term (s : str) := subject_term (S (length s)) s.
Definition m_object_term (s : str) := object_term (S (length s)) s.
Definition m_quoted_triple (s : str) := quoted_triple (S (length s)) s.
Definition m_triples (s : str) := do r <- triples_statement (S (length s)) s; Ok (strip_ts r).
Definition m_quad_block (s : str) := do r <- quad_block s; Ok (strip_qs r).
Definition m_group (s : str) := group_pattern (fl s) s.
Definition m_filter (s : str) := filter_clause (fl s) s.
Definition m_select_core (allow : bool) (s : str) := select_core (fl s) allow s.
Definition m_update_core (alias : bool) (s : str) := update_core (fl s) alias s.
Definition m_select (s : str) := parse_sparql_query (fl s) s.
Definition m_top (alias : bool) (s : str) := parse_top (fl s) alias s.

(* Position of the parser's error inside the request, as error_handler.rs::error_offset computes it since
   b4ac3b3 (start of the error slice): the request length minus what follows the slice minus the slice. *)
Definition error_offset (s : str) (elen eend : nat) : nat := (length s - eend - elen)%nat.
Definition run_error_boundary (alias : bool) (s : str) : bool :=
  match m_top alias s with
  | Err _ elen eend => is_char_boundary s (error_offset s elen eend)
  | _ => true
  end.
