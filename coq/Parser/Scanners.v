(* Executable Gallina model of the hand-written token scanners of the unified SPARQL parser,
   kolibrie/src/parser.rs (sparql_skip_ws ... sparql_quoted_literal) and of the two lexical helpers of
   kolibrie/src/streamertail_optimizer/utils.rs (unescape_sparql_iri, literal_lexical_value).
   Same index arithmetic as the code (byte offsets into the `&str`), every `&s[a..b]` is a `slice*` that
   can return Panic.  Scanners return (token, rest) - the Rust code returns (rest, token).
   Model file: definitions only. *)
Require Import List NArith Bool PeanoNat.
Require Import KV.Parser.Utf8 KV.Parser.Unicode.
Import ListNotations.
Open Scope N_scope.

(* ---- character classes ---------------------------------------------------------------------- *)
Fixpoint in_ranges (rs : list (N * N)) (c : N) : bool :=
  match rs with
  | [] => false
  | (lo, hi) :: t => if c <? lo then false else if c <=? hi then true else in_ranges t c
  end.

Definition is_alphabetic (c : N) : bool := in_ranges alphabetic_ranges c.
Definition is_numeric (c : N) : bool := in_ranges numeric_ranges c.
Definition is_alphanumeric (c : N) : bool := is_alphabetic c || is_numeric c.
Definition is_whitespace (c : N) : bool := in_ranges whitespace_ranges c.

Definition between (lo hi c : N) : bool := (lo <=? c) && (c <=? hi).

Definition name_character (c : N) : bool := is_alphanumeric c || (c =? 95) || (c =? 45) || (c =? 58).

Definition pn_chars_base (c : N) : bool :=
  is_ascii_alpha c || is_alphabetic c
  || between 192 214 c || between 216 246 c || between 248 767 c || between 880 893 c
  || between 895 8191 c || between 8204 8205 c || between 8304 8591 c || between 11264 12271 c
  || between 12289 55295 c || between 63744 64975 c || between 65008 65533 c || between 65536 983039 c.
Definition pn_chars_u (c : N) : bool := (c =? 95) || pn_chars_base c.
Definition pn_chars (c : N) : bool :=
  pn_chars_u c || is_ascii_digit c || (c =? 45) || (c =? 183) || between 768 879 c || between 8255 8256 c.

(* ---- whitespace and comments (sparql_skip_ws) ------------------------------------------------- *)
Fixpoint trim_start_ws (fuel : nat) (s : str) : str :=
  match fuel with
  | O => s
  | S f => match next_char s with
           | Some (c, n) => if is_whitespace c then trim_start_ws f (skipn n s) else s
           | None => s
           end
  end.

(* `comment.find(['\r','\n']).map_or("", |i| &comment[i..])` *)
Fixpoint to_eol (s : str) : str :=
  match s with
  | [] => []
  | b :: t => if (b =? 13) || (b =? 10) then s else to_eol t
  end.

(* One iteration = trim, then an optional comment.  (The code makes one more, idle, iteration after the
   last trim that changed the length; it returns the same slice.) *)
Fixpoint skip_ws_aux (fuel : nat) (s : str) : str :=
  match fuel with
  | O => s
  | S f =>
      let t := trim_start_ws (length s) s in
      match t with
      | b :: c => if b =? 35 then skip_ws_aux f (to_eol c) else t
      | [] => t
      end
  end.
Definition skip_ws (s : str) : str := skip_ws_aux (S (length s)) s.

(* ---- keywords and punctuation --------------------------------------------------------------- *)
(* nom `tag_no_case(keyword)` on &str compares chars after `to_lowercase`; for the keywords of this parser
   (ASCII letters, none of them `k`, whose only non-ASCII case partner is U+212A) this is the byte-wise
   ASCII-case-insensitive comparison below, and the `take(tag_len)` split is `length kw` bytes. *)
Fixpoint prefix_nocase (kw s : str) : bool :=
  match kw, s with
  | [], _ => true
  | k :: kw', b :: s' => (ascii_lower b =? ascii_lower k) && prefix_nocase kw' s'
  | _ :: _, [] => false
  end.

Definition keyword (kw : str) (s : str) : res (str * str) :=
  let input := skip_ws s in
  if prefix_nocase kw input then
    do rem <- lift (slice_from input (length kw));
    do m <- lift (slice_to input (length kw));
    match next_char rem with
    | Some (c, _) => if name_character c then Err kTag (length input) 0 else Ok (m, rem)
    | None => Ok (m, rem)
    end
  else Err kTag (length input) 0.

Definition starts_keyword (kw : str) (s : str) : res bool :=
  match keyword kw s with
  | Ok _ => Ok true
  | Err _ _ _ => Ok false
  | Panic => Panic
  | Fuel => Fuel
  end.

(* sparql_char for an ASCII character: returns the rest *)
Definition schar (c : N) (s : str) : res str :=
  let input := skip_ws s in
  match input with
  | b :: t => if b =? c then Ok t else Err kChar (length input) 0
  | [] => Err kChar 0 0
  end.

(* ---- sparql_variable ------------------------------------------------------------------------ *)
Fixpoint var_loop (fuel : nat) (t : str) (name_end : nat) : nat :=
  match fuel with
  | O => name_end
  | S f => match next_char t with
           | Some (c, n) => if is_alphanumeric c || (c =? 95) then var_loop f (skipn n t) (name_end + n) else name_end
           | None => name_end
           end
  end.

Definition variable (s : str) : res (str * str) :=
  let input := skip_ws s in
  match next_char input with
  | None => Err kEof (length input) 0
  | Some (sigil, name_start) =>
      if (sigil =? 63) || (sigil =? 36) then
        do t <- lift (slice_from input name_start);
        let name_end := var_loop (length t) t name_start in
        if Nat.eqb name_end name_start then Err kTakeWhile1 (length input) 0
        else split_at input name_end
      else Err kChar (length input) 0
  end.

(* ---- sparql_unicode_escape_len -------------------------------------------------------------- *)
Definition unicode_escape_len (input : str) : res (option nat) :=
  match nth_error input 1 with
  | None => Ok None
  | Some b1 =>
      let digits := if b1 =? 117 then Some 4%nat else if b1 =? 85 then Some 8%nat else None in
      match digits with
      | None => Ok None
      | Some d =>
          let e := (2 + d)%nat in
          if (e <=? length input)%nat then
            if forallb is_ascii_hexdigit (firstn d (skipn 2 input)) then
              do hx <- lift (slice input 2 e);
              if scalarb (hex_val hx) then Ok (Some e) else Ok None
            else Ok None
          else Ok None
      end
  end.

(* ---- sparql_invalid_pn_prefix: Some (start, len) of the offending sub-slice of `prefix` -------- *)
Fixpoint pn_prefix_loop (fuel : nat) (t : str) (off : nat) (prev_dot : bool) : option nat * bool :=
  (* returns (Some offset of the offending char relative to `prefix[first.len_utf8()..]`, _) or (None, previous_was_dot) *)
  match fuel with
  | O => (None, prev_dot)
  | S f => match next_char t with
           | None => (None, prev_dot)
           | Some (c, n) =>
               if c =? 46 then pn_prefix_loop f (skipn n t) (off + n) true
               else if pn_chars c then pn_prefix_loop f (skipn n t) (off + n) false
               else (Some off, prev_dot)
           end
  end.

Definition invalid_pn_prefix (prefix : str) : res (option (nat * nat)) :=
  match next_char prefix with
  | None => Ok None
  | Some (first, n) =>
      if negb (pn_chars_base first) then Ok (Some (O, length prefix))
      else
        do t <- lift (slice_from prefix n);
        match pn_prefix_loop (length t) t O false with
        | (Some off, _) =>
            do _ <- lift (slice_from prefix (n + off));
            Ok (Some ((n + off)%nat, (length prefix - (n + off))%nat))
        | (None, true) =>
            do _ <- lift (slice_from prefix (length prefix - 1));
            Ok (Some ((length prefix - 1)%nat, 1%nat))
        | (None, false) => Ok None
        end
  end.

(* ---- sparql_iri ----------------------------------------------------------------------------- *)
Definition iri_forbidden (c : N) : bool :=
  (c <=? 32) || (c =? 60) || (c =? 34) || (c =? 123) || (c =? 125) || (c =? 124) || (c =? 94) || (c =? 96).

Fixpoint iri_loop (fuel : nat) (input : str) (index : nat) : res (str * str) :=
  match fuel with
  | O => Fuel
  | S f =>
      if (index <? length input)%nat then
        do tail <- lift (slice_from input index);
        match tail with
        | [] => Err kTakeUntil (length input) 0
        | b :: _ =>
            if b =? 62 then split_at input (S index)
            else if b =? 92 then
              do e <- unicode_escape_len tail;
              match e with
              | None => Err kEscaped (length tail) 0
              | Some l => iri_loop f input (index + l)
              end
            else
              match next_char tail with
              | None => Panic
              | Some (c, n) => if iri_forbidden c then Err kVerify (length tail) 0 else iri_loop f input (index + n)
              end
        end
      else Err kTakeUntil (length input) 0
  end.

Definition iri (s : str) : res (str * str) :=
  let input := skip_ws s in
  match input with
  | b :: _ => if b =? 60 then iri_loop (S (length input)) input 1 else Err kChar (length input) 0
  | [] => Err kChar 0 0
  end.

(* ---- sparql_blank_node ---------------------------------------------------------------------- *)
Fixpoint blank_loop (fuel : nat) (body : str) (index token_end : nat) : res nat :=
  match fuel with
  | O => Fuel
  | S f =>
      if (index <? length body)%nat then
        do t <- lift (slice_from body index);
        match next_char t with
        | None => Panic
        | Some (c, n) =>
            if pn_chars c then blank_loop f body (index + n) (index + n)
            else if c =? 46 then blank_loop f body (index + 1) token_end
            else Ok token_end
        end
      else Ok token_end
  end.

Definition blank_node (s : str) : res (str * str) :=
  let input := skip_ws s in
  match strip_prefix [95; 58] input with
  | None => Err kTag (length input) 0
  | Some body =>
      match next_char body with
      | None => Err kTakeWhile1 (length input) 0
      | Some (first, n) =>
          if pn_chars_u first || is_ascii_digit first then
            do token_end <- blank_loop (S (length body)) body n n;
            do r <- lift (slice_from body token_end);
            do t <- lift (slice_to input (2 + token_end));
            Ok (t, r)
          else Err kVerify (length body) 0
      end
  end.

(* ---- sparql_prefixed_name ------------------------------------------------------------------- *)
Definition pn_local_esc (c : N) : bool :=
  (c =? 95) || (c =? 126) || (c =? 46) || (c =? 45) || (c =? 33) || (c =? 36) || (c =? 38) || (c =? 39)
  || (c =? 40) || (c =? 41) || (c =? 42) || (c =? 43) || (c =? 44) || (c =? 59) || (c =? 61) || (c =? 47)
  || (c =? 63) || (c =? 35) || (c =? 64) || (c =? 37).

Fixpoint local_loop (fuel : nat) (local : str) (index token_end : nat) (first : bool) : res nat :=
  match fuel with
  | O => Fuel
  | S f =>
      if (index <? length local)%nat then
        do tail <- lift (slice_from local index);
        match next_char tail with
        | None => Panic
        | Some (c, n) =>
            let ordinary :=
              if first then pn_chars_u c || is_ascii_digit c || (c =? 58) else pn_chars c || (c =? 58) in
            if ordinary then local_loop f local (index + n) (index + n) false
            else if c =? 46 then
              if first then Ok token_end else local_loop f local (index + 1) token_end first
            else if c =? 37 then
              match tail with
              | _ :: h1 :: h2 :: _ =>
                  if is_ascii_hexdigit h1 && is_ascii_hexdigit h2
                  then local_loop f local (index + 3) (index + 3) false
                  else Err kEscaped (length tail) 0
              | _ => Err kEscaped (length tail) 0
              end
            else if c =? 92 then
              do t1 <- lift (slice_from tail 1);
              match next_char t1 with
              | None => Err kEscaped (length tail) 0
              | Some (e, en) =>
                  if pn_local_esc e then local_loop f local (index + 1 + en) (index + 1 + en) false
                  else Err kEscaped (length tail) 0
              end
            else Ok token_end
        end
      else Ok token_end
  end.

Definition prefixed_name (s : str) : res (str * str) :=
  let input := skip_ws s in
  match find_byte 58 input with
  | None => Err kVerify (length input) 0
  | Some colon =>
      do prefix <- lift (slice_to input colon);
      do bad <- invalid_pn_prefix prefix;
      match bad with
      | Some (start, len) => Err kVerify len (length input - colon + (colon - start - len))
      | None =>
          do local <- lift (slice_from input (colon + 1));
          do token_end <- local_loop (S (length local)) local O O true;
          split_at input (colon + 1 + token_end)
      end
  end.

(* ---- identifier (nom take_while1) and sparql_bare_identifier --------------------------------- *)
Fixpoint ident_loop (fuel : nat) (t : str) (acc : nat) : nat :=
  match fuel with
  | O => acc
  | S f => match next_char t with
           | Some (c, n) => if is_alphanumeric c || (c =? 95) || (c =? 45) then ident_loop f (skipn n t) (acc + n) else acc
           | None => acc
           end
  end.
Definition identifier (input : str) : res (str * str) :=
  let e := ident_loop (length input) input O in
  if Nat.eqb e O then Err kTakeWhile1 (length input) 0 else split_at input e.
Definition bare_identifier (s : str) : res (str * str) := identifier (skip_ws s).

(* ---- sparql_numeric_literal ----------------------------------------------------------------- *)
Definition byte_is (p : N -> bool) (s : str) (i : nat) : bool :=
  match nth_error s i with Some b => p b | None => false end.

Fixpoint digits_from (fuel : nat) (s : str) (i : nat) : nat :=
  match fuel with
  | O => i
  | S f => if byte_is is_ascii_digit s i then digits_from f s (S i) else i
  end.

Definition numeric_literal (s : str) : res (str * str) :=
  let input := skip_ws s in
  let n := length input in
  let index0 := if byte_is (fun b => (b =? 43) || (b =? 45)) input O then 1%nat else O in
  let index1 := digits_from n input index0 in
  let integer_digits := (index1 - index0)%nat in
  let '(index2, fractional_digits) :=
    if byte_is (fun b => b =? 46) input index1 && byte_is is_ascii_digit input (S index1)
    then let i := digits_from n input (S index1) in (i, (i - S index1)%nat)
    else (index1, O) in
  if Nat.eqb integer_digits O && Nat.eqb fractional_digits O then Err kDigit n 0
  else
    let index3 :=
      if byte_is (fun b => (b =? 101) || (b =? 69)) input index2 then
        let marker := index2 in
        let i1 := S index2 in
        let i2 := if byte_is (fun b => (b =? 43) || (b =? 45)) input i1 then S i1 else i1 in
        let i3 := digits_from n input i2 in
        if Nat.eqb i2 i3 then marker else i3
      else index2 in
    do t <- lift (slice_from input index3);
    match next_char t with
    | Some (c, _) => if is_alphabetic c || (c =? 95) then Err kVerify n 0 else split_at input index3
    | None => split_at input index3
    end.

(* ---- sparql_quoted_literal ------------------------------------------------------------------ *)
Definition simple_escape (e : N) : bool :=
  (e =? 116) || (e =? 98) || (e =? 110) || (e =? 114) || (e =? 102) || (e =? 34) || (e =? 39) || (e =? 92).

(* the scanning loop: Ok (Some close_end) / Ok None (ran off the end) *)
Fixpoint lit_loop (fuel : nat) (input delimiter : str) (triple_quoted : bool) (index : nat) : res (option nat) :=
  match fuel with
  | O => Fuel
  | S f =>
      if (index <? length input)%nat then
        do t <- lift (slice_from input index);
        if starts_with delimiter t then Ok (Some (index + length delimiter)%nat)
        else
          match next_char t with
          | None => Panic
          | Some (c, n) =>
              if negb triple_quoted && ((c =? 13) || (c =? 10)) then Err kEscaped (length t) 0
              else if c =? 92 then
                do escape <- lift (slice_from input (index + 1));
                match next_char escape with
                | None => Err kEscaped (length t) 0
                | Some (e, en) =>
                    if simple_escape e then lit_loop f input delimiter triple_quoted (index + 1 + en)
                    else if (e =? 117) || (e =? 85) then
                      let digits := if e =? 117 then 4%nat else 8%nat in
                      do hexadecimal <- lift (slice_from escape en);
                      if (length hexadecimal <? digits)%nat || negb (forallb is_ascii_hexdigit (firstn digits hexadecimal))
                      then Err kEscaped (length t) 0
                      else
                        do hx <- lift (slice_to hexadecimal digits);
                        if scalarb (hex_val hx) then lit_loop f input delimiter triple_quoted (index + 1 + (en + digits))
                        else Err kEscaped (length t) 0
                    else Err kEscaped (length t) 0
                end
              else lit_loop f input delimiter triple_quoted (index + n)
          end
      else Ok None
  end.

Fixpoint count_while (p : N -> bool) (s : str) : nat :=
  match s with
  | [] => O
  | b :: t => if p b then S (count_while p t) else O
  end.

(* the `-subtag` loop of the language tag: Ok language_end / Err *)
Fixpoint lang_loop (fuel : nat) (language : str) (language_end : nat) (suffix_len : nat) : res nat :=
  match fuel with
  | O => Fuel
  | S f =>
      if byte_is (fun b => b =? 45) language language_end then
        let subtag_start := S language_end in
        do st <- lift (slice_from language subtag_start);
        let subtag_len := count_while is_ascii_alnum st in
        if Nat.eqb subtag_len O then Err kVerify suffix_len 0
        else lang_loop f language (subtag_start + subtag_len) suffix_len
      else Ok language_end
  end.

Definition quoted_literal_with (iri_p pname_p : str -> res (str * str)) (s : str) : res (str * str) :=
  let input := skip_ws s in
  match input with
  | [] => Err kChar 0 0
  | quote :: _ =>
      if (quote =? 39) || (quote =? 34) then
        let triple_quoted := starts_with [quote; quote; quote] input in
        let delimiter := if triple_quoted then [quote; quote; quote] else [quote] in
        do close_end <- lit_loop (S (length input)) input delimiter triple_quoted (length delimiter);
        match close_end with
        | None => Err kEscaped (length input) 0
        | Some literal_end =>
            do suffix <- lift (slice_from input literal_end);
            let plain := split_at input literal_end in
            match suffix with
            | [] => plain
            | b0 :: suffix1 =>
                if b0 =? 64 then
                  let language := suffix1 in
                  let primary_end := count_while is_ascii_alpha language in
                  if Nat.eqb primary_end O then Err kVerify (length suffix) 0
                  else
                    do language_end <- lang_loop (S (length language)) language primary_end (length suffix);
                    do lt <- lift (slice_from language language_end);
                    match next_char lt with
                    | Some (c, _) =>
                        if is_ascii_alnum c || (c =? 45) || (c =? 95) then Err kVerify (length suffix) 0
                        else split_at input (literal_end + (1 + language_end))
                    | None => split_at input (literal_end + (1 + language_end))
                    end
                else if b0 =? 94 then
                  match suffix1 with
                  | [] => plain
                  | b1 :: datatype0 =>
                      if b1 =? 94 then
                        let datatype := skip_ws datatype0 in
                        do r <- orelse (iri_p datatype) (fun _ => pname_p datatype);
                        split_at input (length input - length (snd r))
                      else plain
                  end
                else plain
            end
        end
      else Err kChar (length input) 0
  end.

Definition quoted_literal : str -> res (str * str) := quoted_literal_with iri prefixed_name.

(* ---- sparql_filter_operator ----------------------------------------------------------------- *)
Definition filter_operator (s : str) : res (str * str) :=
  let input := skip_ws s in
  let try (op : str) (k : unit -> res (str * str)) :=
    match strip_prefix op input with
    | Some r => do t <- lift (slice_to input (length op)); Ok (t, r)
    | None => k tt
    end in
  try [33; 61] (fun _ => try [62; 61] (fun _ => try [60; 61] (fun _ => try [61] (fun _ =>
  try [62] (fun _ => try [60] (fun _ => Err kTag (length input) 0)))))).

(* ---- `str::trim` (Unicode White_Space at both ends) ------------------------------------------ *)
Fixpoint drop_ws_chars (l : list (N * nat)) : list (N * nat) :=
  match l with
  | (c, n) :: t => if is_whitespace c then drop_ws_chars t else l
  | [] => []
  end.
Definition chars_len (l : list (N * nat)) : nat := fold_left (fun a x => (a + snd x)%nat) l O.
Definition trim (s : str) : str :=
  let cs := chars_of (length s) s in
  let after_start := drop_ws_chars cs in
  let lead := (length s - chars_len after_start)%nat in
  let kept := rev (drop_ws_chars (rev after_start)) in
  firstn (chars_len kept) (skipn lead s).

(* ---- utils.rs: unescape_sparql_iri and literal_lexical_value --------------------------------- *)
(* `u32::from_str_radix(x, 16)`: an optional leading `+`, then at least one hex digit, nothing else
   (at most 8 bytes are ever passed, so the value fits u32). *)
Definition parse_hex_u32 (x : str) : option N :=
  let ds := match x with b :: t => if b =? 43 then t else x | [] => x end in
  match ds with
  | [] => None
  | _ => if forallb is_ascii_hexdigit ds then Some (hex_val ds) else None
  end.

(* the shared escape branch (backslash-u / backslash-U): Ok (Some (decoded char, bytes consumed after the backslash)).
   `checked = true` is the code since 484100d: `hexadecimal.get(..digits)` - a prefix that does not end on a
   character boundary is not an escape (falls through to the plain path).  `checked = false` is the code before
   that commit: `&hexadecimal[..digits]`, which panics there (kept for the regression lemma only). *)
Definition lexical_uescape (checked : bool) (escape : str) (e : N) (en : nat) : res (option (N * nat)) :=
  if (e =? 117) || (e =? 85) then
    let digits := if e =? 117 then 4%nat else 8%nat in
    do hexadecimal <- lift (slice_from escape en);
    if (digits <=? length hexadecimal)%nat then
      match slice_to hexadecimal digits with
      | Some hx =>
          match parse_hex_u32 hx with
          | Some v => if scalarb v then Ok (Some (v, (en + digits)%nat)) else Ok None
          | None => Ok None
          end
      | None => if checked then Ok None else Panic
      end
    else Ok None
  else Ok None.

Fixpoint unescape_iri_loop (checked : bool) (fuel : nat) (value : str) (index : nat) (acc : str) : res str :=
  match fuel with
  | O => Fuel
  | S f =>
      if (index <? length value)%nat then
        do tail <- lift (slice_from value index);
        match next_char tail with
        | None => Panic
        | Some (c, n) =>
            if negb (c =? 92) then unescape_iri_loop checked f value (index + n) (acc ++ encode_char c)
            else
              do escape <- lift (slice_from tail 1);
              match next_char escape with
              | None => Ok (acc ++ [92])
              | Some (e, en) =>
                  do u <- lexical_uescape checked escape e en;
                  match u with
                  | Some (v, used) => unescape_iri_loop checked f value (index + 1 + used) (acc ++ encode_char v)
                  | None => unescape_iri_loop checked f value (index + 1 + en) (acc ++ encode_char e)
                  end
              end
        end
      else Ok acc
  end.
Definition unescape_iri_gen (checked : bool) (value : str) : res str := unescape_iri_loop checked (S (length value)) value O [].
Definition unescape_iri : str -> res str := unescape_iri_gen true.

Fixpoint lexical_loop (checked : bool) (fuel : nat) (literal delimiter : str) (index : nat) (acc : str) : res str :=
  match fuel with
  | O => Fuel
  | S f =>
      if (index <? length literal)%nat then
        do tail <- lift (slice_from literal index);
        if starts_with delimiter tail then Ok acc
        else
          match next_char tail with
          | None => Panic
          | Some (c, n) =>
              if c =? 92 then
                do escape <- lift (slice_from tail 1);
                match next_char escape with
                | None => Ok (acc ++ [92])
                | Some (e, en) =>
                    let continue_with (out : str) := lexical_loop checked f literal delimiter (index + 1 + en) (acc ++ out) in
                    if e =? 116 then continue_with [9]
                    else if e =? 98 then continue_with [8]
                    else if e =? 110 then continue_with [10]
                    else if e =? 114 then continue_with [13]
                    else if e =? 102 then continue_with [12]
                    else if e =? 34 then continue_with [34]
                    else if e =? 39 then continue_with [39]
                    else if e =? 92 then continue_with [92]
                    else
                      do u <- lexical_uescape checked escape e en;
                      match u with
                      | Some (v, used) => lexical_loop checked f literal delimiter (index + 1 + used) (acc ++ encode_char v)
                      | None => continue_with (92 :: encode_char e)
                      end
                end
              else lexical_loop checked f literal delimiter (index + n) (acc ++ encode_char c)
          end
      else Ok acc
  end.

Definition literal_lexical_value_gen (checked : bool) (literal : str) : res str :=
  match literal with
  | quote :: _ =>
      if (quote =? 34) || (quote =? 39) then
        let delimiter := if starts_with [quote; quote; quote] literal then [quote; quote; quote] else [quote] in
        lexical_loop checked (S (length literal)) literal delimiter (length delimiter) []
      else Ok literal
  | [] => Ok literal
  end.
Definition literal_lexical_value : str -> res str := literal_lexical_value_gen true.
