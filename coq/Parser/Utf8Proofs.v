(* Facts about UTF-8 byte strings used by the scanner proofs: decoding an encoded scalar value, character
   boundaries (std's byte-level test) versus splits of the code-point sequence, slices that cannot panic. *)
Require Import List NArith Bool PeanoNat Lia ZifyBool ZifyN ZArith.
Require Import KV.Parser.Utf8.
Import ListNotations.
Open Scope N_scope.

Ltac Zify.zify_post_hook ::= Z.div_mod_to_equations.

Definition scalar (c : N) : Prop := scalarb c = true.

(* a Rust &str: the encoding of a sequence of scalar values *)
Definition Valid (s : str) : Prop := exists cs, Forall scalar cs /\ s = encode cs.

(* i is a position between two characters of s *)
Definition Bnd (s : str) (i : nat) : Prop :=
  exists cs1 cs2, Forall scalar cs1 /\ Forall scalar cs2 /\ s = encode cs1 ++ encode cs2 /\ i = length (encode cs1).

Lemma scalar_lt : forall c, scalar c -> c < 1114112.
Proof. unfold scalar, scalarb. intros c H. lia. Qed.

Lemma encode_app : forall a b, encode (a ++ b) = encode a ++ encode b.
Proof. induction a as [|c a IH]; intros b; cbn [encode app]; [reflexivity|]. rewrite IH, app_assoc. reflexivity. Qed.

Lemma encode_char_len : forall c, length (encode_char c) = len_utf8 c.
Proof.
  intros c. unfold encode_char, len_utf8.
  destruct (c <? 128); [reflexivity|]. destruct (c <? 2048); [reflexivity|]. destruct (c <? 65536); reflexivity.
Qed.

Lemma len_utf8_pos : forall c, (1 <= len_utf8 c)%nat.
Proof. intros c. unfold len_utf8. destruct (c <? 128), (c <? 2048), (c <? 65536); lia. Qed.

Lemma len_utf8_ascii : forall c, c < 128 -> len_utf8 c = 1%nat.
Proof. intros c H. unfold len_utf8. destruct (N.ltb_spec c 128); [reflexivity|lia]. Qed.

(* decoding the encoding of a scalar value gives it back, with its length *)
Lemma next_char_encode : forall c r, c < 1114112 -> next_char (encode_char c ++ r) = Some (c, len_utf8 c).
Proof.
  intros c r Hc. unfold encode_char, len_utf8.
  destruct (N.ltb_spec c 128) as [H1|H1].
  - cbn [app next_char]. destruct (N.ltb_spec c 128); [reflexivity|lia].
  - destruct (N.ltb_spec c 2048) as [H2|H2].
    + cbn [app next_char nth].
      destruct (N.ltb_spec (192 + c / 64) 128); [lia|].
      destruct (N.ltb_spec (192 + c / 64) 224); [|lia].
      f_equal. f_equal. lia.
    + destruct (N.ltb_spec c 65536) as [H3|H3].
      * cbn [app next_char nth].
        destruct (N.ltb_spec (224 + c / 4096) 128); [lia|].
        destruct (N.ltb_spec (224 + c / 4096) 224); [lia|].
        destruct (N.ltb_spec (224 + c / 4096) 240); [|lia].
        f_equal. f_equal. lia.
      * cbn [app next_char nth].
        destruct (N.ltb_spec (240 + c / 262144) 128); [lia|].
        destruct (N.ltb_spec (240 + c / 262144) 224); [lia|].
        destruct (N.ltb_spec (240 + c / 262144) 240); [lia|].
        f_equal. f_equal. lia.
Qed.

(* the first byte of an encoded character is not a continuation byte; an ASCII byte is a whole character *)
Lemma encode_char_head : forall c, c < 1114112 -> exists b t, encode_char c = b :: t /\ is_cont b = false.
Proof.
  intros c Hc. unfold encode_char.
  destruct (N.ltb_spec c 128); [exists c, []; split; [reflexivity|unfold is_cont; lia]|].
  destruct (N.ltb_spec c 2048); [eexists _, _; split; [reflexivity|unfold is_cont; lia]|].
  destruct (N.ltb_spec c 65536); eexists _, _; (split; [reflexivity|unfold is_cont; lia]).
Qed.

Lemma encode_char_bytes_high : forall c b, 128 <= c -> c < 1114112 -> In b (encode_char c) -> 128 <= b.
Proof.
  intros c b H1 Hc. unfold encode_char.
  destruct (N.ltb_spec c 128); [lia|].
  destruct (N.ltb_spec c 2048); [cbn [In]; intros [<-|[<-|[]]]; lia|].
  destruct (N.ltb_spec c 65536); cbn [In]; intros Hin; repeat (destruct Hin as [<-|Hin]; [lia|]); destruct Hin.
Qed.

Lemma encode_char_ascii : forall c, c < 128 -> encode_char c = [c].
Proof. intros c H. unfold encode_char. destruct (N.ltb_spec c 128); [reflexivity|lia]. Qed.

(* ---- boundaries ------------------------------------------------------------------------------ *)
Lemma valid_bnd_0 : forall s, Valid s -> Bnd s 0.
Proof. intros s (cs & Hs & ->). exists [], cs. repeat split; auto. Qed.

Lemma valid_bnd_len : forall s, Valid s -> Bnd s (length s).
Proof. intros s (cs & Hs & ->). exists cs, []. repeat split; auto. cbn [encode]. now rewrite app_nil_r. Qed.

Lemma bnd_valid : forall s i, Bnd s i -> Valid s.
Proof.
  intros s i (a & b & Ha & Hb & -> & _). exists (a ++ b). split; [now apply Forall_app|]. now rewrite encode_app.
Qed.

Lemma bnd_le : forall s i, Bnd s i -> (i <= length s)%nat.
Proof. intros s i (a & b & _ & _ & -> & ->). rewrite app_length. lia. Qed.

Lemma bnd_skipn_valid : forall s i, Bnd s i -> Valid (skipn i s).
Proof.
  intros s i (a & b & Ha & Hb & -> & ->). exists b. split; [assumption|].
  rewrite skipn_app, skipn_all, Nat.sub_diag. reflexivity.
Qed.

Lemma bnd_firstn_valid : forall s i, Bnd s i -> Valid (firstn i s).
Proof.
  intros s i (a & b & Ha & Hb & -> & ->). exists a. split; [assumption|].
  rewrite firstn_app, firstn_all, Nat.sub_diag. cbn [firstn]. now rewrite app_nil_r.
Qed.

(* a boundary of a suffix is a boundary of the whole string *)
Lemma bnd_skipn_add : forall s i j, Bnd s i -> Bnd (skipn i s) j -> Bnd s (i + j).
Proof.
  intros s i j (a & b & Ha & Hb & -> & ->) (c & d & Hc & Hd & E & ->).
  rewrite skipn_app, skipn_all, Nat.sub_diag in E. cbn [skipn app] in E.
  exists (a ++ c), d. repeat split; [now apply Forall_app|assumption| |].
  - rewrite encode_app, <- app_assoc, <- E. reflexivity.
  - rewrite encode_app, app_length. reflexivity.
Qed.

Lemma bnd_is_char_boundary : forall s i, Bnd s i -> is_char_boundary s i = true.
Proof.
  intros s i (a & b & Ha & Hb & -> & ->). unfold is_char_boundary.
  destruct (length (encode a)) as [|n] eqn:E; [reflexivity|]. rewrite <- E. clear n E.
  rewrite app_length. destruct b as [|c b].
  - cbn [encode length]. rewrite Nat.add_0_r, Nat.compare_refl. reflexivity.
  - destruct (Nat.compare_spec (length (encode a)) (length (encode a) + length (encode (c :: b)))) as [_|_|H]; [reflexivity| |lia].
    rewrite app_nth2, Nat.sub_diag by lia. cbn [encode].
    inversion Hb as [|? ? Hc _]; subst.
    destruct (encode_char_head c (scalar_lt _ Hc)) as (x & t & -> & Hx). cbn [app nth]. now rewrite Hx.
Qed.

Lemma slice_from_bnd : forall s i, Bnd s i -> slice_from s i = Some (skipn i s).
Proof. intros s i H. unfold slice_from. now rewrite bnd_is_char_boundary. Qed.
Lemma slice_to_bnd : forall s i, Bnd s i -> slice_to s i = Some (firstn i s).
Proof. intros s i H. unfold slice_to. now rewrite bnd_is_char_boundary. Qed.
Lemma split_at_bnd : forall s i, Bnd s i -> split_at s i = Ok (firstn i s, skipn i s).
Proof. intros s i H. unfold split_at. rewrite slice_from_bnd, slice_to_bnd by assumption. reflexivity. Qed.

(* stepping over the character that starts at a boundary *)
Lemma bnd_next : forall s i, Bnd s i -> (i < length s)%nat ->
  exists c, scalar c /\ next_char (skipn i s) = Some (c, len_utf8 c) /\ Bnd s (i + len_utf8 c)
            /\ firstn (len_utf8 c) (skipn i s) = encode_char c.
Proof.
  intros s i (a & b & Ha & Hb & -> & ->) Hlt. rewrite app_length in Hlt.
  destruct b as [|c b]; [cbn [encode length] in Hlt; lia|].
  inversion Hb as [|? ? Hc Hb']; subst. exists c. split; [assumption|].
  rewrite skipn_app, skipn_all, Nat.sub_diag. cbn [skipn app encode].
  split; [apply next_char_encode, scalar_lt, Hc|]. split.
  - exists (a ++ [c]), b. repeat split; [apply Forall_app; split; auto|assumption| |].
    + rewrite encode_app. cbn [encode]. rewrite app_nil_r, <- app_assoc. reflexivity.
    + rewrite encode_app, app_length. cbn [encode]. rewrite app_nil_r, encode_char_len. reflexivity.
  - rewrite <- encode_char_len, firstn_app, firstn_all, Nat.sub_diag. cbn [firstn]. now rewrite app_nil_r.
Qed.

(* a valid non-empty string starts with a character *)
Lemma valid_next : forall t, Valid t -> t <> [] ->
  exists c, scalar c /\ next_char t = Some (c, len_utf8 c) /\ Bnd t (len_utf8 c) /\ firstn (len_utf8 c) t = encode_char c.
Proof.
  intros t Hv Hne. destruct (bnd_next t 0 (valid_bnd_0 _ Hv)) as (c & Hc & Hn & Hb & Hf).
  - destruct t; [congruence|cbn; lia].
  - exists c. cbn [skipn] in *. auto.
Qed.

Lemma next_char_nil : forall t, next_char t = None <-> t = [].
Proof.
  intros t. split; [|intros ->; reflexivity]. destruct t as [|b t]; [reflexivity|]. cbn [next_char].
  destruct (b <? 128); [discriminate|]. destruct (b <? 224); [discriminate|]. destruct (b <? 240); discriminate.
Qed.

(* an ASCII byte at the head of a valid string is a one-byte character *)
Lemma valid_ascii_head : forall b t, Valid (b :: t) -> b < 128 -> next_char (b :: t) = Some (b, 1%nat) /\ Bnd (b :: t) 1 /\ Valid t.
Proof.
  intros b t Hv Hb. split; [cbn [next_char]; destruct (N.ltb_spec b 128); [reflexivity|lia]|].
  destruct (valid_next (b :: t) Hv) as (c & Hc & Hn & Hbd & _); [discriminate|].
  cbn [next_char] in Hn. destruct (N.ltb_spec b 128); [|lia]. inversion Hn as [[E1 E2]]. subst c.
  rewrite <- E2 in Hbd. split; [assumption|]. apply (bnd_skipn_valid _ 1 Hbd).
Qed.

(* in a valid string every ASCII byte stands between two boundaries *)
Lemma ascii_byte_bnd : forall s i, Valid s -> (i < length s)%nat -> nth i s 0 < 128 -> Bnd s i /\ Bnd s (S i).
Proof.
  intros s i (cs & Hcs & ->). revert i. induction cs as [|c cs IH]; intros i Hi Hb; [cbn in Hi; lia|].
  inversion Hcs as [|? ? Hc Hcs']; subst. cbn [encode] in *.
  destruct (Nat.lt_ge_cases i (length (encode_char c))) as [Hlt|Hge].
  - rewrite app_nth1 in Hb by assumption.
    destruct (N.ltb_spec c 128) as [Hc1|Hc1].
    + rewrite encode_char_ascii in * by assumption. cbn [length] in Hlt. assert (i = O) by lia. subst i.
      split.
      * exists [], (c :: cs). repeat split; auto. cbn [encode]. now rewrite encode_char_ascii.
      * exists [c], cs. repeat split; auto. cbn [encode]. now rewrite encode_char_ascii, app_nil_r.
        cbn [encode]. now rewrite encode_char_ascii.
    + exfalso. pose proof (encode_char_bytes_high c (nth i (encode_char c) 0) Hc1 (scalar_lt _ Hc) (nth_In _ _ Hlt)). lia.
  - rewrite app_nth2 in Hb by assumption. rewrite app_length in Hi.
    destruct (IH Hcs' (i - length (encode_char c))%nat) as [B1 B2]; [lia|assumption|].
    assert (Shift : forall j, Bnd (encode cs) j -> Bnd (encode_char c ++ encode cs) (length (encode_char c) + j)).
    { intros j (a & b & Ha & Hb' & E & ->). exists (c :: a), b. repeat split; auto.
      - cbn [encode]. rewrite <- app_assoc, <- E. reflexivity.
      - cbn [encode]. now rewrite app_length. }
    split.
    + replace i with (length (encode_char c) + (i - length (encode_char c)))%nat by lia. now apply Shift.
    + replace (S i) with (length (encode_char c) + S (i - length (encode_char c)))%nat by lia. now apply Shift.
Qed.

(* k ASCII bytes after a boundary end on a boundary *)
Lemma ascii_run_bnd : forall s i k, Valid s -> (i + k <= length s)%nat -> (1 <= k)%nat ->
  (forall j, (i <= j < i + k)%nat -> nth j s 0 < 128) -> Bnd s (i + k).
Proof.
  intros s i k Hv Hle Hk Hall.
  destruct (ascii_byte_bnd s (i + k - 1) Hv) as [_ B]; [lia|apply Hall; lia|].
  replace (S (i + k - 1)) with (i + k)%nat in B by lia. exact B.
Qed.

Lemma valid_app_bnd : forall a b, Valid a -> Valid b -> Bnd (a ++ b) (length a).
Proof. intros a b (x & Hx & ->) (y & Hy & ->). exists x, y. repeat split; auto. Qed.

Lemma valid_app : forall a b, Valid a -> Valid b -> Valid (a ++ b).
Proof. intros a b Ha Hb. exact (bnd_valid _ _ (valid_app_bnd a b Ha Hb)). Qed.

Lemma valid_nil : Valid [].
Proof. exists []. split; [constructor|reflexivity]. Qed.

Lemma valid_ascii : forall l, Forall (fun b => b < 128) l -> Valid l.
Proof.
  induction l as [|b l IH]; intros H; [apply valid_nil|]. inversion H; subst.
  destruct (IH H3) as (cs & Hcs & ->). exists (b :: cs). split.
  - constructor; [unfold scalar, scalarb; lia|assumption].
  - cbn [encode]. now rewrite encode_char_ascii.
Qed.
