(* The two lexical helpers of the lowering (utils.rs: unescape_sparql_iri, literal_lexical_value), as repaired by
   484100d, never panic and never run out of fuel on valid UTF-8; the pre-fix variant does panic (regression). *)
Require Import List NArith Bool PeanoNat Lia ZifyBool ZifyN.
Require Import KV.Parser.Utf8 KV.Parser.Unicode KV.Parser.Scanners KV.Parser.Utf8Proofs KV.Parser.ScannerProofs.
Import ListNotations.
Open Scope N_scope.

Lemma parse_hex_ascii : forall hx v, parse_hex_u32 hx = Some v -> ascii_str hx.
Proof.
  intros hx v H. unfold parse_hex_u32 in H.
  assert (Hex : forall ds, forallb is_ascii_hexdigit ds = true -> ascii_str ds).
  { intros ds Hd. apply Forall_forall. intros b Hb. rewrite forallb_forall in Hd. apply hexdigit_ascii. now apply Hd. }
  destruct hx as [|b t]; [constructor|].
  destruct (N.eqb_spec b 43) as [->|Hne].
  - destruct t as [|b1 t1]; [discriminate|]. destruct (forallb is_ascii_hexdigit (b1 :: t1)) eqn:E; [|discriminate].
    constructor; [lia|now apply Hex].
  - destruct (forallb is_ascii_hexdigit (b :: t)) eqn:E; [|discriminate]. now apply Hex.
Qed.

Definition ue_ok (escape : str) (r : res (option (N * nat))) : Prop :=
  match r with
  | Ok None => True
  | Ok (Some (_, used)) => Bnd escape used /\ (1 <= used)%nat
  | _ => False
  end.

Lemma lexical_uescape_ok : forall escape e, Valid escape -> next_char escape = Some (e, len_utf8 e) -> Bnd escape (len_utf8 e) ->
  ue_ok escape (lexical_uescape true escape e (len_utf8 e)).
Proof.
  intros escape e Hv Hn Hb. unfold lexical_uescape. destruct ((e =? 117) || (e =? 85)); [|exact I].
  rewrite slice_from_bnd by assumption. cbn [lift bind].
  set (digits := if e =? 117 then 4%nat else 8%nat). assert (Hd : (1 <= digits)%nat) by (unfold digits; destruct (e =? 117); lia).
  set (hexadecimal := skipn (len_utf8 e) escape). pose proof (bnd_skipn_valid _ _ Hb) as Vh. fold hexadecimal in Vh.
  destruct (Nat.leb_spec digits (length hexadecimal)) as [Hle|]; [|exact I].
  destruct (slice_to hexadecimal digits) as [hx|] eqn:Es; [|exact I].
  unfold slice_to in Es. destruct (is_char_boundary hexadecimal digits); [|discriminate]. inversion Es; subst hx.
  destruct (parse_hex_u32 (firstn digits hexadecimal)) as [v|] eqn:Ep; [|exact I].
  destruct (scalarb v); [|exact I]. cbn. pose proof (len_utf8_pos e). split; [|lia].
  apply bnd_skipn_add; [assumption|]. fold hexadecimal.
  pose proof (parse_hex_ascii _ _ Ep) as Ha. unfold ascii_str in Ha. rewrite Forall_forall in Ha.
  apply (ascii_run_bnd hexadecimal 0 digits Vh); [lia|lia|]. intros j Hj.
  replace (nth j hexadecimal 0) with (nth j (firstn digits hexadecimal) 0).
  - apply Ha, nth_In. rewrite firstn_length. lia.
  - rewrite <- (firstn_skipn digits hexadecimal) at 2. rewrite app_nth1 by (rewrite firstn_length; lia). reflexivity.
Qed.

Definition total_str (r : res str) : Prop := match r with Ok _ => True | _ => False end.

(* one step shared by both loops: at a backslash *)
Lemma escape_step : forall value index t, Bnd value index -> skipn index value = 92 :: t -> Valid (92 :: t) ->
  Bnd value (index + 1) /\ Valid t /\ skipn (index + 1) value = t /\
  (forall e en, next_char t = Some (e, en) -> en = len_utf8 e /\ Bnd t en /\ Bnd value (index + 1 + en) /\ (1 <= en)%nat).
Proof.
  intros value index t B Es Vt. destruct (valid_ascii_head 92 t Vt) as (_ & B1 & Vt'); [lia|].
  assert (Bv : Bnd value (index + 1)) by (apply bnd_skipn_add; [assumption|now rewrite Es]).
  assert (Et : skipn (index + 1) value = t) by (rewrite <- skipn_plus, Es; reflexivity).
  split; [assumption|]. split; [assumption|]. split; [assumption|].
  intros e en Hnc. assert (Hne : t <> []) by (intro E; rewrite E in Hnc; discriminate Hnc).
  destruct (valid_next t Vt' Hne) as (c & _ & Hn & Hb & _). rewrite Hnc in Hn. injection Hn as E1 E2. subst e en.
  split; [reflexivity|]. split; [assumption|]. split; [|apply len_utf8_pos].
  apply bnd_skipn_add; [assumption|now rewrite Et].
Qed.

Lemma unescape_iri_loop_total : forall fuel value index acc, Bnd value index -> (length value - index < fuel)%nat ->
  total_str (unescape_iri_loop true fuel value index acc).
Proof.
  induction fuel as [|f IH]; intros value index acc B Hf; [lia|].
  cbn [unescape_iri_loop]. destruct (Nat.ltb_spec index (length value)) as [Hlt|]; [|exact I].
  destruct (step_at value index B Hlt) as (b & t & c & Es & Hsl & Hvt & Hc & Hn & Hb & Hbc & Hcb).
  rewrite Hsl. cbn [lift bind]. rewrite Hn. pose proof (len_utf8_pos c).
  destruct (N.eqb_spec c 92) as [->|Hne]; cbn [negb]; [|apply IH; [assumption|lia]].
  assert (b = 92) by (symmetry; apply Hcb; lia). subst b.
  destruct (escape_step value index t B Es Hvt) as (B1 & Vt & Et & Hstep).
  destruct (valid_ascii_head 92 t Hvt) as (_ & Bt1 & _); [lia|].
  rewrite slice_from_bnd by assumption. cbn [lift bind skipn].
  destruct (next_char t) as [[e en]|] eqn:Ene; [|exact I].
  destruct (Hstep e en eq_refl) as (-> & Be & Bve & Hen).
  pose proof (lexical_uescape_ok t e Vt Ene Be) as U.
  destruct (lexical_uescape true t e (len_utf8 e)) as [[[v used]|]|? ? ?| |]; cbn in U; try contradiction; cbn [bind].
  - destruct U as [Bu Hu]. apply IH; [|lia]. replace (index + 1 + used)%nat with ((index + 1) + used)%nat by lia.
    apply bnd_skipn_add; [assumption|now rewrite Et].
  - apply IH; [assumption|lia].
Qed.

Theorem unescape_iri_total : forall s, Valid s -> total_str (unescape_iri s).
Proof. intros s Hv. apply unescape_iri_loop_total; [now apply valid_bnd_0|lia]. Qed.

Lemma lexical_loop_total : forall fuel literal delim index acc, Bnd literal index -> (length literal - index < fuel)%nat ->
  total_str (lexical_loop true fuel literal delim index acc).
Proof.
  induction fuel as [|f IH]; intros literal delim index acc B Hf; [lia|].
  cbn [lexical_loop]. destruct (Nat.ltb_spec index (length literal)) as [Hlt|]; [|exact I].
  destruct (step_at literal index B Hlt) as (b & t & c & Es & Hsl & Hvt & Hc & Hn & Hb & Hbc & Hcb).
  rewrite Hsl. cbn [lift bind]. destruct (starts_with delim (b :: t)); [exact I|]. rewrite Hn. pose proof (len_utf8_pos c).
  destruct (N.eqb_spec c 92) as [->|Hne]; [|apply IH; [assumption|lia]].
  assert (b = 92) by (symmetry; apply Hcb; lia). subst b.
  destruct (escape_step literal index t B Es Hvt) as (B1 & Vt & Et & Hstep).
  destruct (valid_ascii_head 92 t Hvt) as (_ & Bt1 & _); [lia|].
  rewrite slice_from_bnd by assumption. cbn [lift bind skipn].
  destruct (next_char t) as [[e en]|] eqn:Ene; [|exact I].
  destruct (Hstep e en eq_refl) as (-> & Be & Bve & Hen).
  assert (K : forall out, total_str (lexical_loop true f literal delim (index + 1 + len_utf8 e) (acc ++ out))) by (intros; apply IH; [assumption|lia]).
  cbv zeta.
  repeat match goal with |- total_str (if ?c then _ else _) => destruct c; [apply K|] end.
  pose proof (lexical_uescape_ok t e Vt Ene Be) as U.
  destruct (lexical_uescape true t e (len_utf8 e)) as [[[v used]|]|? ? ?| |]; cbn in U; try contradiction; cbn [bind].
  - destruct U as [Bu Hu]. apply IH; [|lia]. replace (index + 1 + used)%nat with ((index + 1) + used)%nat by lia.
    apply bnd_skipn_add; [assumption|now rewrite Et].
  - apply K.
Qed.

Theorem literal_lexical_value_total : forall s, Valid s -> total_str (literal_lexical_value s).
Proof.
  intros s Hv. unfold literal_lexical_value, literal_lexical_value_gen. destruct s as [|quote r] eqn:Es; [exact I|]. rewrite <- Es in *.
  destruct ((quote =? 34) || (quote =? 39)) eqn:Eq; [|exact I].
  set (delimiter := if starts_with [quote; quote; quote] s then [quote; quote; quote] else [quote]).
  apply lexical_loop_total; [|lia].
  apply starts_with_bnd; [assumption| | |].
  - unfold delimiter. destruct (starts_with [quote; quote; quote] s); repeat constructor; lia.
  - unfold delimiter. destruct (starts_with [quote; quote; quote] s); discriminate.
  - unfold delimiter. destruct (starts_with [quote; quote; quote] s) eqn:E3; [exact E3|]. rewrite Es. cbn. now rewrite N.eqb_refl.
Qed.
