(* C16 deepening: the prologue - PREFIX declarations in front of the request. *)
Require Import List NArith Bool PeanoNat Lia ZifyBool ZifyN.
Require Import KV.Parser.Utf8 KV.Parser.Unicode KV.Parser.Keywords KV.Parser.Scanners KV.Parser.Grammar.
Require Import KV.Parser.Utf8Proofs KV.Parser.ScannerProofs KV.Parser.GrammarProofs.
Require Import KV.Parser.RoundTrip KV.Parser.RoundTrip2 KV.Parser.RoundTrip3 KV.Parser.Lex KV.Parser.StmtRT KV.Parser.FilterRT KV.Parser.FilterRT2 KV.Parser.SelectRT.
Import ListNotations.
Open Scope N_scope.

Definition pn_prefix_okb (p : list N) : bool :=
  match p with
  | [] => true
  | c0 :: cs => forallb scalarb p && pn_chars_base c0 && negb (is_whitespace c0) && forallb dot_or_pn cs && last_not_dot cs
  end.
Lemma pn_prefix_ok : forall p, pn_prefix_okb p = true -> PnPrefix (encode p).
Proof.
  intros [|c0 cs] H; [apply pp_empty|]. unfold pn_prefix_okb in H. repeat (apply andb_true_iff in H; destruct H as [H ?]).
  apply pp_label; [first [now apply scalars_F|constructor; [assumption|now apply scalars_F]]|assumption|now apply negb_true_iff|now apply dot_or_pn_F|now apply last_not_dot_P].
Qed.

Record PrefixC := { px_l : L; px_kw : str; px_l2 : L; px_p : list N; px_l3 : L; px_iri : list IriItem }.
Definition px_iri_text (c : PrefixC) : str := 60 :: iri_body (px_iri c) ++ [62].
Definition pr_prefix (c : PrefixC) : str :=
  lay_bytes (px_l c) ++ px_kw c ++ lay_bytes (px_l2 c) ++ encode (px_p c) ++ 58 :: lay_bytes (px_l3 c) ++ px_iri_text c.
Definition wf_prefix (c : PrefixC) : bool :=
  wf_kw kw_prefix (px_kw c) (px_l c) (lay_bytes (px_l2 c) ++ encode (px_p c) ++ [58])
  && lay_okb (px_l2 c) && pn_prefix_okb (px_p c) && lay_okb (px_l3 c) && forallb iri_item_okb (px_iri c).

Lemma stopb_app : forall P a b, a <> [] -> Valid a -> stopb P a = true -> stopb P (a ++ b) = true.
Proof.
  intros P a b Hne Hv H. unfold stopb in *. destruct (valid_next a Hv Hne) as (c & Hc & Hn & Hb & Hf).
  rewrite Hn in H. assert (E : next_char (a ++ b) = Some (c, len_utf8 c)).
  { rewrite <- (firstn_skipn (len_utf8 c) a), Hf, <- app_assoc. apply next_char_encode. now apply scalar_lt. }
  now rewrite E.
Qed.

Lemma prefix_valid : forall c, wf_prefix c = true -> Valid (pr_prefix c).
Proof.
  intros c H. unfold wf_prefix in H. repeat (apply andb_true_iff in H; destruct H as [H ?]).
  match goal with X : forallb iri_item_okb _ = true |- _ => rename X into Hi end.
  match goal with X : pn_prefix_okb _ = true |- _ => rename X into Hp end.
  match goal with X : kwcaseb _ _ = true |- _ => rename X into Hk end.
  unfold pr_prefix, px_iri_text. apply valid_app; [now apply lay_valid|]. apply valid_app; [eapply (kw_valid kw_prefix); [kw_a|eassumption]|].
  apply valid_app; [now apply lay_valid|]. apply valid_app; [destruct (pn_prefix_ok _ Hp); [apply valid_nil|now apply valid_encode]|].
  apply v1; [lia|]. apply valid_app; [now apply lay_valid|]. apply v1; [lia|].
  apply valid_app; [apply iri_body_valid; now apply iri_items_ok|apply valid_ascii; repeat constructor; lia].
Qed.

Theorem prefix_rt : forall c rest, wf_prefix c = true -> Valid rest ->
  prefix_declaration (pr_prefix c ++ rest) = Ok ((encode (px_p c), iri_body (px_iri c)), rest).
Proof.
  intros c rest H Hr. pose proof (prefix_valid c H) as Vc. unfold wf_prefix in H.
  apply andb_true_iff in H. destruct H as [H Hi]. apply andb_true_iff in H. destruct H as [H Hl3]. apply andb_true_iff in H. destruct H as [H Hp].
  apply andb_true_iff in H. destruct H as [Hk Hl2].
  pose proof (pn_prefix_ok _ Hp) as Pp. pose proof (iri_items_ok _ Hi) as Ii.
  assert (Vp : Valid (encode (px_p c))) by (destruct Pp; [apply valid_nil|now apply valid_encode]).
  assert (Vb : Valid (iri_body (px_iri c))) by now apply iri_body_valid.
  assert (Vi : Valid (px_iri_text c)) by (unfold px_iri_text; apply v1; [lia|]; apply valid_app; [assumption|apply valid_ascii; repeat constructor; lia]).
  assert (V3 : Valid (lay_bytes (px_l3 c) ++ px_iri_text c ++ rest)) by (apply valid_app; [now apply lay_valid|now apply valid_app]).
  assert (V58 : Valid (58 :: lay_bytes (px_l3 c) ++ px_iri_text c ++ rest)) by (apply v1; [lia|assumption]).
  set (T := encode (px_p c) ++ 58 :: lay_bytes (px_l3 c) ++ px_iri_text c ++ rest).
  assert (VT : Valid T) by now apply valid_app.
  assert (E0 : pr_prefix c ++ rest = lay_bytes (px_l c) ++ px_kw c ++ lay_bytes (px_l2 c) ++ T).
  { unfold pr_prefix, T. repeat first [rewrite <- app_assoc | progress cbn [app]]. reflexivity. }
  assert (V2 : Valid (lay_bytes (px_l2 c) ++ T)) by (apply valid_app; [now apply lay_valid|assumption]).
  assert (Hk' : wf_kw kw_prefix (px_kw c) (px_l c) (lay_bytes (px_l2 c) ++ T) = true).
  { unfold wf_kw in *. apply andb_true_iff in Hk. destruct Hk as [Hk Hs]. rewrite Hk. cbn [andb].
    unfold T. replace (lay_bytes (px_l2 c) ++ encode (px_p c) ++ 58 :: lay_bytes (px_l3 c) ++ px_iri_text c ++ rest)
      with ((lay_bytes (px_l2 c) ++ encode (px_p c) ++ [58]) ++ lay_bytes (px_l3 c) ++ px_iri_text c ++ rest)
      by (repeat first [rewrite <- app_assoc | progress cbn [app]]; reflexivity).
    apply stopb_app; [|apply valid_app; [now apply lay_valid|apply valid_app; [assumption|apply valid_ascii; repeat constructor; lia]]|assumption].
    intro E. apply (f_equal (@length N)) in E. rewrite !app_length in E. cbn [length] in E. lia. }
  rewrite E0. unfold prefix_declaration. rewrite (wf_kw_rt kw_prefix _ _ _ ltac:(kw_a) eq_refl Hk' V2). cbn [bind].
  assert (Esk : skip_ws (lay_bytes (px_l2 c) ++ T) = T).
  { apply skip_ws_closed; [now apply lay_ok|assumption|]. unfold T. destruct Pp as [|c0 cs Hs Hb Hws Hc Hl].
    - cbn [app]. apply ascii_head_not_layout; [lia|reflexivity|lia].
    - inversion Hs as [|? ? Hs0 Hs']; subst. unfold starts_layout. cbn [encode]. rewrite <- !app_assoc.
      rewrite next_char_encode by now apply scalar_lt. intros [Hx|Hx]; [congruence|]. subst c0. vm_compute in Hb. discriminate. }
  rewrite Esk. unfold T at 1. rewrite find_byte_app by now apply prefix_no_colon.
  assert (Bp : Bnd T (length (encode (px_p c)))) by (apply valid_app_bnd; assumption).
  rewrite slice_to_bnd by assumption. cbn [lift bind]. unfold T at 1. rewrite firstn_app, firstn_all, Nat.sub_diag. cbn [firstn]. rewrite app_nil_r.
  rewrite invalid_pn_prefix_none by assumption. cbn [bind].
  assert (Bc : Bnd T (length (encode (px_p c)) + 1)).
  { unfold T. replace (encode (px_p c) ++ 58 :: lay_bytes (px_l3 c) ++ px_iri_text c ++ rest)
      with ((encode (px_p c) ++ [58]) ++ lay_bytes (px_l3 c) ++ px_iri_text c ++ rest) by (rewrite <- app_assoc; reflexivity).
    replace (length (encode (px_p c)) + 1)%nat with (length (encode (px_p c) ++ [58])) by (rewrite app_length; reflexivity).
    apply valid_app_bnd; [apply valid_app; [assumption|apply valid_ascii; repeat constructor; lia]|assumption]. }
  rewrite slice_from_bnd by assumption. cbn [lift bind].
  replace (skipn (length (encode (px_p c)) + 1) T) with (lay_bytes (px_l3 c) ++ px_iri_text c ++ rest)
    by (unfold T; rewrite <- skipn_plus, skipn_app, skipn_all, Nat.sub_diag; reflexivity).
  pose proof (iri_roundtrip (lay_bytes (px_l3 c)) _ rest (lay_ok _ Hl3) (iritok _ Ii) Hr) as Ir.
  change (60 :: iri_body (px_iri c) ++ [62]) with (px_iri_text c) in Ir. rewrite Ir. cbn [bind].
  unfold px_iri_text. change (60 :: iri_body (px_iri c) ++ [62]) with ([60] ++ iri_body (px_iri c) ++ [62]).
  assert (Sl : slice ([60] ++ iri_body (px_iri c) ++ [62]) 1 (length ([60] ++ iri_body (px_iri c) ++ [62]) - 1) = Some (iri_body (px_iri c))).
  { assert (V60 : Valid [60]) by (apply valid_ascii; repeat constructor; lia). assert (V62 : Valid [62]) by (apply valid_ascii; repeat constructor; lia).
    rewrite slice_bnd.
    - rewrite !app_length. cbn [length]. replace (1 + (length (iri_body (px_iri c)) + 1) - 1 - 1)%nat with (length (iri_body (px_iri c))) by lia.
      cbn [app skipn]. rewrite firstn_app, firstn_all, Nat.sub_diag. cbn [firstn]. now rewrite app_nil_r.
    - apply (valid_app_bnd [60]); [assumption|now apply valid_app].
    - rewrite !app_length. cbn [length]. replace (1 + (length (iri_body (px_iri c)) + 1) - 1)%nat with (length ([60] ++ iri_body (px_iri c))) by (rewrite app_length; cbn; lia).
      rewrite app_assoc. apply valid_app_bnd; [now apply valid_app|assumption].
    - rewrite !app_length. cbn [length]. lia. }
  rewrite Sl. cbn [lift bind]. unfold T. rewrite firstn_app, firstn_all, Nat.sub_diag. cbn [firstn]. rewrite app_nil_r. reflexivity.
Qed.
