(* Totality (no Panic, no Fuel) and consumption lemmas for the scanners of Scanners.v on valid UTF-8 input. *)
Require Import List NArith Bool PeanoNat Lia ZifyBool ZifyN.
Require Import KV.Parser.Utf8 KV.Parser.Unicode KV.Parser.Scanners KV.Parser.Utf8Proofs.
Import ListNotations.
Open Scope N_scope.
Require Import ZArith.
Ltac Zify.zify_post_hook ::= Z.div_mod_to_equations.

(* ---- Spec: layout = whitespace characters and `#` comments ------------------------------------- *)
Definition no_eol (body : str) : Prop := Forall (fun b => b <> 10 /\ b <> 13) body.

Inductive Layout : str -> Prop :=
| L_nil : Layout []
| L_ws : forall c w, scalar c -> is_whitespace c = true -> Layout w -> Layout (encode_char c ++ w)
| L_comment_end : forall body, no_eol body -> Valid body -> Layout (35 :: body)
| L_comment : forall body e w, no_eol body -> Valid body -> (e = 10 \/ e = 13) -> Layout w -> Layout (35 :: body ++ e :: w).

(* ---- trim_start_ws --------------------------------------------------------------------------- *)
Inductive WsOnly : str -> Prop :=
| W_nil : WsOnly []
| W_cons : forall c w, scalar c -> is_whitespace c = true -> WsOnly w -> WsOnly (encode_char c ++ w).

Lemma wsonly_layout_app : forall w r, WsOnly w -> Layout r -> Layout (w ++ r).
Proof. induction 1; intros Hr; cbn [app]; [assumption|]. rewrite <- app_assoc. constructor; auto. Qed.

Lemma wsonly_valid : forall w, WsOnly w -> Valid w.
Proof.
  induction 1; [apply valid_nil|]. destruct IHWsOnly as (cs & Hcs & ->).
  exists (c :: cs). split; [constructor; assumption|reflexivity].
Qed.

Lemma firstn_skipn_len : forall (n : nat) (t : str), t = firstn n t ++ skipn n t.
Proof. intros. now rewrite firstn_skipn. Qed.

Lemma trim_start_ws_spec : forall fuel s, Valid s -> (length s <= fuel)%nat ->
  exists w, WsOnly w /\ s = w ++ trim_start_ws fuel s /\ Valid (trim_start_ws fuel s)
            /\ (forall c n, next_char (trim_start_ws fuel s) = Some (c, n) -> is_whitespace c = false).
Proof.
  induction fuel as [|f IH]; intros s Hv Hlen.
  - destruct s; [|cbn in Hlen; lia]. exists []. cbn. repeat split; [constructor|apply valid_nil|discriminate].
  - cbn [trim_start_ws]. destruct s as [|b0 t0] eqn:Es.
    + exists []. cbn. repeat split; [constructor|apply valid_nil|discriminate].
    + rewrite <- Es in *. destruct (valid_next s Hv) as (c & Hc & Hn & Hb & Hf); [subst; discriminate|].
      rewrite Hn. destruct (is_whitespace c) eqn:Hw.
      * destruct (IH (skipn (len_utf8 c) s)) as (w & Hw1 & Hw2 & Hw3 & Hw4).
        -- apply (bnd_skipn_valid _ _ Hb).
        -- rewrite skipn_length. pose proof (len_utf8_pos c). subst s. cbn [length] in *. lia.
        -- exists (encode_char c ++ w). split; [constructor; assumption|]. split; [|split; assumption].
           rewrite <- app_assoc, <- Hw2, <- Hf. apply firstn_skipn_len.
      * exists []. split; [constructor|]. split; [reflexivity|]. split; [assumption|].
        intros c' n' Hn'. rewrite Hn in Hn'. inversion Hn'. subst. assumption.
Qed.

(* ---- to_eol ---------------------------------------------------------------------------------- *)
Lemma to_eol_spec : forall c, exists body, no_eol body /\ c = body ++ to_eol c
  /\ (to_eol c = [] \/ exists e r, to_eol c = e :: r /\ (e = 10 \/ e = 13)).
Proof.
  induction c as [|b t (body & Hb & He & Hr)].
  - exists []. repeat split; [constructor|left; reflexivity].
  - cbn [to_eol]. destruct ((b =? 13) || (b =? 10)) eqn:E.
    + exists []. repeat split; [constructor|]. right. exists b, t. split; [reflexivity|lia].
    + exists (b :: body). split; [constructor; [lia|assumption]|]. split; [cbn [app]; now rewrite <- He|assumption].
Qed.

Lemma valid_split_ascii : forall a e r, Valid (a ++ e :: r) -> e < 128 -> Valid a /\ Valid (e :: r) /\ Valid r.
Proof.
  intros a e r Hv He.
  destruct (ascii_byte_bnd (a ++ e :: r) (length a) Hv) as [B1 B2].
  - rewrite app_length. cbn [length]. lia.
  - rewrite app_nth2, Nat.sub_diag by lia. exact He.
  - pose proof (bnd_firstn_valid _ _ B1) as V1. pose proof (bnd_skipn_valid _ _ B1) as V2.
    pose proof (bnd_skipn_valid _ _ B2) as V3.
    rewrite firstn_app, firstn_all, Nat.sub_diag in V1. cbn [firstn] in V1. rewrite app_nil_r in V1.
    rewrite skipn_app, skipn_all, Nat.sub_diag in V2. cbn [skipn app] in V2.
    replace (S (length a)) with (length (a ++ [e])) in V3 by (rewrite app_length; cbn; lia).
    replace (a ++ e :: r) with ((a ++ [e]) ++ r) in V3 by (rewrite <- app_assoc; reflexivity).
    rewrite skipn_app, skipn_all, Nat.sub_diag in V3. cbn [skipn app] in V3. auto.
Qed.

Lemma cons_inj : forall (a b : N) (l m : list N), a :: l = b :: m -> a = b /\ l = m.
Proof. intros a b l m E. split; [exact (f_equal (hd 0) E)|exact (f_equal (@tl N) E)]. Qed.

Lemma encode_char_ascii_head : forall c w0 e w, encode_char c ++ w0 = e :: w -> e < 128 -> c = e /\ w0 = w.
Proof.
  intros c w0 e w. unfold encode_char.
  destruct (N.ltb_spec c 128); [cbn [app]; intros E _; apply cons_inj in E; exact E|].
  destruct (N.ltb_spec c 2048); [cbn [app]; intros E He; apply cons_inj in E; destruct E; exfalso; lia|].
  destruct (N.ltb_spec c 65536); cbn [app]; intros E He; apply cons_inj in E; destruct E; exfalso; lia.
Qed.

Lemma layout_tail_eol : forall e w, Layout (e :: w) -> e = 10 \/ e = 13 -> Layout w.
Proof.
  intros e w H He. inversion H as [|c w0 Hc Hw Hl E|body Hb Hv E|body e' w' Hb Hv He' Hl E].
  - destruct (encode_char_ascii_head c w0 e w E) as [-> ->]; [lia|assumption].
  - lia.
  - lia.
Qed.

(* ---- skip_ws --------------------------------------------------------------------------------- *)
Definition starts_layout (t : str) : Prop :=
  match next_char t with
  | Some (c, _) => is_whitespace c = true \/ c = 35
  | None => False
  end.

Lemma skip_ws_aux_spec : forall fuel s, Valid s -> (length s < fuel)%nat ->
  exists w, Layout w /\ s = w ++ skip_ws_aux fuel s /\ Valid (skip_ws_aux fuel s) /\ ~ starts_layout (skip_ws_aux fuel s).
Proof.
  induction fuel as [|f IH]; intros s Hv Hlen; [lia|].
  cbn [skip_ws_aux].
  destruct (trim_start_ws_spec (length s) s Hv (le_n _)) as (w & Hw & Hs & Hvt & Hnw).
  destruct (trim_start_ws (length s) s) as [|b c] eqn:Et.
  - exists w. split; [rewrite <- (app_nil_r w); apply wsonly_layout_app; [assumption|constructor]|].
    split; [assumption|]. split; [apply valid_nil|]. unfold starts_layout. cbn. auto.
  - destruct (b =? 35) eqn:Eb.
    + apply N.eqb_eq in Eb. subst b.
      destruct (valid_ascii_head 35 c Hvt) as (_ & _ & Hvc); [lia|].
      destruct (to_eol_spec c) as (body & Hbody & Hc & Hend).
      assert (Hlen2 : (length (to_eol c) < f)%nat).
      { assert (length s = length w + S (length c))%nat by (rewrite Hs at 1; rewrite app_length; reflexivity).
        assert (length c = length body + length (to_eol c))%nat by (rewrite Hc at 1; now rewrite app_length). lia. }
      assert (Hve : Valid body /\ Valid (to_eol c)).
      { destruct Hend as [He|(e & r & He & Hee)].
        - rewrite He in *. rewrite app_nil_r in Hc. subst body. split; [assumption|apply valid_nil].
        - rewrite He in Hc. rewrite Hc in Hvc. destruct (valid_split_ascii body e r Hvc) as (Vb & Ver & Vr); [lia|].
          rewrite He. auto. }
      destruct Hve as [Vb Ve].
      destruct (IH (to_eol c) Ve Hlen2) as (w2 & Hw2 & Hs2 & Hv2 & Hn2).
      exists (w ++ 35 :: body ++ w2). split; [|split; [|split; assumption]].
      * apply wsonly_layout_app; [assumption|].
        destruct Hend as [He|(e & r & He & Hee)].
        -- rewrite He in Hs2. destruct w2; [|discriminate]. rewrite app_nil_r. now apply L_comment_end.
        -- rewrite He in Hs2, Hn2. destruct w2 as [|x w2'].
           ++ exfalso. cbn [app] in Hs2. apply Hn2. rewrite <- Hs2. unfold starts_layout.
              cbn [next_char]. destruct (N.ltb_spec e 128); [|lia]. left. destruct Hee as [-> | ->]; reflexivity.
           ++ cbn [app] in Hs2. inversion Hs2; subst x. apply L_comment; try assumption.
              apply (layout_tail_eol e); assumption.
      * rewrite Hs at 1. rewrite Hc at 1. rewrite Hs2 at 1.
        rewrite <- !app_assoc. cbn [app]. rewrite <- !app_assoc. reflexivity.
    + apply N.eqb_neq in Eb.
      exists w. split; [rewrite <- (app_nil_r w); apply wsonly_layout_app; [assumption|constructor]|].
      split; [assumption|]. split; [assumption|].
      unfold starts_layout. destruct (next_char (b :: c)) as [[c0 n0]|] eqn:En; [|auto].
      intros [Hws|Hc35].
      * rewrite (Hnw _ _ eq_refl) in Hws. discriminate.
      * subst c0. destruct (valid_next (b :: c) Hvt) as (c1 & Hc1 & Hn1 & _ & Hf1); [discriminate|].
        rewrite En in Hn1. assert (c1 = 35) by congruence. subst c1.
        change (len_utf8 35) with 1%nat in Hf1. change (encode_char 35) with [35] in Hf1.
        cbn [firstn] in Hf1. apply cons_inj in Hf1. destruct Hf1; congruence.
Qed.

Lemma skip_ws_spec : forall s, Valid s ->
  exists w, Layout w /\ s = w ++ skip_ws s /\ Valid (skip_ws s) /\ ~ starts_layout (skip_ws s).
Proof. intros s Hv. apply skip_ws_aux_spec; [assumption|lia]. Qed.

Lemma skip_ws_valid : forall s, Valid s -> Valid (skip_ws s).
Proof. intros s Hv. destruct (skip_ws_spec s Hv) as (_ & _ & _ & H & _). exact H. Qed.

Lemma skip_ws_length : forall s, Valid s -> (length (skip_ws s) <= length s)%nat.
Proof. intros s Hv. destruct (skip_ws_spec s Hv) as (w & _ & E & _). rewrite E at 2. rewrite app_length. lia. Qed.

(* ---- the shape of a good scanner result ------------------------------------------------------ *)
(* on the (already layout-skipped) input: either an ordinary error, or a non-empty token that is a prefix of the
   input cut at a character boundary, the rest being the suffix from there.  Never Panic, never Fuel. *)
Definition GoodI (input : str) (r : res (str * str)) : Prop :=
  match r with
  | Ok (tok, rest) => exists e, Bnd input e /\ (0 < e)%nat /\ tok = firstn e input /\ rest = skipn e input
  | Err _ _ _ => True
  | Panic => False
  | Fuel => False
  end.
Definition Good (s : str) (r : res (str * str)) : Prop := GoodI (skip_ws s) r.

Lemma goodi_split : forall input e, Bnd input e -> (0 < e)%nat -> GoodI input (split_at input e).
Proof. intros input e B H. rewrite split_at_bnd by assumption. cbn. exists e. auto. Qed.

Lemma step_at : forall input index, Bnd input index -> (index < length input)%nat ->
  exists b t c, skipn index input = b :: t /\ slice_from input index = Some (b :: t) /\ Valid (b :: t) /\ scalar c
    /\ next_char (b :: t) = Some (c, len_utf8 c) /\ Bnd input (index + len_utf8 c)
    /\ (b < 128 -> c = b) /\ (c < 128 -> c = b).
Proof.
  intros input index B Hlt.
  destruct (bnd_next input index B Hlt) as (c & Hc & Hn & Hb & Hf).
  destruct (skipn index input) as [|b t] eqn:Es.
  - exfalso. assert (length (skipn index input) = 0%nat) by now rewrite Es. rewrite skipn_length in H. lia.
  - exists b, t, c. split; [reflexivity|]. split; [rewrite slice_from_bnd, Es by assumption; reflexivity|].
    split; [rewrite <- Es; now apply bnd_skipn_valid|]. split; [assumption|]. split; [assumption|]. split; [assumption|].
    split.
    + intros Hb128. cbn [next_char] in Hn. destruct (N.ltb_spec b 128); [|lia]. congruence.
    + intros Hc128. rewrite encode_char_ascii in Hf by assumption. rewrite len_utf8_ascii in Hf by assumption.
      cbn [firstn] in Hf. apply cons_inj in Hf. destruct Hf. congruence.
Qed.

Lemma bnd_add_le : forall input i n, Bnd input (i + n) -> (i + n <= length input)%nat.
Proof. intros. now apply bnd_le. Qed.

Lemma skipn_plus : forall (a b : nat) (l : str), skipn a (skipn b l) = skipn (b + a) l.
Proof.
  intros a b. revert a. induction b as [|b IH]; intros a l; [reflexivity|].
  destruct l; [now rewrite !skipn_nil|]. cbn [skipn Nat.add]. apply IH.
Qed.

(* ---- sparql_variable ------------------------------------------------------------------------- *)
Lemma var_loop_bnd : forall fuel input e, Bnd input e ->
  Bnd input (var_loop fuel (skipn e input) e) /\ (e <= var_loop fuel (skipn e input) e)%nat.
Proof.
  induction fuel as [|f IH]; intros input e B; [cbn; auto|].
  cbn [var_loop]. destruct (Nat.lt_ge_cases e (length input)) as [Hlt|Hge].
  - destruct (step_at input e B Hlt) as (b & t & c & Es & _ & _ & _ & Hn & Hb & _). rewrite Es, Hn.
    destruct (is_alphanumeric c || (c =? 95)); [|auto].
    rewrite <- Es, skipn_plus. destruct (IH input (e + len_utf8 c)%nat Hb). split; [assumption|lia].
  - rewrite skipn_all2 by assumption. cbn. auto.
Qed.

Lemma variable_good : forall s, Valid s -> Good s (variable s).
Proof.
  intros s Hv. unfold Good, variable. pose proof (skip_ws_valid s Hv) as Hi. remember (skip_ws s) as input.
  destruct (next_char input) as [[c0 n0]|] eqn:Hn0; [|exact I].
  assert (Hne : input <> []) by (intro E; rewrite E in Hn0; discriminate).
  destruct (valid_next input Hi Hne) as (c & Hc & Hn & Hb & _). rewrite Hn0 in Hn. inversion Hn; subst c0 n0.
  destruct ((c =? 63) || (c =? 36)); [|exact I].
  rewrite slice_from_bnd by assumption. cbn [lift bind].
  destruct (var_loop_bnd (length (skipn (len_utf8 c) input)) input (len_utf8 c) Hb) as [B Hle].
  destruct (Nat.eqb _ _); [exact I|]. apply goodi_split; [assumption|]. pose proof (len_utf8_pos c). lia.
Qed.

(* ---- sparql_unicode_escape_len --------------------------------------------------------------- *)
Lemma hexdigit_ascii : forall b, is_ascii_hexdigit b = true -> b < 128.
Proof. intros b. unfold is_ascii_hexdigit, is_ascii_digit. lia. Qed.

Lemma forallb_window : forall (p : N -> bool) (t : str) (a d : nat),
  forallb p (firstn d (skipn a t)) = true -> (a + d <= length t)%nat ->
  forall j, (a <= j < a + d)%nat -> p (nth j t 0) = true.
Proof.
  intros p t a d H Hle j Hj. rewrite forallb_forall in H. apply H.
  replace (nth j t 0) with (nth (j - a) (firstn d (skipn a t)) 0).
  - apply nth_In. rewrite firstn_length, skipn_length. lia.
  - rewrite <- (firstn_skipn a t) at 2. rewrite app_nth2 by (rewrite firstn_length; lia).
    rewrite firstn_length, Nat.min_l by lia.
    rewrite <- (firstn_skipn d (skipn a t)) at 2. rewrite app_nth1 by (rewrite firstn_length, skipn_length; lia). reflexivity.
Qed.

Definition uel_ok (t : str) (r : res (option nat)) : Prop :=
  match r with
  | Ok None => True
  | Ok (Some l) => Bnd t l /\ (1 <= l)%nat
  | _ => False
  end.

Lemma unicode_escape_len_ok : forall t, Valid t -> uel_ok t (unicode_escape_len t).
Proof.
  intros t Hv. unfold unicode_escape_len.
  destruct (nth_error t 1) as [b1|] eqn:E1; [|exact I].
  assert (Hb1 : nth 1 t 0 = b1) by (apply nth_error_nth; assumption).
  assert (Hl1 : (1 < length t)%nat) by (apply nth_error_Some; congruence).
  set (digits := if b1 =? 117 then Some 4%nat else if b1 =? 85 then Some 8%nat else None).
  assert (Hd : match digits with Some d => b1 < 128 /\ (1 <= d)%nat | None => True end).
  { unfold digits. destruct (N.eqb_spec b1 117); [lia|]. destruct (N.eqb_spec b1 85); [lia|exact I]. }
  destruct digits as [d|]; [|exact I]. destruct Hd as [Hb128 Hd1].
  destruct (Nat.leb_spec (2 + d) (length t)) as [Hle|]; [|exact I].
  destruct (forallb is_ascii_hexdigit (firstn d (skipn 2 t))) eqn:Hhex; [|exact I].
  assert (Hall : forall j, (1 <= j < 1 + (1 + d))%nat -> nth j t 0 < 128).
  { intros j Hj. destruct (Nat.eq_dec j 1) as [->|]; [rewrite Hb1; assumption|].
    apply hexdigit_ascii. apply (forallb_window _ _ 2 d Hhex); lia. }
  assert (B2 : Bnd t 2).
  { apply (ascii_run_bnd t 1 1 Hv); [lia|lia|]. intros j Hj. apply Hall. lia. }
  assert (Be : Bnd t (2 + d)).
  { replace (2 + d)%nat with (1 + (1 + d))%nat by lia. apply (ascii_run_bnd t 1 (1 + d) Hv); [lia|lia|exact Hall]. }
  unfold slice. replace (Nat.leb 2 (2 + d)) with true by (symmetry; apply Nat.leb_le; lia).
  rewrite (bnd_is_char_boundary _ _ B2), (bnd_is_char_boundary _ _ Be). cbn [andb lift bind].
  destruct (scalarb _); cbn; [split; [assumption|lia]|exact I].
Qed.

(* ---- sparql_iri ------------------------------------------------------------------------------ *)
Lemma nth_skipn_add0 : forall (l : str) (i k : nat), nth k (skipn i l) 0 = nth (i + k) l 0.
Proof.
  intros l i. revert l. induction i as [|i IH]; intros l k; [reflexivity|].
  destruct l; [cbn; now destruct k|]. cbn [skipn Nat.add nth]. apply IH.
Qed.

Definition IriOk (input : str) (r : res (str * str)) : Prop :=
  match r with
  | Ok (tok, rest) => exists e, Bnd input e /\ (2 <= e)%nat /\ tok = firstn e input /\ rest = skipn e input /\ nth (e - 1) input 0 = 62
  | Err _ _ _ => True
  | Panic => False
  | Fuel => False
  end.

Lemma iri_loop_good : forall fuel input index, Bnd input index -> (1 <= index)%nat ->
  (length input - index < fuel)%nat -> IriOk input (iri_loop fuel input index).
Proof.
  induction fuel as [|f IH]; intros input index B H1 Hf; [lia|].
  cbn [iri_loop]. destruct (Nat.ltb_spec index (length input)) as [Hlt|Hge]; [|exact I].
  destruct (step_at input index B Hlt) as (b & t & c & Es & Hsl & Hvt & Hc & Hn & Hb & Hbc & Hcb).
  rewrite Hsl. cbn [lift bind].
  destruct (N.eqb_spec b 62) as [->|Hne62].
  - assert (B1 : Bnd input (S index)).
    { rewrite (Hbc ltac:(lia)) in Hb. change (len_utf8 62) with 1%nat in Hb. now rewrite Nat.add_1_r in Hb. }
    rewrite split_at_bnd by assumption. cbn. exists (S index). repeat split; [assumption|lia|].
    replace (S index - 1)%nat with index by lia. rewrite <- (Nat.add_0_r index), <- nth_skipn_add0, Es. reflexivity.
  - destruct (N.eqb_spec b 92) as [->|Hne92].
    + pose proof (unicode_escape_len_ok _ Hvt) as Hu. destruct (unicode_escape_len (92 :: t)) as [[l|]| | |]; cbn in Hu; try contradiction; cbn [bind]; [|exact I].
      destruct Hu as [Bl Hl]. apply IH; [|lia|lia]. rewrite <- Es in Bl. now apply bnd_skipn_add.
    + rewrite Hn. destruct (iri_forbidden c); [exact I|]. apply IH; [assumption|lia|]. pose proof (len_utf8_pos c). lia.
Qed.

Lemma iri_ok : forall s, Valid s -> IriOk (skip_ws s) (iri s).
Proof.
  intros s Hv. unfold iri. pose proof (skip_ws_valid s Hv) as Hi. remember (skip_ws s) as input.
  destruct input as [|b t]; [exact I|]. destruct (N.eqb_spec b 60) as [->|]; [|exact I].
  apply iri_loop_good; [|lia|lia]. destruct (valid_ascii_head 60 t Hi) as (_ & B & _); [lia|assumption].
Qed.

Lemma iri_good : forall s, Valid s -> Good s (iri s).
Proof.
  intros s Hv. pose proof (iri_ok s Hv) as H. unfold Good. destruct (iri s) as [[t r]| | |]; cbn in *; auto.
  destruct H as (e & B & He & Ht & Hr & _). exists e. repeat split; auto. lia.
Qed.

(* an accepted IRI token is `<` ... `>` *)
Lemma iri_shape : forall s t r, Valid s -> iri s = Ok (t, r) ->
  (2 <= length t)%nat /\ nth 0 t 0 = 60 /\ nth (length t - 1) t 0 = 62 /\ Valid t.
Proof.
  intros s t r Hv E. pose proof (iri_ok s Hv) as H. rewrite E in H. destruct H as (e & B & He & -> & _ & Hlast).
  pose proof (bnd_le _ _ B) as Hle. rewrite firstn_length, Nat.min_l by assumption.
  split; [assumption|]. split; [|split; [|now apply bnd_firstn_valid]].
  - unfold iri in E. destruct (skip_ws s) as [|b t0]; [discriminate|]. destruct (N.eqb_spec b 60); [|discriminate].
    subst b. destruct e; [lia|]. reflexivity.
  - rewrite <- Hlast. rewrite <- (firstn_skipn e (skip_ws s)) at 2. rewrite app_nth1 by (rewrite firstn_length; lia). reflexivity.
Qed.

(* ---- list helpers ---------------------------------------------------------------------------- *)
Lemma nth_skipn_add : forall (l : str) (i k : nat), nth k (skipn i l) 0 = nth (i + k) l 0.
Proof.
  intros l i. revert l. induction i as [|i IH]; intros l k; [reflexivity|].
  destruct l; [cbn; now destruct k|]. cbn [skipn Nat.add nth]. apply IH.
Qed.

Lemma skipn_cons_nth : forall (l : str) i a r, skipn i l = a :: r -> nth i l 0 = a /\ (i < length l)%nat.
Proof.
  intros l i a r E. split.
  - rewrite <- (Nat.add_0_r i), <- nth_skipn_add, E. reflexivity.
  - destruct (Nat.lt_ge_cases i (length l)); [assumption|]. rewrite skipn_all2 in E by assumption. discriminate.
Qed.

Lemma starts_with_spec : forall p s, starts_with p s = true ->
  (length p <= length s)%nat /\ forall j, (j < length p)%nat -> nth j s 0 = nth j p 0.
Proof.
  induction p as [|a p IH]; intros s H; [split; [cbn; lia|intros j Hj; cbn in Hj; lia]|].
  destruct s as [|b s]; [discriminate|]. cbn [starts_with] in H. apply andb_true_iff in H. destruct H as [Hab Hp].
  apply N.eqb_eq in Hab. subst b. destruct (IH s Hp) as [Hl Hn]. split; [cbn; lia|].
  intros [|j] Hj; [reflexivity|]. cbn [nth]. apply Hn. cbn in Hj. lia.
Qed.

Lemma strip_prefix_bnd : forall p s r, Valid s -> Forall (fun b => b < 128) p -> p <> [] -> strip_prefix p s = Some r ->
  r = skipn (length p) s /\ Bnd s (length p).
Proof.
  intros p s r Hv Hp Hne H. unfold strip_prefix in H. destruct (starts_with p s) eqn:E; [|discriminate].
  inversion H. split; [reflexivity|]. destruct (starts_with_spec p s E) as [Hl Hn].
  apply (ascii_run_bnd s 0 (length p) Hv); [lia|destruct p; [congruence|cbn; lia]|].
  intros j Hj. rewrite Hn by lia. rewrite Forall_forall in Hp. apply Hp, nth_In. lia.
Qed.

Lemma find_byte_spec : forall b s i, find_byte b s = Some i -> nth i s 0 = b /\ (i < length s)%nat.
Proof.
  intros b. induction s as [|x s IH]; intros i H; [discriminate|]. cbn [find_byte] in H.
  destruct (N.eqb_spec x b); [inversion H; subst; split; [reflexivity|cbn; lia]|].
  destruct (find_byte b s) as [j|]; [|discriminate]. inversion H. destruct (IH j eq_refl). split; [assumption|cbn; lia].
Qed.

Lemma last_nth : forall (l : str), l <> [] -> nth (length l - 1) l 0 = last l 0.
Proof.
  induction l as [|a l IH]; intros H; [congruence|]. destruct l as [|b l]; [reflexivity|].
  cbn [length last]. replace (S (S (length l)) - 1)%nat with (S (length (b :: l) - 1)) by (cbn; lia).
  cbn [nth]. apply IH. discriminate.
Qed.

Lemma last_app_ne : forall (a t : str), t <> [] -> last (a ++ t) 0 = last t 0.
Proof.
  induction a as [|x a IH]; intros t H; [reflexivity|]. cbn [app]. destruct (a ++ t) eqn:E.
  - destruct a; [cbn in E; congruence|discriminate].
  - rewrite <- E. cbn [last]. rewrite E. rewrite <- E. apply IH. assumption.
Qed.

(* ---- sparql_invalid_pn_prefix ---------------------------------------------------------------- *)
Lemma pn_prefix_loop_spec : forall fuel t off prev, Valid t -> (length t <= fuel)%nat ->
  match pn_prefix_loop fuel t off prev with
  | (Some o, _) => exists k, o = (off + k)%nat /\ Bnd t k
  | (None, true) => (t = [] /\ prev = true) \/ (t <> [] /\ last t 0 = 46)
  | (None, false) => True
  end.
Proof.
  induction fuel as [|f IH]; intros t off prev Hv Hl.
  - destruct t; [|cbn in Hl; lia]. cbn. destruct prev; auto.
  - cbn [pn_prefix_loop]. destruct (next_char t) as [[c0 n0]|] eqn:Hn0.
    + assert (Hne : t <> []) by (intro E; rewrite E in Hn0; discriminate).
      destruct (valid_next t Hv Hne) as (c & Hc & Hn & Hb & Hf). rewrite Hn0 in Hn. inversion Hn; subst c0 n0.
      assert (Hvs : Valid (skipn (len_utf8 c) t)) by now apply bnd_skipn_valid.
      assert (Hls : (length (skipn (len_utf8 c) t) <= f)%nat).
      { rewrite skipn_length. pose proof (len_utf8_pos c). destruct t; [congruence|cbn [length] in *; lia]. }
      assert (Step : forall p, match pn_prefix_loop f (skipn (len_utf8 c) t) (off + len_utf8 c) p with
                               | (Some o, _) => exists k, o = (off + k)%nat /\ Bnd t k
                               | (None, true) => (t <> [] /\ (p = true \/ True) /\ ((skipn (len_utf8 c) t = [] /\ p = true) \/ last t 0 = 46))
                               | (None, false) => True end).
      { intros p. specialize (IH (skipn (len_utf8 c) t) (off + len_utf8 c)%nat p Hvs Hls).
        destruct (pn_prefix_loop f (skipn (len_utf8 c) t) (off + len_utf8 c) p) as [[o|] [|]]; auto.
        - destruct IH as (k & -> & Bk). exists (len_utf8 c + k)%nat. split; [lia|]. now apply bnd_skipn_add.
        - destruct IH as (k & -> & Bk). exists (len_utf8 c + k)%nat. split; [lia|]. now apply bnd_skipn_add.
        - split; [assumption|]. split; [auto|]. destruct IH as [[E Ep]|[Hne2 Hlast]]; [left; auto|right].
          rewrite <- (firstn_skipn (len_utf8 c) t). now rewrite last_app_ne. }
      destruct (N.eqb_spec c 46) as [->|Hc46].
      * specialize (Step true). destruct (pn_prefix_loop f (skipn (len_utf8 46) t) (off + len_utf8 46) true) as [[o|] [|]]; auto.
        right. destruct Step as (_ & _ & [[E _]|Hl46]); [|auto]. split; [assumption|].
        (* the dot is the last character *)
        rewrite <- (firstn_skipn (len_utf8 46) t), E, app_nil_r, Hf. reflexivity.
      * destruct (pn_chars c).
        -- specialize (Step false). destruct (pn_prefix_loop f (skipn (len_utf8 c) t) (off + len_utf8 c) false) as [[o|] [|]]; auto.
           right. destruct Step as (_ & _ & [[_ E]|Hl46]); [discriminate|auto].
        -- exists 0%nat. split; [lia|]. now apply valid_bnd_0.
    + apply next_char_nil in Hn0. subst t. destruct prev; auto.
Qed.

Definition ipp_ok (prefix : str) (r : res (option (nat * nat))) : Prop :=
  match r with
  | Ok None => True
  | Ok (Some (st, ln)) => (st + ln = length prefix)%nat
  | _ => False
  end.

Lemma invalid_pn_prefix_ok : forall prefix, Valid prefix -> ipp_ok prefix (invalid_pn_prefix prefix).
Proof.
  intros prefix Hv. unfold invalid_pn_prefix.
  destruct (next_char prefix) as [[c0 n0]|] eqn:Hn0; [|exact I].
  assert (Hne : prefix <> []) by (intro E; rewrite E in Hn0; discriminate).
  destruct (valid_next prefix Hv Hne) as (c & Hc & Hn & Hb & Hf). rewrite Hn0 in Hn. inversion Hn; subst c0 n0.
  destruct (pn_chars_base c); cbn [negb]; [|cbn; lia].
  rewrite slice_from_bnd by assumption. cbn [lift bind].
  pose proof (pn_prefix_loop_spec (length (skipn (len_utf8 c) prefix)) (skipn (len_utf8 c) prefix) 0 false
                (bnd_skipn_valid _ _ Hb) (le_n _)) as Hs.
  destruct (pn_prefix_loop _ _ 0 false) as [[o|] [|]].
  - destruct Hs as (k & -> & Bk). rewrite slice_from_bnd by (now apply bnd_skipn_add). cbn.
    pose proof (bnd_le _ _ (bnd_skipn_add _ _ _ Hb Bk)). lia.
  - destruct Hs as (k & -> & Bk). rewrite slice_from_bnd by (now apply bnd_skipn_add). cbn.
    pose proof (bnd_le _ _ (bnd_skipn_add _ _ _ Hb Bk)). lia.
  - destruct Hs as [[_ E]|[Hne2 Hlast]]; [discriminate|].
    assert (B : Bnd prefix (length prefix - 1)).
    { apply (ascii_byte_bnd prefix (length prefix - 1) Hv); [destruct prefix; [congruence|cbn; lia]|].
      rewrite last_nth by assumption. rewrite <- (firstn_skipn (len_utf8 c) prefix), last_app_ne, Hlast by assumption. lia. }
    rewrite slice_from_bnd by assumption. cbn. destruct prefix; [congruence|cbn; lia].
  - exact I.
Qed.

(* ---- sparql_blank_node ----------------------------------------------------------------------- *)
Lemma blank_loop_ok : forall fuel body index te, Bnd body index -> Bnd body te -> (length body - index < fuel)%nat ->
  exists r, blank_loop fuel body index te = Ok r /\ Bnd body r.
Proof.
  induction fuel as [|f IH]; intros body index te Bi Bt Hf; [lia|].
  cbn [blank_loop]. destruct (Nat.ltb_spec index (length body)) as [Hlt|Hge]; [|exists te; auto].
  destruct (step_at body index Bi Hlt) as (b & t & c & Es & Hsl & Hvt & Hc & Hn & Hb & Hbc & Hcb).
  rewrite Hsl. cbn [lift bind]. rewrite Hn. pose proof (len_utf8_pos c).
  destruct (pn_chars c).
  - destruct (IH body (index + len_utf8 c)%nat (index + len_utf8 c)%nat Hb Hb) as (r & E & Br); [lia|]. exists r. auto.
  - destruct (N.eqb_spec c 46) as [->|]; [|exists te; auto].
    change (len_utf8 46) with 1%nat in Hb.
    destruct (IH body (index + 1)%nat te Hb Bt) as (r & E & Br); [lia|]. exists r. auto.
Qed.

Lemma blank_node_good : forall s, Valid s -> Good s (blank_node s).
Proof.
  intros s Hv. unfold Good, blank_node. pose proof (skip_ws_valid s Hv) as Hi. remember (skip_ws s) as input.
  destruct (strip_prefix [95; 58] input) as [body|] eqn:Esp; [|exact I].
  destruct (strip_prefix_bnd [95; 58] input body Hi) as [Eb B2]; [repeat constructor; lia|discriminate|assumption|].
  cbn [length] in Eb, B2. pose proof (bnd_skipn_valid _ _ B2) as Hvb. rewrite <- Eb in Hvb.
  destruct (next_char body) as [[c0 n0]|] eqn:Hn0; [|exact I].
  assert (Hne : body <> []) by (intro E; rewrite E in Hn0; discriminate).
  destruct (valid_next body Hvb Hne) as (c & Hc & Hn & Hb & _). rewrite Hn0 in Hn. inversion Hn; subst c0 n0.
  destruct (pn_chars_u c || is_ascii_digit c); [|exact I].
  destruct (blank_loop_ok (S (length body)) body (len_utf8 c) (len_utf8 c) Hb Hb) as (r & E & Br); [lia|].
  rewrite E. cbn [bind]. rewrite slice_from_bnd by assumption. cbn [lift bind].
  assert (B : Bnd input (2 + r)) by (apply bnd_skipn_add; [assumption|now rewrite <- Eb]).
  rewrite slice_to_bnd by assumption. cbn [lift bind GoodI].
  exists (2 + r)%nat. split; [assumption|]. split; [lia|]. split; [reflexivity|]. subst body. apply skipn_plus.
Qed.

(* ---- sparql_prefixed_name -------------------------------------------------------------------- *)
Lemma local_loop_ok : forall fuel local index te first, Bnd local index -> Bnd local te -> (length local - index < fuel)%nat ->
  match local_loop fuel local index te first with
  | Ok r => Bnd local r
  | Err _ _ _ => True
  | _ => False
  end.
Proof.
  induction fuel as [|f IH]; intros local index te first Bi Bt Hf; [lia|].
  cbn [local_loop]. destruct (Nat.ltb_spec index (length local)) as [Hlt|Hge]; [|assumption].
  destruct (step_at local index Bi Hlt) as (b & t & c & Es & Hsl & Hvt & Hc & Hn & Hb & Hbc & Hcb).
  rewrite Hsl. cbn [lift bind]. rewrite Hn. pose proof (len_utf8_pos c).
  match goal with |- context [if ?o then local_loop f local (index + len_utf8 c) _ false else _] => destruct o end.
  - apply IH; [assumption|assumption|lia].
  - destruct (N.eqb_spec c 46) as [->|Hne46].
    + destruct first; [assumption|]. change (len_utf8 46) with 1%nat in Hb. apply IH; [assumption|assumption|lia].
    + destruct (N.eqb_spec c 37) as [->|Hne37].
      * assert (b = 37) by (symmetry; apply Hcb; lia). subst b. destruct t as [|h1 [|h2 t']]; try exact I.
        destruct (is_ascii_hexdigit h1 && is_ascii_hexdigit h2) eqn:Hh; [|exact I].
        apply andb_true_iff in Hh. destruct Hh as [Hh1 Hh2]. apply hexdigit_ascii in Hh1, Hh2.
        assert (B3 : Bnd local (index + 3)).
        { apply (ascii_run_bnd local index 3 (bnd_valid _ _ Bi)).
          - assert (length (skipn index local) = S (S (S (length t')))) by (rewrite Es; reflexivity).
            rewrite skipn_length in H0. lia.
          - lia.
          - intros j Hj. replace j with (index + (j - index))%nat by lia. rewrite <- nth_skipn_add, Es.
            destruct (j - index)%nat as [|[|[|k]]] eqn:Ej; cbn [nth]; try lia. }
        apply IH; [assumption|assumption|lia].
      * destruct (N.eqb_spec c 92) as [->|Hne92]; [|assumption].
        assert (b = 92) by (symmetry; apply Hcb; lia). subst b. change (len_utf8 92) with 1%nat in Hb.
        destruct (valid_ascii_head 92 t Hvt) as (_ & B1 & Hvt'); [lia|].
        rewrite slice_from_bnd by assumption. cbn [lift bind skipn].
        destruct (next_char t) as [[e0 en0]|] eqn:Hn0; [|exact I].
        assert (Hne : t <> []) by (intro E; rewrite E in Hn0; discriminate).
        destruct (valid_next t Hvt' Hne) as (e & He & Hne2 & Hbe & _). rewrite Hn0 in Hne2. inversion Hne2; subst e0 en0.
        destruct (pn_local_esc e); [|exact I].
        assert (B : Bnd local (index + 1 + len_utf8 e)).
        { apply bnd_skipn_add; [assumption|]. replace (skipn (index + 1) local) with t; [assumption|].
          rewrite <- skipn_plus, Es. reflexivity. }
        pose proof (len_utf8_pos e). apply IH; [assumption|assumption|lia].
Qed.

Lemma prefixed_name_good : forall s, Valid s -> Good s (prefixed_name s).
Proof.
  intros s Hv. unfold Good, prefixed_name. pose proof (skip_ws_valid s Hv) as Hi. remember (skip_ws s) as input.
  destruct (find_byte 58 input) as [colon|] eqn:Ef; [|exact I].
  destruct (find_byte_spec _ _ _ Ef) as [Hnth Hlt].
  destruct (ascii_byte_bnd input colon Hi Hlt) as [Bc Bc1]; [rewrite Hnth; lia|].
  rewrite slice_to_bnd by assumption. cbn [lift bind].
  pose proof (invalid_pn_prefix_ok _ (bnd_firstn_valid _ _ Bc)) as Hp.
  destruct (invalid_pn_prefix (firstn colon input)) as [[[st ln]|]| | |]; cbn in Hp; try contradiction; cbn [bind]; [exact I|].
  replace (colon + 1)%nat with (S colon) by lia. rewrite slice_from_bnd by assumption. cbn [lift bind].
  pose proof (local_loop_ok (S (length (skipn (S colon) input))) (skipn (S colon) input) 0 0 true
                (valid_bnd_0 _ (bnd_skipn_valid _ _ Bc1)) (valid_bnd_0 _ (bnd_skipn_valid _ _ Bc1)) ltac:(lia)) as Hl.
  destruct (local_loop _ _ 0 0 true) as [r| | |]; try contradiction; cbn [bind]; [|exact I].
  apply goodi_split; [|lia]. replace (S colon + r)%nat with (S colon + r)%nat by lia. now apply bnd_skipn_add.
Qed.

(* ---- identifier ------------------------------------------------------------------------------ *)
Lemma ident_loop_bnd : forall fuel input e, Bnd input e ->
  Bnd input (ident_loop fuel (skipn e input) e) /\ (e <= ident_loop fuel (skipn e input) e)%nat.
Proof.
  induction fuel as [|f IH]; intros input e B; [cbn; auto|].
  cbn [ident_loop]. destruct (Nat.lt_ge_cases e (length input)) as [Hlt|Hge].
  - destruct (step_at input e B Hlt) as (b & t & c & Es & _ & _ & _ & Hn & Hb & _). rewrite Es, Hn.
    destruct (is_alphanumeric c || (c =? 95) || (c =? 45)); [|auto].
    rewrite <- Es, skipn_plus. destruct (IH input (e + len_utf8 c)%nat Hb). split; [assumption|lia].
  - rewrite skipn_all2 by assumption. cbn. auto.
Qed.

Lemma identifier_goodi : forall input, Valid input -> GoodI input (identifier input).
Proof.
  intros input Hv. unfold identifier.
  destruct (ident_loop_bnd (length input) input 0 (valid_bnd_0 _ Hv)) as [B _]. cbn [skipn] in B.
  destruct (Nat.eqb_spec (ident_loop (length input) input 0) 0); [exact I|]. apply goodi_split; [assumption|lia].
Qed.

Lemma bare_identifier_good : forall s, Valid s -> Good s (bare_identifier s).
Proof. intros s Hv. apply identifier_goodi. now apply skip_ws_valid. Qed.

(* ---- sparql_numeric_literal ------------------------------------------------------------------ *)
Definition Asc (s : str) (j : nat) : Prop := (j <= length s)%nat /\ forall k, (k < j)%nat -> nth k s 0 < 128.

Lemma asc_0 : forall s, Asc s 0.
Proof. intros s. split; [lia|intros k Hk; lia]. Qed.

Lemma asc_step : forall (p : N -> bool) s i, Asc s i -> byte_is p s i = true -> (forall b, p b = true -> b < 128) -> Asc s (S i).
Proof.
  intros p s i [Hl Ha] Hb Hp. unfold byte_is in Hb. destruct (nth_error s i) as [b|] eqn:E; [|discriminate].
  assert (i < length s)%nat by (apply nth_error_Some; congruence).
  split; [lia|]. intros k Hk. destruct (Nat.eq_dec k i) as [->|]; [|apply Ha; lia].
  rewrite (nth_error_nth _ _ _ E). now apply Hp.
Qed.

Lemma asc_bnd : forall s j, Valid s -> Asc s j -> Bnd s j.
Proof.
  intros s j Hv [Hl Ha]. destruct j; [now apply valid_bnd_0|].
  apply (ascii_run_bnd s 0 (S j) Hv); [lia|lia|]. intros k Hk. apply Ha. lia.
Qed.

Lemma digit_ascii : forall b, is_ascii_digit b = true -> b < 128.
Proof. intros b. unfold is_ascii_digit. lia. Qed.

Lemma digits_from_asc : forall fuel s i, Asc s i -> Asc s (digits_from fuel s i) /\ (i <= digits_from fuel s i)%nat.
Proof.
  induction fuel as [|f IH]; intros s i A; [cbn; auto|]. cbn [digits_from].
  destruct (byte_is is_ascii_digit s i) eqn:E; [|auto].
  destruct (IH s (S i) (asc_step _ _ _ A E digit_ascii)). split; [assumption|lia].
Qed.

Lemma numeric_literal_good : forall s, Valid s -> Good s (numeric_literal s).
Proof.
  intros s Hv. unfold Good, numeric_literal. pose proof (skip_ws_valid s Hv) as Hi. remember (skip_ws s) as input.
  set (n := length input).
  set (index0 := if byte_is (fun b => (b =? 43) || (b =? 45)) input 0 then 1%nat else 0%nat).
  assert (A0 : Asc input index0).
  { unfold index0. destruct (byte_is _ input 0) eqn:E; [|apply asc_0].
    apply (asc_step _ _ _ (asc_0 input) E). intros b. lia. }
  set (index1 := digits_from n input index0).
  destruct (digits_from_asc n input index0 A0) as [A1 H01]. fold index1 in A1, H01.
  set (frac := byte_is (fun b => b =? 46) input index1 && byte_is is_ascii_digit input (S index1)).
  set (p2 := if frac then let i := digits_from n input (S index1) in (i, (i - S index1)%nat) else (index1, 0%nat)).
  assert (A2 : Asc input (fst p2) /\ (index1 <= fst p2)%nat /\ (snd p2 <= fst p2 - index0)%nat).
  { unfold p2. destruct frac eqn:Ef; cbn [fst snd]; [|split; [assumption|lia]].
    unfold frac in Ef. apply andb_true_iff in Ef. destruct Ef as [E1 E2].
    assert (As : Asc input (S index1)) by (apply (asc_step _ _ _ A1 E1); intros b; lia).
    destruct (digits_from_asc n input (S index1) As). split; [assumption|lia]. }
  destruct p2 as [index2 fractional_digits]. cbn [fst snd] in A2. destruct A2 as (A2 & H12 & Hfr).
  destruct (Nat.eqb (index1 - index0) 0 && Nat.eqb fractional_digits 0) eqn:Ez; [exact I|].
  assert (Hpos : (1 <= index2)%nat).
  { apply andb_false_iff in Ez. destruct Ez as [Ez|Ez]; apply Nat.eqb_neq in Ez; lia. }
  set (index3 := if byte_is (fun b => (b =? 101) || (b =? 69)) input index2
                 then let marker := index2 in let i1 := S index2 in
                      let i2 := if byte_is (fun b => (b =? 43) || (b =? 45)) input i1 then S i1 else i1 in
                      let i3 := digits_from n input i2 in if Nat.eqb i2 i3 then marker else i3
                 else index2).
  assert (A3 : Asc input index3 /\ (index2 <= index3)%nat).
  { unfold index3. destruct (byte_is (fun b => (b =? 101) || (b =? 69)) input index2) eqn:Ee; [|split; [assumption|lia]].
    cbn zeta. assert (Ae : Asc input (S index2)) by (apply (asc_step _ _ _ A2 Ee); intros b; lia).
    set (i2 := if byte_is (fun b => (b =? 43) || (b =? 45)) input (S index2) then S (S index2) else S index2).
    assert (Ai2 : Asc input i2 /\ (S index2 <= i2)%nat).
    { unfold i2. destruct (byte_is _ input (S index2)) eqn:Es; [|split; [assumption|lia]].
      split; [apply (asc_step _ _ _ Ae Es); intros b; lia|lia]. }
    destruct Ai2 as [Ai2 Hi2]. destruct (digits_from_asc n input i2 Ai2) as [Ai3 Hi3].
    destruct (Nat.eqb i2 (digits_from n input i2)); [split; [assumption|lia]|split; [assumption|lia]]. }
  destruct A3 as [A3 H23]. pose proof (asc_bnd _ _ Hi A3) as B3.
  rewrite slice_from_bnd by assumption. cbn [lift bind].
  destruct (next_char (skipn index3 input)) as [[c k]|].
  - destruct (is_alphabetic c || (c =? 95)); [exact I|]. apply goodi_split; [assumption|lia].
  - apply goodi_split; [assumption|lia].
Qed.

(* ---- keywords, sparql_char, sparql_filter_operator -------------------------------------------- *)
Definition ascii_str (l : str) : Prop := Forall (fun b => b < 128) l.

Lemma ascii_lower_high : forall b, 128 <= b -> ascii_lower b = b.
Proof. intros b H. unfold ascii_lower, is_ascii_upper. destruct (N.leb_spec 65 b), (N.leb_spec b 90); cbn; try reflexivity; lia. Qed.
Lemma ascii_lower_low : forall b, b < 128 -> ascii_lower b < 128.
Proof. intros b H. unfold ascii_lower, is_ascii_upper. destruct (N.leb_spec 65 b), (N.leb_spec b 90); cbn; lia. Qed.

Lemma prefix_nocase_asc : forall kw input, ascii_str kw -> prefix_nocase kw input = true -> Asc input (length kw).
Proof.
  induction kw as [|k kw IH]; intros input Ha H; [apply asc_0|].
  destruct input as [|b input]; [discriminate|]. cbn [prefix_nocase] in H. apply andb_true_iff in H. destruct H as [Hb Hr].
  inversion Ha as [|? ? Hk Ha']; subst. destruct (IH input Ha' Hr) as [Hl Hn]. split; [cbn; lia|].
  intros [|j] Hj; cbn [nth].
  - apply N.eqb_eq in Hb. destruct (N.lt_ge_cases b 128); [assumption|].
    rewrite ascii_lower_high in Hb by assumption. pose proof (ascii_lower_low k Hk). lia.
  - apply Hn. cbn in Hj. lia.
Qed.

Lemma keyword_good : forall kw s, ascii_str kw -> kw <> [] -> Valid s -> Good s (keyword kw s).
Proof.
  intros kw s Ha Hne Hv. unfold Good, keyword. pose proof (skip_ws_valid s Hv) as Hi. remember (skip_ws s) as input.
  destruct (prefix_nocase kw input) eqn:E; [|exact I].
  pose proof (asc_bnd _ _ Hi (prefix_nocase_asc _ _ Ha E)) as B.
  rewrite slice_from_bnd, slice_to_bnd by assumption. cbn [lift bind].
  assert (G : GoodI input (Ok (firstn (length kw) input, skipn (length kw) input))).
  { cbn. exists (length kw). repeat split; [assumption|destruct kw; [congruence|cbn; lia]]. }
  destruct (next_char (skipn (length kw) input)) as [[c k]|]; [destruct (name_character c); [exact I|exact G]|exact G].
Qed.

Lemma starts_keyword_total : forall kw s, ascii_str kw -> kw <> [] -> Valid s -> exists b, starts_keyword kw s = Ok b.
Proof.
  intros kw s Ha Hne Hv. unfold starts_keyword. pose proof (keyword_good kw s Ha Hne Hv) as G. unfold Good in G.
  destruct (keyword kw s) as [[t r]| | |]; cbn in G; try contradiction; eauto.
Qed.

Lemma schar_ok : forall c s, c < 128 -> Valid s ->
  match schar c s with
  | Ok r => exists b, skip_ws s = b :: r /\ Valid r /\ Bnd (skip_ws s) 1
  | Err _ _ _ => True
  | _ => False
  end.
Proof.
  intros c s Hc Hv. unfold schar. pose proof (skip_ws_valid s Hv) as Hi. destruct (skip_ws s) as [|b t]; [exact I|].
  destruct (N.eqb_spec b c); [|exact I]. subst b. destruct (valid_ascii_head c t Hi Hc) as (_ & B & Vt). eauto.
Qed.

Lemma filter_operator_good : forall s, Valid s -> Good s (filter_operator s).
Proof.
  intros s Hv. unfold Good, filter_operator. pose proof (skip_ws_valid s Hv) as Hi. remember (skip_ws s) as input.
  repeat match goal with
  | |- GoodI input (match strip_prefix ?op input with _ => _ end) =>
      let r := fresh "r" in let E := fresh "E" in let B := fresh "B" in
      destruct (strip_prefix op input) as [r|] eqn:E;
      [destruct (strip_prefix_bnd op input r Hi ltac:(repeat constructor; lia) ltac:(discriminate) E) as [-> B];
       rewrite slice_to_bnd by assumption; cbn [lift bind GoodI]; exists (length op); repeat split; [assumption|cbn; lia]|]
  end.
  exact I.
Qed.

(* ---- skip_ws is idempotent ------------------------------------------------------------------- *)
Lemma skip_ws_fixed : forall t, Valid t -> ~ starts_layout t -> skip_ws t = t.
Proof.
  intros t Hv Hn. destruct t as [|b c]; [reflexivity|].
  unfold skip_ws. cbn [length skip_ws_aux trim_start_ws].
  destruct (next_char (b :: c)) as [[c0 n0]|] eqn:En.
  - unfold starts_layout in Hn. rewrite En in Hn.
    destruct (is_whitespace c0) eqn:Ew; [exfalso; apply Hn; now left|].
    destruct (N.eqb_spec b 35) as [->|]; [|reflexivity].
    exfalso. apply Hn. right. cbn in En. now inversion En.
  - apply next_char_nil in En. discriminate.
Qed.

Lemma layout_valid : forall w, Layout w -> Valid w.
Proof.
  induction 1.
  - apply valid_nil.
  - apply valid_app; [|assumption]. exists [c]. split; [now constructor|cbn; now rewrite app_nil_r].
  - apply (valid_app [35] body); [apply valid_ascii; repeat constructor; lia|assumption].
  - apply (valid_app [35] (body ++ e :: w)); [apply valid_ascii; repeat constructor; lia|].
    apply valid_app; [assumption|]. apply (valid_app [e] w); [apply valid_ascii; repeat constructor; lia|assumption].
Qed.

Lemma skip_ws_bnd : forall s, Valid s -> exists k, Bnd s k /\ skip_ws s = skipn k s.
Proof.
  intros s Hv. destruct (skip_ws_spec s Hv) as (w & Hw & E & Hvs & _). exists (length w). split.
  - rewrite E at 1. apply valid_app_bnd; [now apply layout_valid|assumption].
  - rewrite E at 2. rewrite skipn_app, skipn_all, Nat.sub_diag. reflexivity.
Qed.

Lemma starts_with_bnd : forall p s, Valid s -> ascii_str p -> p <> [] -> starts_with p s = true -> Bnd s (length p).
Proof.
  intros p s Hv Hp Hne E. destruct (starts_with_spec p s E) as [Hl Hn].
  apply (ascii_run_bnd s 0 (length p) Hv); [lia|destruct p; [congruence|cbn; lia]|].
  intros j Hj. rewrite Hn by lia. unfold ascii_str in Hp. rewrite Forall_forall in Hp. apply Hp, nth_In. lia.
Qed.

(* ---- sparql_quoted_literal ------------------------------------------------------------------- *)
Definition lit_ok (input : str) (r : res (option nat)) : Prop :=
  match r with
  | Ok (Some ce) => Bnd input ce /\ (2 <= ce)%nat
  | Ok None => True
  | Err _ _ _ => True
  | _ => False
  end.

Lemma lit_loop_ok : forall fuel input delim tq index, Bnd input index -> ascii_str delim -> delim <> [] -> (1 <= index)%nat ->
  (length input - index < fuel)%nat -> lit_ok input (lit_loop fuel input delim tq index).
Proof.
  induction fuel as [|f IH]; intros input delim tq index B Hd Hne H1 Hf; [lia|].
  cbn [lit_loop]. destruct (Nat.ltb_spec index (length input)) as [Hlt|Hge]; [|exact I].
  destruct (step_at input index B Hlt) as (b & t & c & Es & Hsl & Hvt & Hc & Hn & Hb & Hbc & Hcb).
  rewrite Hsl. cbn [lift bind]. pose proof (len_utf8_pos c).
  destruct (starts_with delim (b :: t)) eqn:Esw.
  - cbn. split; [|destruct delim; [congruence|cbn; lia]].
    apply bnd_skipn_add; [assumption|]. rewrite Es. now apply starts_with_bnd.
  - rewrite Hn. destruct (negb tq && ((c =? 13) || (c =? 10))); [exact I|].
    destruct (N.eqb_spec c 92) as [->|Hne92]; [|apply IH; [assumption|assumption|assumption|lia|lia]].
    assert (b = 92) by (symmetry; apply Hcb; lia). subst b. change (len_utf8 92) with 1%nat in Hb.
    rewrite slice_from_bnd by assumption. cbn [lift bind].
    assert (Et : skipn (index + 1) input = t) by (rewrite <- skipn_plus, Es; reflexivity). rewrite Et.
    destruct (valid_ascii_head 92 t Hvt) as (_ & _ & Hvt'); [lia|].
    destruct (next_char t) as [[e0 en0]|] eqn:Hn0; [|exact I].
    assert (Hnet : t <> []) by (intro E; rewrite E in Hn0; discriminate).
    destruct (valid_next t Hvt' Hnet) as (e & He & Hne2 & Hbe & _). rewrite Hn0 in Hne2. inversion Hne2; subst e0 en0.
    pose proof (len_utf8_pos e).
    assert (Be : Bnd input (index + 1 + len_utf8 e)) by (apply bnd_skipn_add; [assumption|now rewrite Et]).
    destruct (simple_escape e); [apply IH; [assumption|assumption|assumption|lia|lia]|].
    destruct ((e =? 117) || (e =? 85)) eqn:Eu; [|exact I].
    rewrite slice_from_bnd by assumption. cbn [lift bind].
    set (digits := if e =? 117 then 4%nat else 8%nat).
    assert (Hdg : (1 <= digits)%nat) by (unfold digits; destruct (e =? 117); lia).
    set (hexadecimal := skipn (len_utf8 e) t).
    destruct (Nat.ltb_spec (length hexadecimal) digits) as [|Hlen]; [exact I|]. cbn [orb].
    destruct (forallb is_ascii_hexdigit (firstn digits hexadecimal)) eqn:Hhex; cbn [negb]; [|exact I].
    assert (Bh : Bnd hexadecimal digits).
    { apply (ascii_run_bnd hexadecimal 0 digits (bnd_skipn_valid _ _ Hbe)); [lia|lia|].
      intros j Hj. apply hexdigit_ascii. apply (forallb_window _ _ 0 digits Hhex); lia. }
    rewrite slice_to_bnd by assumption. cbn [lift bind].
    destruct (scalarb _); [|exact I].
    apply IH; [|assumption|assumption|lia|lia].
    replace (index + 1 + (len_utf8 e + digits))%nat with ((index + 1) + (len_utf8 e + digits))%nat by lia.
    apply bnd_skipn_add; [assumption|]. rewrite Et. now apply bnd_skipn_add.
Qed.

Lemma count_while_asc : forall (p : N -> bool) s i, (forall b, p b = true -> b < 128) -> Asc s i ->
  Asc s (i + count_while p (skipn i s)).
Proof.
  intros p s i Hp [Hl Ha]. remember (skipn i s) as t. revert i Hl Ha Heqt. induction t as [|b t IH]; intros i Hl Ha E.
  - cbn. rewrite Nat.add_0_r. split; assumption.
  - cbn [count_while]. destruct (p b) eqn:Eb; [|rewrite Nat.add_0_r; split; assumption].
    symmetry in E. destruct (skipn_cons_nth _ _ _ _ E) as [Hn Hlt].
    replace (i + S (count_while p t))%nat with (S i + count_while p t)%nat by lia. apply IH.
    + lia.
    + intros k Hk. destruct (Nat.eq_dec k i) as [->|]; [rewrite Hn; now apply Hp|apply Ha; lia].
    + change (S i) with (1 + i)%nat. rewrite Nat.add_comm, <- skipn_plus, E. reflexivity.
Qed.

Lemma alnum_ascii : forall b, is_ascii_alnum b = true -> b < 128.
Proof. intros b. unfold is_ascii_alnum, is_ascii_alpha, is_ascii_upper, is_ascii_lower, is_ascii_digit. lia. Qed.
Lemma alpha_ascii : forall b, is_ascii_alpha b = true -> b < 128.
Proof. intros b. unfold is_ascii_alpha, is_ascii_upper, is_ascii_lower. lia. Qed.

Lemma lang_loop_ok : forall fuel language le sl, Valid language -> Asc language le -> (length language - le < fuel)%nat ->
  match lang_loop fuel language le sl with
  | Ok r => Asc language r
  | Err _ _ _ => True
  | _ => False
  end.
Proof.
  induction fuel as [|f IH]; intros language le sl Hv A Hf; [lia|].
  cbn [lang_loop]. destruct (byte_is (fun b => b =? 45) language le) eqn:Eb; [|assumption].
  assert (A1 : Asc language (S le)) by (apply (asc_step _ _ _ A Eb); intros b; lia).
  rewrite slice_from_bnd by (now apply asc_bnd). cbn [lift bind].
  pose proof (count_while_asc is_ascii_alnum language (S le) alnum_ascii A1) as A2.
  destruct (Nat.eqb_spec (count_while is_ascii_alnum (skipn (S le) language)) 0); [exact I|].
  apply IH; [assumption|assumption|]. destruct A1. lia.
Qed.

Lemma asc_cons : forall b l j, b < 128 -> Asc l j -> Asc (b :: l) (S j).
Proof.
  intros b l j Hb [Hl Ha]. split; [cbn; lia|]. intros [|k] Hk; cbn [nth]; [assumption|apply Ha; lia].
Qed.

Definition GoodN (n : nat) (input : str) (r : res (str * str)) : Prop :=
  match r with
  | Ok (tok, rest) => exists e, Bnd input e /\ (n <= e)%nat /\ tok = firstn e input /\ rest = skipn e input
  | Err _ _ _ => True
  | Panic => False
  | Fuel => False
  end.

Lemma goodn_split : forall n input e, Bnd input e -> (n <= e)%nat -> GoodN n input (split_at input e).
Proof. intros n input e B H. rewrite split_at_bnd by assumption. cbn. exists e. auto. Qed.

Lemma quoted_literal_good2 : forall s, Valid s -> GoodN 2 (skip_ws s) (quoted_literal s).
Proof.
  intros s Hv. unfold quoted_literal, quoted_literal_with. pose proof (skip_ws_valid s Hv) as Hi.
  remember (skip_ws s) as input. destruct input as [|quote rest0] eqn:Ein; [exact I|]. rewrite <- Ein in *.
  destruct ((quote =? 39) || (quote =? 34)) eqn:Eq; [|exact I].
  assert (Hq : quote < 128) by lia.
  set (tq := starts_with [quote; quote; quote] input).
  set (delimiter := if tq then [quote; quote; quote] else [quote]).
  assert (Hda : ascii_str delimiter) by (unfold delimiter; destruct tq; repeat constructor; assumption).
  assert (Hdn : delimiter <> []) by (unfold delimiter; destruct tq; discriminate).
  assert (Bd : Bnd input (length delimiter)).
  { apply starts_with_bnd; try assumption. unfold delimiter. destruct tq eqn:Et; [exact Et|].
    rewrite Ein. cbn. now rewrite N.eqb_refl. }
  pose proof (lit_loop_ok (S (length input)) input delimiter tq (length delimiter) Bd Hda Hdn ltac:(destruct delimiter; [congruence|cbn; lia]) ltac:(lia)) as Hl.
  destruct (lit_loop _ input delimiter tq (length delimiter)) as [[literal_end|]| | |]; cbn in Hl; try contradiction; cbn [bind]; try exact I.
  destruct Hl as [Ble Hle1]. rewrite slice_from_bnd by assumption. cbn [lift bind].
  pose proof (bnd_skipn_valid _ _ Ble) as Hvs. remember (skipn literal_end input) as suffix.
  assert (Plain : GoodN 2 input (split_at input literal_end)) by (apply goodn_split; assumption).
  cbn zeta. destruct suffix as [|b0 suffix']; [exact Plain|].
  destruct (N.eqb_spec b0 64) as [->|Hn64].
  - (* language tag *)
    destruct (valid_ascii_head 64 suffix' Hvs) as (_ & _ & Hvl); [lia|].
    pose proof (count_while_asc is_ascii_alpha suffix' 0 alpha_ascii (asc_0 _)) as A0. cbn [skipn Nat.add] in A0.
    destruct (Nat.eqb_spec (count_while is_ascii_alpha suffix') 0); [exact I|].
    pose proof (lang_loop_ok (S (length suffix')) suffix' (count_while is_ascii_alpha suffix') (length (64 :: suffix')) Hvl A0 ltac:(lia)) as Hlg.
    destruct (lang_loop _ suffix' _ _) as [language_end| | |]; try contradiction; cbn [bind]; [|exact I].
    rewrite slice_from_bnd by (now apply asc_bnd). cbn [lift bind].
    assert (Bfin : Bnd input (literal_end + (1 + language_end))).
    { apply bnd_skipn_add; [assumption|]. rewrite <- Heqsuffix. apply asc_bnd; [assumption|].
      apply (asc_cons 64 suffix' language_end); [lia|assumption]. }
    assert (Fin : GoodN 2 input (split_at input (literal_end + (1 + language_end)))) by (apply goodn_split; [assumption|lia]).
    destruct (next_char (skipn language_end suffix')) as [[c k]|]; [|exact Fin].
    destruct (is_ascii_alnum c || (c =? 45) || (c =? 95)); [exact I|exact Fin].
  - destruct (N.eqb_spec b0 94) as [->|Hn94]; [|exact Plain].
    destruct suffix' as [|b1 datatype0]; [exact Plain|].
    destruct (N.eqb_spec b1 94) as [->|]; [|exact Plain].
    assert (Hvd0 : Valid datatype0).
    { destruct (valid_ascii_head 94 (94 :: datatype0) Hvs) as (_ & _ & V1); [lia|].
      destruct (valid_ascii_head 94 datatype0 V1) as (_ & _ & V2); [lia|assumption]. }
    destruct (skip_ws_spec datatype0 Hvd0) as (w & Hw & Edt & Hvd & Hns).
    remember (skip_ws datatype0) as datatype.
    assert (Hfix : skip_ws datatype = datatype) by (apply skip_ws_fixed; assumption).
    pose proof (iri_good datatype Hvd) as Gi. pose proof (prefixed_name_good datatype Hvd) as Gp.
    unfold Good in Gi, Gp. rewrite Hfix in Gi, Gp.
    assert (Gr : GoodI datatype (orelse (iri datatype) (fun _ => prefixed_name datatype))).
    { destruct (iri datatype) as [[t r]| | |]; cbn [orelse]; try assumption. }
    destruct (orelse (iri datatype) (fun _ => prefixed_name datatype)) as [[tok rest]| | |]; cbn in Gr; try contradiction; cbn [bind]; [|exact I].
    destruct Gr as (e & Be & He & -> & ->). cbn [snd].
    assert (Epos : (length input - length (skipn e datatype) = literal_end + (2 + (length w + e)))%nat).
    { rewrite skipn_length. pose proof (bnd_le _ _ Be).
      assert (length input = literal_end + length (skipn literal_end input))%nat by (rewrite skipn_length; pose proof (bnd_le _ _ Ble); lia).
      rewrite <- Heqsuffix in H0. cbn [length] in H0. rewrite Edt in H0. rewrite app_length in H0. lia. }
    rewrite Epos. apply goodn_split; [|lia].
    apply bnd_skipn_add; [assumption|]. rewrite <- Heqsuffix.
    change (94 :: 94 :: datatype0) with ([94; 94] ++ datatype0).
    assert (B2 : Bnd ([94; 94] ++ datatype0) 2) by (apply (valid_app_bnd [94; 94] datatype0); [apply valid_ascii; repeat constructor; lia|assumption]).
    apply (bnd_skipn_add _ 2 _ B2). cbn [skipn app].
    assert (Bw : Bnd datatype0 (length w)) by (rewrite Edt at 1; apply valid_app_bnd; [now apply layout_valid|assumption]).
    apply (bnd_skipn_add _ _ _ Bw). rewrite Edt at 1. rewrite skipn_app, skipn_all, Nat.sub_diag. exact Be.
Qed.

Lemma quoted_literal_good : forall s, Valid s -> Good s (quoted_literal s).
Proof.
  intros s Hv. pose proof (quoted_literal_good2 s Hv) as H. unfold Good. destruct (quoted_literal s) as [[t r]| | |]; cbn in *; auto.
  destruct H as (e & B & He & Ht & Hr). exists e. repeat split; auto. lia.
Qed.

(* an accepted literal token has its two delimiters *)
Lemma quoted_literal_len : forall s t r, Valid s -> quoted_literal s = Ok (t, r) -> (2 <= length t)%nat /\ Valid t.
Proof.
  intros s t r Hv E. pose proof (quoted_literal_good2 s Hv) as H. rewrite E in H. destruct H as (e & B & He & -> & _).
  pose proof (bnd_le _ _ B). rewrite firstn_length, Nat.min_l by assumption. split; [assumption|now apply bnd_firstn_valid].
Qed.

