(* Structured tokens and layout for the printer side of the round trip: every terminal of a printed request is a
   (layout, token) pair whose well-formedness is a BOOLEAN function (decidable by computation); the lemmas here connect
   the booleans to the Spec token classes of RoundTrip*.v and give, for each term position of the grammar, the fact
   "the alternative chain of that position returns exactly the printed token". *)
Require Import List NArith Bool PeanoNat Lia ZifyBool ZifyN.
Require Import KV.Parser.Utf8 KV.Parser.Unicode KV.Parser.Keywords KV.Parser.Scanners KV.Parser.Grammar.
Require Import KV.Parser.Utf8Proofs KV.Parser.ScannerProofs KV.Parser.GrammarProofs.
Require Import KV.Parser.RoundTrip KV.Parser.RoundTrip2 KV.Parser.RoundTrip3.
Import ListNotations.
Open Scope N_scope.

(* ---- "the next character satisfies P" as a boolean on the following text ------------------------------ *)
Definition stopb (P : N -> bool) (s : str) : bool :=
  match next_char s with Some (c, _) => P c | None => true end.

Definition var_stopP (c : N) : bool := negb (var_char c).
Definition num_stopP (c : N) : bool := negb (is_alphabetic c) && negb (c =? 95) && negb (is_ascii_digit c) && negb (c =? 46).
Definition pn_stopP (c : N) : bool := negb (pn_chars c) && negb (c =? 58) && negb (c =? 46) && negb (c =? 37) && negb (c =? 92).
Definition blank_stopP (c : N) : bool := negb (pn_chars c) && negb (c =? 46).
Definition name_stopP (c : N) : bool := negb (name_character c).
Definition lit_stopP (q c : N) : bool := negb (c =? 64) && negb (c =? 94) && negb (c =? q).

Lemma var_stop_b : forall r, stopb var_stopP r = true -> var_stop r.
Proof. intros r H. unfold stopb, var_stop, var_stopP in *. destruct (next_char r) as [[c n]|]; [now apply negb_true_iff in H|exact I]. Qed.
Lemma num_stop_b : forall r, stopb num_stopP r = true -> num_stop r.
Proof.
  intros r H. unfold stopb, num_stop, num_stopP in *. destruct (next_char r) as [[c n]|]; [|exact I].
  repeat (apply andb_true_iff in H; destruct H as [H ?]). repeat split; try (apply negb_true_iff; assumption); apply N.eqb_neq; now apply negb_true_iff.
Qed.
Lemma pn_stop_b : forall r, stopb pn_stopP r = true -> pn_stop r.
Proof.
  intros r H. unfold stopb, pn_stop, pn_stopP in *. destruct (next_char r) as [[c n]|]; [|exact I].
  repeat (apply andb_true_iff in H; destruct H as [H ?]). repeat split; try (apply negb_true_iff; assumption); apply N.eqb_neq; now apply negb_true_iff.
Qed.
Lemma blank_stop_b : forall r, stopb blank_stopP r = true -> blank_stop r.
Proof.
  intros r H. unfold stopb, blank_stop, blank_stopP in *. destruct (next_char r) as [[c n]|]; [|exact I].
  apply andb_true_iff in H. destruct H as [H1 H2]. split; [now apply negb_true_iff|apply N.eqb_neq; now apply negb_true_iff].
Qed.
Lemma name_stop_b : forall r, stopb name_stopP r = true -> name_stop r.
Proof. intros r H. unfold stopb, name_stop, name_stopP in *. destruct (next_char r) as [[c n]|]; [now apply negb_true_iff in H|exact I]. Qed.

Lemma lit_stop_b : forall q r, q < 128 -> Valid r -> stopb (lit_stopP q) r = true -> lit_stop q r.
Proof.
  intros q r Hq Hv H. unfold lit_stop. destruct r as [|b t]; [exact I|]. unfold stopb, lit_stopP in H.
  destruct (N.lt_ge_cases b 128) as [Hlt|Hge].
  - cbn [next_char] in H. destruct (N.ltb_spec b 128); [|lia].
    repeat (apply andb_true_iff in H; destruct H as [H ?]). repeat split; apply N.eqb_neq; now apply negb_true_iff.
  - lia.
Qed.

(* ---- structured layout --------------------------------------------------------------------------------- *)
Inductive LItem : Type :=
| LWs (c : N)                       (* one whitespace character *)
| LCom (body : list N) (e : N).     (* `#` body (code points) end-of-line *)

Definition litem_bytes (it : LItem) : str :=
  match it with
  | LWs c => encode_char c
  | LCom body e => 35 :: encode body ++ [e]
  end.
Definition lay_bytes (l : list LItem) : str := flat_map litem_bytes l.

Definition litem_okb (it : LItem) : bool :=
  match it with
  | LWs c => scalarb c && is_whitespace c
  | LCom body e => forallb (fun c => scalarb c && negb (c =? 10) && negb (c =? 13)) body && ((e =? 10) || (e =? 13))
  end.
Definition lay_okb (l : list LItem) : bool := forallb litem_okb l.

Lemma lc_cons_wschar : forall c w, LayoutC w -> scalar c -> is_whitespace c = true -> LayoutC (encode_char c ++ w).
Proof.
  intros c w H Hc Hw. destruct H as [ws Hws|ws body e w0 Hws Hb Hv He Hw0].
  - apply LC_end. now constructor.
  - rewrite app_assoc. apply LC_comment; try assumption. now constructor.
Qed.

Lemma encode_no_eol : forall body, Forall scalar body -> Forall (fun c => c <> 10 /\ c <> 13) body -> no_eol (encode body).
Proof.
  induction body as [|c body IH]; intros Hs Hn; [constructor|]. inversion Hs; subst. inversion Hn as [|? ? [H10 H13] Hn']; subst.
  cbn [encode]. apply Forall_app. split; [|now apply IH].
  apply Forall_forall. intros b Hb. split; intro E; subst b.
  - exact (encode_char_no_byte c 10 H1 H10 ltac:(lia) Hb).
  - exact (encode_char_no_byte c 13 H1 H13 ltac:(lia) Hb).
Qed.

Lemma lay_ok : forall l, lay_okb l = true -> LayoutC (lay_bytes l).
Proof.
  induction l as [|it l IH]; intros H; [apply LC_end; constructor|].
  cbn [lay_okb forallb] in H. apply andb_true_iff in H. destruct H as [Hit Hl]. specialize (IH Hl).
  cbn [lay_bytes flat_map]. fold (lay_bytes l). destruct it as [c|body e]; cbn [litem_bytes litem_okb] in *.
  - apply andb_true_iff in Hit. destruct Hit. now apply lc_cons_wschar.
  - apply andb_true_iff in Hit. destruct Hit as [Hb He].
    assert (Hs : Forall scalar body /\ Forall (fun c => c <> 10 /\ c <> 13) body).
    { rewrite forallb_forall in Hb. split; apply Forall_forall; intros c Hc; specialize (Hb c Hc);
        repeat (apply andb_true_iff in Hb; destruct Hb as [Hb ?]); [exact Hb|].
      split; apply N.eqb_neq; now apply negb_true_iff. }
    destruct Hs as [Hs Hn]. cbn [app]. rewrite <- app_assoc. cbn [app].
    apply (LC_comment [] (encode body) e (lay_bytes l)); [constructor|now apply encode_no_eol|now apply valid_encode|lia|assumption].
Qed.

(* ---- structured terms ---------------------------------------------------------------------------------- *)
Inductive Term : Type :=
| TVar (sigil : N) (cs : list N)
| TIri (items : list IriItem)
| TLit (q : N) (items : list LitItem)
| TNum (sign ds1 : str) (frac : option str)
| TPn (p : list N) (items : list LocItem)
| TBlank (c0 : N) (cs : list N)
| TBool (b : bool).

Definition term_text (t : Term) : str :=
  match t with
  | TVar sigil cs => sigil :: encode cs
  | TIri items => 60 :: iri_body items ++ [62]
  | TLit q items => q :: lit_body items ++ [q]
  | TNum sign ds1 frac => sign ++ ds1 ++ match frac with Some ds2 => 46 :: ds2 | None => [] end
  | TPn p items => encode p ++ 58 :: local_bytes items
  | TBlank c0 cs => 95 :: 58 :: encode (c0 :: cs)
  | TBool b => if b then kw_true else kw_false
  end.

Definition hex_okb (n : nat) (h : str) : bool :=
  Nat.eqb (length h) n && forallb is_ascii_hexdigit h && scalarb (hex_val h).
Definition iri_item_okb (it : IriItem) : bool :=
  match it with
  | IC c => scalarb c && negb (iri_forbidden c) && negb (c =? 62) && negb (c =? 92)
  | IE4 h => hex_okb 4 h
  | IE8 h => hex_okb 8 h
  end.
Definition lit_item_okb (q : N) (it : LitItem) : bool :=
  match it with
  | LCh c => scalarb c && negb (c =? q) && negb (c =? 92) && negb (c =? 10) && negb (c =? 13)
  | LSimple e => simple_escape e
  | LU4 h => hex_okb 4 h
  | LU8 h => hex_okb 8 h
  end.
Fixpoint loc_okb (first : bool) (items : list LocItem) : bool :=
  match items with
  | [] => true
  | LOrd c :: t => scalarb c && ordinary first c && loc_okb false t
  | LDot :: t => negb first && loc_okb false t
  | LPct h1 h2 :: t => is_ascii_hexdigit h1 && is_ascii_hexdigit h2 && loc_okb false t
  | LEsc e :: t => pn_local_esc e && loc_okb false t
  end.
Definition ends_okb (items : list LocItem) : bool := match rev items with it :: _ => negb (is_dot it) | [] => true end.
Definition dot_or_pn (c : N) : bool := (c =? 46) || pn_chars c.
Definition last_not_dot (cs : list N) : bool := match rev cs with c :: _ => negb (c =? 46) | [] => true end.
Definition digitsb (ds : str) : bool := forallb is_ascii_digit ds.
Definition nonempty {A} (l : list A) : bool := match l with [] => false | _ => true end.

Definition term_okb (t : Term) : bool :=
  match t with
  | TVar sigil cs => ((sigil =? 63) || (sigil =? 36)) && nonempty cs && forallb scalarb cs && forallb var_char cs
  | TIri items => forallb iri_item_okb items
  | TLit q items => ((q =? 34) || (q =? 39)) && forallb (lit_item_okb q) items
  | TNum sign ds1 frac =>
      (match sign with [] => true | [b] => (b =? 43) || (b =? 45) | _ => false end) && digitsb ds1
      && match frac with Some ds2 => nonempty ds2 && digitsb ds2 | None => nonempty ds1 end
  | TPn p items =>
      match p with
      | [] => true
      | c0 :: cs => forallb scalarb p && pn_chars_base c0 && negb (is_whitespace c0) && forallb dot_or_pn cs && last_not_dot cs
      end && loc_okb true items && ends_okb items
  | TBlank c0 cs => forallb scalarb (c0 :: cs) && (pn_chars_u c0 || is_ascii_digit c0) && forallb dot_or_pn cs && last_not_dot cs
  | TBool _ => true
  end.

Lemma forallb_Forall : forall {A} (p : A -> bool) l, forallb p l = true -> Forall (fun x => p x = true) l.
Proof. intros A p l H. apply Forall_forall. intros x Hx. rewrite forallb_forall in H. now apply H. Qed.

Lemma hex_ok_b : forall n h, hex_okb n h = true -> hex_ok n h.
Proof.
  intros n h H. unfold hex_okb in H. repeat (apply andb_true_iff in H; destruct H as [H ?]).
  repeat split; try assumption. now apply Nat.eqb_eq.
Qed.

Lemma iri_items_ok : forall items, forallb iri_item_okb items = true -> Forall item_ok items.
Proof.
  intros items H. apply forallb_Forall in H. eapply Forall_impl; [|exact H]. intros [c|h|h] Hi; cbn in *; try (now apply hex_ok_b).
  repeat (apply andb_true_iff in Hi; destruct Hi as [Hi ?]).
  repeat split; [exact Hi|now apply negb_true_iff|apply N.eqb_neq; now apply negb_true_iff|apply N.eqb_neq; now apply negb_true_iff].
Qed.

Lemma lit_items_ok : forall q items, forallb (lit_item_okb q) items = true -> Forall (lit_item_ok q) items.
Proof.
  intros q items H. apply forallb_Forall in H. eapply Forall_impl; [|exact H]. intros [c|e|h|h] Hi; cbn in *; try (now apply hex_ok_b); try assumption.
  repeat (apply andb_true_iff in Hi; destruct Hi as [Hi ?]).
  repeat split; [exact Hi|..]; apply N.eqb_neq; now apply negb_true_iff.
Qed.

Lemma loc_ok_b : forall items first, loc_okb first items = true -> loc_ok first items.
Proof.
  induction items as [|it items IH]; intros first H; [exact I|].
  destruct it as [c| |h1 h2|e]; cbn [loc_okb loc_ok] in *; repeat (apply andb_true_iff in H; destruct H as [H ?]).
  - repeat split; [exact H|assumption|now apply IH].
  - split; [now apply negb_true_iff in H|now apply IH].
  - repeat split; [exact H|assumption|now apply IH].
  - split; [exact H|now apply IH].
Qed.

Lemma ends_ok_b : forall items, ends_okb items = true -> ends_ok items.
Proof. intros items H. unfold ends_okb, ends_ok in *. destruct (rev items); [exact I|now apply negb_true_iff in H]. Qed.

Lemma dot_or_pn_F : forall cs, forallb dot_or_pn cs = true -> Forall (fun c => c = 46 \/ pn_chars c = true) cs.
Proof.
  intros cs H. apply forallb_Forall in H. eapply Forall_impl; [|exact H]. intros c Hc. unfold dot_or_pn in Hc.
  apply orb_true_iff in Hc. destruct Hc as [Hc|Hc]; [left; now apply N.eqb_eq|now right].
Qed.

Lemma last_not_dot_P : forall cs, last_not_dot cs = true -> match rev cs with c :: _ => c <> 46 | [] => True end.
Proof. intros cs H. unfold last_not_dot in H. destruct (rev cs); [exact I|apply N.eqb_neq; now apply negb_true_iff]. Qed.

Lemma scalars_F : forall cs, forallb scalarb cs = true -> Forall scalar cs.
Proof. intros cs H. now apply forallb_Forall in H. Qed.

Lemma digits_F : forall ds, digitsb ds = true -> digits ds.
Proof. intros ds H. now apply forallb_Forall in H. Qed.

(* the boolean well-formedness gives the Spec token class of the printed text *)
Lemma term_class : forall t, term_okb t = true ->
  match t with
  | TVar _ _ => VarTok (term_text t)
  | TIri _ => IriTok (term_text t)
  | TLit _ _ => LitTok (term_text t)
  | TNum _ _ _ => NumTok (term_text t)
  | TPn _ _ => PnameTok (term_text t)
  | TBlank _ _ => BlankTok (term_text t)
  | TBool _ => True
  end.
Proof.
  intros [sigil cs|items|q items|sign ds1 frac|p items|c0 cs|b] H; cbn [term_okb term_text] in *.
  - repeat (apply andb_true_iff in H; destruct H as [H ?]). apply vartok.
    + apply orb_true_iff in H. destruct H as [H|H]; apply N.eqb_eq in H; auto.
    + destruct cs; [discriminate|discriminate].
    + now apply scalars_F.
    + now apply forallb_Forall.
  - apply iritok. now apply iri_items_ok.
  - apply andb_true_iff in H. destruct H as [Hq Hi]. apply littok; [|now apply lit_items_ok].
    apply orb_true_iff in Hq. destruct Hq as [Hq|Hq]; apply N.eqb_eq in Hq; auto.
  - repeat (apply andb_true_iff in H; destruct H as [H ?]).
    assert (Hs : sign = [] \/ sign = [43] \/ sign = [45]).
    { destruct sign as [|b [|? ?]]; [now left| |discriminate]. apply orb_true_iff in H. destruct H as [H|H]; apply N.eqb_eq in H; subst; auto. }
    destruct frac as [ds2|].
    + apply andb_true_iff in H0. destruct H0 as [Hn Hd]. apply (numtok sign ds1 (46 :: ds2)); [assumption|now apply digits_F| |right; discriminate].
      right. exists ds2. repeat split; [destruct ds2; discriminate|now apply digits_F].
    + apply (numtok sign ds1 []); [assumption|now apply digits_F|now left|left; destruct ds1; discriminate].
  - repeat (apply andb_true_iff in H; destruct H as [H ?]). apply pnametok; [|now apply loc_ok_b|now apply ends_ok_b].
    destruct p as [|c0 cs]; [apply pp_empty|].
    repeat (apply andb_true_iff in H; destruct H as [H ?]).
    apply pp_label; [first [now apply scalars_F|constructor; [assumption|now apply scalars_F]]|assumption|now apply negb_true_iff|now apply dot_or_pn_F|now apply last_not_dot_P].
  - repeat (apply andb_true_iff in H; destruct H as [H ?]).
    apply blanktok; [first [now apply scalars_F|constructor; [assumption|now apply scalars_F]]|assumption|now apply dot_or_pn_F|now apply last_not_dot_P].
  - exact I.
Qed.

(* ---- stop condition and scanner of each term kind ------------------------------------------------------ *)
Definition term_stopP (t : Term) : N -> bool :=
  match t with
  | TVar _ _ => var_stopP
  | TIri _ => fun _ => true
  | TLit q _ => lit_stopP q
  | TNum _ _ _ => num_stopP
  | TPn _ _ => pn_stopP
  | TBlank _ _ => blank_stopP
  | TBool _ => name_stopP
  end.
Definition term_stopb (t : Term) (rest : str) : bool := stopb (term_stopP t) rest.

Definition term_scan (t : Term) : str -> res (str * str) :=
  match t with
  | TVar _ _ => variable
  | TIri _ => iri
  | TLit _ _ => quoted_literal
  | TNum _ _ _ => numeric_literal
  | TPn _ _ => prefixed_name
  | TBlank _ _ => blank_node
  | TBool b => keyword (if b then kw_true else kw_false)
  end.

Lemma kwcase_refl : forall kw, KwCase kw kw.
Proof. induction kw; constructor; auto. Qed.

Lemma term_scan_ok : forall t w rest, term_okb t = true -> term_stopb t rest = true -> LayoutC w -> Valid rest ->
  term_scan t (w ++ term_text t ++ rest) = Ok (term_text t, rest).
Proof.
  intros t w rest Hok Hst Hw Hr. pose proof (term_class t Hok) as Hc. unfold term_stopb in Hst.
  destruct t as [sigil cs|items|q items|sign ds1 frac|p items|c0 cs|b]; cbn [term_scan term_stopP] in *.
  - apply variable_roundtrip; try assumption. now apply var_stop_b.
  - now apply iri_roundtrip.
  - apply quoted_literal_roundtrip; try assumption. intros q0 Hq0. cbn [term_text nth] in Hq0. subst q0.
    apply lit_stop_b; try assumption. cbn [term_okb] in Hok. apply andb_true_iff in Hok. destruct Hok as [Hq _]. lia.
  - apply numeric_literal_roundtrip; try assumption. now apply num_stop_b.
  - apply prefixed_name_roundtrip; try assumption. now apply pn_stop_b.
  - apply blank_node_roundtrip; try assumption. now apply blank_stop_b.
  - destruct b; cbn [term_text].
    + apply keyword_roundtrip; [kw_a|apply kwcase_refl|exists 116, (tl kw_true); split; [reflexivity|reflexivity]|assumption|assumption|now apply name_stop_b].
    + apply keyword_roundtrip; [kw_a|apply kwcase_refl|exists 102, (tl kw_false); split; [reflexivity|reflexivity]|assumption|assumption|now apply name_stop_b].
Qed.

(* ---- validity and the first character of a printed term ------------------------------------------------ *)
Lemma term_valid : forall t, term_okb t = true -> Valid (term_text t).
Proof.
  intros t Hok. pose proof (term_class t Hok) as Hc.
  destruct t as [sigil cs|items|q items|sign ds1 frac|p items|c0 cs|b].
  - apply simple_valid. now left.
  - apply simple_valid. now right.
  - cbn [term_okb] in Hok. apply andb_true_iff in Hok. destruct Hok as [Hq Hi]. apply lit_items_ok in Hi. cbn [term_text].
    apply (valid_app [q]); [apply valid_ascii; repeat constructor; lia|].
    apply valid_app; [exact (lit_body_valid q items Hi)|apply valid_ascii; repeat constructor; lia].
  - cbn [term_okb] in Hok. repeat (apply andb_true_iff in Hok; destruct Hok as [Hok ?]). cbn [term_text].
    apply valid_ascii. apply Forall_app. split.
    + destruct sign as [|b0 [|? ?]]; [constructor| |discriminate]. repeat constructor. lia.
    + apply Forall_app. split; [apply digits_ascii; now apply digits_F|].
      destruct frac as [ds2|]; [|constructor]. apply andb_true_iff in H. destruct H as [_ Hd]. constructor; [lia|apply digits_ascii; now apply digits_F].
  - cbn [term_okb term_text] in *. repeat (apply andb_true_iff in Hok; destruct Hok as [Hok ?]).
    apply valid_app.
    + destruct p as [|c0 cs]; [apply valid_nil|]. repeat (apply andb_true_iff in Hok; destruct Hok as [Hok ?]).
      apply valid_encode. first [now apply scalars_F|constructor; [assumption|now apply scalars_F]].
    + apply (valid_app [58]); [apply valid_ascii; repeat constructor; lia|]. apply (local_bytes_valid items true). now apply loc_ok_b.
  - cbn [term_okb term_text] in *. repeat (apply andb_true_iff in Hok; destruct Hok as [Hok ?]).
    apply (valid_app [95; 58]); [apply valid_ascii; repeat constructor; lia|]. apply valid_encode.
    first [now apply scalars_F|constructor; [assumption|now apply scalars_F]].
  - destruct b; apply valid_ascii; vm_compute; repeat constructor.
Qed.

Lemma ascii_alpha_range : forall c, c < 128 -> pn_chars_base c = true -> is_ascii_alpha c = true.
Proof.
  intros c Hc Hp.
  assert (All : forallb (fun x => implb (pn_chars_base x) (is_ascii_alpha x)) (map N.of_nat (seq 0 128)) = true) by (vm_compute; reflexivity).
  rewrite forallb_forall in All. specialize (All c). rewrite Hp in All. apply All.
  apply in_map_iff. exists (N.to_nat c). split; [apply N2Nat.id|]. apply in_seq. lia.
Qed.

(* the first byte of a printed term *)
Definition head_fact (t : Term) (b : N) : Prop :=
  match t with
  | TVar _ _ => b = 63 \/ b = 36
  | TIri _ => b = 60
  | TLit _ _ => b = 34 \/ b = 39
  | TNum _ _ _ => b = 43 \/ b = 45 \/ b = 46 \/ is_ascii_digit b = true
  | TPn _ _ => b = 58 \/ is_ascii_alpha b = true \/ 128 <= b
  | TBlank _ _ => b = 95
  | TBool _ => b = 116 \/ b = 102
  end.

Lemma term_head : forall t, term_okb t = true -> exists b tl, term_text t = b :: tl /\ head_fact t b.
Proof.
  intros t Hok. destruct t as [sigil cs|items|q items|sign ds1 frac|p items|c0 cs|b]; cbn [term_text head_fact term_okb] in *.
  - repeat (apply andb_true_iff in Hok; destruct Hok as [Hok ?]). eexists _, _. split; [reflexivity|lia].
  - eexists _, _. split; [reflexivity|reflexivity].
  - apply andb_true_iff in Hok. destruct Hok as [Hq _]. eexists _, _. split; [reflexivity|lia].
  - repeat (apply andb_true_iff in Hok; destruct Hok as [Hok ?]).
    destruct sign as [|b0 [|? ?]]; [|eexists _, _; split; [reflexivity|lia]|cbn in Hok; discriminate Hok].
    cbn [app]. destruct ds1 as [|d ds1'].
    + destruct frac as [ds2|]; [|discriminate]. cbn [app]. eexists _, _. split; [reflexivity|lia].
    + cbn [app]. eexists _, _. split; [reflexivity|]. cbn [digitsb forallb] in H0. apply andb_true_iff in H0. destruct H0. auto.
  - repeat (apply andb_true_iff in Hok; destruct Hok as [Hok ?]). destruct p as [|c0 cs].
    + cbn [encode app]. eexists _, _. split; [reflexivity|now left].
    + repeat (apply andb_true_iff in Hok; destruct Hok as [Hok ?]). cbn [encode]. rewrite <- app_assoc.
      assert (Hs : scalar c0) by (first [assumption|cbn [forallb] in Hok; apply andb_true_iff in Hok; destruct Hok; assumption]).
      destruct (N.lt_ge_cases c0 128) as [Hlt|Hge].
      * rewrite encode_char_ascii by assumption. cbn [app]. eexists _, _. split; [reflexivity|]. right. left. now apply ascii_alpha_range.
      * destruct (encode_char c0) as [|b t] eqn:E.
        -- pose proof (encode_char_len c0) as Hl. rewrite E in Hl. pose proof (len_utf8_pos c0). cbn in Hl. lia.
        -- cbn [app]. eexists _, _. split; [reflexivity|]. right. right.
           pose proof (encode_char_bytes_high c0 b Hge (scalar_lt _ Hs)) as Hb. rewrite E in Hb. apply Hb. now left.
  - eexists _, _. split; [reflexivity|reflexivity].
  - destruct b; eexists _, _; (split; [reflexivity|]); [now left|now right].
Qed.

Lemma term_not_layout : forall t rest, term_okb t = true -> ~ starts_layout (term_text t ++ rest).
Proof.
  intros t rest Hok. destruct (term_head t Hok) as (b & tl & Et & Hf).
  assert (Ascii : b < 128 -> is_whitespace b = false -> b <> 35 -> ~ starts_layout (term_text t ++ rest)).
  { intros. rewrite Et. cbn [app]. now apply ascii_head_not_layout. }
  destruct t as [sigil cs|items|q items|sign ds1 frac|p items|c0 cs|bb]; cbn [head_fact] in Hf.
  - apply Ascii; [lia|destruct Hf as [-> | ->]; reflexivity|lia].
  - subst b. apply Ascii; [lia|reflexivity|lia].
  - apply Ascii; [lia|destruct Hf as [-> | ->]; reflexivity|lia].
  - assert (b = 43 \/ b = 45 \/ b = 46 \/ 48 <= b <= 57) by (unfold is_ascii_digit in Hf; lia).
    apply Ascii; [lia| |lia]. unfold is_whitespace, in_ranges, whitespace_ranges.
    destruct (N.ltb_spec b 9); [lia|]. destruct (N.leb_spec b 13); [lia|]. destruct (N.ltb_spec b 32); [lia|].
    destruct (N.leb_spec b 32); [lia|]. destruct (N.ltb_spec b 133); [reflexivity|lia].
  - cbn [term_okb term_text] in *. repeat (apply andb_true_iff in Hok; destruct Hok as [Hok ?]). destruct p as [|c0 cs].
    + cbn [encode app]. apply ascii_head_not_layout; [lia|reflexivity|lia].
    + repeat (apply andb_true_iff in Hok; destruct Hok as [Hok ?]).
      assert (Hs : scalar c0) by (first [assumption|cbn [forallb] in Hok; apply andb_true_iff in Hok; destruct Hok; assumption]).
      unfold starts_layout. cbn [encode]. rewrite <- !app_assoc. rewrite next_char_encode by now apply scalar_lt.
      intros [Hw|H35].
      * match goal with H : negb (is_whitespace c0) = true |- _ => apply negb_true_iff in H; congruence end.
      * subst c0. match goal with H : pn_chars_base 35 = true |- _ => vm_compute in H; discriminate H end.
  - subst b. apply Ascii; [lia|reflexivity|lia].
  - apply Ascii; [lia|destruct Hf as [-> | ->]; reflexivity|lia].
Qed.

Lemma term_skip : forall t w rest, term_okb t = true -> LayoutC w -> Valid rest -> skip_ws (w ++ term_text t ++ rest) = term_text t ++ rest.
Proof.
  intros t w rest Hok Hw Hr. apply skip_ws_closed; [assumption|apply valid_app; [now apply term_valid|assumption]|now apply term_not_layout].
Qed.

(* ---- scanners fail (with an ordinary error) on a foreign first character ------------------------------- *)
Lemma valid_high_head : forall b tl, Valid (b :: tl) -> 128 <= b -> exists c, next_char (b :: tl) = Some (c, len_utf8 c) /\ 128 <= c.
Proof.
  intros b tl Hv Hb. destruct (valid_next (b :: tl) Hv) as (c & Hc & Hn & _ & Hf); [discriminate|].
  exists c. split; [assumption|]. destruct (N.lt_ge_cases c 128) as [Hlt|]; [|assumption].
  rewrite encode_char_ascii, len_utf8_ascii in Hf by assumption. cbn [firstn] in Hf. apply cons_inj in Hf. destruct Hf. lia.
Qed.

Lemma variable_err_b : forall s b tl, Valid (b :: tl) -> skip_ws s = b :: tl -> b <> 63 -> b <> 36 -> is_err (variable s).
Proof.
  intros s b tl Hv E H1 H2. destruct (N.lt_ge_cases b 128) as [Hlt|Hge]; [now apply (variable_err s b tl)|].
  destruct (valid_high_head b tl Hv Hge) as (c & Hn & Hc). unfold variable. rewrite E, Hn.
  destruct (N.eqb_spec c 63); [lia|]. destruct (N.eqb_spec c 36); [lia|]. cbn [orb]. repeat eexists.
Qed.

Lemma numeric_err : forall s b tl, skip_ws s = b :: tl -> b <> 43 -> b <> 45 -> b <> 46 -> is_ascii_digit b = false -> is_err (numeric_literal s).
Proof.
  intros s b tl E H1 H2 H3 Hd. unfold numeric_literal. rewrite E. cbn [length].
  assert (B0 : byte_is (fun x => (x =? 43) || (x =? 45)) (b :: tl) 0 = false).
  { unfold byte_is. cbn [nth_error]. destruct (N.eqb_spec b 43); [lia|]. destruct (N.eqb_spec b 45); [lia|]. reflexivity. }
  rewrite B0. cbn [digits_from]. assert (B1 : byte_is is_ascii_digit (b :: tl) 0 = false) by (unfold byte_is; cbn [nth_error]; assumption).
  rewrite B1. assert (B2 : byte_is (fun x => x =? 46) (b :: tl) 0 = false) by (unfold byte_is; cbn [nth_error]; now apply N.eqb_neq).
  rewrite B2. cbn [andb Nat.sub Nat.eqb]. repeat eexists.
Qed.

Definition kw_hitb (kw x : str) : bool := prefix_nocase kw x && stopb name_stopP (skipn (length kw) x).

Lemma keyword_free_err : forall kw s x, ascii_str kw -> Valid x -> skip_ws s = x -> kw_hitb kw x = false -> is_err (keyword kw s).
Proof.
  intros kw s x Ha Hv E Hh. unfold keyword. rewrite E. unfold kw_hitb in Hh.
  destruct (prefix_nocase kw x) eqn:Ep; [|repeat eexists]. cbn [andb] in Hh.
  pose proof (asc_bnd _ _ Hv (prefix_nocase_asc _ _ Ha Ep)) as B. rewrite slice_from_bnd, slice_to_bnd by assumption. cbn [lift bind].
  unfold stopb, name_stopP in Hh. destruct (next_char (skipn (length kw) x)) as [[c n]|]; [|discriminate].
  apply negb_false_iff in Hh. rewrite Hh. repeat eexists.
Qed.

Lemma keyword_fail_b : forall kw k0 kw' s b tl, kw = k0 :: kw' -> k0 < 128 -> is_ascii_alpha k0 = true -> skip_ws s = b :: tl ->
  is_ascii_alpha b = false -> is_err (keyword kw s).
Proof.
  intros kw k0 kw' s b tl Ek Hk Hl E Hb. apply (keyword_fail kw k0 kw' s b tl Ek E).
  unfold ascii_lower, is_ascii_alpha, is_ascii_upper, is_ascii_lower in *. 
  destruct ((65 <=? b) && (b <=? 90)) eqn:E1; destruct ((65 <=? k0) && (k0 <=? 90)) eqn:E2; lia.
Qed.

(* ---- the term positions of the grammar ------------------------------------------------------------------ *)
Definition is_subject_kind (t : Term) : bool := match t with TVar _ _ | TIri _ | TPn _ _ | TBlank _ _ => true | _ => false end.
Definition is_predicate_kind (t : Term) : bool := match t with TVar _ _ | TIri _ | TPn _ _ => true | _ => false end.

(* a prefixed name must not be readable as a keyword followed by something else; as a predicate not as `a` *)
Definition kw_free_text (kws : list str) (x : str) : bool := forallb (fun kw => negb (kw_hitb kw x)) kws.
Definition a_hitb (x : str) : bool := starts_with [97] x && stopb name_stopP (skipn 1 x).

Lemma skip_head : forall t w rest, term_okb t = true -> LayoutC w -> Valid rest ->
  exists b tl, skip_ws (w ++ term_text t ++ rest) = b :: tl /\ term_text t ++ rest = b :: tl /\ head_fact t b /\ Valid (b :: tl).
Proof.
  intros t w rest Hok Hw Hr. destruct (term_head t Hok) as (b & tl & Et & Hf). exists b, (tl ++ rest).
  rewrite (term_skip t w rest Hok Hw Hr), Et. repeat split; try assumption.
  change (b :: tl ++ rest) with ((b :: tl) ++ rest). rewrite <- Et. apply valid_app; [now apply term_valid|assumption].
Qed.

Lemma valid_all : forall t w rest, term_okb t = true -> LayoutC w -> Valid rest -> Valid (w ++ term_text t ++ rest).
Proof. intros. apply valid_app; [now apply layoutC_valid|apply valid_app; [now apply term_valid|assumption]]. Qed.

Lemma iri_term_second : forall items rest, forallb iri_item_okb items = true ->
  match (iri_body items ++ [62]) ++ rest with b :: _ => b <> 60 | [] => True end.
Proof. intros. apply iri_second_not_lt. now apply iri_items_ok. Qed.

Theorem subject_ok : forall f t w rest, term_okb t = true -> is_subject_kind t = true -> term_stopb t rest = true ->
  LayoutC w -> Valid rest -> subject_term (S f) (w ++ term_text t ++ rest) = Ok (term_text t, rest).
Proof.
  intros f t w rest Hok Hk Hst Hw Hr. pose proof (term_scan_ok t w rest Hok Hst Hw Hr) as Sc.
  destruct (skip_head t w rest Hok Hw Hr) as (b & tl & Esk & Etx & Hf & Vx). pose proof (valid_all t w rest Hok Hw Hr) as Vall.
  unfold subject_term, subject_term_with, alt. cbn [alt_from].
  destruct t as [sigil cs|items|q items|sign ds1 frac|p items|c0 cs|bb]; try discriminate Hk; cbn [head_fact term_scan] in *.
  - alt_skip (quoted_triple_err f _ _ _ Vall Esk ltac:(lia)). now rewrite Sc.
  - subst b. cbn [term_text app] in Etx. injection Etx as Etl.
    assert (H2 : match tl with x :: _ => x <> 60 | [] => True end) by (rewrite <- Etl; now apply iri_term_second).
    alt_skip (quoted_triple_err2 f _ _ Vall Esk H2).
    alt_skip (variable_err_b _ _ _ Vx Esk ltac:(lia) ltac:(lia)). now rewrite Sc.
  - assert (Hb : b <> 60 /\ b <> 63 /\ b <> 36 /\ b <> 95) by (unfold is_ascii_alpha, is_ascii_upper, is_ascii_lower in Hf; lia).
    alt_skip (quoted_triple_err f _ _ _ Vall Esk ltac:(lia)).
    alt_skip (variable_err_b _ _ _ Vx Esk ltac:(lia) ltac:(lia)).
    alt_skip (iri_err _ _ _ Esk ltac:(lia)).
    alt_skip (blank_node_err _ _ _ Esk ltac:(lia)). now rewrite Sc.
  - subst b.
    alt_skip (quoted_triple_err f _ _ _ Vall Esk ltac:(lia)).
    alt_skip (variable_err_b _ _ _ Vx Esk ltac:(lia) ltac:(lia)).
    alt_skip (iri_err _ _ _ Esk ltac:(lia)). now rewrite Sc.
Qed.

Theorem predicate_ok : forall t w rest, term_okb t = true -> is_predicate_kind t = true -> term_stopb t rest = true ->
  a_hitb (term_text t ++ rest) = false -> LayoutC w -> Valid rest ->
  predicate_term (w ++ term_text t ++ rest) = Ok (term_text t, rest).
Proof.
  intros t w rest Hok Hk Hst Ha Hw Hr. pose proof (term_scan_ok t w rest Hok Hst Hw Hr) as Sc.
  destruct (skip_head t w rest Hok Hw Hr) as (b & tl & Esk & Etx & Hf & Vx).
  unfold predicate_term.
  destruct t as [sigil cs|items|q items|sign ds1 frac|p items|c0 cs|bb]; try discriminate Hk; cbn [head_fact term_scan] in *.
  - now rewrite Sc.
  - subst b. alt_skip (variable_err_b _ _ _ Vx Esk ltac:(lia) ltac:(lia)). cbn [orelse]. now rewrite Sc.
  - assert (Hb : b <> 60 /\ b <> 63 /\ b <> 36) by (unfold is_ascii_alpha, is_ascii_upper, is_ascii_lower in Hf; lia).
    alt_skip (variable_err_b _ _ _ Vx Esk ltac:(lia) ltac:(lia)). cbn [orelse].
    alt_skip (iri_err _ _ _ Esk ltac:(lia)). cbn [orelse]. rewrite Esk.
    unfold a_hitb in Ha. rewrite Etx in Ha. unfold strip_prefix. destruct (starts_with [97] (b :: tl)) eqn:Es; [|exact Sc].
    cbn [andb length] in Ha. cbn [length]. unfold stopb, name_stopP in Ha. destruct (next_char (skipn 1 (b :: tl))) as [[c n]|]; [|discriminate].
    apply negb_false_iff in Ha. rewrite Ha. exact Sc.
Qed.

(* the keyword `a` in predicate position *)
Theorem predicate_a_ok : forall w rest, LayoutC w -> Valid rest -> stopb name_stopP rest = true ->
  predicate_term (w ++ [97] ++ rest) = Ok ([97], rest).
Proof.
  intros w rest Hw Hr Hst.
  assert (Va : Valid (97 :: rest)) by (apply (valid_app [97]); [apply valid_ascii; repeat constructor; lia|assumption]).
  assert (Esk : skip_ws (w ++ [97] ++ rest) = 97 :: rest).
  { apply skip_ws_closed; [assumption|assumption|apply ascii_head_not_layout; [lia|reflexivity|lia]]. }
  unfold predicate_term.
  alt_skip (variable_err_b _ _ _ Va Esk ltac:(lia) ltac:(lia)). cbn [orelse].
  alt_skip (iri_err _ _ _ Esk ltac:(lia)). cbn [orelse]. rewrite Esk.
  change (strip_prefix [97] (97 :: rest)) with (Some rest).
  unfold stopb, name_stopP in Hst. 
  assert (Hn : match next_char rest with Some (c, _) => name_character c | None => false end = false).
  { destruct (next_char rest) as [[c n]|]; [now apply negb_true_iff in Hst|reflexivity]. }
  cbv beta iota zeta. rewrite Hn. rewrite slice_to_bnd by (apply (valid_app_bnd [97]); [apply valid_ascii; repeat constructor; lia|assumption]). reflexivity.
Qed.

Definition object_kw_ok (t : Term) (rest : str) : bool :=
  match t with TPn _ _ => kw_free_text [kw_true; kw_false] (term_text t ++ rest) | _ => true end.

Theorem object_ok : forall f t w rest, term_okb t = true -> term_stopb t rest = true -> object_kw_ok t rest = true ->
  LayoutC w -> Valid rest -> object_term (S f) (w ++ term_text t ++ rest) = Ok (term_text t, rest).
Proof.
  intros f t w rest Hok Hst Hkw Hw Hr. pose proof (term_scan_ok t w rest Hok Hst Hw Hr) as Sc.
  destruct (skip_head t w rest Hok Hw Hr) as (b & tl & Esk & Etx & Hf & Vx). pose proof (valid_all t w rest Hok Hw Hr) as Vall.
  unfold object_term, object_term_with, alt. cbn [alt_from].
  destruct t as [sigil cs|items|q items|sign ds1 frac|p items|c0 cs|bb]; cbn [head_fact term_scan] in *.
  - alt_skip (quoted_triple_err f _ _ _ Vall Esk ltac:(lia)). now rewrite Sc.
  - subst b. cbn [term_text app] in Etx. injection Etx as Etl.
    assert (H2 : match tl with x :: _ => x <> 60 | [] => True end) by (rewrite <- Etl; now apply iri_term_second).
    alt_skip (quoted_triple_err2 f _ _ Vall Esk H2).
    alt_skip (variable_err_b _ _ _ Vx Esk ltac:(lia) ltac:(lia)). now rewrite Sc.
  - alt_skip (quoted_triple_err f _ _ _ Vall Esk ltac:(lia)).
    alt_skip (variable_err_b _ _ _ Vx Esk ltac:(lia) ltac:(lia)).
    alt_skip (iri_err _ _ _ Esk ltac:(lia)).
    alt_skip (blank_node_err _ _ _ Esk ltac:(lia)). now rewrite Sc.
  - assert (Hb : b <> 60 /\ b <> 63 /\ b <> 36 /\ b <> 95 /\ b <> 39 /\ b <> 34) by (unfold is_ascii_digit in Hf; lia).
    alt_skip (quoted_triple_err f _ _ _ Vall Esk ltac:(lia)).
    alt_skip (variable_err_b _ _ _ Vx Esk ltac:(lia) ltac:(lia)).
    alt_skip (iri_err _ _ _ Esk ltac:(lia)).
    alt_skip (blank_node_err _ _ _ Esk ltac:(lia)).
    alt_skip (quoted_literal_err _ _ _ Esk ltac:(lia) ltac:(lia)). now rewrite Sc.
  - assert (Hb : b <> 60 /\ b <> 63 /\ b <> 36 /\ b <> 95 /\ b <> 39 /\ b <> 34 /\ b <> 43 /\ b <> 45 /\ b <> 46 /\ is_ascii_digit b = false)
      by (unfold is_ascii_alpha, is_ascii_upper, is_ascii_lower, is_ascii_digit in *; lia).
    alt_skip (quoted_triple_err f _ _ _ Vall Esk ltac:(lia)).
    alt_skip (variable_err_b _ _ _ Vx Esk ltac:(lia) ltac:(lia)).
    alt_skip (iri_err _ _ _ Esk ltac:(lia)).
    alt_skip (blank_node_err _ _ _ Esk ltac:(lia)).
    alt_skip (quoted_literal_err _ _ _ Esk ltac:(lia) ltac:(lia)).
    alt_skip (numeric_err _ _ _ Esk ltac:(lia) ltac:(lia) ltac:(lia) ltac:(tauto)).
    cbn [object_kw_ok kw_free_text forallb] in Hkw. rewrite Etx in Hkw. repeat (apply andb_true_iff in Hkw; destruct Hkw as [Hkw ?]).
    apply negb_true_iff in Hkw. rewrite andb_true_r in H. apply negb_true_iff in H.
    alt_skip (keyword_free_err kw_true _ (b :: tl) ltac:(kw_a) Vx Esk Hkw).
    alt_skip (keyword_free_err kw_false _ (b :: tl) ltac:(kw_a) Vx Esk H). now rewrite Sc.
  - subst b.
    alt_skip (quoted_triple_err f _ _ _ Vall Esk ltac:(lia)).
    alt_skip (variable_err_b _ _ _ Vx Esk ltac:(lia) ltac:(lia)).
    alt_skip (iri_err _ _ _ Esk ltac:(lia)).
    (* blank node: accepted by the fourth alternative *)
    now rewrite Sc.
  - assert (Hb : b <> 60 /\ b <> 63 /\ b <> 36 /\ b <> 95 /\ b <> 39 /\ b <> 34 /\ b <> 43 /\ b <> 45 /\ b <> 46 /\ is_ascii_digit b = false)
      by (unfold is_ascii_digit; lia).
    alt_skip (quoted_triple_err f _ _ _ Vall Esk ltac:(lia)).
    alt_skip (variable_err_b _ _ _ Vx Esk ltac:(lia) ltac:(lia)).
    alt_skip (iri_err _ _ _ Esk ltac:(lia)).
    alt_skip (blank_node_err _ _ _ Esk ltac:(lia)).
    alt_skip (quoted_literal_err _ _ _ Esk ltac:(lia) ltac:(lia)).
    alt_skip (numeric_err _ _ _ Esk ltac:(lia) ltac:(lia) ltac:(lia) ltac:(tauto)).
    destruct bb; cbn [term_scan] in Sc.
    + now rewrite Sc.
    + assert (b = 102) by (cbn [term_text] in Etx; cbn in Etx; congruence). subst b.
      alt_skip (keyword_fail kw_true _ _ _ 102 tl eq_refl Esk ltac:(cbv; discriminate)). now rewrite Sc.
Qed.
