(* C16 deepening (6, for printed requests): the fuel measures `sz_*` are bounded by three times the length of the printed
   text, so the fuel of Run.v (`default_fuel` = 8 * length + 64) always suffices for a printed request. *)
Require Import List NArith Bool PeanoNat Lia ZifyBool ZifyN.
Require Import KV.Parser.Utf8 KV.Parser.Unicode KV.Parser.Keywords KV.Parser.Scanners KV.Parser.Grammar KV.Parser.Run.
Require Import KV.Parser.Utf8Proofs KV.Parser.ScannerProofs KV.Parser.GrammarProofs.
Require Import KV.Parser.RoundTrip KV.Parser.RoundTrip2 KV.Parser.RoundTrip3 KV.Parser.Lex KV.Parser.StmtRT KV.Parser.FilterRT KV.Parser.FilterRT2
               KV.Parser.SelectRT KV.Parser.BindRT KV.Parser.ValuesRT KV.Parser.GroupRT KV.Parser.PrologueRT KV.Parser.TopRT.
Import ListNotations.
Open Scope N_scope.

Lemma tok_nonempty : forall t l, term_okb t = true -> (1 <= length (lay_bytes l ++ term_text t))%nat.
Proof. intros t l H. destruct (term_head t H) as (b & tl & E & _). rewrite app_length, E. cbn [length]. lia. Qed.

Lemma arith_size :
  (forall o f, wf_opnd o f = true -> (sz_opnd o + 2 <= 3 * length (pr_opnd o))%nat) /\
  (forall s f, wf_sum s f = true -> (sz_sum s <= 3 * length (pr_sum s))%nat) /\
  (forall p f, wf_prod p f = true -> (sz_prod p + 1 <= 3 * length (pr_prod p))%nat).
Proof.
  apply arith_mutind; cbn [wf_opnd wf_sum wf_prod pr_opnd pr_sum pr_prod sz_opnd sz_sum sz_prod].
  - intros t f H. unfold wf_opnd_tok in H. repeat (apply andb_true_iff in H; destruct H as [H ?]).
    match goal with X : term_okb _ = true |- _ => pose proof (tok_nonempty _ (olay t) X) end. unfold pr_o. lia.
  - intros l s IH r f H. repeat (apply andb_true_iff in H; destruct H as [H ?]).
    match goal with X : wf_sum s _ = true |- _ => specialize (IH _ X) end. repeat first [rewrite app_length | progress cbn [length]]. lia.
  - intros p IH f H. specialize (IH _ H). lia.
  - intros s IHs l op p IHp f H. repeat (apply andb_true_iff in H; destruct H as [H ?]).
    match goal with X : wf_sum s _ = true |- _ => specialize (IHs _ X) end. match goal with X : wf_prod p _ = true |- _ => specialize (IHp _ X) end.
    repeat first [rewrite app_length | progress cbn [length]]. lia.
  - intros o IH f H. specialize (IH _ H). lia.
  - intros p IHp l op o IHo f H. repeat (apply andb_true_iff in H; destruct H as [H ?]).
    match goal with X : wf_prod p _ = true |- _ => specialize (IHp _ X) end. match goal with X : wf_opnd o _ = true |- _ => specialize (IHo _ X) end.
    repeat first [rewrite app_length | progress cbn [length]]. lia.
Qed.

Lemma bool_size :
  (forall a f, wf_atom a f = true -> (sz_atom a <= 3 * length (pr_atom a) + 2)%nat) /\
  (forall x f, wf_and x f = true -> (sz_and x <= 3 * length (pr_and x) + 3)%nat) /\
  (forall o f, wf_or o f = true -> (sz_or o <= 3 * length (pr_or o) + 4)%nat).
Proof.
  apply bool_mutind; cbn [wf_atom wf_and wf_or pr_atom pr_and pr_or sz_atom sz_and sz_or].
  - intros l a IH f H. apply andb_true_iff in H. destruct H as [_ H]. specialize (IH _ H). repeat first [rewrite app_length | progress cbn [length]]. lia.
  - intros kl fn kwtxt lp a1 amore rp f H. pose proof (oms_length amore). repeat first [rewrite app_length | progress cbn [length]]. lia.
  - intros s1 ol op s2 f H. repeat (apply andb_true_iff in H; destruct H as [H ?]).
    match goal with X : wf_sum s2 _ = true |- _ => pose proof (proj1 (proj2 arith_size) _ _ X) end. pose proof (proj1 (proj2 arith_size) _ _ H).
    repeat first [rewrite app_length | progress cbn [length]]. lia.
  - intros s f H. repeat (apply andb_true_iff in H; destruct H as [H ?]). pose proof (proj1 (proj2 arith_size) _ _ H). lia.
  - intros l e IH r f H. repeat (apply andb_true_iff in H; destruct H as [H ?]).
    match goal with X : wf_or e _ = true |- _ => specialize (IH _ X) end. repeat first [rewrite app_length | progress cbn [length]]. lia.
  - intros a IH f H. specialize (IH _ H). lia.
  - intros x IHx l a IHa f H. repeat (apply andb_true_iff in H; destruct H as [H ?]).
    match goal with X : wf_and x _ = true |- _ => specialize (IHx _ X) end. match goal with X : wf_atom a _ = true |- _ => specialize (IHa _ X) end.
    repeat first [rewrite app_length | progress cbn [length]]. lia.
  - intros x IH f H. specialize (IH _ H). lia.
  - intros o IHo l x IHx f H. repeat (apply andb_true_iff in H; destruct H as [H ?]).
    match goal with X : wf_or o _ = true |- _ => specialize (IHo _ X) end. match goal with X : wf_and x _ = true |- _ => specialize (IHx _ X) end.
    repeat first [rewrite app_length | progress cbn [length]]. lia.
Qed.

Lemma stmt_nonempty : forall st f, wf_stmt st f = true -> (1 <= length (pr_stmt st))%nat.
Proof.
  intros st f H. destruct (stmt_unlay_wf st f H) as (_ & _ & Ht). unfold pr_stmt, pr_o. pose proof (tok_nonempty _ (olay (sj st)) Ht). rewrite !app_length in *. lia.
Qed.

Lemma group_size :
  (forall it f, wf_item it f = true -> (sz_item it + 1 <= 3 * length (pr_item it))%nat) /\
  (forall a f, wf_alts a f = true -> (sz_alts a <= 3 * length (pr_alts a) + 1)%nat) /\
  (forall b f, wf_brc b f = true -> (sz_brc b + 3 <= 3 * length (pr_brc b))%nat) /\
  (forall p f, wf_grp p f = true -> (sz_grp p + 4 <= 3 * length (pr_grp p))%nat) /\
  (forall its f, wf_items its f = true -> (sz_items its <= 3 * length (pr_items its) + 1)%nat) /\
  (forall q f, (exists allow, wf_sel q allow f = true) -> (sz_sel q + 3 <= 3 * length (pr_sel q))%nat).
Proof.
  apply group_mutind; cbn [wf_item wf_alts wf_brc wf_grp wf_items pr_item pr_alts pr_brc pr_grp pr_items sz_item sz_alts sz_brc sz_grp sz_items].
  - intros st d f H. cbv zeta in H. do 5 (apply andb_true_iff in H; destruct H as [H _]). pose proof (stmt_nonempty _ _ H). rewrite app_length. lia.
  - intros fl f H. unfold wf_filter in H. do 3 (apply andb_true_iff in H; destruct H as [H ?]). apply andb_true_iff in H. destruct H as [_ Hk].
    match goal with X : wf_or _ _ = true |- _ => pose proof (proj2 (proj2 bool_size) _ _ X) end. apply kwcase_len in Hk. change (length kw_filter) with 6%nat in Hk.
    unfold pr_filter. repeat first [rewrite app_length | progress cbn [length]]. lia.
  - intros b f H. unfold wf_bind in H. do 12 (apply andb_true_iff in H; destruct H as [H _]). apply andb_true_iff in H. destruct H as [_ Hk].
    apply kwcase_len in Hk. change (length kw_bind) with 4%nat in Hk. unfold pr_bind. repeat first [rewrite app_length | progress cbn [length]]. lia.
  - intros c f H. unfold wf_values in H. cbv zeta in H. do 4 (apply andb_true_iff in H; destruct H as [H _]).
    unfold wf_kw in H. apply andb_true_iff in H. destruct H as [H _]. apply andb_true_iff in H. destruct H as [_ Hk].
    apply kwcase_len in Hk. change (length kw_values) with 6%nat in Hk. unfold pr_values. repeat first [rewrite app_length | progress cbn [length]]. lia.
  - intros kl kw name p IH d f H. cbv zeta in H. apply andb_true_iff in H. destruct H as [H _]. apply andb_true_iff in H. destruct H as [_ Hp].
    specialize (IH _ Hp). repeat first [rewrite app_length | progress cbn [length]]. lia.
  - intros b IHb more IHm d f H. cbv zeta in H. apply andb_true_iff in H. destruct H as [H _]. apply andb_true_iff in H. destruct H as [Hb Hm].
    specialize (IHb _ Hb). specialize (IHm _ Hm). repeat first [rewrite app_length | progress cbn [length]]. lia.
  - intros f _. cbn. lia.
  - intros ul ukw b IHb more IHm f H. apply andb_true_iff in H. destruct H as [H Hm]. apply andb_true_iff in H. destruct H as [_ Hb].
    specialize (IHb _ Hb). specialize (IHm _ Hm). repeat first [rewrite app_length | progress cbn [length]]. lia.
  - intros p IH f H. apply andb_true_iff in H. destruct H as [H _]. specialize (IH _ H). lia.
  - intros l q IH r f H. apply andb_true_iff in H. destruct H as [_ Hq]. specialize (IH _ (ex_intro _ false Hq)).
    repeat first [rewrite app_length | progress cbn [length]]. lia.
  - intros l its IH r f H. apply andb_true_iff in H. destruct H as [_ Hi]. specialize (IH _ Hi). repeat first [rewrite app_length | progress cbn [length]]. lia.
  - intros f _. cbn. lia.
  - intros it IHi its IHs f H. apply andb_true_iff in H. destruct H as [H1 H2]. specialize (IHi _ H1). specialize (IHs _ H2). rewrite app_length. lia.
  - intros sl skw dist proj froms wh p IH gb ob lm f [allow H]. cbn [wf_sel pr_sel sz_sel] in *. cbv zeta in H.
    do 3 (apply andb_true_iff in H; destruct H as [H _]). apply andb_true_iff in H. destruct H as [_ Hp]. specialize (IH _ Hp).
    repeat first [rewrite app_length | progress cbn [length]]. lia.
Qed.

Lemma sel_size : forall q allow f, wf_sel q allow f = true -> (sz_sel q <= 3 * length (pr_sel q))%nat.
Proof. intros q allow f H. pose proof (proj2 (proj2 (proj2 (proj2 (proj2 group_size)))) q f (ex_intro _ allow H)). lia. Qed.

(* the whole request with the fuel the check uses *)
Theorem query_roundtrip_default : forall ps q e aliases, forallb wf_prefix ps = true -> wf_sel q true (pr_end e) = true -> wf_end e = true ->
  let text := pr_prologue ps ++ pr_sel q ++ pr_end e in
  parse_sparql_query (default_fuel text) text = Ok (tr_sel q) /\
  parse_top (default_fuel text) aliases text = Ok (TSelect (tr_prologue ps []) (tr_sel q)).
Proof.
  intros ps q e aliases Hps H He text.
  assert (Hf : (sz_sel q <= default_fuel text)%nat).
  { pose proof (sel_size q true _ H). unfold default_fuel, text. rewrite !app_length. lia. }
  split; [now apply query_roundtrip|now apply top_select_roundtrip].
Qed.
