(* C16 deepening (2)+(3): group graph patterns (statements with optional `.`, FILTER, BIND, VALUES, GRAPH, `{}` UNION chains, sub-select)
   and SELECT, mutually recursive - layout-annotated syntax trees, printer, source tree, well-formedness, sizes. *)
Require Import List NArith Bool PeanoNat Lia ZifyBool ZifyN.
Require Import KV.Parser.Utf8 KV.Parser.Unicode KV.Parser.Keywords KV.Parser.Scanners KV.Parser.Grammar.
Require Import KV.Parser.Utf8Proofs KV.Parser.ScannerProofs KV.Parser.GrammarProofs.
Require Import KV.Parser.RoundTrip KV.Parser.RoundTrip2 KV.Parser.RoundTrip3 KV.Parser.Lex KV.Parser.StmtRT KV.Parser.FilterRT KV.Parser.FilterRT2 KV.Parser.SelectRT KV.Parser.BindRT KV.Parser.ValuesRT.
Import ListNotations.
Open Scope N_scope.

Inductive Item : Type :=
| ItStmt (st : Stmt) (dot : option L)
| ItFilter (f : FilterC)
| ItBind (b : BindC)
| ItValues (c : ValuesC)
| ItGraph (kl : L) (kw : str) (name : OTok) (p : Grp) (dot : option L)
| ItAlts (b : Brc) (more : Alts) (dot : option L)
with Alts : Type :=
| AltNil
| AltCons (ul : L) (ukw : str) (b : Brc) (more : Alts)
with Brc : Type :=
| BrGroup (p : Grp)
| BrSub (l : L) (q : Sel) (r : L)
with Grp : Type :=
| MkGrp (l : L) (items : Items) (r : L)
with Items : Type :=
| ItNil
| ItCons (it : Item) (its : Items)
with Sel : Type :=
| MkSel (sl : L) (skw : str) (dist : option (L * str)) (proj : Proj) (froms : list FromC) (wh : option (L * str))
        (p : Grp) (gb : option GroupByC) (ob : option OrderByC) (lm : option LimitC).

Scheme item_ind6 := Induction for Item Sort Prop
with alts_ind6 := Induction for Alts Sort Prop
with brc_ind6 := Induction for Brc Sort Prop
with grp_ind6 := Induction for Grp Sort Prop
with items_ind6 := Induction for Items Sort Prop
with sel_ind6 := Induction for Sel Sort Prop.
Combined Scheme group_mutind from item_ind6, alts_ind6, brc_ind6, grp_ind6, items_ind6, sel_ind6.

Definition pr_dot (d : option L) : str := match d with Some l => lay_bytes l ++ [46] | None => [] end.

Fixpoint pr_item (it : Item) : str :=
  match it with
  | ItStmt st d => pr_stmt st ++ pr_dot d
  | ItFilter f => pr_filter f
  | ItBind b => pr_bind b
  | ItValues c => pr_values c
  | ItGraph kl kw name p d => lay_bytes kl ++ kw ++ pr_o name ++ pr_grp p ++ pr_dot d
  | ItAlts b more d => pr_brc b ++ pr_alts more ++ pr_dot d
  end
with pr_alts (a : Alts) : str :=
  match a with
  | AltNil => []
  | AltCons ul ukw b more => lay_bytes ul ++ ukw ++ pr_brc b ++ pr_alts more
  end
with pr_brc (b : Brc) : str :=
  match b with
  | BrGroup p => pr_grp p
  | BrSub l q r => lay_bytes l ++ 123 :: pr_sel q ++ lay_bytes r ++ [125]
  end
with pr_grp (p : Grp) : str :=
  match p with MkGrp l its r => lay_bytes l ++ 123 :: pr_items its ++ lay_bytes r ++ [125] end
with pr_items (its : Items) : str :=
  match its with ItNil => [] | ItCons it t => pr_item it ++ pr_items t end
with pr_sel (q : Sel) : str :=
  match q with
  | MkSel sl skw dist proj froms wh p gb ob lm =>
      lay_bytes sl ++ skw ++ pr_optkw dist ++ pr_proj proj ++ pr_froms froms ++ pr_optkw wh ++ pr_grp p ++ pr_gbo gb ++ pr_obo ob ++ pr_lmo lm
  end.

Definition alts_tree (l : list group) : group := match l with [g] => g | _ => GUnion l end.

Fixpoint tr_item (it : Item) : group :=
  match it with
  | ItStmt st _ => GBgp (stmt_triples st)
  | ItFilter f => GFilter (tr_or (fl_e f))
  | ItBind b => tr_bind b
  | ItValues c => tr_values c
  | ItGraph _ _ name p _ => GGraph (term_text (oterm name)) (tr_grp p)
  | ItAlts b more _ => alts_tree (tr_brc b :: tr_alts more)
  end
with tr_alts (a : Alts) : list group :=
  match a with AltNil => [] | AltCons _ _ b more => tr_brc b :: tr_alts more end
with tr_brc (b : Brc) : group :=
  match b with BrGroup p => tr_grp p | BrSub _ q _ => GSub (tr_sel q) end
with tr_grp (p : Grp) : group :=
  match p with MkGrp _ its _ => join_of (tr_items its) end
with tr_items (its : Items) : list group :=
  match its with ItNil => [] | ItCons it t => tr_item it :: tr_items t end
with tr_sel (q : Sel) : select :=
  match q with
  | MkSel _ _ dist proj froms _ p gb ob lm =>
      Select (optkw_present dist) (tr_proj proj) (from_plain froms) (from_named froms) (tr_grp p) (tr_gbo gb) (tr_obo ob) (tr_lmo lm)
  end.

Fixpoint sz_item (it : Item) : nat :=
  match it with
  | ItStmt _ _ => 1%nat
  | ItFilter f => sz_or (fl_e f)
  | ItBind _ => 1%nat
  | ItValues _ => 1%nat
  | ItGraph _ _ _ p _ => S (sz_grp p)
  | ItAlts b more _ => (sz_brc b + sz_alts more)%nat
  end
with sz_alts (a : Alts) : nat :=
  match a with AltNil => 1%nat | AltCons _ _ b more => S (sz_brc b + sz_alts more) end
with sz_brc (b : Brc) : nat :=
  match b with BrGroup p => S (sz_grp p) | BrSub _ q _ => S (sz_sel q) end
with sz_grp (p : Grp) : nat :=
  match p with MkGrp _ its _ => S (sz_items its) end
with sz_items (its : Items) : nat :=
  match its with ItNil => 1%nat | ItCons it t => S (sz_item it + sz_items t) end
with sz_sel (q : Sel) : nat :=
  match q with MkSel _ _ _ _ _ _ p _ _ _ => S (sz_grp p) end.

(* ---- well-formedness relative to the following text ----------------------------------------------------------------- *)
Definition wf_dot (d : option L) : bool := match d with Some l => lay_okb l | None => true end.
(* after an item: no UNION keyword, and a `.` only if the item prints one *)
Definition item_end (d : option L) (following : str) : bool :=
  wf_dot d && kwfree [kw_union] (pr_dot d ++ following) && match d with Some _ => true | None => nolead 46 following end.
Definition is_gname_kind (t : Term) : bool := match t with TVar _ _ | TIri _ | TPn _ _ => true | _ => false end.
Definition wf_gname (g : OTok) (following : str) : bool :=
  lay_okb (olay g) && term_okb (oterm g) && is_gname_kind (oterm g) && term_stopb (oterm g) following.
(* how a statement ends inside a group *)
Definition stmt_endb (st : Stmt) (x : str) : bool :=
  match trail st with
  | None => nolead 44 x && nolead 59 x
  | Some _ => starts_with [46] x || starts_with [125] x
  end.
Definition sel_rest (ob : option OrderByC) (lm : option LimitC) (x : str) : str :=
  match ob, lm with Some _, None => skip_ws x | _, _ => x end.
Definition no_froms (froms : list FromC) : bool := match froms with [] => true | _ => false end.

Fixpoint wf_item (it : Item) (following : str) : bool :=
  match it with
  | ItStmt st d =>
      let x := pr_dot d ++ following in
      wf_stmt st x && stmt_endb st x && item_end d following
      && kwfree [kw_filter; kw_bind; kw_values; kw_graph] (pr_stmt st ++ x) && nolead 125 (pr_stmt st ++ x) && nolead 123 (pr_stmt st ++ x)
  | ItFilter f => wf_filter f following
  | ItBind b => wf_bind b following
  | ItValues c => wf_values c following
  | ItGraph kl kw name p d =>
      let x := pr_dot d ++ following in
      wf_kw kw_graph kw kl (pr_o name ++ pr_grp p ++ x) && wf_gname name (pr_grp p ++ x) && wf_grp p x && item_end d following
  | ItAlts b more d =>
      let x := pr_dot d ++ following in
      wf_brc b (pr_alts more ++ x) && wf_alts more x && item_end d following
  end
with wf_alts (a : Alts) (following : str) : bool :=
  match a with
  | AltNil => true
  | AltCons ul ukw b more =>
      wf_kw kw_union ukw ul (pr_brc b ++ pr_alts more ++ following) && wf_brc b (pr_alts more ++ following) && wf_alts more following
  end
with wf_brc (b : Brc) (following : str) : bool :=
  match b with
  | BrGroup p =>
      wf_grp p following
      && match p with MkGrp _ its r => kwfree [kw_select] (pr_items its ++ lay_bytes r ++ 125 :: following) end
  | BrSub l q r => lay_okb l && lay_okb r && wf_sel q false (lay_bytes r ++ 125 :: following)
  end
with wf_grp (p : Grp) (following : str) : bool :=
  match p with MkGrp l its r => lay_okb l && lay_okb r && wf_items its (lay_bytes r ++ 125 :: following) end
with wf_items (its : Items) (following : str) : bool :=
  match its with
  | ItNil => true
  | ItCons it t => wf_item it (pr_items t ++ following) && wf_items t following
  end
with wf_sel (q : Sel) (allow_dataset : bool) (following : str) : bool :=
  match q with
  | MkSel sl skw dist proj froms wh p gb ob lm =>
      let x6 := pr_lmo lm ++ following in
      let x5 := pr_obo ob ++ x6 in
      let x4 := pr_gbo gb ++ x5 in
      let x3 := pr_grp p ++ x4 in
      let x2 := pr_optkw wh ++ x3 in
      let x1 := pr_froms froms ++ x2 in
      let x0 := pr_proj proj ++ x1 in
      wf_kw kw_select skw sl (pr_optkw dist ++ x0) && wf_optkw kw_distinct dist x0 && wf_proj proj x1
      && (if allow_dataset then wf_froms froms x2 && kwfree [kw_from] x2 else no_froms froms)
      && wf_optkw kw_where wh x3 && wf_grp p x4 && wf_gbo gb x5 && wf_obo ob x6 && wf_lmo lm following
  end.

(* ---- validity of the printed text ------------------------------------------------------------------------------------ *)
Lemma stmt_valid : forall st f, wf_stmt st f = true -> Valid (pr_stmt st).
Proof.
  intros st f H. unfold wf_stmt in H. cbv zeta in H.
  apply andb_true_iff in H. destruct H as [H Ht]. apply andb_true_iff in H. destruct H as [H Hm]. apply andb_true_iff in H. destruct H as [Hs Hg].
  unfold pr_stmt. apply valid_app.
  - unfold wf_subject in Hs. repeat (apply andb_true_iff in Hs; destruct Hs as [Hs ?]). unfold pr_o. apply valid_app; [now apply lay_valid|now apply term_valid].
  - apply valid_app; [eapply pr_g_valid; eassumption|]. apply valid_app; [eapply pr_pms_valid; eassumption|now apply pr_trail_valid].
Qed.
Lemma dot_valid : forall d, wf_dot d = true -> Valid (pr_dot d).
Proof. intros [l|] H; [|apply valid_nil]. cbn [pr_dot wf_dot] in *. apply valid_app; [now apply lay_valid|apply valid_ascii; repeat constructor; lia]. Qed.
Lemma item_end_dot : forall d f, item_end d f = true -> wf_dot d = true.
Proof. intros d f H. unfold item_end in H. apply andb_true_iff in H. destruct H as [H _]. apply andb_true_iff in H. now destruct H. Qed.
Lemma gname_valid : forall g f, wf_gname g f = true -> Valid (pr_o g).
Proof.
  intros g f H. unfold wf_gname in H. repeat (apply andb_true_iff in H; destruct H as [H ?]).
  unfold pr_o. apply valid_app; [now apply lay_valid|now apply term_valid].
Qed.
Lemma filter_valid : forall f x, wf_filter f x = true -> Valid (pr_filter f).
Proof.
  intros [kl kw lp e rp] x H. unfold wf_filter, pr_filter in *. cbn [fl_kl fl_kw fl_lp fl_e fl_rp] in *.
  repeat (apply andb_true_iff in H; destruct H as [H ?]).
  apply valid_app; [now apply lay_valid|]. apply valid_app; [eapply (kw_valid kw_filter); [kw_a|eassumption]|].
  apply valid_app; [now apply lay_valid|]. apply v1; [lia|]. apply valid_app; [eapply (proj2 (proj2 atom_valid_mut)); eassumption|].
  apply valid_app; [now apply lay_valid|apply valid_ascii; repeat constructor; lia].
Qed.

Lemma group_valid :
  (forall it f, wf_item it f = true -> Valid (pr_item it)) /\
  (forall a f, wf_alts a f = true -> Valid (pr_alts a)) /\
  (forall b f, wf_brc b f = true -> Valid (pr_brc b)) /\
  (forall p f, wf_grp p f = true -> Valid (pr_grp p)) /\
  (forall its f, wf_items its f = true -> Valid (pr_items its)) /\
  (forall q f, (exists allow, wf_sel q allow f = true) -> Valid (pr_sel q)).
Proof.
  apply group_mutind.
  - intros st d f H. cbn [wf_item pr_item] in *. cbv zeta in H. do 3 (apply andb_true_iff in H; destruct H as [H _]).
    apply andb_true_iff in H. destruct H as [H He]. apply andb_true_iff in H. destruct H as [H _]. apply item_end_dot in He.
    apply valid_app; [eapply stmt_valid; eassumption|now apply dot_valid].
  - intros fl f H. cbn [wf_item pr_item] in *. eapply filter_valid; eassumption.
  - intros b f H. cbn [wf_item pr_item] in *. exact (proj1 (bind_parts_valid b f H)).
  - intros c f H. cbn [wf_item pr_item] in *. eapply values_valid; eassumption.
  - intros kl kw name p IH d f H. cbn [wf_item pr_item] in *. cbv zeta in H.
    apply andb_true_iff in H. destruct H as [H He]. apply andb_true_iff in H. destruct H as [H Hp]. apply andb_true_iff in H. destruct H as [Hk Hn].
    rewrite app_assoc. apply valid_app; [eapply wf_kw_valid; [|eassumption]; kw_a|].
    apply valid_app; [eapply gname_valid; eassumption|]. apply valid_app; [eapply IH; eassumption|]. apply dot_valid. eapply item_end_dot; eassumption.
  - intros b IHb more IHm d f H. cbn [wf_item pr_item] in *. cbv zeta in H.
    apply andb_true_iff in H. destruct H as [H He]. apply andb_true_iff in H. destruct H as [Hb Hm].
    apply valid_app; [eapply IHb; eassumption|]. apply valid_app; [eapply IHm; eassumption|]. apply dot_valid. eapply item_end_dot; eassumption.
  - intros f _. apply valid_nil.
  - intros ul ukw b IHb more IHm f H. cbn [wf_alts pr_alts] in *.
    apply andb_true_iff in H. destruct H as [H Hm]. apply andb_true_iff in H. destruct H as [Hk Hb].
    rewrite app_assoc. apply valid_app; [eapply wf_kw_valid; [|eassumption]; kw_a|]. apply valid_app; [eapply IHb; eassumption|eapply IHm; eassumption].
  - intros p IH f H. cbn [wf_brc pr_brc] in *. apply andb_true_iff in H. destruct H as [H _]. eapply IH; eassumption.
  - intros l q IH r f H. cbn [wf_brc pr_brc] in *. apply andb_true_iff in H. destruct H as [H Hq]. apply andb_true_iff in H. destruct H as [Hl Hr].
    apply valid_app; [now apply lay_valid|]. apply v1; [lia|]. apply valid_app; [eapply IH; eexists; eassumption|].
    apply valid_app; [now apply lay_valid|apply valid_ascii; repeat constructor; lia].
  - intros l its IH r f H. cbn [wf_grp pr_grp] in *. apply andb_true_iff in H. destruct H as [H Hi]. apply andb_true_iff in H. destruct H as [Hl Hr].
    apply valid_app; [now apply lay_valid|]. apply v1; [lia|]. apply valid_app; [eapply IH; eassumption|].
    apply valid_app; [now apply lay_valid|apply valid_ascii; repeat constructor; lia].
  - intros f _. apply valid_nil.
  - intros it IHi its IHs f H. cbn [wf_items pr_items] in *. apply andb_true_iff in H. destruct H as [H1 H2].
    apply valid_app; [eapply IHi; eassumption|eapply IHs; eassumption].
  - intros sl skw dist proj froms wh p IH gb ob lm f [allow H]. cbn [wf_sel pr_sel] in *. cbv zeta in H.
    apply andb_true_iff in H. destruct H as [H Hlm]. apply andb_true_iff in H. destruct H as [H Hob]. apply andb_true_iff in H. destruct H as [H Hgb].
    apply andb_true_iff in H. destruct H as [H Hp]. apply andb_true_iff in H. destruct H as [H Hwh]. apply andb_true_iff in H. destruct H as [H Hfr].
    apply andb_true_iff in H. destruct H as [H Hpr]. apply andb_true_iff in H. destruct H as [Hk Hd].
    rewrite app_assoc. apply valid_app; [eapply wf_kw_valid; [|eassumption]; kw_a|].
    apply valid_app; [eapply optkw_valid; [|eassumption]; kw_a|]. apply valid_app; [eapply proj_valid; eassumption|].
    apply valid_app.
    { destruct allow; [apply andb_true_iff in Hfr; destruct Hfr; eapply froms_valid; eassumption|]. destruct froms; [apply valid_nil|discriminate]. }
    apply valid_app; [eapply optkw_valid; [|eassumption]; kw_a|]. apply valid_app; [eapply IH; eassumption|].
    apply valid_app; [eapply gbo_valid; eassumption|]. apply valid_app; [eapply obo_valid; eassumption|eapply lmo_valid; eassumption].
Qed.

(* ---- one-step unfoldings of the mutually recursive parser functions ----------------------------------------------------- *)
Lemma group_pattern_S : forall f s, group_pattern (S f) s = (do i <- schar 123 s; group_loop f i []).
Proof. reflexivity. Qed.
Lemma group_loop_S : forall f input0 joined,
  group_loop (S f) input0 joined =
      let input := skip_ws input0 in
      match strip_prefix [125] input with
      | Some remaining => Ok (join_of joined, remaining)
      | None =>
          do isf <- starts_keyword kw_filter input;
          if isf then do '(e, r) <- filter_clause f input; group_loop f r (joined ++ [GFilter e])
          else
          do isb <- starts_keyword kw_bind input;
          if isb then do '(b, r) <- bind_clause input; let '(fn, args, v) := b in group_loop f r (joined ++ [GBind fn args v])
          else
          do isv <- starts_keyword kw_values input;
          if isv then do '(vc, r) <- values_clause input; group_loop f r (joined ++ [GValues (fst vc) (snd vc)])
          else
            let first_is_braced := starts_with [123] (skip_ws input) in
            do '(first, after_first) <- group_primary f input;
            do '(alternatives, after_alts) <- union_loop f first_is_braced after_first [first];
            let item := match alternatives with [g] => g | _ => GUnion alternatives end in
            let i2 := skip_ws after_alts in
            let i3 := match strip_prefix [46] i2 with Some r => r | None => i2 end in
            group_loop f i3 (joined ++ [item])
      end.
Proof. reflexivity. Qed.
Lemma union_loop_S : forall f first_is_braced input alternatives,
  union_loop (S f) first_is_braced input alternatives =
      match keyword kw_union input with
      | Ok (_, after_union) =>
          if negb first_is_braced || negb (starts_with [123] (skip_ws after_union))
          then Err kVerify (length after_union) 0
          else do '(a, r) <- group_primary f after_union; union_loop f first_is_braced r (alternatives ++ [a])
      | Err _ _ _ => Ok (alternatives, input)
      | Panic => Panic
      | Fuel => Fuel
      end.
Proof. reflexivity. Qed.
Lemma group_primary_S : forall f input,
  group_primary (S f) input =
      match keyword kw_graph input with
      | Ok (_, after_graph) =>
          do '(name, after_name) <- graph_name after_graph;
          do '(p, remaining) <- group_pattern f after_name;
          Ok (GGraph name p, remaining)
      | Err _ _ _ =>
          let w := skip_ws input in
          if starts_with [123] w then
            do w1 <- lift (slice_from w 1);
            do issel <- starts_keyword kw_select (skip_ws w1);
            if issel then
              do i1 <- schar 123 input;
              do '(q, i2) <- select_core f false i1;
              do i3 <- schar 125 i2;
              Ok (GSub q, i3)
            else group_pattern f input
          else
            do '(ts, r) <- triples_statement (S (length input)) input;
            Ok (GBgp (map strip_t ts), r)
      | Panic => Panic
      | Fuel => Fuel
      end.
Proof. reflexivity. Qed.
Lemma select_core_S : forall f allow_dataset s,
  select_core (S f) allow_dataset s =
      (do '(_, i1) <- keyword kw_select s;
      do '(distinct, i2) <- opt_keyword kw_distinct i1;
      do '(vars, i3) <- projection_items i2;
      do '(from, from_named, i4) <- (if allow_dataset then from_loop (S (length i3)) i3 [] [] else Ok ([], [], i3));
      do '(_, i5) <- opt_keyword kw_where i4;
      do '(pattern, i6) <- group_pattern f i5;
      do '(group_vars, i7) <- opt_clause kw_group group_by_clause [] i6;
      do '(order, i8) <- opt_clause kw_order order_by_clause [] i7;
      do '(limit, i9) <- opt_clause kw_limit (fun i => do '(n, r) <- limit_clause i; Ok (Some n, r)) None i8;
      Ok (Select distinct vars from from_named pattern group_vars order limit, i9)).
Proof. reflexivity. Qed.

(* ---- helpers ------------------------------------------------------------------------------------------------------------- *)
Lemma starts_keyword_skip : forall kw x, Valid x -> starts_keyword kw (skip_ws x) = starts_keyword kw x.
Proof. intros kw x Hv. unfold starts_keyword. now rewrite keyword_skip. Qed.
Lemma group_loop_skip : forall f x j, Valid x -> group_loop f (skip_ws x) j = group_loop f x j.
Proof. intros [|f] x j Hv; [reflexivity|]. rewrite !group_loop_S. cbv zeta. rewrite !skip_ws_idem by assumption. reflexivity. Qed.

Lemma gname_rt : forall g rest, wf_gname g rest = true -> Valid rest -> graph_name (pr_o g ++ rest) = Ok (term_text (oterm g), rest).
Proof.
  intros g rest H Hr. unfold wf_gname in H. repeat (apply andb_true_iff in H; destruct H as [H ?]).
  unfold pr_o. rewrite <- app_assoc. set (w := lay_bytes (olay g)). assert (Hw : LayoutC w) by now apply lay_ok.
  pose proof (term_scan_ok (oterm g) w rest H2 H0 Hw Hr) as Sc.
  destruct (skip_head (oterm g) w rest H2 Hw Hr) as (b & tl & Esk & Etx & Hf & Vx).
  unfold graph_name, alt. cbn [alt_from]. destruct (oterm g); try discriminate; cbn [head_fact term_scan] in *.
  - now rewrite Sc.
  - subst b. alt_skip (variable_err_b _ _ _ Vx Esk ltac:(lia) ltac:(lia)). now rewrite Sc.
  - assert (Hb : b <> 60 /\ b <> 63 /\ b <> 36) by (unfold is_ascii_alpha, is_ascii_upper, is_ascii_lower in Hf; lia).
    destruct Hb as (Hb60 & Hb63 & Hb36).
    alt_skip (variable_err_b _ _ _ Vx Esk Hb63 Hb36). alt_skip (iri_err _ _ _ Esk Hb60). now rewrite Sc.
Qed.

(* the tail of a group item: no UNION, optional `.` *)
Lemma item_tail : forall f d R joined item, item_end d R = true -> Valid R ->
  (let i2 := skip_ws (pr_dot d ++ R) in
   let i3 := match strip_prefix [46] i2 with Some r => r | None => i2 end in
   group_loop f i3 (joined ++ [item])) = group_loop f R (joined ++ [item]).
Proof.
  intros f d R joined item H HR. unfold item_end in H. apply andb_true_iff in H. destruct H as [H Hd]. apply andb_true_iff in H. destruct H as [Hw _].
  cbv zeta. destruct d as [l|]; cbn [pr_dot wf_dot] in *.
  - rewrite <- app_assoc. cbn [app]. rewrite lead_skip by (try assumption; try lia; reflexivity). now rewrite strip1_some.
  - cbn [app]. apply nolead_ok in Hd. unfold no_lead in Hd. rewrite Hd. now apply group_loop_skip.
Qed.
Lemma item_end_union : forall d R, item_end d R = true -> Valid R -> is_err (keyword kw_union (pr_dot d ++ R)).
Proof.
  intros d R H HR. assert (Hd := item_end_dot _ _ H). unfold item_end in H. apply andb_true_iff in H. destruct H as [H _]. apply andb_true_iff in H. destruct H as [_ Hk].
  apply (kwfree_err _ kw_union _ Hk); [now left|kw_a|]. apply valid_app; [now apply dot_valid|assumption].
Qed.
Lemma union_stop : forall f b x acc, is_err (keyword kw_union x) -> union_loop (S f) b x acc = Ok (acc, x).
Proof. intros f b x acc (k & l & e & H). rewrite union_loop_S. now rewrite H. Qed.

(* ---- a triples statement as a group item ------------------------------------------------------------------------------------ *)
Definition stmt_unlay (st : Stmt) : Stmt := mkStmt (mkO [] (oterm (sj st))) (g1 st) (gmore st) (trail st).
Lemma stmt_split : forall st, pr_stmt st = lay_bytes (olay (sj st)) ++ pr_stmt (stmt_unlay st).
Proof. intros st. unfold pr_stmt, stmt_unlay, pr_o. cbn [sj g1 gmore trail olay oterm lay_bytes flat_map app]. now rewrite <- !app_assoc. Qed.
Lemma stmt_unlay_wf : forall st x, wf_stmt st x = true -> wf_stmt (stmt_unlay st) x = true /\ lay_okb (olay (sj st)) = true /\ term_okb (oterm (sj st)) = true.
Proof.
  intros st x H. unfold wf_stmt, stmt_unlay, wf_subject in *. cbn [sj g1 gmore trail olay oterm] in *. cbv zeta in *.
  destruct (lay_okb (olay (sj st))) eqn:El; cbn [andb] in H; [|discriminate]. split; [|split; [reflexivity|]].
  - change (lay_okb []) with true. cbn [andb]. exact H.
  - do 3 (apply andb_true_iff in H; destruct H as [H _]). do 2 (apply andb_true_iff in H; destruct H as [H _]). exact H.
Qed.

Lemma item_stmt_step : forall st d f joined R, (1 <= f)%nat -> wf_item (ItStmt st d) R = true -> Valid R ->
  group_loop (S f) (pr_item (ItStmt st d) ++ R) joined = group_loop f R (joined ++ [tr_item (ItStmt st d)]).
Proof.
  intros st d f joined R Hf H HR. cbn [wf_item pr_item tr_item] in *. cbv zeta in H.
  apply andb_true_iff in H. destruct H as [H N123]. apply andb_true_iff in H. destruct H as [H N125]. apply andb_true_iff in H. destruct H as [H Hkw].
  apply andb_true_iff in H. destruct H as [H Hend]. apply andb_true_iff in H. destruct H as [Hst Hse].
  set (X := pr_dot d ++ R) in *. rewrite <- app_assoc. fold X.
  assert (VX : Valid X) by (unfold X; apply valid_app; [apply dot_valid; eapply item_end_dot; eassumption|assumption]).
  assert (VI0 : Valid (pr_stmt st ++ X)) by (apply valid_app; [eapply stmt_valid; eassumption|assumption]).
  destruct (stmt_unlay_wf st X Hst) as (Hst' & Hl & Htok).
  assert (VU : Valid (pr_stmt (stmt_unlay st) ++ X)) by (apply valid_app; [eapply stmt_valid; eassumption|assumption]).
  assert (Esk : skip_ws (pr_stmt st ++ X) = pr_stmt (stmt_unlay st) ++ X).
  { rewrite stmt_split, <- app_assoc. apply skip_ws_closed; [now apply lay_ok|assumption|].
    unfold pr_stmt, stmt_unlay, pr_o. cbn [sj olay oterm lay_bytes flat_map app]. rewrite <- app_assoc. now apply term_not_layout. }
  set (I := pr_stmt (stmt_unlay st) ++ X) in *.
  assert (EI : skip_ws I = I) by (rewrite <- Esk; now apply skip_ws_idem).
  assert (SK : forall kw, In kw [kw_filter; kw_bind; kw_values; kw_graph] -> ascii_str kw -> is_err (keyword kw I)).
  { intros kw Hin Ha. rewrite <- Esk, keyword_skip by assumption. eapply kwfree_err; eassumption. }
  assert (Follow : stmt_follow (stmt_unlay st) X).
  { split; [assumption|]. unfold stmt_endb in Hse. cbn [stmt_unlay trail]. destruct (trail st) as [tr|].
    - destruct X as [|b X']; [discriminate|]. cbn [starts_with] in Hse. rewrite !andb_true_r in Hse.
      assert (Hb : b = 46 \/ b = 125) by lia. split.
      + apply ascii_head_not_layout; destruct Hb; subst; first [lia | reflexivity].
      + cbn [stmt_stops_after_semicolon]. destruct Hb; subst; reflexivity.
    - apply andb_true_iff in Hse. destruct Hse. split; now apply nolead_ok. }
  destruct (stmt_roundtrip (stmt_unlay st) (length I) X Hst' Follow) as (ts & Ets & Etr). fold I in Ets.
  rewrite group_loop_S. cbv zeta. rewrite Esk, EI.
  apply nolead_ok in N125. unfold no_lead in N125. rewrite Esk in N125. rewrite N125.
  rewrite (starts_keyword_false _ _ (SK kw_filter ltac:(cbn; tauto) ltac:(kw_a))). cbn [bind].
  rewrite (starts_keyword_false _ _ (SK kw_bind ltac:(cbn; tauto) ltac:(kw_a))). cbn [bind].
  rewrite (starts_keyword_false _ _ (SK kw_values ltac:(cbn; tauto) ltac:(kw_a))). cbn [bind].
  destruct f as [|f1]; [lia|]. rewrite group_primary_S. cbv zeta. rewrite EI.
  destruct (SK kw_graph ltac:(cbn; tauto) ltac:(kw_a)) as (? & ? & ? & ->).
  unfold nolead in N123. rewrite Esk in N123. apply negb_true_iff in N123. rewrite N123.
  rewrite Ets. cbn [bind]. rewrite (union_stop f1 false X _ (item_end_union d R Hend HR)). cbn [bind].
  rewrite Etr. unfold stmt_unlay at 1. unfold stmt_triples. cbn [sj g1 gmore oterm]. fold (stmt_triples st).
  unfold X. exact (item_tail (S f1) d R joined (GBgp (stmt_triples st)) Hend HR).
Qed.

(* ---- more helpers ---------------------------------------------------------------------------------------------------------------- *)
Lemma filter_clause_skip : forall f x, Valid x -> filter_clause f (skip_ws x) = filter_clause f x.
Proof. intros f x Hv. unfold filter_clause. now rewrite keyword_skip. Qed.
Lemma group_pattern_skip : forall f x, Valid x -> group_pattern f (skip_ws x) = group_pattern f x.
Proof. intros [|f] x Hv; [reflexivity|]. rewrite !group_pattern_S. now rewrite schar_skip. Qed.
Lemma group_primary_brace_skip : forall f x, Valid x -> starts_with [123] (skip_ws x) = true -> group_primary f (skip_ws x) = group_primary f x.
Proof.
  intros [|f] x Hv Hb; [reflexivity|]. rewrite !group_primary_S. cbv zeta. rewrite keyword_skip, skip_ws_idem by assumption. rewrite Hb.
  rewrite schar_skip, group_pattern_skip by assumption. reflexivity.
Qed.
Lemma limit_clause_skip : forall x, Valid x -> limit_clause (skip_ws x) = limit_clause x.
Proof. intros x Hv. unfold limit_clause. now rewrite keyword_skip. Qed.
Lemma limit_rt_skip : forall o rest, wf_lmo o rest = true -> Valid rest ->
  opt_clause kw_limit (fun i => do '(n, r) <- limit_clause i; Ok (Some n, r)) None (skip_ws (pr_lmo o ++ rest))
  = Ok (tr_lmo o, match o with Some _ => rest | None => skip_ws rest end).
Proof.
  intros o rest H Hr. assert (VA : Valid (pr_lmo o ++ rest)) by (apply valid_app; [eapply lmo_valid; eassumption|assumption]).
  pose proof (limit_rt o rest H Hr) as L. unfold opt_clause in *. rewrite starts_keyword_skip by assumption.
  destruct o as [c|]; cbn [pr_lmo tr_lmo wf_lmo app] in *.
  - destruct (starts_keyword kw_limit (pr_lm c ++ rest)) as [[|]| | |]; cbn [bind] in *; try discriminate.
    now rewrite limit_clause_skip.
  - rewrite (kwfree_sk _ kw_limit rest H ltac:(now left) ltac:(kw_a) Hr). reflexivity.
Qed.

(* a braced primary starts, after layout, with `{` *)
Lemma brc_head : forall b f x, wf_brc b f = true -> Valid x -> (forall p ff, wf_grp p ff = true -> Valid (pr_grp p)) ->
  exists l t, pr_brc b ++ x = lay_bytes l ++ 123 :: t /\ lay_okb l = true /\ Valid t.
Proof.
  intros [p|l q r] f x H Hx _; cbn [wf_brc pr_brc] in *.
  - apply andb_true_iff in H. destruct H as [H _]. pose proof (proj1 (proj2 (proj2 (proj2 group_valid))) p f H) as Vp.
    destruct p as [l its r]. cbn [wf_grp pr_grp] in *. apply andb_true_iff in H. destruct H as [H Hi]. apply andb_true_iff in H. destruct H as [Hl Hr].
    exists l, ((pr_items its ++ lay_bytes r ++ [125]) ++ x). split; [repeat first [rewrite <- app_assoc | progress cbn [app]]; reflexivity|]. split; [assumption|].
    apply valid_app; [|assumption]. apply valid_app; [eapply (proj1 (proj2 (proj2 (proj2 (proj2 group_valid))))); eassumption|].
    apply valid_app; [now apply lay_valid|apply valid_ascii; repeat constructor; lia].
  - apply andb_true_iff in H. destruct H as [H Hq]. apply andb_true_iff in H. destruct H as [Hl Hr].
    exists l, ((pr_sel q ++ lay_bytes r ++ [125]) ++ x). split; [repeat first [rewrite <- app_assoc | progress cbn [app]]; reflexivity|]. split; [assumption|].
    apply valid_app; [|assumption]. apply valid_app; [eapply (proj2 (proj2 (proj2 (proj2 (proj2 group_valid))))); eexists; eassumption|].
    apply valid_app; [now apply lay_valid|apply valid_ascii; repeat constructor; lia].
Qed.
Lemma brace_kw_err : forall kw k0 kw' l t, kw = k0 :: kw' -> is_ascii_alpha k0 = true -> lay_okb l = true -> Valid t ->
  is_err (keyword kw (lay_bytes l ++ 123 :: t)).
Proof.
  intros kw k0 kw' l t Ek Hk Hl Ht. apply (head_kw_err kw k0 kw' l 123 t Ek); try assumption; try lia; try reflexivity.
  unfold ascii_lower, is_ascii_alpha, is_ascii_upper, is_ascii_lower in *. destruct ((65 <=? k0) && (k0 <=? 90)) eqn:E; cbn; lia.
Qed.

(* ---- the mutual round trip ---------------------------------------------------------------------------------------------------------- *)
Definition brc_valid := proj1 (proj2 (proj2 group_valid)).
Definition grp_valid := proj1 (proj2 (proj2 (proj2 group_valid))).
Definition items_valid := proj1 (proj2 (proj2 (proj2 (proj2 group_valid)))).
Definition alts_valid := proj1 (proj2 group_valid).
Definition item_valid := proj1 group_valid.
Definition sel_valid := proj2 (proj2 (proj2 (proj2 (proj2 group_valid)))).

Lemma kwcase_first : forall kw txt k kw', kwcaseb kw txt = true -> kw = k :: kw' -> is_ascii_alpha k = true ->
  exists b t, txt = b :: t /\ letter b /\ ascii_lower b = ascii_lower k.
Proof.
  intros kw txt k kw' H Ek Hk. apply kwcase_b in H. subst kw. inversion H as [|? b ? t Hkb _]; subst. exists b, t. split; [reflexivity|]. split; [|assumption].
  unfold letter, is_ascii_alpha, is_ascii_upper, is_ascii_lower, ascii_lower, is_ascii_upper in *.
  destruct ((65 <=? b) && (b <=? 90)) eqn:E1; destruct ((65 <=? k) && (k <=? 90)) eqn:E2; lia.
Qed.

Lemma bind_clause_skip : forall x, Valid x -> bind_clause (skip_ws x) = bind_clause x.
Proof. intros x Hv. unfold bind_clause. now rewrite keyword_skip. Qed.
Lemma values_clause_skip : forall x, Valid x -> values_clause (skip_ws x) = values_clause x.
Proof. intros x Hv. unfold values_clause. now rewrite keyword_skip. Qed.

(* an item that starts with a keyword: the first non-layout byte is the keyword's first letter (in either case) *)
Lemma kw_item_head : forall kw k kw' txt l x, kw = k :: kw' -> is_ascii_alpha k = true -> lay_okb l = true -> kwcaseb kw txt = true -> Valid (txt ++ x) ->
  exists b t, skip_ws (lay_bytes l ++ txt ++ x) = b :: t /\ letter b /\ ascii_lower b = ascii_lower k.
Proof.
  intros kw k kw' txt l x Ek Hk Hl Hc Hv. destruct (kwcase_first _ _ _ _ Hc Ek Hk) as (b & t & Etxt & Lb & Hlow).
  destruct (letter_facts b Lb) as (Hb & Hw & H65). rewrite Etxt in *. cbn [app] in *. exists b, (t ++ x). split; [|split; assumption].
  apply lead_skip; try assumption; try lia. now destruct (valid_ascii_head b (t ++ x) Hv Hb) as (_ & _ & ?).
Qed.

Theorem group_rt :
  (forall it f joined R, (sz_item it <= f)%nat -> wf_item it R = true -> Valid R ->
     group_loop (S f) (pr_item it ++ R) joined = group_loop f R (joined ++ [tr_item it])) /\
  (forall a f acc X, (sz_alts a <= f)%nat -> wf_alts a X = true -> Valid X -> is_err (keyword kw_union X) ->
     union_loop f true (pr_alts a ++ X) acc = Ok (acc ++ tr_alts a, X)) /\
  (forall b f X, (sz_brc b <= f)%nat -> wf_brc b X = true -> Valid X ->
     group_primary f (pr_brc b ++ X) = Ok (tr_brc b, X)) /\
  (forall p f X, (sz_grp p <= f)%nat -> wf_grp p X = true -> Valid X ->
     group_pattern f (pr_grp p ++ X) = Ok (tr_grp p, X)) /\
  (forall its f joined r X, (sz_items its <= f)%nat -> wf_items its (lay_bytes r ++ 125 :: X) = true -> lay_okb r = true -> Valid X ->
     group_loop f (pr_items its ++ lay_bytes r ++ 125 :: X) joined = Ok (join_of (joined ++ tr_items its), X)) /\
  (forall q f allow X, (sz_sel q <= f)%nat -> wf_sel q allow X = true -> Valid X ->
     select_core f allow (pr_sel q ++ X) = Ok (tr_sel q, match q with MkSel _ _ _ _ _ _ _ _ ob lm => sel_rest ob lm X end)).
Proof.
  apply group_mutind.
  - (* statement *)
    intros st d f joined R Hf H HR. cbn [sz_item] in Hf. now apply item_stmt_step.
  - (* FILTER *)
    intros fl f joined R Hf H HR. cbn [sz_item wf_item pr_item tr_item] in *.
    assert (VI : Valid (pr_filter fl ++ R)) by (apply valid_app; [eapply filter_valid; eassumption|assumption]).
    assert (H0 := H). unfold wf_filter in H.
    do 3 (apply andb_true_iff in H; destruct H as [H _]). apply andb_true_iff in H. destruct H as [Hkl Hk].
    destruct (kwcase_first _ _ _ _ Hk eq_refl eq_refl) as (b & t & Etxt & Lb & _). destruct (letter_facts b Lb) as (Hb & Hw & H65).
    assert (Kok : exists m r, keyword kw_filter (pr_filter fl ++ R) = Ok (m, r)).
    { pose proof (filter_roundtrip fl f R Hf H0 HR) as Fr. unfold filter_clause in Fr.
      destruct (keyword kw_filter (pr_filter fl ++ R)) as [[m r]| | |]; try discriminate. eauto. }
    destruct Kok as (m & r & Kok).
    assert (E125 : strip_prefix [125] (skip_ws (pr_filter fl ++ R)) = None).
    { unfold pr_filter in *. rewrite Etxt in *. repeat first [rewrite <- app_assoc | progress cbn [app]].
      repeat first [rewrite <- app_assoc in VI | progress cbn [app] in VI].
      rewrite lead_skip; try assumption; try lia.
      - apply strip1_none. pose proof (letter_le b Lb). lia.
      - destruct (valid_split_ascii _ _ _ VI Hb) as (_ & Vb & _). now destruct (valid_ascii_head _ _ Vb Hb) as (_ & _ & ?). }
    rewrite group_loop_S. cbv zeta. rewrite E125. rewrite starts_keyword_skip by assumption. rewrite (starts_keyword_true _ _ _ _ Kok). cbn [bind].
    rewrite filter_clause_skip by assumption. rewrite (filter_roundtrip fl f R Hf H0 HR). reflexivity.
  - (* BIND *)
    intros b f joined R Hf H HR. cbn [sz_item wf_item pr_item tr_item] in *.
    destruct (bind_parts_valid b R H) as [Vb V2].
    assert (VI : Valid (pr_bind b ++ R)) by now apply valid_app.
    assert (H0 := H). unfold wf_bind in H. do 12 (apply andb_true_iff in H; destruct H as [H _]). apply andb_true_iff in H. destruct H as [Hkl Hk].
    assert (E0 : pr_bind b ++ R = lay_bytes (bd_kl b) ++ bd_kw b ++ (lay_bytes (bd_l1 b) ++ 40 :: lay_bytes (bd_lf b) ++ encode (bd_fn b) ++ lay_bytes (bd_l2 b) ++ 40 ::
         pr_o (bd_a1 b) ++ pr_oms (bd_more b) ++ lay_bytes (bd_l3 b) ++ 41 :: lay_bytes (bd_las b) ++ bd_askw b ++ pr_o (bd_v b) ++ lay_bytes (bd_l4 b) ++ [41]) ++ R).
    { unfold pr_bind. now rewrite <- !app_assoc. }
    destruct (kw_item_head kw_bind _ _ (bd_kw b) (bd_kl b) _ eq_refl eq_refl Hkl Hk
                ltac:(apply valid_app; [eapply (kw_valid kw_bind); [kw_a|eassumption]|apply valid_app; [exact V2|exact HR]])) as (b0 & t0 & Esk & Lb & Hlow).
    rewrite <- E0 in Esk. pose proof (letter_le b0 Lb) as Hle.
    assert (Kb : exists m r, keyword kw_bind (pr_bind b ++ R) = Ok (m, r)).
    { pose proof (bind_rt b R H0 HR) as Br. unfold bind_clause in Br. destruct (keyword kw_bind (pr_bind b ++ R)) as [[m r]| | |]; try discriminate. eauto. }
    destruct Kb as (m & r & Kb).
    rewrite group_loop_S. cbv zeta. rewrite Esk at 1. rewrite strip1_none by lia.
    rewrite !starts_keyword_skip by assumption.
    rewrite (starts_keyword_false _ _ (keyword_fail kw_filter _ _ _ b0 t0 eq_refl Esk ltac:(rewrite Hlow; cbv; discriminate))). cbn [bind].
    rewrite (starts_keyword_true _ _ _ _ Kb). cbn [bind].
    rewrite bind_clause_skip by assumption. rewrite (bind_rt b R H0 HR). reflexivity.
  - (* VALUES *)
    intros c f joined R Hf H HR. cbn [sz_item wf_item pr_item tr_item] in *.
    pose proof (values_valid c R H) as Vc.
    assert (VI : Valid (pr_values c ++ R)) by now apply valid_app.
    assert (H0 := H). unfold wf_values in H. cbv zeta in H. do 4 (apply andb_true_iff in H; destruct H as [H _]).
    unfold wf_kw in H. apply andb_true_iff in H. destruct H as [H _]. apply andb_true_iff in H. destruct H as [Hkl Hk].
    assert (E0 : pr_values c ++ R = lay_bytes (vl_kl c) ++ vl_kw c ++ (pr_vvars (vl_vars c) ++ lay_bytes (vl_lb c) ++ 123 :: pr_rows (vl_rows c) ++ lay_bytes (vl_rb c) ++ [125]) ++ R).
    { unfold pr_values. now rewrite <- !app_assoc. }
    assert (VT : Valid (vl_kw c ++ (pr_vvars (vl_vars c) ++ lay_bytes (vl_lb c) ++ 123 :: pr_rows (vl_rows c) ++ lay_bytes (vl_rb c) ++ [125]) ++ R)).
    { rewrite E0 in VI. pose proof (lay_valid _ Hkl) as Vl.
      destruct (kwcase_first _ _ _ _ Hk eq_refl eq_refl) as (b1 & t1 & Etxt & Lb1 & _). destruct (letter_facts b1 Lb1) as (Hb1 & _ & _).
      rewrite Etxt in *. cbn [app] in *. now destruct (valid_split_ascii _ _ _ VI Hb1) as (_ & ? & _). }
    destruct (kw_item_head kw_values _ _ (vl_kw c) (vl_kl c) _ eq_refl eq_refl Hkl Hk VT) as (b0 & t0 & Esk & Lb & Hlow).
    rewrite <- E0 in Esk. pose proof (letter_le b0 Lb) as Hle.
    assert (Kv : exists m r, keyword kw_values (pr_values c ++ R) = Ok (m, r)).
    { pose proof (values_rt c R H0 HR) as Vr. unfold values_clause in Vr. destruct (keyword kw_values (pr_values c ++ R)) as [[m r]| | |]; try discriminate. eauto. }
    destruct Kv as (m & r & Kv).
    rewrite group_loop_S. cbv zeta. rewrite Esk at 1. rewrite strip1_none by lia.
    rewrite !starts_keyword_skip by assumption.
    rewrite (starts_keyword_false _ _ (keyword_fail kw_filter _ _ _ b0 t0 eq_refl Esk ltac:(rewrite Hlow; cbv; discriminate))). cbn [bind].
    rewrite (starts_keyword_false _ _ (keyword_fail kw_bind _ _ _ b0 t0 eq_refl Esk ltac:(rewrite Hlow; cbv; discriminate))). cbn [bind].
    rewrite (starts_keyword_true _ _ _ _ Kv). cbn [bind].
    rewrite values_clause_skip by assumption. rewrite (values_rt c R H0 HR). reflexivity.
  - (* GRAPH name { ... } *)
    intros kl kw name p IH d f joined R Hf H HR. cbn [sz_item wf_item pr_item tr_item] in *. cbv zeta in H.
    apply andb_true_iff in H. destruct H as [H Hend]. apply andb_true_iff in H. destruct H as [H Hp]. apply andb_true_iff in H. destruct H as [Hk Hn].
    set (X := pr_dot d ++ R) in *.
    assert (VX : Valid X) by (unfold X; apply valid_app; [apply dot_valid; eapply item_end_dot; eassumption|assumption]).
    assert (VP : Valid (pr_grp p ++ X)) by (apply valid_app; [eapply grp_valid; eassumption|assumption]).
    assert (VN : Valid (pr_o name ++ pr_grp p ++ X)) by (apply valid_app; [eapply gname_valid; eassumption|assumption]).
    assert (Hk0 := Hk). unfold wf_kw in Hk0. apply andb_true_iff in Hk0. destruct Hk0 as [Hk0 Hst]. apply andb_true_iff in Hk0. destruct Hk0 as [Hkl Hkc].
    destruct (kwcase_first _ _ _ _ Hkc eq_refl eq_refl) as (b & t & Etxt & Lb & Hlow). destruct (letter_facts b Lb) as (Hb & Hw & H65).
    assert (E0 : (lay_bytes kl ++ kw ++ pr_o name ++ pr_grp p ++ pr_dot d) ++ R = lay_bytes kl ++ kw ++ pr_o name ++ pr_grp p ++ X).
    { unfold X. now rewrite <- !app_assoc. }
    rewrite E0. set (I := kw ++ pr_o name ++ pr_grp p ++ X).
    assert (VI : Valid I) by (unfold I; apply valid_app; [eapply (kw_valid kw_graph); [kw_a|eassumption]|assumption]).
    assert (NI : ~ starts_layout I) by (unfold I; rewrite Etxt; cbn [app]; now apply letter_not_layout).
    assert (Esk : skip_ws (lay_bytes kl ++ I) = I) by (apply skip_ws_closed; [now apply lay_ok|assumption|assumption]).
    assert (EI : skip_ws I = I) by now apply skip_ws_fixed.
    assert (EIb : I = b :: t ++ pr_o name ++ pr_grp p ++ X) by (unfold I; rewrite Etxt; reflexivity).
    assert (Fail : forall kw0 k0 kw0', kw0 = k0 :: kw0' -> ascii_lower k0 <> 103 -> is_err (keyword kw0 I)).
    { intros kw0 k0 kw0' Ek Hne. apply (keyword_fail kw0 k0 kw0' I b (t ++ pr_o name ++ pr_grp p ++ X) Ek); [now rewrite EI|]. rewrite Hlow. cbn. congruence. }
    pose proof (kw_rt kw_graph kw [] _ ltac:(kw_a) eq_refl Hkc eq_refl VN (name_stop_b _ Hst)) as Kok. cbn [lay_bytes flat_map app] in Kok. fold I in Kok.
    rewrite group_loop_S. cbv zeta. rewrite Esk, EI.
    rewrite EIb at 1. rewrite strip1_none by (pose proof (letter_le b Lb); lia).
    rewrite (starts_keyword_false _ _ (Fail kw_filter _ _ eq_refl ltac:(cbv; discriminate))). cbn [bind].
    rewrite (starts_keyword_false _ _ (Fail kw_bind _ _ eq_refl ltac:(cbv; discriminate))). cbn [bind].
    rewrite (starts_keyword_false _ _ (Fail kw_values _ _ eq_refl ltac:(cbv; discriminate))). cbn [bind].
    destruct f as [|f1]; [lia|]. rewrite group_primary_S. rewrite Kok.
    rewrite (gname_rt name _ Hn VP). cbn [bind]. rewrite (IH f1 X ltac:(lia) Hp VX). cbn [bind].
    assert (E123 : starts_with [123] I = false) by (rewrite EIb; cbn [starts_with]; destruct (N.eqb_spec 123 b); [pose proof (letter_le b Lb); lia|reflexivity]).
    rewrite E123. rewrite (union_stop f1 false X _ (item_end_union d R Hend HR)). cbn [bind].
    unfold X. exact (item_tail (S f1) d R joined _ Hend HR).
  - (* { } UNION { } ... *)
    intros b IHb more IHm d f joined R Hf H HR. cbn [sz_item wf_item pr_item tr_item] in *. cbv zeta in H.
    apply andb_true_iff in H. destruct H as [H Hend]. apply andb_true_iff in H. destruct H as [Hb Hm].
    set (X := pr_dot d ++ R) in *.
    assert (VX : Valid X) by (unfold X; apply valid_app; [apply dot_valid; eapply item_end_dot; eassumption|assumption]).
    assert (VM : Valid (pr_alts more ++ X)) by (apply valid_app; [eapply alts_valid; eassumption|assumption]).
    assert (E0 : (pr_brc b ++ pr_alts more ++ pr_dot d) ++ R = pr_brc b ++ pr_alts more ++ X) by (unfold X; now rewrite <- !app_assoc).
    rewrite E0. set (I0 := pr_brc b ++ pr_alts more ++ X).
    assert (VI0 : Valid I0) by (unfold I0; apply valid_app; [eapply brc_valid; eassumption|assumption]).
    destruct (brc_head b _ (pr_alts more ++ X) Hb VM grp_valid) as (l & t & E & Hl & Vt). fold I0 in E.
    assert (Esk : skip_ws I0 = 123 :: t) by (rewrite E; apply lead_skip; try assumption; try lia; reflexivity).
    assert (EI : skip_ws (123 :: t) = 123 :: t) by (rewrite <- Esk; now apply skip_ws_idem).
    assert (Fail : forall kw0 k0 kw0', kw0 = k0 :: kw0' -> is_ascii_alpha k0 = true -> is_err (keyword kw0 (123 :: t))).
    { intros kw0 k0 kw0' Ek Hk. rewrite <- Esk, keyword_skip by assumption. rewrite E. eapply brace_kw_err; eassumption. }
    rewrite group_loop_S. cbv zeta. rewrite Esk, EI. rewrite strip1_none by lia.
    rewrite (starts_keyword_false _ _ (Fail kw_filter _ _ eq_refl eq_refl)). cbn [bind].
    rewrite (starts_keyword_false _ _ (Fail kw_bind _ _ eq_refl eq_refl)). cbn [bind].
    rewrite (starts_keyword_false _ _ (Fail kw_values _ _ eq_refl eq_refl)). cbn [bind].
    rewrite <- Esk. rewrite group_primary_brace_skip by (try assumption; rewrite Esk; reflexivity).
    unfold I0 in *. rewrite (IHb f _ ltac:(lia) Hb VM). cbn [bind]. rewrite Esk. change (starts_with [123] (123 :: t)) with true.
    rewrite (IHm f [tr_brc b] X ltac:(lia) Hm VX (item_end_union d R Hend HR)). cbn [bind app].
    unfold X. exact (item_tail f d R joined _ Hend HR).
  - (* no more alternatives *)
    intros f acc X Hf _ HX Hu. cbn [sz_alts pr_alts tr_alts app] in *. destruct f as [|f1]; [lia|]. rewrite app_nil_r. now apply union_stop.
  - (* UNION { } ... *)
    intros ul ukw b IHb more IHm f acc X Hf H HX Hu. cbn [sz_alts wf_alts pr_alts tr_alts] in *.
    apply andb_true_iff in H. destruct H as [H Hm]. apply andb_true_iff in H. destruct H as [Hk Hb].
    assert (VM : Valid (pr_alts more ++ X)) by (apply valid_app; [eapply alts_valid; eassumption|assumption]).
    assert (VB : Valid (pr_brc b ++ pr_alts more ++ X)) by (apply valid_app; [eapply brc_valid; eassumption|assumption]).
    destruct f as [|f1]; [lia|]. rewrite union_loop_S. repeat rewrite <- app_assoc.
    rewrite (wf_kw_rt kw_union ukw ul _ ltac:(kw_a) eq_refl Hk VB).
    destruct (brc_head b _ (pr_alts more ++ X) Hb VM grp_valid) as (l & t & E & Hl & Vt).
    assert (Esk : skip_ws (pr_brc b ++ pr_alts more ++ X) = 123 :: t) by (rewrite E; apply lead_skip; try assumption; try lia; reflexivity).
    rewrite Esk. change (negb true || negb (starts_with [123] (123 :: t))) with false. cbv iota.
    rewrite (IHb f1 _ ltac:(lia) Hb VM). cbn [bind]. rewrite (IHm f1 _ X ltac:(lia) Hm HX Hu). now rewrite <- app_assoc.
  - (* { group } *)
    intros p IH f X Hf H HX. cbn [sz_brc wf_brc pr_brc tr_brc] in *. apply andb_true_iff in H. destruct H as [Hp Hsel].
    destruct f as [|f1]; [lia|]. rewrite group_primary_S. cbv zeta.
    pose proof (IH f1 X ltac:(lia) Hp HX) as IHp.
    destruct p as [l0 its r]. cbn [wf_grp pr_grp sz_grp] in *.
    assert (Hp0 := Hp). apply andb_true_iff in Hp0. destruct Hp0 as [Hp0 Hits]. apply andb_true_iff in Hp0. destruct Hp0 as [Hl0 Hr0].
    set (T := pr_items its ++ lay_bytes r ++ 125 :: X) in *.
    assert (E0 : (lay_bytes l0 ++ 123 :: pr_items its ++ lay_bytes r ++ [125]) ++ X = lay_bytes l0 ++ 123 :: T).
    { unfold T. repeat first [rewrite <- app_assoc | progress cbn [app]]. reflexivity. }
    rewrite E0 in *.
    assert (VT : Valid T).
    { unfold T. apply valid_app; [eapply items_valid; eassumption|]. apply valid_app; [now apply lay_valid|apply v1; [lia|assumption]]. }
    destruct (brace_kw_err kw_graph _ _ l0 T eq_refl eq_refl Hl0 VT) as (? & ? & ? & ->).
    rewrite lead_skip by (try assumption; try lia; reflexivity). change (starts_with [123] (123 :: T)) with true. cbv iota.
    assert (V1 : Valid (123 :: T)) by (apply v1; [lia|assumption]).
    destruct (valid_ascii_head 123 T V1 ltac:(lia)) as (_ & B1 & _). rewrite slice_from_bnd by assumption. cbn [lift bind skipn].
    rewrite starts_keyword_skip by assumption.
    rewrite (kwfree_sk _ kw_select T Hsel ltac:(now left) ltac:(kw_a) VT). cbn [bind]. exact IHp.
  - (* { SELECT ... } *)
    intros l q IH r f X Hf H HX. cbn [sz_brc wf_brc pr_brc tr_brc] in *.
    apply andb_true_iff in H. destruct H as [H Hq]. apply andb_true_iff in H. destruct H as [Hl Hr].
    destruct f as [|f1]; [lia|]. rewrite group_primary_S. cbv zeta.
    assert (VR : Valid (lay_bytes r ++ 125 :: X)) by (apply valid_app; [now apply lay_valid|apply v1; [lia|assumption]]).
    assert (VQ : Valid (pr_sel q ++ lay_bytes r ++ 125 :: X)) by (apply valid_app; [eapply sel_valid; eexists; eassumption|assumption]).
    assert (E0 : (lay_bytes l ++ 123 :: pr_sel q ++ lay_bytes r ++ [125]) ++ X = lay_bytes l ++ 123 :: pr_sel q ++ lay_bytes r ++ 125 :: X).
    { repeat first [rewrite <- app_assoc | progress cbn [app]]. reflexivity. }
    rewrite E0. destruct (brace_kw_err kw_graph _ _ l _ eq_refl eq_refl Hl VQ) as (? & ? & ? & ->).
    rewrite lead_skip by (try assumption; try lia; reflexivity). change (starts_with [123] (123 :: ?x)) with true. cbv iota.
    assert (V1 : Valid (123 :: pr_sel q ++ lay_bytes r ++ 125 :: X)) by (apply v1; [lia|assumption]).
    destruct (valid_ascii_head 123 _ V1 ltac:(lia)) as (_ & B1 & _). rewrite slice_from_bnd by assumption. cbn [lift bind skipn].
    rewrite starts_keyword_skip by assumption.
    pose proof (IH f1 false _ ltac:(lia) Hq VR) as Sq.
    assert (Ksel : exists m r0, keyword kw_select (pr_sel q ++ lay_bytes r ++ 125 :: X) = Ok (m, r0)).
    { destruct f1 as [|f2]; [destruct q; cbn [sz_sel] in Hf; lia|]. rewrite select_core_S in Sq.
      destruct (keyword kw_select (pr_sel q ++ lay_bytes r ++ 125 :: X)) as [[m r0]| | |]; try discriminate. eauto. }
    destruct Ksel as (m & r0 & Ksel). rewrite (starts_keyword_true _ _ _ _ Ksel). cbn [bind].
    rewrite schar_roundtrip by (try assumption; try lia; try reflexivity; now apply lay_ok). cbn [bind]. rewrite Sq. cbn [bind].
    assert (S125 : schar 125 (lay_bytes r ++ 125 :: X) = Ok X) by (apply schar_roundtrip; try assumption; try lia; try reflexivity; now apply lay_ok).
    destruct q as [sl skw dist proj froms wh p gb ob lm]. unfold sel_rest. destruct ob, lm; rewrite ?schar_skip by assumption; rewrite S125; reflexivity.
  - (* { items } *)
    intros l its IH r f X Hf H HX. cbn [sz_grp wf_grp pr_grp tr_grp] in *.
    apply andb_true_iff in H. destruct H as [H Hi]. apply andb_true_iff in H. destruct H as [Hl Hr].
    destruct f as [|f1]; [lia|]. rewrite group_pattern_S. repeat first [rewrite <- app_assoc | progress cbn [app]].
    assert (VT : Valid (pr_items its ++ lay_bytes r ++ 125 :: X)).
    { apply valid_app; [eapply items_valid; eassumption|]. apply valid_app; [now apply lay_valid|apply v1; [lia|assumption]]. }
    rewrite schar_roundtrip by (try assumption; try lia; try reflexivity; now apply lay_ok). cbn [bind].
    rewrite (IH f1 [] r X ltac:(lia) Hi Hr HX). reflexivity.
  - (* no more items *)
    intros f joined r X Hf _ Hr HX. cbn [sz_items pr_items tr_items app] in *. destruct f as [|f1]; [lia|].
    rewrite group_loop_S. cbv zeta. rewrite lead_skip by (try assumption; try lia; reflexivity). rewrite strip1_some. now rewrite app_nil_r.
  - (* item :: items *)
    intros it IHi its IHs f joined r X Hf H Hr HX. cbn [sz_items wf_items pr_items tr_items] in *.
    apply andb_true_iff in H. destruct H as [H1 H2]. destruct f as [|f1]; [lia|]. rewrite <- app_assoc.
    assert (VT : Valid (pr_items its ++ lay_bytes r ++ 125 :: X)).
    { apply valid_app; [eapply items_valid; eassumption|]. apply valid_app; [now apply lay_valid|apply v1; [lia|assumption]]. }
    rewrite (IHi f1 joined _ ltac:(lia) H1 VT). rewrite (IHs f1 _ r X ltac:(lia) H2 Hr HX). now rewrite <- app_assoc.
  - (* SELECT *)
    intros sl skw dist proj froms wh p IH gb ob lm f allow X Hf H HX. cbn [sz_sel wf_sel pr_sel tr_sel] in *. cbv zeta in H.
    apply andb_true_iff in H. destruct H as [H Hlm]. apply andb_true_iff in H. destruct H as [H Hob]. apply andb_true_iff in H. destruct H as [H Hgb].
    apply andb_true_iff in H. destruct H as [H Hp]. apply andb_true_iff in H. destruct H as [H Hwh]. apply andb_true_iff in H. destruct H as [H Hfr].
    apply andb_true_iff in H. destruct H as [H Hpr]. apply andb_true_iff in H. destruct H as [Hk Hd].
    set (x6 := pr_lmo lm ++ X) in *. set (x5 := pr_obo ob ++ x6) in *. set (x4 := pr_gbo gb ++ x5) in *. set (x3 := pr_grp p ++ x4) in *.
    set (x2 := pr_optkw wh ++ x3) in *. set (x1 := pr_froms froms ++ x2) in *. set (x0 := pr_proj proj ++ x1) in *.
    assert (V6 : Valid x6) by (apply valid_app; [eapply lmo_valid; eassumption|assumption]).
    assert (V5 : Valid x5) by (apply valid_app; [eapply obo_valid; eassumption|assumption]).
    assert (V4 : Valid x4) by (apply valid_app; [eapply gbo_valid; eassumption|assumption]).
    assert (V3 : Valid x3) by (apply valid_app; [eapply grp_valid; eassumption|assumption]).
    assert (V2 : Valid x2) by (apply valid_app; [eapply optkw_valid; [|eassumption]; kw_a|assumption]).
    assert (V1 : Valid x1).
    { apply valid_app; [|assumption]. destruct allow; [apply andb_true_iff in Hfr; destruct Hfr; eapply froms_valid; eassumption|]. destruct froms; [apply valid_nil|discriminate]. }
    assert (V0 : Valid x0) by (apply valid_app; [eapply proj_valid; eassumption|assumption]).
    assert (VD : Valid (pr_optkw dist ++ x0)) by (apply valid_app; [eapply optkw_valid; [|eassumption]; kw_a|assumption]).
    assert (E0 : (lay_bytes sl ++ skw ++ pr_optkw dist ++ pr_proj proj ++ pr_froms froms ++ pr_optkw wh ++ pr_grp p ++ pr_gbo gb ++ pr_obo ob ++ pr_lmo lm) ++ X
                 = lay_bytes sl ++ skw ++ pr_optkw dist ++ x0).
    { unfold x0, x1, x2, x3, x4, x5, x6. now rewrite <- !app_assoc. }
    rewrite E0. destruct f as [|f1]; [lia|]. rewrite select_core_S.
    rewrite (wf_kw_rt kw_select skw sl _ ltac:(kw_a) eq_refl Hk VD). cbn [bind].
    rewrite (optkw_rt kw_distinct dist x0 ltac:(kw_a) eq_refl Hd V0). cbn [bind].
    unfold x0. rewrite (proj_roundtrip proj x1 Hpr V1). cbn [bind].
    match goal with |- context [if allow then ?a else ?b] =>
      assert (From : (if allow then a else b) = Ok (from_plain froms, from_named froms, x2)) end.
    { destruct allow.
      - apply andb_true_iff in Hfr. destruct Hfr as [Hfr Hnf]. unfold x1. rewrite (from_loop_rt froms _ [] [] x2); try assumption; [reflexivity|].
        rewrite app_length. pose proof (froms_length _ _ Hfr). lia.
      - destruct froms; [|discriminate]. reflexivity. }
    rewrite From. cbn [bind]. unfold x2. rewrite (optkw_rt kw_where wh x3 ltac:(kw_a) eq_refl Hwh V3). cbn [bind].
    unfold x3. rewrite (IH f1 x4 ltac:(lia) Hp V4). cbn [bind].
    unfold x4. rewrite (groupby_rt gb x5 Hgb V5). cbn [bind]. unfold x5. rewrite (orderby_rt ob x6 Hob V6). cbn [bind].
    unfold sel_rest, obo_rest. destruct ob as [oc|].
    + unfold x6. rewrite (limit_rt_skip lm X Hlm HX). cbn [bind]. destruct lm; reflexivity.
    + unfold x6. rewrite (limit_rt lm X Hlm HX). cbn [bind]. destruct lm; reflexivity.
Qed.
