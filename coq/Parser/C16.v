(* C16 - The query parser is total and faithful.
   Only the property theorems; each is closed by `exact <lemma>` and followed by Print Assumptions.
   Model: Utf8.v (UTF-8 byte strings, slices that can panic), Scanners.v, Grammar.v (the unified recursive parser of
   kolibrie/src/parser.rs).  Proofs: Utf8Proofs.v, ScannerProofs.v, GrammarProofs.v. *)
Require Import String.
Require Import List NArith Bool PeanoNat Lia ZifyBool ZifyN.
Require Import KV.Parser.Utf8 KV.Parser.Unicode KV.Parser.Keywords KV.Parser.Scanners KV.Parser.Grammar KV.Parser.Run.
Require Import KV.Parser.Utf8Proofs KV.Parser.ScannerProofs KV.Parser.HelperProofs KV.Parser.GrammarProofs KV.Parser.FuelProofs KV.Parser.RoundTrip KV.Parser.RoundTrip2 KV.Parser.RoundTrip3.
Require KV.Parser.Lex KV.Parser.StmtRT KV.Parser.FilterRT KV.Parser.FilterRT2 KV.Parser.SelectRT KV.Parser.BindRT KV.Parser.ValuesRT KV.Parser.GroupRT
        KV.Parser.PrologueRT KV.Parser.TopRT KV.Parser.SizeRT KV.Parser.UpdateRT KV.Parser.TokenRT KV.Parser.ExamplesRT.
Import ListNotations.
Open Scope N_scope.

(* `Valid s`: s is the UTF-8 encoding of a sequence of Unicode scalar values - what a Rust &str is.
   `Good s r`: r is an ordinary error, or a NON-EMPTY token that is a prefix of `skip_ws s` ending on a character
   boundary together with the suffix from there; never Panic (a slice off a boundary / out of range), never Fuel. *)

(* ---- (1) scanner totality and consumption ----------------------------------------------------- *)
(* C16_scanner_total: on every valid UTF-8 input each hand-written scanner returns a token or an error; every slice
   index it computes is in range and on a character boundary. *)
Theorem C16_scanner_total :
  forall s, Valid s ->
    variable s <> Panic /\ iri s <> Panic /\ blank_node s <> Panic /\ prefixed_name s <> Panic /\
    numeric_literal s <> Panic /\ quoted_literal s <> Panic /\ bare_identifier s <> Panic /\ filter_operator s <> Panic /\
    variable s <> Fuel /\ iri s <> Fuel /\ blank_node s <> Fuel /\ prefixed_name s <> Fuel /\
    numeric_literal s <> Fuel /\ quoted_literal s <> Fuel /\ bare_identifier s <> Fuel /\ filter_operator s <> Fuel.
Proof.
  intros s Hv.
  pose proof (variable_good s Hv). pose proof (iri_good s Hv). pose proof (blank_node_good s Hv).
  pose proof (prefixed_name_good s Hv). pose proof (numeric_literal_good s Hv). pose proof (quoted_literal_good s Hv).
  pose proof (bare_identifier_good s Hv). pose proof (filter_operator_good s Hv).
  unfold Good, GoodI in *.
  repeat split; intro E; rewrite E in *; assumption.
Qed.
Print Assumptions C16_scanner_total.

(* C16_scanner_consumes: an accepted token is preceded only by whitespace/comments, is non-empty, and token and rest
   are contiguous slices of the input at character boundaries (so both are valid strings again). *)
Definition consumes (p : str -> res (str * str)) : Prop :=
  forall s tok rest, Valid s -> p s = Ok (tok, rest) ->
    exists w, Layout w /\ s = w ++ tok ++ rest /\ tok <> [] /\ Valid tok /\ Valid rest.

Lemma good_consumes : forall p, (forall s, Valid s -> Good s (p s)) -> consumes p.
Proof.
  intros p Hp s tok rest Hv E. specialize (Hp s Hv). rewrite E in Hp. destruct Hp as (e & B & He & -> & ->).
  destruct (skip_ws_spec s Hv) as (w & Hw & Es & _). exists w. split; [assumption|]. split.
  - rewrite firstn_skipn. exact Es.
  - split; [|split; [now apply bnd_firstn_valid|now apply bnd_skipn_valid]].
    intro E0. assert (length (firstn e (skip_ws s)) = 0%nat) by now rewrite E0. rewrite firstn_length in H.
    pose proof (bnd_le _ _ B). lia.
Qed.

Theorem C16_scanner_consumes :
  consumes variable /\ consumes iri /\ consumes blank_node /\ consumes prefixed_name /\ consumes numeric_literal /\
  consumes quoted_literal /\ consumes bare_identifier /\ consumes filter_operator.
Proof.
  repeat split; apply good_consumes;
    [exact variable_good|exact iri_good|exact blank_node_good|exact prefixed_name_good|exact numeric_literal_good
    |exact quoted_literal_good|exact bare_identifier_good|exact filter_operator_good].
Qed.
Print Assumptions C16_scanner_consumes.

(* keywords (case-insensitive, with the token-boundary check) *)
Theorem C16_keyword_total :
  forall kw s, ascii_str kw -> kw <> [] -> Valid s -> Good s (keyword kw s).
Proof. exact keyword_good. Qed.
Print Assumptions C16_keyword_total.

(* the whitespace/comment skipper removes exactly a layout prefix and stops before a non-layout character *)
Theorem C16_skip_ws :
  forall s, Valid s -> exists w, Layout w /\ s = w ++ skip_ws s /\ Valid (skip_ws s) /\ ~ starts_layout (skip_ws s).
Proof. exact skip_ws_spec. Qed.
Print Assumptions C16_skip_ws.

(* terms, including RDF-star quoted triples nested to any depth: never Panic, whatever the fuel *)
Theorem C16_terms_total :
  forall fuel s, Valid s ->
    SafeT s (subject_term fuel s) /\ SafeT s (predicate_term s) /\ SafeT s (object_term fuel s) /\ SafeT s (graph_name s) /\
    SafeT s (quoted_triple fuel s).
Proof.
  intros fuel s Hv. repeat split;
    [now apply subject_term_safe|now apply predicate_term_safe|now apply object_term_safe|now apply graph_name_safe
    |now apply quoted_triple_safe].
Qed.
Print Assumptions C16_terms_total.

(* ---- totality of the whole modelled grammar ---------------------------------------------------- *)
(* No slice anywhere in the unified recursive parser (prologue, SELECT with all clauses, group graph patterns with
   FILTER / BIND / VALUES / GRAPH / UNION / sub-select, the six update forms, the DATA checks) can panic, for every
   valid UTF-8 request and every fuel.  (`Fuel` is the model's own bound, not a Rust outcome.) *)
Theorem C16_parser_total :
  forall fuel alias s, Valid s ->
    parse_top fuel alias s <> Panic /\ parse_sparql_query fuel s <> Panic.
Proof.
  intros fuel alias s Hv. split; [now apply parse_top_no_panic|now apply parse_sparql_query_no_panic].
Qed.
Print Assumptions C16_parser_total.

(* every grammar function hands on a suffix of its input that starts on a character boundary *)
Theorem C16_grammar_consumes :
  forall fuel s, Valid s ->
    SafeP s (group_pattern fuel s) /\ SafeP s (select_core fuel true s) /\ SafeP s (update_core fuel false s) /\
    SafeP s (triples_statement fuel s) /\ SafeP s (filter_clause fuel s) /\ SafeP s (quad_block s).
Proof.
  intros fuel s Hv. pose proof (suf_refl s Hv) as S0. repeat split;
    [now apply group_pattern_safe|now apply select_core_safe|now apply update_core_safe|now apply triples_statement_safe
    |now apply filter_clause_safe|now apply quad_block_safe].
Qed.
Print Assumptions C16_grammar_consumes.

(* ---- (4) whole input --------------------------------------------------------------------------- *)
(* The top-level entries accept only if what the core parser left is whitespace/comments. *)
Theorem C16_whole_input :
  forall fuel alias s t, Valid s -> parse_top fuel alias s = Ok t -> t <> TExtension ->
    exists m i1 rest, sparql_prefixes s = Ok (m, i1) /\ Suf s rest /\ Layout rest /\
      ((exists q, t = TSelect m q /\ select_core fuel true (skip_ws i1) = Ok (q, rest)) \/
       (exists u, t = TUpdate m u /\ update_core fuel alias (skip_ws i1) = Ok (u, rest))).
Proof. exact parse_top_whole. Qed.
Print Assumptions C16_whole_input.

Theorem C16_whole_input_select :
  forall fuel s q, Valid s -> parse_sparql_query fuel s = Ok q ->
    exists m i1 rest, sparql_prefixes s = Ok (m, i1) /\ select_core fuel true i1 = Ok (q, rest) /\ Suf s rest /\ Layout rest.
Proof. exact parse_sparql_query_whole. Qed.
Print Assumptions C16_whole_input_select.

(* ---- (2) term-level round trips, independent of layout ------------------------------------------ *)
(* Token classes are specified independently of the scanners (RoundTrip.v):
     VarTok   `?` / `$` followed by one or more alphanumeric-or-underscore characters (any script)
     IriTok   `<` items `>`, an item being a permitted character or a \uXXXX / \UXXXXXXXX escape of a scalar value
     LitTok   "..." or '...' whose items are plain characters, the simple escapes, or \u / \U escapes
     NumTok   [sign] digits [. digits]  |  [sign] . digits
   LayoutC: any sequence of whitespace characters and `#` comments each ended by CR / LF.
   The `*_stop` side conditions say that the text after the token cannot extend it (e.g. no name character after
   a variable, no `@` / `^^` after a plain literal). *)
Theorem C16_layout_skipped :
  forall w t, LayoutC w -> Valid t -> ~ starts_layout t -> skip_ws (w ++ t) = t.
Proof. exact skip_ws_closed. Qed.
Print Assumptions C16_layout_skipped.

Theorem C16_roundtrip_variable :
  forall w tok rest, LayoutC w -> VarTok tok -> Valid rest -> var_stop rest -> variable (w ++ tok ++ rest) = Ok (tok, rest).
Proof. exact variable_roundtrip. Qed.
Print Assumptions C16_roundtrip_variable.

Theorem C16_roundtrip_iri :
  forall w tok rest, LayoutC w -> IriTok tok -> Valid rest -> iri (w ++ tok ++ rest) = Ok (tok, rest).
Proof. exact iri_roundtrip. Qed.
Print Assumptions C16_roundtrip_iri.

Theorem C16_roundtrip_literal :
  forall w tok rest, LayoutC w -> LitTok tok -> Valid rest -> (forall q, nth 0 tok 0 = q -> lit_stop q rest) ->
    quoted_literal (w ++ tok ++ rest) = Ok (tok, rest).
Proof. exact quoted_literal_roundtrip. Qed.
Print Assumptions C16_roundtrip_literal.

Theorem C16_roundtrip_numeric :
  forall w tok rest, LayoutC w -> NumTok tok -> Valid rest -> num_stop rest -> numeric_literal (w ++ tok ++ rest) = Ok (tok, rest).
Proof. exact numeric_literal_roundtrip. Qed.
Print Assumptions C16_roundtrip_numeric.

(* prefixed names: prefix label (PN_CHARS_BASE (PN_CHARS | .)* not ending in a dot, or empty), `:`, and a local part
   of ordinary characters, inner dots, %HH and backslash escapes (PnameTok); blank node labels (BlankTok) *)
Theorem C16_roundtrip_prefixed_name :
  forall w tok rest, LayoutC w -> PnameTok tok -> Valid rest -> pn_stop rest -> prefixed_name (w ++ tok ++ rest) = Ok (tok, rest).
Proof. exact prefixed_name_roundtrip. Qed.
Print Assumptions C16_roundtrip_prefixed_name.

Theorem C16_roundtrip_blank_node :
  forall w tok rest, LayoutC w -> BlankTok tok -> Valid rest -> blank_stop rest -> blank_node (w ++ tok ++ rest) = Ok (tok, rest).
Proof. exact blank_node_roundtrip. Qed.
Print Assumptions C16_roundtrip_blank_node.

(* the object-term alternative chain (quoted triple, variable, IRI, blank node, literal, ...) returns the printed
   term unchanged, for every nesting fuel >= 1 *)
Theorem C16_roundtrip_term :
  forall f w rest, LayoutC w -> Valid rest ->
    (forall tok, VarTok tok -> var_stop rest -> object_term (S f) (w ++ tok ++ rest) = Ok (tok, rest)) /\
    (forall tok, IriTok tok -> object_term (S f) (w ++ tok ++ rest) = Ok (tok, rest)) /\
    (forall tok, LitTok tok -> (forall q, nth 0 tok 0 = q -> lit_stop q rest) -> object_term (S f) (w ++ tok ++ rest) = Ok (tok, rest)).
Proof.
  intros f w rest Hw Hr. repeat split; intros.
  - now apply object_term_variable.
  - now apply object_term_iri.
  - now apply object_term_literal.
Qed.
Print Assumptions C16_roundtrip_term.

(* ---- (3) statement / group / SELECT round trips (first instances) --------------------------------- *)
(* One triple whose terms are variables or IRIs (SimpleTok), under arbitrary closed layouts between all tokens:
   the triples statement, the group graph pattern `{ s p o }` and the whole request `SELECT * WHERE { s p o }` with
   SELECT / WHERE in ANY letter case (KwCase) and anything that is layout after the closing brace (LayoutEnd, a final
   unterminated comment included) parse to exactly the source tree. *)
Theorem C16_roundtrip_triple :
  forall f w1 s w2 p w3 o rest,
    LayoutC w1 -> LayoutC w2 -> LayoutC w3 -> SimpleTok s -> SimpleTok p -> SimpleTok o -> stmt_end rest ->
    (do r <- triples_statement (S f) (w1 ++ s ++ w2 ++ p ++ w3 ++ o ++ rest); Ok (map strip_t (fst r), snd r)) = Ok ([(s, p, o)], rest).
Proof. exact triple_roundtrip. Qed.
Print Assumptions C16_roundtrip_triple.

Theorem C16_roundtrip_group :
  forall f w0 w1 s w2 p w3 o w4 rest,
    LayoutC w0 -> LayoutC w1 -> LayoutC w2 -> LayoutC w3 -> LayoutC w4 -> SimpleTok s -> SimpleTok p -> SimpleTok o -> Valid rest ->
    group_pattern (S (S (S f))) (w0 ++ 123 :: (w1 ++ s ++ w2 ++ p ++ w3 ++ o ++ w4 ++ 125 :: rest)) = Ok (GBgp [(s, p, o)], rest).
Proof. exact group_roundtrip. Qed.
Print Assumptions C16_roundtrip_group.

Theorem C16_roundtrip_select :
  forall f wa sel wb wc wh w0 w1 s w2 p w3 o w4 wz,
    LayoutC wa -> KwCase kw_select sel -> LayoutC wb -> LayoutC wc -> KwCase kw_where wh ->
    LayoutC w0 -> LayoutC w1 -> LayoutC w2 -> LayoutC w3 -> LayoutC w4 -> SimpleTok s -> SimpleTok p -> SimpleTok o -> LayoutEnd wz ->
    parse_sparql_query (S (S (S (S f))))
      (wa ++ sel ++ wb ++ star_tok ++ wc ++ wh ++ w0 ++ 123 :: (w1 ++ s ++ w2 ++ p ++ w3 ++ o ++ w4 ++ 125 :: wz))
    = Ok (Select false [(star_tok, star_tok, None)] [] [] (GBgp [(s, p, o)]) [] [] None).
Proof. exact select_roundtrip. Qed.
Print Assumptions C16_roundtrip_select.

(* ---- fuel adequacy on ARBITRARY input (FuelProofs.v) ------------------------------------------------------------ *)
(* The model recurses on fuel; `Fuel` is its own artefact.  With fuel linear in the length of the input NO function of
   the grammar model answers `Fuel` - shared-fuel recursion spends at most three units per consumed byte (e.g.
   group_loop -> group_primary -> group_pattern -> `{`), and every loop with its own counter consumes at least one
   byte per iteration.  Hence `Fuel` can be dropped from the totality statements: *)
Theorem C16_fuel_adequate :
  forall fuel alias s, Valid s -> (3 * length s + 5 <= fuel)%nat ->
    parse_top fuel alias s <> Fuel /\ parse_sparql_query fuel s <> Fuel.
Proof. intros fuel alias s Hv Hf. split; [now apply parse_top_no_fuel|now apply parse_sparql_query_no_fuel]. Qed.
Print Assumptions C16_fuel_adequate.

(* the same for every grammar entry the check drives through the hooks *)
Theorem C16_fuel_adequate_entries :
  forall fuel s, Valid s -> (3 * length s + 6 <= fuel)%nat ->
    group_pattern fuel s <> Fuel /\ (forall ad, select_core fuel ad s <> Fuel) /\ (forall alias, update_core fuel alias s <> Fuel) /\
    filter_clause fuel s <> Fuel /\ triples_statement fuel s <> Fuel /\ quad_block s <> Fuel /\
    bind_clause s <> Fuel /\ values_clause s <> Fuel /\ (forall tf, (length s < tf)%nat -> quoted_triple tf s <> Fuel).
Proof.
  intros fuel s Hv Hf. repeat split.
  - apply group_pattern_nf; [assumption|lia].
  - intros ad. apply select_core_nf; [assumption|lia].
  - intros alias. apply update_core_nf; [assumption|lia].
  - apply filter_clause_nf; [assumption|lia].
  - apply triples_statement_nf; [assumption|lia].
  - now apply quad_block_nf.
  - now apply bind_clause_nf.
  - now apply values_clause_nf.
  - intros tf Ht. now apply quoted_triple_nf.
Qed.
Print Assumptions C16_fuel_adequate_entries.

(* TOTALITY, final form: with the fuel of Run.v (8 * length + 64) both entry points answer a syntax tree or an ordinary
   error on EVERY valid UTF-8 request - never a panic (C16_parser_total) and never `Fuel` *)
Theorem C16_parser_total_no_fuel :
  forall alias s, Valid s ->
    ((exists t, parse_top (default_fuel s) alias s = Ok t) \/ (exists k l e, parse_top (default_fuel s) alias s = Err k l e)) /\
    ((exists q, parse_sparql_query (default_fuel s) s = Ok q) \/ (exists k l e, parse_sparql_query (default_fuel s) s = Err k l e)).
Proof. intros alias s Hv. split; [now apply parse_top_total|now apply parse_sparql_query_total]. Qed.
Print Assumptions C16_parser_total_no_fuel.

(* ---- (3') the round trip over layout-annotated syntax trees ----------------------------------------- *)
(* Lex.v ... SizeRT.v.  A concrete syntax tree (CST) is the source tree plus, at every token, the layout printed before it
   (`L`: a list of whitespace characters and `#` comments) and the letter case of every keyword; terms are structured
   (`Term`: the token classes of (2) plus `true` / `false`).  `pr_*` is the printer - a total function on CSTs -, `tr_*`
   forgets the annotations and gives the source tree (the parser's own tree type), `wf_* cst following` is a BOOLEAN
   well-formedness predicate relative to the text that follows (token characters in range, each token stopped by what
   follows it, the parser's negative look-aheads: the next text is not a keyword / operator that would continue the
   construct), `sz_*` bounds the recursion fuel.  ExamplesRT.v evaluates the predicates on a 23-line request that uses
   every construct (satisfiable), on two rejected variations (not trivially true), and re-derives the theorems' result
   by running the model. *)
Section CST.
Import KV.Parser.Lex KV.Parser.StmtRT KV.Parser.FilterRT KV.Parser.FilterRT2 KV.Parser.SelectRT KV.Parser.BindRT KV.Parser.ValuesRT KV.Parser.GroupRT
       KV.Parser.PrologueRT KV.Parser.TopRT KV.Parser.SizeRT KV.Parser.UpdateRT KV.Parser.TokenRT.

(* a triples statement: subject, `;`-separated predicate groups (a predicate or `a`), `,`-separated objects, optional
   trailing `;`; any layout, every term class; the tree is the list of expanded triples *)
Theorem C16_roundtrip_statement :
  forall st tf rest, wf_stmt st rest = true -> stmt_follow st rest ->
    exists ts, triples_statement (S tf) (pr_stmt st ++ rest) = Ok (ts, rest) /\ map strip_t ts = stmt_triples st.
Proof. exact stmt_roundtrip. Qed.
Print Assumptions C16_roundtrip_statement.

(* FILTER: `||` over `&&` over atoms (`!` atom, the five RDF-star function calls, comparisons of arithmetic expressions,
   bare arithmetic, parenthesised boolean expressions), arithmetic with `+ -` over `* /` over operands and
   parenthesised sums: the loops of the parser build exactly the left-nested tree of the CST, i.e. the printed
   precedence is the parsed precedence.  For `( e )` the parser first tries the arithmetic readings (function call,
   comparison `( sum ) op ...`) and only then the boolean one: bool_arith (FilterRT2.v) shows that these readings fail
   on every printed boolean expression, including one that starts with a function call (`name (` is no operand:
   operand_call_err / prefixed_name_err_run), provided the layout between the function name and its `(` does not
   start with a non-ASCII whitespace character (`hd_or`, part of `wf_atom`: U+1680 is whitespace AND PN_CHARS_BASE). *)
Theorem C16_roundtrip_filter_expression :
  forall o fuel rest, (sz_or o <= fuel)%nat -> wf_or o rest = true -> Valid rest -> after_atom rest ->
    no_op2 38 rest -> no_op2 124 rest -> f_or fuel (pr_or o ++ rest) = Ok (tr_or o, rest).
Proof. exact or_roundtrip. Qed.
Print Assumptions C16_roundtrip_filter_expression.

Theorem C16_roundtrip_filter :
  forall f fuel rest, (sz_or (fl_e f) <= fuel)%nat -> wf_filter f rest = true -> Valid rest ->
    filter_clause fuel (pr_filter f ++ rest) = Ok (tr_or (fl_e f), rest).
Proof. exact filter_roundtrip. Qed.
Print Assumptions C16_roundtrip_filter.

(* projection: `*`, or a list of variables and aggregates SUM / MIN / MAX / AVG (`f(?v)`, `f(?v) AS ?a`, `(f(?v) AS ?a)`) *)
Theorem C16_roundtrip_projection :
  forall p rest, wf_proj p rest = true -> Valid rest -> projection_items (pr_proj p ++ rest) = Ok (tr_proj p, rest).
Proof. exact proj_roundtrip. Qed.
Print Assumptions C16_roundtrip_projection.

(* FROM / FROM NAMED (IRI or prefixed name), any number, in any order *)
Theorem C16_roundtrip_dataset :
  forall cs fuel fr nm rest, (length cs < fuel)%nat -> wf_froms cs rest = true -> Valid rest -> kwfree [kw_from] rest = true ->
    from_loop fuel (pr_froms cs ++ rest) fr nm = Ok (fr ++ from_plain cs, nm ++ from_named cs, rest).
Proof. exact from_loop_rt. Qed.
Print Assumptions C16_roundtrip_dataset.

(* GROUP BY ?v+, ORDER BY with plain variables, ASC(?v), DESC(?v) and optional commas, LIMIT n (n <= usize::MAX);
   each clause optional.  After ORDER BY the parser hands on the text with its leading layout already skipped. *)
Theorem C16_roundtrip_modifiers :
  forall rest, Valid rest ->
    (forall o, wf_gbo o rest = true -> opt_clause kw_group group_by_clause [] (pr_gbo o ++ rest) = Ok (tr_gbo o, rest)) /\
    (forall o, wf_obo o rest = true -> opt_clause kw_order order_by_clause [] (pr_obo o ++ rest) = Ok (tr_obo o, obo_rest o rest)) /\
    (forall o, wf_lmo o rest = true ->
       opt_clause kw_limit (fun i => do '(n, r) <- limit_clause i; Ok (Some n, r)) None (pr_lmo o ++ rest) = Ok (tr_lmo o, rest)).
Proof.
  intros rest Hr. repeat split; intros o H; [now apply groupby_rt|now apply orderby_rt|now apply limit_rt].
Qed.
Print Assumptions C16_roundtrip_modifiers.

(* BIND ( fname ( arg, ... ) AS ?v ) with variables, quoted literals (whose quotes the parser drops) and numbers as
   arguments, `concat` canonicalised as the parser does; VALUES ?v { v ... } and VALUES ( ?v ... ) { ( v ... ) ... }
   with IRIs, literals, numbers, booleans, prefixed names and UNDEF *)
Theorem C16_roundtrip_bind :
  forall b rest, wf_bind b rest = true -> Valid rest ->
    bind_clause (pr_bind b ++ rest) =
    Ok ((bind_fname (encode (bd_fn b)), map (fun x => barg_text (oterm x)) (bd_a1 b :: map om (bd_more b)), var_text (bd_v b)), rest).
Proof. exact bind_rt. Qed.
Print Assumptions C16_roundtrip_bind.

Theorem C16_roundtrip_values :
  forall c rest, wf_values c rest = true -> Valid rest ->
    values_clause (pr_values c ++ rest) = Ok ((map var_text (vvars_list (vl_vars c)), map tr_row (vl_rows c)), rest).
Proof. exact values_rt. Qed.
Print Assumptions C16_roundtrip_values.

(* group graph patterns and SELECT, mutually recursive: `{` items `}` where an item is a triples statement, FILTER, BIND,
   VALUES, GRAPH (variable | IRI | prefixed name) `{...}`, or a chain `{...} UNION {...} ...` whose members are group
   patterns or sub-selects `{ SELECT ... }`; statements / GRAPH / chains may be followed by `.`; nesting is unbounded. *)
Theorem C16_roundtrip_group_pattern :
  forall p fuel rest, (sz_grp p <= fuel)%nat -> wf_grp p rest = true -> Valid rest ->
    group_pattern fuel (pr_grp p ++ rest) = Ok (tr_grp p, rest).
Proof. exact (proj1 (proj2 (proj2 (proj2 group_rt)))). Qed.
Print Assumptions C16_roundtrip_group_pattern.

(* SELECT [DISTINCT] projection (FROM [NAMED] g)* [WHERE] { ... } [GROUP BY ...] [ORDER BY ...] [LIMIT n] *)
Theorem C16_roundtrip_select_core :
  forall q fuel allow rest, (sz_sel q <= fuel)%nat -> wf_sel q allow rest = true -> Valid rest ->
    select_core fuel allow (pr_sel q ++ rest) = Ok (tr_sel q, match q with MkSel _ _ _ _ _ _ _ _ ob lm => sel_rest ob lm rest end).
Proof. exact (proj2 (proj2 (proj2 (proj2 (proj2 group_rt))))). Qed.
Print Assumptions C16_roundtrip_select_core.

(* PREFIX declarations: any letter case, layout also between `PREFIX`, the label, the colon and the IRI *)
Theorem C16_roundtrip_prefix :
  forall c rest, wf_prefix c = true -> Valid rest ->
    prefix_declaration (pr_prefix c ++ rest) = Ok ((encode (px_p c), iri_body (px_iri c)), rest).
Proof. exact prefix_rt. Qed.
Print Assumptions C16_roundtrip_prefix.

(* the whole request, through both entry points: a prologue, a SELECT query and then layout (possibly ending in an
   unterminated comment) up to the end of input parse to exactly the source tree (a later PREFIX of the same label
   replaces the earlier one, as HashMap::insert does) *)
Theorem C16_roundtrip_query :
  forall ps q e fuel, (sz_sel q <= fuel)%nat -> forallb wf_prefix ps = true -> wf_sel q true (pr_end e) = true -> wf_end e = true ->
    parse_sparql_query fuel (pr_prologue ps ++ pr_sel q ++ pr_end e) = Ok (tr_sel q) /\
    forall aliases, parse_top fuel aliases (pr_prologue ps ++ pr_sel q ++ pr_end e) = Ok (TSelect (tr_prologue ps []) (tr_sel q)).
Proof. intros ps q e fuel Hf Hps H He. split; [now apply query_roundtrip|intros; now apply top_select_roundtrip]. Qed.
Print Assumptions C16_roundtrip_query.

(* fuel adequacy for printed requests: `sz_sel q <= 3 * length (pr_sel q)` (SizeRT.v), so the fuel of Run.v that the
   correspondence check uses is always enough - no fuel hypothesis is left *)
Theorem C16_roundtrip_query_default_fuel :
  forall ps q e aliases, forallb wf_prefix ps = true -> wf_sel q true (pr_end e) = true -> wf_end e = true ->
    let text := pr_prologue ps ++ pr_sel q ++ pr_end e in
    parse_sparql_query (default_fuel text) text = Ok (tr_sel q) /\
    parse_top (default_fuel text) aliases text = Ok (TSelect (tr_prologue ps []) (tr_sel q)).
Proof. exact query_roundtrip_default. Qed.
Print Assumptions C16_roundtrip_query_default_fuel.
(* ---- the six update forms ---------------------------------------------------------------------------------------- *)
(* quad blocks `{ ... }` of triples statements and `GRAPH name { statements }` templates, optional `.` everywhere *)
Theorem C16_roundtrip_quad_block :
  forall q R, wf_qb q R = true -> Valid R -> exists qs, quad_block (pr_qb q ++ R) = Ok (qs, R) /\ map strip_q qs = tr_qb q.
Proof. exact quad_block_rt. Qed.
Print Assumptions C16_roundtrip_quad_block.

(* INSERT DATA, DELETE DATA, INSERT {..} WHERE {..}, DELETE {..} WHERE {..}, DELETE {..} INSERT {..} WHERE {..},
   DELETE WHERE {..}; `wf_upd` = syntax (`wf_upd_syntax`) + the parser's term checks (`wf_upd_terms`: no variable in a
   DATA block, no blank node in anything deleted) *)
Theorem C16_roundtrip_update :
  forall u fuel allow R, (sz_upd u <= fuel)%nat -> wf_upd u R = true -> Valid R ->
    update_core fuel allow (pr_upd u ++ R) = Ok (tr_upd u, R).
Proof. exact update_rt. Qed.
Print Assumptions C16_roundtrip_update.

(* the whole update request through parse_top, with the fuel of Run.v *)
Theorem C16_roundtrip_update_request :
  forall ps u e aliases, forallb wf_prefix ps = true -> wf_upd u (pr_end e) = true -> wf_end e = true ->
    let text := pr_prologue ps ++ pr_upd u ++ pr_end e in
    parse_top (default_fuel text) aliases text = Ok (TUpdate (tr_prologue ps []) (tr_upd u)).
Proof. exact top_update_roundtrip_default. Qed.
Print Assumptions C16_roundtrip_update_request.

(* the DATA-block checks reject exactly the ill-formed trees of these shapes: a syntactically well-formed INSERT DATA
   with a variable (graph name included), DELETE DATA with a variable or a blank node, is answered with an error *)
Theorem C16_update_data_checks_reject :
  forall l kw l2 kw2 qb fuel allow R, Valid R -> forallb quad_simple (tr_qb qb) = true ->
    (wf_upd_syntax (UInsertData l kw l2 kw2 qb) R = true -> existsb (quad_hit is_variable_term true) (tr_qb qb) = true ->
       is_err (update_core fuel allow (pr_upd (UInsertData l kw l2 kw2 qb) ++ R))) /\
    (wf_upd_syntax (UDeleteData l kw l2 kw2 qb) R = true ->
       existsb (quad_hit is_variable_term true) (tr_qb qb) || existsb (quad_hit is_blank_term false) (tr_qb qb) = true ->
       is_err (update_core fuel allow (pr_upd (UDeleteData l kw l2 kw2 qb) ++ R))).
Proof.
  intros l kw l2 kw2 qb fuel allow R HR Hs. split; intros H Hh.
  - now apply insert_data_rejects_variables.
  - now apply delete_data_rejects_variables_and_blank_nodes.
Qed.
Print Assumptions C16_update_data_checks_reject.
(* ---- the remaining token classes, at scanner / term-position level (TokenRT.v) ------------------------------------ *)
(* numbers with an exponent: mantissa (NumTok), `e` | `E`, optional sign, digits *)
Theorem C16_roundtrip_numeric_exponent :
  forall w tok rest, LayoutC w -> NumTokE tok -> Valid rest -> num_stop rest -> numeric_literal (w ++ tok ++ rest) = Ok (tok, rest).
Proof. exact numeric_exponent_roundtrip. Qed.
Print Assumptions C16_roundtrip_numeric_exponent.

(* literals: short (`q body q`) or LONG (`qqq body qqq`, both quote kinds, line breaks and the other quote kind inside),
   plain, with a language tag `@alpha+(-alnum+)*`, or with a datatype `^^` layout (IRI | prefixed name) *)
Theorem C16_roundtrip_literal_forms :
  forall w lit rest, LayoutC w -> AnyLit lit -> Valid rest ->
    ((match rest with b :: _ => b <> 64 /\ b <> 94 /\ b <> 34 /\ b <> 39 | [] => True end) -> quoted_literal (w ++ lit ++ rest) = Ok (lit, rest)) /\
    (forall lang, LangTag lang -> lang_stop rest -> quoted_literal (w ++ (lit ++ 64 :: lang) ++ rest) = Ok (lit ++ 64 :: lang, rest)) /\
    (forall wd t, lay_okb wd = true -> term_okb t = true -> is_dt_kind t = true -> term_stopb t rest = true ->
       quoted_literal (w ++ (lit ++ 94 :: 94 :: lay_bytes wd ++ term_text t) ++ rest) = Ok (lit ++ 94 :: 94 :: lay_bytes wd ++ term_text t, rest)).
Proof.
  intros w lit rest Hw Hl Vr. repeat split.
  - intros Hh. now apply literal_plain_roundtrip.
  - intros lang Hg Hst. now apply literal_lang_roundtrip_any.
  - intros wd t Hwd Hok Hk Hst. now apply literal_datatype_roundtrip_any.
Qed.
Print Assumptions C16_roundtrip_literal_forms.

(* quoted triples `<< s p o >>` (one level) as a token and as subject / object term.  Layout inside is restricted to
   whitespace (`lay_wsb`, part of `wf_qt`): the raw slice is the term's text, and the open finding
   C16-comment-in-quoted-triple shows that a comment inside changes the answers of a request *)
Theorem C16_roundtrip_quoted_triple :
  forall c f w rest, wf_qt c rest = true -> LayoutC w -> Valid rest ->
    quoted_triple (S (S f)) (w ++ pr_qt c ++ rest) = Ok (pr_qt c, rest) /\
    subject_term (S (S f)) (w ++ pr_qt c ++ rest) = Ok (pr_qt c, rest) /\ object_term (S (S f)) (w ++ pr_qt c ++ rest) = Ok (pr_qt c, rest).
Proof. intros c f w rest H Hw Hr. split; [now apply qt_roundtrip|now apply qt_term_roundtrip]. Qed.
Print Assumptions C16_roundtrip_quoted_triple.

(* bare identifiers (ASCII: a letter, then letters / digits / `_` / `-`) where the grammar allows them: the last
   alternative of the subject and of the object chain, when every earlier scanner - prefixed name included - fails *)
Theorem C16_roundtrip_bare_identifier :
  forall f w tok rest, LayoutC w -> BareTok tok -> Valid rest -> bare_stop rest ->
    subject_term (S f) (w ++ tok ++ rest) = Ok (tok, rest) /\
    (kw_free_text [kw_true; kw_false] (tok ++ rest) = true -> object_term (S f) (w ++ tok ++ rest) = Ok (tok, rest)).
Proof. intros f w tok rest Hw Ht Hr Hst. split; [now apply bare_identifier_subject|intros; now apply bare_identifier_object]. Qed.
Print Assumptions C16_roundtrip_bare_identifier.
End CST.

(* C16_roundtrip_partial.  NOT proved as a round trip (decided on generated trees under ~10 layouts by the tree stream of
   checks/c16.py - implementation vs Spec tree vs this model - and by the exhaustive follower stream):
   - in FILTER: a parenthesised boolean expression that starts with a function call whose name is followed by a
     NON-ASCII whitespace character before `(` (U+1680 would be read as part of a prefix label); a bare arithmetic
     atom that starts with a parenthesised operand, `FILTER((?a) * 2)` - the parser REJECTS it
     (ExamplesRT.paren_arith_atom_rejected), so there is nothing to round-trip;
   - `.` after FILTER / BIND / VALUES (the parser rejects it), OPTIONAL / MINUS (not in the grammar), a VALUES block
     `( ?x ) { ( 1 ) }` with one parenthesised variable and parenthesised rows (rejected by the parser as well);
   - the DATA aliases of parse_combined_query_with_options (`INSERT { .. }` / `DELETE { .. }` without WHERE);
   - token classes: numbers with exponents, literals with language tag / datatype, long strings, one-level quoted triples
     and ASCII bare identifiers are proved at scanner / term-position level (C16_roundtrip_numeric_exponent ..
     C16_roundtrip_bare_identifier) but are NOT constructors of the CST type `Term` yet, so they do not occur inside the
     statement / group / request theorems; not proved at all: NESTED quoted triples, a long string that contains its own
     quote character unescaped, non-ASCII bare identifiers;
   (fuel adequacy is no longer partial: C16_fuel_adequate / C16_parser_total_no_fuel hold for arbitrary input.) *)

(* ---- the lexical helpers of the lowering (utils.rs) ------------------------------------------------ *)
(* unescape_sparql_iri and literal_lexical_value (as repaired by 484100d: `hexadecimal.get(..digits)`) return a
   string on EVERY valid UTF-8 input - no panic, no fuel exhaustion, no precondition on the escapes. *)
Theorem C16_lexical_helpers_total :
  forall s, Valid s ->
    (exists r, unescape_iri s = Ok r) /\ (exists r, literal_lexical_value s = Ok r).
Proof.
  intros s Hv. pose proof (unescape_iri_total s Hv) as H1. pose proof (literal_lexical_value_total s Hv) as H2.
  split; [destruct (unescape_iri s); try contradiction; eauto|destruct (literal_lexical_value s); try contradiction; eauto].
Qed.
Print Assumptions C16_lexical_helpers_total.

(* Regression lemma about the code BEFORE 484100d (`&hexadecimal[..digits]`, model variant `checked = false`): on the
   valid string backslash-u-0-0-0 followed by U+00E9 it panicked; the repaired code returns the text unchanged
   except for the dropped backslash (not an escape).  Former known finding C16-lexical-helper-slice. *)
Theorem C16_unescape_prefix_regression :
  exists s, Valid s /\ unescape_iri_gen false s = Panic /\ literal_lexical_value_gen false (34 :: s ++ [34]) = Panic /\
            unescape_iri s = Ok [117; 48; 48; 48; 195; 169].
Proof.
  exists (bs "\u000" ++ [195; 169]). split; [|repeat split; vm_compute; reflexivity].
  exists [92; 117; 48; 48; 48; 233]. split; [repeat constructor|vm_compute; reflexivity].
Qed.
Print Assumptions C16_unescape_prefix_regression.

(* ---- non-vacuity -------------------------------------------------------------------------------- *)
Example C16_example_select :
  exists q, parse_sparql_query 2000 (bs "PREFIX ex: <http://e/> select ?s where { ?s ex:p 'v'@en ; a ?c . filter(?c != ex:D) } # ok") = Ok q.
Proof. eexists. vm_compute. reflexivity. Qed.

Example C16_example_garbage :
  exists k l e, parse_sparql_query 2000 (bs "SELECT * WHERE { ?s ?p ?o } garbage") = Err k l e.
Proof. eexists _, _, _. vm_compute. reflexivity. Qed.

Example C16_example_tokens :
  VarTok (bs "?x_1") /\ IriTok (bs "<http://e/\u00e9#a>") /\ LitTok (bs "'a\n\u0041'") /\ NumTok (bs "-12.50") /\
  LayoutC (bs " # c
	").
Proof.
  split; [apply (vartok 63 [120; 95; 49]); [now left|discriminate|repeat constructor|repeat constructor]|].
  split; [apply (iritok [IC 104; IC 116; IC 116; IC 112; IC 58; IC 47; IC 47; IC 101; IC 47; IE4 (bs "00e9"); IC 35; IC 97]);
          repeat constructor; cbv; intuition discriminate|].
  split; [apply (littok 39 [LCh 97; LSimple 110; LU4 (bs "0041")]); [now right|repeat constructor; cbv; intuition discriminate]|].
  split; [apply (numtok [45] [49; 50] [46; 53; 48]); [auto|repeat constructor|right; exists [53; 48]; repeat split; [discriminate|repeat constructor]|left; discriminate]|].
  apply (LC_comment [32] [32; 99] 10 [9]); [apply (W_cons 32 []); [reflexivity|reflexivity|constructor]|repeat constructor; lia
    |apply valid_ascii; repeat constructor; lia|now left|apply LC_end; apply (W_cons 9 []); [reflexivity|reflexivity|constructor]].
Qed.

Example C16_example_tokens2 :
  PnameTok (bs "ex:a.b%2F\-c") /\ BlankTok (bs "_:b1.x").
Proof.
  split.
  - apply (pnametok (bs "ex") [LOrd 97; LDot; LOrd 98; LPct 50 70; LEsc 45; LOrd 99]).
    + apply (pp_label 101 [120]); [repeat constructor|reflexivity|reflexivity|repeat constructor; now right|cbn; lia].
    + cbn. repeat split; reflexivity.
    + cbn. reflexivity.
  - apply (blanktok 98 [49; 46; 120]); [repeat constructor|reflexivity| |cbn; lia].
    repeat constructor; (now right) || (now left).
Qed.

Example C16_example_select_roundtrip :
  parse_sparql_query 10 (bs "# q
 seLEct * wHERe{?s <http://e/p>
?o}#done") = Ok (Select false [(star_tok, star_tok, None)] [] [] (GBgp [(bs "?s", bs "<http://e/p>", bs "?o")]) [] [] None).
Proof. vm_compute. reflexivity. Qed.

Example C16_example_valid : Valid (bs "SELECT * WHERE { ?s ?p 'x' }").
Proof. apply valid_ascii. vm_compute. repeat constructor. Qed.
