(* Round trip of prefixed names (PNAME_LN / PNAME_NS as the scanner defines them). *)
Require Import List NArith Bool PeanoNat Lia ZifyBool ZifyN.
Require Import KV.Parser.Utf8 KV.Parser.Unicode KV.Parser.Keywords KV.Parser.Scanners KV.Parser.Grammar.
Require Import KV.Parser.Utf8Proofs KV.Parser.ScannerProofs KV.Parser.GrammarProofs KV.Parser.RoundTrip.
Import ListNotations.
Open Scope N_scope.

Inductive LocItem : Type := LOrd (c : N) | LDot | LPct (h1 h2 : N) | LEsc (e : N).

Definition loc_bytes (it : LocItem) : str :=
  match it with
  | LOrd c => encode_char c
  | LDot => [46]
  | LPct h1 h2 => [37; h1; h2]
  | LEsc e => [92; e]
  end.
Definition local_bytes (items : list LocItem) : str := flat_map loc_bytes items.

Definition ordinary (first : bool) (c : N) : bool :=
  if first then pn_chars_u c || is_ascii_digit c || (c =? 58) else pn_chars c || (c =? 58).

Fixpoint loc_ok (first : bool) (items : list LocItem) : Prop :=
  match items with
  | [] => True
  | LOrd c :: t => scalar c /\ ordinary first c = true /\ loc_ok false t
  | LDot :: t => first = false /\ loc_ok false t
  | LPct h1 h2 :: t => is_ascii_hexdigit h1 = true /\ is_ascii_hexdigit h2 = true /\ loc_ok false t
  | LEsc e :: t => pn_local_esc e = true /\ loc_ok false t
  end.

Definition is_dot (it : LocItem) : bool := match it with LDot => true | _ => false end.
Definition ends_ok (items : list LocItem) : Prop := match rev items with it :: _ => is_dot it = false | [] => True end.

(* prefix label: empty, or PN_CHARS_BASE (PN_CHARS | '.')* not ending with '.' *)
Inductive PnPrefix : str -> Prop :=
| pp_empty : PnPrefix []
| pp_label : forall c0 cs, Forall scalar (c0 :: cs) -> pn_chars_base c0 = true -> is_whitespace c0 = false ->
    Forall (fun c => c = 46 \/ pn_chars c = true) cs -> (match rev cs with c :: _ => c <> 46 | [] => True end) -> PnPrefix (encode (c0 :: cs)).

Inductive PnameTok : str -> Prop :=
| pnametok : forall p items, PnPrefix p -> loc_ok true items -> ends_ok items -> PnameTok (p ++ 58 :: local_bytes items).

Definition pn_stop (rest : str) : Prop :=
  match next_char rest with
  | None => True
  | Some (c, _) => pn_chars c = false /\ c <> 58 /\ c <> 46 /\ c <> 37 /\ c <> 92
  end.

(* ---- the prefix ---- *)
Lemma pn_prefix_loop_exact : forall cs fuel off prev, Forall scalar cs -> Forall (fun c => c = 46 \/ pn_chars c = true) cs ->
  (length (encode cs) <= fuel)%nat ->
  pn_prefix_loop fuel (encode cs) off prev = (None, match rev cs with c :: _ => c =? 46 | [] => prev end).
Proof.
  induction cs as [|c cs IH]; intros fuel off prev Hs Hc Hf.
  - cbn. destruct fuel; reflexivity.
  - inversion Hs as [|? ? Hsc Hs']; subst. inversion Hc as [|? ? Hcc Hc']; subst. cbn [encode] in *.
    destruct fuel as [|f]; [rewrite app_length, encode_char_len in Hf; pose proof (len_utf8_pos c); lia|].
    cbn [pn_prefix_loop]. rewrite next_char_encode by now apply scalar_lt.
    rewrite <- encode_char_len, skipn_app, skipn_all, Nat.sub_diag. cbn [skipn app].
    assert (Hf' : (length (encode cs) <= f)%nat) by (rewrite app_length, encode_char_len in Hf; pose proof (len_utf8_pos c); lia).
    assert (Rev : forall p, match rev cs with c1 :: _ => c1 =? 46 | [] => p end = match rev (c :: cs) with c1 :: _ => c1 =? 46 | [] => prev end ->
              True) by auto.
    destruct (N.eqb_spec c 46) as [->|Hne].
    + rewrite IH by assumption. f_equal. cbn [rev]. destruct (rev cs) as [|x l]; reflexivity.
    + destruct Hcc as [?|Hp]; [congruence|]. rewrite Hp. rewrite IH by assumption. f_equal. cbn [rev].
      destruct (rev cs) as [|x l]; cbn [app]; [now apply N.eqb_neq in Hne; rewrite Hne|reflexivity].
Qed.

Lemma invalid_pn_prefix_none : forall p, PnPrefix p -> invalid_pn_prefix p = Ok None.
Proof.
  intros p Hp. destruct Hp as [|c0 cs Hs Hb Hws Hc Hl]; [reflexivity|].
  inversion Hs as [|? ? Hs0 Hs']; subst. unfold invalid_pn_prefix. cbn [encode].
  rewrite next_char_encode by now apply scalar_lt. rewrite Hb. cbn [negb].
  assert (B : Bnd (encode_char c0 ++ encode cs) (len_utf8 c0)).
  { rewrite <- encode_char_len. apply valid_app_bnd; [exists [c0]; split; [now constructor|cbn; now rewrite app_nil_r]|now apply valid_encode]. }
  rewrite slice_from_bnd by assumption. cbn [lift bind].
  rewrite <- encode_char_len, skipn_app, skipn_all, Nat.sub_diag. cbn [skipn app].
  rewrite pn_prefix_loop_exact by (try assumption; lia).
  assert (E : match rev cs with c :: _ => c =? 46 | [] => false end = false).
  { destruct (rev cs) as [|x l]; [reflexivity|now apply N.eqb_neq]. }
  rewrite E. reflexivity.
Qed.

(* no byte of the prefix is a colon, so `find(':')` finds the separator *)
Lemma encode_char_no_byte : forall c b, scalar c -> c <> b -> b < 128 -> ~ In b (encode_char c).
Proof.
  intros c b Hc Hne Hb Hin. destruct (N.lt_ge_cases c 128) as [Hlt|Hge].
  - rewrite encode_char_ascii in Hin by assumption. destruct Hin as [->|[]]. congruence.
  - pose proof (encode_char_bytes_high c b Hge (scalar_lt _ Hc) Hin). lia.
Qed.

Lemma find_byte_app : forall b a r, ~ In b a -> find_byte b (a ++ b :: r) = Some (length a).
Proof.
  intros b. induction a as [|x a IH]; intros r Hn.
  - cbn. now rewrite N.eqb_refl.
  - cbn [app find_byte length]. destruct (N.eqb_spec x b) as [->|]; [exfalso; apply Hn; now left|].
    rewrite IH; [reflexivity|]. intro H. apply Hn. now right.
Qed.

Lemma prefix_no_colon : forall p, PnPrefix p -> ~ In 58 p.
Proof.
  intros p Hp. destruct Hp as [|c0 cs Hs Hb Hws Hc Hl]; [intros []|].
  assert (All : Forall (fun c => scalar c /\ c <> 58) (c0 :: cs)).
  { inversion Hs as [|? ? Hs0 Hs']; subst. constructor.
    - split; [assumption|]. intro E. subst c0. vm_compute in Hb. discriminate.
    - rewrite Forall_forall in *. intros c Hin. split; [now apply Hs'|]. intro E. subst c.
      destruct (Hc 58 Hin) as [?|Hp]; [lia|]. vm_compute in Hp. discriminate. }
  clear - All. induction All as [|c l [Hc Hne] _ IH]; [intros []|].
  cbn [encode]. intro Hin. apply in_app_or in Hin. destruct Hin as [Hin|Hin]; [|now apply IH].
  exact (encode_char_no_byte c 58 Hc Hne ltac:(lia) Hin).
Qed.

(* ---- the local part ---- *)
Definition te_after (items : list LocItem) (index te : nat) : nat :=
  snd (fold_left (fun acc it => let i := (fst acc + length (loc_bytes it))%nat in (i, if is_dot it then snd acc else i)) items (index, te)).

Lemma loc_item_valid : forall it first rest, loc_ok first (it :: rest) -> Valid (loc_bytes it).
Proof.
  intros [c| |h1 h2|e] first rest H; cbn in *.
  - destruct H as (Hc & _). exists [c]. split; [now constructor|cbn; now rewrite app_nil_r].
  - apply valid_ascii. repeat constructor; lia.
  - destruct H as (H1 & H2 & _). apply hexdigit_ascii in H1, H2. apply valid_ascii. repeat constructor; lia.
  - destruct H as (He & _). assert (e < 128) by (unfold pn_local_esc in He; lia). apply valid_ascii. repeat constructor; lia.
Qed.

Lemma local_bytes_valid : forall items first, loc_ok first items -> Valid (local_bytes items).
Proof.
  induction items as [|it items IH]; intros first H; [apply valid_nil|]. cbn [local_bytes flat_map].
  apply valid_app; [eapply loc_item_valid; eassumption|].
  destruct it; cbn in H; [destruct H as (_ & _ & H)|destruct H as (_ & H)|destruct H as (_ & _ & H)|destruct H as (_ & H)]; eapply IH; eassumption.
Qed.

Lemma loc_ok_tail : forall it items first, loc_ok first (it :: items) -> loc_ok false items.
Proof. intros [c| |h1 h2|e] items first H; cbn in H; tauto. Qed.

Lemma stop_not_ordinary : forall first c, pn_chars c = false -> c <> 58 -> ordinary first c = false.
Proof.
  intros first c Hp H58. apply N.eqb_neq in H58. unfold ordinary. destruct first; [|now rewrite Hp, H58].
  unfold pn_chars in Hp. do 4 (apply orb_false_iff in Hp; destruct Hp as [Hp _]).
  apply orb_false_iff in Hp. destruct Hp as [Hu Hd]. now rewrite Hu, Hd, H58.
Qed.

Lemma local_loop_exact : forall items fuel pre rest index te first, loc_ok first items -> Valid pre -> Valid rest -> pn_stop rest ->
  index = length pre -> Nat.lt (length (local_bytes items ++ rest)) fuel ->
  local_loop fuel (pre ++ local_bytes items ++ rest) index te first = Ok (te_after items index te).
Proof.
  induction items as [|it items IH]; intros fuel pre rest index te first Hok Hp Hr Hst -> Hf.
  - cbn [local_bytes flat_map app] in *. unfold te_after. cbn [fold_left snd]. destruct fuel as [|f]; [lia|]. cbn [local_loop].
    destruct (Nat.ltb_spec (length pre) (length (pre ++ rest))) as [Hlt|_]; [|reflexivity].
    rewrite slice_from_bnd by (now apply valid_app_bnd). cbn [lift bind]. rewrite skipn_app, skipn_all, Nat.sub_diag. cbn [skipn app].
    unfold pn_stop in Hst. destruct (next_char rest) as [[c n]|] eqn:En.
    + destruct Hst as (Hpc & H58 & H46 & H37 & H92).
      pose proof (stop_not_ordinary first c Hpc H58) as Ho. unfold ordinary in Ho.
      rewrite Ho. destruct (N.eqb_spec c 46); [congruence|]. destruct (N.eqb_spec c 37); [congruence|]. destruct (N.eqb_spec c 92); [congruence|]. reflexivity.
    + apply next_char_nil in En. subst rest. rewrite app_nil_r in Hlt. lia.
  - cbn [local_bytes flat_map] in *. fold (local_bytes items) in *. rewrite <- app_assoc in *.
    destruct fuel as [|f]; [lia|]. cbn [local_loop].
    pose proof (loc_item_valid _ _ _ Hok) as Vit. pose proof (loc_ok_tail _ _ _ Hok) as Hok'.
    assert (Vb : Valid (local_bytes items ++ rest)) by (apply valid_app; [eapply local_bytes_valid; eassumption|assumption]).
    assert (Vt : Valid (loc_bytes it ++ local_bytes items ++ rest)) by now apply valid_app.
    destruct (Nat.ltb_spec (length pre) (length (pre ++ loc_bytes it ++ local_bytes items ++ rest))) as [_|Hge].
    2:{ rewrite !app_length in Hge. assert (1 <= length (loc_bytes it))%nat by (destruct it; cbn; try lia; rewrite encode_char_len; apply len_utf8_pos). lia. }
    rewrite slice_from_bnd by (now apply valid_app_bnd). cbn [lift bind]. rewrite skipn_app, skipn_all, Nat.sub_diag. cbn [skipn app].
    assert (Next : forall te', local_loop f (pre ++ loc_bytes it ++ local_bytes items ++ rest) (length pre + length (loc_bytes it)) te' false
                     = Ok (te_after items (length pre + length (loc_bytes it)) te')).
    { intros te'. specialize (IH f (pre ++ loc_bytes it) rest (length pre + length (loc_bytes it))%nat te' false Hok' (valid_app _ _ Hp Vit) Hr Hst).
      rewrite <- !app_assoc in IH. apply IH; [now rewrite app_length|]. rewrite app_length in Hf.
      assert (1 <= length (loc_bytes it))%nat by (destruct it; cbn; try lia; rewrite encode_char_len; apply len_utf8_pos). lia. }
    unfold te_after. cbn [fold_left]. fold (te_after items).
    destruct it as [c| |h1 h2|e]; cbn [loc_bytes loc_ok is_dot fst snd length] in *.
    + destruct Hok as (Hc & Ho & _). rewrite next_char_encode by now apply scalar_lt. unfold ordinary in Ho. rewrite Ho.
      rewrite <- encode_char_len. rewrite Next. unfold te_after. reflexivity.
    + destruct Hok as (-> & _). cbn [app next_char]. change (46 <? 128) with true. cbv beta iota.
      change (pn_chars 46 || (46 =? 58)) with false. cbv beta iota. change (46 =? 46) with true. cbv beta iota.
      rewrite Next. unfold te_after. reflexivity.
    + destruct Hok as (H1 & H2 & _). cbn [app next_char]. change (37 <? 128) with true. cbv beta iota.
      assert (Ho : (if first then pn_chars_u 37 || is_ascii_digit 37 || (37 =? 58) else pn_chars 37 || (37 =? 58)) = false) by (destruct first; reflexivity).
      rewrite Ho. change (37 =? 46) with false. change (37 =? 37) with true. cbv beta iota. rewrite H1, H2. cbn [andb].
      rewrite Next. unfold te_after. reflexivity.
    + destruct Hok as (He & _). assert (He128 : e < 128) by (unfold pn_local_esc in He; lia).
      cbn [app next_char]. change (92 <? 128) with true. cbv beta iota.
      assert (Ho : (if first then pn_chars_u 92 || is_ascii_digit 92 || (92 =? 58) else pn_chars 92 || (92 =? 58)) = false) by (destruct first; reflexivity).
      rewrite Ho. change (92 =? 46) with false. change (92 =? 37) with false. change (92 =? 92) with true. cbv beta iota.
      rewrite slice_from_bnd.
      2:{ change (92 :: e :: local_bytes items ++ rest) with ([92] ++ e :: local_bytes items ++ rest).
          apply (valid_app_bnd [92]); [apply valid_ascii; repeat constructor; lia|].
          apply (valid_app [e]); [apply valid_ascii; repeat constructor; assumption|assumption]. }
      cbn [lift bind skipn next_char]. destruct (N.ltb_spec e 128); [|lia]. rewrite He.
      replace (length pre + 1 + 1)%nat with (length pre + 2)%nat by lia. rewrite Next. unfold te_after. reflexivity.
Qed.

Lemma fold_fst : forall items index te,
  fst (fold_left (fun acc it => let i := (fst acc + length (loc_bytes it))%nat in (i, if is_dot it then snd acc else i)) items (index, te))
  = (index + length (local_bytes items))%nat.
Proof.
  induction items as [|it items IH]; intros index te; [cbn; lia|].
  cbn [fold_left local_bytes flat_map]. rewrite IH. cbn [fst]. rewrite app_length. fold (local_bytes items). lia.
Qed.

Lemma te_after_total : forall items index te, ends_ok items -> items <> [] ->
  te_after items index te = (index + length (local_bytes items))%nat.
Proof.
  intros items index te He Hne. destruct (rev items) as [|it l] eqn:Er.
  - destruct items; [congruence|]. cbn [rev] in Er. destruct (rev items); discriminate.
  - assert (Ei : items = rev l ++ [it]) by (rewrite <- (rev_involutive items), Er; reflexivity).
    unfold ends_ok in He. rewrite Er in He. subst items. unfold te_after. rewrite fold_left_app. cbn [fold_left snd].
    rewrite He. rewrite fold_fst. unfold local_bytes. rewrite flat_map_app. cbn [flat_map]. rewrite app_nil_r, app_length. lia.
Qed.

Theorem prefixed_name_roundtrip : forall w tok rest, LayoutC w -> PnameTok tok -> Valid rest -> pn_stop rest ->
  prefixed_name (w ++ tok ++ rest) = Ok (tok, rest).
Proof.
  intros w tok rest Hw Ht Hr Hst. inversion Ht as [p items Hp Hok Hend]; subst.
  assert (Vp : Valid p) by (destruct Hp; [apply valid_nil|now apply valid_encode]).
  assert (Vl : Valid (local_bytes items)) by (eapply local_bytes_valid; eassumption).
  assert (Vcl : Valid (58 :: local_bytes items)) by (apply (valid_app [58]); [apply valid_ascii; repeat constructor; lia|assumption]).
  assert (Vtok : Valid (p ++ 58 :: local_bytes items)) by now apply valid_app.
  unfold prefixed_name. rewrite skip_ws_closed; [|assumption|now apply valid_app|].
  2:{ destruct Hp as [|c0 cs Hs Hb Hws Hc Hl].
      - cbn [app]. apply ascii_head_not_layout; [lia|reflexivity|lia].
      - inversion Hs as [|? ? Hs0 Hs']; subst. unfold starts_layout. cbn [encode]. rewrite <- !app_assoc.
        rewrite next_char_encode by now apply scalar_lt. intros [H|H]; [congruence|]. subst c0. vm_compute in Hb. discriminate. }
  rewrite <- app_assoc. cbn [app]. rewrite find_byte_app by now apply prefix_no_colon.
  assert (Bp : Bnd (p ++ 58 :: local_bytes items ++ rest) (length p)).
  { apply valid_app_bnd; [assumption|]. apply (valid_app [58]); [apply valid_ascii; repeat constructor; lia|now apply valid_app]. }
  rewrite slice_to_bnd by assumption. cbn [lift bind]. rewrite firstn_app, firstn_all, Nat.sub_diag. cbn [firstn]. rewrite app_nil_r.
  rewrite invalid_pn_prefix_none by assumption. cbn [bind].
  assert (Bc : Bnd (p ++ 58 :: local_bytes items ++ rest) (length p + 1)).
  { replace (p ++ 58 :: local_bytes items ++ rest) with ((p ++ [58]) ++ local_bytes items ++ rest) by (rewrite <- app_assoc; reflexivity).
    replace (length p + 1)%nat with (length (p ++ [58])) by (rewrite app_length; reflexivity).
    apply valid_app_bnd; [apply valid_app; [assumption|apply valid_ascii; repeat constructor; lia]|now apply valid_app]. }
  rewrite slice_from_bnd by assumption. cbn [lift bind].
  replace (skipn (length p + 1) (p ++ 58 :: local_bytes items ++ rest)) with (local_bytes items ++ rest)
    by (rewrite <- skipn_plus, skipn_app, skipn_all, Nat.sub_diag; reflexivity).
  pose proof (local_loop_exact items (S (length (local_bytes items ++ rest))) [] rest 0 0 true Hok valid_nil Hr Hst eq_refl ltac:(lia)) as H.
  cbn [app] in H. rewrite H. cbn [bind].
  assert (Ete : te_after items 0 0 = length (local_bytes items)).
  { destruct items as [|it items']; [reflexivity|]. rewrite te_after_total by (try assumption; discriminate). reflexivity. }
  rewrite Ete.
  replace (length p + 1 + length (local_bytes items))%nat with (length (p ++ 58 :: local_bytes items)) by (rewrite app_length; cbn [length]; lia).
  apply split_at_app'; [now rewrite <- app_assoc|assumption|assumption].
Qed.

(* ---- blank node labels --------------------------------------------------------------------------- *)
Inductive BlankTok : str -> Prop :=
| blanktok : forall c0 cs, Forall scalar (c0 :: cs) -> pn_chars_u c0 || is_ascii_digit c0 = true ->
    Forall (fun c => c = 46 \/ pn_chars c = true) cs -> (match rev cs with c :: _ => c <> 46 | [] => True end) ->
    BlankTok (95 :: 58 :: encode (c0 :: cs)).

Definition blank_stop (rest : str) : Prop :=
  match next_char rest with
  | None => True
  | Some (c, _) => pn_chars c = false /\ c <> 46
  end.

Definition bte_after (cs : list N) (index te : nat) : nat :=
  snd (fold_left (fun acc c => let i := (fst acc + len_utf8 c)%nat in (i, if c =? 46 then snd acc else i)) cs (index, te)).

Lemma pn_chars_46 : pn_chars 46 = false.
Proof. reflexivity. Qed.

Lemma blank_loop_exact : forall cs fuel pre rest te, Forall scalar cs -> Forall (fun c => c = 46 \/ pn_chars c = true) cs ->
  Valid pre -> Valid rest -> blank_stop rest -> Nat.lt (length (encode cs ++ rest)) fuel ->
  blank_loop fuel (pre ++ encode cs ++ rest) (length pre) te = Ok (bte_after cs (length pre) te).
Proof.
  induction cs as [|c cs IH]; intros fuel pre rest te Hs Hc Hp Hr Hst Hf.
  - cbn [encode app] in *. unfold bte_after. cbn [fold_left snd]. destruct fuel as [|f]; [lia|]. cbn [blank_loop].
    destruct (Nat.ltb_spec (length pre) (length (pre ++ rest))) as [Hlt|_]; [|reflexivity].
    rewrite slice_from_bnd by (now apply valid_app_bnd). cbn [lift bind]. rewrite skipn_app, skipn_all, Nat.sub_diag. cbn [skipn app].
    unfold blank_stop in Hst. destruct (next_char rest) as [[c n]|] eqn:En.
    + destruct Hst as (Hpc & H46). rewrite Hpc. destruct (N.eqb_spec c 46); [congruence|reflexivity].
    + apply next_char_nil in En. subst rest. rewrite app_nil_r in Hlt. lia.
  - inversion Hs as [|? ? Hsc Hs']; subst. inversion Hc as [|? ? Hcc Hc']; subst. cbn [encode] in *. rewrite <- app_assoc in *.
    destruct fuel as [|f]; [lia|]. cbn [blank_loop]. pose proof (len_utf8_pos c) as Hl1.
    assert (Vc : Valid (encode_char c)) by (exists [c]; split; [now constructor|cbn; now rewrite app_nil_r]).
    assert (Vb : Valid (encode cs ++ rest)) by (apply valid_app; [now apply valid_encode|assumption]).
    destruct (Nat.ltb_spec (length pre) (length (pre ++ encode_char c ++ encode cs ++ rest))) as [_|Hge].
    2:{ rewrite !app_length, encode_char_len in Hge. lia. }
    rewrite slice_from_bnd by (apply valid_app_bnd; [assumption|now apply valid_app]). cbn [lift bind].
    rewrite skipn_app, skipn_all, Nat.sub_diag. cbn [skipn app]. rewrite next_char_encode by now apply scalar_lt.
    assert (Next : forall te', blank_loop f (pre ++ encode_char c ++ encode cs ++ rest) (length pre + len_utf8 c) te'
                     = Ok (bte_after cs (length pre + len_utf8 c) te')).
    { intros te'. specialize (IH f (pre ++ encode_char c) rest te' Hs' Hc' (valid_app _ _ Hp Vc) Hr Hst).
      rewrite (app_length pre (encode_char c)), (encode_char_len c), <- !app_assoc in IH. apply IH. rewrite app_length, encode_char_len in Hf. lia. }
    unfold bte_after. cbn [fold_left fst snd]. fold (bte_after cs).
    destruct (N.eqb_spec c 46) as [->|Hne].
    + rewrite pn_chars_46. change (len_utf8 46) with 1%nat in *. rewrite Next. reflexivity.
    + destruct Hcc as [?|Hpc]; [congruence|]. rewrite Hpc. rewrite Next. reflexivity.
Qed.

Lemma bfold_fst : forall cs index te,
  fst (fold_left (fun acc c => let i := (fst acc + len_utf8 c)%nat in (i, if c =? 46 then snd acc else i)) cs (index, te))
  = (index + length (encode cs))%nat.
Proof.
  induction cs as [|c cs IH]; intros index te; [cbn; lia|].
  cbn [fold_left encode]. rewrite IH. cbn [fst]. rewrite app_length, encode_char_len. lia.
Qed.

Lemma bte_after_total : forall cs index te, (match rev cs with c :: _ => c <> 46 | [] => True end) -> cs <> [] ->
  bte_after cs index te = (index + length (encode cs))%nat.
Proof.
  intros cs index te He Hne. destruct (rev cs) as [|c l] eqn:Er.
  - destruct cs; [congruence|]. cbn [rev] in Er. destruct (rev cs); discriminate.
  - assert (Ei : cs = rev l ++ [c]) by (rewrite <- (rev_involutive cs), Er; reflexivity).
    subst cs. unfold bte_after. rewrite fold_left_app. cbn [fold_left snd].
    destruct (N.eqb_spec c 46); [congruence|]. rewrite bfold_fst, encode_app. cbn [encode]. rewrite app_nil_r, app_length, encode_char_len. lia.
Qed.

Theorem blank_node_roundtrip : forall w tok rest, LayoutC w -> BlankTok tok -> Valid rest -> blank_stop rest ->
  blank_node (w ++ tok ++ rest) = Ok (tok, rest).
Proof.
  intros w tok rest Hw Ht Hr Hst. inversion Ht as [c0 cs Hs H0 Hc Hl]; subst.
  inversion Hs as [|? ? Hs0 Hs']; subst.
  assert (Vbody : Valid (encode (c0 :: cs))) by now apply valid_encode.
  assert (Vtok : Valid (95 :: 58 :: encode (c0 :: cs))) by (apply (valid_app [95; 58]); [apply valid_ascii; repeat constructor; lia|assumption]).
  unfold blank_node. rewrite skip_ws_closed; [|assumption|now apply valid_app|cbn [app]; apply ascii_head_not_layout; [lia|reflexivity|lia]].
  cbn [app]. unfold strip_prefix. cbn [starts_with length skipn]. rewrite !N.eqb_refl. cbn [andb].
  cbn [encode]. rewrite <- !app_assoc. rewrite next_char_encode by now apply scalar_lt. rewrite H0.
  assert (Vc0 : Valid (encode_char c0)) by (exists [c0]; split; [now constructor|cbn; now rewrite app_nil_r]).
  pose proof (blank_loop_exact cs (S (length (encode_char c0 ++ encode cs ++ rest))) (encode_char c0) rest (len_utf8 c0) Hs' Hc Vc0 Hr Hst) as H.
  rewrite encode_char_len in H. rewrite H by (rewrite !app_length; lia). cbn [bind].
  assert (Ete : bte_after cs (len_utf8 c0) (len_utf8 c0) = (len_utf8 c0 + length (encode cs))%nat).
  { destruct cs as [|c1 cs']; [cbn; lia|]. apply bte_after_total; [assumption|discriminate]. }
  rewrite Ete.
  set (body := encode_char c0 ++ encode cs).
  assert (Lb : (len_utf8 c0 + length (encode cs))%nat = length body) by (unfold body; now rewrite app_length, encode_char_len).
  rewrite Lb. replace (encode_char c0 ++ encode cs ++ rest) with (body ++ rest) by (unfold body; now rewrite <- app_assoc).
  assert (Vb : Valid body) by (unfold body; apply valid_app; [assumption|now apply valid_encode]).
  rewrite slice_from_bnd by (now apply valid_app_bnd). cbn [lift bind]. rewrite skipn_app, skipn_all, Nat.sub_diag. cbn [skipn app].
  replace (95 :: 58 :: body ++ rest) with ((95 :: 58 :: body) ++ rest) by reflexivity.
  replace (2 + length body)%nat with (length (95 :: 58 :: body)) by reflexivity.
  rewrite slice_to_bnd by (apply valid_app_bnd; [apply (valid_app [95; 58]); [apply valid_ascii; repeat constructor; lia|assumption]|assumption]).
  cbn [lift bind]. rewrite firstn_app, firstn_all, Nat.sub_diag. cbn [firstn]. rewrite app_nil_r. reflexivity.
Qed.
