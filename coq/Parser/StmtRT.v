(* (1) Round trip of triples statements: a subject, `;`-separated predicate groups, `,`-separated object lists, an
   optional dangling `;`, arbitrary closed layout before every token, all term kinds of Lex.v. *)
Require Import List NArith Bool PeanoNat Lia ZifyBool ZifyN.
Require Import KV.Parser.Utf8 KV.Parser.Unicode KV.Parser.Keywords KV.Parser.Scanners KV.Parser.Grammar.
Require Import KV.Parser.Utf8Proofs KV.Parser.ScannerProofs KV.Parser.GrammarProofs.
Require Import KV.Parser.RoundTrip KV.Parser.RoundTrip2 KV.Parser.RoundTrip3 KV.Parser.Lex.
Import ListNotations.
Open Scope N_scope.

Definition L := list LItem.

(* ---- concrete syntax ------------------------------------------------------------------------------------ *)
Record OTok := mkO { olay : L; oterm : Term }.
Record OMore := mkOM { clay : L; om : OTok }.                       (* layout `,` object *)
Record Objs := mkObjs { o1 : OTok; omore : list OMore }.
Inductive Pred := PT (t : Term) | PA.
Record PGroup := mkPG { play : L; pred : Pred; objs : Objs }.
Record PMore := mkPM { slay : L; pg : PGroup }.                      (* layout `;` group *)
Record Stmt := mkStmt { sj : OTok; g1 : PGroup; gmore : list PMore; trail : option (L * L) }.

Definition pr_o (o : OTok) : str := lay_bytes (olay o) ++ term_text (oterm o).
Definition pr_om (m : OMore) : str := lay_bytes (clay m) ++ 44 :: pr_o (om m).
Definition pr_oms (ms : list OMore) : str := flat_map pr_om ms.
Definition pr_objs (os : Objs) : str := pr_o (o1 os) ++ pr_oms (omore os).
Definition pred_text (p : Pred) : str := match p with PT t => term_text t | PA => [97] end.
Definition pr_g (g : PGroup) : str := lay_bytes (play g) ++ pred_text (pred g) ++ pr_objs (objs g).
Definition pr_pm (m : PMore) : str := lay_bytes (slay m) ++ 59 :: pr_g (pg m).
Definition pr_pms (ms : list PMore) : str := flat_map pr_pm ms.
Definition pr_trail (t : option (L * L)) : str :=
  match t with Some (l1, l2) => lay_bytes l1 ++ 59 :: lay_bytes l2 | None => [] end.
Definition pr_stmt (s : Stmt) : str := pr_o (sj s) ++ pr_g (g1 s) ++ pr_pms (gmore s) ++ pr_trail (trail s).

(* ---- the source tree: the expanded triples -------------------------------------------------------------- *)
Definition objs_list (os : Objs) : list OTok := o1 os :: map om (omore os).
Definition group_triples (s : str) (g : PGroup) : list triple :=
  map (fun o => (s, pred_text (pred g), term_text (oterm o))) (objs_list (objs g)).
Definition stmt_triples (s : Stmt) : list triple :=
  let subj := term_text (oterm (sj s)) in
  group_triples subj (g1 s) ++ flat_map (fun m => group_triples subj (pg m)) (gmore s).

(* ---- well-formedness (boolean), relative to the text that follows ---------------------------------------- *)
Definition wf_o (o : OTok) (following : str) : bool :=
  lay_okb (olay o) && term_okb (oterm o) && term_stopb (oterm o) following && object_kw_ok (oterm o) following.
Fixpoint wf_oms (ms : list OMore) (following : str) : bool :=
  match ms with
  | [] => true
  | m :: t => lay_okb (clay m) && wf_o (om m) (pr_oms t ++ following) && wf_oms t following
  end.
Definition wf_objs (os : Objs) (following : str) : bool :=
  wf_o (o1 os) (pr_oms (omore os) ++ following) && wf_oms (omore os) following.

Definition pred_kw_free (t : Term) (x : str) : bool :=
  match t with TPn _ _ => kw_free_text [kw_graph; kw_union] x | _ => true end.
Definition wf_pred (p : Pred) (following : str) : bool :=
  match p with
  | PT t => term_okb t && is_predicate_kind t && term_stopb t following && negb (a_hitb (term_text t ++ following))
            && pred_kw_free t (term_text t ++ following)
  | PA => stopb name_stopP following
  end.
Definition wf_g (g : PGroup) (following : str) : bool :=
  lay_okb (play g) && wf_pred (pred g) (pr_objs (objs g) ++ following) && wf_objs (objs g) following.
Fixpoint wf_pms (ms : list PMore) (following : str) : bool :=
  match ms with
  | [] => true
  | m :: t => lay_okb (slay m) && wf_g (pg m) (pr_pms t ++ following) && wf_pms t following
  end.
Definition wf_trail (t : option (L * L)) : bool :=
  match t with Some (l1, l2) => lay_okb l1 && lay_okb l2 | None => true end.
Definition wf_subject (o : OTok) (following : str) : bool :=
  lay_okb (olay o) && term_okb (oterm o) && is_subject_kind (oterm o) && term_stopb (oterm o) following.
Definition wf_stmt (s : Stmt) (following : str) : bool :=
  let f3 := pr_trail (trail s) ++ following in
  wf_subject (sj s) (pr_g (g1 s) ++ pr_pms (gmore s) ++ f3)
  && wf_g (g1 s) (pr_pms (gmore s) ++ f3) && wf_pms (gmore s) f3 && wf_trail (trail s).

(* what must hold of the text after the statement (the parser's look-aheads at the end of a statement) *)
Definition no_lead (c : N) (rest : str) : Prop := strip_prefix [c] (skip_ws rest) = None.
Definition stmt_follow (s : Stmt) (rest : str) : Prop :=
  Valid rest /\
  match trail s with
  | None => no_lead 44 rest /\ no_lead 59 rest
  | Some _ => ~ starts_layout rest /\ stmt_stops_after_semicolon rest = Ok true
  end.

(* ---- validity of printed pieces ------------------------------------------------------------------------- *)
Lemma lay_valid : forall l, lay_okb l = true -> Valid (lay_bytes l).
Proof. intros. apply layoutC_valid. now apply lay_ok. Qed.

Lemma wf_o_parts : forall o f, wf_o o f = true ->
  lay_okb (olay o) = true /\ term_okb (oterm o) = true /\ term_stopb (oterm o) f = true /\ object_kw_ok (oterm o) f = true.
Proof. intros o f H. unfold wf_o in H. repeat (apply andb_true_iff in H; destruct H as [H ?]). auto. Qed.

Lemma pr_o_valid : forall o f, wf_o o f = true -> Valid (pr_o o).
Proof. intros o f H. destruct (wf_o_parts _ _ H) as (Hl & Ht & _). apply valid_app; [now apply lay_valid|now apply term_valid]. Qed.

Lemma pr_oms_valid : forall ms f, wf_oms ms f = true -> Valid (pr_oms ms).
Proof.
  induction ms as [|m t IH]; intros f H; [apply valid_nil|]. cbn [wf_oms] in H. repeat (apply andb_true_iff in H; destruct H as [H ?]).
  cbn [pr_oms flat_map]. apply valid_app; [|eapply IH; eassumption]. unfold pr_om.
  apply valid_app; [now apply lay_valid|]. apply (valid_app [44]); [apply valid_ascii; repeat constructor; lia|eapply pr_o_valid; eassumption].
Qed.

(* ---- objects --------------------------------------------------------------------------------------------- *)
Lemma object_step : forall tf o following, wf_o o following = true -> Valid following ->
  positioned (object_term (S tf) (pr_o o ++ following)) = Ok ((term_text (oterm o), length following), following).
Proof.
  intros tf o following H Hv. destruct (wf_o_parts _ _ H) as (Hl & Ht & Hs & Hk). unfold pr_o. rewrite <- app_assoc.
  rewrite (object_ok tf (oterm o) (lay_bytes (olay o)) following Ht Hs Hk (lay_ok _ Hl) Hv). reflexivity.
Qed.

Lemma comma_next : forall m t following, lay_okb (clay m) = true -> Valid (pr_o (om m) ++ pr_oms t ++ following) ->
  strip_prefix [44] (skip_ws (pr_oms (m :: t) ++ following)) = Some (pr_o (om m) ++ pr_oms t ++ following).
Proof.
  intros m t following Hl Hv. cbn [pr_oms flat_map]. unfold pr_om. rewrite <- !app_assoc. cbn [app].
  rewrite skip_ws_closed; [reflexivity|now apply lay_ok| |apply ascii_head_not_layout; [lia|reflexivity|lia]].
  apply (valid_app [44]); [apply valid_ascii; repeat constructor; lia|exact Hv].
Qed.

Lemma objects_loop_rt : forall ms fuel tf subj prd o rest acc,
  wf_o o (pr_oms ms ++ rest) = true -> wf_oms ms rest = true -> Valid rest -> no_lead 44 rest -> (length ms < fuel)%nat ->
  exists new, objects_loop fuel (S tf) subj prd (pr_o o ++ pr_oms ms ++ rest) acc = Ok (acc ++ new, rest)
              /\ map strip_t new = map (fun x => (fst subj, fst prd, term_text (oterm x))) (o :: map om ms).
Proof.
  induction ms as [|m t IH]; intros fuel tf subj prd o rest acc Ho Hms Hr Hn Hf.
  - destruct fuel as [|f]; [cbn in Hf; lia|]. cbn [objects_loop pr_oms flat_map app] in *.
    rewrite (object_step tf o rest Ho Hr). cbn [bind]. unfold no_lead in Hn. rewrite Hn.
    eexists. split; [reflexivity|]. reflexivity.
  - destruct fuel as [|f]; [cbn in Hf; lia|]. cbn [objects_loop].
    cbn [wf_oms] in Hms. repeat (apply andb_true_iff in Hms; destruct Hms as [Hms ?]).
    assert (Vt : Valid (pr_oms t ++ rest)) by (apply valid_app; [eapply pr_oms_valid; eassumption|assumption]).
    assert (Vm : Valid (pr_o (om m) ++ pr_oms t ++ rest)) by (apply valid_app; [eapply pr_o_valid; eassumption|assumption]).
    assert (Vall : Valid (pr_oms (m :: t) ++ rest)).
    { cbn [pr_oms flat_map]. unfold pr_om. rewrite <- !app_assoc. apply valid_app; [now apply lay_valid|].
      apply (valid_app [44]); [apply valid_ascii; repeat constructor; lia|exact Vm]. }
    rewrite (object_step tf o _ Ho Vall). cbn [bind].
    rewrite (comma_next m t rest Hms Vm).
    destruct (IH f tf subj prd (om m) rest (acc ++ [(subj, prd, (term_text (oterm o), length (pr_oms (m :: t) ++ rest)))]) H0 H Hr Hn ltac:(cbn in Hf; lia))
      as (new & E & Em).
    exists ((subj, prd, (term_text (oterm o), length (pr_oms (m :: t) ++ rest))) :: new). split.
    + etransitivity; [exact E|]. rewrite <- app_assoc. reflexivity.
    + cbn [map strip_t fst]. rewrite Em. reflexivity.
Qed.

(* ---- predicates ------------------------------------------------------------------------------------------ *)
Lemma pred_step : forall p w following, wf_pred p following = true -> LayoutC w -> Valid following ->
  positioned (predicate_term (w ++ pred_text p ++ following)) = Ok ((pred_text p, length following), following).
Proof.
  intros p w following H Hw Hv. destruct p as [t|]; cbn [wf_pred pred_text] in *.
  - repeat (apply andb_true_iff in H; destruct H as [H ?]).
    rewrite (predicate_ok t w following H H3 H2 ltac:(now apply negb_true_iff) Hw Hv). reflexivity.
  - rewrite (predicate_a_ok w following Hw Hv H). reflexivity.
Qed.

Lemma pred_valid : forall p following, wf_pred p following = true -> Valid (pred_text p).
Proof.
  intros [t|] following H; cbn [wf_pred pred_text] in *.
  - repeat (apply andb_true_iff in H; destruct H as [H ?]). now apply term_valid.
  - apply valid_ascii; repeat constructor; lia.
Qed.

(* after `;` a predicate follows: the statement does not stop there *)
Lemma pred_not_stop : forall p following, wf_pred p following = true -> Valid following ->
  stmt_stops_after_semicolon (pred_text p ++ following) = Ok false.
Proof.
  intros p following H Hv.
  assert (Hid : skip_ws (pred_text p ++ following) = pred_text p ++ following /\ Valid (pred_text p ++ following)).
  { destruct p as [t|]; cbn [wf_pred pred_text] in *.
    - repeat (apply andb_true_iff in H; destruct H as [H ?]). split; [|apply valid_app; [now apply term_valid|assumption]].
      apply (term_skip t [] following H (LC_end [] W_nil) Hv).
    - split; [|apply (valid_app [97]); [apply valid_ascii; repeat constructor; lia|assumption]].
      apply skip_ws_fixed; [apply (valid_app [97]); [apply valid_ascii; repeat constructor; lia|assumption]|].
      apply ascii_head_not_layout; [lia|reflexivity|lia]. }
  destruct Hid as [Hid Vx].
  assert (Hk : is_err (keyword kw_graph (pred_text p ++ following)) /\ is_err (keyword kw_union (pred_text p ++ following))).
  { destruct p as [t|]; cbn [wf_pred pred_text] in *.
    - repeat (apply andb_true_iff in H; destruct H as [H ?]). destruct (term_head t H) as (b & tl & Et & Hf).
      assert (Esk : skip_ws (term_text t ++ following) = b :: tl ++ following) by (rewrite Hid, Et; reflexivity).
      assert (NonLetter : is_ascii_alpha b = false ->
                is_err (keyword kw_graph (term_text t ++ following)) /\ is_err (keyword kw_union (term_text t ++ following))).
      { intros Hb. split.
        - apply (keyword_fail_b kw_graph 71 (List.tl kw_graph) _ b (tl ++ following) eq_refl ltac:(lia) eq_refl Esk Hb).
        - apply (keyword_fail_b kw_union 85 (List.tl kw_union) _ b (tl ++ following) eq_refl ltac:(lia) eq_refl Esk Hb). }
      destruct t as [sigil cs|items|q items|sign ds1 frac|pp items|c0 cs|bb]; try discriminate H3; cbn [head_fact pred_kw_free] in *.
      + apply NonLetter. unfold is_ascii_alpha, is_ascii_upper, is_ascii_lower. lia.
      + apply NonLetter. unfold is_ascii_alpha, is_ascii_upper, is_ascii_lower. lia.
      + cbn [kw_free_text forallb] in H0. rewrite andb_true_r in H0. apply andb_true_iff in H0. destruct H0 as [Hg Hu].
        apply negb_true_iff in Hg, Hu.
        split; [apply (keyword_free_err kw_graph _ (term_text (TPn pp items) ++ following) ltac:(kw_a) Vx Hid Hg)
               |apply (keyword_free_err kw_union _ (term_text (TPn pp items) ++ following) ltac:(kw_a) Vx Hid Hu)].
    - assert (Esk : skip_ws ([97] ++ following) = 97 :: following) by exact Hid.
      split; [apply (keyword_fail kw_graph 71 (List.tl kw_graph) _ 97 following eq_refl Esk)|apply (keyword_fail kw_union 85 (List.tl kw_union) _ 97 following eq_refl Esk)]; cbv; discriminate. }
  unfold stmt_stops_after_semicolon.
  assert (Hb : exists b tl, pred_text p ++ following = b :: tl /\ b <> 46 /\ b <> 125).
  { destruct p as [t|]; cbn [wf_pred pred_text] in *.
    - repeat (apply andb_true_iff in H; destruct H as [H ?]). destruct (term_head t H) as (b & tl & Et & Hf). exists b, (tl ++ following).
      rewrite Et. split; [reflexivity|].
      destruct t; try discriminate H3; cbn [head_fact] in Hf; unfold is_ascii_alpha, is_ascii_upper, is_ascii_lower in *; lia.
    - exists 97, following. split; [reflexivity|lia]. }
  destruct Hb as (b & tl & Eb & H46 & H125). rewrite Eb. destruct (N.eqb_spec b 46); [congruence|]. destruct (N.eqb_spec b 125); [congruence|].
  cbn [orb]. rewrite <- Eb. unfold starts_keyword.
  destruct Hk as [(k1 & l1 & e1 & Kg) (k2 & l2 & e2 & Ku)]. rewrite Kg. cbn [bind]. rewrite Ku. reflexivity.
Qed.

(* ---- predicate groups and the whole statement ------------------------------------------------------------ *)
Lemma oms_length : forall ms, (length ms <= length (pr_oms ms))%nat.
Proof. induction ms as [|m t IH]; [cbn; lia|]. cbn [pr_oms flat_map length]. fold (pr_oms t). unfold pr_om. rewrite !app_length. cbn [length]. lia. Qed.
Lemma pms_length : forall ms, (length ms <= length (pr_pms ms))%nat.
Proof. induction ms as [|m t IH]; [cbn; lia|]. cbn [pr_pms flat_map length]. fold (pr_pms t). unfold pr_pm. rewrite !app_length. cbn [length]. lia. Qed.

Lemma wf_objs_parts : forall os f, wf_objs os f = true -> wf_o (o1 os) (pr_oms (omore os) ++ f) = true /\ wf_oms (omore os) f = true.
Proof. intros os f H. unfold wf_objs in H. apply andb_true_iff in H. exact H. Qed.

Lemma pr_objs_valid : forall os f, wf_objs os f = true -> Valid (pr_objs os).
Proof.
  intros os f H. destruct (wf_objs_parts _ _ H) as [H1 H2]. unfold pr_objs.
  apply valid_app; [eapply pr_o_valid; eassumption|eapply pr_oms_valid; eassumption].
Qed.

Lemma wf_g_parts : forall g f, wf_g g f = true ->
  lay_okb (play g) = true /\ wf_pred (pred g) (pr_objs (objs g) ++ f) = true /\ wf_objs (objs g) f = true.
Proof. intros g f H. unfold wf_g in H. repeat (apply andb_true_iff in H; destruct H as [H ?]). auto. Qed.

Lemma pr_g_valid : forall g f, wf_g g f = true -> Valid (pr_g g).
Proof.
  intros g f H. destruct (wf_g_parts _ _ H) as (Hl & Hp & Ho). unfold pr_g.
  apply valid_app; [now apply lay_valid|]. apply valid_app; [eapply pred_valid; eassumption|eapply pr_objs_valid; eassumption].
Qed.

Lemma pr_pms_valid : forall ms f, wf_pms ms f = true -> Valid (pr_pms ms).
Proof.
  induction ms as [|m t IH]; intros f H; [apply valid_nil|]. cbn [wf_pms] in H. repeat (apply andb_true_iff in H; destruct H as [H ?]).
  cbn [pr_pms flat_map]. apply valid_app; [|eapply IH; eassumption]. unfold pr_pm.
  apply valid_app; [now apply lay_valid|]. apply (valid_app [59]); [apply valid_ascii; repeat constructor; lia|eapply pr_g_valid; eassumption].
Qed.

Lemma pr_trail_valid : forall tr, wf_trail tr = true -> Valid (pr_trail tr).
Proof.
  intros [[l1 l2]|] H; [|apply valid_nil]. cbn [wf_trail pr_trail] in *. apply andb_true_iff in H. destruct H.
  apply valid_app; [now apply lay_valid|]. apply (valid_app [59]); [apply valid_ascii; repeat constructor; lia|now apply lay_valid].
Qed.

(* text that starts (after layout) with `;` *)
Lemma lead_semicolon : forall l x, lay_okb l = true -> Valid x -> skip_ws (lay_bytes l ++ 59 :: x) = 59 :: x.
Proof.
  intros l x Hl Hx. apply skip_ws_closed; [now apply lay_ok|apply (valid_app [59]); [apply valid_ascii; repeat constructor; lia|assumption]|].
  apply ascii_head_not_layout; [lia|reflexivity|lia].
Qed.

Definition follow_ok (tr : option (L * L)) (rest : str) : Prop :=
  Valid rest /\
  match tr with
  | None => no_lead 44 rest /\ no_lead 59 rest
  | Some _ => ~ starts_layout rest /\ stmt_stops_after_semicolon rest = Ok true
  end.

Lemma preds_loop_rt : forall ms fuel tf subj w g tr rest acc,
  LayoutC w -> wf_pred (pred g) (pr_objs (objs g) ++ pr_pms ms ++ pr_trail tr ++ rest) = true ->
  wf_objs (objs g) (pr_pms ms ++ pr_trail tr ++ rest) = true -> wf_pms ms (pr_trail tr ++ rest) = true -> wf_trail tr = true ->
  follow_ok tr rest -> (length ms < fuel)%nat ->
  exists new, preds_loop fuel (S tf) subj (w ++ pred_text (pred g) ++ pr_objs (objs g) ++ pr_pms ms ++ pr_trail tr ++ rest) acc = Ok (acc ++ new, rest)
    /\ map strip_t new = group_triples (fst subj) g ++ flat_map (fun m => group_triples (fst subj) (pg m)) ms.
Proof.
  induction ms as [|m t IH]; intros fuel tf subj w g tr rest acc Hw Hp Ho Hms Htr (Hr & Hfo) Hf.
  - (* last group *)
    destruct fuel as [|f]; [cbn in Hf; lia|]. cbn [preds_loop pr_pms flat_map app] in *.
    pose proof (pr_trail_valid tr Htr) as Vtr.
    assert (Vrest' : Valid (pr_trail tr ++ rest)) by now apply valid_app.
    assert (Vobjs : Valid (pr_objs (objs g) ++ pr_trail tr ++ rest)) by (apply valid_app; [eapply pr_objs_valid; eassumption|assumption]).
    rewrite (pred_step (pred g) w _ Hp Hw Vobjs). cbn [bind].
    destruct (wf_objs_parts _ _ Ho) as [Ho1 Homs].
    assert (Nl : no_lead 44 (pr_trail tr ++ rest)).
    { destruct tr as [[l1 l2]|]; [|exact (proj1 Hfo)]. cbn [pr_trail wf_trail] in *. apply andb_true_iff in Htr. destruct Htr as [Hl1 Hl2].
      unfold no_lead. rewrite <- app_assoc. cbn [app]. rewrite lead_semicolon; [reflexivity|assumption|apply valid_app; [now apply lay_valid|assumption]]. }
    unfold pr_objs. rewrite <- !app_assoc.
    match goal with |- context [objects_loop ?F (S tf) subj ?P (pr_o (o1 (objs g)) ++ _) acc] =>
      assert (Hfu : (length (omore (objs g)) < F)%nat) by (rewrite !app_length; pose proof (oms_length (omore (objs g))); lia);
      destruct (objects_loop_rt (omore (objs g)) F tf subj P (o1 (objs g)) (pr_trail tr ++ rest) acc Ho1 Homs Vrest' Nl Hfu) as (new & E & Em) end.
    rewrite E. cbn [bind fst] in *.
    exists new. split; [|rewrite app_nil_r; exact Em].
    destruct tr as [[l1 l2]|]; cbn [pr_trail wf_trail] in *.
    + apply andb_true_iff in Htr. destruct Htr as [Hl1 Hl2]. destruct Hfo as [Hnl Hstop].
      rewrite <- app_assoc. cbn [app]. rewrite lead_semicolon by (first [assumption|apply valid_app; [now apply lay_valid|assumption]]).
      change (strip_prefix [59] (59 :: lay_bytes l2 ++ rest)) with (Some (lay_bytes l2 ++ rest)). cbv beta iota.
      rewrite (skip_ws_closed (lay_bytes l2) rest (lay_ok _ Hl2) Hr Hnl). rewrite Hstop. reflexivity.
    + cbn [app]. destruct Hfo as [_ H59]. unfold no_lead in H59. rewrite H59. reflexivity.
  - (* a further group follows after `;` *)
    destruct fuel as [|f]; [cbn in Hf; lia|]. cbn [preds_loop].
    cbn [wf_pms] in Hms. repeat (apply andb_true_iff in Hms; destruct Hms as [Hms ?]).
    destruct (wf_g_parts _ _ H0) as (Hgl & Hgp & Hgo).
    pose proof (pr_trail_valid tr Htr) as Vtr.
    assert (Vrest' : Valid (pr_trail tr ++ rest)) by now apply valid_app.
    assert (Vt : Valid (pr_pms t ++ pr_trail tr ++ rest)) by (apply valid_app; [eapply pr_pms_valid; eassumption|assumption]).
    assert (Vg' : Valid (pred_text (pred (pg m)) ++ pr_objs (objs (pg m)) ++ pr_pms t ++ pr_trail tr ++ rest)).
    { apply valid_app; [eapply pred_valid; eassumption|]. apply valid_app; [eapply pr_objs_valid; eassumption|assumption]. }
    assert (Epm : pr_pms (m :: t) ++ pr_trail tr ++ rest
                  = lay_bytes (slay m) ++ 59 :: lay_bytes (play (pg m)) ++ pred_text (pred (pg m)) ++ pr_objs (objs (pg m)) ++ pr_pms t ++ pr_trail tr ++ rest).
    { cbn [pr_pms flat_map]. unfold pr_pm, pr_g. rewrite <- !app_assoc. cbn [app]. rewrite <- !app_assoc. reflexivity. }
    assert (Vpm : Valid (pr_pms (m :: t) ++ pr_trail tr ++ rest)).
    { rewrite Epm. apply valid_app; [now apply lay_valid|]. apply (valid_app [59]); [apply valid_ascii; repeat constructor; lia|].
      apply valid_app; [now apply lay_valid|assumption]. }
    assert (Vobjs : Valid (pr_objs (objs g) ++ pr_pms (m :: t) ++ pr_trail tr ++ rest)) by (apply valid_app; [eapply pr_objs_valid; eassumption|assumption]).
    rewrite (pred_step (pred g) w _ Hp Hw Vobjs). cbn [bind].
    destruct (wf_objs_parts _ _ Ho) as [Ho1 Homs].
    assert (Lead : skip_ws (pr_pms (m :: t) ++ pr_trail tr ++ rest)
                   = 59 :: lay_bytes (play (pg m)) ++ pred_text (pred (pg m)) ++ pr_objs (objs (pg m)) ++ pr_pms t ++ pr_trail tr ++ rest).
    { rewrite Epm. apply lead_semicolon; [assumption|apply valid_app; [now apply lay_valid|assumption]]. }
    assert (Nl : no_lead 44 (pr_pms (m :: t) ++ pr_trail tr ++ rest)) by (unfold no_lead; rewrite Lead; reflexivity).
    unfold pr_objs at 1 2 3. rewrite <- !app_assoc.
    match goal with |- context [objects_loop ?F (S tf) subj ?P (pr_o (o1 (objs g)) ++ _) acc] =>
      assert (Hfu : (length (omore (objs g)) < F)%nat) by (rewrite !app_length; pose proof (oms_length (omore (objs g))); lia);
      destruct (objects_loop_rt (omore (objs g)) F tf subj P (o1 (objs g)) (pr_pms (m :: t) ++ pr_trail tr ++ rest) acc Ho1 Homs Vpm Nl Hfu) as (new & E & Em) end.
    rewrite E. cbn [bind fst] in *.
    rewrite Lead.
    match goal with |- context [strip_prefix [59] (59 :: ?x)] => change (strip_prefix [59] (59 :: x)) with (Some x) end. cbv beta iota.
    rewrite (skip_ws_closed (lay_bytes (play (pg m))) _ (lay_ok _ Hgl) Vg').
    2:{ destruct (pred (pg m)) as [tt|]; cbn [pred_text wf_pred] in *.
        - repeat (apply andb_true_iff in Hgp; destruct Hgp as [Hgp ?]). now apply term_not_layout.
        - apply ascii_head_not_layout; [lia|reflexivity|lia]. }
    rewrite (pred_not_stop (pred (pg m)) _ Hgp) by (apply valid_app; [eapply pr_objs_valid; eassumption|assumption]). cbn [bind].
    destruct (IH f tf subj [] (pg m) tr rest (acc ++ new) (LC_end [] W_nil) Hgp Hgo H Htr (conj Hr Hfo) ltac:(cbn in Hf; lia)) as (new2 & E2 & Em2).
    cbn [app] in E2. exists (new ++ new2). split.
    + rewrite (app_assoc acc new new2). exact E2.
    + rewrite map_app, Em, Em2. cbn [flat_map]. reflexivity.
Qed.

Theorem stmt_roundtrip : forall st tf rest, wf_stmt st rest = true -> stmt_follow st rest ->
  exists ts, triples_statement (S tf) (pr_stmt st ++ rest) = Ok (ts, rest) /\ map strip_t ts = stmt_triples st.
Proof.
  intros st tf rest H Hfo. unfold wf_stmt in H. cbv zeta in H. repeat (apply andb_true_iff in H; destruct H as [H ?]).
  destruct (wf_g_parts _ _ H2) as (Hgl & Hgp & Hgo).
  unfold wf_subject in H. repeat (apply andb_true_iff in H; destruct H as [H ?]).
  assert (Hr : Valid rest) by exact (proj1 Hfo).
  pose proof (pr_trail_valid _ H0) as Vtr.
  assert (V0 : Valid (pr_trail (trail st) ++ rest)) by now apply valid_app.
  assert (V1 : Valid (pr_pms (gmore st) ++ pr_trail (trail st) ++ rest)) by (apply valid_app; [eapply pr_pms_valid; eassumption|assumption]).
  assert (V2 : Valid (pr_g (g1 st) ++ pr_pms (gmore st) ++ pr_trail (trail st) ++ rest)) by (apply valid_app; [eapply pr_g_valid; eassumption|assumption]).
  unfold triples_statement, pr_stmt, pr_o. rewrite <- !app_assoc.
  rewrite (subject_ok tf (oterm (sj st)) (lay_bytes (olay (sj st))) _ H5 H4 H3 (lay_ok _ H) V2). cbn [positioned bind].
  unfold pr_g. rewrite <- !app_assoc.
  match goal with |- context [preds_loop ?F (S tf) ?SUBJ _ []] =>
    assert (Hfu : (length (gmore st) < F)%nat) by (rewrite !app_length; pose proof (pms_length (gmore st)); lia);
    destruct (preds_loop_rt (gmore st) F tf SUBJ (lay_bytes (play (g1 st))) (g1 st) (trail st) rest [] (lay_ok _ Hgl) Hgp Hgo H1 H0 Hfo Hfu) as (new & E & Em) end.
  rewrite E. exists new. split; [reflexivity|]. rewrite Em. reflexivity.
Qed.
