(* (2a) Round trip of FILTER expressions: ||, &&, !, comparisons, function calls, arithmetic with parentheses. *)
Require Import List NArith Bool PeanoNat Lia ZifyBool ZifyN.
Require Import KV.Parser.Utf8 KV.Parser.Unicode KV.Parser.Keywords KV.Parser.Scanners KV.Parser.Grammar.
Require Import KV.Parser.Utf8Proofs KV.Parser.ScannerProofs KV.Parser.GrammarProofs.
Require Import KV.Parser.RoundTrip KV.Parser.RoundTrip2 KV.Parser.RoundTrip3 KV.Parser.Lex KV.Parser.StmtRT.
Import ListNotations.
Open Scope N_scope.

(* ---- operand position: variable | literal | number | IRI | true | false | prefixed name ------------------ *)
Definition is_operand_kind (t : Term) : bool := match t with TBlank _ _ => false | _ => true end.

Theorem operand_ok : forall t w rest, term_okb t = true -> is_operand_kind t = true -> term_stopb t rest = true ->
  object_kw_ok t rest = true -> LayoutC w -> Valid rest ->
  filter_operand_token (w ++ term_text t ++ rest) = Ok (term_text t, rest).
Proof.
  intros t w rest Hok Hk Hst Hkw Hw Hr. pose proof (term_scan_ok t w rest Hok Hst Hw Hr) as Sc.
  destruct (skip_head t w rest Hok Hw Hr) as (b & tl & Esk & Etx & Hf & Vx).
  unfold filter_operand_token, alt. cbn [alt_from].
  destruct t as [sigil cs|items|q items|sign ds1 frac|p items|c0 cs|bb]; try discriminate Hk; cbn [head_fact term_scan] in *.
  - now rewrite Sc.
  - subst b.
    alt_skip (variable_err_b _ _ _ Vx Esk ltac:(lia) ltac:(lia)).
    alt_skip (quoted_literal_err _ _ _ Esk ltac:(lia) ltac:(lia)).
    alt_skip (numeric_err _ _ _ Esk ltac:(lia) ltac:(lia) ltac:(lia) ltac:(reflexivity)). now rewrite Sc.
  - alt_skip (variable_err_b _ _ _ Vx Esk ltac:(lia) ltac:(lia)). now rewrite Sc.
  - assert (Hb : b <> 63 /\ b <> 36 /\ b <> 39 /\ b <> 34) by (unfold is_ascii_digit in Hf; lia).
    alt_skip (variable_err_b _ _ _ Vx Esk ltac:(lia) ltac:(lia)).
    alt_skip (quoted_literal_err _ _ _ Esk ltac:(lia) ltac:(lia)). now rewrite Sc.
  - assert (Hb : b <> 60 /\ b <> 63 /\ b <> 36 /\ b <> 39 /\ b <> 34 /\ b <> 43 /\ b <> 45 /\ b <> 46 /\ is_ascii_digit b = false)
      by (unfold is_ascii_alpha, is_ascii_upper, is_ascii_lower, is_ascii_digit in *; lia).
    alt_skip (variable_err_b _ _ _ Vx Esk ltac:(lia) ltac:(lia)).
    alt_skip (quoted_literal_err _ _ _ Esk ltac:(lia) ltac:(lia)).
    alt_skip (numeric_err _ _ _ Esk ltac:(lia) ltac:(lia) ltac:(lia) ltac:(tauto)).
    alt_skip (iri_err _ _ _ Esk ltac:(lia)).
    cbn [object_kw_ok kw_free_text forallb] in Hkw. rewrite Etx, andb_true_r in Hkw. apply andb_true_iff in Hkw. destruct Hkw as [Ht Hfa].
    apply negb_true_iff in Ht, Hfa.
    alt_skip (keyword_free_err kw_true _ (b :: tl) ltac:(kw_a) Vx Esk Ht).
    alt_skip (keyword_free_err kw_false _ (b :: tl) ltac:(kw_a) Vx Esk Hfa). now rewrite Sc.
  - assert (Hb : b <> 60 /\ b <> 63 /\ b <> 36 /\ b <> 39 /\ b <> 34 /\ b <> 43 /\ b <> 45 /\ b <> 46 /\ is_ascii_digit b = false)
      by (unfold is_ascii_digit; lia).
    alt_skip (variable_err_b _ _ _ Vx Esk ltac:(lia) ltac:(lia)).
    alt_skip (quoted_literal_err _ _ _ Esk ltac:(lia) ltac:(lia)).
    alt_skip (numeric_err _ _ _ Esk ltac:(lia) ltac:(lia) ltac:(lia) ltac:(tauto)).
    alt_skip (iri_err _ _ _ Esk ltac:(lia)).
    destruct bb; cbn [term_scan] in Sc.
    + now rewrite Sc.
    + assert (b = 102) by (cbn [term_text] in Etx; cbn in Etx; congruence). subst b.
      alt_skip (keyword_fail kw_true _ _ _ 102 tl eq_refl Esk ltac:(cbv; discriminate)). now rewrite Sc.
Qed.

(* ---- arithmetic: operands, products, sums (left-nested, as the parser's loops build them) ------------------ *)
Inductive Opnd : Type :=
| OpT (o : OTok)
| OpP (l : L) (s : SumC) (r : L)
with SumC : Type :=
| SumOne (p : ProdC)
| SumMore (s : SumC) (l : L) (op : N) (p : ProdC)
with ProdC : Type :=
| ProdOne (o : Opnd)
| ProdMore (p : ProdC) (l : L) (op : N) (o : Opnd).

Scheme opnd_ind3 := Induction for Opnd Sort Prop
with sum_ind3 := Induction for SumC Sort Prop
with prod_ind3 := Induction for ProdC Sort Prop.
Combined Scheme arith_mutind from opnd_ind3, sum_ind3, prod_ind3.

Fixpoint pr_opnd (o : Opnd) : str :=
  match o with
  | OpT t => pr_o t
  | OpP l s r => lay_bytes l ++ 40 :: pr_sum s ++ lay_bytes r ++ [41]
  end
with pr_sum (s : SumC) : str :=
  match s with
  | SumOne p => pr_prod p
  | SumMore s' l op p => pr_sum s' ++ lay_bytes l ++ op :: pr_prod p
  end
with pr_prod (p : ProdC) : str :=
  match p with
  | ProdOne o => pr_opnd o
  | ProdMore p' l op o => pr_prod p' ++ lay_bytes l ++ op :: pr_opnd o
  end.

Fixpoint tr_opnd (o : Opnd) : arith :=
  match o with
  | OpT t => AOp (term_text (oterm t))
  | OpP _ s _ => tr_sum s
  end
with tr_sum (s : SumC) : arith :=
  match s with
  | SumOne p => tr_prod p
  | SumMore s' _ op p => if op =? 43 then AAdd (tr_sum s') (tr_prod p) else ASub (tr_sum s') (tr_prod p)
  end
with tr_prod (p : ProdC) : arith :=
  match p with
  | ProdOne o => tr_opnd o
  | ProdMore p' _ op o => if op =? 42 then AMul (tr_prod p') (tr_opnd o) else ADiv (tr_prod p') (tr_opnd o)
  end.

Fixpoint sz_opnd (o : Opnd) : nat :=
  match o with OpT _ => 1%nat | OpP _ s _ => S (S (sz_sum s)) end
with sz_sum (s : SumC) : nat :=
  match s with SumOne p => S (sz_prod p) | SumMore s' _ _ p => S (sz_sum s' + sz_prod p) end
with sz_prod (p : ProdC) : nat :=
  match p with ProdOne o => S (sz_opnd o) | ProdMore p' _ _ o => S (sz_prod p' + sz_opnd o) end.

(* the first non-layout byte of a text *)
Definition lead_in (bs : list N) (x : str) : Prop := exists b t, skip_ws x = b :: t /\ In b bs.
Definition lead_out (bs : list N) (x : str) : Prop := forall b t, skip_ws x = b :: t -> ~ In b bs.

(* well-formedness relative to the following text *)
Definition wf_opnd_tok (t : OTok) (following : str) : bool :=
  lay_okb (olay t) && term_okb (oterm t) && is_operand_kind (oterm t) && term_stopb (oterm t) following && object_kw_ok (oterm t) following.

Fixpoint wf_opnd (o : Opnd) (following : str) : bool :=
  match o with
  | OpT t => wf_opnd_tok t following
  | OpP l s r => lay_okb l && lay_okb r && wf_sum s (lay_bytes r ++ 41 :: following)
  end
with wf_sum (s : SumC) (following : str) : bool :=
  match s with
  | SumOne p => wf_prod p following
  | SumMore s' l op p => ((op =? 43) || (op =? 45)) && lay_okb l && wf_sum s' (lay_bytes l ++ op :: pr_prod p ++ following) && wf_prod p following
  end
with wf_prod (p : ProdC) (following : str) : bool :=
  match p with
  | ProdOne o => wf_opnd o following
  | ProdMore p' l op o => ((op =? 42) || (op =? 47)) && lay_okb l && wf_prod p' (lay_bytes l ++ op :: pr_opnd o ++ following) && wf_opnd o following
  end.

Fixpoint c_prod (p : ProdC) : nat := match p with ProdOne _ => 1%nat | ProdMore p' _ _ _ => S (c_prod p') end.
Fixpoint c_sum (s : SumC) : nat := match s with SumOne _ => 1%nat | SumMore s' _ _ _ => S (c_sum s') end.

Lemma c_prod_sz : forall p, (S (c_prod p) <= sz_prod p)%nat.
Proof. induction p as [o|p' IH l op o]; cbn [c_prod sz_prod]; [destruct o; cbn; lia|lia]. Qed.
Lemma c_sum_sz : forall s, (S (c_sum s) <= sz_sum s)%nat.
Proof. induction s as [p|s' IH l op p]; cbn [c_sum sz_sum]; [pose proof (c_prod_sz p); lia|lia]. Qed.

Lemma lead_skip : forall l b x, lay_okb l = true -> b < 128 -> is_whitespace b = false -> b <> 35 -> Valid x ->
  skip_ws (lay_bytes l ++ b :: x) = b :: x.
Proof.
  intros l b x Hl Hb Hw H35 Hx. apply skip_ws_closed; [now apply lay_ok|apply (valid_app [b]); [apply valid_ascii; repeat constructor; assumption|assumption]|].
  now apply ascii_head_not_layout.
Qed.

Lemma product_loop_stop : forall g acc rest, lead_out [42; 47] rest -> f_product_loop (S g) acc rest = Ok (acc, rest).
Proof.
  intros g acc rest H. cbn [f_product_loop]. destruct (skip_ws rest) as [|b t] eqn:E; [reflexivity|].
  specialize (H b t E). cbn [In] in H. destruct (N.eqb_spec b 42) as [->|]; [exfalso; apply H; now left|]. destruct (N.eqb_spec b 47) as [->|]; [exfalso; apply H; right; now left|]. reflexivity.
Qed.
Lemma arith_loop_stop : forall g acc rest, lead_out [43; 45] rest -> f_arith_loop (S g) acc rest = Ok (acc, rest).
Proof.
  intros g acc rest H. cbn [f_arith_loop]. destruct (skip_ws rest) as [|b t] eqn:E; [reflexivity|].
  specialize (H b t E). cbn [In] in H. destruct (N.eqb_spec b 43) as [->|]; [exfalso; apply H; now left|]. destruct (N.eqb_spec b 45) as [->|]; [exfalso; apply H; right; now left|]. reflexivity.
Qed.

Lemma lead_out_byte : forall l b x bs, lay_okb l = true -> b < 128 -> is_whitespace b = false -> b <> 35 -> Valid x -> ~ In b bs ->
  lead_out bs (lay_bytes l ++ b :: x).
Proof. intros l b x bs Hl Hb Hw H35 Hx Hn b' t E. rewrite lead_skip in E by assumption. injection E as <- _. exact Hn. Qed.

(* validity of printed arithmetic *)
Lemma arith_valid :
  (forall o f, wf_opnd o f = true -> Valid (pr_opnd o)) /\
  (forall s f, wf_sum s f = true -> Valid (pr_sum s)) /\
  (forall p f, wf_prod p f = true -> Valid (pr_prod p)).
Proof.
  apply arith_mutind.
  - intros t f H. cbn [wf_opnd pr_opnd] in *. unfold wf_opnd_tok in H. repeat (apply andb_true_iff in H; destruct H as [H ?]).
    unfold pr_o. apply valid_app; [now apply lay_valid|now apply term_valid].
  - intros l s IH r f H. cbn [wf_opnd pr_opnd] in *. repeat (apply andb_true_iff in H; destruct H as [H ?]).
    apply valid_app; [now apply lay_valid|]. apply (valid_app [40]); [apply valid_ascii; repeat constructor; lia|].
    apply valid_app; [eapply IH; eassumption|]. apply valid_app; [now apply lay_valid|apply valid_ascii; repeat constructor; lia].
  - intros p IH f H. cbn [wf_sum pr_sum] in *. eapply IH; eassumption.
  - intros s IHs l op p IHp f H. cbn [wf_sum pr_sum] in *. repeat (apply andb_true_iff in H; destruct H as [H ?]).
    apply valid_app; [eapply IHs; eassumption|]. apply valid_app; [now apply lay_valid|].
    apply (valid_app [op]); [apply valid_ascii; repeat constructor; lia|eapply IHp; eassumption].
  - intros o IH f H. cbn [wf_prod pr_prod] in *. eapply IH; eassumption.
  - intros p IHp l op o IHo f H. cbn [wf_prod pr_prod] in *. repeat (apply andb_true_iff in H; destruct H as [H ?]).
    apply valid_app; [eapply IHp; eassumption|]. apply valid_app; [now apply lay_valid|].
    apply (valid_app [op]); [apply valid_ascii; repeat constructor; lia|eapply IHo; eassumption].
Qed.

Lemma arith_rt :
  (forall o fuel rest, (sz_opnd o <= fuel)%nat -> wf_opnd o rest = true -> Valid rest ->
     f_operand fuel (pr_opnd o ++ rest) = Ok (tr_opnd o, rest)) /\
  (forall s fuel rest, (sz_sum s <= fuel)%nat -> wf_sum s rest = true -> Valid rest -> lead_out [42; 47] rest ->
     f_arith fuel (pr_sum s ++ rest) = f_arith_loop (fuel - c_sum s) (tr_sum s) rest) /\
  (forall p fuel rest, (sz_prod p <= fuel)%nat -> wf_prod p rest = true -> Valid rest ->
     f_product fuel (pr_prod p ++ rest) = f_product_loop (fuel - c_prod p) (tr_prod p) rest).
Proof.
  apply arith_mutind.
  - (* token *)
    intros t fuel rest Hf H Hr. cbn [wf_opnd pr_opnd tr_opnd sz_opnd] in *. destruct fuel as [|f]; [lia|].
    unfold wf_opnd_tok in H. repeat (apply andb_true_iff in H; destruct H as [H ?]).
    cbn [f_operand]. unfold pr_o. rewrite <- app_assoc. rewrite (term_skip _ _ rest H3 (lay_ok _ H) Hr).
    destruct (term_head _ H3) as (b & tl & Et & Hfa).
    assert (E40 : strip_prefix [40] (term_text (oterm t) ++ rest) = None).
    { rewrite Et. unfold strip_prefix. cbn [app starts_with]. destruct (N.eqb_spec 40 b) as [<-|]; [|reflexivity].
      exfalso. destruct (oterm t); cbn [head_fact] in Hfa; unfold is_ascii_alpha, is_ascii_upper, is_ascii_lower, is_ascii_digit in *; lia. }
    rewrite E40.
    pose proof (operand_ok (oterm t) [] rest H3 H2 H1 H0 (LC_end [] W_nil) Hr) as Op. cbn [app] in Op. rewrite Op. reflexivity.
  - (* parenthesised sum *)
    intros l s IH r fuel rest Hf H Hr. cbn [wf_opnd pr_opnd tr_opnd sz_opnd] in *. destruct fuel as [|f]; [lia|].
    repeat (apply andb_true_iff in H; destruct H as [H ?]).
    assert (VR : Valid (lay_bytes r ++ 41 :: rest)) by (apply valid_app; [now apply lay_valid|apply (valid_app [41]); [apply valid_ascii; repeat constructor; lia|assumption]]).
    assert (VS : Valid (pr_sum s ++ lay_bytes r ++ 41 :: rest)) by (apply valid_app; [eapply (proj1 (proj2 arith_valid)); eassumption|assumption]).
    cbn [f_operand]. rewrite <- !app_assoc. cbn [app]. rewrite <- !app_assoc. cbn [app].
    rewrite lead_skip by (try assumption; try lia; reflexivity).
    match goal with |- context [strip_prefix [40] (40 :: ?x)] => change (strip_prefix [40] (40 :: x)) with (Some x) end. cbv beta iota.
    rewrite (IH f (lay_bytes r ++ 41 :: rest) ltac:(lia) H0 VR ltac:(apply lead_out_byte; try assumption; try lia; try reflexivity; cbn; lia)).
    pose proof (c_sum_sz s). destruct (f - c_sum s)%nat as [|g] eqn:Eg; [lia|].
    rewrite arith_loop_stop by (apply lead_out_byte; try assumption; try lia; try reflexivity; cbn; lia). cbn [bind].
    unfold schar. rewrite lead_skip by (try assumption; try lia; reflexivity). rewrite N.eqb_refl. reflexivity.
  - (* single product *)
    intros p IH fuel rest Hf H Hr Hl. cbn [wf_sum pr_sum tr_sum sz_sum c_sum] in *. destruct fuel as [|f]; [lia|].
    cbn [f_arith]. rewrite (IH f rest ltac:(lia) H Hr). pose proof (c_prod_sz p).
    destruct (f - c_prod p)%nat as [|g] eqn:Eg; [lia|]. rewrite product_loop_stop by assumption. cbn [bind].
    replace (S f - 1)%nat with f by lia. reflexivity.
  - (* sum op product *)
    intros s IHs l op p IHp fuel rest Hf H Hr Hl. cbn [wf_sum pr_sum tr_sum sz_sum c_sum] in *.
    repeat (apply andb_true_iff in H; destruct H as [H ?]).
    assert (Hop : op = 43 \/ op = 45) by lia.
    assert (VP : Valid (pr_prod p ++ rest)) by (apply valid_app; [eapply (proj2 (proj2 arith_valid)); eassumption|assumption]).
    rewrite <- !app_assoc. cbn [app].
    rewrite (IHs fuel (lay_bytes l ++ op :: pr_prod p ++ rest) ltac:(lia) H1).
    2:{ apply valid_app; [now apply lay_valid|]. apply (valid_app [op]); [apply valid_ascii; repeat constructor; lia|assumption]. }
    2:{ apply lead_out_byte; try assumption; try lia; [destruct Hop as [-> | ->]; reflexivity|cbn; lia]. }
    pose proof (c_sum_sz s). pose proof (c_prod_sz p).
    destruct (fuel - c_sum s)%nat as [|g] eqn:Eg; [lia|]. cbn [f_arith_loop].
    rewrite lead_skip by (try assumption; try lia; destruct Hop as [-> | ->]; reflexivity).
    replace ((op =? 43) || (op =? 45)) with true by (destruct Hop as [-> | ->]; reflexivity).
    rewrite (IHp g rest ltac:(lia) H0 Hr).
    destruct (g - c_prod p)%nat as [|g2] eqn:Eg2; [lia|]. rewrite product_loop_stop by assumption. cbn [bind].
    replace (fuel - S (c_sum s))%nat with g by lia. reflexivity.
  - (* single operand *)
    intros o IH fuel rest Hf H Hr. cbn [wf_prod pr_prod tr_prod sz_prod c_prod] in *. destruct fuel as [|f]; [lia|].
    cbn [f_product]. rewrite (IH f rest ltac:(lia) H Hr). cbn [bind]. replace (S f - 1)%nat with f by lia. reflexivity.
  - (* product op operand *)
    intros p IHp l op o IHo fuel rest Hf H Hr. cbn [wf_prod pr_prod tr_prod sz_prod c_prod] in *.
    repeat (apply andb_true_iff in H; destruct H as [H ?]).
    assert (Hop : op = 42 \/ op = 47) by lia.
    assert (VO : Valid (pr_opnd o ++ rest)) by (apply valid_app; [eapply (proj1 arith_valid); eassumption|assumption]).
    rewrite <- !app_assoc. cbn [app].
    rewrite (IHp fuel (lay_bytes l ++ op :: pr_opnd o ++ rest) ltac:(lia) H1).
    2:{ apply valid_app; [now apply lay_valid|]. apply (valid_app [op]); [apply valid_ascii; repeat constructor; lia|assumption]. }
    pose proof (c_prod_sz p).
    destruct (fuel - c_prod p)%nat as [|g] eqn:Eg; [lia|]. cbn [f_product_loop].
    rewrite lead_skip by (try assumption; try lia; destruct Hop as [-> | ->]; reflexivity).
    replace ((op =? 42) || (op =? 47)) with true by (destruct Hop as [-> | ->]; reflexivity).
    rewrite (IHo g rest ltac:(lia) H0 Hr). cbn [bind].
    replace (fuel - S (c_prod p))%nat with g by lia. reflexivity.
Qed.

(* a sum followed by something that is not an arithmetic operator is parsed back exactly *)
Theorem sum_roundtrip : forall s fuel rest, (sz_sum s <= fuel)%nat -> wf_sum s rest = true -> Valid rest -> lead_out [42; 47; 43; 45] rest ->
  f_arith fuel (pr_sum s ++ rest) = Ok (tr_sum s, rest).
Proof.
  intros s fuel rest Hf H Hr Hl.
  rewrite (proj1 (proj2 arith_rt) s fuel rest Hf H Hr) by (intros b t E Hin; apply (Hl b t E); cbn in *; tauto).
  pose proof (c_sum_sz s). destruct (fuel - c_sum s)%nat as [|g] eqn:Eg; [lia|].
  apply arith_loop_stop. intros b t E Hin. apply (Hl b t E). cbn in *. tauto.
Qed.

(* ---- helpers ------------------------------------------------------------------------------------------------ *)
Lemma skip_ws_idem : forall x, Valid x -> skip_ws (skip_ws x) = skip_ws x.
Proof. intros x Hv. destruct (skip_ws_spec x Hv) as (_ & _ & _ & Vs & Hn). now apply skip_ws_fixed. Qed.

Lemma f_operand_skip : forall fuel x, Valid x -> f_operand fuel (skip_ws x) = f_operand fuel x.
Proof. intros [|f] x Hv; [reflexivity|]. cbn [f_operand]. now rewrite skip_ws_idem. Qed.
Lemma f_arith_skip : forall fuel x, Valid x -> f_arith fuel (skip_ws x) = f_arith fuel x.
Proof.
  intros [|f] x Hv; [reflexivity|]. cbn [f_arith]. destruct f as [|g]; [reflexivity|]. cbn [f_product]. now rewrite f_operand_skip.
Qed.

(* the leading layout of a printed sum, and what follows it *)
Fixpoint opnd_lay (o : Opnd) : L := match o with OpT t => olay t | OpP l _ _ => l end.
Fixpoint prod_lay (p : ProdC) : L := match p with ProdOne o => opnd_lay o | ProdMore p' _ _ _ => prod_lay p' end.
Fixpoint sum_lay (s : SumC) : L := match s with SumOne p => prod_lay p | SumMore s' _ _ _ => sum_lay s' end.
Definition opnd_body (o : Opnd) : str :=
  match o with OpT t => term_text (oterm t) | OpP _ s r => 40 :: pr_sum s ++ lay_bytes r ++ [41] end.
Fixpoint prod_body (p : ProdC) : str :=
  match p with ProdOne o => opnd_body o | ProdMore p' l op o => prod_body p' ++ lay_bytes l ++ op :: pr_opnd o end.
Fixpoint sum_body (s : SumC) : str :=
  match s with SumOne p => prod_body p | SumMore s' l op p => sum_body s' ++ lay_bytes l ++ op :: pr_prod p end.

Lemma opnd_split : forall o, pr_opnd o = lay_bytes (opnd_lay o) ++ opnd_body o.
Proof. destruct o; reflexivity. Qed.
Lemma prod_split : forall p, pr_prod p = lay_bytes (prod_lay p) ++ prod_body p.
Proof. induction p as [o|p' IH l op o]; cbn [pr_prod prod_lay prod_body]; [apply opnd_split|]. rewrite IH, <- app_assoc. reflexivity. Qed.
Lemma sum_split : forall s, pr_sum s = lay_bytes (sum_lay s) ++ sum_body s.
Proof. induction s as [p|s' IH l op p]; cbn [pr_sum sum_lay sum_body]; [apply prod_split|]. rewrite IH, <- app_assoc. reflexivity. Qed.

(* the first byte of the body: a term head or `(` *)
Definition first_tok_ok (o : Opnd) : bool := match o with OpT t => term_okb (oterm t) | OpP _ _ _ => true end.
Fixpoint prod_first (p : ProdC) : Opnd := match p with ProdOne o => o | ProdMore p' _ _ _ => prod_first p' end.
Fixpoint sum_first (s : SumC) : Opnd := match s with SumOne p => prod_first p | SumMore s' _ _ _ => sum_first s' end.

Lemma wf_first :
  (forall o f, wf_opnd o f = true -> lay_okb (opnd_lay o) = true /\ first_tok_ok o = true) /\
  (forall s f, wf_sum s f = true -> lay_okb (sum_lay s) = true /\ first_tok_ok (sum_first s) = true) /\
  (forall p f, wf_prod p f = true -> lay_okb (prod_lay p) = true /\ first_tok_ok (prod_first p) = true).
Proof.
  apply arith_mutind; cbn [wf_opnd wf_sum wf_prod opnd_lay sum_lay prod_lay sum_first prod_first first_tok_ok].
  - intros t f H. unfold wf_opnd_tok in H. repeat (apply andb_true_iff in H; destruct H as [H ?]). auto.
  - intros l s IH r f H. repeat (apply andb_true_iff in H; destruct H as [H ?]). auto.
  - intros p IH f H. eapply IH; eassumption.
  - intros s IHs l op p IHp f H. repeat (apply andb_true_iff in H; destruct H as [H ?]). eapply IHs; eassumption.
  - intros o IH f H. destruct (IH f H). destruct o; auto.
  - intros p IHp l op o IHo f H. repeat (apply andb_true_iff in H; destruct H as [H ?]). eapply IHp; eassumption.
Qed.

Lemma prod_body_head : forall p, exists x, prod_body p = opnd_body (prod_first p) ++ x.
Proof. induction p as [o|p' (x & IH) l op o]; cbn [prod_body prod_first]; [exists []; now rewrite app_nil_r|]. rewrite IH, <- app_assoc. eauto. Qed.
Lemma sum_body_head : forall s, exists x, sum_body s = opnd_body (sum_first s) ++ x.
Proof.
  induction s as [p|s' (x & IH) l op p]; cbn [sum_body sum_first]; [apply prod_body_head|]. rewrite IH, <- app_assoc. eauto.
Qed.

(* the body of a well-formed sum does not start with layout, nor with `!` or `=` *)
Definition is_paren (o : Opnd) : bool := match o with OpP _ _ _ => true | _ => false end.

Lemma opnd_body_facts : forall o rest, first_tok_ok o = true ->
  exists b t, opnd_body o = b :: t /\ b <> 33 /\ b <> 61 /\ b <> 38 /\ b <> 124 /\ b <> 41 /\ (is_paren o = false -> b <> 40)
              /\ ~ starts_layout (opnd_body o ++ rest).
Proof.
  intros [tk|l s r] rest H; cbn [first_tok_ok opnd_body is_paren] in *.
  - destruct (term_head _ H) as (b & t & E & Hf). exists b, t. split; [assumption|].
    assert (Hb : b <> 33 /\ b <> 61 /\ b <> 38 /\ b <> 124 /\ b <> 41 /\ b <> 40).
    { destruct (oterm tk); cbn [head_fact] in Hf; unfold is_ascii_alpha, is_ascii_upper, is_ascii_lower, is_ascii_digit in *; lia. }
    repeat split; try tauto. now apply term_not_layout.
  - eexists _, _. split; [reflexivity|]. repeat split; try lia; try discriminate. cbn [app]. apply ascii_head_not_layout; [lia|reflexivity|lia].
Qed.

Lemma sum_body_facts : forall s f rest, wf_sum s f = true ->
  exists b t, sum_body s = b :: t /\ b <> 33 /\ b <> 61 /\ b <> 38 /\ b <> 124 /\ b <> 41 /\ (is_paren (sum_first s) = false -> b <> 40)
              /\ ~ starts_layout (sum_body s ++ rest).
Proof.
  intros s f rest H. destruct (proj1 (proj2 wf_first) s f H) as [_ Hfk]. destruct (sum_body_head s) as (x & Ex).
  destruct (opnd_body_facts (sum_first s) (x ++ rest) Hfk) as (b & t & Eb & H1 & H2 & H3 & H4 & H5 & H6 & Hn).
  exists b, (t ++ x). rewrite Ex, Eb. repeat split; try assumption. rewrite <- Eb, <- app_assoc. exact Hn.
Qed.

(* ---- boolean level: atoms, && chains, || chains ---------------------------------------------------------- *)
Inductive FName : Type := FnIsTriple | FnTriple | FnSubject | FnPredicate | FnObject.
Definition fname_kw (f : FName) : str :=
  match f with FnIsTriple => kw_istriple | FnTriple => kw_triple | FnSubject => kw_subject | FnPredicate => kw_predicate | FnObject => kw_object end.

Inductive Atom : Type :=
| AtNot (l : L) (a : Atom)
| AtCall (kl : L) (fn : FName) (kwtxt : str) (lp : L) (a1 : OTok) (amore : list OMore) (rp : L)
| AtCmp (s1 : SumC) (ol : L) (op : str) (s2 : SumC)
| AtArith (s : SumC)
| AtParen (l : L) (e : OrC) (r : L)
with AndC : Type :=
| AndOne (a : Atom)
| AndMore (x : AndC) (l : L) (a : Atom)
with OrC : Type :=
| OrOne (x : AndC)
| OrMore (o : OrC) (l : L) (x : AndC).

Scheme atom_ind3 := Induction for Atom Sort Prop
with and_ind3 := Induction for AndC Sort Prop
with or_ind3 := Induction for OrC Sort Prop.
Combined Scheme bool_mutind from atom_ind3, and_ind3, or_ind3.

Fixpoint pr_atom (a : Atom) : str :=
  match a with
  | AtNot l a' => lay_bytes l ++ 33 :: pr_atom a'
  | AtCall kl fn kwtxt lp a1 amore rp => lay_bytes kl ++ kwtxt ++ lay_bytes lp ++ 40 :: pr_o a1 ++ pr_oms amore ++ lay_bytes rp ++ [41]
  | AtCmp s1 ol op s2 => pr_sum s1 ++ lay_bytes ol ++ op ++ pr_sum s2
  | AtArith s => pr_sum s
  | AtParen l e r => lay_bytes l ++ 40 :: pr_or e ++ lay_bytes r ++ [41]
  end
with pr_and (x : AndC) : str :=
  match x with
  | AndOne a => pr_atom a
  | AndMore x' l a => pr_and x' ++ lay_bytes l ++ 38 :: 38 :: pr_atom a
  end
with pr_or (o : OrC) : str :=
  match o with
  | OrOne x => pr_and x
  | OrMore o' l x => pr_or o' ++ lay_bytes l ++ 124 :: 124 :: pr_and x
  end.

Fixpoint tr_atom (a : Atom) : filt :=
  match a with
  | AtNot _ a' => FNot (tr_atom a')
  | AtCall _ fn _ _ a1 amore _ => FCall (fname_kw fn) (map (fun o => term_text (oterm o)) (a1 :: map om amore))
  | AtCmp s1 _ op s2 => FCmp (sum_body s1) op (sum_body s2)
  | AtArith s => FArith (tr_sum s)
  | AtParen _ e _ => tr_or e
  end
with tr_and (x : AndC) : filt :=
  match x with AndOne a => tr_atom a | AndMore x' _ a => FAnd (tr_and x') (tr_atom a) end
with tr_or (o : OrC) : filt :=
  match o with OrOne x => tr_and x | OrMore o' _ x => FOr (tr_or o') (tr_and x) end.

Fixpoint sz_atom (a : Atom) : nat :=
  match a with
  | AtNot _ a' => S (S (sz_atom a'))
  | AtCall _ _ _ _ _ amore _ => S (S (S (S (length amore))))
  | AtCmp s1 _ _ s2 => S (S (sz_sum s1 + sz_sum s2))
  | AtArith s => S (S (sz_sum s))
  | AtParen _ e _ => S (S (S (S (sz_or e))))
  end
with sz_and (x : AndC) : nat := match x with AndOne a => S (sz_atom a) | AndMore x' _ a => S (sz_and x' + sz_atom a) end
with sz_or (o : OrC) : nat := match o with OrOne x => S (sz_and x) | OrMore o' _ x => S (sz_or o' + sz_and x) end.

Definition fn_kws : list str := [kw_istriple; kw_triple; kw_subject; kw_predicate; kw_object].
Definition cmp_opb (op : str) : bool :=
  str_eqb op [33; 61] || str_eqb op [62; 61] || str_eqb op [60; 61] || str_eqb op [61] || str_eqb op [62] || str_eqb op [60].
Fixpoint kwcaseb (kw txt : str) : bool :=
  match kw, txt with
  | [], [] => true
  | k :: kw', b :: txt' => (ascii_lower b =? ascii_lower k) && kwcaseb kw' txt'
  | _, _ => false
  end.
Lemma kwcase_b : forall kw txt, kwcaseb kw txt = true -> KwCase kw txt.
Proof.
  induction kw as [|k kw IH]; intros [|b txt] H; try discriminate; [constructor|].
  cbn [kwcaseb] in H. apply andb_true_iff in H. destruct H as [H1 H2]. constructor; [now apply N.eqb_eq|now apply IH].
Qed.

(* arguments of the RDF-star functions: variable | literal | number | IRI | prefixed name *)
Definition is_arg_kind (t : Term) : bool := match t with TBlank _ _ | TBool _ => false | _ => true end.
Definition wf_arg (o : OTok) (following : str) : bool :=
  lay_okb (olay o) && term_okb (oterm o) && is_arg_kind (oterm o) && term_stopb (oterm o) following.
Fixpoint wf_args (ms : list OMore) (following : str) : bool :=
  match ms with
  | [] => true
  | m :: t => lay_okb (clay m) && wf_arg (om m) (pr_oms t ++ following) && wf_args t following
  end.

(* inside parentheses the parser first tries an ARITHMETIC reading `( sum )`; `pure_*`: the boolean expression is a
   single arithmetic atom (possibly parenthesised again), which that reading accepts; `hd_*`: if its first atom is a
   function call, the layout between the function name and `(` does not start with a non-ASCII whitespace character
   (U+1680 is both whitespace and PN_CHARS_BASE, so it would be read as part of a prefixed name's prefix) *)
Definition lay_ascii_head (l : L) : bool := match lay_bytes l with [] => true | b :: _ => b <? 128 end.
Fixpoint pure_atom (a : Atom) : bool :=
  match a with AtArith _ => true | AtParen _ e _ => pure_or e | _ => false end
with pure_and (x : AndC) : bool := match x with AndOne a => pure_atom a | AndMore _ _ _ => false end
with pure_or (o : OrC) : bool := match o with OrOne x => pure_and x | OrMore _ _ _ => false end.
Fixpoint hd_atom (a : Atom) : bool :=
  match a with AtCall _ _ _ lp _ _ _ => lay_ascii_head lp | AtParen _ e _ => hd_or e | _ => true end
with hd_and (x : AndC) : bool := match x with AndOne a => hd_atom a | AndMore x' _ _ => hd_and x' end
with hd_or (o : OrC) : bool := match o with OrOne x => hd_and x | OrMore o' _ _ => hd_or o' end.

Fixpoint wf_atom (a : Atom) (following : str) : bool :=
  match a with
  | AtNot l a' => lay_okb l && wf_atom a' following
  | AtCall kl fn kwtxt lp a1 amore rp =>
      lay_okb kl && kwcaseb (fname_kw fn) kwtxt && lay_okb lp && lay_okb rp
      && wf_arg a1 (pr_oms amore ++ lay_bytes rp ++ 41 :: following) && wf_args amore (lay_bytes rp ++ 41 :: following)
  | AtCmp s1 ol op s2 =>
      wf_sum s1 (lay_bytes ol ++ op ++ pr_sum s2 ++ following) && lay_okb ol && cmp_opb op && wf_sum s2 following
      && str_eqb (trim (sum_body s1)) (sum_body s1) && str_eqb (trim (sum_body s2)) (sum_body s2)
      && kw_free_text fn_kws (sum_body s1 ++ lay_bytes ol ++ op ++ pr_sum s2 ++ following)
  | AtArith s =>
      wf_sum s following && negb (is_paren (sum_first s)) && kw_free_text fn_kws (sum_body s ++ following)
  | AtParen l e r => lay_okb l && lay_okb r && hd_or e && wf_or e (lay_bytes r ++ 41 :: following)
  end
with wf_and (x : AndC) (following : str) : bool :=
  match x with
  | AndOne a => wf_atom a following
  | AndMore x' l a => lay_okb l && wf_and x' (lay_bytes l ++ 38 :: 38 :: pr_atom a ++ following) && wf_atom a following
  end
with wf_or (o : OrC) (following : str) : bool :=
  match o with
  | OrOne x => wf_and x following
  | OrMore o' l x => lay_okb l && wf_or o' (lay_bytes l ++ 124 :: 124 :: pr_and x ++ following) && wf_and x following
  end.

(* what may follow an atom: `&&`, `||` or `)` - in particular no arithmetic or comparison operator *)
Definition after_atom (following : str) : Prop := lead_out [42; 47; 43; 45; 33; 61; 62; 60] following.

Lemma str_eqb_eq : forall a b, str_eqb a b = true -> a = b.
Proof.
  induction a as [|x a IH]; intros [|y b] H; try discriminate; [reflexivity|]. cbn [str_eqb] in H. apply andb_true_iff in H.
  destruct H as [H1 H2]. apply N.eqb_eq in H1. subst. f_equal. now apply IH.
Qed.

(* ---- function-call arguments ---------------------------------------------------------------------------- *)
Theorem call_arg_ok : forall tf t w rest, term_okb t = true -> is_arg_kind t = true -> term_stopb t rest = true ->
  LayoutC w -> Valid rest ->
  alt [quoted_triple (S tf); variable; quoted_literal; numeric_literal; iri; prefixed_name] (w ++ term_text t ++ rest) = Ok (term_text t, rest).
Proof.
  intros tf t w rest Hok Hk Hst Hw Hr. pose proof (term_scan_ok t w rest Hok Hst Hw Hr) as Sc.
  destruct (skip_head t w rest Hok Hw Hr) as (b & tl & Esk & Etx & Hf & Vx). pose proof (valid_all t w rest Hok Hw Hr) as Vall.
  unfold alt. cbn [alt_from].
  destruct t as [sigil cs|items|q items|sign ds1 frac|p items|c0 cs|bb]; try discriminate Hk; cbn [head_fact term_scan] in *.
  - alt_skip (quoted_triple_err tf _ _ _ Vall Esk ltac:(lia)). now rewrite Sc.
  - subst b. cbn [term_text app] in Etx. injection Etx as Etl.
    assert (H2 : match tl with x :: _ => x <> 60 | [] => True end) by (rewrite <- Etl; now apply iri_term_second).
    alt_skip (quoted_triple_err2 tf _ _ Vall Esk H2).
    alt_skip (variable_err_b _ _ _ Vx Esk ltac:(lia) ltac:(lia)).
    alt_skip (quoted_literal_err _ _ _ Esk ltac:(lia) ltac:(lia)).
    alt_skip (numeric_err _ _ _ Esk ltac:(lia) ltac:(lia) ltac:(lia) ltac:(reflexivity)). now rewrite Sc.
  - alt_skip (quoted_triple_err tf _ _ _ Vall Esk ltac:(lia)).
    alt_skip (variable_err_b _ _ _ Vx Esk ltac:(lia) ltac:(lia)). now rewrite Sc.
  - assert (Hb : b <> 60 /\ b <> 63 /\ b <> 36 /\ b <> 39 /\ b <> 34) by (unfold is_ascii_digit in Hf; lia).
    alt_skip (quoted_triple_err tf _ _ _ Vall Esk ltac:(lia)).
    alt_skip (variable_err_b _ _ _ Vx Esk ltac:(lia) ltac:(lia)).
    alt_skip (quoted_literal_err _ _ _ Esk ltac:(lia) ltac:(lia)). now rewrite Sc.
  - assert (Hb : b <> 60 /\ b <> 63 /\ b <> 36 /\ b <> 39 /\ b <> 34 /\ b <> 43 /\ b <> 45 /\ b <> 46 /\ is_ascii_digit b = false)
      by (unfold is_ascii_alpha, is_ascii_upper, is_ascii_lower, is_ascii_digit in *; lia).
    alt_skip (quoted_triple_err tf _ _ _ Vall Esk ltac:(lia)).
    alt_skip (variable_err_b _ _ _ Vx Esk ltac:(lia) ltac:(lia)).
    alt_skip (quoted_literal_err _ _ _ Esk ltac:(lia) ltac:(lia)).
    alt_skip (numeric_err _ _ _ Esk ltac:(lia) ltac:(lia) ltac:(lia) ltac:(tauto)).
    alt_skip (iri_err _ _ _ Esk ltac:(lia)). now rewrite Sc.
Qed.

Lemma wf_arg_parts : forall o f, wf_arg o f = true ->
  lay_okb (olay o) = true /\ term_okb (oterm o) = true /\ is_arg_kind (oterm o) = true /\ term_stopb (oterm o) f = true.
Proof. intros o f H. unfold wf_arg in H. repeat (apply andb_true_iff in H; destruct H as [H ?]). auto. Qed.

Lemma arg_valid : forall o f, wf_arg o f = true -> Valid (pr_o o).
Proof. intros o f H. destruct (wf_arg_parts _ _ H) as (Hl & Ht & _). apply valid_app; [now apply lay_valid|now apply term_valid]. Qed.

Lemma args_valid : forall ms f, wf_args ms f = true -> Valid (pr_oms ms).
Proof.
  induction ms as [|m t IH]; intros f H; [apply valid_nil|]. cbn [wf_args] in H. repeat (apply andb_true_iff in H; destruct H as [H ?]).
  cbn [pr_oms flat_map]. apply valid_app; [|eapply IH; eassumption]. unfold pr_om.
  apply valid_app; [now apply lay_valid|]. apply (valid_app [44]); [apply valid_ascii; repeat constructor; lia|eapply arg_valid; eassumption].
Qed.

Lemma call_args_loop_rt : forall ms fuel tf o rest acc,
  wf_arg o (pr_oms ms ++ rest) = true -> wf_args ms rest = true -> Valid rest -> no_lead 44 rest -> (length ms < fuel)%nat ->
  call_args_loop fuel (S tf) (pr_o o ++ pr_oms ms ++ rest) acc
  = Ok (acc ++ map (fun x => term_text (oterm x)) (o :: map om ms), skip_ws rest).
Proof.
  induction ms as [|m t IH]; intros fuel tf o rest acc Ho Hms Hr Hn Hf.
  - destruct fuel as [|f]; [cbn in Hf; lia|]. cbn [call_args_loop pr_oms flat_map app map] in *.
    destruct (wf_arg_parts _ _ Ho) as (Hl & Ht & Hk & Hs). unfold pr_o. rewrite <- app_assoc.
    rewrite (call_arg_ok tf (oterm o) _ rest Ht Hk Hs (lay_ok _ Hl) Hr). cbn [bind].
    unfold no_lead in Hn. rewrite Hn. reflexivity.
  - destruct fuel as [|f]; [cbn in Hf; lia|]. cbn [call_args_loop].
    cbn [wf_args] in Hms. repeat (apply andb_true_iff in Hms; destruct Hms as [Hms ?]).
    assert (Vt : Valid (pr_oms t ++ rest)) by (apply valid_app; [eapply args_valid; eassumption|assumption]).
    assert (Vm : Valid (pr_o (om m) ++ pr_oms t ++ rest)) by (apply valid_app; [eapply arg_valid; eassumption|assumption]).
    assert (Vall : Valid (pr_oms (m :: t) ++ rest)).
    { cbn [pr_oms flat_map]. unfold pr_om. rewrite <- !app_assoc. apply valid_app; [now apply lay_valid|].
      apply (valid_app [44]); [apply valid_ascii; repeat constructor; lia|exact Vm]. }
    destruct (wf_arg_parts _ _ Ho) as (Hl & Ht & Hk & Hs). unfold pr_o at 1. rewrite <- app_assoc.
    rewrite (call_arg_ok tf (oterm o) _ _ Ht Hk Hs (lay_ok _ Hl) Vall). cbn [bind].
    rewrite (comma_next m t rest Hms Vm).
    rewrite (IH f tf (om m) rest (acc ++ [term_text (oterm o)]) H0 H Hr Hn ltac:(cbn in Hf; lia)).
    rewrite <- app_assoc. reflexivity.
Qed.

(* ---- comparison operators ------------------------------------------------------------------------------ *)
Lemma filter_operator_ok : forall l op x, lay_okb l = true -> cmp_opb op = true -> Valid x ->
  (match x with b :: _ => b <> 61 | [] => True end) -> filter_operator (lay_bytes l ++ op ++ x) = Ok (op, x).
Proof.
  intros l op x Hl Hop Hx H61. unfold cmp_opb in Hop.
  assert (Cases : op = [33; 61] \/ op = [62; 61] \/ op = [60; 61] \/ op = [61] \/ op = [62] \/ op = [60]).
  { repeat (apply orb_true_iff in Hop; destruct Hop as [Hop|Hop]); apply str_eqb_eq in Hop; auto 10. }
  assert (Vop : Valid (op ++ x)) by (apply valid_app; [apply valid_ascii; destruct Cases as [->|[->|[->|[->|[->| ->]]]]]; repeat constructor; lia|assumption]).
  assert (Esk : skip_ws (lay_bytes l ++ op ++ x) = op ++ x).
  { apply skip_ws_closed; [now apply lay_ok|assumption|].
    destruct Cases as [->|[->|[->|[->|[->| ->]]]]]; cbn [app]; apply ascii_head_not_layout; try lia; reflexivity. }
  unfold filter_operator. rewrite Esk.
  assert (B1 : Bnd (op ++ x) (length op)) by (apply valid_app_bnd; [apply valid_ascii; destruct Cases as [->|[->|[->|[->|[->| ->]]]]]; repeat constructor; lia|assumption]).
  assert (St : forall p, Bnd (p ++ x) (length p) -> lift (slice_to (p ++ x) (length p)) = Ok p).
  { intros p B. rewrite slice_to_bnd by assumption. rewrite firstn_app, firstn_all, Nat.sub_diag. cbn [firstn lift]. now rewrite app_nil_r. }
  assert (X61 : starts_with [61] x = false).
  { destruct x as [|b0 x']; [reflexivity|]. cbn [starts_with]. destruct (N.eqb_spec 61 b0); [congruence|reflexivity]. }
  unfold strip_prefix.
  destruct Cases as [->|[->|[->|[->|[->| ->]]]]].
  - change (starts_with [33; 61] ([33; 61] ++ x)) with true. cbv beta iota. rewrite (St [33; 61] B1). reflexivity.
  - change (starts_with [33; 61] ([62; 61] ++ x)) with false. change (starts_with [62; 61] ([62; 61] ++ x)) with true. cbv beta iota.
    rewrite (St [62; 61] B1). reflexivity.
  - change (starts_with [33; 61] ([60; 61] ++ x)) with false. change (starts_with [62; 61] ([60; 61] ++ x)) with false.
    change (starts_with [60; 61] ([60; 61] ++ x)) with true. cbv beta iota. rewrite (St [60; 61] B1). reflexivity.
  - change (starts_with [33; 61] ([61] ++ x)) with false. change (starts_with [62; 61] ([61] ++ x)) with false.
    change (starts_with [60; 61] ([61] ++ x)) with false. change (starts_with [61] ([61] ++ x)) with true. cbv beta iota.
    rewrite (St [61] B1). reflexivity.
  - change (starts_with [33; 61] ([62] ++ x)) with false. change (starts_with [62; 61] ([62] ++ x)) with (starts_with [61] x). rewrite X61.
    change (starts_with [60; 61] ([62] ++ x)) with false. change (starts_with [61] ([62] ++ x)) with false.
    change (starts_with [62] ([62] ++ x)) with true. cbv beta iota. rewrite (St [62] B1). reflexivity.
  - change (starts_with [33; 61] ([60] ++ x)) with false. change (starts_with [62; 61] ([60] ++ x)) with false.
    change (starts_with [60; 61] ([60] ++ x)) with (starts_with [61] x). rewrite X61.
    change (starts_with [61] ([60] ++ x)) with false. change (starts_with [62] ([60] ++ x)) with false.
    change (starts_with [60] ([60] ++ x)) with true. cbv beta iota. rewrite (St [60] B1). reflexivity.
Qed.

(* ---- the RDF-star function alternative of an atom -------------------------------------------------------- *)
Lemma f_function_err : forall tf x, Valid x -> skip_ws x = x -> kw_free_text fn_kws x = true -> is_err (f_function tf x).
Proof.
  intros tf x Hv Hs Hk. unfold kw_free_text, fn_kws in Hk. cbn [forallb] in Hk. rewrite andb_true_r in Hk.
  repeat (apply andb_true_iff in Hk; destruct Hk as [? Hk]).
  repeat match goal with H : negb _ = true |- _ => apply negb_true_iff in H end.
  unfold f_function. rewrite Hs.
  destruct (keyword_free_err kw_istriple x x ltac:(kw_a) Hv Hs ltac:(assumption)) as (? & ? & ? & ->).
  destruct (keyword_free_err kw_triple x x ltac:(kw_a) Hv Hs ltac:(assumption)) as (? & ? & ? & ->).
  destruct (keyword_free_err kw_subject x x ltac:(kw_a) Hv Hs ltac:(assumption)) as (? & ? & ? & ->).
  destruct (keyword_free_err kw_predicate x x ltac:(kw_a) Hv Hs ltac:(assumption)) as (? & ? & ? & ->).
  destruct (keyword_free_err kw_object x x ltac:(kw_a) Hv Hs ltac:(assumption)) as (? & ? & ? & ->).
  repeat eexists.
Qed.

Lemma kwcase_head : forall kw txt, KwCase kw txt -> kw <> [] -> exists k kw' b t, kw = k :: kw' /\ txt = b :: t /\ ascii_lower b = ascii_lower k.
Proof. intros kw txt H Hne. destruct H as [|k b kw' t Hkb Hr]; [congruence|]. eauto 8. Qed.

Lemma fname_letter : forall fn b t, KwCase (fname_kw fn) (b :: t) -> letter b.
Proof.
  intros fn b t H. assert (Hl : exists k kw', fname_kw fn = k :: kw' /\ is_ascii_alpha k = true) by (destruct fn; eexists _, _; split; reflexivity).
  destruct Hl as (k & kw' & E & Hk). rewrite E in H. inversion H as [|? ? ? ? Hkb _]; subst.
  unfold letter, is_ascii_alpha, is_ascii_upper, is_ascii_lower, ascii_lower, is_ascii_upper in *.
  destruct ((65 <=? b) && (b <=? 90)) eqn:E1; destruct ((65 <=? k) && (k <=? 90)) eqn:E2; lia.
Qed.

Lemma f_function_call : forall tf fn kwtxt lp a1 amore rp rest,
  kwcaseb (fname_kw fn) kwtxt = true -> lay_okb lp = true -> lay_okb rp = true ->
  wf_arg a1 (pr_oms amore ++ lay_bytes rp ++ 41 :: rest) = true -> wf_args amore (lay_bytes rp ++ 41 :: rest) = true -> Valid rest ->
  f_function (S tf) (kwtxt ++ lay_bytes lp ++ 40 :: pr_o a1 ++ pr_oms amore ++ lay_bytes rp ++ 41 :: rest)
  = Ok (FCall (fname_kw fn) (map (fun o => term_text (oterm o)) (a1 :: map om amore)), rest).
Proof.
  intros tf fn kwtxt lp a1 amore rp rest Hk Hlp Hrp Ha1 Ham Hr. apply kwcase_b in Hk.
  assert (Vr1 : Valid (lay_bytes rp ++ 41 :: rest)) by (apply valid_app; [now apply lay_valid|apply (valid_app [41]); [apply valid_ascii; repeat constructor; lia|assumption]]).
  assert (Vargs : Valid (pr_o a1 ++ pr_oms amore ++ lay_bytes rp ++ 41 :: rest)).
  { apply valid_app; [eapply arg_valid; eassumption|]. apply valid_app; [eapply args_valid; eassumption|assumption]. }
  assert (Vp : Valid (lay_bytes lp ++ 40 :: pr_o a1 ++ pr_oms amore ++ lay_bytes rp ++ 41 :: rest)).
  { apply valid_app; [now apply lay_valid|]. apply (valid_app [40]); [apply valid_ascii; repeat constructor; lia|assumption]. }
  assert (Akw : ascii_str (fname_kw fn)) by (destruct fn; kw_a).
  destruct (kwcase_head _ _ Hk ltac:(destruct fn; discriminate)) as (k & kw' & b & t & Ekw & Etxt & Hkb).
  assert (Lb : letter b) by (rewrite Etxt in Hk; eapply fname_letter; eassumption).
  set (X := kwtxt ++ lay_bytes lp ++ 40 :: pr_o a1 ++ pr_oms amore ++ lay_bytes rp ++ 41 :: rest).
  assert (VX : Valid X) by (unfold X; apply valid_app; [apply valid_ascii; now apply (kwcase_ascii (fname_kw fn))|assumption]).
  assert (EX : skip_ws X = X).
  { apply skip_ws_fixed; [assumption|]. unfold X. rewrite Etxt. cbn [app]. now apply letter_not_layout. }
  assert (Ns : name_stop (lay_bytes lp ++ 40 :: pr_o a1 ++ pr_oms amore ++ lay_bytes rp ++ 41 :: rest)).
  { apply name_stop_layout; [now apply lay_ok|]. unfold name_stop. cbn. reflexivity. }
  pose proof (keyword_roundtrip (fname_kw fn) kwtxt [] _ Akw Hk (ex_intro _ b (ex_intro _ t (conj Etxt Lb))) (LC_end [] W_nil) Vp Ns) as Kok.
  cbn [app] in Kok. fold X in Kok.
  (* the arguments and the closing parenthesis *)
  assert (After : (do i1 <- schar 40 (lay_bytes lp ++ 40 :: pr_o a1 ++ pr_oms amore ++ lay_bytes rp ++ 41 :: rest);
                   do '(args, i2) <- call_args_loop (S (length i1)) (S tf) i1 [];
                   do i3 <- schar 41 i2; Ok (FCall (fname_kw fn) args, i3))
                  = Ok (FCall (fname_kw fn) (map (fun o => term_text (oterm o)) (a1 :: map om amore)), rest)).
  { rewrite schar_roundtrip by (try assumption; try lia; try reflexivity; now apply lay_ok). cbn [bind].
    rewrite (call_args_loop_rt amore _ tf a1 (lay_bytes rp ++ 41 :: rest) [] Ha1 Ham Vr1).
    - cbn [bind app]. rewrite lead_skip by (try assumption; try lia; reflexivity).
      pose proof (schar_roundtrip 41 [] rest ltac:(lia) eq_refl ltac:(lia) (LC_end [] W_nil) Hr) as Sc. cbn [app] in Sc. rewrite Sc. reflexivity.
    - unfold no_lead. rewrite lead_skip by (try assumption; try lia; reflexivity). reflexivity.
    - rewrite !app_length. pose proof (oms_length amore). cbn [length]. lia. }
  (* the keyword: earlier function names fail on the first letter *)
  assert (Fail : forall kw k0 kw0, kw = k0 :: kw0 -> ascii_lower k0 <> ascii_lower k -> is_err (keyword kw X)).
  { intros kw k0 kw0 Ek Hne. apply (keyword_fail kw k0 kw0 X b (t ++ lay_bytes lp ++ 40 :: pr_o a1 ++ pr_oms amore ++ lay_bytes rp ++ 41 :: rest) Ek).
    - rewrite EX. unfold X. rewrite Etxt. reflexivity.
    - rewrite Hkb. congruence. }
  unfold f_function. rewrite EX. fold X.
  destruct fn; cbn [fname_kw] in *; injection Ekw as <- <-.
  - rewrite Kok. exact After.
  - destruct (Fail kw_istriple _ _ eq_refl ltac:(cbv; discriminate)) as (? & ? & ? & ->). rewrite Kok. exact After.
  - destruct (Fail kw_istriple _ _ eq_refl ltac:(cbv; discriminate)) as (? & ? & ? & ->).
    destruct (Fail kw_triple _ _ eq_refl ltac:(cbv; discriminate)) as (? & ? & ? & ->). rewrite Kok. exact After.
  - destruct (Fail kw_istriple _ _ eq_refl ltac:(cbv; discriminate)) as (? & ? & ? & ->).
    destruct (Fail kw_triple _ _ eq_refl ltac:(cbv; discriminate)) as (? & ? & ? & ->).
    destruct (Fail kw_subject _ _ eq_refl ltac:(cbv; discriminate)) as (? & ? & ? & ->). rewrite Kok. exact After.
  - destruct (Fail kw_istriple _ _ eq_refl ltac:(cbv; discriminate)) as (? & ? & ? & ->).
    destruct (Fail kw_triple _ _ eq_refl ltac:(cbv; discriminate)) as (? & ? & ? & ->).
    destruct (Fail kw_subject _ _ eq_refl ltac:(cbv; discriminate)) as (? & ? & ? & ->).
    destruct (Fail kw_predicate _ _ eq_refl ltac:(cbv; discriminate)) as (? & ? & ? & ->). rewrite Kok. exact After.
Qed.


(* ---- leading layout and body of a printed atom ------------------------------------------------------------ *)
Definition atom_lay (a : Atom) : L :=
  match a with
  | AtNot l _ => l | AtCall kl _ _ _ _ _ _ => kl | AtCmp s1 _ _ _ => sum_lay s1 | AtArith s => sum_lay s | AtParen l _ _ => l
  end.
Definition atom_body (a : Atom) : str :=
  match a with
  | AtNot _ a' => 33 :: pr_atom a'
  | AtCall _ _ kwtxt lp a1 amore rp => kwtxt ++ lay_bytes lp ++ 40 :: pr_o a1 ++ pr_oms amore ++ lay_bytes rp ++ [41]
  | AtCmp s1 ol op s2 => sum_body s1 ++ lay_bytes ol ++ op ++ pr_sum s2
  | AtArith s => sum_body s
  | AtParen _ e r => 40 :: pr_or e ++ lay_bytes r ++ [41]
  end.
Lemma atom_split : forall a, pr_atom a = lay_bytes (atom_lay a) ++ atom_body a.
Proof.
  destruct a; cbn [pr_atom atom_lay atom_body]; try reflexivity.
  - rewrite sum_split, <- !app_assoc. reflexivity.
  - apply sum_split.
Qed.
Fixpoint and_first (x : AndC) : Atom := match x with AndOne a => a | AndMore x' _ _ => and_first x' end.
Fixpoint or_first (o : OrC) : Atom := match o with OrOne x => and_first x | OrMore o' _ _ => or_first o' end.

Lemma layout_head_ne : forall w x c, LayoutC w -> c < 128 -> is_whitespace c = false -> c <> 35 ->
  starts_with [c] x = false -> starts_with [c] (w ++ x) = false.
Proof.
  intros w x c Hw Hc Hws H35 Hx.
  assert (WsHead : forall ws y, WsOnly ws -> starts_with [c] y = false -> starts_with [c] (ws ++ y) = false).
  { intros ws y Hwso Hy. destruct Hwso as [|c0 ws' Hc0 Hcw Hws']; [exact Hy|]. rewrite <- app_assoc.
    destruct (N.lt_ge_cases c0 128) as [Hlt|Hge].
    - rewrite encode_char_ascii by assumption. cbn [app starts_with]. destruct (N.eqb_spec c c0); [congruence|reflexivity].
    - destruct (encode_char c0) as [|b t] eqn:E.
      + pose proof (encode_char_len c0) as Hl. rewrite E in Hl. pose proof (len_utf8_pos c0). cbn in Hl. lia.
      + cbn [app starts_with]. pose proof (encode_char_bytes_high c0 b Hge (scalar_lt _ Hc0)) as Hb. rewrite E in Hb.
        specialize (Hb (or_introl eq_refl)). destruct (N.eqb_spec c b); [lia|reflexivity]. }
  destruct Hw as [ws Hws0|ws body e w' Hws0 Hb Hvb He Hw'].
  - now apply WsHead.
  - rewrite <- app_assoc. apply WsHead; [assumption|]. cbn [app starts_with]. destruct (N.eqb_spec c 35); [congruence|reflexivity].
Qed.

(* the first non-layout byte of a well-formed atom *)
Lemma atom_body_facts : forall a f rest, wf_atom a f = true ->
  lay_okb (atom_lay a) = true /\
  exists b t, atom_body a = b :: t /\ b <> 61 /\ b <> 38 /\ b <> 124 /\ b <> 41 /\ ~ starts_layout (atom_body a ++ rest) /\
              (match a with AtNot _ _ => b = 33 | _ => b <> 33 end).
Proof.
  intros a f rest H. destruct a as [l a'|kl fn kwtxt lp a1 amore rp|s1 ol op s2|s|l e r]; cbn [wf_atom atom_lay atom_body] in *.
  - apply andb_true_iff in H. destruct H as [Hl _]. split; [assumption|]. eexists _, _. split; [reflexivity|].
    repeat split; try lia. cbn [app]. apply ascii_head_not_layout; [lia|reflexivity|lia].
  - repeat (apply andb_true_iff in H; destruct H as [H ?]). split; [assumption|].
    apply kwcase_b in H4. destruct (kwcase_head _ _ H4 ltac:(destruct fn; discriminate)) as (k & kw' & b & t & Ekw & Etxt & Hkb).
    assert (Lb : letter b) by (rewrite Etxt in H4; eapply fname_letter; eassumption).
    exists b, (t ++ lay_bytes lp ++ 40 :: pr_o a1 ++ pr_oms amore ++ lay_bytes rp ++ [41]). rewrite Etxt. split; [reflexivity|].
    unfold letter, is_ascii_alpha, is_ascii_upper, is_ascii_lower in Lb. repeat split; try lia. cbn [app]. now apply letter_not_layout.
  - repeat (apply andb_true_iff in H; destruct H as [H ?]). split; [exact (proj1 (proj1 (proj2 wf_first) _ _ H))|].
    destruct (sum_body_facts s1 _ ((lay_bytes ol ++ op ++ pr_sum s2) ++ rest) H) as (b & t & Eb & H33 & H61 & H38 & H124 & H41 & _ & Hn).
    exists b, (t ++ lay_bytes ol ++ op ++ pr_sum s2). rewrite Eb. split; [reflexivity|]. repeat split; try assumption.
    rewrite <- Eb. rewrite <- app_assoc. exact Hn.
  - repeat (apply andb_true_iff in H; destruct H as [H ?]). split; [exact (proj1 (proj1 (proj2 wf_first) _ _ H))|].
    destruct (sum_body_facts s _ rest H) as (b & t & Eb & H33 & H61 & H38 & H124 & H41 & _ & Hn).
    exists b, t. repeat split; assumption.
  - repeat (apply andb_true_iff in H; destruct H as [H ?]). split; [assumption|]. eexists _, _. split; [reflexivity|].
    repeat split; try lia. cbn [app]. apply ascii_head_not_layout; [lia|reflexivity|lia].
Qed.

Lemma atom_valid_mut :
  (forall a f, wf_atom a f = true -> Valid (pr_atom a)) /\
  (forall x f, wf_and x f = true -> Valid (pr_and x)) /\
  (forall o f, wf_or o f = true -> Valid (pr_or o)).
Proof.
  apply bool_mutind; cbn [wf_atom wf_and wf_or pr_atom pr_and pr_or].
  - intros l a IH f H. apply andb_true_iff in H. destruct H. apply valid_app; [now apply lay_valid|].
    apply (valid_app [33]); [apply valid_ascii; repeat constructor; lia|eapply IH; eassumption].
  - intros kl fn kwtxt lp a1 amore rp f H. repeat (apply andb_true_iff in H; destruct H as [H ?]).
    apply valid_app; [now apply lay_valid|]. apply valid_app; [apply valid_ascii; apply (kwcase_ascii (fname_kw fn)); [destruct fn; kw_a|now apply kwcase_b]|].
    apply valid_app; [now apply lay_valid|]. apply (valid_app [40]); [apply valid_ascii; repeat constructor; lia|].
    apply valid_app; [eapply arg_valid; eassumption|]. apply valid_app; [eapply args_valid; eassumption|].
    apply valid_app; [now apply lay_valid|apply valid_ascii; repeat constructor; lia].
  - intros s1 ol op s2 f H. repeat (apply andb_true_iff in H; destruct H as [H ?]).
    apply valid_app; [eapply (proj1 (proj2 arith_valid)); eassumption|]. apply valid_app; [now apply lay_valid|].
    apply valid_app; [|eapply (proj1 (proj2 arith_valid)); eassumption].
    unfold cmp_opb in H4. apply valid_ascii.
    repeat (apply orb_true_iff in H4; destruct H4 as [H4|H4]); apply str_eqb_eq in H4; subst op; repeat constructor; lia.
  - intros s f H. repeat (apply andb_true_iff in H; destruct H as [H ?]). eapply (proj1 (proj2 arith_valid)); eassumption.
  - intros l e IH r f H. repeat (apply andb_true_iff in H; destruct H as [H ?]).
    apply valid_app; [now apply lay_valid|]. apply (valid_app [40]); [apply valid_ascii; repeat constructor; lia|].
    apply valid_app; [eapply IH; eassumption|]. apply valid_app; [now apply lay_valid|apply valid_ascii; repeat constructor; lia].
  - intros a IH f H. eapply IH; eassumption.
  - intros x IHx l a IHa f H. repeat (apply andb_true_iff in H; destruct H as [H ?]).
    apply valid_app; [eapply IHx; eassumption|]. apply valid_app; [now apply lay_valid|].
    apply (valid_app [38; 38]); [apply valid_ascii; repeat constructor; lia|eapply IHa; eassumption].
  - intros x IH f H. eapply IH; eassumption.
  - intros o IHo l x IHx f H. repeat (apply andb_true_iff in H; destruct H as [H ?]).
    apply valid_app; [eapply IHo; eassumption|]. apply valid_app; [now apply lay_valid|].
    apply (valid_app [124; 124]); [apply valid_ascii; repeat constructor; lia|eapply IHx; eassumption].
Qed.

(* ---- validity of bodies ----------------------------------------------------------------------------------- *)
Lemma opnd_body_valid : forall o f, wf_opnd o f = true -> Valid (opnd_body o).
Proof.
  intros [t|l s r] f H; cbn [wf_opnd opnd_body] in *.
  - unfold wf_opnd_tok in H. repeat (apply andb_true_iff in H; destruct H as [H ?]). now apply term_valid.
  - repeat (apply andb_true_iff in H; destruct H as [H ?]).
    apply (valid_app [40]); [apply valid_ascii; repeat constructor; lia|].
    apply valid_app; [eapply (proj1 (proj2 arith_valid)); eassumption|]. apply valid_app; [now apply lay_valid|apply valid_ascii; repeat constructor; lia].
Qed.
Lemma prod_body_valid : forall p f, wf_prod p f = true -> Valid (prod_body p).
Proof.
  induction p as [o|p' IH l op o]; intros f H; cbn [wf_prod prod_body] in *.
  - eapply opnd_body_valid; eassumption.
  - repeat (apply andb_true_iff in H; destruct H as [H ?]). apply valid_app; [eapply IH; eassumption|].
    apply valid_app; [now apply lay_valid|]. apply (valid_app [op]); [apply valid_ascii; repeat constructor; lia|eapply (proj1 arith_valid); eassumption].
Qed.
Lemma sum_body_valid : forall s f, wf_sum s f = true -> Valid (sum_body s).
Proof.
  induction s as [p|s' IH l op p]; intros f H; cbn [wf_sum sum_body] in *.
  - eapply prod_body_valid; eassumption.
  - repeat (apply andb_true_iff in H; destruct H as [H ?]). apply valid_app; [eapply IH; eassumption|].
    apply valid_app; [now apply lay_valid|]. apply (valid_app [op]); [apply valid_ascii; repeat constructor; lia|eapply (proj2 (proj2 arith_valid)); eassumption].
Qed.

Lemma starts61 : forall x, starts_with [61] x = false -> match x with b :: _ => b <> 61 | [] => True end.
Proof. intros [|b x] H; [exact I|]. intros ->. cbn in H. discriminate. Qed.
Lemma strip1_none : forall c b t, b <> c -> strip_prefix [c] (b :: t) = None.
Proof. intros c b t H. unfold strip_prefix. cbn [starts_with]. destruct (N.eqb_spec c b); [congruence|reflexivity]. Qed.
Lemma strip1_some : forall c t, strip_prefix [c] (c :: t) = Some t.
Proof. intros c t. unfold strip_prefix. cbn [starts_with]. rewrite N.eqb_refl. destruct t; reflexivity. Qed.
Lemma slice_prefix : forall a b, Valid a -> Valid b -> lift (slice_to (a ++ b) (length (a ++ b) - length b)) = Ok a.
Proof.
  intros a b Ha Hb. rewrite app_length. replace (length a + length b - length b)%nat with (length a) by lia.
  rewrite slice_to_bnd by now apply valid_app_bnd. rewrite firstn_app, firstn_all, Nat.sub_diag. cbn [firstn lift]. now rewrite app_nil_r.
Qed.

Lemma cmp_lead_out : forall l op x, lay_okb l = true -> cmp_opb op = true -> Valid x -> lead_out [42; 47; 43; 45] (lay_bytes l ++ op ++ x).
Proof.
  intros l op x Hl Hop Hx. unfold cmp_opb in Hop.
  assert (V1 : forall c, c < 128 -> Valid (c :: x)) by (intros c Hc; apply (valid_app [c]); [apply valid_ascii; repeat constructor; assumption|assumption]).
  repeat (apply orb_true_iff in Hop; destruct Hop as [Hop|Hop]); apply str_eqb_eq in Hop; subst op; cbn [app];
    (apply lead_out_byte; [assumption|lia|reflexivity|lia| |cbn; lia]); first [assumption | apply V1; lia].
Qed.
Lemma cmp_valid : forall op, cmp_opb op = true -> Valid op.
Proof.
  intros op Hop. unfold cmp_opb in Hop. apply valid_ascii.
  repeat (apply orb_true_iff in Hop; destruct Hop as [Hop|Hop]); apply str_eqb_eq in Hop; subst op; repeat constructor; lia.
Qed.

Lemma filter_operator_err : forall x, lead_out [33; 61; 62; 60] x -> is_err (filter_operator x).
Proof.
  intros x H. unfold filter_operator. destruct (skip_ws x) as [|b t] eqn:E.
  - cbn. repeat eexists.
  - specialize (H b t E). cbn [In] in H.
    assert (E1 : (33 =? b) = false) by (apply N.eqb_neq; intros <-; tauto).
    assert (E2 : (62 =? b) = false) by (apply N.eqb_neq; intros <-; tauto).
    assert (E3 : (60 =? b) = false) by (apply N.eqb_neq; intros <-; tauto).
    assert (E4 : (61 =? b) = false) by (apply N.eqb_neq; intros <-; tauto).
    unfold strip_prefix. cbn [starts_with]. rewrite E1, E2, E3, E4. cbn. repeat eexists.
Qed.

Fixpoint c_and (x : AndC) : nat := match x with AndOne _ => 1%nat | AndMore x' _ _ => S (c_and x') end.
Fixpoint c_or (o : OrC) : nat := match o with OrOne _ => 1%nat | OrMore o' _ _ => S (c_or o') end.
Lemma sz_atom_pos : forall a, (1 <= sz_atom a)%nat.
Proof. destruct a; cbn [sz_atom]; lia. Qed.
Lemma c_and_sz : forall x, (S (c_and x) <= sz_and x)%nat.
Proof. induction x as [a|x' IH l a]; cbn [c_and sz_and]; pose proof (sz_atom_pos a); lia. Qed.
Lemma c_or_sz : forall o, (S (c_or o) <= sz_or o)%nat.
Proof. induction o as [x|o' IH l x]; cbn [c_or sz_or]; pose proof (c_and_sz x); lia. Qed.

Definition no_op2 (c : N) (rest : str) : Prop := strip_prefix [c; c] (skip_ws rest) = None.
Lemma and_loop_stop : forall g e rest, no_op2 38 rest -> f_and_loop (S g) e rest = Ok (e, rest).
Proof. intros g e rest H. cbn [f_and_loop]. unfold no_op2 in H. now rewrite H. Qed.
Lemma or_loop_stop : forall g e rest, no_op2 124 rest -> f_or_loop (S g) e rest = Ok (e, rest).
Proof. intros g e rest H. cbn [f_or_loop]. unfold no_op2 in H. now rewrite H. Qed.
Lemma op2_skip : forall l c x, lay_okb l = true -> c < 128 -> is_whitespace c = false -> c <> 35 -> Valid x ->
  strip_prefix [c; c] (skip_ws (lay_bytes l ++ c :: c :: x)) = Some x.
Proof.
  intros l c x Hl Hc Hw H35 Hx.
  assert (V1 : Valid (c :: x)) by (apply (valid_app [c]); [apply valid_ascii; repeat constructor; assumption|assumption]).
  rewrite lead_skip by assumption.
  unfold strip_prefix. cbn [starts_with]. rewrite !N.eqb_refl. destruct x; reflexivity.
Qed.
Lemma no_op2_byte : forall l b x c, lay_okb l = true -> b < 128 -> is_whitespace b = false -> b <> 35 -> Valid x -> b <> c ->
  no_op2 c (lay_bytes l ++ b :: x).
Proof.
  intros l b x c Hl Hb Hw H35 Hx Hne. unfold no_op2. rewrite lead_skip by assumption. unfold strip_prefix. cbn [starts_with].
  destruct (N.eqb_spec c b); [congruence|reflexivity].
Qed.
