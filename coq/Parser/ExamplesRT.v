(* C16 deepening: the well-formedness predicates are decidable and satisfiable - concrete requests, their printed text,
   and the round-trip theorems instantiated on them (and cross-checked by evaluating the model). *)
Require Import List NArith Bool PeanoNat Lia String.
Require Import KV.Parser.Utf8 KV.Parser.Unicode KV.Parser.Keywords KV.Parser.Scanners KV.Parser.Grammar KV.Parser.Run.
Require Import KV.Parser.Utf8Proofs KV.Parser.ScannerProofs KV.Parser.GrammarProofs.
Require Import KV.Parser.RoundTrip KV.Parser.RoundTrip2 KV.Parser.RoundTrip3 KV.Parser.Lex KV.Parser.StmtRT KV.Parser.FilterRT KV.Parser.FilterRT2
               KV.Parser.SelectRT KV.Parser.BindRT KV.Parser.ValuesRT KV.Parser.GroupRT KV.Parser.PrologueRT KV.Parser.TopRT KV.Parser.SizeRT KV.Parser.UpdateRT KV.Parser.TokenRT.
Import ListNotations.
Open Scope N_scope.

Definition sp : L := [LWs 32].
Definition nl : L := [LWs 10].
Definition cm : L := [LWs 32; LCom (bs " note") 10; LWs 9].
Definition tvar (l : L) (name : string) : OTok := mkO l (TVar 63 (bs name)).
Definition tiri (l : L) (body : string) : OTok := mkO l (TIri (map IC (bs body))).
Definition tlit (l : L) (body : string) : OTok := mkO l (TLit 34 (map LCh (bs body))).
Definition tnum (l : L) (ds : string) : OTok := mkO l (TNum [] (bs ds) None).
Definition tpn (l : L) (p loc : string) : OTok := mkO l (TPn (bs p) (map LOrd (bs loc))).

(* ?s <p> ?o ; ex:q "a" , 1 *)
Definition st1 : Stmt :=
  mkStmt (tvar nl "s")
         (mkPG sp (PT (TIri (map IC (bs "p")))) (mkObjs (tvar sp "o") []))
         [mkPM cm (mkPG sp (PT (TPn (bs "ex") (map LOrd (bs "q")))) (mkObjs (tlit sp "a") [mkOM [] (tnum sp "1")]))]
         None.
Definition st2 : Stmt := mkStmt (tvar sp "a") (mkPG sp PA (mkObjs (tvar sp "c") [])) [] (Some ([], sp)).
Definition st3 : Stmt := mkStmt (tvar sp "s") (mkPG sp (PT (TVar 63 (bs "p"))) (mkObjs (tvar sp "o") [])) [] None.

Definition opv (l : L) (name : string) : SumC := SumOne (ProdOne (OpT (tvar l name))).
Definition opn (l : L) (ds : string) : SumC := SumOne (ProdOne (OpT (tnum l ds))).
(* ?x + 2 * (?w - 1) > 1 && !(?y = 2 || ?z < 3 ) || (isTriple ( ?t ) && ?x !=1) *)
Definition lhs : SumC :=
  SumMore (opv [] "x") sp 43 (ProdMore (ProdOne (OpT (tnum sp "2"))) sp 42 (OpP sp (SumMore (opv [] "w") sp 45 (ProdOne (OpT (tnum sp "1")))) [])).
Definition expr : OrC :=
  OrMore (OrOne (AndMore (AndOne (AtCmp lhs sp (bs ">") (opn sp "1"))) sp
                         (AtNot sp (AtParen [] (OrMore (OrOne (AndOne (AtCmp (opv [] "y") sp (bs "=") (opn sp "2")))) sp
                                                       (AndOne (AtCmp (opv sp "z") sp (bs "<") (opn sp "3")))) sp))))
         cm (AndOne (AtParen sp (OrOne (AndMore (AndOne (AtCall [] FnIsTriple (bs "isTriple") sp (tvar sp "t") [] sp)) sp
                                                 (AtCmp (opv sp "x") sp (bs "!=") (opn [] "1")))) [])).
Definition flt : FilterC := {| fl_kl := nl; fl_kw := bs "Filter"; fl_lp := sp; fl_e := expr; fl_rp := sp |}.

(* BIND ( concat (?s, "x", 1) AS ?b )   VALUES ( ?x ?y ) { ( 1 UNDEF ) ( <a> "b" ) }   VALUES ?z { true ex:a } *)
Definition bnd : BindC :=
  {| bd_kl := nl; bd_kw := bs "Bind"; bd_l1 := sp; bd_lf := sp; bd_fn := bs "concat"; bd_l2 := sp; bd_a1 := tvar [] "s";
     bd_more := [mkOM [] (tlit sp "x"); mkOM sp (tnum sp "1")]; bd_l3 := []; bd_las := sp; bd_askw := bs "AS"; bd_v := tvar sp "b"; bd_l4 := sp |}.
Definition vals2 : ValuesC :=
  {| vl_kl := nl; vl_kw := bs "VALUES"; vl_vars := VList sp [tvar sp "x"; tvar sp "y"] sp; vl_lb := sp;
     vl_rows := [RParen sp [VT (tnum sp "1"); VU sp (bs "Undef")] sp; RParen cm [VT (tiri sp "a"); VT (tlit sp "b")] []]; vl_rb := sp |}.
Definition vals1 : ValuesC :=
  {| vl_kl := nl; vl_kw := bs "values"; vl_vars := VSingle (tvar sp "z"); vl_lb := [];
     vl_rows := [RBare (VT (mkO sp (TBool true))); RBare (VT (tpn sp "ex" "a"))]; vl_rb := sp |}.

Definition inner : Sel :=
  MkSel sp (bs "select") None (PStar sp) [] None (MkGrp sp (ItCons (ItStmt st3 None) ItNil) sp) None
        (Some {| ob_l := sp; ob_kw := bs "order"; ob_l2 := sp; ob_kw2 := bs "by"; ob_first := OCVar (tvar sp "s"); ob_more := [] |}) None.
Definition body : Grp :=
  MkGrp sp
    (ItCons (ItStmt st1 (Some sp))
    (ItCons (ItFilter flt)
    (ItCons (ItBind bnd)
    (ItCons (ItValues vals2)
    (ItCons (ItValues vals1)
    (ItCons (ItGraph nl (bs "GRAPH") (tvar sp "g") (MkGrp sp (ItCons (ItStmt st2 None) ItNil) []) None)
    (ItCons (ItAlts (BrGroup (MkGrp nl (ItCons (ItStmt st3 None) ItNil) sp))
                    (AltCons sp (bs "Union") (BrSub sp inner cm) AltNil) (Some []))
     ItNil)))))))
    nl.
Definition agg : AggC :=
  {| ag_l0 := sp; ag_wrap := Some ([], sp); ag_fn := AgSum; ag_kw := bs "Sum"; ag_lp := []; ag_var := tvar [] "x"; ag_rp := [];
     ag_alias := Some (sp, bs "as", tvar sp "t") |}.
Definition query : Sel :=
  MkSel cm (bs "SELECT") (Some (sp, bs "Distinct")) (PList (PVar (tvar sp "s")) [PAgg agg])
        [ {| fr_l := nl; fr_kw := bs "FROM"; fr_named := None; fr_g := tiri sp "g" |};
          {| fr_l := nl; fr_kw := bs "from"; fr_named := Some (sp, bs "NAMED"); fr_g := tpn sp "ex" "h" |} ]
        (Some (nl, bs "WHERE")) body
        (Some {| gb_l := nl; gb_kw := bs "GROUP"; gb_l2 := sp; gb_kw2 := bs "BY"; gb_v := tvar sp "s"; gb_vs := [tvar sp "t"] |})
        (Some {| ob_l := nl; ob_kw := bs "ORDER"; ob_l2 := sp; ob_kw2 := bs "BY"; ob_first := OCDir sp true (bs "DESC") [] (tvar sp "s") sp;
                 ob_more := [ {| oi_comma := Some []; oi_c := OCVar (tvar sp "t") |}; {| oi_comma := None; oi_c := OCDir sp false (bs "asc") sp (tvar [] "s") [] |} ] |})
        (Some {| lm_l := nl; lm_kw := bs "LIMIT"; lm_l2 := sp; lm_ds := bs "10" |}).
Definition prologue : list PrefixC :=
  [ {| px_l := []; px_kw := bs "PREFIX"; px_l2 := sp; px_p := bs "ex"; px_l3 := sp; px_iri := map IC (bs "http://e/") |};
    {| px_l := nl; px_kw := bs "prefix"; px_l2 := cm; px_p := []; px_l3 := []; px_iri := map IC (bs "#") |} ].
Definition tail : EndC := {| e_lay := nl; e_comment := Some (bs " done") |}.

Example query_wf : forallb wf_prefix prologue = true /\ wf_sel query true (pr_end tail) = true /\ wf_end tail = true.
Proof. vm_compute. repeat split; reflexivity. Qed.
Example query_size : (sz_sel query <= 200)%nat.
Proof. vm_compute. lia. Qed.

(* The printed request (layout, comments and letter case as annotated above; a tab follows each `# note` line break):

   PREFIX ex: <http://e/>
   prefix # note
   	:<#> # note
   	SELECT Distinct ?s (Sum(?x) as ?t )
   FROM <g>
   from NAMED ex:h
   WHERE {
   ?s <p> ?o # note
   	; ex:q "a", 1 .
   Filter (?x + 2 * (?w - 1) > 1 && !(?y = 2 || ?z < 3 ) # note
   	|| isTriple ( ?t ) )
   Bind ( concat (?s, "x" , 1) AS ?b )
   VALUES ( ?x ?y ) { ( 1 Undef ) # note
   	( <a> "b") }
   values ?z{ true ex:a }
   GRAPH ?g { ?a a ?c; }
   { ?s ?p ?o } Union { select * { ?s ?p ?o } order by ?s # note
   	}.
   }
   GROUP BY ?s ?t
   ORDER BY DESC( ?s ), ?t asc (?s)
   LIMIT 10
   # done
*)
Definition query_text : str := pr_prologue prologue ++ pr_sel query ++ pr_end tail.

(* the theorem, instantiated *)
Example query_parse : parse_sparql_query 200 query_text = Ok (tr_sel query).
Proof. apply query_roundtrip; [exact query_size|exact (proj1 query_wf)|exact (proj1 (proj2 query_wf))|exact (proj2 (proj2 query_wf))]. Qed.
Example query_parse_top : parse_top 200 false query_text = Ok (TSelect [(bs "ex", bs "http://e/"); ([], bs "#")] (tr_sel query)).
Proof. exact (top_select_roundtrip prologue query tail 200 false query_size (proj1 query_wf) (proj1 (proj2 query_wf)) (proj2 (proj2 query_wf))). Qed.
(* with the fuel the check uses: by the theorem ... *)
Example query_parse_default : parse_sparql_query (default_fuel query_text) query_text = Ok (tr_sel query).
Proof. exact (proj1 (query_roundtrip_default prologue query tail false (proj1 query_wf) (proj1 (proj2 query_wf)) (proj2 (proj2 query_wf)))). Qed.
(* ... and by evaluating the model *)
Example query_parse_computed : parse_sparql_query (default_fuel query_text) query_text = Ok (tr_sel query).
Proof. vm_compute. reflexivity. Qed.

(* operator precedence and the shape of the source tree *)
Example expr_tree :
  tr_or expr = FOr (FAnd (FCmp (bs "?x + 2 * (?w - 1)") (bs ">") (bs "1"))
                         (FNot (FOr (FCmp (bs "?y") (bs "=") (bs "2")) (FCmp (bs "?z") (bs "<") (bs "3")))))
                   (FAnd (FCall kw_istriple [bs "?t"]) (FCmp (bs "?x") (bs "!=") (bs "1"))).
Proof. vm_compute. reflexivity. Qed.
Example body_tree :
  tr_grp body = GJoin [ GBgp [(bs "?s", bs "<p>", bs "?o"); (bs "?s", bs "ex:q", bs """a"""); (bs "?s", bs "ex:q", bs "1")];
                        GFilter (tr_or expr);
                        GBind lit_CONCAT [bs "?s"; bs "x"; bs "1"] (bs "?b");
                        GValues [bs "?x"; bs "?y"] [[VTerm (bs "1"); VUndef]; [VTerm (bs "<a>"); VTerm (bs """b""")]];
                        GValues [bs "?z"] [[VTerm (bs "true")]; [VTerm (bs "ex:a")]];
                        GGraph (bs "?g") (GBgp [(bs "?a", bs "a", bs "?c")]);
                        GUnion [ GBgp [(bs "?s", bs "?p", bs "?o")];
                                 GSub (Select false [([42], [42], None)] [] [] (GBgp [(bs "?s", bs "?p", bs "?o")]) [] [(bs "?s", false)] None) ] ].
Proof. vm_compute. reflexivity. Qed.
Example query_tree :
  tr_sel query = Select true [(lit_VAR, bs "?s", None); (kw_sum, bs "?x", Some (bs "?t"))] [bs "<g>"] [bs "ex:h"] (tr_grp body)
                        [bs "?s"; bs "?t"] [(bs "?s", true); (bs "?t", false); (bs "?s", false)] (Some 10).
Proof. vm_compute. reflexivity. Qed.

(* the predicates also reject: an unterminated layout comment inside the request, a keyword glued to a name *)
Example wf_rejects_glued_keyword :
  wf_sel (MkSel [] (bs "SELECT") None (PStar []) [] (Some ([], bs "WHERE")) (MkGrp [] ItNil []) None None None) true [] = true
  /\ wf_sel (MkSel [] (bs "SELECT") None (PList (PVar (tvar [] "s")) []) [] (Some ([], bs "WHERE")) (MkGrp [] ItNil []) None None None) true [] = false.
Proof. vm_compute. split; reflexivity. Qed.

(* the parser does not accept a bare arithmetic FILTER atom that starts with a parenthesised operand (it reads the
   parenthesis as a boolean group and then meets `*`); such an atom is therefore excluded from `wf_atom` *)
Example paren_arith_atom_rejected : exists k l e, filter_clause 100 (bs "FILTER((?a) * 2)") = Err k l e.
Proof. eexists _, _, _. vm_compute. reflexivity. Qed.

(* ---- updates ---------------------------------------------------------------------------------------------------------- *)
Definition sd (l : L) (s p o : string) (d : option L) : SD :=
  (mkStmt (tvar l s) (mkPG sp (PT (TIri (map IC (bs p)))) (mkObjs (tvar sp o) [])) [] None, d).
Definition sd_iri (l : L) (s p : string) (o : OTok) (d : option L) : SD :=
  (mkStmt (tiri l s) (mkPG sp (PT (TIri (map IC (bs p)))) (mkObjs o [])) [] None, d).
Definition upd1 : UpdC :=
  UDeleteInsertWhere nl (bs "Delete")
    {| qb_l := sp; qb_items := [QGraph sp (bs "GRAPH") (tiri sp "g") sp [sd sp "s" "p" "o" (Some sp); sd nl "a" "b" "c" None] nl None; QStmt (sd sp "x" "q" "y" (Some []))]; qb_r := sp |}
    nl (bs "INSERT") {| qb_l := sp; qb_items := [QStmt (sd sp "s" "p2" "o" None)]; qb_r := sp |}
    cm (bs "where") (MkGrp sp (ItCons (ItStmt st3 None) ItNil) sp).
Definition upd2 : UpdC :=
  UInsertData [] (bs "insert") sp (bs "DATA")
    {| qb_l := sp; qb_items := [QStmt (sd_iri sp "s" "p" (tlit sp "v") (Some sp)); QGraph nl (bs "graph") (tpn sp "ex" "g") sp [sd_iri sp "a" "b" (tnum sp "1") None] sp (Some [])]; qb_r := nl |}.
Definition upd3 : UpdC := UDeleteWhereShort [] (bs "DELETE") sp (bs "WHERE") {| qb_l := []; qb_items := [QStmt (sd [] "s" "p" "o" None)]; qb_r := [] |}.
Definition upd_bad : UpdC :=
  UInsertData [] (bs "INSERT") sp (bs "DATA") {| qb_l := sp; qb_items := [QStmt (sd sp "s" "p" "o" None)]; qb_r := sp |}.

Example updates_wf : wf_upd upd1 (pr_end tail) = true /\ wf_upd upd2 (pr_end tail) = true /\ wf_upd upd3 (pr_end tail) = true
                     /\ wf_upd_syntax upd_bad (pr_end tail) = true /\ wf_upd upd_bad (pr_end tail) = false.
Proof. vm_compute. repeat split; reflexivity. Qed.
Example update_parse : forall u, In u [upd1; upd2; upd3] ->
  let text := pr_prologue prologue ++ pr_upd u ++ pr_end tail in
  parse_top (default_fuel text) false text = Ok (TUpdate [(bs "ex", bs "http://e/"); ([], bs "#")] (tr_upd u)).
Proof.
  intros u Hin. destruct updates_wf as (H1 & H2 & H3 & _).
  destruct Hin as [<-|[<-|[<-|[]]]]; apply (top_update_roundtrip_default prologue _ tail false (proj1 query_wf)); try assumption; exact (proj2 (proj2 query_wf)).
Qed.
Example update_parse_computed :
  map (fun u => let text := pr_prologue prologue ++ pr_upd u ++ pr_end tail in parse_top (default_fuel text) false text) [upd1; upd2; upd3]
  = map (fun u => Ok (TUpdate [(bs "ex", bs "http://e/"); ([], bs "#")] (tr_upd u))) [upd1; upd2; upd3].
Proof. vm_compute. reflexivity. Qed.
Example update_trees :
  tr_upd upd2 = InsertData [(None, (bs "<s>", bs "<p>", bs """v""")); (Some (bs "ex:g"), (bs "<a>", bs "<b>", bs "1"))]
  /\ tr_upd upd3 = DeleteWhereShorthand [(None, (bs "?s", bs "<p>", bs "?o"))] (GBgp [(bs "?s", bs "<p>", bs "?o")]).
Proof. vm_compute. split; reflexivity. Qed.
(* INSERT DATA { ?s <p> ?o } is rejected by the DATA-block check *)
Example update_bad_rejected : exists k l e, update_core 10 false (pr_upd upd_bad ++ pr_end tail) = Err k l e.
Proof.
  apply insert_data_rejects_variables; [exact (proj1 (proj2 (proj2 (proj2 updates_wf))))|vm_compute; reflexivity|vm_compute; reflexivity|exact (proj2 (end_facts tail (proj2 (proj2 query_wf))))].
Qed.

(* ---- further token classes (TokenRT.v): instances of the theorems ------------------------------------------------------------------- *)
Example token_examples :
  numeric_literal (bs " -1.5e+10 ;") = Ok (bs "-1.5e+10", bs " ;") /\
  quoted_literal (bs "'chat'@en-GB-x1 .") = Ok (bs "'chat'@en-GB-x1", bs " .") /\
  quoted_literal (bs """1""^^ <http://x/int>.") = Ok (bs """1""^^ <http://x/int>", bs ".") /\
  quoted_literal (bs "'''a ""b""
 d'''^^xsd:string ,") = Ok (bs "'''a ""b""
 d'''^^xsd:string", bs " ,").
Proof. vm_compute. repeat split; reflexivity. Qed.
Example token_theorem_instances :
  TokenRT.NumTokE (bs "-1.5e+10") /\ TokenRT.LangTag (bs "en-GB-x1") /\ TokenRT.AnyLit (bs "'chat'") /\
  TokenRT.AnyLit (bs "'''a ""b""
 d'''").
Proof.
  repeat split.
  - apply (TokenRT.numtok_e (bs "-1.5") 101 [43] (bs "10")); [|now left|right; now left|repeat constructor|discriminate].
    apply (numtok [45] (bs "1") (bs ".5")); [right; now right|repeat constructor|right; exists (bs "5"); repeat split; [discriminate|repeat constructor]|left; discriminate].
  - apply (TokenRT.langtag (bs "en") [bs "GB"; bs "x1"]); [discriminate|repeat constructor|repeat constructor; discriminate].
  - left. apply (littok 39 (map LCh (bs "chat"))); [now right|]. repeat constructor; cbv; discriminate.
  - right. apply (TokenRT.longtok 39 (map LCh (bs "a ""b""
 d"))); [now right|]. repeat constructor; cbv; discriminate.
Qed.
