(* C16 deepening (3): the clauses of SELECT - projection with aggregates, FROM / FROM NAMED, GROUP BY, ORDER BY, LIMIT. *)
Require Import List NArith Bool PeanoNat Lia ZifyBool ZifyN.
Require Import KV.Parser.Utf8 KV.Parser.Unicode KV.Parser.Keywords KV.Parser.Scanners KV.Parser.Grammar.
Require Import KV.Parser.Utf8Proofs KV.Parser.ScannerProofs KV.Parser.GrammarProofs.
Require Import KV.Parser.RoundTrip KV.Parser.RoundTrip2 KV.Parser.RoundTrip3 KV.Parser.Lex KV.Parser.StmtRT KV.Parser.FilterRT KV.Parser.FilterRT2.
Import ListNotations.
Open Scope N_scope.

(* ---- toolkit: negative look-aheads as boolean conditions on the following text ----------------------------- *)
Definition kwfree (kws : list str) (following : str) : bool := kw_free_text kws (skip_ws following).
Definition nolead (c : N) (following : str) : bool := negb (starts_with [c] (skip_ws following)).

Lemma valid_skip : forall x, Valid x -> Valid (skip_ws x).
Proof. intros x Hv. now destruct (skip_ws_spec x Hv) as (_ & _ & _ & Vs & _). Qed.

Lemma kwfree_err : forall kws kw x, kwfree kws x = true -> In kw kws -> ascii_str kw -> Valid x -> is_err (keyword kw x).
Proof.
  intros kws kw x H Hin Ha Hv. unfold kwfree, kw_free_text in H. rewrite forallb_forall in H. specialize (H kw Hin).
  apply negb_true_iff in H. exact (keyword_free_err kw x (skip_ws x) Ha (valid_skip _ Hv) eq_refl H).
Qed.
Lemma kwfree_sk : forall kws kw x, kwfree kws x = true -> In kw kws -> ascii_str kw -> Valid x -> starts_keyword kw x = Ok false.
Proof. intros. apply starts_keyword_false. eapply kwfree_err; eassumption. Qed.
Lemma nolead_ok : forall c x, nolead c x = true -> no_lead c x.
Proof. intros c x H. unfold nolead in H. apply negb_true_iff in H. unfold no_lead, strip_prefix. now rewrite H. Qed.
Lemma starts_keyword_true : forall kw s m r, keyword kw s = Ok (m, r) -> starts_keyword kw s = Ok true.
Proof. intros kw s m r H. unfold starts_keyword. now rewrite H. Qed.
Lemma keyword_skip : forall kw x, Valid x -> keyword kw (skip_ws x) = keyword kw x.
Proof. intros kw x Hv. unfold keyword. now rewrite skip_ws_idem. Qed.

(* a keyword in any letter case, followed by `following` *)
Definition wf_kw (kw txt : str) (l : L) (following : str) : bool := lay_okb l && kwcaseb kw txt && stopb name_stopP following.
Lemma wf_kw_rt : forall kw txt l rest, ascii_str kw -> kw_alpha kw = true -> wf_kw kw txt l rest = true -> Valid rest ->
  keyword kw (lay_bytes l ++ txt ++ rest) = Ok (txt, rest).
Proof.
  intros kw txt l rest Ha Hal H Hr. unfold wf_kw in H. repeat (apply andb_true_iff in H; destruct H as [H ?]).
  apply kw_rt; try assumption. now apply name_stop_b.
Qed.
Lemma wf_kw_valid : forall kw txt l f, ascii_str kw -> wf_kw kw txt l f = true -> Valid (lay_bytes l ++ txt).
Proof.
  intros kw txt l f Ha H. unfold wf_kw in H. repeat (apply andb_true_iff in H; destruct H as [H ?]).
  apply valid_app; [now apply lay_valid|eapply kw_valid; eassumption].
Qed.

(* ---- variables ---------------------------------------------------------------------------------------------- *)
Definition is_var (t : Term) : bool := match t with TVar _ _ => true | _ => false end.
Definition wf_var (v : OTok) (following : str) : bool :=
  lay_okb (olay v) && term_okb (oterm v) && is_var (oterm v) && term_stopb (oterm v) following.
Definition var_text (v : OTok) : str := term_text (oterm v).

Lemma var_rt : forall v rest, wf_var v rest = true -> Valid rest -> variable (pr_o v ++ rest) = Ok (var_text v, rest).
Proof.
  intros v rest H Hr. unfold wf_var in H. repeat (apply andb_true_iff in H; destruct H as [H ?]).
  unfold pr_o, var_text. rewrite <- app_assoc.
  pose proof (term_scan_ok (oterm v) (lay_bytes (olay v)) rest) as Sc. destruct (oterm v); try discriminate.
  apply Sc; try assumption. now apply lay_ok.
Qed.
Lemma var_valid : forall v f, wf_var v f = true -> Valid (pr_o v).
Proof.
  intros v f H. unfold wf_var in H. repeat (apply andb_true_iff in H; destruct H as [H ?]).
  unfold pr_o. apply valid_app; [now apply lay_valid|now apply term_valid].
Qed.
(* the scanner `variable` fails on text whose first non-layout byte is neither `?` nor `$` *)
Definition novar (following : str) : bool := nolead 63 following && nolead 36 following.
Lemma novar_err : forall x, novar x = true -> Valid x -> is_err (variable x).
Proof.
  intros x H Hv. unfold novar, nolead in H. apply andb_true_iff in H. destruct H as [H1 H2]. apply negb_true_iff in H1, H2.
  destruct (skip_ws x) as [|b t] eqn:E.
  - unfold variable. rewrite E. repeat eexists.
  - apply (variable_err_b x b t); [rewrite <- E; now apply valid_skip|assumption| |].
    + intros ->. cbn in H1. discriminate.
    + intros ->. cbn in H2. discriminate.
Qed.

Lemma head_novar : forall l b x, lay_okb l = true -> b < 128 -> is_whitespace b = false -> b <> 35 -> b <> 63 -> b <> 36 -> Valid x ->
  is_err (variable (lay_bytes l ++ b :: x)).
Proof.
  intros l b x Hl Hb Hw H35 H63 H36 Hx.
  assert (V1 : Valid (b :: x)) by (apply (valid_app [b]); [apply valid_ascii; repeat constructor; assumption|assumption]).
  apply (variable_err_b _ b x V1); [now apply lead_skip|assumption|assumption].
Qed.
Lemma head_kw_err : forall kw k0 kw' l b x, kw = k0 :: kw' -> lay_okb l = true -> b < 128 -> is_whitespace b = false -> b <> 35 -> Valid x ->
  ascii_lower b <> ascii_lower k0 -> is_err (keyword kw (lay_bytes l ++ b :: x)).
Proof.
  intros kw k0 kw' l b x Ek Hl Hb Hw H35 Hx Hne. apply (keyword_fail kw k0 kw' _ b x Ek); [now apply lead_skip|assumption].
Qed.

(* ---- aggregates ------------------------------------------------------------------------------------------------ *)
Inductive AggFn := AgSum | AgMin | AgMax | AgAvg.
Definition agg_kw (fn : AggFn) : str := match fn with AgSum => kw_sum | AgMin => kw_min | AgMax => kw_max | AgAvg => kw_avg end.
Record AggC := { ag_l0 : L; ag_wrap : option (L * L); ag_fn : AggFn; ag_kw : str; ag_lp : L; ag_var : OTok; ag_rp : L;
                 ag_alias : option (L * str * OTok) }.
Definition pr_alias (a : option (L * str * OTok)) : str :=
  match a with Some (la, askw, av) => lay_bytes la ++ askw ++ pr_o av | None => [] end.
Definition agg_core (a : AggC) : str :=
  ag_kw a ++ lay_bytes (ag_lp a) ++ 40 :: pr_o (ag_var a) ++ lay_bytes (ag_rp a) ++ 41 :: pr_alias (ag_alias a).
Definition pr_agg (a : AggC) : str :=
  match ag_wrap a with
  | None => lay_bytes (ag_l0 a) ++ agg_core a
  | Some (l1, l2) => lay_bytes (ag_l0 a) ++ 40 :: lay_bytes l1 ++ agg_core a ++ lay_bytes l2 ++ [41]
  end.
Definition tr_agg (a : AggC) : str * str * option str :=
  (agg_kw (ag_fn a), var_text (ag_var a), match ag_alias a with Some (_, _, av) => Some (var_text av) | None => None end).
Definition wf_alias (a : option (L * str * OTok)) (following : str) : bool :=
  match a with
  | Some (la, askw, av) => wf_kw kw_as askw la (pr_o av ++ following) && wf_var av following
  | None => kwfree [kw_as] following
  end.
Definition agg_tail (a : AggC) (following : str) : str :=
  match ag_wrap a with None => following | Some (_, l2) => lay_bytes l2 ++ 41 :: following end.
Definition wf_agg (a : AggC) (following : str) : bool :=
  let f1 := agg_tail a following in
  lay_okb (ag_l0 a)
  && match ag_wrap a with None => true | Some (l1, l2) => lay_okb l1 && lay_okb l2 end
  && kwcaseb (agg_kw (ag_fn a)) (ag_kw a) && lay_okb (ag_lp a) && lay_okb (ag_rp a)
  && wf_var (ag_var a) (lay_bytes (ag_rp a) ++ 41 :: pr_alias (ag_alias a) ++ f1)
  && wf_alias (ag_alias a) f1.

Lemma alias_valid : forall a f, wf_alias a f = true -> Valid (pr_alias a).
Proof.
  intros [[[la askw] av]|] f H; [|apply valid_nil]. cbn [wf_alias pr_alias] in *. apply andb_true_iff in H. destruct H as [H1 H2].
  rewrite app_assoc. apply valid_app; [eapply wf_kw_valid; [|eassumption]; kw_a|eapply var_valid; eassumption].
Qed.

Lemma agg_kw_letter : forall fn txt, kwcaseb (agg_kw fn) txt = true -> exists b t, txt = b :: t /\ letter b /\ ascii_lower b = ascii_lower (hd 0 (agg_kw fn)).
Proof.
  intros fn txt H. apply kwcase_b in H. destruct (kwcase_head _ _ H ltac:(destruct fn; discriminate)) as (k & kw' & b & t & Ekw & Etxt & Hkb).
  exists b, t. rewrite Ekw. cbn [hd]. split; [assumption|]. split; [|assumption].
  assert (Hk : is_ascii_alpha k = true) by (destruct fn; cbn in Ekw; injection Ekw as <- _; reflexivity).
  unfold letter, is_ascii_alpha, is_ascii_upper, is_ascii_lower, ascii_lower, is_ascii_upper in *.
  destruct ((65 <=? b) && (b <=? 90)) eqn:E1; destruct ((65 <=? k) && (k <=? 90)) eqn:E2; lia.
Qed.

(* the cascade of the four aggregate keywords *)
Lemma agg_cascade : forall (B : Type) (after : str -> str -> res B) (E : res B) fn kwtxt rest,
  kwcaseb (agg_kw fn) kwtxt = true -> Valid rest -> name_stop rest ->
  let T := kwtxt ++ rest in
  match keyword kw_sum T with
  | Ok (_, r) => after kw_sum r
  | Err _ _ _ =>
  match keyword kw_min T with
  | Ok (_, r) => after kw_min r
  | Err _ _ _ =>
  match keyword kw_max T with
  | Ok (_, r) => after kw_max r
  | Err _ _ _ =>
  match keyword kw_avg T with
  | Ok (_, r) => after kw_avg r
  | Err _ _ _ => E
  | Panic => Panic | Fuel => Fuel end
  | Panic => Panic | Fuel => Fuel end
  | Panic => Panic | Fuel => Fuel end
  | Panic => Panic | Fuel => Fuel end = after (agg_kw fn) rest.
Proof.
  intros B after E fn kwtxt rest Hk Hr Hst T.
  destruct (agg_kw_letter fn kwtxt Hk) as (b & t & Etxt & Lb & Hlow).
  pose proof (kw_rt (agg_kw fn) kwtxt [] rest ltac:(destruct fn; kw_a) ltac:(destruct fn; reflexivity) Hk eq_refl Hr Hst) as Kok.
  cbn [lay_bytes flat_map app] in Kok. fold T in Kok.
  assert (VT : Valid T) by (unfold T; apply valid_app; [eapply (kw_valid (agg_kw fn)); [destruct fn; kw_a|eassumption]|assumption]).
  assert (ET : skip_ws T = b :: t ++ rest).
  { unfold T. rewrite Etxt. cbn [app]. apply skip_ws_fixed; [unfold T in VT; now rewrite Etxt in VT|]. now apply letter_not_layout. }
  assert (Fail : forall kw k0 kw0, kw = k0 :: kw0 -> ascii_lower k0 <> ascii_lower (hd 0 (agg_kw fn)) -> is_err (keyword kw T)).
  { intros kw k0 kw0 Ek Hne. apply (keyword_fail kw k0 kw0 T b (t ++ rest) Ek ET). congruence. }
  destruct fn; cbn [agg_kw hd] in *.
  - now rewrite Kok.
  - destruct (Fail kw_sum _ _ eq_refl ltac:(cbv; discriminate)) as (? & ? & ? & ->). now rewrite Kok.
  - destruct (Fail kw_sum _ _ eq_refl ltac:(cbv; discriminate)) as (? & ? & ? & ->).
    assert (Hmin : is_err (keyword kw_min T)).
    { apply (keyword_free_err kw_min T (b :: t ++ rest) ltac:(kw_a)); [rewrite <- ET; now apply valid_skip|assumption|].
      apply kwcase_b in Hk. rewrite Etxt in Hk. inversion Hk as [|? ? ? ? _ Hk2]; subst. inversion Hk2 as [|? b2 ? t2 Hb2 _]; subst.
      assert (E2 : (ascii_lower b2 =? ascii_lower 73) = false) by (apply N.eqb_neq; rewrite Hb2; cbv; discriminate).
      unfold kw_hitb. change kw_min with [77; 73; 78]. cbn [app prefix_nocase]. rewrite E2.
      now rewrite ?andb_false_r, ?andb_false_l. }
    destruct Hmin as (? & ? & ? & ->). now rewrite Kok.
  - destruct (Fail kw_sum _ _ eq_refl ltac:(cbv; discriminate)) as (? & ? & ? & ->).
    destruct (Fail kw_min _ _ eq_refl ltac:(cbv; discriminate)) as (? & ? & ? & ->).
    destruct (Fail kw_max _ _ eq_refl ltac:(cbv; discriminate)) as (? & ? & ? & ->). now rewrite Kok.
Qed.

Lemma v1 : forall c x, c < 128 -> Valid x -> Valid (c :: x).
Proof. intros c x Hc Hx. apply (valid_app [c]); [apply valid_ascii; repeat constructor; assumption|assumption]. Qed.

Lemma alias_rt : forall a rest, wf_alias a rest = true -> Valid rest ->
  match keyword kw_as (pr_alias a ++ rest) with
  | Ok (_, r) => do '(x, r') <- variable r; Ok (Some x, r')
  | Err _ _ _ => Ok (@pair (option str) str None (pr_alias a ++ rest))
  | Panic => Panic
  | Fuel => Fuel
  end = Ok (match a with Some (_, _, av) => Some (var_text av) | None => None end, rest).
Proof.
  intros [[[la askw] av]|] rest H Hr; cbn [wf_alias pr_alias] in *.
  - apply andb_true_iff in H. destruct H as [H1 H2]. rewrite <- !app_assoc.
    rewrite (wf_kw_rt kw_as askw la _ ltac:(kw_a) eq_refl H1) by (apply valid_app; [eapply var_valid; eassumption|assumption]).
    rewrite (var_rt av rest H2 Hr). reflexivity.
  - cbn [app]. destruct (kwfree_err _ kw_as rest H ltac:(now left) ltac:(kw_a) Hr) as (? & ? & ? & ->). reflexivity.
Qed.

Lemma bind_Ok : forall (A B : Type) (a : A) (k : A -> res B), bind (Ok a) k = k a.
Proof. reflexivity. Qed.

Lemma keyword_lay : forall kw l x, lay_okb l = true -> Valid x -> ~ starts_layout x -> keyword kw (lay_bytes l ++ x) = keyword kw x.
Proof. intros kw l x Hl Hx Hn. unfold keyword. rewrite skip_ws_closed by (try assumption; now apply lay_ok). now rewrite skip_ws_fixed by assumption. Qed.

Theorem agg_roundtrip : forall a rest, wf_agg a rest = true -> Valid rest -> aggregate (pr_agg a ++ rest) = Ok (tr_agg a, rest).
Proof.
  intros [l0 wrap fn kw lp v rp al] rest H Hr. unfold wf_agg, pr_agg, tr_agg, agg_core in *.
  set (F1 := agg_tail _ rest) in *.
  cbn [ag_l0 ag_wrap ag_fn ag_kw ag_lp ag_var ag_rp ag_alias] in *.
  repeat (apply andb_true_iff in H; destruct H as [H ?]).
  match goal with X : wf_alias _ _ = true |- _ => rename X into Hal end.
  match goal with X : wf_var _ _ = true |- _ => rename X into Hv end.
  match goal with X : kwcaseb _ _ = true |- _ => rename X into Hk end.
  match goal with X : lay_okb lp = true |- _ => rename X into Hlp end.
  match goal with X : lay_okb rp = true |- _ => rename X into Hrp end.
  assert (VF1 : Valid F1).
  { unfold F1, agg_tail. cbn [ag_wrap]. destruct wrap as [[l1 l2]|]; [|assumption]. match goal with X : _ && _ = true |- _ => apply andb_true_iff in X; destruct X end.
    apply valid_app; [now apply lay_valid|now apply v1]. }
  assert (VA : Valid (pr_alias al ++ F1)) by (apply valid_app; [eapply alias_valid; eassumption|assumption]).
  assert (V2 : Valid (lay_bytes rp ++ 41 :: pr_alias al ++ F1)) by (apply valid_app; [now apply lay_valid|now apply v1]).
  assert (V3 : Valid (pr_o v ++ lay_bytes rp ++ 41 :: pr_alias al ++ F1)) by (apply valid_app; [eapply var_valid; eassumption|assumption]).
  assert (V4 : Valid (lay_bytes lp ++ 40 :: pr_o v ++ lay_bytes rp ++ 41 :: pr_alias al ++ F1)) by (apply valid_app; [now apply lay_valid|now apply v1]).
  set (X := kw ++ lay_bytes lp ++ 40 :: pr_o v ++ lay_bytes rp ++ 41 :: pr_alias al ++ F1).
  destruct (agg_kw_letter fn kw Hk) as (b & t & Etxt & Lb & _).
  assert (VX : Valid X) by (unfold X; apply valid_app; [eapply (kw_valid (agg_kw fn)); [destruct fn; kw_a|eassumption]|assumption]).
  assert (NX : ~ starts_layout X) by (unfold X; rewrite Etxt; cbn [app]; now apply letter_not_layout).
  assert (Ns : name_stop (lay_bytes lp ++ 40 :: pr_o v ++ lay_bytes rp ++ 41 :: pr_alias al ++ F1)).
  { apply name_stop_layout; [now apply lay_ok|]. unfold name_stop. cbn. reflexivity. }
  assert (E40 : strip_prefix [40] X = None).
  { unfold X. rewrite Etxt. cbn [app]. apply strip1_none. unfold letter, is_ascii_alpha, is_ascii_upper, is_ascii_lower in Lb. lia. }
  (* the part after the aggregate keyword, up to the alias *)
  assert (After : forall (B : Type) (k : str * option str * str -> res B),
     (do i2 <- schar 40 (lay_bytes lp ++ 40 :: pr_o v ++ lay_bytes rp ++ 41 :: pr_alias al ++ F1);
      do '(x, i3) <- variable i2;
      do i4 <- schar 41 i3;
      do '(alias, i5) <-
        match keyword kw_as i4 with
        | Ok (_, r) => do '(a, r') <- variable r; Ok (Some a, r')
        | Err _ _ _ => Ok (None, i4)
        | Panic => Panic
        | Fuel => Fuel
        end;
      k (x, alias, i5)) = k (var_text v, match al with Some (_, _, av) => Some (var_text av) | None => None end, F1)).
  { intros B k. rewrite schar_roundtrip by (try assumption; try lia; try reflexivity; now apply lay_ok). rewrite bind_Ok.
    rewrite (var_rt v _ Hv V2). rewrite bind_Ok. cbv beta iota.
    rewrite schar_roundtrip by (try assumption; try lia; try reflexivity; now apply lay_ok). rewrite bind_Ok.
    rewrite (alias_rt al F1 Hal VF1). reflexivity. }
  unfold aggregate.
  destruct wrap as [[l1 l2]|].
  - match goal with X : _ && _ = true |- _ => apply andb_true_iff in X; destruct X as [Hl1 Hl2] end.
    assert (E0 : (lay_bytes l0 ++ 40 :: lay_bytes l1 ++ (kw ++ lay_bytes lp ++ 40 :: pr_o v ++ lay_bytes rp ++ 41 :: pr_alias al) ++ lay_bytes l2 ++ [41]) ++ rest
                 = lay_bytes l0 ++ 40 :: lay_bytes l1 ++ X).
    { unfold X, F1, agg_tail. cbn [ag_wrap]. repeat first [rewrite <- app_assoc | progress cbn [app]]. reflexivity. }
    rewrite E0. assert (VLX : Valid (lay_bytes l1 ++ X)) by (apply valid_app; [now apply lay_valid|assumption]).
    rewrite lead_skip by (try assumption; try lia; reflexivity). rewrite strip1_some. cbv beta iota.
    rewrite !(keyword_lay _ l1 X) by assumption.
    etransitivity; [exact (agg_cascade _ (fun name i1 =>
        do i2 <- schar 40 i1; do '(x, i3) <- variable i2; do i4 <- schar 41 i3;
        do '(alias, i5) <- match keyword kw_as i4 with
                           | Ok (_, r) => do '(a, r') <- variable r; Ok (Some a, r')
                           | Err _ _ _ => Ok (None, i4) | Panic => Panic | Fuel => Fuel end;
        do i6 <- schar 41 i5; Ok (name, x, alias, i6)) _ fn kw _ Hk V4 Ns)|].
    etransitivity; [exact (After _ (fun p => let '(x, alias, i5) := p in do i6 <- schar 41 i5; Ok (agg_kw fn, x, alias, i6)))|].
    cbv beta iota. unfold F1, agg_tail. cbn [ag_wrap]. rewrite schar_roundtrip by (try assumption; try lia; try reflexivity; now apply lay_ok). reflexivity.
  - assert (E0 : (lay_bytes l0 ++ kw ++ lay_bytes lp ++ 40 :: pr_o v ++ lay_bytes rp ++ 41 :: pr_alias al) ++ rest = lay_bytes l0 ++ X).
    { unfold X, F1, agg_tail. cbn [ag_wrap]. repeat first [rewrite <- app_assoc | progress cbn [app]]. reflexivity. }
    rewrite E0. rewrite skip_ws_closed by (try assumption; now apply lay_ok). rewrite E40. cbv beta iota.
    etransitivity; [exact (agg_cascade _ (fun name i1 =>
        do i2 <- schar 40 i1; do '(x, i3) <- variable i2; do i4 <- schar 41 i3;
        do '(alias, i5) <- match keyword kw_as i4 with
                           | Ok (_, r) => do '(a, r') <- variable r; Ok (Some a, r')
                           | Err _ _ _ => Ok (None, i4) | Panic => Panic | Fuel => Fuel end;
        Ok (name, x, alias, i5)) _ fn kw _ Hk V4 Ns)|].
    etransitivity; [exact (After _ (fun p => let '(x, alias, i5) := p in Ok (agg_kw fn, x, alias, i5)))|]. reflexivity.
Qed.

(* ---- projection ------------------------------------------------------------------------------------------------ *)
Inductive PItem := PVar (v : OTok) | PAgg (a : AggC).
Definition pr_pitem (it : PItem) : str := match it with PVar v => pr_o v | PAgg a => pr_agg a end.
Definition pr_pitems (its : list PItem) : str := flat_map pr_pitem its.
Definition tr_pitem (it : PItem) : str * str * option str := match it with PVar v => (lit_VAR, var_text v, None) | PAgg a => tr_agg a end.
Definition wf_pitem (it : PItem) (following : str) : bool := match it with PVar v => wf_var v following | PAgg a => wf_agg a following end.
Fixpoint wf_pitems (its : list PItem) (following : str) : bool :=
  match its with [] => true | it :: t => wf_pitem it (pr_pitems t ++ following) && wf_pitems t following end.
Definition proj_stop (following : str) : bool := novar following && nolead 40 following && kwfree [kw_sum; kw_min; kw_max; kw_avg] following.

Lemma agg_valid : forall a f, wf_agg a f = true -> Valid (pr_agg a).
Proof.
  intros [l0 wrap fn kw lp v rp al] f H. unfold wf_agg, pr_agg, agg_core in *. set (F1 := agg_tail _ f) in *.
  cbn [ag_l0 ag_wrap ag_fn ag_kw ag_lp ag_var ag_rp ag_alias] in *. repeat (apply andb_true_iff in H; destruct H as [H ?]).
  assert (VC : Valid (kw ++ lay_bytes lp ++ 40 :: pr_o v ++ lay_bytes rp ++ 41 :: pr_alias al)).
  { apply valid_app; [eapply (kw_valid (agg_kw fn)); [destruct fn; kw_a|eassumption]|]. apply valid_app; [now apply lay_valid|]. apply v1; [lia|].
    apply valid_app; [eapply var_valid; eassumption|]. apply valid_app; [now apply lay_valid|]. apply v1; [lia|]. eapply alias_valid; eassumption. }
  destruct wrap as [[l1 l2]|].
  - match goal with X : _ && _ = true |- _ => apply andb_true_iff in X; destruct X end.
    apply valid_app; [now apply lay_valid|]. apply v1; [lia|]. apply valid_app; [now apply lay_valid|]. apply valid_app; [assumption|].
    apply valid_app; [now apply lay_valid|apply valid_ascii; repeat constructor; lia].
  - apply valid_app; [now apply lay_valid|assumption].
Qed.
Lemma pitem_valid : forall it f, wf_pitem it f = true -> Valid (pr_pitem it).
Proof. intros [v|a] f H; [eapply var_valid|eapply agg_valid]; eassumption. Qed.
Lemma pitems_valid : forall its f, wf_pitems its f = true -> Valid (pr_pitems its).
Proof.
  induction its as [|it t IH]; intros f H; [apply valid_nil|]. cbn [wf_pitems pr_pitems flat_map] in *. apply andb_true_iff in H. destruct H.
  apply valid_app; [eapply pitem_valid; eassumption|eapply IH; eassumption].
Qed.

(* head of a printed item: layout, then a byte that is neither `*` nor a variable sigil for aggregates *)
Definition pitem_lay (it : PItem) : L := match it with PVar v => olay v | PAgg a => ag_l0 a end.
Definition pitem_unlay (it : PItem) : PItem :=
  match it with
  | PVar v => PVar {| olay := []; oterm := oterm v |}
  | PAgg a => PAgg {| ag_l0 := []; ag_wrap := ag_wrap a; ag_fn := ag_fn a; ag_kw := ag_kw a; ag_lp := ag_lp a; ag_var := ag_var a;
                      ag_rp := ag_rp a; ag_alias := ag_alias a |}
  end.
Lemma pitem_split : forall it, pr_pitem it = lay_bytes (pitem_lay it) ++ pr_pitem (pitem_unlay it).
Proof. intros [v|a]; cbn [pr_pitem pitem_lay pitem_unlay]; [reflexivity|]. unfold pr_agg, agg_core. cbn. destruct (ag_wrap a) as [[? ?]|]; reflexivity. Qed.
Lemma pitem_unlay_wf : forall it f, wf_pitem it f = true -> wf_pitem (pitem_unlay it) f = true /\ lay_okb (pitem_lay it) = true.
Proof.
  intros [v|a] f H; cbn [wf_pitem pitem_unlay pitem_lay] in *.
  - unfold wf_var in *. cbn [olay oterm]. destruct (lay_okb (olay v)) eqn:El; cbn [andb] in H; [|discriminate].
    split; [|reflexivity]. change (lay_okb []) with true. cbn [andb]. exact H.
  - unfold wf_agg, agg_tail in *. cbn [ag_l0 ag_wrap ag_fn ag_kw ag_lp ag_var ag_rp ag_alias] in *.
    destruct (lay_okb (ag_l0 a)) eqn:El; cbn [andb] in H; [|discriminate].
    split; [|reflexivity]. change (lay_okb []) with true. cbn [andb]. exact H.
Qed.
Lemma pitem_unlay_tr : forall it, tr_pitem (pitem_unlay it) = tr_pitem it.
Proof. intros [v|a]; reflexivity. Qed.
Lemma pitem_head : forall it f x, wf_pitem it f = true -> pitem_lay it = [] ->
  exists b t, pr_pitem it ++ x = b :: t /\ b < 128 /\ is_whitespace b = false /\ b <> 35 /\ b <> 42 /\
              (match it with PAgg _ => b <> 63 /\ b <> 36 | _ => True end).
Proof.
  intros [v|a] f x H Hl; cbn [wf_pitem pr_pitem pitem_lay] in *.
  - unfold wf_var in H. repeat (apply andb_true_iff in H; destruct H as [H ?]). unfold pr_o. rewrite Hl. cbn [lay_bytes flat_map app].
    destruct (oterm v) as [sigil cs| | | | | |]; try discriminate. cbn [term_text term_okb] in *.
    repeat (apply andb_true_iff in H1; destruct H1 as [H1 ?]). exists sigil, (encode cs ++ x). split; [reflexivity|].
    assert (Hsig : sigil = 63 \/ sigil = 36) by lia. repeat split; try lia; destruct Hsig; subst; reflexivity.
  - destruct a as [l0 wrap fn kw lp v rp al]. unfold wf_agg, pr_agg, agg_core in *. cbn [ag_l0 ag_wrap ag_fn ag_kw ag_lp ag_var ag_rp ag_alias] in *.
    subst l0. repeat (apply andb_true_iff in H; destruct H as [H ?]).
    destruct wrap as [[l1 l2]|]; cbn [lay_bytes flat_map app].
    + eexists _, _. split; [reflexivity|]. repeat split; try lia; reflexivity.
    + match goal with X : kwcaseb _ _ = true |- _ => destruct (agg_kw_letter fn kw X) as (b & t & Etxt & Lb & _) end. rewrite Etxt. cbn [app].
      eexists _, _. split; [reflexivity|]. destruct (letter_facts b Lb) as (? & ? & ?). repeat split; try lia; assumption.
Qed.

Lemma aggregate_stop : forall x, proj_stop x = true -> Valid x -> is_err (aggregate x).
Proof.
  intros x H Hv. unfold proj_stop in H. repeat (apply andb_true_iff in H; destruct H as [H ?]).
  match goal with X : nolead 40 x = true |- _ => apply nolead_ok in X; unfold no_lead in X; rename X into N40 end.
  match goal with X : kwfree _ x = true |- _ => rename X into Hk end.
  unfold aggregate. rewrite N40. cbv beta iota. rewrite !keyword_skip by assumption.
  destruct (kwfree_err _ kw_sum x Hk ltac:(cbn; tauto) ltac:(kw_a) Hv) as (? & ? & ? & ->).
  destruct (kwfree_err _ kw_min x Hk ltac:(cbn; tauto) ltac:(kw_a) Hv) as (? & ? & ? & ->).
  destruct (kwfree_err _ kw_max x Hk ltac:(cbn; tauto) ltac:(kw_a) Hv) as (? & ? & ? & ->).
  destruct (kwfree_err _ kw_avg x Hk ltac:(cbn; tauto) ltac:(kw_a) Hv) as (? & ? & ? & ->). repeat eexists.
Qed.

Lemma projection_loop_rt : forall its fuel acc rest, (length its < fuel)%nat -> wf_pitems its rest = true -> Valid rest -> proj_stop rest = true ->
  projection_loop fuel (pr_pitems its ++ rest) acc = Ok (acc ++ map tr_pitem its, rest).
Proof.
  induction its as [|it t IH]; intros fuel acc rest Hf H Hr Hs; (destruct fuel as [|f]; [cbn in Hf; lia|]); cbn [projection_loop].
  - cbn [pr_pitems flat_map app map]. rewrite app_nil_r.
    assert (Hs' := Hs). unfold proj_stop in Hs'. apply andb_true_iff in Hs'. destruct Hs' as [Hs' _].
    apply andb_true_iff in Hs'. destruct Hs' as [Hs' _].
    destruct (novar_err rest Hs' Hr) as (? & ? & ? & ->). destruct (aggregate_stop rest Hs Hr) as (? & ? & ? & ->). reflexivity.
  - cbn [wf_pitems pr_pitems flat_map map] in *. fold (pr_pitems t) in *. apply andb_true_iff in H. destruct H as [Hit Ht].
    assert (VT : Valid (pr_pitems t ++ rest)) by (apply valid_app; [eapply pitems_valid; eassumption|assumption]).
    rewrite <- app_assoc. destruct it as [v|a]; cbn [wf_pitem pr_pitem tr_pitem] in *.
    + rewrite (var_rt v _ Hit VT). rewrite (IH f _ rest ltac:(cbn in Hf; lia) Ht Hr Hs). now rewrite <- app_assoc.
    + assert (Ev : is_err (variable (pr_agg a ++ pr_pitems t ++ rest))).
      { destruct (pitem_unlay_wf (PAgg a) _ Hit) as [Hu Hl]. rewrite (pitem_split (PAgg a) : pr_agg a = _), <- app_assoc.
        destruct (pitem_head (pitem_unlay (PAgg a)) _ (pr_pitems t ++ rest) Hu eq_refl) as (b & tl & E & Hb & Hw & H35 & _ & H63 & H36).
        cbn [pitem_unlay pr_pitem] in E. cbn [pitem_unlay pr_pitem pitem_lay]. rewrite E.
        apply head_novar; try assumption.
        assert (V : Valid (b :: tl)) by (rewrite <- E; apply valid_app; [eapply (pitem_valid (pitem_unlay (PAgg a))); eassumption|assumption]).
        now destruct (valid_ascii_head b tl V Hb) as (_ & _ & ?). }
      destruct Ev as (? & ? & ? & ->). rewrite (agg_roundtrip a _ Hit VT).
      rewrite (IH f _ rest ltac:(cbn in Hf; lia) Ht Hr Hs). now rewrite <- app_assoc.
Qed.

Lemma pitem_nonempty : forall it f, wf_pitem it f = true -> (1 <= length (pr_pitem it))%nat.
Proof.
  intros it f H. destruct (pitem_unlay_wf it f H) as [Hu _]. rewrite pitem_split, app_length.
  destruct (pitem_head (pitem_unlay it) f [] Hu ltac:(destruct it; reflexivity)) as (b & t & E & _). rewrite app_nil_r in E. rewrite E. cbn [length]. lia.
Qed.
Lemma pitems_length : forall its f, wf_pitems its f = true -> (length its <= length (pr_pitems its))%nat.
Proof.
  induction its as [|it t IH]; intros f H; [cbn; lia|]. cbn [wf_pitems pr_pitems flat_map length] in *. fold (pr_pitems t) in *.
  apply andb_true_iff in H. destruct H as [H1 H2]. rewrite app_length. pose proof (pitem_nonempty _ _ H1). specialize (IH _ H2). lia.
Qed.

Inductive Proj := PStar (l : L) | PList (it : PItem) (its : list PItem).
Definition pr_proj (p : Proj) : str := match p with PStar l => lay_bytes l ++ [42] | PList it its => pr_pitems (it :: its) end.
Definition tr_proj (p : Proj) : list (str * str * option str) :=
  match p with PStar _ => [([42], [42], None)] | PList it its => map tr_pitem (it :: its) end.
Definition wf_proj (p : Proj) (following : str) : bool :=
  match p with PStar l => lay_okb l | PList it its => wf_pitems (it :: its) following && proj_stop following end.

Lemma proj_valid : forall p f, wf_proj p f = true -> Valid (pr_proj p).
Proof.
  intros [l|it its] f H; cbn [wf_proj pr_proj] in *.
  - apply valid_app; [now apply lay_valid|apply valid_ascii; repeat constructor; lia].
  - apply andb_true_iff in H. destruct H. eapply pitems_valid; eassumption.
Qed.

Theorem proj_roundtrip : forall p rest, wf_proj p rest = true -> Valid rest -> projection_items (pr_proj p ++ rest) = Ok (tr_proj p, rest).
Proof.
  intros [l|it its] rest H Hr; cbn [wf_proj pr_proj tr_proj] in *; unfold projection_items.
  - rewrite <- app_assoc. cbn [app]. rewrite lead_skip by (try assumption; try lia; reflexivity). now rewrite strip1_some.
  - apply andb_true_iff in H. destruct H as [H Hs]. assert (H0 := H). cbn [wf_pitems] in H. apply andb_true_iff in H. destruct H as [Hit Hits].
    destruct (pitem_unlay_wf it _ Hit) as [Hu Hl].
    assert (VR : Valid (pr_pitems its ++ rest)) by (apply valid_app; [eapply pitems_valid; eassumption|assumption]).
    assert (VU : Valid (pr_pitem (pitem_unlay it) ++ pr_pitems its ++ rest)) by (apply valid_app; [eapply pitem_valid; eassumption|assumption]).
    destruct (pitem_head (pitem_unlay it) _ (pr_pitems its ++ rest) Hu ltac:(destruct it; reflexivity)) as (b & t & E & Hb & Hw & H35 & H42 & _).
    assert (Esk : skip_ws (pr_pitems (it :: its) ++ rest) = pr_pitems (pitem_unlay it :: its) ++ rest).
    { cbn [pr_pitems flat_map]. fold (pr_pitems its). rewrite <- !app_assoc. rewrite pitem_split, <- app_assoc.
      apply skip_ws_closed; [now apply lay_ok|assumption|]. rewrite E. now apply ascii_head_not_layout. }
    rewrite Esk.
    assert (E42 : strip_prefix [42] (pr_pitems (pitem_unlay it :: its) ++ rest) = None).
    { cbn [pr_pitems flat_map]. fold (pr_pitems its). rewrite <- app_assoc, E. now apply strip1_none. }
    rewrite E42.
    assert (Hwf' : wf_pitems (pitem_unlay it :: its) rest = true) by (cbn [wf_pitems]; now rewrite Hu, Hits).
    rewrite (projection_loop_rt (pitem_unlay it :: its) _ [] rest); try assumption.
    + cbn [bind app map]. rewrite pitem_unlay_tr. reflexivity.
    + rewrite app_length. pose proof (pitems_length _ _ Hwf'). lia.
Qed.

(* ---- DISTINCT / WHERE: optional keywords -------------------------------------------------------------------------- *)
Definition pr_optkw (o : option (L * str)) : str := match o with Some (l, txt) => lay_bytes l ++ txt | None => [] end.
Definition wf_optkw (kw : str) (o : option (L * str)) (following : str) : bool :=
  match o with Some (l, txt) => wf_kw kw txt l following | None => kwfree [kw] following end.
Definition optkw_present (o : option (L * str)) : bool := match o with Some _ => true | None => false end.
Lemma optkw_valid : forall kw o f, ascii_str kw -> wf_optkw kw o f = true -> Valid (pr_optkw o).
Proof. intros kw [[l txt]|] f Ha H; [|apply valid_nil]. cbn [wf_optkw pr_optkw] in *. eapply wf_kw_valid; eassumption. Qed.
Lemma optkw_rt : forall kw o rest, ascii_str kw -> kw_alpha kw = true -> wf_optkw kw o rest = true -> Valid rest ->
  opt_keyword kw (pr_optkw o ++ rest) = Ok (optkw_present o, rest).
Proof.
  intros kw [[l txt]|] rest Ha Hal H Hr; cbn [wf_optkw pr_optkw optkw_present] in *; unfold opt_keyword.
  - rewrite <- app_assoc. now rewrite (wf_kw_rt kw txt l rest Ha Hal H Hr).
  - cbn [app]. destruct (kwfree_err _ kw rest H ltac:(now left) Ha Hr) as (? & ? & ? & ->). reflexivity.
Qed.

(* ---- FROM / FROM NAMED ------------------------------------------------------------------------------------------- *)
Definition is_graph_kind (t : Term) : bool := match t with TIri _ | TPn _ _ => true | _ => false end.
Definition wf_gterm (g : OTok) (following : str) : bool :=
  lay_okb (olay g) && term_okb (oterm g) && is_graph_kind (oterm g) && term_stopb (oterm g) following.
Lemma gterm_valid : forall g f, wf_gterm g f = true -> Valid (pr_o g).
Proof.
  intros g f H. unfold wf_gterm in H. repeat (apply andb_true_iff in H; destruct H as [H ?]).
  unfold pr_o. apply valid_app; [now apply lay_valid|now apply term_valid].
Qed.
Lemma gterm_rt : forall g rest, wf_gterm g rest = true -> Valid rest ->
  alt [iri; prefixed_name] (pr_o g ++ rest) = Ok (term_text (oterm g), rest).
Proof.
  intros g rest H Hr. unfold wf_gterm in H. repeat (apply andb_true_iff in H; destruct H as [H ?]).
  unfold pr_o. rewrite <- app_assoc. set (w := lay_bytes (olay g)). assert (Hw : LayoutC w) by now apply lay_ok.
  pose proof (term_scan_ok (oterm g) w rest H2 H0 Hw Hr) as Sc.
  destruct (skip_head (oterm g) w rest H2 Hw Hr) as (b & tl & Esk & Etx & Hf & Vx).
  unfold alt. cbn [alt_from]. destruct (oterm g); try discriminate; cbn [head_fact term_scan] in *.
  - now rewrite Sc.
  - assert (Hb60 : b <> 60) by (unfold is_ascii_alpha, is_ascii_upper, is_ascii_lower in Hf; lia).
    alt_skip (iri_err _ _ _ Esk Hb60). now rewrite Sc.
Qed.

Record FromC := { fr_l : L; fr_kw : str; fr_named : option (L * str); fr_g : OTok }.
Definition pr_from (c : FromC) : str := lay_bytes (fr_l c) ++ fr_kw c ++ pr_optkw (fr_named c) ++ pr_o (fr_g c).
Definition pr_froms (cs : list FromC) : str := flat_map pr_from cs.
Definition wf_from (c : FromC) (following : str) : bool :=
  wf_kw kw_from (fr_kw c) (fr_l c) (pr_optkw (fr_named c) ++ pr_o (fr_g c) ++ following)
  && wf_optkw kw_named (fr_named c) (pr_o (fr_g c) ++ following) && wf_gterm (fr_g c) following.
Fixpoint wf_froms (cs : list FromC) (following : str) : bool :=
  match cs with [] => true | c :: t => wf_from c (pr_froms t ++ following) && wf_froms t following end.
Definition from_plain (cs : list FromC) : list str :=
  flat_map (fun c => if optkw_present (fr_named c) then [] else [term_text (oterm (fr_g c))]) cs.
Definition from_named (cs : list FromC) : list str :=
  flat_map (fun c => if optkw_present (fr_named c) then [term_text (oterm (fr_g c))] else []) cs.

Lemma from_valid : forall c f, wf_from c f = true -> Valid (pr_from c).
Proof.
  intros c f H. unfold wf_from, pr_from in *. apply andb_true_iff in H. destruct H as [H Hg]. apply andb_true_iff in H. destruct H as [Hk Hn].
  rewrite app_assoc. apply valid_app; [eapply wf_kw_valid; [|eassumption]; kw_a|].
  apply valid_app; [eapply optkw_valid; [|eassumption]; kw_a|eapply gterm_valid; eassumption].
Qed.
Lemma froms_valid : forall cs f, wf_froms cs f = true -> Valid (pr_froms cs).
Proof.
  induction cs as [|c t IH]; intros f H; [apply valid_nil|]. cbn [wf_froms pr_froms flat_map] in *. apply andb_true_iff in H. destruct H.
  apply valid_app; [eapply from_valid; eassumption|eapply IH; eassumption].
Qed.
Lemma kwcase_len : forall kw txt, kwcaseb kw txt = true -> length txt = length kw.
Proof. intros kw txt H. apply kwcase_b in H. now apply kwcase_length. Qed.
Lemma froms_length : forall cs f, wf_froms cs f = true -> (length cs <= length (pr_froms cs))%nat.
Proof.
  induction cs as [|c t IH]; intros f H; [cbn; lia|]. cbn [wf_froms pr_froms flat_map length] in *. fold (pr_froms t) in *.
  apply andb_true_iff in H. destruct H as [H1 H2]. specialize (IH _ H2). unfold wf_from, wf_kw in H1.
  apply andb_true_iff in H1. destruct H1 as [H1 _]. apply andb_true_iff in H1. destruct H1 as [H1 _].
  repeat (apply andb_true_iff in H1; destruct H1 as [H1 ?]).
  match goal with X : kwcaseb kw_from _ = true |- _ => apply kwcase_len in X; rename X into Hlen end.
  unfold pr_from. rewrite !app_length, Hlen. cbn [kw_from length]. change (length kw_from) with 4%nat. lia.
Qed.

Lemma from_loop_rt : forall cs fuel fr nm rest, (length cs < fuel)%nat -> wf_froms cs rest = true -> Valid rest -> kwfree [kw_from] rest = true ->
  from_loop fuel (pr_froms cs ++ rest) fr nm = Ok (fr ++ from_plain cs, nm ++ from_named cs, rest).
Proof.
  induction cs as [|c t IH]; intros fuel fr nm rest Hf H Hr Hs; (destruct fuel as [|f]; [cbn in Hf; lia|]); cbn [from_loop].
  - cbn [pr_froms flat_map app from_plain from_named]. rewrite !app_nil_r.
    destruct (kwfree_err _ kw_from rest Hs ltac:(now left) ltac:(kw_a) Hr) as (? & ? & ? & ->). reflexivity.
  - cbn [wf_froms pr_froms flat_map from_plain from_named] in *. fold (pr_froms t) (from_plain t) (from_named t) in *.
    apply andb_true_iff in H. destruct H as [Hc Ht]. unfold wf_from in Hc.
    apply andb_true_iff in Hc. destruct Hc as [Hc Hg]. apply andb_true_iff in Hc. destruct Hc as [Hc Hn].
    assert (VT : Valid (pr_froms t ++ rest)) by (apply valid_app; [eapply froms_valid; eassumption|assumption]).
    assert (VG : Valid (pr_o (fr_g c) ++ pr_froms t ++ rest)) by (apply valid_app; [eapply gterm_valid; eassumption|assumption]).
    assert (VN : Valid (pr_optkw (fr_named c) ++ pr_o (fr_g c) ++ pr_froms t ++ rest)) by (apply valid_app; [eapply optkw_valid; [|eassumption]; kw_a|assumption]).
    unfold pr_from. repeat rewrite <- app_assoc.
    assert (Afrom : ascii_str kw_from) by kw_a.
    rewrite (wf_kw_rt kw_from _ _ _ Afrom eq_refl Hc VN).
    pose proof (optkw_rt kw_named (fr_named c) _ ltac:(kw_a) eq_refl Hn VG) as On. unfold opt_keyword in On.
    destruct (fr_named c) as [[ln ntxt]|]; cbn [optkw_present pr_optkw app] in *.
    + destruct (keyword kw_named ((lay_bytes ln ++ ntxt) ++ pr_o (fr_g c) ++ pr_froms t ++ rest)) as [[m r]| | |]; try discriminate.
      injection On as ->. rewrite (gterm_rt _ _ Hg VT). cbn [bind].
      rewrite (IH f fr _ rest ltac:(cbn in Hf; lia) Ht Hr Hs). now rewrite <- app_assoc.
    + destruct (keyword kw_named (pr_o (fr_g c) ++ pr_froms t ++ rest)) as [[m r]|? ? ?| |]; try discriminate.
      rewrite (gterm_rt _ _ Hg VT). cbn [bind].
      rewrite (IH f _ nm rest ltac:(cbn in Hf; lia) Ht Hr Hs). now rewrite <- app_assoc.
Qed.

(* ---- optional clauses ----------------------------------------------------------------------------------------------- *)
Lemma opt_clause_some : forall (A : Type) kw (p : str -> res (A * str)) d input m r, keyword kw input = Ok (m, r) -> opt_clause kw p d input = p input.
Proof. intros A kw p d input m r H. unfold opt_clause. now rewrite (starts_keyword_true _ _ _ _ H). Qed.
Lemma opt_clause_none : forall (A : Type) kw (p : str -> res (A * str)) d input, is_err (keyword kw input) -> opt_clause kw p d input = Ok (d, input).
Proof. intros A kw p d input H. unfold opt_clause. now rewrite (starts_keyword_false _ _ H). Qed.

(* ---- GROUP BY ---------------------------------------------------------------------------------------------------------- *)
Definition pr_vars (vs : list OTok) : str := flat_map pr_o vs.
Fixpoint wf_vars (vs : list OTok) (following : str) : bool :=
  match vs with [] => true | v :: t => wf_var v (pr_vars t ++ following) && wf_vars t following end.
Lemma vars_valid : forall vs f, wf_vars vs f = true -> Valid (pr_vars vs).
Proof.
  induction vs as [|v t IH]; intros f H; [apply valid_nil|]. cbn [wf_vars pr_vars flat_map] in *. apply andb_true_iff in H. destruct H.
  apply valid_app; [eapply var_valid; eassumption|eapply IH; eassumption].
Qed.
Lemma var_nonempty : forall v f, wf_var v f = true -> (1 <= length (pr_o v))%nat.
Proof.
  intros v f H. unfold wf_var in H. repeat (apply andb_true_iff in H; destruct H as [H ?]). unfold pr_o. rewrite app_length.
  destruct (oterm v); try discriminate. cbn [term_text length]. lia.
Qed.
Lemma vars_length : forall vs f, wf_vars vs f = true -> (length vs <= length (pr_vars vs))%nat.
Proof.
  induction vs as [|v t IH]; intros f H; [cbn; lia|]. cbn [wf_vars pr_vars flat_map length] in *. fold (pr_vars t) in *.
  apply andb_true_iff in H. destruct H as [H1 H2]. rewrite app_length. pose proof (var_nonempty _ _ H1). specialize (IH _ H2). lia.
Qed.
Lemma vars_loop_rt : forall vs fuel acc rest, (length vs < fuel)%nat -> wf_vars vs rest = true -> Valid rest -> novar rest = true ->
  vars_loop fuel (pr_vars vs ++ rest) acc = Ok (acc ++ map var_text vs, rest).
Proof.
  induction vs as [|v t IH]; intros fuel acc rest Hf H Hr Hs; (destruct fuel as [|f]; [cbn in Hf; lia|]); cbn [vars_loop].
  - cbn [pr_vars flat_map app map]. rewrite app_nil_r. destruct (novar_err rest Hs Hr) as (? & ? & ? & ->). reflexivity.
  - cbn [wf_vars pr_vars flat_map map] in *. fold (pr_vars t) in *. apply andb_true_iff in H. destruct H as [Hv Ht].
    assert (VT : Valid (pr_vars t ++ rest)) by (apply valid_app; [eapply vars_valid; eassumption|assumption]).
    rewrite <- app_assoc. rewrite (var_rt v _ Hv VT). rewrite (IH f _ rest ltac:(cbn in Hf; lia) Ht Hr Hs). now rewrite <- app_assoc.
Qed.

Record GroupByC := { gb_l : L; gb_kw : str; gb_l2 : L; gb_kw2 : str; gb_v : OTok; gb_vs : list OTok }.
Definition pr_gb (g : GroupByC) : str := lay_bytes (gb_l g) ++ gb_kw g ++ lay_bytes (gb_l2 g) ++ gb_kw2 g ++ pr_vars (gb_v g :: gb_vs g).
Definition wf_gb (g : GroupByC) (following : str) : bool :=
  wf_kw kw_group (gb_kw g) (gb_l g) (lay_bytes (gb_l2 g) ++ gb_kw2 g ++ pr_vars (gb_v g :: gb_vs g) ++ following)
  && wf_kw kw_by (gb_kw2 g) (gb_l2 g) (pr_vars (gb_v g :: gb_vs g) ++ following)
  && wf_vars (gb_v g :: gb_vs g) following && novar following.
Definition pr_gbo (o : option GroupByC) : str := match o with Some g => pr_gb g | None => [] end.
Definition tr_gbo (o : option GroupByC) : list str := match o with Some g => map var_text (gb_v g :: gb_vs g) | None => [] end.
Definition wf_gbo (o : option GroupByC) (following : str) : bool :=
  match o with Some g => wf_gb g following | None => kwfree [kw_group] following end.

Lemma gbo_valid : forall o f, wf_gbo o f = true -> Valid (pr_gbo o).
Proof.
  intros [g|] f H; [|apply valid_nil]. cbn [wf_gbo pr_gbo] in *. unfold wf_gb, pr_gb in *.
  apply andb_true_iff in H. destruct H as [H _]. apply andb_true_iff in H. destruct H as [H Hv]. apply andb_true_iff in H. destruct H as [H1 H2].
  rewrite app_assoc. apply valid_app; [eapply wf_kw_valid; [|eassumption]; kw_a|]. rewrite app_assoc.
  apply valid_app; [eapply wf_kw_valid; [|eassumption]; kw_a|eapply vars_valid; eassumption].
Qed.

Theorem groupby_rt : forall o rest, wf_gbo o rest = true -> Valid rest ->
  opt_clause kw_group group_by_clause [] (pr_gbo o ++ rest) = Ok (tr_gbo o, rest).
Proof.
  intros [g|] rest H Hr; cbn [wf_gbo pr_gbo tr_gbo] in *.
  - unfold wf_gb, pr_gb in *.
    apply andb_true_iff in H. destruct H as [H Hs]. apply andb_true_iff in H. destruct H as [H Hv]. apply andb_true_iff in H. destruct H as [H1 H2].
    assert (VV : Valid (pr_vars (gb_v g :: gb_vs g) ++ rest)) by (apply valid_app; [eapply vars_valid; eassumption|assumption]).
    assert (V2 : Valid (lay_bytes (gb_l2 g) ++ gb_kw2 g ++ pr_vars (gb_v g :: gb_vs g) ++ rest)).
    { rewrite app_assoc. apply valid_app; [eapply wf_kw_valid; [|eassumption]; kw_a|assumption]. }
    assert (Ag : ascii_str kw_group) by kw_a. assert (Ab : ascii_str kw_by) by kw_a.
    repeat rewrite <- app_assoc.
    pose proof (wf_kw_rt kw_group _ _ _ Ag eq_refl H1 V2) as K1.
    rewrite (opt_clause_some _ _ _ _ _ _ _ K1). unfold group_by_clause. rewrite K1. cbn [bind].
    rewrite (wf_kw_rt kw_by _ _ _ Ab eq_refl H2 VV). cbn [bind].
    rewrite (vars_loop_rt (gb_v g :: gb_vs g) _ [] rest); try assumption.
    + cbn [bind app map]. reflexivity.
    + rewrite app_length. pose proof (vars_length _ _ Hv). lia.
  - cbn [app]. apply opt_clause_none. apply (kwfree_err _ kw_group rest H); [now left|kw_a|assumption].
Qed.

(* ---- LIMIT --------------------------------------------------------------------------------------------------------------- *)
Definition nodigit (following : str) : bool := match following with b :: _ => negb (is_ascii_digit b) | [] => true end.
Record LimitC := { lm_l : L; lm_kw : str; lm_l2 : L; lm_ds : str }.
Definition pr_lm (c : LimitC) : str := lay_bytes (lm_l c) ++ lm_kw c ++ lay_bytes (lm_l2 c) ++ lm_ds c.
Definition wf_lm (c : LimitC) (following : str) : bool :=
  wf_kw kw_limit (lm_kw c) (lm_l c) (lay_bytes (lm_l2 c) ++ lm_ds c ++ following)
  && lay_okb (lm_l2 c) && digitsb (lm_ds c) && nonempty (lm_ds c) && (dec_val (lm_ds c) <=? usize_max) && nodigit following.
Definition pr_lmo (o : option LimitC) : str := match o with Some c => pr_lm c | None => [] end.
Definition tr_lmo (o : option LimitC) : option N := match o with Some c => Some (dec_val (lm_ds c)) | None => None end.
Definition wf_lmo (o : option LimitC) (following : str) : bool :=
  match o with Some c => wf_lm c following | None => kwfree [kw_limit] following end.

Lemma digits_ascii : forall ds, digitsb ds = true -> ascii_str ds.
Proof.
  intros ds H. apply digits_F in H. unfold digits in H. unfold ascii_str. eapply Forall_impl; [|exact H].
  intros b Hb. unfold is_ascii_digit in Hb. lia.
Qed.
Lemma count_digits : forall ds f, digitsb ds = true -> nodigit f = true -> count_while is_ascii_digit (ds ++ f) = length ds.
Proof.
  induction ds as [|d t IH]; intros f H Hn.
  - cbn [app length]. destruct f as [|b f']; [reflexivity|]. cbn [nodigit count_while] in *. apply negb_true_iff in Hn. now rewrite Hn.
  - cbn [digitsb forallb] in H. apply andb_true_iff in H. destruct H as [Hd Ht]. cbn [app count_while length]. rewrite Hd. f_equal. now apply IH.
Qed.
Lemma lmo_valid : forall o f, wf_lmo o f = true -> Valid (pr_lmo o).
Proof.
  intros [c|] f H; [|apply valid_nil]. cbn [wf_lmo pr_lmo] in *. unfold wf_lm, pr_lm in *.
  repeat (apply andb_true_iff in H; destruct H as [H ?]).
  apply valid_app; [now apply lay_valid|]. apply valid_app; [eapply (kw_valid kw_limit); [kw_a|eassumption]|].
  apply valid_app; [now apply lay_valid|]. apply valid_ascii. now apply digits_ascii.
Qed.

Theorem limit_rt : forall o rest, wf_lmo o rest = true -> Valid rest ->
  opt_clause kw_limit (fun i => do '(n, r) <- limit_clause i; Ok (Some n, r)) None (pr_lmo o ++ rest) = Ok (tr_lmo o, rest).
Proof.
  intros [c|] rest H Hr; cbn [wf_lmo pr_lmo tr_lmo] in *.
  - unfold wf_lm, pr_lm in *. destruct c as [l kw l2 ds]. cbn [lm_l lm_kw lm_l2 lm_ds] in *.
    apply andb_true_iff in H. destruct H as [H Hnd]. apply andb_true_iff in H. destruct H as [H Hmax]. apply andb_true_iff in H. destruct H as [H Hne].
    apply andb_true_iff in H. destruct H as [H Hds]. apply andb_true_iff in H. destruct H as [Hk Hl2].
    assert (Ads : ascii_str ds) by now apply digits_ascii. assert (Vds : Valid ds) by now apply valid_ascii.
    assert (VD : Valid (ds ++ rest)) by now apply valid_app.
    assert (V2 : Valid (lay_bytes l2 ++ ds ++ rest)) by (apply valid_app; [now apply lay_valid|assumption]).
    assert (Al : ascii_str kw_limit) by kw_a.
    repeat rewrite <- app_assoc.
    pose proof (wf_kw_rt kw_limit _ _ _ Al eq_refl Hk V2) as K1.
    rewrite (opt_clause_some _ _ _ _ _ _ _ K1). unfold limit_clause. rewrite K1. cbn [bind].
    assert (Esk : skip_ws (lay_bytes l2 ++ ds ++ rest) = ds ++ rest).
    { destruct ds as [|d ds']; [discriminate|]. cbn [app]. inversion Ads; subst. cbn [digitsb forallb] in Hds. apply andb_true_iff in Hds. destruct Hds as [Hd _].
      apply lead_skip; try assumption.
      - unfold is_ascii_digit in Hd. unfold is_whitespace, in_ranges, whitespace_ranges.
        destruct (N.ltb_spec d 9); [lia|]. destruct (N.leb_spec d 13); [lia|]. destruct (N.ltb_spec d 32); [lia|].
        destruct (N.leb_spec d 32); [lia|]. destruct (N.ltb_spec d 133); [reflexivity|lia].
      - unfold is_ascii_digit in Hd. lia.
      - cbn [app] in VD. now destruct (valid_ascii_head d (ds' ++ rest) VD ltac:(assumption)) as (_ & _ & ?). }
    rewrite Esk, (count_digits ds rest Hds Hnd).
    destruct (Nat.eqb_spec (length ds) 0) as [E0|_]; [destruct ds; [discriminate|cbn in E0; lia]|].
    pose proof (valid_app_bnd ds rest Vds Hr) as B. rewrite slice_to_bnd, slice_from_bnd by assumption. cbn [lift bind].
    rewrite firstn_app, firstn_all, Nat.sub_diag, skipn_app, skipn_all, Nat.sub_diag. cbn [firstn skipn app]. rewrite app_nil_r.
    rewrite Hmax. reflexivity.
  - cbn [app]. apply opt_clause_none. apply (kwfree_err _ kw_limit rest H); [now left|kw_a|assumption].
Qed.

(* ---- ORDER BY ------------------------------------------------------------------------------------------------------------ *)
Lemma starts_keyword_hitb : forall kw x, ascii_str kw -> Valid x -> skip_ws x = x -> starts_keyword kw x = Ok (kw_hitb kw x).
Proof.
  intros kw x Ha Hv E. unfold starts_keyword, keyword, kw_hitb. rewrite E.
  destruct (prefix_nocase kw x) eqn:Ep; [|reflexivity]. cbn [andb].
  pose proof (asc_bnd _ _ Hv (prefix_nocase_asc _ _ Ha Ep)) as B. rewrite slice_from_bnd, slice_to_bnd by assumption. cbn [lift bind].
  unfold stopb, name_stopP. destruct (next_char (skipn (length kw) x)) as [[c n]|]; [|reflexivity].
  destruct (name_character c); reflexivity.
Qed.
Lemma variable_skip : forall x, Valid x -> variable (skip_ws x) = variable x.
Proof. intros x Hv. unfold variable. now rewrite skip_ws_idem. Qed.
Lemma schar_skip : forall c x, Valid x -> schar c (skip_ws x) = schar c x.
Proof. intros c x Hv. unfold schar. now rewrite skip_ws_idem. Qed.

Inductive OCondC := OCVar (v : OTok) | OCDir (l : L) (d : bool) (kw : str) (lp : L) (v : OTok) (rp : L).
Record OItem := { oi_comma : option L; oi_c : OCondC }.
Definition dir_kw (d : bool) : str := if d then kw_desc else kw_asc.
Definition pr_ocond (c : OCondC) : str :=
  match c with
  | OCVar v => pr_o v
  | OCDir l d kw lp v rp => lay_bytes l ++ kw ++ lay_bytes lp ++ 40 :: pr_o v ++ lay_bytes rp ++ [41]
  end.
Definition tr_ocond (c : OCondC) : str * bool := match c with OCVar v => (var_text v, false) | OCDir _ d _ _ v _ => (var_text v, d) end.
Definition wf_ocond (c : OCondC) (following : str) : bool :=
  match c with
  | OCVar v => wf_var v following
  | OCDir l d kw lp v rp => lay_okb l && kwcaseb (dir_kw d) kw && lay_okb lp && lay_okb rp && wf_var v (lay_bytes rp ++ 41 :: following)
  end.
Definition pr_comma (o : option L) : str := match o with Some lc => lay_bytes lc ++ [44] | None => [] end.
Definition pr_oitem (it : OItem) : str := pr_comma (oi_comma it) ++ pr_ocond (oi_c it).
Definition pr_oitems (its : list OItem) : str := flat_map pr_oitem its.
Definition wf_oitem (it : OItem) (following : str) : bool :=
  match oi_comma it with Some lc => lay_okb lc | None => true end && wf_ocond (oi_c it) following.
Fixpoint wf_oitems (its : list OItem) (following : str) : bool :=
  match its with [] => true | it :: t => wf_oitem it (pr_oitems t ++ following) && wf_oitems t following end.

Lemma ocond_valid : forall c f, wf_ocond c f = true -> Valid (pr_ocond c).
Proof.
  intros [v|l d kw lp v rp] f H; cbn [wf_ocond pr_ocond] in *; [eapply var_valid; eassumption|].
  apply andb_true_iff in H. destruct H as [H Hv]. repeat (apply andb_true_iff in H; destruct H as [H ?]).
  apply valid_app; [now apply lay_valid|]. apply valid_app; [eapply (kw_valid (dir_kw d)); [destruct d; kw_a|eassumption]|].
  apply valid_app; [now apply lay_valid|]. apply v1; [lia|]. apply valid_app; [eapply var_valid; eassumption|].
  apply valid_app; [now apply lay_valid|apply valid_ascii; repeat constructor; lia].
Qed.
Lemma oitem_valid : forall it f, wf_oitem it f = true -> Valid (pr_oitem it).
Proof.
  intros [cm c] f H. unfold wf_oitem, pr_oitem in *. cbn [oi_comma oi_c] in *. apply andb_true_iff in H. destruct H as [H1 H2].
  apply valid_app; [|eapply ocond_valid; eassumption]. destruct cm as [lc|]; [|apply valid_nil]. cbn [pr_comma].
  apply valid_app; [now apply lay_valid|apply valid_ascii; repeat constructor; lia].
Qed.
Lemma oitems_valid : forall its f, wf_oitems its f = true -> Valid (pr_oitems its).
Proof.
  induction its as [|it t IH]; intros f H; [apply valid_nil|]. cbn [wf_oitems pr_oitems flat_map] in *. apply andb_true_iff in H. destruct H.
  apply valid_app; [eapply oitem_valid; eassumption|eapply IH; eassumption].
Qed.

(* the head of a printed order condition *)
Lemma ocond_head : forall c f x, wf_ocond c f = true -> Valid x ->
  exists l b t, pr_ocond c ++ x = lay_bytes l ++ b :: t /\ lay_okb l = true /\ Valid t /\ b < 128 /\ is_whitespace b = false /\ b <> 35
                /\ b <> 44 /\ b <> 125 /\ ascii_lower b <> 108 /\ ascii_lower b <> 103
                /\ (match c with OCVar _ => ascii_lower b <> 97 /\ ascii_lower b <> 100 | OCDir _ d _ _ _ _ => ascii_lower b = if d then 100 else 97 end).
Proof.
  intros [v|l d kw lp v rp] f x H Hx; cbn [wf_ocond pr_ocond] in *.
  - pose proof (var_valid _ _ H) as Vv. unfold wf_var in H. repeat (apply andb_true_iff in H; destruct H as [H ?]). unfold pr_o in *.
    destruct (oterm v) as [sigil cs| | | | | |]; try discriminate. cbn [term_text term_okb] in *.
    repeat (apply andb_true_iff in H2; destruct H2 as [H2 ?]). assert (Hsig : sigil = 63 \/ sigil = 36) by lia.
    exists (olay v), sigil, (encode cs ++ x). rewrite <- app_assoc. split; [reflexivity|]. split; [assumption|].
    split; [apply valid_app; [apply valid_encode; now apply scalars_F|assumption]|].
    destruct Hsig; subst; repeat split; try lia; try reflexivity; cbv; discriminate.
  - apply andb_true_iff in H. destruct H as [H Hv]. repeat (apply andb_true_iff in H; destruct H as [H ?]).
    match goal with X : kwcaseb _ _ = true |- _ => rename X into Hk end.
    assert (Hk' := Hk). apply kwcase_b in Hk'. destruct (kwcase_head _ _ Hk' ltac:(destruct d; discriminate)) as (k & kw' & b & t & Ekw & Etxt & Hkb).
    assert (Vk : Valid kw) by (eapply (kw_valid (dir_kw d)); [destruct d; kw_a|eassumption]).
    exists l, b, (t ++ lay_bytes lp ++ 40 :: pr_o v ++ lay_bytes rp ++ 41 :: x).
    split; [rewrite Etxt; repeat first [rewrite <- app_assoc | progress cbn [app]]; reflexivity|]. split; [assumption|].
    assert (Hlow : ascii_lower b = if d then 100 else 97) by (destruct d; cbn in Ekw; injection Ekw as <- _; rewrite Hkb; reflexivity).
    assert (Lb : letter b).
    { unfold letter, is_ascii_alpha, is_ascii_upper, is_ascii_lower, ascii_lower, is_ascii_upper in *.
      destruct ((65 <=? b) && (b <=? 90)) eqn:E1; destruct d; lia. }
    destruct (letter_facts b Lb) as (Hb & Hw & H65).
    assert (H122 : b <= 122) by (unfold letter, is_ascii_alpha, is_ascii_upper, is_ascii_lower in Lb; lia).
    split.
    { rewrite Etxt in Vk. destruct (valid_ascii_head b t Vk Hb) as (_ & _ & Vt). apply valid_app; [assumption|].
      apply valid_app; [now apply lay_valid|]. apply v1; [lia|]. apply valid_app; [eapply var_valid; eassumption|].
      apply valid_app; [now apply lay_valid|now apply v1]. }
    repeat split; try assumption; try lia; destruct d; lia.
Qed.

Lemma order_condition_skip : forall x, Valid x -> order_condition (skip_ws x) = order_condition x.
Proof. intros x Hv. unfold order_condition. now rewrite skip_ws_idem. Qed.

Lemma ocond_kw_err : forall c f x kw k0 kw', wf_ocond c f = true -> Valid x -> kw = k0 :: kw' ->
  (ascii_lower k0 = 108 \/ ascii_lower k0 = 103 \/ (match c with OCVar _ => ascii_lower k0 = 97 \/ ascii_lower k0 = 100 | OCDir _ d _ _ _ _ => ascii_lower k0 = if d then 97 else 100 end)) ->
  is_err (keyword kw (pr_ocond c ++ x)).
Proof.
  intros c f x kw k0 kw' H Hx Ek Hk. destruct (ocond_head c f x H Hx) as (l & b & t & E & Hl & Vt & Hb & Hw & H35 & _ & _ & Hn1 & Hn2 & Hc).
  rewrite E. apply (head_kw_err kw k0 kw' l b t Ek); try assumption.
  destruct c as [v|l' d kw0 lp v rp]; [destruct Hc|]; destruct Hk as [Hk|[Hk|Hk]]; try (rewrite Hk; assumption).
  - destruct Hk as [Hk|Hk]; rewrite Hk; assumption.
  - rewrite Hk, Hc. destruct d; discriminate.
Qed.

Theorem order_condition_rt : forall c rest, wf_ocond c rest = true -> Valid rest -> order_condition (pr_ocond c ++ rest) = Ok (tr_ocond c, rest).
Proof.
  intros c rest H Hr. assert (H0 := H). unfold order_condition.
  assert (VC : Valid (pr_ocond c ++ rest)) by (apply valid_app; [eapply ocond_valid; eassumption|assumption]).
  rewrite !keyword_skip by assumption. rewrite variable_skip by assumption.
  destruct c as [v|l d kw lp v rp]; cbn [wf_ocond tr_ocond] in *.
  - destruct (ocond_kw_err (OCVar v) rest rest kw_asc _ _ H0 Hr eq_refl ltac:(right; right; left; reflexivity)) as (? & ? & ? & ->).
    destruct (ocond_kw_err (OCVar v) rest rest kw_desc _ _ H0 Hr eq_refl ltac:(right; right; right; reflexivity)) as (? & ? & ? & ->).
    cbn [pr_ocond]. now rewrite (var_rt v rest H Hr).
  - apply andb_true_iff in H. destruct H as [H Hv]. repeat (apply andb_true_iff in H; destruct H as [H ?]).
    match goal with X : kwcaseb _ _ = true |- _ => rename X into Hk end.
    match goal with X : lay_okb lp = true |- _ => rename X into Hlp end.
    match goal with X : lay_okb rp = true |- _ => rename X into Hrp end.
    assert (V1 : Valid (lay_bytes rp ++ 41 :: rest)) by (apply valid_app; [now apply lay_valid|now apply v1]).
    assert (V2 : Valid (pr_o v ++ lay_bytes rp ++ 41 :: rest)) by (apply valid_app; [eapply var_valid; eassumption|assumption]).
    assert (V3 : Valid (lay_bytes lp ++ 40 :: pr_o v ++ lay_bytes rp ++ 41 :: rest)) by (apply valid_app; [now apply lay_valid|now apply v1]).
    assert (Ns : name_stop (lay_bytes lp ++ 40 :: pr_o v ++ lay_bytes rp ++ 41 :: rest)).
    { apply name_stop_layout; [now apply lay_ok|]. unfold name_stop. cbn. reflexivity. }
    assert (Kok : keyword (dir_kw d) (pr_ocond (OCDir l d kw lp v rp) ++ rest) = Ok (kw, lay_bytes lp ++ 40 :: pr_o v ++ lay_bytes rp ++ 41 :: rest)).
    { cbn [pr_ocond]. repeat first [rewrite <- app_assoc | progress cbn [app]].
      apply kw_rt; try assumption; destruct d; first [kw_a | reflexivity]. }
    assert (Wr : forall desc, (do i1 <- schar 40 (lay_bytes lp ++ 40 :: pr_o v ++ lay_bytes rp ++ 41 :: rest);
                               do '(x, i2) <- variable i1; do i3 <- schar 41 i2; Ok (x, desc, i3)) = Ok (var_text v, desc : bool, rest)).
    { intros desc. rewrite schar_roundtrip by (try assumption; try lia; try reflexivity; now apply lay_ok). cbn [bind].
      rewrite (var_rt v _ Hv V1). cbn [bind]. rewrite schar_roundtrip by (try assumption; try lia; try reflexivity; now apply lay_ok). reflexivity. }
    destruct d; cbn [dir_kw] in Kok.
    + destruct (ocond_kw_err (OCDir l true kw lp v rp) rest rest kw_asc _ _ H0 Hr eq_refl ltac:(right; right; reflexivity)) as (? & ? & ? & ->).
      rewrite Kok. apply Wr.
    + rewrite Kok. apply Wr.
Qed.

Definition order_stop (following : str) : bool :=
  nolead 44 following &&
  match skip_ws following with
  | [] => true
  | b :: _ => (b =? 125) || kw_hitb kw_limit (skip_ws following) || kw_hitb kw_group (skip_ws following)
  end.
Definition oitem_cost (it : OItem) : nat := match oi_comma it with Some _ => 2%nat | None => 1%nat end.
Fixpoint oitems_cost (its : list OItem) : nat := match its with [] => O | it :: t => (oitem_cost it + oitems_cost t)%nat end.

Lemma order_cond_step : forall c f acc R, wf_ocond c R = true -> Valid R ->
  order_loop (S f) (pr_ocond c ++ R) acc = order_loop f R (acc ++ [tr_ocond c]).
Proof.
  intros c f acc R H HR. set (S0 := pr_ocond c ++ R).
  assert (VS : Valid S0) by (apply valid_app; [eapply ocond_valid; eassumption|assumption]).
  destruct (ocond_head c R R H HR) as (l & b & t & E & Hl & Vt & Hb & Hw & H35 & H44 & H125 & _).
  assert (Ei : skip_ws S0 = b :: t) by (unfold S0; rewrite E; now apply lead_skip).
  assert (Kl : starts_keyword kw_limit (b :: t) = Ok false).
  { apply starts_keyword_false. rewrite <- Ei, keyword_skip by assumption. eapply ocond_kw_err; try eassumption; [reflexivity|]. left. reflexivity. }
  assert (Kg : starts_keyword kw_group (b :: t) = Ok false).
  { apply starts_keyword_false. rewrite <- Ei, keyword_skip by assumption. eapply ocond_kw_err; try eassumption; [reflexivity|]. right. left. reflexivity. }
  assert (Oc : order_condition (b :: t) = Ok (tr_ocond c, R)).
  { rewrite <- Ei, order_condition_skip by assumption. now apply order_condition_rt. }
  cbn [order_loop]. rewrite Ei. rewrite strip1_none by assumption.
  destruct (N.eqb_spec b 125) as [|_]; [congruence|]. rewrite Kl. cbn [bind]. rewrite Kg. cbn [bind]. rewrite Oc. reflexivity.
Qed.

Lemma order_loop_rt : forall its fuel acc rest, (oitems_cost its < fuel)%nat -> wf_oitems its rest = true -> Valid rest -> order_stop rest = true ->
  order_loop fuel (pr_oitems its ++ rest) acc = Ok (acc ++ map (fun it => tr_ocond (oi_c it)) its, skip_ws rest).
Proof.
  induction its as [|it t IH]; intros fuel acc rest Hf H Hr Hs; (destruct fuel as [|f]; [cbn in Hf; lia|]).
  - cbn [pr_oitems flat_map app map order_loop]. rewrite app_nil_r. unfold order_stop in Hs. apply andb_true_iff in Hs. destruct Hs as [Hc Hs].
    apply nolead_ok in Hc. unfold no_lead in Hc. rewrite Hc.
    pose proof (valid_skip _ Hr) as Vi. pose proof (skip_ws_idem _ Hr) as Eid.
    destruct (skip_ws rest) as [|b tl] eqn:Ei; [reflexivity|].
    destruct (N.eqb_spec b 125) as [|_]; [reflexivity|]. cbn [orb] in Hs.
    rewrite (starts_keyword_hitb kw_limit (b :: tl) ltac:(kw_a) Vi Eid). cbn [bind].
    destruct (kw_hitb kw_limit (b :: tl)); [reflexivity|]. cbn [orb] in Hs.
    rewrite (starts_keyword_hitb kw_group (b :: tl) ltac:(kw_a) Vi Eid). cbn [bind]. rewrite Hs. reflexivity.
  - cbn [wf_oitems pr_oitems flat_map map oitems_cost] in *. fold (pr_oitems t) in *. apply andb_true_iff in H. destruct H as [Hit Ht].
    unfold wf_oitem in Hit. apply andb_true_iff in Hit. destruct Hit as [Hcm Hc].
    assert (VT : Valid (pr_oitems t ++ rest)) by (apply valid_app; [eapply oitems_valid; eassumption|assumption]).
    assert (VC : Valid (pr_ocond (oi_c it) ++ pr_oitems t ++ rest)) by (apply valid_app; [eapply ocond_valid; eassumption|assumption]).
    unfold pr_oitem, oitem_cost in *. repeat rewrite <- app_assoc.
    destruct (oi_comma it) as [lc|]; cbn [pr_comma].
    + cbn [order_loop]. repeat first [rewrite <- app_assoc | progress cbn [app]].
      rewrite lead_skip by (try assumption; try lia; reflexivity). rewrite strip1_some. destruct f as [|f']; [lia|].
      rewrite (order_cond_step _ f' acc _ Hc VT). rewrite (IH f' _ rest ltac:(lia) Ht Hr Hs). now rewrite <- app_assoc.
    + cbn [app]. rewrite (order_cond_step _ f acc _ Hc VT). rewrite (IH f _ rest ltac:(lia) Ht Hr Hs). now rewrite <- app_assoc.
Qed.

Lemma ocond_nonempty : forall c f, wf_ocond c f = true -> (1 <= length (pr_ocond c))%nat.
Proof.
  intros c f H. destruct (ocond_head c f [] H valid_nil) as (l & b & t & E & _). rewrite app_nil_r in E. rewrite E, app_length. cbn [length]. lia.
Qed.
Lemma oitems_cost_le : forall its f, wf_oitems its f = true -> (oitems_cost its <= length (pr_oitems its))%nat.
Proof.
  induction its as [|it t IH]; intros f H; [cbn; lia|]. cbn [wf_oitems pr_oitems flat_map oitems_cost] in *. fold (pr_oitems t) in *.
  apply andb_true_iff in H. destruct H as [H1 H2]. specialize (IH _ H2). unfold wf_oitem in H1. apply andb_true_iff in H1. destruct H1 as [_ Hc].
  pose proof (ocond_nonempty _ _ Hc). unfold pr_oitem, oitem_cost. rewrite !app_length.
  destruct (oi_comma it); cbn [pr_comma]; rewrite ?app_length; cbn [length]; lia.
Qed.

Record OrderByC := { ob_l : L; ob_kw : str; ob_l2 : L; ob_kw2 : str; ob_first : OCondC; ob_more : list OItem }.
Definition ob_items (o : OrderByC) : list OItem := {| oi_comma := None; oi_c := ob_first o |} :: ob_more o.
Definition pr_ob (o : OrderByC) : str := lay_bytes (ob_l o) ++ ob_kw o ++ lay_bytes (ob_l2 o) ++ ob_kw2 o ++ pr_oitems (ob_items o).
Definition wf_ob (o : OrderByC) (following : str) : bool :=
  wf_kw kw_order (ob_kw o) (ob_l o) (lay_bytes (ob_l2 o) ++ ob_kw2 o ++ pr_oitems (ob_items o) ++ following)
  && wf_kw kw_by (ob_kw2 o) (ob_l2 o) (pr_oitems (ob_items o) ++ following)
  && wf_oitems (ob_items o) following && order_stop following.
Definition pr_obo (o : option OrderByC) : str := match o with Some c => pr_ob c | None => [] end.
Definition tr_obo (o : option OrderByC) : list (str * bool) :=
  match o with Some c => map (fun it => tr_ocond (oi_c it)) (ob_items c) | None => [] end.
Definition wf_obo (o : option OrderByC) (following : str) : bool :=
  match o with Some c => wf_ob c following | None => kwfree [kw_order] following end.
Definition obo_rest (o : option OrderByC) (rest : str) : str := match o with Some _ => skip_ws rest | None => rest end.

Lemma obo_valid : forall o f, wf_obo o f = true -> Valid (pr_obo o).
Proof.
  intros [c|] f H; [|apply valid_nil]. cbn [wf_obo pr_obo] in *. unfold wf_ob, pr_ob in *.
  apply andb_true_iff in H. destruct H as [H _]. apply andb_true_iff in H. destruct H as [H Hv]. apply andb_true_iff in H. destruct H as [H1 H2].
  rewrite app_assoc. apply valid_app; [eapply wf_kw_valid; [|eassumption]; kw_a|]. rewrite app_assoc.
  apply valid_app; [eapply wf_kw_valid; [|eassumption]; kw_a|eapply oitems_valid; eassumption].
Qed.

Theorem orderby_rt : forall o rest, wf_obo o rest = true -> Valid rest ->
  opt_clause kw_order order_by_clause [] (pr_obo o ++ rest) = Ok (tr_obo o, obo_rest o rest).
Proof.
  intros [c|] rest H Hr; cbn [wf_obo pr_obo tr_obo obo_rest] in *.
  - unfold wf_ob, pr_ob in *.
    apply andb_true_iff in H. destruct H as [H Hs]. apply andb_true_iff in H. destruct H as [H Hv]. apply andb_true_iff in H. destruct H as [H1 H2].
    assert (VV : Valid (pr_oitems (ob_items c) ++ rest)) by (apply valid_app; [eapply oitems_valid; eassumption|assumption]).
    assert (V2 : Valid (lay_bytes (ob_l2 c) ++ ob_kw2 c ++ pr_oitems (ob_items c) ++ rest)).
    { rewrite app_assoc. apply valid_app; [eapply wf_kw_valid; [|eassumption]; kw_a|assumption]. }
    assert (Ao : ascii_str kw_order) by kw_a. assert (Ab : ascii_str kw_by) by kw_a.
    repeat rewrite <- app_assoc.
    pose proof (wf_kw_rt kw_order _ _ _ Ao eq_refl H1 V2) as K1.
    rewrite (opt_clause_some _ _ _ _ _ _ _ K1). unfold order_by_clause. rewrite K1. cbn [bind].
    rewrite (wf_kw_rt kw_by _ _ _ Ab eq_refl H2 VV). cbn [bind].
    rewrite (order_loop_rt (ob_items c) _ [] rest); try assumption.
    + cbn [bind app]. unfold ob_items. cbn [map]. reflexivity.
    + rewrite app_length. pose proof (oitems_cost_le _ _ Hv). lia.
  - cbn [app]. apply opt_clause_none. apply (kwfree_err _ kw_order rest H); [now left|kw_a|assumption].
Qed.
