(* C18 - executable model of /repo/datalog/src/reasoning/backward_chaining.rs (whole file, as repaired by
   c6d81bf: the rename counter starts above every `v<n>` used by the goal, and by 8d76413: filters are renamed
   with the rule and evaluated once the premises of a rule instance are solved), plus
   rules.rs evaluate_filters, which backward chaining now calls.

   Same case splits and the same order of effects as the Rust code:
     resolve_term / substitute_term   chains of bindings are followed until an unbound variable or a constant
     unify_terms                      both sides resolved first; Var/Const binds the variable; Var/Var binds the
                                      FIRST variable to the second unless they are the same name
     unify_patterns                   subject, predicate, object in this order on a copy of the bindings
     rename_rule_variables            premises first (s, p, o), then conclusions, one shared var_map, one global
                                      counter, new names are "v<counter>" in decimal; the filters' variable and value
                                      are looked up in the final var_map (unchanged when absent)
     filters_hold                     no filters: true; else the `ground` map (every key of the bindings whose
                                      resolution is a constant) is built and evaluate_filters is called
     evaluate_filters (as of 7537bd2) a filter whose variable is not in the ground map is skipped; if the value is a
                                      key of the ground map, = and != compare the two ids and <, <=, >, >= the numeric
                                      values of the two bound constants; otherwise the numeric
                                      value of the bound constant is compared with the numeric value of the value
                                      string (0.0 when it does not parse)
     first_fresh_variable_index       max over goal variables named v<usize> of n+1
     backward_chaining_helper         depth > MAX_DEPTH returns nothing; facts first (in store order), then every
                                      rule (renamed, even if no conclusion unifies), every conclusion, premises
                                      solved left to right over the list of partial answers, then only the partial
                                      answers that pass filters_hold are kept
   Not modelled: quoted-triple terms; usize overflow of the counter; the HashMap is an association list whose
   lookup returns the newest entry (insert = cons); f64 (numeric values are integers `Z`: `num c` is what
   dict.decode(c).parse::<f64>() gives, 0 when it does not parse); operators other than the six comparisons
   (they accept everything in the code); a filter value is either a number (`FNum`) or a name (`FVar`) - a
   name that is not a key of the ground map is compared as the number 0 (names are assumed not to parse as
   numbers, and numbers are assumed not to be variable names).  No proofs in this file. *)
Require Import List NArith ZArith String Ascii Bool DecimalString DecimalN Decimal.
Import ListNotations.
Open Scope string_scope.
Open Scope list_scope.

Inductive term := Var (x : string) | Cst (c : N).
Definition atom := (term * term * term)%type.
Definition fact := (N * N * N)%type.

Inductive cmp := CGt | CLt | CGe | CLe | CEq | CNe.
Inductive fvalue := FNum (z : Z) | FVar (y : string).
Record fcond := Filter { fvar : string; fop : cmp; fval : fvalue }.
Record rule := Rule { prem : list atom; concl : list atom; filters : list fcond }.

Definition subst := list (string * term).

Fixpoint lookup {A} (x : string) (l : list (string * A)) : option A :=
  match l with
  | [] => None
  | (y, t) :: l' => if String.eqb x y then Some t else lookup x l'
  end.

(* HashMap::insert; the key is never present when the code inserts (SubstProofs.unify_terms_wf), so cons is exact *)
Definition bind (x : string) (t : term) (th : subst) : subst := (x, t) :: th.

(* resolve_term: `fuel` bounds the length of the chain followed; out of fuel returns the term reached so far.
   SubstProofs.resolve_is_root: for every well-formed binding map (all maps the search builds are) the fuel
   S (length th) is never exhausted. *)
Fixpoint resolve_fuel (fuel : nat) (th : subst) (t : term) : term :=
  match fuel with
  | O => t
  | S f =>
    match t with
    | Var v => match lookup v th with
               | Some b => resolve_fuel f th b
               | None => t
               end
    | Cst _ => t
    end
  end.
Definition resolve_term (th : subst) (t : term) : term := resolve_fuel (S (List.length th)) th t.

(* substitute_term has the same body as resolve_term on non-quoted terms *)
Definition substitute_term (th : subst) (t : term) : term := resolve_fuel (S (List.length th)) th t.
Definition substitute (th : subst) (p : atom) : atom :=
  let '(s, pr, o) := p in (substitute_term th s, substitute_term th pr, substitute_term th o).

Definition unify_terms (t1 t2 : term) (th : subst) : option subst :=
  match resolve_term th t1, resolve_term th t2 with
  | Cst c1, Cst c2 => if N.eqb c1 c2 then Some th else None
  | Var v, Cst c => Some (bind v (Cst c) th)
  | Cst c, Var v => Some (bind v (Cst c) th)
  | Var v1, Var v2 => if String.eqb v1 v2 then Some th else Some (bind v1 (Var v2) th)
  end.

Definition unify_patterns (p1 p2 : atom) (th : subst) : option subst :=
  let '(s1, q1, o1) := p1 in
  let '(s2, q2, o2) := p2 in
  match unify_terms s1 s2 th with
  | None => None
  | Some th1 =>
    match unify_terms q1 q2 th1 with
    | None => None
    | Some th2 => unify_terms o1 o2 th2
    end
  end.

(* format!("v{}", counter) *)
Definition gen_name (n : N) : string := String "v"%char (NilEmpty.string_of_uint (N.to_uint n)).

(* str::parse::<usize>: an optional '+', then at least one ASCII digit (leading zeros accepted).
   Overflow of usize (more than 64 bits) is not modelled. *)
Definition parse_digits (s : string) : option N :=
  match s with
  | EmptyString => None
  | _ => option_map N.of_uint (NilEmpty.uint_of_string s)
  end.
Definition parse_usize (s : string) : option N :=
  match s with
  | String "+"%char r => parse_digits r
  | _ => parse_digits s
  end.
(* name.strip_prefix('v').and_then(|d| d.parse::<usize>().ok()) *)
Definition v_index (name : string) : option N :=
  match name with
  | String "v"%char d => parse_usize d
  | _ => None
  end.

Definition scan (t : term) (next : N) : N :=
  match t with
  | Var name => match v_index name with
                | Some n => N.max next (N.succ n)
                | None => next
                end
  | Cst _ => next
  end.
Definition first_fresh_variable_index (q : atom) : N :=
  let '(s, p, o) := q in scan o (scan p (scan s 0%N)).

(* rename_rule_variables *)
Definition var_map := list (string * string).

Definition rename_term (t : term) (st : var_map * N) : term * (var_map * N) :=
  match t with
  | Var v =>
    match lookup v (fst st) with
    | Some nv => (Var nv, st)
    | None => let nv := gen_name (snd st) in (Var nv, ((v, nv) :: fst st, N.succ (snd st)))
    end
  | Cst c => (Cst c, st)
  end.

Definition rename_atom (a : atom) (st : var_map * N) : atom * (var_map * N) :=
  let '(s, p, o) := a in
  let '(s', st1) := rename_term s st in
  let '(p', st2) := rename_term p st1 in
  let '(o', st3) := rename_term o st2 in
  ((s', p', o'), st3).

Fixpoint rename_atoms (l : list atom) (st : var_map * N) : list atom * (var_map * N) :=
  match l with
  | [] => ([], st)
  | a :: l' =>
    let '(a', st1) := rename_atom a st in
    let '(l'', st2) := rename_atoms l' st1 in
    (a' :: l'', st2)
  end.

(* var_map.get(name).cloned().unwrap_or_else(|| name.clone()) *)
Definition rename_name (vm : var_map) (x : string) : string :=
  match lookup x vm with Some y => y | None => x end.
Definition rename_filter (vm : var_map) (f : fcond) : fcond :=
  Filter (rename_name vm (fvar f)) (fop f)
         (match fval f with FVar y => FVar (rename_name vm y) | FNum z => FNum z end).

Definition rename_rule_variables (r : rule) (counter : N) : rule * N :=
  let '(ps, st1) := rename_atoms (prem r) ([], counter) in
  let '(cs, st2) := rename_atoms (concl r) st1 in
  (Rule ps cs (map (rename_filter (fst st2)) (filters r)), snd st2).

(* ---- filters (rules.rs evaluate_filters, backward_chaining.rs filters_hold) ------------------------------ *)
(* true = the comparison accepts *)
Definition cmp_num (op : cmp) (a b : Z) : bool :=
  match op with
  | CGt => Z.ltb b a
  | CLt => Z.ltb a b
  | CGe => Z.leb b a
  | CLe => Z.leb a b
  | CEq => Z.eqb a b
  | CNe => negb (Z.eqb a b)
  end.
(* two bound variables (7537bd2): = and != compare identifiers, the order operators the numeric values *)
Definition cmp_var (num : N -> Z) (op : cmp) (a b : N) : bool :=
  match op with
  | CEq => N.eqb a b
  | CNe => negb (N.eqb a b)
  | _ => cmp_num op (num a) (num b)
  end.

(* bindings.keys().filter_map(|name| match resolve_term(Var(name)) { Constant(id) => Some((name, id)), _ => None }) *)
Definition ground_map (th : subst) : list (string * N) :=
  flat_map (fun e => match resolve_term th (Var (fst e)) with
                     | Cst c => [(fst e, c)]
                     | Var _ => []
                     end) th.

Definition eval_filter (num : N -> Z) (g : list (string * N)) (f : fcond) : bool :=
  match lookup (fvar f) g with
  | Some lhs =>
    match fval f with
    | FVar y => match lookup y g with
                | Some rhs => cmp_var num (fop f) lhs rhs
                | None => cmp_num (fop f) (num lhs) 0%Z
                end
    | FNum z => cmp_num (fop f) (num lhs) z
    end
  | None => true
  end.
Definition evaluate_filters (num : N -> Z) (g : list (string * N)) (fs : list fcond) : bool :=
  forallb (eval_filter num g) fs.
Definition filters_hold (num : N -> Z) (fs : list fcond) (th : subst) : bool :=
  match fs with
  | [] => true
  | _ => evaluate_filters num (ground_map th) fs
  end.

Definition fact_pattern (f : fact) : atom := let '(s, p, o) := f in (Cst s, Cst p, Cst o).

(* ---- the search ---------------------------------------------------------------------------------------- *)
Section Search.
  Variable num : N -> Z.   (* numeric value of a dictionary entry *)
  Variable facts : list fact.
  Variable rules : list rule.
  (* the recursive call backward_chaining_helper(prem, b, depth + 1, counter) *)
  Variable rec : atom -> subst -> N -> list subst * N.

  (* for b in &premise_results { sub_res = helper(prem, b, ..); new_premise_results.extend(sub_res) } *)
  Fixpoint solve_each (p : atom) (bs : list subst) (n : N) : list subst * N :=
    match bs with
    | [] => ([], n)
    | b :: bs' =>
      let '(r, n1) := rec p b n in
      let '(rs, n2) := solve_each p bs' n1 in
      (r ++ rs, n2)
    end.

  (* for prem in &renamed_rule.premise { ... premise_results = new_premise_results } *)
  Fixpoint solve_prems (ps : list atom) (bs : list subst) (n : N) : list subst * N :=
    match ps with
    | [] => (bs, n)
    | p :: ps' =>
      let '(bs', n1) := solve_each p bs n in
      solve_prems ps' bs' n1
    end.

  (* for conclusion in &renamed_rule.conclusion { if let Some(rb) = unify_patterns(conclusion, &substituted, bindings) .. } *)
  Fixpoint solve_concls (sq : atom) (th : subst) (ps : list atom) (fs : list fcond) (cs : list atom) (n : N)
    : list subst * N :=
    match cs with
    | [] => ([], n)
    | c :: cs' =>
      match unify_patterns c sq th with
      | Some rb =>
        let '(r, n1) := solve_prems ps [rb] n in
        (* results.extend(premise_results.into_iter().filter(|b| filters_hold(&renamed_rule.filters, b, &dict))) *)
        let kept := List.filter (filters_hold num fs) r in
        let '(rs, n2) := solve_concls sq th ps fs cs' n1 in
        (kept ++ rs, n2)
      | None => solve_concls sq th ps fs cs' n
      end
    end.

  (* for rule in &self.rules { let renamed_rule = rename_rule_variables(rule, counter); ... } *)
  Fixpoint solve_rules (sq : atom) (th : subst) (rs : list rule) (n : N) : list subst * N :=
    match rs with
    | [] => ([], n)
    | r :: rs' =>
      let '(rr, n1) := rename_rule_variables r n in
      let '(res, n2) := solve_concls sq th (prem rr) (filters rr) (concl rr) n1 in
      let '(rest, n3) := solve_rules sq th rs' n2 in
      (res ++ rest, n3)
    end.

  Fixpoint match_facts (sq : atom) (th : subst) (fs : list fact) : list subst :=
    match fs with
    | [] => []
    | f :: fs' =>
      match unify_patterns sq (fact_pattern f) th with
      | Some nb => nb :: match_facts sq th fs'
      | None => match_facts sq th fs'
      end
    end.

  Definition helper_body (q : atom) (th : subst) (n : N) : list subst * N :=
    let sq := substitute th q in
    let fr := match_facts sq th facts in
    let '(rr, n') := solve_rules sq th rules n in
    (fr ++ rr, n').
End Search.

(* `levels` = number of depths still allowed: the Rust helper at depth d is `helper (MAX_DEPTH + 1 - d)`;
   depth > MAX_DEPTH, i.e. levels = 0, returns nothing. *)
Fixpoint helper (num : N -> Z) (facts : list fact) (rules : list rule) (levels : nat) (q : atom) (th : subst) (n : N)
  : list subst * N :=
  match levels with
  | O => ([], n)
  | S k => helper_body num facts rules (helper num facts rules k) q th n
  end.

Definition MAX_DEPTH : nat := 10.

Definition backward_chaining (num : N -> Z) (facts : list fact) (rules : list rule) (q : atom) : list subst :=
  fst (helper num facts rules (S MAX_DEPTH) q [] (first_fresh_variable_index q)).

(* the observable of the property: resolve_term applied to the three goal positions *)
Definition apply_answer (th : subst) (q : atom) : atom :=
  let '(s, p, o) := q in (resolve_term th s, resolve_term th p, resolve_term th o).
Definition answers (num : N -> Z) (facts : list fact) (rules : list rule) (q : atom) : list atom :=
  map (fun th => apply_answer th q) (backward_chaining num facts rules q).
