(* C18 - entry points of the correspondence check (checks/c18.py). No proofs. *)
Require Import List NArith ZArith String Bool.
Require Import KV.Backward.Model KV.Backward.Spec.
Import ListNotations.

Definition num_of (tbl : list (N * Z)) (c : N) : Z :=
  match find (fun e => N.eqb (fst e) c) tbl with Some e => snd e | None => 0%Z end.

(* answers of the model: the goal with resolve_term applied, one entry per returned binding map *)
Definition run_bc (num : N -> Z) (F : list fact) (R : list rule) (q : atom) : list atom := answers num F R q.

(* function-level stream for the public resolve_term *)
Definition run_resolve (th : subst) (ts : list term) : list term := map (resolve_term th) ts.

(* the Spec oracle: every fact of the least model with its least derivation height; the boolean says that the
   fixpoint was reached within the fuel *)
Fixpoint heights_loop (num : N -> Z) (F : list fact) (R : list rule) (fuel : nat) (h : N)
         (db : list fact) (acc : list (fact * N)) : list (fact * N) * bool :=
  match fuel with
  | O => (acc, false)
  | S fu =>
    let db' := step num F R db in
    match filter (fun f => negb (fact_mem f db)) db' with
    | [] => (acc, true)
    | newf => heights_loop num F R fu (N.succ h) db' (acc ++ map (fun f => (f, N.succ h)) newf)
    end
  end.
Definition run_spec (tbl : list (N * Z)) (F : list fact) (R : list rule) (fuel : nat) : list (fact * N) * bool :=
  heights_loop (num_of tbl) F R fuel 0%N (dedup F) (map (fun f => (f, 0%N)) (dedup F)).

Definition run_classes (R : list rule) : bool * bool := (known_C18 R, safe_rules R).

Definition run_all (tbl : list (N * Z)) (fuel : nat) (F : list fact) (R : list rule) (q : atom) :=
  (run_bc (num_of tbl) F R q, run_spec tbl F R fuel, run_classes R, first_fresh_variable_index q).
