(* C18 - rename_rule_variables: the renamed rule is the image of the rule under an injective renaming whose
   range consists of the names v<m> with  counter-before <= m < counter-after. *)
Require Import List NArith String Bool Lia.
Require Import KV.Backward.Model KV.Backward.Spec KV.Backward.NameProofs KV.Backward.SubstProofs.
Import ListNotations.

Definition ren (vm : var_map) (t : term) : term :=
  match t with
  | Var x => match lookup x vm with Some y => Var y | None => Var x end
  | Cst c => Cst c
  end.
Definition ren_atom (vm : var_map) (a : atom) : atom :=
  let '(s, p, o) := a in (ren vm s, ren vm p, ren vm o).

Definition covered (vm : var_map) (t : term) : Prop :=
  match t with Var x => lookup x vm <> None | Cst _ => True end.
Definition covered_atom (vm : var_map) (a : atom) : Prop :=
  let '(s, p, o) := a in covered vm s /\ covered vm p /\ covered vm o.

Definition extends (vm vm' : var_map) : Prop := forall x y, lookup x vm = Some y -> lookup x vm' = Some y.

Record vm_ok (n0 n : N) (vm : var_map) : Prop := {
  vm_range : forall x y, In (x, y) vm -> exists m, y = gen_name m /\ (n0 <= m < n)%N;
  vm_inj : forall x x' y, In (x, y) vm -> In (x', y) vm -> x = x'
}.

Lemma extends_refl : forall vm, extends vm vm.
Proof. intros vm x y H. exact H. Qed.
Lemma extends_trans : forall a b c, extends a b -> extends b c -> extends a c.
Proof. intros a b c H1 H2 x y H. auto. Qed.

Lemma covered_extends : forall vm vm' t, extends vm vm' -> covered vm t -> covered vm' t.
Proof.
  intros vm vm' [x|c] He Hc; [|exact I]. cbn in *.
  destruct (lookup x vm) as [y|] eqn:E; [|congruence]. rewrite (He x y E). discriminate.
Qed.
Lemma covered_atom_extends : forall vm vm' a, extends vm vm' -> covered_atom vm a -> covered_atom vm' a.
Proof. intros vm vm' [[s p] o] He (H1 & H2 & H3). cbn. repeat split; eauto using covered_extends. Qed.

Lemma ren_extends : forall vm vm' t, extends vm vm' -> covered vm t -> ren vm' t = ren vm t.
Proof.
  intros vm vm' [x|c] He Hc; [|reflexivity]. cbn in *.
  destruct (lookup x vm) as [y|] eqn:E; [|congruence]. now rewrite (He x y E).
Qed.
Lemma ren_atom_extends : forall vm vm' a, extends vm vm' -> covered_atom vm a -> ren_atom vm' a = ren_atom vm a.
Proof.
  intros vm vm' [[s p] o] He (H1 & H2 & H3). cbn. now rewrite !(ren_extends vm vm') by assumption.
Qed.

Lemma vm_ok_mono : forall n0 n n' vm, (n <= n')%N -> vm_ok n0 n vm -> vm_ok n0 n' vm.
Proof.
  intros n0 n n' vm Hle [Hr Hi]. split; [|exact Hi].
  intros x y Hin. destruct (Hr x y Hin) as (m & -> & Hm). exists m. split; [reflexivity|lia].
Qed.

Lemma rename_term_spec : forall n0 t vm n t' vm' n',
    rename_term t (vm, n) = (t', (vm', n')) -> vm_ok n0 n vm -> (n0 <= n)%N ->
    vm_ok n0 n' vm' /\ (n <= n')%N /\ extends vm vm' /\ t' = ren vm' t /\ covered vm' t.
Proof.
  intros n0 [v|c] vm n t' vm' n' H Hok Hle; cbn in H.
  - destruct (lookup v vm) as [nv|] eqn:E.
    + injection H as <- <- <-. repeat split; try apply Hok; try lia; try apply extends_refl.
      * cbn. now rewrite E.
      * cbn. congruence.
    + injection H as <- <- <-. destruct Hok as [Hr Hi]. repeat split.
      * intros x y [Heq|Hin].
        -- injection Heq as <- <-. exists n. split; [reflexivity|lia].
        -- destruct (Hr x y Hin) as (m & -> & Hm). exists m. split; [reflexivity|lia].
      * intros x x' y [Heq|Hin] [Heq'|Hin'].
        -- congruence.
        -- injection Heq as <- <-. destruct (Hr x' _ Hin') as (m & Hm & Hlt). apply gen_name_inj in Hm. lia.
        -- injection Heq' as <- <-. destruct (Hr x _ Hin) as (m & Hm & Hlt). apply gen_name_inj in Hm. lia.
        -- eauto.
      * lia.
      * intros x y Hl. rewrite lookup_cons. destruct (String.eqb x v) eqn:Ex; [|exact Hl].
        apply String.eqb_eq in Ex. subst. congruence.
      * cbn. now rewrite String.eqb_refl.
      * cbn. rewrite String.eqb_refl. discriminate.
  - injection H as <- <- <-. repeat split; try apply Hok; try lia; apply extends_refl.
Qed.

Lemma rename_atom_spec : forall n0 a vm n a' vm' n',
    rename_atom a (vm, n) = (a', (vm', n')) -> vm_ok n0 n vm -> (n0 <= n)%N ->
    vm_ok n0 n' vm' /\ (n <= n')%N /\ extends vm vm' /\ a' = ren_atom vm' a /\ covered_atom vm' a.
Proof.
  intros n0 [[s p] o] vm n a' vm' n' H Hok Hle. unfold rename_atom in H.
  destruct (rename_term s (vm, n)) as [s' [vm1 n1]] eqn:E1.
  destruct (rename_term p (vm1, n1)) as [p' [vm2 n2]] eqn:E2.
  destruct (rename_term o (vm2, n2)) as [o' [vm3 n3]] eqn:E3.
  injection H as <- <- <-.
  destruct (rename_term_spec n0 _ _ _ _ _ _ E1 Hok Hle) as (Hok1 & L1 & X1 & -> & C1).
  destruct (rename_term_spec n0 _ _ _ _ _ _ E2 Hok1 ltac:(lia)) as (Hok2 & L2 & X2 & -> & C2).
  destruct (rename_term_spec n0 _ _ _ _ _ _ E3 Hok2 ltac:(lia)) as (Hok3 & L3 & X3 & -> & C3).
  repeat split; try apply Hok3; try lia.
  - eauto using extends_trans.
  - cbn. rewrite (ren_extends vm1 vm3 s), (ren_extends vm2 vm3 p); eauto using extends_trans.
  - eapply covered_extends; [|exact C1]. eauto using extends_trans.
  - eapply covered_extends; [|exact C2]. assumption.
  - assumption.
Qed.

Lemma rename_atoms_spec : forall n0 l vm n l' vm' n',
    rename_atoms l (vm, n) = (l', (vm', n')) -> vm_ok n0 n vm -> (n0 <= n)%N ->
    vm_ok n0 n' vm' /\ (n <= n')%N /\ extends vm vm' /\ l' = map (ren_atom vm') l /\ Forall (covered_atom vm') l.
Proof.
  intros n0 l. induction l as [|a l IH]; intros vm n l' vm' n' H Hok Hle; cbn in H.
  - injection H as <- <- <-. repeat split; try apply Hok; try lia; auto using extends_refl.
  - destruct (rename_atom a (vm, n)) as [a' [vm1 n1]] eqn:E1.
    destruct (rename_atoms l (vm1, n1)) as [l'' [vm2 n2]] eqn:E2.
    injection H as <- <- <-.
    destruct (rename_atom_spec n0 _ _ _ _ _ _ E1 Hok Hle) as (Hok1 & L1 & X1 & -> & C1).
    destruct (IH _ _ _ _ _ E2 Hok1 ltac:(lia)) as (Hok2 & L2 & X2 & -> & C2).
    repeat split; try apply Hok2; try lia.
    + eauto using extends_trans.
    + cbn. f_equal. symmetry. now apply ren_atom_extends.
    + constructor; [|assumption]. eapply covered_atom_extends; eauto.
Qed.

Lemma vm_ok_nil : forall n, vm_ok n n [].
Proof. intros n. split; intros; contradiction. Qed.

Lemma rename_rule_spec : forall r n rr n',
    rename_rule_variables r n = (rr, n') ->
    exists vm, vm_ok n n' vm /\ (n <= n')%N /\
               prem rr = map (ren_atom vm) (prem r) /\ concl rr = map (ren_atom vm) (concl r) /\
               Forall (covered_atom vm) (prem r) /\ Forall (covered_atom vm) (concl r) /\
               filters rr = map (rename_filter vm) (filters r).
Proof.
  intros r n rr n' H. unfold rename_rule_variables in H.
  destruct (rename_atoms (prem r) ([], n)) as [ps [vm1 n1]] eqn:E1.
  destruct (rename_atoms (concl r) (vm1, n1)) as [cs [vm2 n2]] eqn:E2.
  injection H as <- <-.
  destruct (rename_atoms_spec n _ _ _ _ _ _ E1 (vm_ok_nil n) ltac:(lia)) as (Hok1 & L1 & X1 & -> & C1).
  destruct (rename_atoms_spec n _ _ _ _ _ _ E2 Hok1 L1) as (Hok2 & L2 & X2 & -> & C2).
  exists vm2. cbn. repeat split; try apply Hok2; try lia; auto.
  - apply map_ext_in. intros a Ha. symmetry. apply ren_atom_extends; [assumption|].
    rewrite Forall_forall in C1. auto.
  - rewrite Forall_forall in *. intros a Ha. eapply covered_atom_extends; eauto.
Qed.

(* ---- reading a valuation of the renamed rule as a valuation of the rule, and back ------------------------- *)
(* pull back: mu x := nu (renamed x) *)
Definition pull (vm : var_map) (nu : valuation) : valuation :=
  fun x => match lookup x vm with Some y => nu y | None => nu x end.

Lemma eval_pull : forall vm nu t, eval (pull vm nu) t = eval nu (ren vm t).
Proof. intros vm nu [x|c]; cbn; [|reflexivity]. unfold pull. destruct (lookup x vm); reflexivity. Qed.
Lemma eval_atom_pull : forall vm nu a, eval_atom (pull vm nu) a = eval_atom nu (ren_atom vm a).
Proof. intros vm nu [[s p] o]. cbn. now rewrite !eval_pull. Qed.

(* push forward: nu1 y := mu x when y is the new name of x, nu y otherwise *)
Fixpoint rlookup (y : string) (vm : var_map) : option string :=
  match vm with
  | [] => None
  | (x, y') :: vm' => if String.eqb y y' then Some x else rlookup y vm'
  end.
Definition push (vm : var_map) (mu nu : valuation) : valuation :=
  fun y => match rlookup y vm with Some x => mu x | None => nu y end.

Lemma rlookup_In : forall y vm x, rlookup y vm = Some x -> In (x, y) vm.
Proof.
  induction vm as [|[x' y'] vm IH]; intros x H; cbn in *; [discriminate|].
  destruct (String.eqb y y') eqn:E.
  - apply String.eqb_eq in E. subst. injection H as ->. now left.
  - right. auto.
Qed.
Lemma rlookup_None : forall y vm x, rlookup y vm = None -> ~ In (x, y) vm.
Proof.
  induction vm as [|[x' y'] vm IH]; intros x H Hin; cbn in *; [contradiction|].
  destruct (String.eqb y y') eqn:E; [discriminate|].
  destruct Hin as [Heq|Hin]; [|eapply IH; eauto].
  injection Heq as -> ->. rewrite String.eqb_refl in E. discriminate.
Qed.

Lemma eval_push : forall n0 n vm mu nu t,
    vm_ok n0 n vm -> covered vm t -> eval (push vm mu nu) (ren vm t) = eval mu t.
Proof.
  intros n0 n vm mu nu [x|c] Hok Hc; [|reflexivity]. cbn in *.
  destruct (lookup x vm) as [y|] eqn:E; [|congruence]. cbn. unfold push.
  apply lookup_In in E.
  destruct (rlookup y vm) as [x'|] eqn:Er.
  - apply rlookup_In in Er. now rewrite (vm_inj _ _ _ Hok _ _ _ Er E).
  - exfalso. eapply rlookup_None; eauto.
Qed.
Lemma eval_atom_push : forall n0 n vm mu nu a,
    vm_ok n0 n vm -> covered_atom vm a -> eval_atom (push vm mu nu) (ren_atom vm a) = eval_atom mu a.
Proof.
  intros n0 n vm mu nu [[s p] o] Hok (H1 & H2 & H3). cbn.
  now rewrite !(eval_push n0 n) by assumption.
Qed.

Lemma push_below : forall n0 n vm mu nu y, vm_ok n0 n vm -> below n0 y -> push vm mu nu y = nu y.
Proof.
  intros n0 n vm mu nu y Hok Hb. unfold push.
  destruct (rlookup y vm) as [x|] eqn:Er; [|reflexivity].
  apply rlookup_In in Er. destruct (vm_range _ _ _ Hok _ _ Er) as (m & -> & Hm).
  specialize (Hb m eq_refl). lia.
Qed.

Lemma ren_below : forall n0 n vm t, vm_ok n0 n vm -> covered vm t -> term_below n (ren vm t).
Proof.
  intros n0 n vm [x|c] Hok Hc; [|exact I]. cbn in *.
  destruct (lookup x vm) as [y|] eqn:E; [|congruence]. cbn.
  apply lookup_In in E. destruct (vm_range _ _ _ Hok _ _ E) as (m & -> & Hm). apply below_gen. lia.
Qed.
Lemma ren_atom_below : forall n0 n vm a, vm_ok n0 n vm -> covered_atom vm a -> atom_below n (ren_atom vm a).
Proof. intros n0 n vm [[s p] o] Hok (H1 & H2 & H3). cbn. repeat split; eauto using ren_below. Qed.

(* ---- filters under renaming ------------------------------------------------------------------------------ *)
Lemma pull_name : forall vm nu x, pull vm nu x = nu (rename_name vm x).
Proof. intros vm nu x. unfold pull, rename_name. destruct (lookup x vm); reflexivity. Qed.

Lemma filter_holds_pull : forall num vm nu f,
    filter_holds num (pull vm nu) f = filter_holds num nu (rename_filter vm f).
Proof.
  intros num vm nu [x op [z|y]]; unfold filter_holds; cbn; now rewrite !pull_name.
Qed.

Lemma ren_var_name : forall vm x, ren vm (Var x) = Var (rename_name vm x).
Proof. intros vm x. cbn. unfold rename_name. destruct (lookup x vm); reflexivity. Qed.

Lemma push_name : forall n0 n vm mu nu x,
    vm_ok n0 n vm -> lookup x vm <> None -> push vm mu nu (rename_name vm x) = mu x.
Proof.
  intros n0 n vm mu nu x Hok Hc.
  pose proof (eval_push n0 n vm mu nu (Var x) Hok Hc) as H. now rewrite ren_var_name in H.
Qed.

Lemma filter_holds_push : forall num n0 n vm mu nu f,
    vm_ok n0 n vm -> (forall x, In x (filter_vars f) -> lookup x vm <> None) ->
    filter_holds num (push vm mu nu) (rename_filter vm f) = filter_holds num mu f.
Proof.
  intros num n0 n vm mu nu [x op [z|y]] Hok Hc; unfold filter_holds; cbn in *.
  - rewrite (push_name n0 n) by auto. reflexivity.
  - rewrite !(push_name n0 n) by auto. reflexivity.
Qed.

Lemma rename_name_below : forall n0 n vm x, vm_ok n0 n vm -> lookup x vm <> None -> below n (rename_name vm x).
Proof.
  intros n0 n vm x Hok Hc. pose proof (ren_below n0 n vm (Var x) Hok Hc) as H. now rewrite ren_var_name in H.
Qed.

Lemma filter_vars_rename : forall vm f, filter_vars (rename_filter vm f) = map (rename_name vm) (filter_vars f).
Proof. intros vm [x op [z|y]]; reflexivity. Qed.

Lemma covered_of_prem_var : forall vm ps x, Forall (covered_atom vm) ps -> In x (atoms_vars ps) -> lookup x vm <> None.
Proof.
  intros vm ps x Hc Hx. unfold atoms_vars in Hx. apply in_flat_map in Hx. destruct Hx as ([[s p] o] & Hp & Hx).
  rewrite Forall_forall in Hc. destruct (Hc _ Hp) as (C1 & C2 & C3).
  unfold atom_vars in Hx. rewrite !in_app_iff in Hx. destruct Hx as [Hx|[Hx|Hx]].
  - destruct s as [y|c]; [|contradiction]. destruct Hx as [<-|[]]. exact C1.
  - destruct p as [y|c]; [|contradiction]. destruct Hx as [<-|[]]. exact C2.
  - destruct o as [y|c]; [|contradiction]. destruct Hx as [<-|[]]. exact C3.
Qed.
