(* C18 - Backward chaining returns only entailed answers, and all shallow ones.
   This file contains only the property theorems; each is closed by `exact <lemma>` (or a vm_compute witness)
   and followed by Print Assumptions.  The lemmas live in NameProofs, SubstProofs, RenameProofs, SearchProofs,
   GroundProofs, SoundProofs, CompleteProofs, ExactProofs, SpecProofs.

   Vocabulary (Model.v / Spec.v):
     backward_chaining num F R q  the binding maps returned by the model of Reasoner::backward_chaining
                               (num c = numeric value of the dictionary entry c, used by filters)
     apply_answer th q         the goal with resolve_term applied to its three positions (the observable)
     eval_atom nu a            the ground instance of a under the valuation nu of ALL variable names
     derivable num F R h f     f has a derivation of height <= h (height 0: a stored fact)
     least_model num F R f     f has a derivation
     safe_rules R              every conclusion variable and every filter variable of a rule occurs in a premise
     known_C18 R               some rule carries a filter
   Goal variable names are arbitrary strings, including the names v<n> that the engine generates. *)
Require Import List NArith ZArith String Bool.
Require Import KV.Backward.Model KV.Backward.Spec KV.Backward.NameProofs KV.Backward.SubstProofs
        KV.Backward.SearchProofs KV.Backward.GroundProofs KV.Backward.SoundProofs KV.Backward.CompleteProofs
        KV.Backward.ExactProofs KV.Backward.SpecProofs.
Import ListNotations.

(* (1) Soundness.  For every fact set, every SAFE rule set (every conclusion variable and every filter variable
   occurs in a premise) - filters allowed, evaluated as rules.rs evaluate_filters does on ground instances - every
   goal, whatever its variables are called, and every returned binding map: every ground instance of the answer
   is a fact of the least model.  (C18_answers_ground: the answer has exactly one instance.) *)
Theorem C18_sound :
  forall (num : N -> Z) (F : list fact) (R : list rule) (q : atom) (th : subst),
    safe_rules R = true ->
    In th (backward_chaining num F R q) ->
    forall nu : valuation, least_model num F R (eval_atom nu (apply_answer th q)).
Proof. exact sound. Qed.
Print Assumptions C18_sound.

(* The same for rule sets without filters, safe or not. *)
Theorem C18_sound_unfiltered :
  forall (num : N -> Z) (F : list fact) (R : list rule) (q : atom) (th : subst),
    known_C18 R = false ->
    In th (backward_chaining num F R q) ->
    forall nu : valuation, least_model num F R (eval_atom nu (apply_answer th q)).
Proof. exact sound_unfiltered. Qed.
Print Assumptions C18_sound_unfiltered.

(* (3) Shallow completeness, safe rule sets with filters, all goal variable names.  The bound the code gives: the
   helper runs at depths 0..MAX_DEPTH (depth > MAX_DEPTH returns nothing) and a goal at depth d is answered from
   facts (height 0) or from a rule whose premises are solved at depth d+1; so exactly the derivations of height
   <= MAX_DEPTH = 10 are covered (at most 10 rule applications on any branch; a stored fact has height 0). *)
Theorem C18_complete_shallow :
  forall (num : N -> Z) (F : list fact) (R : list rule) (q : atom) (nu : valuation),
    safe_rules R = true ->
    derivable num F R MAX_DEPTH (eval_atom nu q) ->
    exists th, In th (backward_chaining num F R q) /\
               exists nu', eval_atom nu' (apply_answer th q) = eval_atom nu q.
Proof. exact complete_shallow. Qed.
Print Assumptions C18_complete_shallow.

Theorem C18_complete_shallow_unfiltered :
  forall (num : N -> Z) (F : list fact) (R : list rule) (q : atom) (nu : valuation),
    known_C18 R = false ->
    derivable num F R MAX_DEPTH (eval_atom nu q) ->
    exists th, In th (backward_chaining num F R q) /\
               exists nu', eval_atom nu' (apply_answer th q) = eval_atom nu q.
Proof. exact complete_shallow_unfiltered. Qed.
Print Assumptions C18_complete_shallow_unfiltered.

(* For safe rule sets every answer is ground: the goal with resolve_term applied is a fact. *)
Theorem C18_answers_ground :
  forall (num : N -> Z) (F : list fact) (R : list rule) (q : atom) (th : subst),
    safe_rules R = true -> In th (backward_chaining num F R q) -> ground_atom (apply_answer th q) = true.
Proof. exact answers_ground. Qed.
Print Assumptions C18_answers_ground.

(* The property as stated, for safe rule sets (with filters), on the observable `answers` (the list of goals with
   resolve_term applied, one per returned binding map): every answer is a fact of the least model that matches
   the goal, and every fact of the least model that matches the goal and has a derivation of height <= MAX_DEPTH
   is an answer. *)
Theorem C18_exact :
  forall (num : N -> Z) (F : list fact) (R : list rule) (q : atom),
    safe_rules R = true ->
    (forall a, In a (answers num F R q) ->
               exists f, a = fact_pattern f /\ least_model num F R f /\ matches_goal q f) /\
    (forall f, matches_goal q f -> derivable num F R MAX_DEPTH f -> In (fact_pattern f) (answers num F R q)).
Proof.
  intros num F R q Hs. split.
  - intros a. now apply answers_exact_sound.
  - intros f. now apply answers_exact_complete.
Qed.
Print Assumptions C18_exact.

(* The executable Spec used as oracle by the correspondence check is the inductive one. *)
Theorem C18_spec_level :
  forall (num : N -> Z) (F : list fact) (R : list rule) (h : nat) (f : fact),
    safe_rules R = true -> (In f (level num F R h) <-> derivable num F R h f).
Proof. exact level_correct. Qed.
Print Assumptions C18_spec_level.

(* resolve_term's recursion ends on every binding map the search returns (the model's fuel is not exhausted):
   the map is well-formed and resolution ends in a constant or an unbound variable. *)
Theorem C18_resolve_total :
  forall (num : N -> Z) (F : list fact) (R : list rule) (q : atom) (th : subst),
    In th (backward_chaining num F R q) ->
    wf th /\ forall t, root th (resolve_term th t).
Proof.
  intros num F R q th H. pose proof (backward_chaining_wf num F R q th H) as W.
  split; [exact W|]. intros t. now apply resolve_is_root.
Qed.
Print Assumptions C18_resolve_total.

(* The name encoding behind the repair c6d81bf, proved (not assumed): v<n> is injective in n, and the counter
   the search starts from lies above every goal variable of the form v<m>. *)
Theorem C18_fresh_names :
  (forall n m, gen_name n = gen_name m -> n = m) /\
  (forall q, atom_below (first_fresh_variable_index q) q) /\
  (forall n m, (n <= m)%N -> ~ below n (gen_name m)).
Proof. exact (conj gen_name_inj (conj first_fresh_below not_below_gen)). Qed.
Print Assumptions C18_fresh_names.

Open Scope string_scope.
Open Scope N_scope.

(* (2) regression of the repaired capture defect: goal (?v1 anc ?v0) over parent(a,b), parent(b,c) with the two
   ancestor rules returns all three answers (1 of 3 before c6d81bf). a=0 b=1 c=2 parent=10 anc=11 *)
Example C18_capture_witness :
  let F := [(0,10,1);(1,10,2)] in
  let R := [Rule [(Var "X", Cst 10, Var "Y")] [(Var "X", Cst 11, Var "Y")] [];
            Rule [(Var "X", Cst 10, Var "Y"); (Var "Y", Cst 11, Var "Z")] [(Var "X", Cst 11, Var "Z")] []] in
  answers (fun _ => 0%Z) F R (Var "v1", Cst 11, Var "v0") = [(Cst 0, Cst 11, Cst 1); (Cst 1, Cst 11, Cst 2); (Cst 0, Cst 11, Cst 2)]
  /\ answers (fun _ => 0%Z) F R (Var "X", Cst 11, Var "Y") = [(Cst 0, Cst 11, Cst 1); (Cst 1, Cst 11, Cst 2); (Cst 0, Cst 11, Cst 2)]
  /\ first_fresh_variable_index (Var "v1", Cst 11, Var "v0") = 2.
Proof. vm_compute. repeat split. Qed.

(* regression of the repaired filter defect (8d76413).  alice=0 bob=1 "30"=2 "12"=3 age=4 type=5 adult=6;
   rule (?X age ?A), FILTER(?A > 17) -> (?X type adult); the goal (?X type adult) returns alice only (alice and
   bob before the repair), and (bob type adult) is indeed not in the least model. *)
Definition w_num (c : N) : Z := if N.eqb c 2 then 30%Z else if N.eqb c 3 then 12%Z else 0%Z.
Definition w_F : list fact := [(0,4,2); (1,4,3)].
Definition w_R : list rule := [Rule [(Var "X", Cst 4, Var "A")] [(Var "X", Cst 5, Cst 6)] [Filter "A" CGt (FNum 17%Z)]].
Definition w_q : atom := (Var "X", Cst 5, Cst 6).

Theorem C18_filter_regression :
  known_C18 w_R = true /\ safe_rules w_R = true /\
  answers w_num w_F w_R w_q = [(Cst 0, Cst 5, Cst 6)] /\
  ~ least_model w_num w_F w_R (1, 5, 6).
Proof.
  split; [reflexivity|]. split; [reflexivity|]. split; [vm_compute; reflexivity|].
  intros [h H].
  inversion H as [h0 f Hin|h0 r c mu Hr Hc Hp Hf Eh Ef]; subst.
  - cbn in Hin. destruct Hin as [E|[E|[]]]; discriminate.
  - destruct Hr as [<-|[]]. destruct Hc as [<-|[]]. cbn in Ef. injection Ef as EX.
    specialize (Hp _ (or_introl eq_refl)). cbn in Hp. rewrite EX in Hp.
    inversion Hp as [h1 f Hin|h1 r c mu' Hr Hc Hp' Hf' Eh' Ef']; subst.
    + cbn in Hin. destruct Hin as [E|[E|[]]]; [discriminate|]. injection E as EA.
      cbn in Hf. unfold filter_holds in Hf. cbn in Hf. rewrite <- EA in Hf. vm_compute in Hf. discriminate.
    + destruct Hr as [<-|[]]. destruct Hc as [<-|[]]. cbn in Ef'. discriminate.
Qed.
Print Assumptions C18_filter_regression.

(* a filter that compares two variables by identifier: (?X p ?Y), FILTER(?X != ?Y) -> (?X q ?Y) *)
Example C18_var_filter_example :
  answers (fun _ => 0%Z) [(0,4,0); (0,4,1)] [Rule [(Var "X", Cst 4, Var "Y")] [(Var "X", Cst 5, Var "Y")] [Filter "X" CNe (FVar "Y")]]
          (Var "v0", Cst 5, Var "v1") = [(Cst 0, Cst 5, Cst 1)].
Proof. vm_compute. reflexivity. Qed.

(* order comparison between two variables uses their numeric values (7537bd2): "5"=0 "1"=1 a=2 p=3 q=4 *)
Example C18_var_order_filter_example :
  answers (fun c => if N.eqb c 0 then 5%Z else if N.eqb c 1 then 1%Z else 0%Z) [(0,3,1); (1,3,0); (1,3,1); (2,3,0)]
          [Rule [(Var "X", Cst 3, Var "Y")] [(Var "X", Cst 4, Var "Y")] [Filter "X" CLt (FVar "Y")]]
          (Var "s", Cst 4, Var "v0") = [(Cst 1, Cst 4, Cst 0); (Cst 2, Cst 4, Cst 0)].
Proof. vm_compute. reflexivity. Qed.

(* non-vacuity of C18_complete_shallow and C18_sound: a derived fact of height 2 *)
Example C18_example_derivable :
  let F := [(0,10,1);(1,10,2)] in
  let R := [Rule [(Var "X", Cst 10, Var "Y")] [(Var "X", Cst 11, Var "Y")] [];
            Rule [(Var "X", Cst 10, Var "Y"); (Var "Y", Cst 11, Var "Z")] [(Var "X", Cst 11, Var "Z")] []] in
  known_C18 R = false /\ safe_rules R = true /\ derivable (fun _ => 0%Z) F R MAX_DEPTH (0, 11, 2).
Proof.
  split; [reflexivity|]. split; [reflexivity|].
  apply (d_rule _ _ _ 9 (Rule [(Var "X", Cst 10, Var "Y"); (Var "Y", Cst 11, Var "Z")] [(Var "X", Cst 11, Var "Z")] [])
                (Var "X", Cst 11, Var "Z")
                (fun x => if String.eqb x "X" then 0 else if String.eqb x "Y" then 1 else 2)).
  - right. left. reflexivity.
  - left. reflexivity.
  - intros p [<-|[<-|[]]].
    + apply d_fact. left. reflexivity.
    + apply (d_rule _ _ _ 8 (Rule [(Var "X", Cst 10, Var "Y")] [(Var "X", Cst 11, Var "Y")] [])
                    (Var "X", Cst 11, Var "Y") (fun x => if String.eqb x "X" then 1 else 2)).
      * left. reflexivity.
      * left. reflexivity.
      * intros p [<-|[]]. apply d_fact. right. left. reflexivity.
      * reflexivity.
  - reflexivity.
Qed.
