(* C18 - shallow completeness of the depth-limited search (the lifting argument): every ground fact with a
   derivation of height <= h that is an instance of the goal under a valuation satisfying the current bindings
   is found by `helper` with h+1 levels, by a binding map satisfied by a valuation that agrees with the given one
   on every name below the counter.  This is where the renaming-apart of c6d81bf is used: generated names
   v<m> have m >= counter, so they are not below the counter and can be valued freely. *)
Require Import List NArith ZArith String Bool Lia.
Require Import KV.Backward.Model KV.Backward.Spec KV.Backward.NameProofs KV.Backward.SubstProofs
        KV.Backward.RenameProofs KV.Backward.SearchProofs KV.Backward.GroundProofs KV.Backward.SoundProofs.
Import ListNotations.

Definition agree_below (n : N) (nu nu' : valuation) : Prop := forall x, below n x -> nu' x = nu x.

Lemma agree_below_mono : forall n n' nu nu', (n <= n')%N -> agree_below n' nu nu' -> agree_below n nu nu'.
Proof. intros n n' nu nu' Hle H x Hx. apply H. eauto using below_mono. Qed.
Lemma agree_below_trans : forall n nu1 nu2 nu3, agree_below n nu1 nu2 -> agree_below n nu2 nu3 -> agree_below n nu1 nu3.
Proof. intros n nu1 nu2 nu3 H1 H2 x Hx. rewrite (H2 x Hx). now apply H1. Qed.
Lemma agree_below_refl : forall n nu, agree_below n nu nu.
Proof. intros n nu x _. reflexivity. Qed.

Lemma eval_agree : forall n nu nu' t, agree_below n nu nu' -> term_below n t -> eval nu' t = eval nu t.
Proof. intros n nu nu' [x|c] Ha Hb; cbn; auto. Qed.
Lemma eval_atom_agree : forall n nu nu' a, agree_below n nu nu' -> atom_below n a -> eval_atom nu' a = eval_atom nu a.
Proof.
  intros n nu nu' [[s p] o] Ha (H1 & H2 & H3). cbn.
  now rewrite (eval_agree n nu nu' s), (eval_agree n nu nu' p), (eval_agree n nu nu' o).
Qed.
Lemma sat_agree_below : forall n nu nu' th, agree_below n nu nu' -> subst_below n th -> sat nu th -> sat nu' th.
Proof.
  intros n nu nu' th Ha Hb Hs. eapply sat_agree; [|exact Hs].
  intros x t Hin. destruct (Hb x t Hin) as [B1 B2]. split; [now apply Ha|eapply eval_agree; eauto].
Qed.

Lemma filter_holds_agree : forall num nu nu' f,
    (forall x, In x (filter_vars f) -> nu' x = nu x) -> filter_holds num nu' f = filter_holds num nu f.
Proof.
  intros num nu nu' [x op [z|y]] H; unfold filter_holds; cbn in *.
  - now rewrite (H x (or_introl eq_refl)).
  - now rewrite (H x (or_introl eq_refl)), (H y (or_intror (or_introl eq_refl))).
Qed.

Lemma forallb_filter_holds_agree : forall num nu nu' fs,
    (forall f x, In f fs -> In x (filter_vars f) -> nu' x = nu x) ->
    forallb (filter_holds num nu') fs = forallb (filter_holds num nu) fs.
Proof.
  intros num nu nu' fs H. induction fs as [|f fs IH]; [reflexivity|]. cbn.
  rewrite (filter_holds_agree num nu nu' f) by (intros x Hx; apply (H f x); [now left|assumption]).
  f_equal. apply IH. intros g x Hg Hx. apply (H g x); [now right|assumption].
Qed.

Lemma forallb_push : forall num n0 n vm mu nu fs,
    vm_ok n0 n vm -> (forall f x, In f fs -> In x (filter_vars f) -> lookup x vm <> None) ->
    forallb (filter_holds num (push vm mu nu)) (map (rename_filter vm) fs) = forallb (filter_holds num mu) fs.
Proof.
  intros num n0 n vm mu nu fs Hok Hc. induction fs as [|f fs IH]; [reflexivity|]. cbn.
  rewrite (filter_holds_push num n0 n vm mu nu f Hok) by (intros x Hx; apply (Hc f x); [now left|assumption]).
  f_equal. apply IH. intros g x Hg Hx. apply (Hc g x); [now right|assumption].
Qed.

Section Complete.
  Variable num : N -> Z.
  Variable F : list fact.
  Variable R : list rule.
  Hypothesis Hmode : known_C18 R = false \/ safe_rules R = true.
  Let D := derivable num F R.

  Definition rec_complete (h : nat) (rec : atom -> subst -> N -> list subst * N) : Prop :=
    forall q th n nu, good n th -> atom_below n q -> sat nu th -> D h (eval_atom nu q) ->
                      exists th' nu', In th' (fst (rec q th n)) /\ sat nu' th' /\ agree_below n nu nu'.

  Section Nest.
    Variable rec : atom -> subst -> N -> list subst * N.
    Variable h : nat.
    Hypothesis Hinv : rec_inv rec.
    Hypothesis Hdet : safe_rules R = true -> rec_det rec.
    Hypothesis Hrec : rec_complete h rec.

    Lemma solve_each_complete : forall p bs n b nu,
        Forall (good n) bs -> atom_below n p -> In b bs -> sat nu b -> D h (eval_atom nu p) ->
        exists th' nu', In th' (fst (solve_each rec p bs n)) /\ sat nu' th' /\ agree_below n nu nu'.
    Proof.
      intros p bs. induction bs as [|b0 bs IH]; intros n b nu Hb Hp Hin Hs Hd; [contradiction|].
      cbn. destruct (rec p b0 n) as [r n1] eqn:E1. destruct (solve_each rec p bs n1) as [rs' n2] eqn:E2.
      inversion Hb as [|? ? Hb1 Hb2]; subst. cbn.
      destruct (Hinv _ _ _ _ _ Hb1 Hp E1) as [L1 _].
      destruct Hin as [<-|Hin].
      - destruct (Hrec p b0 n nu Hb1 Hp Hs Hd) as (th' & nu' & Hth' & Hs' & Ha). rewrite E1 in Hth'.
        exists th', nu'. split; [apply in_or_app; now left|auto].
      - destruct (IH n1 b nu (Forall_good_mono _ _ _ L1 Hb2) (atom_below_mono _ _ _ L1 Hp) Hin Hs Hd)
          as (th' & nu' & Hth' & Hs' & Ha). rewrite E2 in Hth'.
        exists th', nu'. split; [apply in_or_app; now right|]. split; [assumption|].
        eapply agree_below_mono; eauto.
    Qed.

    Lemma solve_prems_complete : forall ps bs n b nu,
        Forall (good n) bs -> Forall (atom_below n) ps -> In b bs -> sat nu b ->
        (forall p, In p ps -> D h (eval_atom nu p)) ->
        exists th' nu', In th' (fst (solve_prems rec ps bs n)) /\ sat nu' th' /\ agree_below n nu nu'.
    Proof.
      intros ps. induction ps as [|p ps IH]; intros bs n b nu Hb Hp Hin Hs Hd.
      - exists b, nu. cbn. auto using agree_below_refl.
      - cbn. destruct (solve_each rec p bs n) as [bs' n1] eqn:E1.
        inversion Hp as [|? ? Hp1 Hp2]; subst.
        destruct (solve_each_inv rec Hinv _ _ _ _ _ Hb Hp1 E1) as [L1 G1].
        destruct (solve_each_complete p bs n b nu Hb Hp1 Hin Hs (Hd p (or_introl eq_refl)))
          as (th1 & nu1 & Hth1 & Hs1 & Ha1). rewrite E1 in Hth1. cbn in Hth1.
        destruct (IH bs' n1 th1 nu1 G1 (Forall_below_mono _ _ _ L1 Hp2) Hth1 Hs1) as (th' & nu' & Hth' & Hs' & Ha').
        { intros p' Hp'. rewrite (eval_atom_agree n nu nu1); [apply Hd; now right|assumption|].
          rewrite Forall_forall in Hp2. auto. }
        exists th', nu'. split; [assumption|]. split; [assumption|].
        eapply agree_below_trans; [exact Ha1|]. eapply agree_below_mono; eauto.
    Qed.

    (* what is known about the filters of the renamed rule: none, or all their variables are determined once the
       premises are solved *)
    Definition filters_ready (ps : list atom) (fs : list fcond) : Prop :=
      fs = [] \/ (safe_rules R = true /\
                  forall th', Forall (det th') ps -> forall f x, In f fs -> In x (filter_vars f) -> det_term th' (Var x)).

    Lemma solve_concls_complete : forall sq th ps fs cs n c nu,
        good n th -> atom_below n sq -> Forall (atom_below n) ps -> Forall (atom_below n) cs ->
        (forall f x, In f fs -> In x (filter_vars f) -> below n x) -> filters_ready ps fs ->
        In c cs -> sat nu th -> eval_atom nu c = eval_atom nu sq ->
        (forall p, In p ps -> D h (eval_atom nu p)) ->
        forallb (filter_holds num nu) fs = true ->
        exists th' nu', In th' (fst (solve_concls num rec sq th ps fs cs n)) /\ sat nu' th' /\ agree_below n nu nu'.
    Proof.
      intros sq th ps fs cs. induction cs as [|c0 cs IH]; intros n c nu Hth Hsq Hps Hcs Hfb Hfr Hin Hs He Hd Hf; [contradiction|].
      inversion Hcs as [|? ? Hc1 Hc2]; subst. cbn.
      destruct Hin as [<-|Hin].
      - destruct (unify_patterns_complete nu c0 sq th Hs He) as (rb & Eu & Hsrb). rewrite Eu.
        destruct (solve_prems rec ps [rb] n) as [r n1] eqn:E1.
        destruct (solve_concls num rec sq th ps fs cs n1) as [rs' n2] eqn:E2. cbn.
        assert (Grb : good n rb).
        { destruct Hth as [W B]. split; [exact (unify_patterns_wf c0 sq th rb W Eu)|exact (unify_patterns_below n c0 sq th rb B Hc1 Hsq Eu)]. }
        destruct (solve_prems_inv rec Hinv _ _ _ _ _ (Forall_cons _ Grb (Forall_nil _)) Hps E1) as [L1 G1].
        destruct (solve_prems_complete ps [rb] n rb nu (Forall_cons _ Grb (Forall_nil _)) Hps (or_introl eq_refl) Hsrb Hd)
          as (th' & nu' & Hth' & Hs' & Ha). rewrite E1 in Hth'. cbn in Hth'.
        exists th', nu'. split; [|auto]. apply in_or_app. left. apply filter_In. split; [assumption|].
        destruct Hfr as [->|[Hsafe Hfd]]; [reflexivity|].
        rewrite Forall_forall in G1.
        rewrite (filters_hold_spec num th' nu' fs); [| apply (G1 th' Hth') | | assumption].
        + rewrite <- Hf. apply forallb_filter_holds_agree. intros f x Hf' Hx. apply Ha. now apply (Hfb f x).
        + apply Hfd. destruct (solve_prems_det rec (Hdet Hsafe) ps [rb] n th') as (b' & _ & _ & Hdd); [now rewrite E1|].
          exact Hdd.
      - destruct (unify_patterns c0 sq th) as [rb|] eqn:Eu.
        + destruct (solve_prems rec ps [rb] n) as [r n1] eqn:E1.
          destruct (solve_concls num rec sq th ps fs cs n1) as [rs' n2] eqn:E2. cbn.
          assert (Grb : good n rb).
          { destruct Hth as [W B]. split; [exact (unify_patterns_wf c0 sq th rb W Eu)|exact (unify_patterns_below n c0 sq th rb B Hc1 Hsq Eu)]. }
          destruct (solve_prems_inv rec Hinv _ _ _ _ _ (Forall_cons _ Grb (Forall_nil _)) Hps E1) as [L1 _].
          destruct (IH n1 c nu (good_mono _ _ _ L1 Hth) (atom_below_mono _ _ _ L1 Hsq) (Forall_below_mono _ _ _ L1 Hps)
                       (Forall_below_mono _ _ _ L1 Hc2)) as (th' & nu' & Hth' & Hs' & Ha); auto.
          { intros f x Hf' Hx. eapply below_mono; [exact L1|]. now apply (Hfb f x). }
          rewrite E2 in Hth'. exists th', nu'. split; [apply in_or_app; now right|]. split; [assumption|].
          eapply agree_below_mono; eauto.
        + now apply (IH n c nu).
    Qed.

    Lemma solve_rules_complete : forall sq th rs n r c nu mu,
        good n th -> atom_below n sq -> sat nu th ->
        incl rs R -> In r rs -> In c (concl r) -> eval_atom mu c = eval_atom nu sq ->
        (forall p, In p (prem r) -> D h (eval_atom mu p)) ->
        forallb (filter_holds num mu) (filters r) = true ->
        exists th' nu', In th' (fst (solve_rules num rec sq th rs n)) /\ sat nu' th' /\ agree_below n nu nu'.
    Proof.
      intros sq th rs. induction rs as [|r0 rs IH]; intros n r c nu mu Hth Hsq Hs Hincl Hin Hc He Hd Hf; [contradiction|].
      cbn. destruct (rename_rule_variables r0 n) as [rr n1] eqn:Er.
      destruct (solve_concls num rec sq th (prem rr) (filters rr) (concl rr) n1) as [res1 n2] eqn:E1.
      destruct (solve_rules num rec sq th rs n2) as [rest n3] eqn:E2. cbn.
      destruct (renamed_below _ _ _ _ Er) as (L0 & Bp & Bc).
      destruct (solve_concls_inv num rec Hinv _ _ _ _ _ _ _ _ (good_mono _ _ _ L0 Hth) (atom_below_mono _ _ _ L0 Hsq) Bp Bc E1) as [L1 _].
      destruct Hin as [<-|Hin].
      - destruct (rename_rule_spec _ _ _ _ Er) as (vm & Hok & _ & Epm & Ecl & Cp & Cc & Efl).
        assert (Hr : In r0 R) by (apply Hincl; now left).
        assert (Hcov : safe_rules R = true -> forall f x, In f (filters r0) -> In x (filter_vars f) -> lookup x vm <> None).
        { intros Hsafe f x Hf' Hx. eapply covered_of_prem_var; [exact Cp|].
          eapply safe_rule_filter_vars; eauto. eapply safe_rules_In; eauto. }
        set (nu1 := push vm mu nu).
        assert (A1 : agree_below n nu nu1) by (intros x Hx; unfold nu1; eapply push_below; eauto).
        assert (S1 : sat nu1 th) by (eapply sat_agree_below; eauto; apply Hth).
        rewrite Forall_forall in Cp, Cc.
        destruct (solve_concls_complete sq th (prem rr) (filters rr) (concl rr) n1 (ren_atom vm c) nu1) as (th' & nu' & Hth' & Hs' & Ha); auto.
        + now apply good_mono with n.
        + now apply atom_below_mono with n.
        + rewrite Efl. intros f x Hf' Hx. apply in_map_iff in Hf'. destruct Hf' as (f0 & <- & Hf0).
          rewrite filter_vars_rename in Hx. apply in_map_iff in Hx. destruct Hx as (x0 & <- & Hx0).
          destruct Hmode as [Hk|Hsafe]; [rewrite (unfiltered_rule R r0 Hk Hr) in Hf0; contradiction|].
          eapply rename_name_below; eauto.
        + destruct Hmode as [Hk|Hsafe].
          * left. now rewrite Efl, (unfiltered_rule R r0 Hk Hr).
          * right. split; [assumption|]. intros th' Hd'. rewrite Efl. apply renamed_filters_det; [eapply safe_rules_In; eauto|].
            now rewrite <- Epm.
        + rewrite Ecl. now apply in_map.
        + unfold nu1. rewrite (eval_atom_push n n1) by auto. rewrite He. symmetry. now apply (eval_atom_agree n).
        + intros p' Hp'. rewrite Epm in Hp'. apply in_map_iff in Hp'. destruct Hp' as (p & <- & Hp).
          unfold nu1. rewrite (eval_atom_push n n1) by auto. auto.
        + rewrite Efl. destruct Hmode as [Hk|Hsafe]; [now rewrite (unfiltered_rule R r0 Hk Hr)|].
          unfold nu1. rewrite (forallb_push num n n1 vm mu nu (filters r0) Hok (Hcov Hsafe)). exact Hf.
        + rewrite E1 in Hth'. exists th', nu'. split; [apply in_or_app; now left|]. split; [assumption|].
          eapply agree_below_trans; [exact A1|]. eapply agree_below_mono; eauto.
      - assert (L02 : (n <= n2)%N) by lia.
        assert (Hincl' : incl rs R) by (intros x Hx; apply Hincl; now right).
        destruct (IH n2 r c nu mu (good_mono _ _ _ L02 Hth) (atom_below_mono _ _ _ L02 Hsq) Hs Hincl' Hin Hc He Hd Hf)
          as (th' & nu' & Hth' & Hs' & Ha). rewrite E2 in Hth'.
        exists th', nu'. split; [apply in_or_app; now right|]. split; [assumption|].
        eapply agree_below_mono; eauto.
    Qed.
  End Nest.

  Lemma match_facts_complete : forall sq th fs f nu,
      In f fs -> sat nu th -> eval_atom nu sq = f -> exists th', In th' (match_facts sq th fs) /\ sat nu th'.
  Proof.
    intros sq th fs. induction fs as [|f0 fs IH]; intros f nu Hin Hs He; [contradiction|]. cbn.
    destruct Hin as [<-|Hin].
    - destruct (unify_patterns_complete nu sq (fact_pattern f0) th Hs) as (nb & Eu & Hsn).
      { now rewrite fact_pattern_eval. }
      rewrite Eu. exists nb. split; [now left|assumption].
    - destruct (IH f nu Hin Hs He) as (th' & Hth' & Hs').
      destruct (unify_patterns sq (fact_pattern f0) th); exists th'; split; auto. now right.
  Qed.

  Lemma helper_body_complete_fact : forall rec q th n nu,
      sat nu th -> In (eval_atom nu q) F ->
      exists th' nu', In th' (fst (helper_body num F R rec q th n)) /\ sat nu' th' /\ agree_below n nu nu'.
  Proof.
    intros rec q th n nu Hs Hin. unfold helper_body.
    destruct (solve_rules num rec (substitute th q) th R n) as [rr n1] eqn:E. cbn.
    destruct (match_facts_complete (substitute th q) th F _ nu Hin Hs) as (th' & Hth' & Hs').
    { now apply eval_substitute. }
    exists th', nu. split; [apply in_or_app; now left|]. split; [assumption|apply agree_below_refl].
  Qed.

  Lemma helper_complete : forall k, rec_complete k (helper num F R (S k)).
  Proof.
    induction k as [|k IH]; intros q th n nu Hth Hq Hs Hd.
    - inversion Hd as [h f Hin|]; subst. cbn [helper]. now apply helper_body_complete_fact.
    - change (helper num F R (S (S k))) with (helper_body num F R (helper num F R (S k))).
      inversion Hd as [h f Hin|h r c mu Hr Hc Hp Hf Eh Ef]; subst.
      + now apply helper_body_complete_fact.
      + unfold helper_body.
        destruct (solve_rules num (helper num F R (S k)) (substitute th q) th R n) as [rr n1] eqn:E. cbn.
        assert (Hsq : atom_below n (substitute th q)) by (apply substitute_below; [apply Hth|assumption]).
        destruct (solve_rules_complete (helper num F R (S k)) k (helper_inv num F R (S k))
                                       (fun Hs0 => helper_det num F R Hs0 (S k)) IH
                                       (substitute th q) th R n r c nu mu Hth Hsq Hs (incl_refl R) Hr Hc) as (th' & nu' & Hth' & Hs' & Ha).
        { rewrite Ef. symmetry. now apply eval_substitute. }
        { exact Hp. }
        { exact Hf. }
        rewrite E in Hth'. exists th', nu'. split; [apply in_or_app; now right|auto].
  Qed.

  (* every fact with a derivation of height <= MAX_DEPTH that is an instance of the goal is an instance of the
     goal under some returned binding map *)
  Lemma complete_mode : forall q nu,
      D MAX_DEPTH (eval_atom nu q) ->
      exists th, In th (backward_chaining num F R q) /\
                 exists nu', eval_atom nu' (apply_answer th q) = eval_atom nu q.
  Proof.
    intros q nu Hd. unfold backward_chaining.
    destruct (helper_complete MAX_DEPTH q [] (first_fresh_variable_index q) nu (good_nil _) (first_fresh_below q)
                              (sat_nil nu) Hd) as (th' & nu' & Hth' & Hs' & Ha).
    exists th'. split; [assumption|]. exists nu'.
    rewrite eval_apply_answer by assumption. eapply eval_atom_agree; eauto. apply first_fresh_below.
  Qed.
End Complete.

(* safe rule sets, filters allowed *)
Lemma complete_shallow : forall num F R q nu,
    safe_rules R = true -> derivable num F R MAX_DEPTH (eval_atom nu q) ->
    exists th, In th (backward_chaining num F R q) /\
               exists nu', eval_atom nu' (apply_answer th q) = eval_atom nu q.
Proof. intros num F R q nu Hs. apply complete_mode. now right. Qed.

(* rule sets without filters, safe or not *)
Lemma complete_shallow_unfiltered : forall num F R q nu,
    known_C18 R = false -> derivable num F R MAX_DEPTH (eval_atom nu q) ->
    exists th, In th (backward_chaining num F R q) /\
               exists nu', eval_atom nu' (apply_answer th q) = eval_atom nu q.
Proof. intros num F R q nu Hk. apply complete_mode. now left. Qed.
