(* C18 - specification: the least model of a positive Datalog program over triples, with derivation heights.

   derivable F R h f   f has a derivation tree of height <= h: height 0 = a stored fact; a rule application
                       whose premises have height <= h has height <= h+1.
   least_model F R f   f has a derivation of some height.
   Rule filters restrict rule instances with the semantics of rules.rs evaluate_filters on ground instances;
   `num` gives the numeric value of a constant.

   `level` is the executable counterpart (bottom-up immediate consequence, h rounds); SpecProofs.level_correct
   proves  In f (level num F R h) <-> derivable num F R h f  for safe rules. *)
Require Import List NArith ZArith String Bool.
Require Import KV.Backward.Model.
Import ListNotations.

Definition valuation := string -> N.
Definition eval (nu : valuation) (t : term) : N :=
  match t with Var x => nu x | Cst c => c end.
Definition eval_atom (nu : valuation) (a : atom) : fact :=
  let '(s, p, o) := a in (eval nu s, eval nu p, eval nu o).

(* evaluate_filters on a ground rule instance (every variable has a value): a numeric value compares the
   numeric value of the constant; a variable value compares identifiers for = and !=, numeric values for the
   four order operators *)
Definition filter_holds (num : N -> Z) (nu : valuation) (f : fcond) : bool :=
  match fval f with
  | FNum z => cmp_num (fop f) (num (nu (fvar f))) z
  | FVar y => cmp_var num (fop f) (nu (fvar f)) (nu y)
  end.

Inductive derivable (num : N -> Z) (F : list fact) (R : list rule) : nat -> fact -> Prop :=
| d_fact : forall h f, In f F -> derivable num F R h f
| d_rule : forall h r c nu,
    In r R -> In c (concl r) ->
    (forall p, In p (prem r) -> derivable num F R h (eval_atom nu p)) ->
    forallb (filter_holds num nu) (filters r) = true ->
    derivable num F R (S h) (eval_atom nu c).

Definition least_model (num : N -> Z) (F : list fact) (R : list rule) (f : fact) : Prop :=
  exists h, derivable num F R h f.

(* ---- safety ----------------------------------------------------------------------------------------------- *)
Definition term_vars (t : term) : list string := match t with Var x => [x] | Cst _ => [] end.
Definition atom_vars (a : atom) : list string :=
  let '(s, p, o) := a in term_vars s ++ term_vars p ++ term_vars o.
Definition atoms_vars (l : list atom) : list string := flat_map atom_vars l.
Definition mem (x : string) (l : list string) : bool := existsb (String.eqb x) l.
Definition filter_vars (f : fcond) : list string :=
  fvar f :: match fval f with FVar y => [y] | FNum _ => [] end.
(* every conclusion variable and every filter variable occurs in a premise *)
Definition safe_rule (r : rule) : bool :=
  forallb (fun x => mem x (atoms_vars (prem r))) (atoms_vars (concl r)) &&
  forallb (fun f => forallb (fun x => mem x (atoms_vars (prem r))) (filter_vars f)) (filters r).
Definition safe_rules (R : list rule) : bool := forallb safe_rule R.

(* some rule carries a filter (class of the former finding C18-filters-ignored, repaired by 8d76413; kept because
   rule sets without filters need no safety hypothesis) *)
Definition known_C18 (R : list rule) : bool :=
  existsb (fun r => match filters r with [] => false | _ => true end) R.

Definition ground_term (t : term) : bool := match t with Cst _ => true | Var _ => false end.
Definition ground_atom (a : atom) : bool :=
  let '(s, p, o) := a in ground_term s && ground_term p && ground_term o.

(* ---- executable least model ------------------------------------------------------------------------------ *)
Definition env := list (string * N).

Definition match_term (t : term) (c : N) (e : env) : option env :=
  match t with
  | Cst c' => if N.eqb c c' then Some e else None
  | Var x => match lookup x e with
             | Some c' => if N.eqb c c' then Some e else None
             | None => Some ((x, c) :: e)
             end
  end.
Definition match_atom (a : atom) (f : fact) (e : env) : option env :=
  let '(s, p, o) := a in
  let '(fs, fp, fo) := f in
  match match_term s fs e with
  | None => None
  | Some e1 => match match_term p fp e1 with
               | None => None
               | Some e2 => match_term o fo e2
               end
  end.

Fixpoint match_prems (ps : list atom) (db : list fact) (e : env) : list env :=
  match ps with
  | [] => [e]
  | p :: ps' =>
    flat_map (fun f => match match_atom p f e with
                       | Some e' => match_prems ps' db e'
                       | None => []
                       end) db
  end.

Definition env_val (e : env) : valuation := fun x => match lookup x e with Some c => c | None => 0%N end.

Definition fact_eqb (a b : fact) : bool :=
  let '(a1, a2, a3) := a in let '(b1, b2, b3) := b in N.eqb a1 b1 && N.eqb a2 b2 && N.eqb a3 b3.
Definition fact_mem (f : fact) (l : list fact) : bool := existsb (fact_eqb f) l.
Fixpoint dedup (l : list fact) : list fact :=
  match l with
  | [] => []
  | f :: l' => if fact_mem f l' then dedup l' else f :: dedup l'
  end.

Definition rule_consequences (num : N -> Z) (db : list fact) (r : rule) : list fact :=
  flat_map (fun e =>
              if forallb (filter_holds num (env_val e)) (filters r)
              then map (eval_atom (env_val e)) (concl r)
              else [])
           (match_prems (prem r) db []).

Definition step (num : N -> Z) (F : list fact) (R : list rule) (db : list fact) : list fact :=
  dedup (F ++ flat_map (rule_consequences num db) R).

Fixpoint level (num : N -> Z) (F : list fact) (R : list rule) (h : nat) : list fact :=
  match h with
  | O => dedup F
  | S h' => step num F R (level num F R h')
  end.
