(* C18 - binding maps: semantic reading (a valuation satisfies a map), the well-formedness invariant under which
   resolve_term's fuel is never exhausted, and soundness / completeness / invariant preservation of unification. *)
Require Import List NArith String Bool Lia.
Require Import KV.Backward.Model KV.Backward.Spec KV.Backward.NameProofs.
Import ListNotations.

Lemma lookup_cons : forall A x y (t : A) l,
    lookup x ((y, t) :: l) = if String.eqb x y then Some t else lookup x l.
Proof. reflexivity. Qed.

Lemma lookup_In : forall A x (l : list (string * A)) t, lookup x l = Some t -> In (x, t) l.
Proof.
  induction l as [|[y u] l IH]; intros t H; cbn in *; [discriminate|].
  destruct (String.eqb x y) eqn:E.
  - apply String.eqb_eq in E. subst. injection H as ->. now left.
  - right. auto.
Qed.

Lemma lookup_None_notin : forall A x (l : list (string * A)) t, lookup x l = None -> ~ In (x, t) l.
Proof.
  induction l as [|[y u] l IH]; intros t H Hin; cbn in *; [contradiction|].
  destruct (String.eqb x y) eqn:E; [discriminate|].
  destruct Hin as [Heq|Hin]; [|eapply IH; eauto].
  injection Heq as -> ->. rewrite String.eqb_refl in E. discriminate.
Qed.

(* ---- a valuation satisfies a binding map -------------------------------------------------------------- *)
Definition sat (nu : valuation) (th : subst) : Prop := forall x t, In (x, t) th -> nu x = eval nu t.

Lemma sat_nil : forall nu, sat nu [].
Proof. intros nu x t []. Qed.

Lemma sat_cons : forall nu x t th, sat nu ((x, t) :: th) <-> (nu x = eval nu t /\ sat nu th).
Proof.
  intros nu x t th. split.
  - intros H. split; [apply H; now left|]. intros y u Hin. apply H. now right.
  - intros [H1 H2] y u [Heq|Hin]; [injection Heq as <- <-; exact H1|auto].
Qed.

Lemma eval_resolve_fuel : forall nu th, sat nu th -> forall f t, eval nu (resolve_fuel f th t) = eval nu t.
Proof.
  intros nu th Hs f. induction f as [|f IH]; intros t; cbn; [reflexivity|].
  destruct t as [v|c]; [|reflexivity].
  destruct (lookup v th) as [b|] eqn:E; [|reflexivity].
  rewrite IH. symmetry. apply (Hs v b). now apply lookup_In.
Qed.

Lemma eval_resolve : forall nu th t, sat nu th -> eval nu (resolve_term th t) = eval nu t.
Proof. intros. now apply eval_resolve_fuel. Qed.

Lemma eval_substitute : forall nu th q, sat nu th -> eval_atom nu (substitute th q) = eval_atom nu q.
Proof.
  intros nu th [[s p] o] H. unfold substitute, substitute_term, eval_atom.
  now rewrite !eval_resolve_fuel.
Qed.

Lemma eval_apply_answer : forall nu th q, sat nu th -> eval_atom nu (apply_answer th q) = eval_atom nu q.
Proof.
  intros nu th [[s p] o] H. unfold apply_answer, eval_atom. now rewrite !eval_resolve.
Qed.

Lemma sat_agree : forall nu nu' th,
    (forall x t, In (x, t) th -> nu' x = nu x /\ eval nu' t = eval nu t) -> sat nu th -> sat nu' th.
Proof.
  intros nu nu' th Hag Hs x t Hin. destruct (Hag x t Hin) as [H1 H2]. rewrite H1, H2. now apply Hs.
Qed.

(* ---- well-formed binding maps -------------------------------------------------------------------------- *)
Definition root (th : subst) (t : term) : Prop :=
  match t with Var x => lookup x th = None | Cst _ => True end.

(* how unify_terms grows a map: the new key is unbound, the new value is an unbound variable other than the
   key, or a constant *)
Inductive wf : subst -> Prop :=
| wf_nil : wf []
| wf_cons : forall x t th, wf th -> lookup x th = None -> root th t -> t <> Var x -> wf ((x, t) :: th).

Definition post (x : string) (b : term) (r : term) : term :=
  match r with
  | Var y => if String.eqb y x then b else r
  | Cst _ => r
  end.
(* fuel-free resolution: oldest binding first *)
Fixpoint rs (th : subst) (t : term) : term :=
  match th with
  | [] => t
  | (x, b) :: th' => post x b (rs th' t)
  end.

Lemma resolve_fuel_root : forall th f t, root th t -> resolve_fuel f th t = t.
Proof.
  intros th [|f] t H; cbn; [reflexivity|]. destruct t as [v|c]; [|reflexivity]. cbn in H. now rewrite H.
Qed.

Lemma resolve_cons_step : forall x b th,
    lookup x th = None -> root ((x, b) :: th) b ->
    forall f u, root th (resolve_fuel f th u) ->
                resolve_fuel (S f) ((x, b) :: th) u = post x b (resolve_fuel f th u).
Proof.
  intros x b th Hx Hb f. induction f as [|f IH]; intros u Hr.
  - cbn in Hr. destruct u as [y|c]; [|reflexivity].
    cbn [resolve_fuel post]. rewrite lookup_cons. cbn in Hr.
    destruct (String.eqb y x) eqn:E; [reflexivity|]. now rewrite Hr.
  - destruct u as [y|c]; [|reflexivity].
    change (resolve_fuel (S (S f)) ((x, b) :: th) (Var y))
      with (match lookup y ((x, b) :: th) with Some c => resolve_fuel (S f) ((x, b) :: th) c | None => Var y end).
    change (resolve_fuel (S f) th (Var y))
      with (match lookup y th with Some c => resolve_fuel f th c | None => Var y end) in *.
    rewrite lookup_cons. destruct (String.eqb y x) eqn:E.
    + apply String.eqb_eq in E. subst y. rewrite Hx. cbn [post]. rewrite String.eqb_refl.
      now apply resolve_fuel_root.
    + destruct (lookup y th) as [c|] eqn:El.
      * now apply IH.
      * cbn [post]. now rewrite E.
Qed.

Lemma root_cons_value : forall x b th, root th b -> b <> Var x -> root ((x, b) :: th) b.
Proof.
  intros x b th Hr Hne. destruct b as [y|c]; [|exact I]. cbn in *.
  destruct (String.eqb y x) eqn:E; [|exact Hr]. apply String.eqb_eq in E. subst. congruence.
Qed.

Lemma resolve_rs : forall th, wf th ->
    forall f t, (List.length th < f)%nat -> resolve_fuel f th t = rs th t /\ root th (rs th t).
Proof.
  induction 1 as [|x b th Hwf IH Hx Hb Hne]; intros f t Hf.
  - cbn [rs]. split.
    + destruct f as [|f]; [reflexivity|]. destruct t; reflexivity.
    + destruct t; cbn; auto.
  - cbn [List.length] in Hf. destruct f as [|f0]; [lia|].
    assert (Hf0 : (List.length th < f0)%nat) by lia.
    destruct (IH f0 t Hf0) as [He Hr].
    cbn [rs]. split.
    + rewrite resolve_cons_step; auto using root_cons_value.
      * now rewrite He.
      * now rewrite He.
    + destruct (rs th t) as [y|c] eqn:Er; [|exact I].
      cbn [post]. destruct (String.eqb y x) eqn:E.
      * now apply root_cons_value.
      * cbn. rewrite E. exact Hr.
Qed.

Lemma resolve_term_rs : forall th t, wf th -> resolve_term th t = rs th t.
Proof. intros th t H. unfold resolve_term. apply resolve_rs; auto. Qed.

(* the fuel of resolve_term is never exhausted on a well-formed map: the result is a constant or an unbound
   variable *)
Lemma resolve_is_root : forall th t, wf th -> root th (resolve_term th t).
Proof. intros th t H. rewrite resolve_term_rs by assumption. apply (resolve_rs th H (S (List.length th))). lia. Qed.

Lemma rs_root : forall th t, root th t -> rs th t = t.
Proof.
  induction th as [|[y c] th IH]; intros t H; [reflexivity|].
  cbn [rs]. destruct t as [x|k].
  - cbn in H. destruct (String.eqb x y) eqn:E; [discriminate|].
    rewrite IH by exact H. cbn. now rewrite E.
  - rewrite IH by exact I. reflexivity.
Qed.

Lemma rs_bound : forall th, wf th -> forall x t, In (x, t) th -> rs th (Var x) = rs th t.
Proof.
  induction 1 as [|x0 b0 th Hwf IH Hx Hb Hne]; intros x t Hin; [contradiction|].
  cbn [rs]. destruct Hin as [Heq|Hin].
  - injection Heq as <- <-.
    rewrite (rs_root th (Var x0)) by exact Hx. rewrite (rs_root th b0) by exact Hb.
    cbn [post]. rewrite String.eqb_refl.
    destruct b0 as [y|c]; [|reflexivity]. cbn.
    destruct (String.eqb y x0) eqn:E; [|reflexivity]. apply String.eqb_eq in E. subst. congruence.
  - now rewrite (IH x t Hin).
Qed.

(* every valuation, composed with a well-formed map, satisfies the map *)
Definition compose (nu : valuation) (th : subst) : valuation := fun x => eval nu (rs th (Var x)).

Lemma rs_cst : forall th c, rs th (Cst c) = Cst c.
Proof. intros. now apply rs_root. Qed.

Lemma eval_compose : forall nu th t, eval (compose nu th) t = eval nu (rs th t).
Proof. intros nu th [x|c]; cbn; [reflexivity|]. now rewrite rs_cst. Qed.

Lemma sat_compose : forall nu th, wf th -> sat (compose nu th) th.
Proof.
  intros nu th Hwf x t Hin. rewrite eval_compose. unfold compose. now rewrite (rs_bound th Hwf x t Hin).
Qed.

Lemma eval_atom_compose : forall nu th q, wf th ->
    eval_atom (compose nu th) q = eval_atom nu (apply_answer th q).
Proof.
  intros nu th [[s p] o] Hwf. unfold apply_answer, eval_atom.
  now rewrite !eval_compose, !resolve_term_rs.
Qed.

(* ---- names occurring in a map --------------------------------------------------------------------------- *)
Definition subst_below (n : N) (th : subst) : Prop :=
  forall x t, In (x, t) th -> below n x /\ term_below n t.

Lemma subst_below_mono : forall n n' th, (n <= n')%N -> subst_below n th -> subst_below n' th.
Proof.
  intros n n' th Hle H x t Hin. destruct (H x t Hin). split; eauto using below_mono, term_below_mono.
Qed.

Lemma resolve_fuel_cases : forall th f t, resolve_fuel f th t = t \/ exists x, In (x, resolve_fuel f th t) th.
Proof.
  intros th f. induction f as [|f IH]; intros t; cbn; [now left|].
  destruct t as [v|c]; [|now left].
  destruct (lookup v th) as [b|] eqn:E; [|now left].
  right. destruct (IH b) as [H|H]; [|exact H]. rewrite H. exists v. now apply lookup_In.
Qed.

Lemma resolve_below : forall n th t, subst_below n th -> term_below n t -> term_below n (resolve_term th t).
Proof.
  intros n th t Hs Ht. unfold resolve_term.
  destruct (resolve_fuel_cases th (S (List.length th)) t) as [H|[x H]]; [now rewrite H|].
  now apply (Hs x _ H).
Qed.

Lemma substitute_below : forall n th q, subst_below n th -> atom_below n q -> atom_below n (substitute th q).
Proof.
  intros n th [[s p] o] Hs (H1 & H2 & H3). unfold substitute, substitute_term, atom_below.
  repeat split; apply resolve_below; assumption.
Qed.

(* ---- unification ---------------------------------------------------------------------------------------- *)
Lemma unify_terms_sound : forall nu t1 t2 th th',
    unify_terms t1 t2 th = Some th' -> sat nu th' -> sat nu th /\ eval nu t1 = eval nu t2.
Proof.
  intros nu t1 t2 th th' H Hs. unfold unify_terms in H.
  assert (E : forall (Hth : sat nu th), eval nu (resolve_term th t1) = eval nu (resolve_term th t2) ->
                                        eval nu t1 = eval nu t2).
  { intros Hth He. now rewrite !eval_resolve in He. }
  destruct (resolve_term th t1) as [v1|c1] eqn:E1, (resolve_term th t2) as [v2|c2] eqn:E2.
  - destruct (String.eqb v1 v2) eqn:Ev; injection H as <-.
    + apply String.eqb_eq in Ev. subst. split; [assumption|]. now apply E.
    + unfold bind in Hs. apply sat_cons in Hs. destruct Hs as [Hv Hs]. split; [assumption|]. now apply E.
  - injection H as <-. unfold bind in Hs. apply sat_cons in Hs. destruct Hs as [Hv Hs]. split; [assumption|]. now apply E.
  - injection H as <-. unfold bind in Hs. apply sat_cons in Hs. destruct Hs as [Hv Hs]. split; [assumption|].
    apply E; [assumption|]. cbn in *. congruence.
  - destruct (N.eqb c1 c2) eqn:Ec; [|discriminate]. injection H as <-. apply N.eqb_eq in Ec. subst.
    split; [assumption|]. now apply E.
Qed.

Lemma unify_terms_complete : forall nu t1 t2 th,
    sat nu th -> eval nu t1 = eval nu t2 -> exists th', unify_terms t1 t2 th = Some th' /\ sat nu th'.
Proof.
  intros nu t1 t2 th Hs He. unfold unify_terms.
  rewrite <- (eval_resolve nu th t1 Hs), <- (eval_resolve nu th t2 Hs) in He.
  destruct (resolve_term th t1) as [v1|c1], (resolve_term th t2) as [v2|c2]; cbn in He.
  - destruct (String.eqb v1 v2); eexists; split; try reflexivity; [assumption|].
    unfold bind. apply sat_cons. now split.
  - eexists; split; [reflexivity|]. unfold bind. apply sat_cons. now split.
  - eexists; split; [reflexivity|]. unfold bind. apply sat_cons. split; [now symmetry|assumption].
  - subst. rewrite N.eqb_refl. eexists; split; [reflexivity|assumption].
Qed.

Lemma unify_terms_wf : forall t1 t2 th th', wf th -> unify_terms t1 t2 th = Some th' -> wf th'.
Proof.
  intros t1 t2 th th' Hwf H. unfold unify_terms in H.
  pose proof (resolve_is_root th t1 Hwf) as R1. pose proof (resolve_is_root th t2 Hwf) as R2.
  destruct (resolve_term th t1) as [v1|c1], (resolve_term th t2) as [v2|c2].
  - destruct (String.eqb v1 v2) eqn:Ev; injection H as <-; [assumption|].
    constructor; auto. intros Heq. injection Heq as ->. rewrite String.eqb_refl in Ev. discriminate.
  - injection H as <-. constructor; auto; try exact I; try discriminate.
  - injection H as <-. constructor; auto; try exact I; try discriminate.
  - destruct (N.eqb c1 c2); [|discriminate]. now injection H as <-.
Qed.

Lemma unify_terms_below : forall n t1 t2 th th',
    subst_below n th -> term_below n t1 -> term_below n t2 ->
    unify_terms t1 t2 th = Some th' -> subst_below n th'.
Proof.
  intros n t1 t2 th th' Hs H1 H2 H. unfold unify_terms in H.
  pose proof (resolve_below n th t1 Hs H1) as R1. pose proof (resolve_below n th t2 Hs H2) as R2.
  assert (Hb : forall v t, term_below n (Var v) -> term_below n t -> subst_below n (bind v t th)).
  { intros v t Hv Ht x u [Heq|Hin]; [injection Heq as <- <-; now split|now apply Hs]. }
  destruct (resolve_term th t1) as [v1|c1], (resolve_term th t2) as [v2|c2].
  - destruct (String.eqb v1 v2); injection H as <-; auto.
  - injection H as <-. auto.
  - injection H as <-. auto.
  - destruct (N.eqb c1 c2); [|discriminate]. now injection H as <-.
Qed.

Lemma unify_patterns_sound : forall nu p1 p2 th th',
    unify_patterns p1 p2 th = Some th' -> sat nu th' -> sat nu th /\ eval_atom nu p1 = eval_atom nu p2.
Proof.
  intros nu [[s1 q1] o1] [[s2 q2] o2] th th' H Hs. unfold unify_patterns in H.
  destruct (unify_terms s1 s2 th) as [th1|] eqn:E1; [|discriminate].
  destruct (unify_terms q1 q2 th1) as [th2|] eqn:E2; [|discriminate].
  destruct (unify_terms_sound nu _ _ _ _ H Hs) as [Hs2 He3].
  destruct (unify_terms_sound nu _ _ _ _ E2 Hs2) as [Hs1 He2].
  destruct (unify_terms_sound nu _ _ _ _ E1 Hs1) as [Hs0 He1].
  split; [assumption|]. cbn. congruence.
Qed.

Lemma unify_patterns_complete : forall nu p1 p2 th,
    sat nu th -> eval_atom nu p1 = eval_atom nu p2 -> exists th', unify_patterns p1 p2 th = Some th' /\ sat nu th'.
Proof.
  intros nu [[s1 q1] o1] [[s2 q2] o2] th Hs He. cbn in He. injection He as He1 He2 He3.
  unfold unify_patterns.
  destruct (unify_terms_complete nu s1 s2 th Hs He1) as (th1 & -> & Hs1).
  destruct (unify_terms_complete nu q1 q2 th1 Hs1 He2) as (th2 & -> & Hs2).
  exact (unify_terms_complete nu o1 o2 th2 Hs2 He3).
Qed.

Lemma unify_patterns_wf : forall p1 p2 th th', wf th -> unify_patterns p1 p2 th = Some th' -> wf th'.
Proof.
  intros [[s1 q1] o1] [[s2 q2] o2] th th' Hwf H. unfold unify_patterns in H.
  destruct (unify_terms s1 s2 th) as [th1|] eqn:E1; [|discriminate].
  destruct (unify_terms q1 q2 th1) as [th2|] eqn:E2; [|discriminate].
  eauto using unify_terms_wf.
Qed.

Lemma unify_patterns_below : forall n p1 p2 th th',
    subst_below n th -> atom_below n p1 -> atom_below n p2 ->
    unify_patterns p1 p2 th = Some th' -> subst_below n th'.
Proof.
  intros n [[s1 q1] o1] [[s2 q2] o2] th th' Hs (A1 & A2 & A3) (B1 & B2 & B3) H. unfold unify_patterns in H.
  destruct (unify_terms s1 s2 th) as [th1|] eqn:E1; [|discriminate].
  destruct (unify_terms q1 q2 th1) as [th2|] eqn:E2; [|discriminate].
  eauto using unify_terms_below.
Qed.

Lemma fact_pattern_eval : forall nu f, eval_atom nu (fact_pattern f) = f.
Proof. intros nu [[s p] o]. reflexivity. Qed.

Lemma fact_pattern_below : forall n f, atom_below n (fact_pattern f).
Proof. intros n [[s p] o]. cbn. auto. Qed.
