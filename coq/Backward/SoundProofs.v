(* C18 - soundness of the depth-limited search with respect to the least model, for rule sets without filters
   (safe or not) and for safe rule sets with filters. *)
Require Import List NArith ZArith String Bool Lia.
Require Import KV.Backward.Model KV.Backward.Spec KV.Backward.NameProofs KV.Backward.SubstProofs
        KV.Backward.RenameProofs KV.Backward.SearchProofs KV.Backward.GroundProofs.
Import ListNotations.

Lemma unfiltered_rule : forall R r, known_C18 R = false -> In r R -> filters r = [].
Proof.
  induction R as [|r0 R IH]; intros r Hk Hin; [contradiction|]. cbn in Hk. apply orb_false_iff in Hk.
  destruct Hk as [H1 H2]. destruct Hin as [<-|Hin]; [|now apply IH]. destruct (filters r0); [reflexivity|discriminate].
Qed.

Lemma safe_rules_In : forall R r, safe_rules R = true -> In r R -> safe_rule r = true.
Proof. intros R r H Hin. unfold safe_rules in H. rewrite forallb_forall in H. now apply H. Qed.

Lemma forallb_rename_pull : forall num vm nu fs,
    forallb (filter_holds num nu) (map (rename_filter vm) fs) = forallb (filter_holds num (pull vm nu)) fs.
Proof.
  intros num vm nu fs. induction fs as [|f fs IH]; [reflexivity|]. cbn. now rewrite IH, filter_holds_pull.
Qed.

Section Sound.
  Variable num : N -> Z.
  Variable F : list fact.
  Variable R : list rule.
  Hypothesis Hmode : known_C18 R = false \/ safe_rules R = true.
  Let LM := least_model num F R.

  Lemma lm_rule : forall r c nu,
      In r R -> In c (concl r) -> Forall (fun p => LM (eval_atom nu p)) (prem r) ->
      forallb (filter_holds num nu) (filters r) = true -> LM (eval_atom nu c).
  Proof.
    intros r c nu Hr Hc Hp Hf. destruct (lm_common_height _ _ _ _ _ Hp) as [h Hh].
    exists (S h). now apply (d_rule num F R h r c nu).
  Qed.

  Definition rec_sound (rec : atom -> subst -> N -> list subst * N) : Prop :=
    forall q th n th', good n th -> atom_below n q -> In th' (fst (rec q th n)) ->
                       forall nu, sat nu th' -> sat nu th /\ LM (eval_atom nu q).

  Section Nest.
    Variable rec : atom -> subst -> N -> list subst * N.
    Hypothesis Hinv : rec_inv rec.
    Hypothesis Hdet : safe_rules R = true -> rec_det rec.
    Hypothesis Hrec : rec_sound rec.

    Lemma solve_each_sound : forall p bs n th',
        Forall (good n) bs -> atom_below n p -> In th' (fst (solve_each rec p bs n)) ->
        exists b, In b bs /\ forall nu, sat nu th' -> sat nu b /\ LM (eval_atom nu p).
    Proof.
      intros p bs. induction bs as [|b bs IH]; intros n th' Hb Hp H; cbn in H; [contradiction|].
      destruct (rec p b n) as [r n1] eqn:E1. destruct (solve_each rec p bs n1) as [rs' n2] eqn:E2.
      inversion Hb as [|? ? Hb1 Hb2]; subst. destruct (Hinv _ _ _ _ _ Hb1 Hp E1) as [L1 _].
      cbn in H. apply in_app_or in H. destruct H as [H|H].
      - exists b. split; [now left|]. intros nu Hs. apply (Hrec p b n th' Hb1 Hp); [now rewrite E1|assumption].
      - destruct (IH n1 th' (Forall_good_mono _ _ _ L1 Hb2) (atom_below_mono _ _ _ L1 Hp)) as (b' & Hb' & Hs');
          [now rewrite E2|]. exists b'. split; [now right|assumption].
    Qed.

    Lemma solve_prems_sound : forall ps bs n th',
        Forall (good n) bs -> Forall (atom_below n) ps -> In th' (fst (solve_prems rec ps bs n)) ->
        exists b, In b bs /\ forall nu, sat nu th' -> sat nu b /\ Forall (fun p => LM (eval_atom nu p)) ps.
    Proof.
      intros ps. induction ps as [|p ps IH]; intros bs n th' Hb Hp H; cbn in H.
      - exists th'. split; [assumption|]. intros nu Hs. split; [assumption|constructor].
      - destruct (solve_each rec p bs n) as [bs' n1] eqn:E1.
        inversion Hp as [|? ? Hp1 Hp2]; subst.
        destruct (solve_each_inv rec Hinv _ _ _ _ _ Hb Hp1 E1) as [L1 G1].
        destruct (IH bs' n1 th' G1 (Forall_below_mono _ _ _ L1 Hp2) H) as (b' & Hb' & Hs').
        destruct (solve_each_sound p bs n b' Hb Hp1) as (b & Hbb & Hsb); [now rewrite E1|].
        exists b. split; [assumption|]. intros nu Hs.
        destruct (Hs' nu Hs) as [S1 A1]. destruct (Hsb nu S1) as [S2 A2]. split; [assumption|now constructor].
    Qed.

    Lemma solve_concls_sound : forall sq th ps fs cs n th',
        good n th -> atom_below n sq -> Forall (atom_below n) ps -> Forall (atom_below n) cs ->
        In th' (fst (solve_concls num rec sq th ps fs cs n)) ->
        exists c, In c cs /\ wf th' /\ filters_hold num fs th' = true /\
                  (safe_rules R = true -> Forall (det th') ps) /\
                  forall nu, sat nu th' ->
                             sat nu th /\ eval_atom nu c = eval_atom nu sq /\
                             Forall (fun p => LM (eval_atom nu p)) ps.
    Proof.
      intros sq th ps fs cs. induction cs as [|c cs IH]; intros n th' Hth Hsq Hps Hcs H; cbn in H; [contradiction|].
      inversion Hcs as [|? ? Hc1 Hc2]; subst.
      destruct (unify_patterns c sq th) as [rb|] eqn:Eu.
      - destruct (solve_prems rec ps [rb] n) as [r n1] eqn:E1.
        destruct (solve_concls num rec sq th ps fs cs n1) as [rs' n2] eqn:E2.
        assert (Grb : good n rb).
        { destruct Hth as [W B]. split; [exact (unify_patterns_wf c sq th rb W Eu)|exact (unify_patterns_below n c sq th rb B Hc1 Hsq Eu)]. }
        destruct (solve_prems_inv rec Hinv _ _ _ _ _ (Forall_cons _ Grb (Forall_nil _)) Hps E1) as [L1 G1].
        cbn in H. apply in_app_or in H. destruct H as [H|H].
        + apply filter_In in H. destruct H as [H Hf].
          destruct (solve_prems_sound ps [rb] n th' (Forall_cons _ Grb (Forall_nil _)) Hps) as (b & Hb & Hsb); [now rewrite E1|].
          destruct Hb as [<-|[]]. exists c. split; [now left|].
          rewrite Forall_forall in G1. split; [apply (G1 th' H)|]. split; [assumption|]. split.
          * intros Hsafe. destruct (solve_prems_det rec (Hdet Hsafe) ps [rb] n th') as (b' & _ & _ & Hd); [now rewrite E1|].
            exact Hd.
          * intros nu Hs. destruct (Hsb nu Hs) as [S1 A1].
            destruct (unify_patterns_sound nu _ _ _ _ Eu S1) as [S0 He]. auto.
        + destruct (IH n1 th' (good_mono _ _ _ L1 Hth) (atom_below_mono _ _ _ L1 Hsq) (Forall_below_mono _ _ _ L1 Hps)
                       (Forall_below_mono _ _ _ L1 Hc2)) as (c' & Hc' & Hs'); [now rewrite E2|].
          exists c'. split; [now right|assumption].
      - destruct (IH n th' Hth Hsq Hps Hc2 H) as (c' & Hc' & Hs'). exists c'. split; [now right|assumption].
    Qed.

    Lemma solve_rules_sound : forall sq th rs n th',
        good n th -> atom_below n sq -> incl rs R -> In th' (fst (solve_rules num rec sq th rs n)) ->
        forall nu, sat nu th' -> sat nu th /\ LM (eval_atom nu sq).
    Proof.
      intros sq th rs. induction rs as [|r rs IH]; intros n th' Hth Hsq Hincl H nu Hs; cbn in H; [contradiction|].
      destruct (rename_rule_variables r n) as [rr n1] eqn:Er.
      destruct (solve_concls num rec sq th (prem rr) (filters rr) (concl rr) n1) as [res1 n2] eqn:E1.
      destruct (solve_rules num rec sq th rs n2) as [rest n3] eqn:E2.
      destruct (renamed_below _ _ _ _ Er) as (L0 & Bp & Bc).
      destruct (solve_concls_inv num rec Hinv _ _ _ _ _ _ _ _ (good_mono _ _ _ L0 Hth) (atom_below_mono _ _ _ L0 Hsq) Bp Bc E1) as [L1 _].
      cbn in H. apply in_app_or in H. destruct H as [H|H].
      - destruct (solve_concls_sound sq th (prem rr) (filters rr) (concl rr) n1 th'
                                     (good_mono _ _ _ L0 Hth) (atom_below_mono _ _ _ L0 Hsq) Bp Bc)
          as (c' & Hc' & Hwf & Hfh & Hdet' & Hsc); [now rewrite E1|].
        destruct (Hsc nu Hs) as (S0 & He & Hp). split; [assumption|].
        destruct (rename_rule_spec _ _ _ _ Er) as (vm & Hok & Hle & Epm & Ecl & _ & _ & Efl).
        assert (Hr : In r R) by (apply Hincl; now left).
        rewrite Ecl in Hc'. apply in_map_iff in Hc'. destruct Hc' as (c & <- & Hc).
        rewrite <- He, <- eval_atom_pull.
        apply (lm_rule r c); [assumption|assumption| |].
        + rewrite Epm in Hp. rewrite Forall_forall in *. intros p Hin. rewrite eval_atom_pull.
          apply Hp. now apply in_map.
        + destruct Hmode as [Hk|Hsafe].
          * now rewrite (unfiltered_rule R r Hk Hr).
          * rewrite <- forallb_rename_pull, <- Efl, <- Hfh. symmetry.
            apply filters_hold_spec; [assumption| |assumption].
            rewrite Efl. apply renamed_filters_det; [eapply safe_rules_In; eauto|].
            rewrite <- Epm. now apply Hdet'.
      - assert (L02 : (n <= n2)%N) by lia.
        apply (IH n2 th' (good_mono _ _ _ L02 Hth) (atom_below_mono _ _ _ L02 Hsq));
          [intros x Hx; apply Hincl; now right|now rewrite E2|assumption].
    Qed.

    Lemma match_facts_sound : forall sq th fs th',
        incl fs F -> In th' (match_facts sq th fs) -> forall nu, sat nu th' -> sat nu th /\ LM (eval_atom nu sq).
    Proof.
      intros sq th fs. induction fs as [|f fs IH]; intros th' Hincl H nu Hs; cbn in H; [contradiction|].
      assert (Hfs : incl fs F) by (intros x Hx; apply Hincl; now right).
      destruct (unify_patterns sq (fact_pattern f) th) as [nb|] eqn:Eu; [|now apply (IH th')].
      destruct H as [<-|H]; [|now apply (IH th')].
      destruct (unify_patterns_sound nu _ _ _ _ Eu Hs) as [S0 He]. split; [assumption|].
      rewrite He, fact_pattern_eval. exists O. apply d_fact. apply Hincl. now left.
    Qed.

    Lemma helper_body_sound : rec_sound (helper_body num F R rec).
    Proof.
      intros q th n th' Hth Hq H nu Hs. unfold helper_body in H.
      destruct (solve_rules num rec (substitute th q) th R n) as [rr n1] eqn:E. cbn in H.
      assert (Hsq : atom_below n (substitute th q)) by (apply substitute_below; [apply Hth|assumption]).
      assert (X : sat nu th /\ LM (eval_atom nu (substitute th q))).
      { apply in_app_or in H. destruct H as [H|H].
        - eapply match_facts_sound; eauto. apply incl_refl.
        - eapply (solve_rules_sound _ th R n th'); eauto; [apply incl_refl|now rewrite E]. }
      destruct X as [S0 L]. split; [assumption|]. now rewrite eval_substitute in L.
    Qed.
  End Nest.

  Lemma helper_sound : forall k, rec_sound (helper num F R k).
  Proof.
    induction k as [|k IH]; intros q th n th' Hth Hq H; cbn in H; [contradiction|].
    apply (helper_body_sound _ (helper_inv num F R k) (fun Hs => helper_det num F R Hs k) IH q th n th' Hth Hq H).
  Qed.

  Lemma sound_mode : forall q th, In th (backward_chaining num F R q) ->
                                  forall nu, LM (eval_atom nu (apply_answer th q)).
  Proof.
    intros q th H nu. pose proof (backward_chaining_wf num F R q th H) as Hwf.
    rewrite <- eval_atom_compose by assumption.
    unfold backward_chaining in H.
    apply (helper_sound _ _ _ _ _ (good_nil _) (first_fresh_below q) H). now apply sat_compose.
  Qed.
End Sound.

(* safe rule sets, filters allowed *)
Lemma sound : forall num F R q th,
    safe_rules R = true -> In th (backward_chaining num F R q) ->
    forall nu, least_model num F R (eval_atom nu (apply_answer th q)).
Proof. intros num F R q th Hs. apply sound_mode. now right. Qed.

(* rule sets without filters, safe or not *)
Lemma sound_unfiltered : forall num F R q th,
    known_C18 R = false -> In th (backward_chaining num F R q) ->
    forall nu, least_model num F R (eval_atom nu (apply_answer th q)).
Proof. intros num F R q th Hk. apply sound_mode. now left. Qed.
