(* C18 - the name encoding: format!("v{}", n) is injective and is read back by the goal scan, hence the
   counter chosen by first_fresh_variable_index lies above every generated-style name of the goal. *)
Require Import List NArith String Ascii Bool Lia DecimalString DecimalN Decimal DecimalFacts.
Require Import KV.Backward.Model.
Import ListNotations.

Lemma gen_name_inj : forall n m, gen_name n = gen_name m -> n = m.
Proof.
  intros n m H. unfold gen_name in H. injection H as H.
  assert (Hs : NilEmpty.uint_of_string (NilEmpty.string_of_uint (N.to_uint n)) =
               NilEmpty.uint_of_string (NilEmpty.string_of_uint (N.to_uint m))) by (rewrite H; reflexivity).
  rewrite !NilEmpty.usu in Hs. injection Hs as Hs.
  rewrite <- (Unsigned.of_to n), <- (Unsigned.of_to m), Hs. reflexivity.
Qed.

Lemma to_uint_string_nonempty : forall n, NilEmpty.string_of_uint (N.to_uint n) <> EmptyString.
Proof.
  intros n H.
  assert (Hs : NilEmpty.uint_of_string (NilEmpty.string_of_uint (N.to_uint n)) = Some Nil) by (rewrite H; reflexivity).
  rewrite NilEmpty.usu in Hs. injection Hs as Hs.
  destruct n as [|p]; cbn in Hs; [discriminate|].
  unfold N.to_uint in Hs. pose proof (DecimalPos.Unsigned.to_uint_nonnil p) as Hn. contradiction.
Qed.

Lemma string_of_uint_no_plus : forall d r, NilEmpty.string_of_uint d <> String "+"%char r.
Proof. intros d r H. destruct d; cbn in H; discriminate. Qed.

Lemma v_index_gen_name : forall n, v_index (gen_name n) = Some n.
Proof.
  intros n. unfold gen_name, v_index, parse_usize.
  remember (NilEmpty.string_of_uint (N.to_uint n)) as s eqn:Es.
  assert (Hne : s <> EmptyString) by (subst; apply to_uint_string_nonempty).
  assert (Hpl : forall r, s <> String "+"%char r) by (intros r; subst; apply string_of_uint_no_plus).
  assert (Hp : parse_digits s = Some n).
  { unfold parse_digits. destruct s as [|a s']; [congruence|].
    rewrite Es, NilEmpty.usu. cbn. rewrite Unsigned.of_to. reflexivity. }
  destruct s as [|a s']; [congruence|].
  destruct a as [[] [] [] [] [] [] [] []]; try exact Hp.
  exfalso. eapply Hpl. reflexivity.
Qed.

(* below n x: x is not one of the names the engine generates from counter value n onwards *)
Definition below (n : N) (x : string) : Prop := forall m, x = gen_name m -> (m < n)%N.

Lemma below_mono : forall n n' x, (n <= n')%N -> below n x -> below n' x.
Proof. intros n n' x Hle Hb m Hm. specialize (Hb m Hm). lia. Qed.

Lemma below_gen : forall n m, (m < n)%N -> below n (gen_name m).
Proof. intros n m Hlt k Hk. apply gen_name_inj in Hk. subst. exact Hlt. Qed.

Lemma not_below_gen : forall n m, (n <= m)%N -> ~ below n (gen_name m).
Proof. intros n m Hle Hb. specialize (Hb m eq_refl). lia. Qed.

Definition term_below (n : N) (t : term) : Prop := match t with Var x => below n x | Cst _ => True end.
Definition atom_below (n : N) (a : atom) : Prop :=
  let '(s, p, o) := a in term_below n s /\ term_below n p /\ term_below n o.

Lemma term_below_mono : forall n n' t, (n <= n')%N -> term_below n t -> term_below n' t.
Proof. intros n n' [x|c] Hle H; cbn in *; eauto using below_mono. Qed.
Lemma atom_below_mono : forall n n' a, (n <= n')%N -> atom_below n a -> atom_below n' a.
Proof. intros n n' [[s p] o] Hle (H1 & H2 & H3); cbn; repeat split; eauto using term_below_mono. Qed.

Lemma scan_ge : forall t k, (k <= scan t k)%N.
Proof. intros [x|c] k; cbn; [destruct (v_index x)|]; lia. Qed.
Lemma scan_below : forall t k, term_below (scan t k) t.
Proof.
  intros [x|c] k; cbn; [|exact I]. intros m Hm. subst x. rewrite v_index_gen_name. lia.
Qed.

(* the repair of c6d81bf: every goal variable lies below the initial counter *)
Lemma first_fresh_below : forall q, atom_below (first_fresh_variable_index q) q.
Proof.
  intros [[s p] o]. unfold first_fresh_variable_index, atom_below.
  repeat split.
  - eapply term_below_mono; [|apply scan_below]. etransitivity; apply scan_ge.
  - eapply term_below_mono; [|apply scan_below]. apply scan_ge.
  - apply scan_below.
Qed.
