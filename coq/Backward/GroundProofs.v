(* C18 - determined terms, filters, and: for safe rules every answer is ground: the goal with resolve_term applied is a fact.  Semantic argument:
   a returned binding map determines the value of every goal variable (all satisfying valuations agree), and a
   well-formed map that determines a term resolves it to a constant. *)
Require Import List NArith ZArith String Bool Lia.
Require Import KV.Backward.Model KV.Backward.Spec KV.Backward.NameProofs KV.Backward.SubstProofs
        KV.Backward.RenameProofs KV.Backward.SearchProofs.
Import ListNotations.

Definition det_term (th : subst) (t : term) : Prop :=
  forall nu1 nu2, sat nu1 th -> sat nu2 th -> eval nu1 t = eval nu2 t.
Definition det (th : subst) (a : atom) : Prop :=
  forall nu1 nu2, sat nu1 th -> sat nu2 th -> eval_atom nu1 a = eval_atom nu2 a.
Definition ext (th' th : subst) : Prop := forall nu, sat nu th' -> sat nu th.

Lemma det_terms : forall th s p o, det th (s, p, o) <-> (det_term th s /\ det_term th p /\ det_term th o).
Proof.
  intros th s p o. split.
  - intros H. repeat split; intros nu1 nu2 H1 H2; specialize (H nu1 nu2 H1 H2); cbn in H; congruence.
  - intros (A & B & C) nu1 nu2 H1 H2. cbn. now rewrite (A nu1 nu2), (B nu1 nu2), (C nu1 nu2).
Qed.

Lemma det_mono : forall th th' a, ext th' th -> det th a -> det th' a.
Proof. intros th th' a He Hd nu1 nu2 H1 H2. apply Hd; now apply He. Qed.
Lemma ext_refl : forall th, ext th th.
Proof. intros th nu H. exact H. Qed.
Lemma ext_trans : forall a b c, ext a b -> ext b c -> ext a c.
Proof. intros a b c H1 H2 nu H. auto. Qed.

Lemma det_term_cst : forall th c, det_term th (Cst c).
Proof. intros th c nu1 nu2 _ _. reflexivity. Qed.

(* a determined term resolves to a constant *)
Lemma det_term_ground : forall th t, wf th -> det_term th t -> ground_term (resolve_term th t) = true.
Proof.
  intros th t Hwf Hd. rewrite resolve_term_rs by assumption.
  destruct (rs th t) as [x|c] eqn:E; [|reflexivity]. exfalso.
  specialize (Hd (compose (fun _ => 0%N) th) (compose (fun y => if String.eqb y x then 1%N else 0%N) th)
                 (sat_compose _ th Hwf) (sat_compose _ th Hwf)).
  rewrite !eval_compose, E in Hd. cbn in Hd. rewrite String.eqb_refl in Hd. discriminate.
Qed.

Lemma det_ground : forall th q, wf th -> det th q -> ground_atom (apply_answer th q) = true.
Proof.
  intros th [[s p] o] Hwf Hd. apply det_terms in Hd. destruct Hd as (A & B & C).
  unfold apply_answer, ground_atom. now rewrite !det_term_ground.
Qed.

Lemma ground_eval : forall nu a f, ground_atom a = true -> eval_atom nu a = f -> a = fact_pattern f.
Proof.
  intros nu [[s p] o] f Hg He. destruct s, p, o; try discriminate. cbn in He. subst. reflexivity.
Qed.

(* variables of an atom are positions of the atom *)
Lemma det_atom_var : forall th vm a x, det th (ren_atom vm a) -> In x (atom_vars a) -> det_term th (ren vm (Var x)).
Proof.
  intros th vm [[s p] o] x Hd Hin. cbn [ren_atom] in Hd. apply det_terms in Hd. destruct Hd as (A & B & C).
  unfold atom_vars in Hin. rewrite !in_app_iff in Hin.
  destruct Hin as [Hin|[Hin|Hin]].
  - destruct s as [y|c]; [|contradiction]. destruct Hin as [<-|[]]. exact A.
  - destruct p as [y|c]; [|contradiction]. destruct Hin as [<-|[]]. exact B.
  - destruct o as [y|c]; [|contradiction]. destruct Hin as [<-|[]]. exact C.
Qed.

Lemma mem_In : forall x l, mem x l = true -> In x l.
Proof.
  intros x l H. unfold mem in H. apply existsb_exists in H. destruct H as (y & Hy & E).
  apply String.eqb_eq in E. now subst.
Qed.

Lemma det_ren_term : forall th vm ps t,
    (forall x, In x (term_vars t) -> In x (atoms_vars ps)) ->
    Forall (det th) (map (ren_atom vm) ps) -> det_term th (ren vm t).
Proof.
  intros th vm ps [x|c] Hv Hd; [|apply det_term_cst].
  specialize (Hv x (or_introl eq_refl)). unfold atoms_vars in Hv. apply in_flat_map in Hv.
  destruct Hv as (p & Hp & Hx). rewrite Forall_forall in Hd.
  eapply det_atom_var; [apply Hd; apply in_map; exact Hp|exact Hx].
Qed.

Lemma det_ren_atom : forall th vm ps c,
    (forall x, In x (atom_vars c) -> In x (atoms_vars ps)) ->
    Forall (det th) (map (ren_atom vm) ps) -> det th (ren_atom vm c).
Proof.
  intros th vm ps [[s p] o] Hv Hd. cbn [ren_atom]. apply det_terms.
  repeat split; eapply det_ren_term; eauto; intros x Hx; apply Hv; unfold atom_vars; rewrite !in_app_iff; auto.
Qed.

Lemma safe_rule_vars : forall r c x, safe_rule r = true -> In c (concl r) -> In x (atom_vars c) -> In x (atoms_vars (prem r)).
Proof.
  intros r c x Hs Hc Hx. unfold safe_rule in Hs. apply andb_true_iff in Hs. destruct Hs as [Hs _].
  rewrite forallb_forall in Hs. apply mem_In. apply Hs. unfold atoms_vars. apply in_flat_map. eauto.
Qed.

(* ---- filters: on a well-formed map that determines the filter's variables, the engine's evaluate_filters on
   the ground map is the Spec's filter_holds under any satisfying valuation -------------------------------- *)
Lemma lookup_ground_gen : forall th l x,
    lookup x (flat_map (fun e : string * term => match resolve_term th (Var (fst e)) with
                                                  | Cst c => [(fst e, c)]
                                                  | Var _ => []
                                                  end) l)
    = match resolve_term th (Var x) with
      | Cst c => if existsb (fun e : string * term => String.eqb x (fst e)) l then Some c else None
      | Var _ => None
      end.
Proof.
  intros th l x. induction l as [|[y t] l IH]; cbn [flat_map existsb fst].
  - cbn [lookup]. destruct (resolve_term th (Var x)); reflexivity.
  - destruct (String.eqb x y) eqn:E.
    + apply String.eqb_eq in E. subst y.
      destruct (resolve_term th (Var x)) as [z|c] eqn:Er; cbn [app].
      * exact IH.
      * rewrite lookup_cons, String.eqb_refl. reflexivity.
    + cbn [orb]. destruct (resolve_term th (Var y)) as [z|c] eqn:Ey; cbn [app].
      * exact IH.
      * rewrite lookup_cons, E. exact IH.
Qed.

Lemma lookup_key : forall (th : subst) x, lookup x th <> None -> existsb (fun e : string * term => String.eqb x (fst e)) th = true.
Proof.
  induction th as [|[y t] th IH]; intros x H; cbn in *; [congruence|].
  destruct (String.eqb x y); [reflexivity|]. now apply IH.
Qed.

Lemma det_var_ground : forall th x,
    wf th -> det_term th (Var x) ->
    exists c, lookup x (ground_map th) = Some c /\ forall nu, sat nu th -> nu x = c.
Proof.
  intros th x Hwf Hd. pose proof (det_term_ground th (Var x) Hwf Hd) as Hg.
  destruct (resolve_term th (Var x)) as [z|c] eqn:Er; [discriminate|]. exists c. split.
  - unfold ground_map. rewrite lookup_ground_gen, Er, lookup_key; [reflexivity|].
    intros Hn. unfold resolve_term in Er. rewrite resolve_fuel_root in Er by exact Hn. discriminate.
  - intros nu Hs. pose proof (eval_resolve nu th (Var x) Hs) as He. rewrite Er in He. cbn in He. now symmetry.
Qed.

Lemma eval_filter_spec : forall num th nu f,
    wf th -> (forall x, In x (filter_vars f) -> det_term th (Var x)) -> sat nu th ->
    eval_filter num (ground_map th) f = filter_holds num nu f.
Proof.
  intros num th nu [x op v] Hwf Hd Hs. unfold eval_filter, filter_holds. cbn [fvar fop fval].
  destruct (det_var_ground th x Hwf (Hd x (or_introl eq_refl))) as (c & -> & Hc). rewrite (Hc nu Hs).
  destruct v as [z|y]; [reflexivity|].
  destruct (det_var_ground th y Hwf (Hd y (or_intror (or_introl eq_refl)))) as (c' & -> & Hc'). now rewrite (Hc' nu Hs).
Qed.

Lemma filters_hold_spec : forall num th nu fs,
    wf th -> (forall f x, In f fs -> In x (filter_vars f) -> det_term th (Var x)) -> sat nu th ->
    filters_hold num fs th = forallb (filter_holds num nu) fs.
Proof.
  intros num th nu fs Hwf Hd Hs.
  assert (E : evaluate_filters num (ground_map th) fs = forallb (filter_holds num nu) fs).
  { unfold evaluate_filters. induction fs as [|f fs IH]; [reflexivity|]. cbn.
    rewrite (eval_filter_spec num th nu f Hwf) by (intros x Hx; apply (Hd f x); [now left|assumption]) || exact Hs.
    f_equal. apply IH. intros g x Hg Hx. apply (Hd g x); [now right|assumption]. }
  destruct fs; [reflexivity|exact E].
Qed.

Lemma safe_rule_filter_vars : forall r f x,
    safe_rule r = true -> In f (filters r) -> In x (filter_vars f) -> In x (atoms_vars (prem r)).
Proof.
  intros r f x Hs Hf Hx. unfold safe_rule in Hs. apply andb_true_iff in Hs. destruct Hs as [_ Hs].
  rewrite forallb_forall in Hs. specialize (Hs f Hf). rewrite forallb_forall in Hs. apply mem_In. now apply Hs.
Qed.

(* the renamed filters of a safe rule only mention variables determined by the solved renamed premises *)
Lemma renamed_filters_det : forall th vm r,
    safe_rule r = true -> Forall (det th) (map (ren_atom vm) (prem r)) ->
    forall f x, In f (map (rename_filter vm) (filters r)) -> In x (filter_vars f) -> det_term th (Var x).
Proof.
  intros th vm r Hs Hd f x Hf Hx. apply in_map_iff in Hf. destruct Hf as (f0 & <- & Hf0).
  rewrite filter_vars_rename in Hx. apply in_map_iff in Hx. destruct Hx as (x0 & <- & Hx0).
  rewrite <- ren_var_name. apply (det_ren_term th vm (prem r) (Var x0)); [|assumption].
  intros y [<-|[]]. eapply safe_rule_filter_vars; eauto.
Qed.

Section Ground.
  Variable num : N -> Z.
  Variable F : list fact.
  Variable R : list rule.

  Definition rec_det (rec : atom -> subst -> N -> list subst * N) : Prop :=
    forall q th n th', In th' (fst (rec q th n)) -> det th' q /\ ext th' th.

  Section Nest.
    Variable rec : atom -> subst -> N -> list subst * N.
    Hypothesis Hrec : rec_det rec.

    Lemma solve_each_det : forall p bs n th',
        In th' (fst (solve_each rec p bs n)) -> exists b, In b bs /\ det th' p /\ ext th' b.
    Proof.
      intros p bs. induction bs as [|b bs IH]; intros n th' H; cbn in H; [contradiction|].
      destruct (rec p b n) as [r n1] eqn:E1. destruct (solve_each rec p bs n1) as [rs' n2] eqn:E2.
      cbn in H. apply in_app_or in H. destruct H as [H|H].
      - exists b. split; [now left|]. apply (Hrec p b n th'). now rewrite E1.
      - destruct (IH n1 th') as (b' & Hb' & Hs'); [now rewrite E2|]. exists b'. split; [now right|assumption].
    Qed.

    Lemma solve_prems_det : forall ps bs n th',
        In th' (fst (solve_prems rec ps bs n)) -> exists b, In b bs /\ ext th' b /\ Forall (det th') ps.
    Proof.
      intros ps. induction ps as [|p ps IH]; intros bs n th' H; cbn in H.
      - exists th'. split; [assumption|]. split; [apply ext_refl|constructor].
      - destruct (solve_each rec p bs n) as [bs' n1] eqn:E1.
        destruct (IH bs' n1 th' H) as (b' & Hb' & He' & Hd').
        destruct (solve_each_det p bs n b') as (b & Hb & Hdb & Heb); [now rewrite E1|].
        exists b. split; [assumption|]. split; [eauto using ext_trans|].
        constructor; [|assumption]. eapply det_mono; eauto.
    Qed.

    Lemma solve_concls_det : forall sq th ps fs cs n th',
        In th' (fst (solve_concls num rec sq th ps fs cs n)) ->
        exists c, In c cs /\ ext th' th /\ (forall nu, sat nu th' -> eval_atom nu c = eval_atom nu sq) /\
                  Forall (det th') ps.
    Proof.
      intros sq th ps fs cs. induction cs as [|c cs IH]; intros n th' H; cbn in H; [contradiction|].
      destruct (unify_patterns c sq th) as [rb|] eqn:Eu.
      - destruct (solve_prems rec ps [rb] n) as [r n1] eqn:E1.
        destruct (solve_concls num rec sq th ps fs cs n1) as [rs' n2] eqn:E2.
        cbn in H. apply in_app_or in H. destruct H as [H|H].
        + apply filter_In in H. destruct H as [H _].
          destruct (solve_prems_det ps [rb] n th') as (b & Hb & Heb & Hdb); [now rewrite E1|].
          destruct Hb as [<-|[]]. exists c. split; [now left|].
          split; [|split; [|assumption]].
          * intros nu Hs. exact (proj1 (unify_patterns_sound nu _ _ _ _ Eu (Heb nu Hs))).
          * intros nu Hs. exact (proj2 (unify_patterns_sound nu _ _ _ _ Eu (Heb nu Hs))).
        + destruct (IH n1 th') as (c' & Hc' & Hs'); [now rewrite E2|]. exists c'. split; [now right|assumption].
      - destruct (IH n th' H) as (c' & Hc' & Hs'). exists c'. split; [now right|assumption].
    Qed.

    Lemma solve_rules_det : forall sq th rs n th',
        forallb safe_rule rs = true -> In th' (fst (solve_rules num rec sq th rs n)) -> det th' sq /\ ext th' th.
    Proof.
      intros sq th rs. induction rs as [|r rs IH]; intros n th' Hsafe H; cbn in H; [contradiction|].
      cbn in Hsafe. apply andb_true_iff in Hsafe. destruct Hsafe as [Hsr Hsafe].
      destruct (rename_rule_variables r n) as [rr n1] eqn:Er.
      destruct (solve_concls num rec sq th (prem rr) (filters rr) (concl rr) n1) as [res1 n2] eqn:E1.
      destruct (solve_rules num rec sq th rs n2) as [rest n3] eqn:E2.
      cbn in H. apply in_app_or in H. destruct H as [H|H].
      - destruct (solve_concls_det sq th (prem rr) (filters rr) (concl rr) n1 th') as (c' & Hc' & He & Heq & Hd); [now rewrite E1|].
        split; [|assumption].
        destruct (rename_rule_spec _ _ _ _ Er) as (vm & Hok & Hle & Epm & Ecl & _).
        rewrite Ecl in Hc'. apply in_map_iff in Hc'. destruct Hc' as (c & <- & Hc). rewrite Epm in Hd.
        assert (Dc : det th' (ren_atom vm c)).
        { apply (det_ren_atom th' vm (prem r) c); [|assumption]. intros x Hx. eapply safe_rule_vars; eauto. }
        intros nu1 nu2 H1 H2. rewrite <- (Heq nu1 H1), <- (Heq nu2 H2). now apply Dc.
      - apply (IH n2 th'); [assumption|now rewrite E2].
    Qed.

    Lemma match_facts_det : forall sq th fs th', In th' (match_facts sq th fs) -> det th' sq /\ ext th' th.
    Proof.
      intros sq th fs. induction fs as [|f fs IH]; intros th' H; cbn in H; [contradiction|].
      destruct (unify_patterns sq (fact_pattern f) th) as [nb|] eqn:Eu; [|now apply IH].
      destruct H as [<-|H]; [|now apply IH]. split.
      - intros nu1 nu2 H1 H2.
        rewrite (proj2 (unify_patterns_sound nu1 _ _ _ _ Eu H1)), (proj2 (unify_patterns_sound nu2 _ _ _ _ Eu H2)).
        now rewrite !fact_pattern_eval.
      - intros nu Hs. exact (proj1 (unify_patterns_sound nu _ _ _ _ Eu Hs)).
    Qed.

    Lemma helper_body_det : safe_rules R = true -> rec_det (helper_body num F R rec).
    Proof.
      intros Hsafe q th n th' H. unfold helper_body in H.
      destruct (solve_rules num rec (substitute th q) th R n) as [rr n1] eqn:E. cbn in H.
      assert (X : det th' (substitute th q) /\ ext th' th).
      { apply in_app_or in H. destruct H as [H|H].
        - eapply match_facts_det; eauto.
        - apply (solve_rules_det _ th R n th'); [exact Hsafe|now rewrite E]. }
      destruct X as [Dq He]. split; [|assumption].
      intros nu1 nu2 H1 H2. rewrite <- (eval_substitute nu1 th q (He nu1 H1)), <- (eval_substitute nu2 th q (He nu2 H2)).
      now apply Dq.
    Qed.
  End Nest.

  Lemma helper_det : safe_rules R = true -> forall k, rec_det (helper num F R k).
  Proof.
    intros Hsafe. induction k as [|k IH]; intros q th n th' H; cbn in H; [contradiction|].
    now apply (helper_body_det _ IH Hsafe q th n th').
  Qed.

  Lemma answers_ground : forall q th,
      safe_rules R = true -> In th (backward_chaining num F R q) -> ground_atom (apply_answer th q) = true.
  Proof.
    intros q th Hsafe H. apply det_ground; [eapply (backward_chaining_wf num); eauto|].
    unfold backward_chaining in H. exact (proj1 (helper_det Hsafe _ _ _ _ _ H)).
  Qed.
End Ground.

