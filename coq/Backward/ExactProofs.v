(* C18 - the property in its exact form for safe rule sets (filters allowed): answers are facts, each in the least
   model and matching the goal; every matching fact of height <= MAX_DEPTH is an answer. *)
Require Import List NArith ZArith String Bool Lia.
Require Import KV.Backward.Model KV.Backward.Spec KV.Backward.NameProofs KV.Backward.SubstProofs
        KV.Backward.RenameProofs KV.Backward.SearchProofs KV.Backward.GroundProofs KV.Backward.SoundProofs
        KV.Backward.CompleteProofs.
Import ListNotations.

Definition matches_goal (q : atom) (f : fact) : Prop := exists nu, eval_atom nu q = f.

Lemma answers_exact_sound : forall num F R q a,
    safe_rules R = true -> In a (answers num F R q) ->
    exists f, a = fact_pattern f /\ least_model num F R f /\ matches_goal q f.
Proof.
  intros num F R q a Hsafe H. unfold answers in H. apply in_map_iff in H. destruct H as (th & <- & Hth).
  pose proof (answers_ground num F R q th Hsafe Hth) as Hg.
  pose proof (backward_chaining_wf num F R q th Hth) as Hwf.
  set (nu := fun _ : string => 0%N).
  exists (eval_atom nu (apply_answer th q)). split; [|split].
  - eapply ground_eval; eauto.
  - now apply sound.
  - exists (compose nu th). now apply eval_atom_compose.
Qed.

Lemma answers_exact_complete : forall num F R q f,
    safe_rules R = true -> matches_goal q f -> derivable num F R MAX_DEPTH f -> In (fact_pattern f) (answers num F R q).
Proof.
  intros num F R q f Hsafe [nu <-] Hd.
  destruct (complete_shallow num F R q nu Hsafe Hd) as (th & Hth & nu' & He).
  unfold answers. apply in_map_iff. exists th. split; [|assumption].
  exact (ground_eval nu' _ _ (answers_ground num F R q th Hsafe Hth) He).
Qed.
