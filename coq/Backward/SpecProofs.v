(* C18 - the executable Spec `level` (bottom-up, h rounds) computes exactly the facts with a derivation of height
   <= h, for safe rule sets.  This ties the oracle used by the correspondence check to the inductive `derivable`
   the theorems are stated with. *)
Require Import List NArith ZArith String Bool Lia.
Require Import KV.Backward.Model KV.Backward.Spec KV.Backward.SubstProofs KV.Backward.GroundProofs.
Import ListNotations.

Definition compat (nu : valuation) (e : env) : Prop := forall x c, lookup x e = Some c -> nu x = c.
Definition env_ext (e e' : env) : Prop := forall x c, lookup x e = Some c -> lookup x e' = Some c.
Definition bound (e : env) (x : string) : Prop := lookup x e <> None.

Lemma env_ext_refl : forall e, env_ext e e.
Proof. intros e x c H. exact H. Qed.
Lemma env_ext_trans : forall a b c, env_ext a b -> env_ext b c -> env_ext a c.
Proof. intros a b c H1 H2 x k H. auto. Qed.
Lemma bound_ext : forall e e' x, env_ext e e' -> bound e x -> bound e' x.
Proof.
  intros e e' x He Hb. unfold bound in *. destruct (lookup x e) as [c|] eqn:E; [|congruence].
  rewrite (He x c E). discriminate.
Qed.
Lemma compat_env_val : forall e, compat (env_val e) e.
Proof. intros e x c H. unfold env_val. now rewrite H. Qed.

Lemma match_term_sound : forall t c e e',
    match_term t c e = Some e' ->
    env_ext e e' /\ eval (env_val e') t = c /\ (forall x, In x (term_vars t) -> bound e' x).
Proof.
  intros [x|k] c e e' H; cbn in H.
  - destruct (lookup x e) as [c'|] eqn:E.
    + destruct (N.eqb c c') eqn:Ec; [|discriminate]. injection H as <-. apply N.eqb_eq in Ec. subst.
      split; [apply env_ext_refl|]. split.
      * cbn. unfold env_val. now rewrite E.
      * intros y [<-|[]]. unfold bound. congruence.
    + injection H as <-. split; [|split].
      * intros y k Hy. rewrite lookup_cons. destruct (String.eqb y x) eqn:Ex; [|exact Hy].
        apply String.eqb_eq in Ex. subst. congruence.
      * cbn. unfold env_val. rewrite lookup_cons, String.eqb_refl. reflexivity.
      * intros y [<-|[]]. unfold bound. rewrite lookup_cons, String.eqb_refl. discriminate.
  - destruct (N.eqb c k) eqn:Ec; [|discriminate]. injection H as <-. apply N.eqb_eq in Ec. subst.
    split; [apply env_ext_refl|]. split; [reflexivity|intros y []].
Qed.

Lemma match_term_complete : forall nu t c e,
    compat nu e -> eval nu t = c -> exists e', match_term t c e = Some e' /\ compat nu e'.
Proof.
  intros nu [x|k] c e Hc He; cbn in *.
  - destruct (lookup x e) as [c'|] eqn:E.
    + rewrite <- He, (Hc x c' E), N.eqb_refl. eauto.
    + eexists. split; [reflexivity|]. intros y k Hy. rewrite lookup_cons in Hy.
      destruct (String.eqb y x) eqn:Ex; [|now apply Hc].
      apply String.eqb_eq in Ex. subst. congruence.
  - subst. rewrite N.eqb_refl. eauto.
Qed.

Lemma eval_env_ext : forall e e' t, env_ext e e' -> (forall x, In x (term_vars t) -> bound e x) ->
                                    eval (env_val e') t = eval (env_val e) t.
Proof.
  intros e e' [x|c] He Hb; [|reflexivity]. cbn. unfold env_val.
  specialize (Hb x (or_introl eq_refl)). unfold bound in Hb.
  destruct (lookup x e) as [k|] eqn:E; [|congruence]. now rewrite (He x k E).
Qed.

Definition atom_bound (e : env) (a : atom) : Prop := forall x, In x (atom_vars a) -> bound e x.

Lemma eval_atom_env_ext : forall e e' a, env_ext e e' -> atom_bound e a ->
                                         eval_atom (env_val e') a = eval_atom (env_val e) a.
Proof.
  intros e e' [[s p] o] He Hb. cbn.
  rewrite (eval_env_ext e e' s), (eval_env_ext e e' p), (eval_env_ext e e' o); auto;
    intros x Hx; apply Hb; unfold atom_vars; rewrite !in_app_iff; auto.
Qed.

Lemma match_atom_sound : forall a f e e',
    match_atom a f e = Some e' -> env_ext e e' /\ eval_atom (env_val e') a = f /\ atom_bound e' a.
Proof.
  intros [[s p] o] [[fs fp] fo] e e' H. unfold match_atom in H.
  destruct (match_term s fs e) as [e1|] eqn:E1; [|discriminate].
  destruct (match_term p fp e1) as [e2|] eqn:E2; [|discriminate].
  destruct (match_term_sound _ _ _ _ E1) as (X1 & V1 & B1).
  destruct (match_term_sound _ _ _ _ E2) as (X2 & V2 & B2).
  destruct (match_term_sound _ _ _ _ H) as (X3 & V3 & B3).
  split; [eauto using env_ext_trans|]. split.
  - cbn. rewrite V3. rewrite (eval_env_ext e2 e' p X3 B2), V2.
    rewrite (eval_env_ext e1 e' s (env_ext_trans _ _ _ X2 X3) B1), V1. reflexivity.
  - intros x Hx. unfold atom_vars in Hx. rewrite !in_app_iff in Hx. destruct Hx as [Hx|[Hx|Hx]].
    + eapply bound_ext; [|apply B1; exact Hx]. eauto using env_ext_trans.
    + eapply bound_ext; [|apply B2; exact Hx]. assumption.
    + now apply B3.
Qed.

Lemma match_atom_complete : forall nu a f e,
    compat nu e -> eval_atom nu a = f -> exists e', match_atom a f e = Some e' /\ compat nu e'.
Proof.
  intros nu [[s p] o] [[fs fp] fo] e Hc He. cbn in He. injection He as H1 H2 H3. unfold match_atom.
  destruct (match_term_complete nu s fs e Hc H1) as (e1 & -> & C1).
  destruct (match_term_complete nu p fp e1 C1 H2) as (e2 & -> & C2).
  exact (match_term_complete nu o fo e2 C2 H3).
Qed.

Lemma match_prems_sound : forall ps db e e',
    In e' (match_prems ps db e) ->
    env_ext e e' /\ forall p, In p ps -> In (eval_atom (env_val e') p) db /\ atom_bound e' p.
Proof.
  intros ps db. induction ps as [|p ps IH]; intros e e' H; cbn in H.
  - destruct H as [<-|[]]. split; [apply env_ext_refl|intros p []].
  - apply in_flat_map in H. destruct H as (f & Hf & H).
    destruct (match_atom p f e) as [e1|] eqn:E1; [|contradiction].
    destruct (match_atom_sound _ _ _ _ E1) as (X1 & V1 & B1).
    destruct (IH e1 e' H) as (X2 & Hps).
    split; [eauto using env_ext_trans|]. intros p' [<-|Hp'].
    + split; [|intros x Hx; eapply bound_ext; eauto]. rewrite (eval_atom_env_ext e1 e' p X2 B1), V1. exact Hf.
    + now apply Hps.
Qed.

Lemma match_prems_complete : forall nu ps db e,
    compat nu e -> (forall p, In p ps -> In (eval_atom nu p) db) ->
    exists e', In e' (match_prems ps db e) /\ compat nu e'.
Proof.
  intros nu ps db. induction ps as [|p ps IH]; intros e Hc Hp; cbn.
  - exists e. split; [now left|assumption].
  - destruct (match_atom_complete nu p _ e Hc eq_refl) as (e1 & E1 & C1).
    destruct (IH e1 C1) as (e' & He' & C'); [intros p' Hp'; apply Hp; now right|].
    exists e'. split; [|assumption]. apply in_flat_map. exists (eval_atom nu p).
    split; [apply Hp; now left|]. now rewrite E1.
Qed.

Lemma eval_compat : forall nu e t, compat nu e -> (forall x, In x (term_vars t) -> bound e x) ->
                                   eval (env_val e) t = eval nu t.
Proof.
  intros nu e [x|c] Hc Hb; [|reflexivity]. cbn. unfold env_val.
  specialize (Hb x (or_introl eq_refl)). unfold bound in Hb.
  destruct (lookup x e) as [k|] eqn:E; [|congruence]. symmetry. now apply Hc.
Qed.
Lemma eval_atom_compat : forall nu e a, compat nu e -> atom_bound e a -> eval_atom (env_val e) a = eval_atom nu a.
Proof.
  intros nu e [[s p] o] Hc Hb. cbn.
  rewrite (eval_compat nu e s), (eval_compat nu e p), (eval_compat nu e o); auto;
    intros x Hx; apply Hb; unfold atom_vars; rewrite !in_app_iff; auto.
Qed.

Lemma fact_eqb_eq : forall a b, fact_eqb a b = true <-> a = b.
Proof.
  intros [[a1 a2] a3] [[b1 b2] b3]. unfold fact_eqb. rewrite !andb_true_iff, !N.eqb_eq.
  split; [intros [[-> ->] ->]; reflexivity|intros H; injection H as -> -> ->; auto].
Qed.
Lemma fact_mem_In : forall f l, fact_mem f l = true <-> In f l.
Proof.
  intros f l. unfold fact_mem. rewrite existsb_exists. split.
  - intros (x & Hx & E). apply fact_eqb_eq in E. now subst.
  - intros H. exists f. split; [assumption|now apply fact_eqb_eq].
Qed.
Lemma dedup_In : forall f l, In f (dedup l) <-> In f l.
Proof.
  intros f l. induction l as [|g l IH]; cbn; [tauto|].
  destruct (fact_mem g l) eqn:E.
  - rewrite IH. split; [auto|]. intros [<-|H]; [now apply fact_mem_In|assumption].
  - cbn. now rewrite IH.
Qed.

Section Level.
  Variable num : N -> Z.
  Variable F : list fact.
  Variable R : list rule.

  Lemma prem_vars_bound : forall ps e x,
      (forall p, In p ps -> atom_bound e p) -> In x (atoms_vars ps) -> bound e x.
  Proof.
    intros ps e x H Hx. unfold atoms_vars in Hx. apply in_flat_map in Hx. destruct Hx as (p & Hp & Hx).
    now apply (H p Hp).
  Qed.

  Lemma filters_compat : forall nu e fs,
      compat nu e -> (forall f x, In f fs -> In x (filter_vars f) -> bound e x) ->
      forallb (filter_holds num (env_val e)) fs = forallb (filter_holds num nu) fs.
  Proof.
    intros nu e fs Hc Hb. induction fs as [|f fs IH]; [reflexivity|]. cbn.
    rewrite IH by (intros g x Hg Hx; apply (Hb g x); [now right|assumption]). f_equal.
    assert (V : forall x, In x (filter_vars f) -> env_val e x = nu x).
    { intros x Hx. specialize (Hb f x (or_introl eq_refl) Hx). unfold bound in Hb. unfold env_val.
      destruct (lookup x e) as [k|] eqn:E; [|congruence]. symmetry. now apply Hc. }
    destruct f as [x op [z|y]]; unfold filter_holds; cbn in *.
    - now rewrite (V x (or_introl eq_refl)).
    - now rewrite (V x (or_introl eq_refl)), (V y (or_intror (or_introl eq_refl))).
  Qed.

  Lemma rule_consequences_spec : forall db r f,
      safe_rule r = true ->
      (In f (rule_consequences num db r) <->
       exists nu c, In c (concl r) /\ f = eval_atom nu c /\
                    (forall p, In p (prem r) -> In (eval_atom nu p) db) /\
                    forallb (filter_holds num nu) (filters r) = true).
  Proof.
    intros db r f Hsafe. unfold rule_consequences. rewrite in_flat_map. split.
    - intros (e & He & H). destruct (forallb (filter_holds num (env_val e)) (filters r)) eqn:Ef; [|contradiction].
      apply in_map_iff in H. destruct H as (c & <- & Hc).
      destruct (match_prems_sound _ _ _ _ He) as (_ & Hps).
      exists (env_val e), c. repeat split; auto. intros p Hp. now apply Hps.
    - intros (nu & c & Hc & -> & Hp & Hf).
      destruct (match_prems_complete nu (prem r) db [] ltac:(intros x k Hx; discriminate) Hp) as (e & He & Ce).
      destruct (match_prems_sound _ _ _ _ He) as (_ & Hps).
      assert (Hb : forall x, In x (atoms_vars (prem r)) -> bound e x).
      { intros x Hx. eapply prem_vars_bound; eauto. intros p Hp'. now apply Hps. }
      unfold safe_rule in Hsafe. apply andb_true_iff in Hsafe. destruct Hsafe as [S1 S2].
      rewrite forallb_forall in S1, S2.
      exists e. split; [assumption|].
      rewrite (filters_compat nu e (filters r) Ce), Hf.
      + apply in_map_iff. exists c. split; [|assumption]. apply eval_atom_compat; [assumption|].
        intros x Hx. apply Hb. apply mem_In. apply S1. unfold atoms_vars. apply in_flat_map. eauto.
      + intros g x Hg Hx. apply Hb. apply mem_In. specialize (S2 g Hg). rewrite forallb_forall in S2. now apply S2.
  Qed.

  Lemma step_spec : forall db f,
      safe_rules R = true ->
      (In f (step num F R db) <->
       In f F \/ exists r nu c, In r R /\ In c (concl r) /\ f = eval_atom nu c /\
                                (forall p, In p (prem r) -> In (eval_atom nu p) db) /\
                                forallb (filter_holds num nu) (filters r) = true).
  Proof.
    intros db f Hsafe. unfold step. rewrite dedup_In, in_app_iff, in_flat_map.
    unfold safe_rules in Hsafe. rewrite forallb_forall in Hsafe.
    split; (intros [H|H]; [now left|right]).
    - destruct H as (r & Hr & H). apply (rule_consequences_spec db r f (Hsafe r Hr)) in H.
      destruct H as (nu & c & H). exists r, nu, c. tauto.
    - destruct H as (r & nu & c & Hr & H). exists r. split; [assumption|].
      apply (rule_consequences_spec db r f (Hsafe r Hr)). exists nu, c. tauto.
  Qed.

  Lemma level_correct : forall h f,
      safe_rules R = true -> (In f (level num F R h) <-> derivable num F R h f).
  Proof.
    intros h f Hsafe. revert f. induction h as [|h IH]; intros f.
    - cbn. rewrite dedup_In. split; [now apply d_fact|]. intros H. now inversion H.
    - cbn [level]. rewrite (step_spec _ f Hsafe). split.
      + intros [H|(r & nu & c & Hr & Hc & -> & Hp & Hf)]; [now apply d_fact|].
        eapply d_rule; eauto. intros p Hin. apply IH. now apply Hp.
      + intros H. inversion H as [h0 f0 Hin|h0 r c nu Hr Hc Hp Hf Eh Ef]; subst; [now left|].
        right. exists r, nu, c. repeat split; auto. intros p Hin. apply IH. now apply Hp.
  Qed.
End Level.
