(* C18 - the depth-limited search: invariants of every binding map it produces (well-formed, names below the
   counter, counter monotone) and soundness with respect to the least model. *)
Require Import List NArith ZArith String Bool Lia.
Require Import KV.Backward.Model KV.Backward.Spec KV.Backward.NameProofs KV.Backward.SubstProofs KV.Backward.RenameProofs.
Import ListNotations.

(* ---- the least model ------------------------------------------------------------------------------------ *)
Lemma derivable_mono : forall num F R h f, derivable num F R h f -> forall h', (h <= h')%nat -> derivable num F R h' f.
Proof.
  intros num F R h f H. induction H as [h f Hin|h r c nu Hr Hc Hp IH Hf]; intros h' Hle.
  - now apply d_fact.
  - destruct h' as [|h']; [lia|]. eapply d_rule; eauto. intros p Hin. apply IH; [assumption|lia].
Qed.

Lemma lm_common_height : forall num F R nu ps,
    Forall (fun p => least_model num F R (eval_atom nu p)) ps ->
    exists h, forall p, In p ps -> derivable num F R h (eval_atom nu p).
Proof.
  intros num F R nu ps H. induction H as [|p ps [h Hp] _ [h' IH]].
  - exists O. intros p [].
  - exists (Nat.max h h'). intros p' [<-|Hin].
    + eapply derivable_mono; [exact Hp|lia].
    + eapply derivable_mono; [exact (IH p' Hin)|lia].
Qed.

Definition erase_rule (r : rule) : rule := Rule (prem r) (concl r) [].
Definition erase (R : list rule) : list rule := map erase_rule R.

Lemma erase_unfiltered : forall R, known_C18 R = false -> erase R = R.
Proof.
  induction R as [|r R IH]; intros H; [reflexivity|]. cbn in H. apply orb_false_iff in H. destruct H as [H1 H2].
  change (erase (r :: R)) with (erase_rule r :: erase R). rewrite (IH H2). f_equal.
  destruct r as [ps cs fs]. cbn in *. destruct fs; [reflexivity|discriminate].
Qed.

Section Sound.
  Variable num : N -> Z.
  Variable F : list fact.
  Variable R : list rule.
  Let LM := least_model num F (erase R).

  Lemma lm_rule : forall r c nu,
      In r R -> In c (concl r) -> Forall (fun p => LM (eval_atom nu p)) (prem r) -> LM (eval_atom nu c).
  Proof.
    intros r c nu Hr Hc Hp. destruct (lm_common_height _ _ _ _ _ Hp) as [h Hh].
    exists (S h). apply (d_rule num F (erase R) h (erase_rule r) c nu); auto.
    unfold erase. now apply in_map.
  Qed.

  (* ---- invariants --------------------------------------------------------------------------------------- *)
  Definition good (n : N) (th : subst) : Prop := wf th /\ subst_below n th.
  Definition rec_inv (rec : atom -> subst -> N -> list subst * N) : Prop :=
    forall q th n res n', good n th -> atom_below n q -> rec q th n = (res, n') ->
                          (n <= n')%N /\ Forall (good n') res.

  Lemma good_mono : forall n n' th, (n <= n')%N -> good n th -> good n' th.
  Proof. intros n n' th Hle [H1 H2]. split; eauto using subst_below_mono. Qed.
  Lemma Forall_good_mono : forall n n' l, (n <= n')%N -> Forall (good n) l -> Forall (good n') l.
  Proof. intros n n' l Hle H. eapply Forall_impl; [|exact H]. intros th. now apply good_mono. Qed.
  Lemma Forall_below_mono : forall n n' l, (n <= n')%N -> Forall (atom_below n) l -> Forall (atom_below n') l.
  Proof. intros n n' l Hle H. eapply Forall_impl; [|exact H]. intros a. now apply atom_below_mono. Qed.

  Section Nest.
    Variable rec : atom -> subst -> N -> list subst * N.
    Hypothesis Hrec : rec_inv rec.

    Lemma solve_each_inv : forall p bs n res n',
        Forall (good n) bs -> atom_below n p -> solve_each rec p bs n = (res, n') ->
        (n <= n')%N /\ Forall (good n') res.
    Proof.
      intros p bs. induction bs as [|b bs IH]; intros n res n' Hb Hp H; cbn in H.
      - injection H as <- <-. split; [lia|constructor].
      - destruct (rec p b n) as [r n1] eqn:E1. destruct (solve_each rec p bs n1) as [rs' n2] eqn:E2.
        injection H as <- <-. inversion Hb as [|? ? Hb1 Hb2]; subst.
        destruct (Hrec _ _ _ _ _ Hb1 Hp E1) as [L1 G1].
        destruct (IH n1 rs' n2 (Forall_good_mono _ _ _ L1 Hb2) (atom_below_mono _ _ _ L1 Hp) E2) as [L2 G2].
        split; [lia|]. apply Forall_app. split; [|assumption]. eapply Forall_good_mono; eauto.
    Qed.

    Lemma solve_prems_inv : forall ps bs n res n',
        Forall (good n) bs -> Forall (atom_below n) ps -> solve_prems rec ps bs n = (res, n') ->
        (n <= n')%N /\ Forall (good n') res.
    Proof.
      intros ps. induction ps as [|p ps IH]; intros bs n res n' Hb Hp H; cbn in H.
      - injection H as <- <-. split; [lia|assumption].
      - destruct (solve_each rec p bs n) as [bs' n1] eqn:E1.
        inversion Hp as [|? ? Hp1 Hp2]; subst.
        destruct (solve_each_inv _ _ _ _ _ Hb Hp1 E1) as [L1 G1].
        destruct (IH bs' n1 res n' G1 (Forall_below_mono _ _ _ L1 Hp2) H) as [L2 G2].
        split; [lia|assumption].
    Qed.

    Lemma solve_concls_inv : forall sq th ps cs n res n',
        good n th -> atom_below n sq -> Forall (atom_below n) ps -> Forall (atom_below n) cs ->
        solve_concls rec sq th ps cs n = (res, n') ->
        (n <= n')%N /\ Forall (good n') res.
    Proof.
      intros sq th ps cs. induction cs as [|c cs IH]; intros n res n' Hth Hsq Hps Hcs H; cbn in H.
      - injection H as <- <-. split; [lia|constructor].
      - inversion Hcs as [|? ? Hc1 Hc2]; subst.
        destruct (unify_patterns c sq th) as [rb|] eqn:Eu.
        + destruct (solve_prems rec ps [rb] n) as [r n1] eqn:E1.
          destruct (solve_concls rec sq th ps cs n1) as [rs' n2] eqn:E2.
          injection H as <- <-.
          assert (Grb : good n rb).
          { destruct Hth as [W B]. split; [exact (unify_patterns_wf c sq th rb W Eu)|exact (unify_patterns_below n c sq th rb B Hc1 Hsq Eu)]. }
          destruct (solve_prems_inv _ _ _ _ _ (Forall_cons _ Grb (Forall_nil _)) Hps E1) as [L1 G1].
          destruct (IH n1 rs' n2 (good_mono _ _ _ L1 Hth) (atom_below_mono _ _ _ L1 Hsq)
                       (Forall_below_mono _ _ _ L1 Hps) (Forall_below_mono _ _ _ L1 Hc2) E2) as [L2 G2].
          split; [lia|]. apply Forall_app. split; [|assumption]. eapply Forall_good_mono; eauto.
        + eapply IH; eauto.
    Qed.

    Lemma renamed_below : forall r n rr n',
        rename_rule_variables r n = (rr, n') ->
        (n <= n')%N /\ Forall (atom_below n') (prem rr) /\ Forall (atom_below n') (concl rr).
    Proof.
      intros r n rr n' H. destruct (rename_rule_spec _ _ _ _ H) as (vm & Hok & Hle & Hp & Hc & Cp & Cc & _).
      split; [assumption|]. rewrite Hp, Hc. split; apply Forall_forall; intros a Ha;
        apply in_map_iff in Ha; destruct Ha as (a0 & <- & Ha0); eapply ren_atom_below; eauto;
          [rewrite Forall_forall in Cp|rewrite Forall_forall in Cc]; auto.
    Qed.

    Lemma solve_rules_inv : forall sq th rs n res n',
        good n th -> atom_below n sq -> solve_rules rec sq th rs n = (res, n') ->
        (n <= n')%N /\ Forall (good n') res.
    Proof.
      intros sq th rs. induction rs as [|r rs IH]; intros n res n' Hth Hsq H; cbn in H.
      - injection H as <- <-. split; [lia|constructor].
      - destruct (rename_rule_variables r n) as [rr n1] eqn:Er.
        destruct (solve_concls rec sq th (prem rr) (concl rr) n1) as [res1 n2] eqn:E1.
        destruct (solve_rules rec sq th rs n2) as [rest n3] eqn:E2.
        injection H as <- <-.
        destruct (renamed_below _ _ _ _ Er) as (L0 & Bp & Bc).
        destruct (solve_concls_inv _ _ _ _ _ _ _ (good_mono _ _ _ L0 Hth) (atom_below_mono _ _ _ L0 Hsq) Bp Bc E1) as [L1 G1].
        assert (L01 : (n <= n2)%N) by lia.
        destruct (IH n2 rest n3 (good_mono _ _ _ L01 Hth) (atom_below_mono _ _ _ L01 Hsq) E2) as [L2 G2].
        split; [lia|]. apply Forall_app. split; [|assumption]. eapply Forall_good_mono; eauto.
    Qed.

    Lemma match_facts_inv : forall sq th n fs,
        good n th -> atom_below n sq -> Forall (good n) (match_facts sq th fs).
    Proof.
      intros sq th n fs Hth Hsq. induction fs as [|f fs IH]; cbn; [constructor|].
      destruct (unify_patterns sq (fact_pattern f) th) as [nb|] eqn:Eu; [|assumption].
      constructor; [|assumption]. destruct Hth as [W B].
      split; [exact (unify_patterns_wf _ _ th nb W Eu)|exact (unify_patterns_below n _ _ th nb B Hsq (fact_pattern_below n f) Eu)].
    Qed.

    Lemma helper_body_inv : forall q th n res n',
        good n th -> atom_below n q -> helper_body F R rec q th n = (res, n') ->
        (n <= n')%N /\ Forall (good n') res.
    Proof.
      intros q th n res n' Hth Hq H. unfold helper_body in H.
      destruct (solve_rules rec (substitute th q) th R n) as [rr n1] eqn:E. injection H as <- <-.
      assert (Hsq : atom_below n (substitute th q)) by (apply substitute_below; [apply Hth|assumption]).
      destruct (solve_rules_inv _ _ _ _ _ _ Hth Hsq E) as [L G].
      split; [assumption|]. apply Forall_app. split; [|assumption].
      eapply Forall_good_mono; [exact L|]. now apply match_facts_inv.
    Qed.
  End Nest.

  Lemma helper_inv : forall k, rec_inv (helper F R k).
  Proof.
    induction k as [|k IH]; intros q th n res n' Hth Hq H; cbn in H.
    - injection H as <- <-. split; [lia|constructor].
    - eapply helper_body_inv; eauto.
  Qed.

  Lemma good_nil : forall n, good n [].
  Proof. intros n. split; [constructor|intros x t []]. Qed.

  Lemma backward_chaining_wf : forall q th, In th (backward_chaining F R q) -> wf th.
  Proof.
    intros q th H. unfold backward_chaining in H.
    destruct (helper F R (S MAX_DEPTH) q [] (first_fresh_variable_index q)) as [res n'] eqn:E.
    destruct (helper_inv _ _ _ _ _ _ (good_nil _) (first_fresh_below q) E) as [_ G].
    rewrite Forall_forall in G. now apply G.
  Qed.

  (* ---- soundness ---------------------------------------------------------------------------------------- *)
  Definition rec_sound (rec : atom -> subst -> N -> list subst * N) : Prop :=
    forall q th n th', In th' (fst (rec q th n)) -> forall nu, sat nu th' -> sat nu th /\ LM (eval_atom nu q).

  Section NestSound.
    Variable rec : atom -> subst -> N -> list subst * N.
    Hypothesis Hrec : rec_sound rec.

    Lemma solve_each_sound : forall p bs n th',
        In th' (fst (solve_each rec p bs n)) ->
        exists b, In b bs /\ forall nu, sat nu th' -> sat nu b /\ LM (eval_atom nu p).
    Proof.
      intros p bs. induction bs as [|b bs IH]; intros n th' H; cbn in H; [contradiction|].
      destruct (rec p b n) as [r n1] eqn:E1. destruct (solve_each rec p bs n1) as [rs' n2] eqn:E2.
      cbn in H. apply in_app_or in H. destruct H as [H|H].
      - exists b. split; [now left|]. intros nu Hs. apply (Hrec p b n th'); [now rewrite E1|assumption].
      - destruct (IH n1 th') as (b' & Hb' & Hs'); [now rewrite E2|]. exists b'. split; [now right|assumption].
    Qed.

    Lemma solve_prems_sound : forall ps bs n th',
        In th' (fst (solve_prems rec ps bs n)) ->
        exists b, In b bs /\ forall nu, sat nu th' -> sat nu b /\ Forall (fun p => LM (eval_atom nu p)) ps.
    Proof.
      intros ps. induction ps as [|p ps IH]; intros bs n th' H; cbn in H.
      - exists th'. split; [assumption|]. intros nu Hs. split; [assumption|constructor].
      - destruct (solve_each rec p bs n) as [bs' n1] eqn:E1.
        destruct (IH bs' n1 th' H) as (b' & Hb' & Hs').
        destruct (solve_each_sound p bs n b') as (b & Hb & Hsb); [now rewrite E1|].
        exists b. split; [assumption|]. intros nu Hs.
        destruct (Hs' nu Hs) as [S1 A1]. destruct (Hsb nu S1) as [S2 A2]. split; [assumption|now constructor].
    Qed.

    Lemma solve_concls_sound : forall sq th ps cs n th',
        In th' (fst (solve_concls rec sq th ps cs n)) ->
        exists c, In c cs /\ forall nu, sat nu th' ->
                                        sat nu th /\ eval_atom nu c = eval_atom nu sq /\
                                        Forall (fun p => LM (eval_atom nu p)) ps.
    Proof.
      intros sq th ps cs. induction cs as [|c cs IH]; intros n th' H; cbn in H; [contradiction|].
      destruct (unify_patterns c sq th) as [rb|] eqn:Eu.
      - destruct (solve_prems rec ps [rb] n) as [r n1] eqn:E1.
        destruct (solve_concls rec sq th ps cs n1) as [rs' n2] eqn:E2.
        cbn in H. apply in_app_or in H. destruct H as [H|H].
        + destruct (solve_prems_sound ps [rb] n th') as (b & Hb & Hsb); [now rewrite E1|].
          destruct Hb as [<-|[]]. exists c. split; [now left|]. intros nu Hs.
          destruct (Hsb nu Hs) as [S1 A1]. destruct (unify_patterns_sound nu _ _ _ _ Eu S1) as [S0 He].
          auto.
        + destruct (IH n1 th') as (c' & Hc' & Hs'); [now rewrite E2|]. exists c'. split; [now right|assumption].
      - destruct (IH n th' H) as (c' & Hc' & Hs'). exists c'. split; [now right|assumption].
    Qed.

    Lemma solve_rules_sound : forall sq th rs n th',
        incl rs R -> In th' (fst (solve_rules rec sq th rs n)) ->
        forall nu, sat nu th' -> sat nu th /\ LM (eval_atom nu sq).
    Proof.
      intros sq th rs. induction rs as [|r rs IH]; intros n th' Hincl H nu Hs; cbn in H; [contradiction|].
      destruct (rename_rule_variables r n) as [rr n1] eqn:Er.
      destruct (solve_concls rec sq th (prem rr) (concl rr) n1) as [res1 n2] eqn:E1.
      destruct (solve_rules rec sq th rs n2) as [rest n3] eqn:E2.
      cbn in H. apply in_app_or in H. destruct H as [H|H].
      - destruct (solve_concls_sound sq th (prem rr) (concl rr) n1 th') as (c' & Hc' & Hsc); [now rewrite E1|].
        destruct (Hsc nu Hs) as (S0 & He & Hp). split; [assumption|].
        destruct (rename_rule_spec _ _ _ _ Er) as (vm & Hok & Hle & Epm & Ecl & _).
        rewrite Ecl in Hc'. apply in_map_iff in Hc'. destruct Hc' as (c & <- & Hc).
        rewrite <- He, <- eval_atom_pull.
        apply (lm_rule r c); [apply Hincl; now left|assumption|].
        rewrite Epm in Hp. rewrite Forall_forall in *. intros p Hin. rewrite eval_atom_pull.
        apply Hp. now apply in_map.
      - apply (IH n2 th'); [intros x Hx; apply Hincl; now right|now rewrite E2|assumption].
    Qed.

    Lemma match_facts_sound : forall sq th fs th',
        incl fs F -> In th' (match_facts sq th fs) -> forall nu, sat nu th' -> sat nu th /\ LM (eval_atom nu sq).
    Proof.
      intros sq th fs. induction fs as [|f fs IH]; intros th' Hincl H nu Hs; cbn in H; [contradiction|].
      assert (Hfs : incl fs F) by (intros x Hx; apply Hincl; now right).
      destruct (unify_patterns sq (fact_pattern f) th) as [nb|] eqn:Eu; [|now apply (IH th')].
      destruct H as [<-|H]; [|now apply (IH th')].
      destruct (unify_patterns_sound nu _ _ _ _ Eu Hs) as [S0 He]. split; [assumption|].
      rewrite He, fact_pattern_eval. exists O. apply d_fact. apply Hincl. now left.
    Qed.

    Lemma helper_body_sound : rec_sound (helper_body F R rec).
    Proof.
      intros q th n th' H nu Hs. unfold helper_body in H.
      destruct (solve_rules rec (substitute th q) th R n) as [rr n1] eqn:E. cbn in H.
      assert (X : sat nu th /\ LM (eval_atom nu (substitute th q))).
      { apply in_app_or in H. destruct H as [H|H].
        - eapply match_facts_sound; eauto. apply incl_refl.
        - eapply (solve_rules_sound _ th R n th'); eauto; [apply incl_refl|now rewrite E]. }
      destruct X as [S0 L]. split; [assumption|]. now rewrite eval_substitute in L.
    Qed.
  End NestSound.

  Lemma helper_sound : forall k, rec_sound (helper F R k).
  Proof.
    induction k as [|k IH]; intros q th n th' H; cbn in H; [contradiction|].
    now apply (helper_body_sound _ IH q th n th').
  Qed.

  (* every ground instance of every answer is in the least model of the program with its filters erased *)
  Lemma sound_erased : forall q th, In th (backward_chaining F R q) ->
                                    forall nu, LM (eval_atom nu (apply_answer th q)).
  Proof.
    intros q th H nu. pose proof (backward_chaining_wf q th H) as Hwf.
    rewrite <- eval_atom_compose by assumption.
    unfold backward_chaining in H.
    apply (helper_sound _ _ _ _ _ H). now apply sat_compose.
  Qed.
End Sound.

Lemma sound : forall num F R q th,
    known_C18 R = false -> In th (backward_chaining F R q) ->
    forall nu, least_model num F R (eval_atom nu (apply_answer th q)).
Proof.
  intros num F R q th Hk H nu. pose proof (sound_erased num F R q th H nu) as X.
  now rewrite (erase_unfiltered R Hk) in X.
Qed.
