(* C18 - the depth-limited search: invariants of every binding map it produces (well-formed, names below the
   counter, counter monotone), and two facts about the least model. *)
Require Import List NArith ZArith String Bool Lia.
Require Import KV.Backward.Model KV.Backward.Spec KV.Backward.NameProofs KV.Backward.SubstProofs KV.Backward.RenameProofs.
Import ListNotations.

(* ---- the least model ------------------------------------------------------------------------------------ *)
Lemma derivable_mono : forall num F R h f, derivable num F R h f -> forall h', (h <= h')%nat -> derivable num F R h' f.
Proof.
  intros num F R h f H. induction H as [h f Hin|h r c nu Hr Hc Hp IH Hf]; intros h' Hle.
  - now apply d_fact.
  - destruct h' as [|h']; [lia|]. eapply d_rule; eauto. intros p Hin. apply IH; [assumption|lia].
Qed.

Lemma lm_common_height : forall num F R nu ps,
    Forall (fun p => least_model num F R (eval_atom nu p)) ps ->
    exists h, forall p, In p ps -> derivable num F R h (eval_atom nu p).
Proof.
  intros num F R nu ps H. induction H as [|p ps [h Hp] _ [h' IH]].
  - exists O. intros p [].
  - exists (Nat.max h h'). intros p' [<-|Hin].
    + eapply derivable_mono; [exact Hp|lia].
    + eapply derivable_mono; [exact (IH p' Hin)|lia].
Qed.

Section Inv.
  Variable num : N -> Z.
  Variable F : list fact.
  Variable R : list rule.
  (* ---- invariants --------------------------------------------------------------------------------------- *)
  Definition good (n : N) (th : subst) : Prop := wf th /\ subst_below n th.
  Definition rec_inv (rec : atom -> subst -> N -> list subst * N) : Prop :=
    forall q th n res n', good n th -> atom_below n q -> rec q th n = (res, n') ->
                          (n <= n')%N /\ Forall (good n') res.

  Lemma good_mono : forall n n' th, (n <= n')%N -> good n th -> good n' th.
  Proof. intros n n' th Hle [H1 H2]. split; eauto using subst_below_mono. Qed.
  Lemma Forall_good_mono : forall n n' l, (n <= n')%N -> Forall (good n) l -> Forall (good n') l.
  Proof. intros n n' l Hle H. eapply Forall_impl; [|exact H]. intros th. now apply good_mono. Qed.
  Lemma Forall_below_mono : forall n n' l, (n <= n')%N -> Forall (atom_below n) l -> Forall (atom_below n') l.
  Proof. intros n n' l Hle H. eapply Forall_impl; [|exact H]. intros a. now apply atom_below_mono. Qed.

  Section Nest.
    Variable rec : atom -> subst -> N -> list subst * N.
    Hypothesis Hrec : rec_inv rec.

    Lemma solve_each_inv : forall p bs n res n',
        Forall (good n) bs -> atom_below n p -> solve_each rec p bs n = (res, n') ->
        (n <= n')%N /\ Forall (good n') res.
    Proof.
      intros p bs. induction bs as [|b bs IH]; intros n res n' Hb Hp H; cbn in H.
      - injection H as <- <-. split; [lia|constructor].
      - destruct (rec p b n) as [r n1] eqn:E1. destruct (solve_each rec p bs n1) as [rs' n2] eqn:E2.
        injection H as <- <-. inversion Hb as [|? ? Hb1 Hb2]; subst.
        destruct (Hrec _ _ _ _ _ Hb1 Hp E1) as [L1 G1].
        destruct (IH n1 rs' n2 (Forall_good_mono _ _ _ L1 Hb2) (atom_below_mono _ _ _ L1 Hp) E2) as [L2 G2].
        split; [lia|]. apply Forall_app. split; [|assumption]. eapply Forall_good_mono; eauto.
    Qed.

    Lemma solve_prems_inv : forall ps bs n res n',
        Forall (good n) bs -> Forall (atom_below n) ps -> solve_prems rec ps bs n = (res, n') ->
        (n <= n')%N /\ Forall (good n') res.
    Proof.
      intros ps. induction ps as [|p ps IH]; intros bs n res n' Hb Hp H; cbn in H.
      - injection H as <- <-. split; [lia|assumption].
      - destruct (solve_each rec p bs n) as [bs' n1] eqn:E1.
        inversion Hp as [|? ? Hp1 Hp2]; subst.
        destruct (solve_each_inv _ _ _ _ _ Hb Hp1 E1) as [L1 G1].
        destruct (IH bs' n1 res n' G1 (Forall_below_mono _ _ _ L1 Hp2) H) as [L2 G2].
        split; [lia|assumption].
    Qed.

    Lemma Forall_filter : forall A (P : A -> Prop) f l, Forall P l -> Forall P (List.filter f l).
    Proof.
      intros A P f l H. rewrite Forall_forall in *. intros x Hx. apply filter_In in Hx. now apply H.
    Qed.

    Lemma solve_concls_inv : forall sq th ps fs cs n res n',
        good n th -> atom_below n sq -> Forall (atom_below n) ps -> Forall (atom_below n) cs ->
        solve_concls num rec sq th ps fs cs n = (res, n') ->
        (n <= n')%N /\ Forall (good n') res.
    Proof.
      intros sq th ps fs cs. induction cs as [|c cs IH]; intros n res n' Hth Hsq Hps Hcs H; cbn in H.
      - injection H as <- <-. split; [lia|constructor].
      - inversion Hcs as [|? ? Hc1 Hc2]; subst.
        destruct (unify_patterns c sq th) as [rb|] eqn:Eu.
        + destruct (solve_prems rec ps [rb] n) as [r n1] eqn:E1.
          destruct (solve_concls num rec sq th ps fs cs n1) as [rs' n2] eqn:E2.
          injection H as <- <-.
          assert (Grb : good n rb).
          { destruct Hth as [W B]. split; [exact (unify_patterns_wf c sq th rb W Eu)|exact (unify_patterns_below n c sq th rb B Hc1 Hsq Eu)]. }
          destruct (solve_prems_inv _ _ _ _ _ (Forall_cons _ Grb (Forall_nil _)) Hps E1) as [L1 G1].
          destruct (IH n1 rs' n2 (good_mono _ _ _ L1 Hth) (atom_below_mono _ _ _ L1 Hsq)
                       (Forall_below_mono _ _ _ L1 Hps) (Forall_below_mono _ _ _ L1 Hc2) E2) as [L2 G2].
          split; [lia|]. apply Forall_app. split; [|assumption]. apply Forall_filter. eapply Forall_good_mono; eauto.
        + eapply IH; eauto.
    Qed.

    Lemma renamed_below : forall r n rr n',
        rename_rule_variables r n = (rr, n') ->
        (n <= n')%N /\ Forall (atom_below n') (prem rr) /\ Forall (atom_below n') (concl rr).
    Proof.
      intros r n rr n' H. destruct (rename_rule_spec _ _ _ _ H) as (vm & Hok & Hle & Hp & Hc & Cp & Cc & _).
      split; [assumption|]. rewrite Hp, Hc. split; apply Forall_forall; intros a Ha;
        apply in_map_iff in Ha; destruct Ha as (a0 & <- & Ha0); eapply ren_atom_below; eauto;
          [rewrite Forall_forall in Cp|rewrite Forall_forall in Cc]; auto.
    Qed.

    Lemma solve_rules_inv : forall sq th rs n res n',
        good n th -> atom_below n sq -> solve_rules num rec sq th rs n = (res, n') ->
        (n <= n')%N /\ Forall (good n') res.
    Proof.
      intros sq th rs. induction rs as [|r rs IH]; intros n res n' Hth Hsq H; cbn in H.
      - injection H as <- <-. split; [lia|constructor].
      - destruct (rename_rule_variables r n) as [rr n1] eqn:Er.
        destruct (solve_concls num rec sq th (prem rr) (filters rr) (concl rr) n1) as [res1 n2] eqn:E1.
        destruct (solve_rules num rec sq th rs n2) as [rest n3] eqn:E2.
        injection H as <- <-.
        destruct (renamed_below _ _ _ _ Er) as (L0 & Bp & Bc).
        destruct (solve_concls_inv _ _ _ _ _ _ _ _ (good_mono _ _ _ L0 Hth) (atom_below_mono _ _ _ L0 Hsq) Bp Bc E1) as [L1 G1].
        assert (L01 : (n <= n2)%N) by lia.
        destruct (IH n2 rest n3 (good_mono _ _ _ L01 Hth) (atom_below_mono _ _ _ L01 Hsq) E2) as [L2 G2].
        split; [lia|]. apply Forall_app. split; [|assumption]. eapply Forall_good_mono; eauto.
    Qed.

    Lemma match_facts_inv : forall sq th n fs,
        good n th -> atom_below n sq -> Forall (good n) (match_facts sq th fs).
    Proof.
      intros sq th n fs Hth Hsq. induction fs as [|f fs IH]; cbn; [constructor|].
      destruct (unify_patterns sq (fact_pattern f) th) as [nb|] eqn:Eu; [|assumption].
      constructor; [|assumption]. destruct Hth as [W B].
      split; [exact (unify_patterns_wf _ _ th nb W Eu)|exact (unify_patterns_below n _ _ th nb B Hsq (fact_pattern_below n f) Eu)].
    Qed.

    Lemma helper_body_inv : forall q th n res n',
        good n th -> atom_below n q -> helper_body num F R rec q th n = (res, n') ->
        (n <= n')%N /\ Forall (good n') res.
    Proof.
      intros q th n res n' Hth Hq H. unfold helper_body in H.
      destruct (solve_rules num rec (substitute th q) th R n) as [rr n1] eqn:E. injection H as <- <-.
      assert (Hsq : atom_below n (substitute th q)) by (apply substitute_below; [apply Hth|assumption]).
      destruct (solve_rules_inv _ _ _ _ _ _ Hth Hsq E) as [L G].
      split; [assumption|]. apply Forall_app. split; [|assumption].
      eapply Forall_good_mono; [exact L|]. now apply match_facts_inv.
    Qed.
  End Nest.

  Lemma helper_inv : forall k, rec_inv (helper num F R k).
  Proof.
    induction k as [|k IH]; intros q th n res n' Hth Hq H; cbn in H.
    - injection H as <- <-. split; [lia|constructor].
    - eapply helper_body_inv; eauto.
  Qed.

  Lemma good_nil : forall n, good n [].
  Proof. intros n. split; [constructor|intros x t []]. Qed.

  Lemma backward_chaining_good : forall q, exists n, Forall (good n) (backward_chaining num F R q).
  Proof.
    intros q. unfold backward_chaining.
    destruct (helper num F R (S MAX_DEPTH) q [] (first_fresh_variable_index q)) as [res n'] eqn:E.
    destruct (helper_inv _ _ _ _ _ _ (good_nil _) (first_fresh_below q) E) as [_ G]. exists n'. exact G.
  Qed.

  Lemma backward_chaining_wf : forall q th, In th (backward_chaining num F R q) -> wf th.
  Proof.
    intros q th H. destruct (backward_chaining_good q) as [n G]. rewrite Forall_forall in G. now apply (G th H).
  Qed.
End Inv.
