(* C19 - Inconsistency-tolerant answers are those true in every maximal repair.
   This file contains only the property theorems; each is closed by `exact <lemma>` (or a
   `vm_compute` witness) and followed by Print Assumptions.  The lemmas live in *Proofs.v.

   Reading guide.  `F` is the fact set of the store IN THE ORDER IN WHICH THE PROCESS ITERATES ITS
   HASH SET (Model.v): quantifying over all duplicate-free lists F with the same elements is
   quantifying over all hash iteration orders.  `violates cs` is the model of
   `violates_constraints` for the constraint list cs; `maxrepair viol F S` is the textbook
   definition (Spec.v): S is a consistent subset of F and no consistent subset of F properly
   extends it.  `sublists F` are the subsets of F listed in F's order, each exactly once. *)
Require Import List NArith Bool Permutation.
Require Import KV.Repairs.Model KV.Repairs.Spec KV.Repairs.SetProofs KV.Repairs.SearchProofs
               KV.Repairs.MatchProofs KV.Repairs.QueryProofs KV.Repairs.MatProofs KV.Repairs.SpecProofs.
Import ListNotations.
Open Scope N_scope.

(* What "violates the integrity constraints" means: some non-empty constraint body is sent into
   the fact set by one substitution of its variables.  (This is the join-based test of the code.) *)
Theorem C19_violation_is_match :
  forall (cs : list constraint) (S : list fact), violates cs S = true <-> sat_violates cs S.
Proof. exact violates_iff. Qed.
Print Assumptions C19_violation_is_match.

(* Constraints are positive: a superset of a violating set violates; the empty set never does. *)
Theorem C19_violation_monotone :
  forall cs, monotone (violates cs) /\ violates cs [] = false.
Proof. exact violates_monotone_nil. Qed.
Print Assumptions C19_violation_monotone.

(* EXACTNESS, for every iteration order: the search terminates within its fuel and the list it
   returns contains, each exactly once, precisely the subset-maximal consistent subsets. *)
Theorem C19_exact :
  forall (cs : list constraint) (F : list fact), NoDup F ->
  exists R, compute_repairs (violates cs) F = Some R /\ NoDup R /\
            forall S, In S R <-> In S (sublists F) /\ maxrepair (violates cs) F S.
Proof. exact repairs_exact. Qed.
Print Assumptions C19_exact.

(* the same for any monotone violation test (this is all the search relies on) *)
Theorem C19_exact_generic :
  forall (viol : list fact -> bool), monotone viol ->
  forall F, NoDup F ->
  exists R, compute_repairs viol F = Some R /\ NoDup R /\
            forall S, In S R <-> In S (sublists F) /\ maxrepair viol F S.
Proof. exact compute_repairs_exact. Qed.
Print Assumptions C19_exact_generic.

(* the loop alone (the code before commit 2aecba6): sound and complete, but not exact *)
Theorem C19_all_maximal_found :
  forall (cs : list constraint) (F : list fact), NoDup F ->
  exists C, candidates (violates cs) F = Some C /\
    (forall S, In S C -> In S (sublists F) /\ violates cs S = false) /\
    (forall M, maxrepair (violates cs) F M -> exists R0, In R0 C /\ seteq R0 M).
Proof. exact all_maximal_found. Qed.
Print Assumptions C19_all_maximal_found.

(* every maximal repair, given as any list, is represented in the result *)
Theorem C19_every_repair_found :
  forall cs F S, NoDup F -> maxrepair (violates cs) F S ->
  exists R S', compute_repairs (violates cs) F = Some R /\ In S' R /\ seteq S' S.
Proof. exact every_repair_found. Qed.
Print Assumptions C19_every_repair_found.

(* IAR ANSWERS.  An answer is a binding b of the goal pattern's variables (the HashMap the code
   returns); it "holds in S" when the goal instantiated by b is a fact of S (Spec.holds).
   query_with_repairs returns, without repetition, exactly the bindings that hold in every
   maximal repair. *)
Theorem C19_iar :
  forall (cs : list constraint) (F : list fact) (q : pattern), NoDup F ->
  exists A, query_with_repairs cs F q = Some A /\ NoDup A /\
            forall b, In b A <-> (forall S, maxrepair (violates cs) F S -> holds q b S).
Proof. exact query_iar. Qed.
Print Assumptions C19_iar.

(* A fact involved in no conflict (adding it to a consistent subset never violates) is always
   answered by every goal that matches it. *)
Theorem C19_conflict_free_answered :
  forall cs F q f b, NoDup F ->
  In f F -> conflict_free (violates cs) F f -> match_pat q f [] = Some b ->
  exists A, query_with_repairs cs F q = Some A /\ In b A.
Proof. exact conflict_free_answered. Qed.
Print Assumptions C19_conflict_free_answered.

(* in particular a fact that matches no atom of any constraint *)
Theorem C19_unconstrained_fact_answered :
  forall cs F q f b, NoDup F -> In f F ->
  (forall c p, In c cs -> In p c -> match_pat p f [] = None) ->
  match_pat q f [] = Some b ->
  exists A, query_with_repairs cs F q = Some A /\ In b A.
Proof. exact unconstrained_fact_answered. Qed.
Print Assumptions C19_unconstrained_fact_answered.

(* DETERMINISM = independence from the iteration order: two orders of the same fact set give the
   same repairs (as sets of sets) and the same answers (as sets of bindings). *)
Theorem C19_repairs_deterministic :
  forall cs F F' R R', NoDup F -> Permutation F F' ->
  compute_repairs (violates cs) F = Some R -> compute_repairs (violates cs) F' = Some R' ->
  (forall S, In S R -> exists S', In S' R' /\ seteq S S') /\
  (forall S', In S' R' -> exists S, In S R /\ seteq S' S) /\
  length R = length R'.
Proof. exact repairs_deterministic. Qed.
Print Assumptions C19_repairs_deterministic.

Theorem C19_answers_deterministic :
  forall cs F F' q A A', NoDup F -> Permutation F F' ->
  query_with_repairs cs F q = Some A -> query_with_repairs cs F' q = Some A' ->
  forall b, In b A <-> In b A'.
Proof. exact answers_order_independent. Qed.
Print Assumptions C19_answers_deterministic.

(* MATERIALISATION.  Whatever the iteration orders (ord is applied wherever a hash set is
   iterated) and whenever the loop stops within the fuel, the store it leaves violates no
   constraint.  (Which facts it contains does depend on the order: the largest repair is chosen
   with ties broken by position, and of two mutually conflicting consequences the first derived
   wins - the property only demands consistency.) *)
Theorem C19_materialise_consistent :
  forall fuel cs rules ord F ds inferred,
  NoDup F -> (forall l, Permutation (ord l) l) ->
  materialise fuel cs rules ord F = Some (ds, inferred) ->
  violates cs ds = false.
Proof. exact materialise_consistent. Qed.
Print Assumptions C19_materialise_consistent.

(* ... and it does stop: |U|^3 + 1 rounds suffice, U = ids of the facts, of the rule heads, and 0 *)
Theorem C19_materialise_ends_consistent :
  forall cs rules ord F,
  NoDup F -> (forall l, Permutation (ord l) l) ->
  exists ds inferred, materialise (mat_fuel rules F) cs rules ord F = Some (ds, inferred) /\
                      violates cs ds = false.
Proof. exact materialise_ends_consistent. Qed.
Print Assumptions C19_materialise_ends_consistent.

(* What the final store consists of: the start set followed by inferred_so_far, without
   repetition; the start set is the input when that is consistent, otherwise a maximal repair of
   maximum cardinality. *)
Theorem C19_materialise_shape :
  forall fuel cs rules ord F ds inferred,
  NoDup F -> (forall l, Permutation (ord l) l) ->
  materialise fuel cs rules ord F = Some (ds, inferred) ->
  exists base, ds = base ++ inferred /\ NoDup ds /\
    (violates cs F = false -> base = F) /\
    (violates cs F = true ->
       maxrepair (violates cs) F base /\
       forall S, maxrepair (violates cs) F S -> NoDup S -> (length S <= length base)%nat).
Proof. exact materialise_shape. Qed.
Print Assumptions C19_materialise_shape.

(* The executable Spec used as oracle by the correspondence check enumerates the textbook objects. *)
Theorem C19_spec_repairs :
  forall viol, monotone viol -> forall F, NoDup F -> forall S,
  (In S (max_repairs_spec viol F) <-> In S (sublists F) /\ maxrepair viol F S) /\
  (In S (max_repairs_local viol F) <-> In S (sublists F) /\ maxrepair viol F S).
Proof. exact spec_repairs_ok. Qed.
Print Assumptions C19_spec_repairs.

Theorem C19_spec_answers :
  forall viol, monotone viol -> viol [] = false -> forall F, NoDup F -> forall q b,
  In b (iar_spec viol F q) <-> iar_answer viol F q b.
Proof. exact iar_spec_ok. Qed.
Print Assumptions C19_spec_answers.

(* WHY THE FINAL FILTER IS NEEDED (the behaviour before commit 2aecba6, kept as documentation):
   the candidates collected by the loop alone - the in-loop test only compares with repairs found
   EARLIER - contain a non-maximal set under some iteration orders and not under others, and the
   unrelated fact is then not answered.  alive = 10, dead = 11, likes = 12. *)
Definition ex_cs : list constraint := [[(Var 0, Const 10, Var 1); (Var 0, Const 11, Var 1)]].
Definition ex_F1 : list fact := [(1, 10, 5); (3, 12, 4); (1, 11, 5)].
Definition ex_F2 : list fact := [(3, 12, 4); (1, 10, 5); (1, 11, 5)].

Theorem C19_prefilter_nonmaximal_refuted :
  exists C S T,
    NoDup ex_F1 /\ candidates (violates ex_cs) ex_F1 = Some C /\ In S C /\
    (* S is not maximal: T is a consistent subset of F properly extending it *)
    incl T ex_F1 /\ incl S T /\ violates ex_cs T = false /\ ~ incl T S /\
    (* and the answers built from these candidates miss the conflict-free fact likes(3,4) *)
    iar_filter (Var 0, Const 12, Var 1) C = [].
Proof.
  exists [[(1, 10, 5); (3, 12, 4)]; [(1, 11, 5)]; [(3, 12, 4); (1, 11, 5)]], [(1, 11, 5)], [(3, 12, 4); (1, 11, 5)].
  split; [repeat constructor; simpl; intuition congruence|].
  split; [vm_compute; reflexivity|].
  split; [simpl; auto|].
  split; [intros x [<-|[<-|[]]]; simpl; auto|].
  split; [intros x [<-|[]]; simpl; auto|].
  split; [vm_compute; reflexivity|].
  split; [|vm_compute; reflexivity].
  intros H. specialize (H (3, 12, 4) (or_introl eq_refl)). destruct H as [H|[]]. discriminate.
Qed.
Print Assumptions C19_prefilter_nonmaximal_refuted.

Theorem C19_prefilter_order_dependent_refuted :
  exists C1 C2,
    Permutation ex_F1 ex_F2 /\
    candidates (violates ex_cs) ex_F1 = Some C1 /\ candidates (violates ex_cs) ex_F2 = Some C2 /\
    length C1 <> length C2 /\
    iar_filter (Var 0, Const 12, Var 1) C1 <> iar_filter (Var 0, Const 12, Var 1) C2.
Proof.
  eexists. eexists.
  split; [|split; [vm_compute; reflexivity|split; [vm_compute; reflexivity|]]].
  - unfold ex_F1, ex_F2. apply perm_trans with [(3, 12, 4); (1, 10, 5); (1, 11, 5)]; [apply perm_swap|apply Permutation_refl].
  - split; vm_compute; congruence.
Qed.
Print Assumptions C19_prefilter_order_dependent_refuted.

(* ---- non-vacuity ------------------------------------------------------------------------------ *)
(* with the filter, both orders give the two repairs and the unrelated fact is answered *)
Example C19_example_repairs :
  compute_repairs (violates ex_cs) ex_F1 = Some [[(1, 10, 5); (3, 12, 4)]; [(3, 12, 4); (1, 11, 5)]] /\
  compute_repairs (violates ex_cs) ex_F2 = Some [[(3, 12, 4); (1, 10, 5)]; [(3, 12, 4); (1, 11, 5)]] /\
  query_with_repairs ex_cs ex_F1 (Var 0, Const 12, Var 1) = Some [[(1, 4); (0, 3)]] /\
  query_with_repairs ex_cs ex_F2 (Var 0, Const 12, Var 1) = Some [[(1, 4); (0, 3)]] /\
  query_with_repairs ex_cs ex_F1 (Var 0, Const 10, Var 1) = Some [].
Proof. repeat split; vm_compute; reflexivity. Qed.

(* a materialisation in which a rule derives a fact that conflicts and one that does not *)
Example C19_example_materialise :
  materialise 10 ex_cs [([(Var 0, Const 12, Var 1)], [(Var 0, Const 10, Var 1); (Var 0, Const 11, Var 1)])]
              (fun l => l) [(3, 12, 4); (1, 10, 5)]
  = Some ([(3, 12, 4); (1, 10, 5); (3, 10, 4)], [(3, 10, 4)]).
Proof. vm_compute. reflexivity. Qed.

(* the hypotheses of C19_conflict_free_answered are satisfiable: likes(3,4) matches no constraint atom *)
Example C19_example_conflict_free :
  forall c p, In c ex_cs -> In p c -> match_pat p (3, 12, 4) [] = None.
Proof. intros c p [<-|[]] [<-|[<-|[]]]; vm_compute; reflexivity. Qed.
