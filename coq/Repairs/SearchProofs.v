(* C19 - the search of compute_repairs, for an arbitrary monotone violation test.

   Main results (Section SearchProofs, closed over `viol` and its monotonicity):
     exists_max            every consistent subset extends to a maximal repair
     iterate_sound/complete the loop collects only consistent sub-sequences and reaches every
                           maximal repair, whatever the iteration order (the order is the list F)
     iterate_terminates    2^n * (n+1) + 2 iterations suffice
     final_filter_spec     the filter keeps exactly the non-dominated candidates, each once
     compute_repairs_exact the result is exactly the list of maximal repairs, without repetition *)
Require Import List NArith Bool Arith Lia Permutation.
Require Import KV.Repairs.Model KV.Repairs.Spec KV.Repairs.SetProofs.
Import ListNotations.

Section SearchProofs.
Variable viol : list fact -> bool.
Hypothesis mono : monotone viol.

Lemma viol_ext : forall S T, seteq S T -> viol S = viol T.
Proof.
  intros S T [H1 H2]. destruct (viol S) eqn:ES; destruct (viol T) eqn:ET; auto.
  - apply (mono _ _ H1) in ES. congruence.
  - apply (mono _ _ H2) in ET. congruence.
Qed.

Lemma viol_anti : forall S T, incl S T -> viol T = false -> viol S = false.
Proof.
  intros S T H HT. destruct (viol S) eqn:ES; auto. apply (mono _ _ H) in ES. congruence.
Qed.

Lemma maxrepair_seteq : forall F F' S S',
  seteq F F' -> seteq S S' -> maxrepair viol F S -> maxrepair viol F' S'.
Proof.
  intros F F' S S' [HF1 HF2] [HS1 HS2] [H1 [H2 H3]]. split; [|split].
  - eapply incl_tran; [exact HS2|]. eapply incl_tran; eauto.
  - rewrite <- H2. apply viol_ext. split; assumption.
  - intros T HT1 HT2 HT3. eapply incl_tran; [|exact HS1]. apply H3; auto.
    + exact (incl_tran HT1 HF2).
    + exact (incl_tran HS1 HT2).
Qed.

(* ---- every consistent subset extends to a maximal one (greedy extension) ------------------ *)
Fixpoint extend (S l : list fact) : list fact :=
  match l with
  | [] => S
  | f :: l' => if mem f S || viol (f :: S) then extend S l' else extend (f :: S) l'
  end.

Lemma extend_incl : forall l S, incl S (extend S l).
Proof.
  induction l as [|f l IH]; simpl; intros S. apply incl_refl.
  destruct (mem f S || viol (f :: S)). apply IH.
  eapply incl_tran; [|apply IH]. apply incl_tl. apply incl_refl.
Qed.

Lemma extend_sub : forall l S, incl (extend S l) (S ++ l).
Proof.
  induction l as [|f l IH]; simpl; intros S.
  - rewrite app_nil_r. apply incl_refl.
  - destruct (mem f S || viol (f :: S)).
    + eapply incl_tran; [apply IH|]. intros x Hx. apply in_app_or in Hx. apply in_or_app.
      destruct Hx; auto. right. right. assumption.
    + eapply incl_tran; [apply IH|]. intros x Hx. apply in_app_or in Hx. apply in_or_app.
      destruct Hx as [[<-|Hx]|Hx]; auto. right. left. reflexivity. right. right. assumption.
Qed.

Lemma extend_consistent : forall l S, viol S = false -> viol (extend S l) = false.
Proof.
  induction l as [|f l IH]; simpl; intros S H; auto.
  destruct (mem f S) eqn:EM; simpl. apply IH; auto.
  destruct (viol (f :: S)) eqn:EV. apply IH; auto. apply IH; auto.
Qed.

Lemma extend_saturated : forall l S f,
  In f l -> In f (extend S l) \/ viol (f :: extend S l) = true.
Proof.
  induction l as [|g l IH]; simpl; intros S f H. contradiction.
  destruct H as [->|H].
  - destruct (mem f S) eqn:EM; simpl.
    + left. apply extend_incl. apply mem_In. exact EM.
    + destruct (viol (f :: S)) eqn:EV.
      * right. apply (mono (f :: S)); auto.
        intros x [<-|Hx]. left; auto. right. apply extend_incl. exact Hx.
      * left. apply extend_incl. left. reflexivity.
  - destruct (mem g S || viol (g :: S)); apply IH; exact H.
Qed.

Lemma exists_max : forall F T, incl T F -> viol T = false ->
  exists M, maxrepair viol F M /\ incl T M.
Proof.
  intros F T HT HC. exists (extend T F). split; [split; [|split]|].
  - eapply incl_tran; [apply extend_sub|]. intros x Hx. apply in_app_or in Hx. destruct Hx; auto.
  - apply extend_consistent. exact HC.
  - intros U HU1 HU2 HU3 f Hf.
    destruct (extend_saturated F T f (HU1 _ Hf)) as [H|H]; auto.
    exfalso. assert (viol U = true); [|congruence].
    apply (mono (f :: extend T F)); auto. intros x [<-|Hx]; auto.
  - apply extend_incl.
Qed.

(* local characterisation: a consistent subset is maximal iff every further fact of F violates *)
Lemma maxrepair_local : forall F S, incl S F -> viol S = false ->
  ((forall f, In f F -> In f S \/ viol (f :: S) = true) <-> maxrepair viol F S).
Proof.
  intros F S HS HC. split.
  - intros H. split; [|split]; auto. intros T HT1 HT2 HT3 f Hf.
    destruct (H f (HT1 _ Hf)) as [H'|H']; auto.
    exfalso. assert (viol T = true); [|congruence].
    apply (mono (f :: S)); auto. intros x [<-|Hx]; auto.
  - intros [_ [_ H]] f Hf. destruct (viol (f :: S)) eqn:EV; auto. left.
    apply (H (f :: S)); auto.
    + intros x [<-|Hx]; auto.
    + apply incl_tl. apply incl_refl.
    + left. reflexivity.
Qed.

(* ---- the loop -------------------------------------------------------------------------------- *)
Variable F : list fact.
Hypothesis ndF : NoDup F.

Definition good (l : list (list fact)) : Prop := forall S, In S l -> In S (sublists F).
Definition okrep (S : list fact) : Prop := In S (sublists F) /\ viol S = false.

Record Inv (queue seen repairs : list (list fact)) : Prop := {
  i_q : good queue;
  i_seen : good seen;
  i_nd : NoDup seen;
  i_rep : forall S, In S repairs -> okrep S;
  i_cover : forall S M, S = F \/ In S seen -> maxrepair viol F M -> incl M S ->
      (exists R, In R repairs /\ seteq R M) \/
      (exists S', In S' queue /\ incl M S' /\ incl S' S /\ ~ In S' seen)
}.

Lemma Inv_init : Inv [F] [] [].
Proof.
  constructor.
  - intros S [<-|[]]. apply sublists_self.
  - intros S [].
  - constructor.
  - intros S [].
  - intros S M [->|[]] HM HI. right. exists F. split; [left; reflexivity|].
    split; auto. split; [apply incl_refl|]. intros [].
Qed.

(* a consistent set that contains a maximal repair is that repair, and passes the in-loop test *)
Lemma consistent_hit : forall cur M repairs,
  In cur (sublists F) -> viol cur = false -> (forall S, In S repairs -> okrep S) ->
  maxrepair viol F M -> incl M cur ->
  seteq cur M /\
  forallb (fun r => negb (superset r cur) || set_eqb r cur) repairs = true.
Proof.
  intros cur M repairs Hc Hv Hr HM HI.
  assert (E : seteq cur M).
  { split; auto. destruct HM as [_ [_ H]]. apply H; auto. apply sublists_incl. exact Hc. }
  split; auto. apply forallb_forall. intros r Hr'. destruct (Hr r Hr') as [Hr1 Hr2].
  destruct (superset r cur) eqn:ES; simpl; auto.
  apply superset_incl in ES. apply (set_eqb_seteq r cur).
  - eapply sublists_NoDup; eauto.
  - eapply sublists_NoDup; eauto.
  - split; auto. eapply incl_tran; [|exact (proj2 E)].
    destruct HM as [_ [_ H]]. apply H; auto.
    + apply sublists_incl. exact Hr1.
    + eapply incl_tran; eauto.
Qed.

Lemma step_inv : forall queue seen repairs queue' seen' repairs',
  Inv queue seen repairs ->
  step viol (queue, seen, repairs) = Some (queue', seen', repairs') ->
  Inv queue' seen' repairs'.
Proof.
  intros queue seen repairs queue' seen' repairs' I Hs.
  destruct I as [Iq Is Ind Ir Ic]. unfold step in Hs.
  destruct queue as [|cur rest]; [discriminate|].
  assert (Hcur : In cur (sublists F)) by (apply Iq; left; reflexivity).
  assert (Hrest : good rest) by (intros S HS; apply Iq; right; exact HS).
  destruct (vec_mem cur seen) eqn:Eseen.
  - (* already seen: skipped *)
    inversion Hs; subst. apply vec_mem_In in Eseen. constructor; auto.
    intros S M HS HM HI. destruct (Ic S M HS HM HI) as [H|[S' [H1 [H2 [H3 H4]]]]]; auto.
    right. exists S'. destruct H1 as [<-|H1]; [contradiction|]. auto.
  - apply vec_mem_false in Eseen.
    assert (Ind' : NoDup (cur :: seen)) by (constructor; auto).
    assert (Is' : good (cur :: seen)) by (intros S [<-|HS]; auto).
    destruct (viol cur) eqn:Ev; simpl in Hs.
    + (* inconsistent: expanded *)
      inversion Hs; subst. clear Hs.
      set (children := filter (fun c => negb (vec_mem c (cur :: seen))) (map (fun f => remove f cur) cur)).
      (* the key step: a maximal repair inside cur stays reachable below cur *)
      assert (expand : forall S M, maxrepair viol F M -> incl M cur -> incl cur S ->
                (exists R, In R repairs' /\ seteq R M) \/
                (exists S', In S' (rev children ++ rest) /\ incl M S' /\ incl S' S /\ ~ In S' (cur :: seen))).
      { intros S M HM HI HcS.
        assert (Hf : exists f, In f cur /\ ~ In f M).
        { destruct (forallb (fun f => mem f M) cur) eqn:EA.
          - exfalso. rewrite forallb_forall in EA.
            assert (incl cur M) by (intros x Hx; apply mem_In; apply EA; exact Hx).
            destruct HM as [_ [HM2 _]]. apply (mono _ _ H) in Ev. congruence.
          - assert (EA' : existsb (fun f => negb (mem f M)) cur = true).
            { clear - EA. induction cur as [|a l IH]; simpl in *. discriminate.
              destruct (mem a M); simpl in *; auto. }
            apply existsb_exists in EA'. destruct EA' as [f [Hf1 Hf2]]. exists f. split; auto.
            apply mem_false. apply negb_true_iff. exact Hf2. }
        destruct Hf as [f [Hf1 Hf2]].
        set (c := remove f cur).
        assert (HMc : incl M c).
        { intros x Hx. apply In_remove. split; auto. intros ->. contradiction. }
        assert (Hcc : incl c cur) by (intros x Hx; apply In_remove in Hx; tauto).
        assert (Hne : forall S', incl S' c -> S' <> cur).
        { intros S' HS' ->. apply HS' in Hf1. apply In_remove in Hf1. tauto. }
        destruct (vec_mem c (cur :: seen)) eqn:Ec.
        - apply vec_mem_In in Ec. destruct Ec as [Ec|Ec].
          + exfalso. apply (Hne c); auto. apply incl_refl.
          + destruct (Ic c M (or_intror Ec) HM HMc) as [H|[S' [H1 [H2 [H3 H4]]]]]; auto.
            right. exists S'. split; [|split; [|split]]; auto.
            * apply in_or_app. right. destruct H1 as [<-|H1]; auto.
              exfalso. apply (Hne cur); auto.
            * eapply incl_tran; [exact H3|]. eapply incl_tran; eauto.
            * intros [<-|H]; auto. apply (Hne cur); auto.
        - right. exists c. split; [|split; [|split]]; auto.
          + apply in_or_app. left. apply -> in_rev. unfold children. apply filter_In. split.
            * apply in_map_iff. exists f. split; auto.
            * rewrite Ec. reflexivity.
          + eapply incl_tran; eauto.
          + apply vec_mem_false. exact Ec. }
      constructor; auto.
      * intros S HS. apply in_app_or in HS. destruct HS as [HS|HS]; auto.
        apply in_rev in HS. unfold children in HS. apply filter_In in HS. destruct HS as [HS _].
        apply in_map_iff in HS. destruct HS as [f [<- _]]. unfold remove. apply sublists_filter. exact Hcur.
      * intros S M HS HM HI.
        assert (old : S = F \/ In S seen -> _) by (intros H; exact (Ic S M H HM HI)).
        assert (from_old : S = F \/ In S seen ->
                (exists R, In R repairs' /\ seteq R M) \/
                (exists S', In S' (rev children ++ rest) /\ incl M S' /\ incl S' S /\ ~ In S' (cur :: seen))).
        { intros H. destruct (old H) as [H'|[S' [H1 [H2 [H3 H4]]]]]; auto.
          destruct (list_eq_dec fact_eq_dec S' cur) as [->|Hne].
          - apply expand; auto.
          - right. exists S'. destruct H1 as [<-|H1]; [congruence|].
            split; [|split; [|split]]; auto.
            + apply in_or_app. right. exact H1.
            + intros [<-|H5]; auto. }
        destruct HS as [->|[<-|HS]]; auto.
        apply expand; auto. apply incl_refl.
    + (* consistent: a candidate *)
      inversion Hs; subst. clear Hs. constructor; auto.
      * intros S HS. destruct (forallb _ repairs); auto.
        apply in_app_or in HS. destruct HS as [HS|[<-|[]]]; auto. split; auto.
      * intros S M HS HM HI.
        assert (hit : incl M cur ->
                 exists R, In R (if forallb (fun r => negb (superset r cur) || set_eqb r cur) repairs
                                 then repairs ++ [cur] else repairs) /\ seteq R M).
        { intros H. destruct (consistent_hit cur M repairs Hcur Ev Ir HM H) as [E1 E2].
          rewrite E2. exists cur. split; auto. apply in_or_app. right. left. reflexivity. }
        assert (keep : forall R, In R repairs ->
                 In R (if forallb (fun r => negb (superset r cur) || set_eqb r cur) repairs
                       then repairs ++ [cur] else repairs)).
        { intros R HR. destruct (forallb _ repairs); auto. apply in_or_app. left. exact HR. }
        assert (from_old : S = F \/ In S seen -> _) by (intros H; exact (Ic S M H HM HI)).
        destruct HS as [->|[<-|HS]].
        -- destruct (from_old (or_introl eq_refl)) as [[R [HR1 HR2]]|[S' [H1 [H2 [H3 H4]]]]].
           ++ left. exists R. auto.
           ++ destruct (list_eq_dec fact_eq_dec S' cur) as [->|Hne].
              ** left. apply hit. exact H2.
              ** right. exists S'. destruct H1 as [<-|H1]; [congruence|].
                 split; auto. split; auto. split; auto. intros [<-|H5]; auto.
        -- left. apply hit. exact HI.
        -- destruct (from_old (or_intror HS)) as [[R [HR1 HR2]]|[S' [H1 [H2 [H3 H4]]]]].
           ++ left. exists R. auto.
           ++ destruct (list_eq_dec fact_eq_dec S' cur) as [->|Hne].
              ** left. apply hit. exact H2.
              ** right. exists S'. destruct H1 as [<-|H1]; [congruence|].
                 split; auto. split; auto. split; auto. intros [<-|H5]; auto.
Qed.

Lemma step_none : forall queue seen repairs, step viol (queue, seen, repairs) = None -> queue = [].
Proof.
  intros queue seen repairs H. unfold step in H. destruct queue as [|cur rest]; auto.
  destruct (vec_mem cur seen); [discriminate|]. destruct (negb (viol cur)); discriminate.
Qed.

(* soundness and completeness of the collected candidates *)
Lemma iterate_inv : forall fuel queue seen repairs R,
  Inv queue seen repairs -> iterate viol fuel (queue, seen, repairs) = Some R ->
  (forall S, In S R -> okrep S) /\
  (forall M, maxrepair viol F M -> exists R0, In R0 R /\ seteq R0 M).
Proof.
  induction fuel as [|fuel IH]; intros queue seen repairs R I H; cbn [iterate] in H. discriminate.
  destruct (step viol (queue, seen, repairs)) as [[[q' s'] r']|] eqn:Es.
  - eapply IH; [|exact H]. eapply step_inv; eauto.
  - inversion H; subst. cbn [snd]. apply step_none in Es. subst queue.
    destruct I as [Iq Is Ind Ir Ic]. split; auto.
    intros M HM. destruct (Ic F M (or_introl eq_refl) HM (proj1 HM)) as [H1|[S' [[] _]]]. exact H1.
Qed.

(* ---- termination ------------------------------------------------------------------------- *)
Definition msr (queue seen : list (list fact)) : nat :=
  ((length (sublists F) - length seen) * S (length F) + length queue)%nat.

Lemma filter_length_le' : forall {A} (p : A -> bool) l, (length (filter p l) <= length l)%nat.
Proof. intros A p. induction l as [|x l IH]; simpl; auto. destruct (p x); simpl; lia. Qed.

Lemma step_decreases : forall queue seen repairs queue' seen' repairs',
  Inv queue seen repairs ->
  step viol (queue, seen, repairs) = Some (queue', seen', repairs') ->
  (msr queue' seen' < msr queue seen)%nat.
Proof.
  intros queue seen repairs queue' seen' repairs' I Hs.
  destruct I as [Iq Is Ind Ir Ic]. unfold step in Hs.
  destruct queue as [|cur rest]; [discriminate|].
  assert (Hcur : In cur (sublists F)) by (apply Iq; left; reflexivity).
  destruct (vec_mem cur seen) eqn:Eseen.
  - inversion Hs; subst. unfold msr. simpl. lia.
  - apply vec_mem_false in Eseen.
    assert (Hlen : (S (length seen) <= length (sublists F))%nat).
    { change (S (length seen)) with (length (cur :: seen)). apply NoDup_incl_length.
      - constructor; auto.
      - intros S [<-|HS]; auto. }
    destruct (viol cur) eqn:Ev; simpl in Hs; inversion Hs; subst; clear Hs; unfold msr; simpl length.
    + rewrite app_length, rev_length.
      match goal with |- context [length (filter ?p ?l)] =>
        assert (Hk : (length (filter p l) <= length F)%nat);
        [eapply Nat.le_trans; [apply filter_length_le'|]; rewrite map_length; apply sublists_length_le; exact Hcur|];
        remember (length (filter p l)) as k end.
      remember (length (sublists F)) as A. remember (length seen) as s. remember (length F) as n.
      replace (A - s)%nat with (S (A - S s)) by lia. simpl. lia.
    + remember (length (sublists F)) as A. remember (length seen) as s. remember (length F) as n.
      replace (A - s)%nat with (S (A - S s)) by lia. simpl. lia.
Qed.

Lemma iterate_terminates : forall fuel queue seen repairs,
  Inv queue seen repairs -> (msr queue seen < fuel)%nat ->
  exists R, iterate viol fuel (queue, seen, repairs) = Some R.
Proof.
  induction fuel as [|fuel IH]; intros queue seen repairs I H; cbn [iterate]. lia.
  destruct (step viol (queue, seen, repairs)) as [[[q' s'] r']|] eqn:Es.
  - apply IH. eapply step_inv; eauto. pose proof (step_decreases _ _ _ _ _ _ I Es). lia.
  - eexists. reflexivity.
Qed.

Lemma candidates_ok :
  exists C, candidates viol F = Some C /\
    (forall S, In S C -> okrep S) /\
    (forall M, maxrepair viol F M -> exists R0, In R0 C /\ seteq R0 M).
Proof.
  unfold candidates.
  destruct (iterate_terminates (search_fuel F) [F] [] [] Inv_init) as [C HC].
  - unfold msr, search_fuel. rewrite sublists_count. simpl. lia.
  - exists C. split; auto. eapply iterate_inv; eauto. apply Inv_init.
Qed.

(* ---- the final maximality filter ----------------------------------------------------------- *)
Lemma existsb_false : forall {A} (p : A -> bool) l, existsb p l = false <-> forall x, In x l -> p x = false.
Proof.
  intros A p l. split.
  - intros H x Hx. destruct (p x) eqn:E; auto.
    assert (existsb p l = true) by (apply existsb_exists; eauto). congruence.
  - intros H. destruct (existsb p l) eqn:E; auto. apply existsb_exists in E.
    destruct E as [x [Hx Hp]]. rewrite (H x Hx) in Hp. discriminate.
Qed.

Lemma seen_in_acc : forall acc cand, good acc -> In cand (sublists F) ->
  (existsb (fun m => set_eqb m cand) acc = true <-> In cand acc).
Proof.
  intros acc cand Ha Hc. rewrite existsb_exists. split.
  - intros [m [Hm1 Hm2]]. apply (set_eqb_sub F) in Hm2; auto. subst. exact Hm1.
  - intros H. exists cand. split; auto. apply (set_eqb_sub F); auto.
Qed.

Lemma final_fold_spec : forall C l acc, good l -> good acc -> NoDup acc ->
  let R := fold_left (fun maximal cand =>
              if negb (dominated C cand) && negb (existsb (fun m => set_eqb m cand) maximal)
              then maximal ++ [cand] else maximal) l acc in
  NoDup R /\ (forall S, In S R <-> In S acc \/ (In S l /\ dominated C S = false)) /\ good R.
Proof.
  intros C. induction l as [|cand l IH]; simpl; intros acc Hl Ha Hnd.
  - split; auto. split; auto. intros S. tauto.
  - assert (Hc : In cand (sublists F)) by (apply Hl; left; reflexivity).
    assert (Hl' : good l) by (intros S HS; apply Hl; right; exact HS).
    destruct (dominated C cand) eqn:Ed; simpl.
    + destruct (IH acc Hl' Ha Hnd) as [H1 [H2 H3]]. split; auto. split; auto.
      intros S. rewrite H2. split.
      * intros [H|[H H']]; auto.
      * intros [H|[[<-|H] H']]; auto. congruence.
    + destruct (existsb (fun m => set_eqb m cand) acc) eqn:Ee; simpl.
      * apply seen_in_acc in Ee; auto.
        destruct (IH acc Hl' Ha Hnd) as [H1 [H2 H3]]. split; auto. split; auto.
        intros S. rewrite H2. split.
        -- intros [H|[H H']]; auto.
        -- intros [H|[[<-|H] H']]; auto.
      * assert (Hn : ~ In cand acc).
        { intros H. apply seen_in_acc in H; auto. congruence. }
        assert (Ha' : good (acc ++ [cand])).
        { intros S HS. apply in_app_or in HS. destruct HS as [HS|[<-|[]]]; auto. }
        assert (Hnd' : NoDup (acc ++ [cand])).
        { apply NoDup_snoc; auto. }
        destruct (IH (acc ++ [cand]) Hl' Ha' Hnd') as [H1 [H2 H3]]. split; auto. split; auto.
        intros S. rewrite H2. rewrite in_app_iff. simpl. split.
        -- intros [[H|[<-|[]]]|[H H']]; auto.
        -- intros [H|[[<-|H] H']]; auto.
Qed.

Lemma final_filter_spec : forall C, good C ->
  NoDup (final_filter C) /\
  forall S, In S (final_filter C) <-> In S C /\ dominated C S = false.
Proof.
  intros C HC. unfold final_filter.
  destruct (final_fold_spec C C [] HC) as [H1 [H2 _]].
  - intros S [].
  - constructor.
  - split; auto. intros S. rewrite H2. simpl. tauto.
Qed.

(* ---- compute_repairs returns exactly the maximal repairs ------------------------------------ *)
Theorem compute_repairs_exact :
  exists R, compute_repairs viol F = Some R /\ NoDup R /\
            forall S, In S R <-> In S (sublists F) /\ maxrepair viol F S.
Proof.
  destruct candidates_ok as [C [HC [Hsound Hcomplete]]].
  unfold compute_repairs. rewrite HC. eexists. split; [reflexivity|].
  assert (Hg : good C) by (intros S HS; apply Hsound; exact HS).
  destruct (final_filter_spec C Hg) as [Hnd Hin]. split; auto.
  intros S. rewrite Hin. split.
  - intros [HS Hd]. destruct (Hsound S HS) as [Hs1 Hs2]. split; auto.
    split; [apply sublists_incl; exact Hs1|]. split; auto.
    intros T HT1 HT2 HT3.
    destruct (exists_max F T HT1 HT3) as [M [HM HTM]].
    destruct (Hcomplete M HM) as [R0 [HR0 ER0]].
    unfold dominated in Hd. rewrite existsb_false in Hd. specialize (Hd R0 HR0).
    assert (Hsup : superset R0 S = true).
    { apply superset_incl. eapply incl_tran; [exact HT2|]. eapply incl_tran; [exact HTM|]. exact (proj2 ER0). }
    rewrite Hsup, andb_true_r in Hd. apply negb_false_iff in Hd.
    apply (set_eqb_sub F) in Hd; auto. subst R0.
    eapply incl_tran; [exact HTM|]. exact (proj2 ER0).
  - intros [HS HM]. destruct (Hcomplete S HM) as [R0 [HR0 ER0]].
    assert (R0 = S) by (apply (sublists_seteq_eq F); auto). subst R0. split; auto.
    unfold dominated. apply existsb_false. intros other Ho.
    destruct (superset other S) eqn:Esup; [|apply andb_false_r].
    rewrite andb_true_r. apply negb_false_iff. apply superset_incl in Esup.
    destruct (Hsound other Ho) as [Ho1 Ho2]. apply (set_eqb_sub F); auto.
    apply (sublists_seteq_eq F); auto. split; auto.
    destruct HM as [_ [_ H]]. apply H; auto. apply sublists_incl. exact Ho1.
Qed.

End SearchProofs.
