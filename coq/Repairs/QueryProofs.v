(* C19 - query_with_repairs returns exactly the IAR answers; conflict-free facts are answered;
   repairs and answers do not depend on the iteration order. *)
Require Import List NArith Bool Arith Lia Permutation.
Require Import KV.Repairs.Model KV.Repairs.Spec KV.Repairs.SetProofs KV.Repairs.SearchProofs KV.Repairs.MatchProofs.
Import ListNotations.

Lemma answers_from_In : forall q first b,
  In b (answers_from q first) <-> exists f, In f first /\ match_pat q f [] = Some b.
Proof.
  intros q first b. unfold answers_from. rewrite in_flat_map. split.
  - intros [f [Hf H]]. exists f. split; auto. destruct (match_pat q f []) as [b0|]; simpl in H.
    + destruct H as [->|[]]. reflexivity.
    + contradiction.
  - intros [f [Hf H]]. exists f. split; auto. rewrite H. left. reflexivity.
Qed.

Lemma answers_from_NoDup : forall q first, NoDup first -> NoDup (answers_from q first).
Proof.
  intros q. induction first as [|f l IH]; simpl; intros ND. constructor.
  inversion ND as [|? ? Hf ND']; subst.
  destruct (match_pat q f []) as [b|] eqn:E; simpl; auto.
  constructor; auto. intros H. apply answers_from_In in H. destruct H as [f' [Hf' E']].
  assert (f' = f).
  { eapply match_pat_inj; eauto. apply bind_eqb_refl. eapply match_pat_ukeys; eauto. }
  subst. contradiction.
Qed.

Lemma matches_as_In : forall q b r,
  existsb (matches_as q b) r = true <->
  exists f b', In f r /\ match_pat q f [] = Some b' /\ bind_eqb b' b = true.
Proof.
  intros q b r. rewrite existsb_exists. unfold matches_as. split.
  - intros [f [Hf H]]. destruct (match_pat q f []) as [b'|] eqn:E; [|discriminate]. exists f, b'. auto.
  - intros [f [b' [Hf [E H]]]]. exists f. rewrite E. auto.
Qed.

Section Query.
Variable viol : list fact -> bool.
Hypothesis mono : monotone viol.
Hypothesis vnil : viol [] = false.
Variable F : list fact.
Hypothesis ndF : NoDup F.

(* what the exactness theorem says about a result list R *)
Definition exact_repairs (R : list (list fact)) : Prop :=
  NoDup R /\ forall S, In S R <-> In S (sublists F) /\ maxrepair viol F S.

Lemma exact_rep_of : forall R S, exact_repairs R -> maxrepair viol F S ->
  exists S', In S' R /\ seteq S' S.
Proof.
  intros R S [_ HR] HM. exists (canon F S). split.
  - apply HR. split; [apply canon_sub|].
    eapply (maxrepair_seteq viol mono); [apply seteq_refl| |exact HM].
    apply seteq_sym. apply canon_seteq. exact (proj1 HM).
  - apply canon_seteq. exact (proj1 HM).
Qed.

Lemma exact_nonempty : forall R, exact_repairs R -> R <> [].
Proof.
  intros R HR E. destruct (exists_max viol mono F [] (incl_nil_l _) vnil) as [M [HM _]].
  destruct (exact_rep_of R M HR HM) as [S' [H _]]. subst R. contradiction.
Qed.

Lemma iar_filter_spec : forall R q, exact_repairs R ->
  NoDup (iar_filter q R) /\ forall b, In b (iar_filter q R) <-> iar_answer viol F q b.
Proof.
  intros R q HR. pose proof (exact_nonempty R HR) as Hne.
  destruct R as [|first others]; [congruence|]. clear Hne. simpl.
  assert (Hfirst : In first (sublists F) /\ maxrepair viol F first).
  { apply (proj2 HR). left. reflexivity. }
  split.
  - apply NoDup_filter. apply answers_from_NoDup. eapply sublists_NoDup; eauto. tauto.
  - intros b. rewrite filter_In, answers_from_In, forallb_forall. split.
    + intros [[f [Hf E]] Hall] S HS.
      destruct (exact_rep_of _ S HR HS) as [S' [[<-|HS'] ES]].
      * exists f. split; auto. apply (proj1 ES). exact Hf.
      * specialize (Hall S' HS'). apply matches_as_In in Hall.
        destruct Hall as [f' [b' [Hf' [E' EB]]]].
        assert (f = f') by (eapply match_pat_inj; eauto). subst f'.
        exists f. split; auto. apply (proj1 ES). exact Hf'.
    + intros H. split.
      * destruct (H first (proj2 Hfirst)) as [f [Hf E]]. eauto.
      * intros r Hr. assert (Hr' : maxrepair viol F r).
        { apply (proj2 HR). right. exact Hr. }
        destruct (H r Hr') as [f [Hf E]]. apply matches_as_In. exists f, b. split; auto. split; auto.
        apply bind_eqb_refl. eapply match_pat_ukeys; eauto.
Qed.

Lemma conflict_free_in_all : forall f S, In f F -> conflict_free viol F f -> maxrepair viol F S -> In f S.
Proof.
  intros f S Hf Hc [H1 [H2 H3]]. apply (H3 (f :: S)).
  - intros x [<-|Hx]; auto.
  - apply incl_tl. apply incl_refl.
  - apply Hc; auto.
  - left. reflexivity.
Qed.

End Query.

(* ---- instantiated with pattern constraints -------------------------------------------------- *)
Theorem repairs_exact : forall cs F, NoDup F ->
  exists R, compute_repairs (violates cs) F = Some R /\ NoDup R /\
            forall S, In S R <-> In S (sublists F) /\ maxrepair (violates cs) F S.
Proof. intros cs F ND. apply compute_repairs_exact; auto. apply violates_monotone. Qed.

Theorem query_iar : forall cs F q, NoDup F ->
  exists A, query_with_repairs cs F q = Some A /\ NoDup A /\
            forall b, In b A <-> iar_answer (violates cs) F q b.
Proof.
  intros cs F q ND. destruct (repairs_exact cs F ND) as [R [HR [H1 H2]]].
  unfold query_with_repairs. rewrite HR. eexists. split; [reflexivity|].
  apply (iar_filter_spec (violates cs) (violates_monotone cs) (violates_nil cs) F ND). split; auto.
Qed.

Theorem conflict_free_answered : forall cs F q f b, NoDup F ->
  In f F -> conflict_free (violates cs) F f -> match_pat q f [] = Some b ->
  exists A, query_with_repairs cs F q = Some A /\ In b A.
Proof.
  intros cs F q f b ND Hf Hc Hm. destruct (query_iar cs F q ND) as [A [HA [_ H]]].
  exists A. split; auto. apply H. intros S HS. exists f. split; auto.
  eapply conflict_free_in_all; eauto.
Qed.

Lemma unmatched_conflict_free : forall cs F f,
  (forall c p, In c cs -> In p c -> match_pat p f [] = None) -> conflict_free (violates cs) F f.
Proof. intros cs F f H S HS HC. rewrite unmatched_irrelevant; auto. Qed.

(* ---- independence from the iteration order ---------------------------------------------------- *)
Theorem repairs_order_independent : forall cs F F' R R', NoDup F -> Permutation F F' ->
  compute_repairs (violates cs) F = Some R -> compute_repairs (violates cs) F' = Some R' ->
  forall S, In S R -> exists S', In S' R' /\ seteq S S'.
Proof.
  intros cs F F' R R' ND HP HR HR' S HS.
  assert (ND' : NoDup F') by (eapply Permutation_NoDup; eauto).
  destruct (repairs_exact cs F ND) as [R0 [E0 [N0 H0]]]. rewrite HR in E0. inversion E0; subst R0.
  destruct (repairs_exact cs F' ND') as [R1 [E1 [N1 H1]]]. rewrite HR' in E1. inversion E1; subst R1.
  apply H0 in HS. destruct HS as [_ HM].
  assert (EF : seteq F F').
  { split; intros x Hx. eapply Permutation_in; eauto. eapply Permutation_in; [apply Permutation_sym|]; eauto. }
  assert (HM' : maxrepair (violates cs) F' S).
  { eapply (maxrepair_seteq _ (violates_monotone cs)); [exact EF|apply seteq_refl|exact HM]. }
  destruct (exact_rep_of (violates cs) (violates_monotone cs) F' R' S (conj N1 H1) HM') as [S' [G1 G2]].
  exists S'. split; auto. apply seteq_sym. exact G2.
Qed.

Theorem answers_order_independent : forall cs F F' q A A', NoDup F -> Permutation F F' ->
  query_with_repairs cs F q = Some A -> query_with_repairs cs F' q = Some A' ->
  forall b, In b A <-> In b A'.
Proof.
  intros cs F F' q A A' ND HP HA HA'.
  assert (ND' : NoDup F') by (eapply Permutation_NoDup; eauto).
  destruct (query_iar cs F q ND) as [A0 [E0 [_ H0]]]. rewrite HA in E0. inversion E0; subst A0.
  destruct (query_iar cs F' q ND') as [A1 [E1 [_ H1]]]. rewrite HA' in E1. inversion E1; subst A1.
  assert (EF : seteq F F').
  { split; intros x Hx. eapply Permutation_in; eauto. eapply Permutation_in; [apply Permutation_sym|]; eauto. }
  intros b. rewrite H0, H1. unfold iar_answer. split; intros H S HS; apply H.
  - eapply (maxrepair_seteq _ (violates_monotone cs)); [apply seteq_sym; exact EF|apply seteq_refl|exact HS].
  - eapply (maxrepair_seteq _ (violates_monotone cs)); [exact EF|apply seteq_refl|exact HS].
Qed.

Lemma NoDup_map_inj_on : forall {A B} (f : A -> B) (l : list A),
  (forall x y, In x l -> In y l -> f x = f y -> x = y) -> NoDup l -> NoDup (map f l).
Proof.
  intros A B f. induction l as [|a l IH]; simpl; intros Hinj ND; constructor; inversion ND; subst.
  - intros HI. apply in_map_iff in HI. destruct HI as [a' [E Ha']].
    assert (a' = a) by (apply Hinj; auto). subst. contradiction.
  - apply IH; auto.
Qed.

Lemma repairs_count_le : forall cs G G' Q Q',
  NoDup G -> NoDup G' -> Permutation G G' -> NoDup Q ->
  (forall S, In S Q <-> In S (sublists G) /\ maxrepair (violates cs) G S) ->
  (forall S, In S Q' <-> In S (sublists G') /\ maxrepair (violates cs) G' S) ->
  (length Q <= length Q')%nat.
Proof.
  intros cs G G' Q Q' NG NG' PG NQ HQ HQ'.
  assert (EG : seteq G G').
  { split; intros x Hx. eapply Permutation_in; eauto. eapply Permutation_in; [apply Permutation_sym|]; eauto. }
  assert (Hsub : forall a, In a Q -> incl a G').
  { intros a Ha x Hx. apply (proj1 EG). apply HQ in Ha. eapply sublists_incl; [exact (proj1 Ha)|exact Hx]. }
  rewrite <- (map_length (canon G') Q). apply NoDup_incl_length.
  - apply NoDup_map_inj_on; auto. intros a a' Ha Ha' E.
    apply (sublists_seteq_eq G); auto; try (apply HQ; assumption).
    eapply seteq_trans; [apply seteq_sym; apply (canon_seteq G' a (Hsub a Ha))|].
    rewrite E. apply canon_seteq. apply Hsub. exact Ha'.
  - intros S HS. apply in_map_iff in HS. destruct HS as [a [<- Ha]]. apply HQ'. split; [apply canon_sub|].
    pose proof (Hsub a Ha) as Hs. apply HQ in Ha. destruct Ha as [Ha HM].
    eapply (maxrepair_seteq _ (violates_monotone cs)); [exact EG| |exact HM].
    apply seteq_sym. apply canon_seteq. exact Hs.
Qed.

Theorem repairs_deterministic : forall cs F F' R R', NoDup F -> Permutation F F' ->
  compute_repairs (violates cs) F = Some R -> compute_repairs (violates cs) F' = Some R' ->
  (forall S, In S R -> exists S', In S' R' /\ seteq S S') /\
  (forall S', In S' R' -> exists S, In S R /\ seteq S' S) /\
  length R = length R'.
Proof.
  intros cs F F' R R' ND HP HR HR'.
  assert (ND' : NoDup F') by (eapply Permutation_NoDup; eauto).
  split; [|split].
  - exact (repairs_order_independent cs F F' R R' ND HP HR HR').
  - exact (repairs_order_independent cs F' F R' R ND' (Permutation_sym HP) HR' HR).
  - destruct (repairs_exact cs F ND) as [R0 [E0 [N0 H0]]]. rewrite HR in E0. inversion E0; subst R0.
    destruct (repairs_exact cs F' ND') as [R1 [E1 [N1 H1]]]. rewrite HR' in E1. inversion E1; subst R1.
    apply Nat.le_antisymm.
    + eapply (repairs_count_le cs F F'); eauto.
    + eapply (repairs_count_le cs F' F); eauto. apply Permutation_sym. exact HP.
Qed.

Theorem every_repair_found : forall cs F S, NoDup F -> maxrepair (violates cs) F S ->
  exists R S', compute_repairs (violates cs) F = Some R /\ In S' R /\ seteq S' S.
Proof.
  intros cs F S ND HM. destruct (repairs_exact cs F ND) as [R [HR [H1 H2]]].
  destruct (exact_rep_of (violates cs) (violates_monotone cs) F R S (conj H1 H2) HM) as [S' [G1 G2]].
  exists R, S'. auto.
Qed.

Theorem unconstrained_fact_answered : forall cs F q f b, NoDup F -> In f F ->
  (forall c p, In c cs -> In p c -> match_pat p f [] = None) ->
  match_pat q f [] = Some b ->
  exists A, query_with_repairs cs F q = Some A /\ In b A.
Proof.
  intros cs F q f b ND Hf Hu Hm. eapply conflict_free_answered; eauto.
  apply unmatched_conflict_free. exact Hu.
Qed.

Theorem all_maximal_found : forall (cs : list constraint) (F : list fact), NoDup F ->
  exists C, candidates (violates cs) F = Some C /\
    (forall S, In S C -> In S (sublists F) /\ violates cs S = false) /\
    (forall M, maxrepair (violates cs) F M -> exists R0, In R0 C /\ seteq R0 M).
Proof. intros cs F ND. exact (candidates_ok (violates cs) (violates_monotone cs) F ND). Qed.
