(* C19 - list-as-set lemmas: decidable equalities, membership, sub-sequences. *)
Require Import List NArith Bool Arith Lia Permutation.
Require Import KV.Repairs.Model KV.Repairs.Spec.
Import ListNotations.

Lemma fact_eqb_eq : forall a b, fact_eqb a b = true <-> a = b.
Proof.
  intros [[s p] o] [[s' p'] o']. unfold fact_eqb.
  rewrite !andb_true_iff, !N.eqb_eq. split.
  - intros [[-> ->] ->]. reflexivity.
  - intros H. inversion H. auto.
Qed.

Lemma fact_eqb_refl : forall a, fact_eqb a a = true.
Proof. intros a. apply fact_eqb_eq. reflexivity. Qed.

Lemma fact_eqb_false : forall a b, fact_eqb a b = false <-> a <> b.
Proof.
  intros a b. split.
  - intros H E. apply fact_eqb_eq in E. congruence.
  - intros H. destruct (fact_eqb a b) eqn:E; auto. apply fact_eqb_eq in E. contradiction.
Qed.

Lemma fact_eq_dec : forall a b : fact, {a = b} + {a <> b}.
Proof.
  intros a b. destruct (fact_eqb a b) eqn:E.
  - left. apply fact_eqb_eq. exact E.
  - right. apply fact_eqb_false. exact E.
Qed.

Lemma mem_In : forall f l, mem f l = true <-> In f l.
Proof.
  intros f l. unfold mem. rewrite existsb_exists. split.
  - intros [x [H1 H2]]. apply fact_eqb_eq in H2. subst. exact H1.
  - intros H. exists f. split; auto. apply fact_eqb_refl.
Qed.

Lemma mem_false : forall f l, mem f l = false <-> ~ In f l.
Proof.
  intros f l. split.
  - intros H HI. apply mem_In in HI. congruence.
  - intros H. destruct (mem f l) eqn:E; auto. apply mem_In in E. contradiction.
Qed.

Lemma vec_eqb_eq : forall a b, vec_eqb a b = true <-> a = b.
Proof.
  induction a as [|x a IH]; destruct b as [|y b]; simpl; split; intros H; try congruence; auto.
  - apply andb_true_iff in H. destruct H as [H1 H2]. apply fact_eqb_eq in H1. apply IH in H2. congruence.
  - inversion H; subst. apply andb_true_iff. split. apply fact_eqb_refl. apply IH. reflexivity.
Qed.

Lemma vec_mem_In : forall s l, vec_mem s l = true <-> In s l.
Proof.
  intros s l. unfold vec_mem. rewrite existsb_exists. split.
  - intros [x [H1 H2]]. apply vec_eqb_eq in H2. subst. exact H1.
  - intros H. exists s. split; auto. apply vec_eqb_eq. reflexivity.
Qed.

Lemma vec_mem_false : forall s l, vec_mem s l = false <-> ~ In s l.
Proof.
  intros s l. split.
  - intros H HI. apply vec_mem_In in HI. congruence.
  - intros H. destruct (vec_mem s l) eqn:E; auto. apply vec_mem_In in E. contradiction.
Qed.

Lemma In_remove : forall f g l, In g (remove f l) <-> In g l /\ g <> f.
Proof.
  intros f g l. unfold remove. rewrite filter_In, negb_true_iff, fact_eqb_false. tauto.
Qed.

Lemma superset_incl : forall a b, superset a b = true <-> incl b a.
Proof.
  intros a b. unfold superset. rewrite forallb_forall. split.
  - intros H x Hx. apply mem_In. apply H. exact Hx.
  - intros H x Hx. apply mem_In. apply H. exact Hx.
Qed.

Lemma seteq_refl : forall a, seteq a a.
Proof. intros a. split; apply incl_refl. Qed.

Lemma seteq_sym : forall a b, seteq a b -> seteq b a.
Proof. intros a b [H1 H2]. split; assumption. Qed.

Lemma seteq_trans : forall a b c, seteq a b -> seteq b c -> seteq a c.
Proof. intros a b c [H1 H2] [H3 H4]. split; eapply incl_tran; eauto. Qed.

Lemma set_eqb_seteq : forall a b, NoDup a -> NoDup b -> (set_eqb a b = true <-> seteq a b).
Proof.
  intros a b Ha Hb. unfold set_eqb. rewrite andb_true_iff, Nat.eqb_eq, forallb_forall. split.
  - intros [HL HA]. assert (Hab : incl a b) by (intros x Hx; apply mem_In; apply HA; exact Hx).
    split; auto. apply NoDup_length_incl; auto. lia.
  - intros [H1 H2]. split.
    + apply Nat.le_antisymm; apply NoDup_incl_length; auto.
    + intros x Hx. apply mem_In. apply H1. exact Hx.
Qed.

Lemma In_set_add : forall f g l, In g (set_add f l) <-> g = f \/ In g l.
Proof.
  intros f g l. unfold set_add. destruct (mem f l) eqn:E.
  - apply mem_In in E. split; auto. intros [->|H]; auto.
  - rewrite in_app_iff. simpl. split; intros H; intuition.
Qed.

(* ---- sub-sequences ----------------------------------------------------------------------- *)
Lemma sublists_incl : forall F S, In S (sublists F) -> incl S F.
Proof.
  induction F as [|x t IH]; simpl; intros S H.
  - destruct H as [<-|[]]. apply incl_refl.
  - apply in_app_or in H. destruct H as [H|H].
    + apply in_map_iff in H. destruct H as [S' [<- HS']]. apply IH in HS'.
      intros y [<-|Hy]; [left; auto | right; apply HS'; exact Hy].
    + apply IH in H. apply incl_tl. exact H.
Qed.

Lemma sublists_NoDup : forall F S, NoDup F -> In S (sublists F) -> NoDup S.
Proof.
  induction F as [|x t IH]; simpl; intros S ND H.
  - destruct H as [<-|[]]. constructor.
  - inversion ND as [|? ? Hx ND']; subst. apply in_app_or in H. destruct H as [H|H].
    + apply in_map_iff in H. destruct H as [S' [<- HS']]. constructor.
      * intros HI. apply Hx. eapply sublists_incl; eauto.
      * apply IH; auto.
    + apply IH; auto.
Qed.

Lemma sublists_length_le : forall F S, In S (sublists F) -> (length S <= length F)%nat.
Proof.
  induction F as [|x t IH]; simpl; intros S H.
  - destruct H as [<-|[]]. simpl. lia.
  - apply in_app_or in H. destruct H as [H|H].
    + apply in_map_iff in H. destruct H as [S' [<- HS']]. simpl. apply IH in HS'. lia.
    + apply IH in H. lia.
Qed.

Lemma sublists_self : forall F, In F (sublists F).
Proof.
  induction F as [|x t IH]; simpl; auto.
  apply in_or_app. left. apply in_map. exact IH.
Qed.

Lemma sublists_nil : forall F, In [] (sublists F).
Proof.
  induction F as [|x t IH]; simpl; auto. apply in_or_app. right. exact IH.
Qed.

Lemma sublists_filter : forall p F S, In S (sublists F) -> In (filter p S) (sublists F).
Proof.
  intros p. induction F as [|x t IH]; simpl; intros S H.
  - destruct H as [<-|[]]. simpl. auto.
  - apply in_app_or in H. destruct H as [H|H].
    + apply in_map_iff in H. destruct H as [S' [<- HS']]. simpl. destruct (p x).
      * apply in_or_app. left. apply in_map. apply IH. exact HS'.
      * apply in_or_app. right. apply IH. exact HS'.
    + apply in_or_app. right. apply IH. exact H.
Qed.

Lemma sublists_count : forall F, length (sublists F) = (2 ^ length F)%nat.
Proof.
  induction F as [|x t IH]; simpl; auto.
  rewrite app_length, map_length, IH. lia.
Qed.

(* on sub-sequences of a duplicate-free list, equal as sets means equal as lists *)
Lemma sublists_seteq_eq : forall F S T,
  NoDup F -> In S (sublists F) -> In T (sublists F) -> seteq S T -> S = T.
Proof.
  induction F as [|x t IH]; simpl; intros S T ND HS HT E.
  - destruct HS as [<-|[]]. destruct HT as [<-|[]]. reflexivity.
  - inversion ND as [|? ? Hx ND']; subst.
    apply in_app_or in HS. apply in_app_or in HT.
    destruct HS as [HS|HS]; destruct HT as [HT|HT].
    + apply in_map_iff in HS. destruct HS as [S' [<- HS']].
      apply in_map_iff in HT. destruct HT as [T' [<- HT']].
      f_equal. apply IH; auto. destruct E as [E1 E2]. split.
      * intros y Hy. destruct (E1 y (or_intror Hy)) as [Exy|H]; auto.
        subst y. exfalso. apply Hx. apply (sublists_incl _ _ HS'). exact Hy.
      * intros y Hy. destruct (E2 y (or_intror Hy)) as [Exy|H]; auto.
        subst y. exfalso. apply Hx. apply (sublists_incl _ _ HT'). exact Hy.
    + apply in_map_iff in HS. destruct HS as [S' [<- HS']].
      exfalso. apply Hx. apply (sublists_incl _ _ HT). apply (proj1 E). left. reflexivity.
    + apply in_map_iff in HT. destruct HT as [T' [<- HT']].
      exfalso. apply Hx. apply (sublists_incl _ _ HS). apply (proj2 E). left. reflexivity.
    + apply IH; auto.
Qed.

Lemma set_eqb_sub : forall F a b,
  NoDup F -> In a (sublists F) -> In b (sublists F) -> (set_eqb a b = true <-> a = b).
Proof.
  intros F a b ND Ha Hb. rewrite set_eqb_seteq by (eapply sublists_NoDup; eauto). split.
  - apply sublists_seteq_eq with (F := F); auto.
  - intros ->. apply seteq_refl.
Qed.

(* the representative of a subset S of F in F's iteration order *)
Definition canon (F S : list fact) : list fact := filter (fun f => mem f S) F.

Lemma canon_sub : forall F S, In (canon F S) (sublists F).
Proof. intros F S. unfold canon. apply sublists_filter. apply sublists_self. Qed.

Lemma canon_seteq : forall F S, incl S F -> seteq (canon F S) S.
Proof.
  intros F S H. unfold canon. split.
  - intros x Hx. apply filter_In in Hx. apply mem_In. tauto.
  - intros x Hx. apply filter_In. split; auto. apply mem_In. exact Hx.
Qed.

Lemma NoDup_snoc : forall {A} (l : list A) x, NoDup l -> ~ In x l -> NoDup (l ++ [x]).
Proof.
  intros A l x. induction l as [|a l IH]; simpl; intros H Hx.
  - constructor; auto.
  - inversion H as [|? ? Ha Hl]; subst. constructor.
    + rewrite in_app_iff. simpl. intros [H5|[H5|[]]]; [contradiction|]. subst. apply Hx. left. reflexivity.
    + apply IH; auto.
Qed.

Lemma NoDup_app_disjoint : forall {A} (l1 l2 : list A),
  NoDup l1 -> NoDup l2 -> (forall a, In a l1 -> ~ In a l2) -> NoDup (l1 ++ l2).
Proof.
  intros A. induction l1 as [|a l1 IH]; simpl; intros l2 H1 H2 H; auto.
  inversion H1 as [|? ? Ha H1']; subst. constructor.
  - rewrite in_app_iff. intros [H3|H3]; [contradiction|]. apply (H a); auto.
  - apply IH; auto.
Qed.

Lemma NoDup_map_cons : forall (x : fact) (l : list (list fact)), NoDup l -> NoDup (map (cons x) l).
Proof.
  intros x. induction l as [|a l IH]; simpl; intros H; constructor; inversion H; subst; auto.
  intros HI. apply in_map_iff in HI. destruct HI as [a' [E Ha']]. inversion E; subst. contradiction.
Qed.

Lemma sublists_all_NoDup : forall F, NoDup F -> NoDup (sublists F).
Proof.
  induction F as [|x t IH]; simpl; intros ND.
  - constructor; auto. constructor.
  - inversion ND as [|? ? Hx ND']; subst. apply NoDup_app_disjoint.
    + apply NoDup_map_cons. auto.
    + auto.
    + intros a Ha Ha'. apply in_map_iff in Ha. destruct Ha as [a' [<- _]].
      apply Hx. apply (sublists_incl _ _ Ha'). left. reflexivity.
Qed.
