(* C19 - repair-aware materialisation ends in a consistent fact set, for every iteration order.

   Invariant of the loop: the store and `all_facts` hold the same facts and violate no constraint.
   It holds initially because the start set is the input (when consistent) or a repair returned by
   compute_repairs (which is never empty), and every insertion is guarded by the violation test. *)
Require Import List NArith Bool Arith Lia Permutation.
Require Import KV.Repairs.Model KV.Repairs.Spec KV.Repairs.SetProofs KV.Repairs.SearchProofs
               KV.Repairs.MatchProofs KV.Repairs.QueryProofs.
Import ListNotations.

Definition mgood (cs : list constraint) (st : mstate) : Prop :=
  seteq (m_ds st) (m_all st) /\ violates cs (m_all st) = false.

Lemma consider_good : forall cs st f, mgood cs st -> mgood cs (consider cs st f).
Proof.
  intros cs st f [HE HV]. unfold consider.
  destruct (violates cs (set_add f (m_all st))) eqn:EV; simpl; [split; auto|].
  destruct (mem f (m_ds st)) eqn:ED; simpl; [split; auto|].
  destruct (mem f (m_all st)) eqn:EA; simpl.
  - apply mem_In in EA. split; simpl; auto. destruct HE as [H1 H2]. split.
    + intros x Hx. apply in_app_or in Hx. destruct Hx as [Hx|[<-|[]]]; auto.
    + intros x Hx. apply in_or_app. left. auto.
  - split; simpl.
    + destruct HE as [H1 H2]. split; intros x Hx; apply in_app_or in Hx; apply in_or_app;
        destruct Hx as [Hx|Hx]; auto.
    + unfold set_add in EV. rewrite EA in EV. exact EV.
Qed.

Lemma fold_consider_good : forall cs b concls st,
  mgood cs st -> mgood cs (fold_left (fun st c => consider cs st (inst c b)) concls st).
Proof.
  intros cs b. induction concls as [|c l IH]; simpl; intros st H; auto.
  apply IH. apply consider_good. exact H.
Qed.

Lemma fire_good : forall cs ord delta st r, mgood cs st -> mgood cs (fire cs ord delta st r).
Proof.
  intros cs ord delta st r H. unfold fire.
  generalize (join_rule (fst r) (ord (m_all st)) (ord delta)). intros bs. revert st H.
  induction bs as [|b bs IH]; simpl; intros st H; auto.
  apply IH. apply fold_consider_good. exact H.
Qed.

Lemma round_good : forall cs rules ord delta st, mgood cs st -> mgood cs (round cs rules ord delta st).
Proof.
  intros cs rules ord delta st H. unfold round.
  assert (H0 : mgood cs (MState (m_ds st) (m_all st) [] (m_inferred st))) by exact H.
  revert H0. generalize (MState (m_ds st) (m_all st) [] (m_inferred st)). clear H st.
  induction rules as [|r rules IH]; simpl; intros st H; auto.
  apply IH. apply fire_good. exact H.
Qed.

Lemma mat_loop_good : forall fuel cs rules ord delta st st',
  mgood cs st -> mat_loop fuel cs rules ord delta st = Some st' -> mgood cs st'.
Proof.
  induction fuel as [|fuel IH]; simpl; intros cs rules ord delta st st' H E. discriminate.
  pose proof (round_good cs rules ord delta st H) as H'.
  destruct (is_nil (m_new (round cs rules ord delta st))).
  - inversion E; subst. exact H'.
  - eapply IH; eauto.
Qed.

Lemma max_by_len_In : forall (l : list (list fact)) acc best,
  fold_left (fun best r => match best with
                           | None => Some r
                           | Some b => if (length r <? length b)%nat then Some b else Some r
                           end) l acc = Some best ->
  In best l \/ acc = Some best.
Proof.
  induction l as [|r l IH]; simpl; intros acc best H; auto.
  apply IH in H. destruct H as [H|H]; auto.
  destruct acc as [b|].
  - destruct (length r <? length b)%nat; auto. inversion H; auto.
  - inversion H; auto.
Qed.

Lemma max_by_len_some : forall l, l <> [] -> max_by_len l <> None.
Proof.
  intros [|r l] H; [congruence|]. unfold max_by_len. simpl. clear H.
  generalize r. induction l as [|x l IH]; simpl; intros b; [congruence|].
  destruct (length x <? length b)%nat; apply IH.
Qed.

Theorem materialise_consistent : forall fuel cs rules ord F ds inferred,
  NoDup F -> (forall l, Permutation (ord l) l) ->
  materialise fuel cs rules ord F = Some (ds, inferred) ->
  violates cs ds = false.
Proof.
  intros fuel cs rules ord F ds inferred ND Hord H. unfold materialise in H.
  assert (Hstart : forall base,
            violates cs base = false ->
            match mat_loop fuel cs rules ord base (MState base base [] []) with
            | Some st => Some (m_ds st, m_inferred st)
            | None => None
            end = Some (ds, inferred) -> violates cs ds = false).
  { intros base Hb E. destruct (mat_loop fuel cs rules ord base (MState base base [] [])) as [st|] eqn:EL; [|discriminate].
    inversion E; subst. apply mat_loop_good in EL.
    - destruct EL as [HE HV]. rewrite <- HV.
      apply (viol_ext _ (violates_monotone cs)). exact HE.
    - split; simpl; auto. apply seteq_refl. }
  destruct (violates cs F) eqn:EV.
  - assert (ND' : NoDup (ord F)) by (eapply Permutation_NoDup; [apply Permutation_sym; apply Hord|exact ND]).
    destruct (repairs_exact cs (ord F) ND') as [R [HR [HN HS]]]. rewrite HR in H.
    assert (Hne : R <> []).
    { apply (exact_nonempty (violates cs) (violates_monotone cs) (violates_nil cs) (ord F)). split; auto. }
    destruct (max_by_len R) as [best|] eqn:EB; [|exfalso; eapply max_by_len_some; eauto].
    apply (Hstart best); auto.
    unfold max_by_len in EB. apply max_by_len_In in EB. destruct EB as [EB|EB]; [|discriminate].
    apply HS in EB. destruct EB as [_ [_ [EB _]]]. exact EB.
  - apply (Hstart F); auto.
Qed.

(* ---- termination: the loop stops within |U|^3 + 1 rounds, U = the ids that can occur ---------- *)
Open Scope N_scope.

Lemma flat_map_length_const : forall {A B} (f : A -> list B) k l,
  (forall x, length (f x) = k) -> length (flat_map f l) = (length l * k)%nat.
Proof.
  intros A B f k. induction l as [|a l IH]; simpl; intros H; auto.
  rewrite app_length, H, IH; auto.
Qed.

Lemma cube_length : forall U, length (cube U) = (length U * length U * length U)%nat.
Proof.
  intros U. unfold cube.
  rewrite (flat_map_length_const _ (length U * length U)%nat).
  - lia.
  - intros s. rewrite (flat_map_length_const _ (length U)); auto. intros p. apply map_length.
Qed.

Lemma in_cube : forall U s p o, In (s, p, o) (cube U) <-> In s U /\ In p U /\ In o U.
Proof.
  intros U s p o. unfold cube. rewrite in_flat_map. split.
  - intros [s' [Hs H]]. apply in_flat_map in H. destruct H as [p' [Hp H]].
    apply in_map_iff in H. destruct H as [o' [E Ho]]. inversion E; subst. auto.
  - intros [Hs [Hp Ho]]. exists s. split; auto. apply in_flat_map. exists p. split; auto.
    apply in_map_iff. exists o. auto.
Qed.

Definition vals_in (U : list N) (b : binding) : Prop := forall k v, In (k, v) b -> In v U.

Lemma match_term_vals : forall U t x b b', In x U -> vals_in U b -> match_term t x b = Some b' -> vals_in U b'.
Proof.
  intros U [v|c|] x b b' Hx Hb; simpl; intros H.
  - destruct (lookup v b) as [y|].
    + destruct (y =? x); inversion H; subst; auto.
    + inversion H; subst. intros k w [E|E]; [inversion E; subst; auto|eapply Hb; eauto].
  - destruct (c =? x); inversion H; subst; auto.
  - discriminate.
Qed.

Lemma match_pat_vals : forall U p f b b', In f (cube U) -> vals_in U b -> match_pat p f b = Some b' -> vals_in U b'.
Proof.
  intros U [[ts tp] to] [[s pr] o] b b' Hf Hb H. apply in_cube in Hf. destruct Hf as [H1 [H2 H3]].
  unfold match_pat in H.
  destruct (match_term ts s b) as [b1|] eqn:E1; [|discriminate].
  destruct (match_term tp pr b1) as [b2|] eqn:E2; [|discriminate].
  eapply match_term_vals; [exact H3| |exact H].
  eapply match_term_vals; [exact H2| |exact E2].
  eapply match_term_vals; [exact H1| |exact E1]. exact Hb.
Qed.

Lemma join_all_vals : forall U ps all rs, incl all (cube U) ->
  (forall r, In r rs -> vals_in U r) -> forall b, In b (join_all ps all rs) -> vals_in U b.
Proof.
  intros U. induction ps as [|p ps IH]; simpl; intros all rs Hall Hrs b Hb; auto.
  eapply (IH all); [exact Hall| |exact Hb].
  intros r1 Hr1. apply in_flat_map in Hr1. destruct Hr1 as [r [Hr Hr1]].
  apply extend_with_In in Hr1. destruct Hr1 as [f [Hf Hm]].
  eapply match_pat_vals; [apply Hall; exact Hf|apply Hrs; exact Hr|exact Hm].
Qed.

Lemma join_rule_vals : forall U prem all delta, incl all (cube U) -> incl delta (cube U) ->
  forall b, In b (join_rule prem all delta) -> vals_in U b.
Proof.
  intros U prem all delta Hall Hdelta b Hb. unfold join_rule in Hb. apply join_from_In in Hb.
  destruct Hb as [k [p [f [b0 [H1 [H2 [H3 H4]]]]]]]. rewrite join_remaining_others in H4.
  eapply join_all_vals; [exact Hall| |exact H4].
  intros r [<-|[]]. eapply match_pat_vals; [apply Hdelta; exact H2| |exact H3]. intros k' v [].
Qed.

Lemma inst_in_cube : forall U c b, In 0 U -> incl (pat_ids c) U -> vals_in U b -> In (inst c b) (cube U).
Proof.
  intros U [[ts tp] to] b H0 Hc Hb. unfold inst. apply in_cube.
  assert (T : forall t, incl (term_ids t) U -> In (inst_term t b) U).
  { intros [v|c|] Ht; simpl; auto.
    - destruct (lookup v b) as [x|] eqn:E; auto. apply lookup_In in E. eapply Hb; eauto.
    - apply Ht. left. reflexivity. }
  unfold pat_ids in Hc. repeat split; apply T; intros x Hx; apply Hc.
  - apply in_or_app. left. exact Hx.
  - apply in_or_app. right. apply in_or_app. left. exact Hx.
  - apply in_or_app. right. apply in_or_app. right. exact Hx.
Qed.

Section Termination.
Variable cs : list constraint.
Variable rules : list rule.
Variable ord : list fact -> list fact.
Hypothesis Hord : forall l, Permutation (ord l) l.
Variable U : list N.
Hypothesis U0 : In 0 U.
Hypothesis Urules : forall r c, In r rules -> In c (snd r) -> incl (pat_ids c) U.

(* within a round started from all_facts = A0: all_facts = A0 ++ new_delta, duplicate-free, inside the cube *)
Definition rgood (A0 : list fact) (st : mstate) : Prop :=
  m_all st = A0 ++ m_new st /\ NoDup (m_all st) /\ incl (m_all st) (cube U).

Lemma consider_rgood : forall A0 st f, In f (cube U) -> rgood A0 st -> rgood A0 (consider cs st f).
Proof.
  intros A0 st f Hf [H1 [H2 H3]]. unfold consider.
  destruct (violates cs (set_add f (m_all st))); simpl; [split; auto|].
  destruct (mem f (m_ds st)); simpl; [split; auto|].
  destruct (mem f (m_all st)) eqn:EA; simpl; [split; auto|].
  apply mem_false in EA. split; [|split]; simpl.
  - unfold set_add. assert (EN : mem f (m_new st) = false).
    { apply mem_false. intros HI. apply EA. rewrite H1. apply in_or_app. right. exact HI. }
    rewrite EN, H1, app_assoc. reflexivity.
  - apply NoDup_snoc; auto.
  - intros x Hx. apply in_app_or in Hx. destruct Hx as [Hx|[<-|[]]]; auto.
Qed.

Lemma fire_rgood : forall A0 delta st r, In r rules -> incl delta (cube U) ->
  rgood A0 st -> rgood A0 (fire cs ord delta st r).
Proof.
  intros A0 delta st r Hr Hdelta H. unfold fire.
  assert (Hb : forall b, In b (join_rule (fst r) (ord (m_all st)) (ord delta)) -> vals_in U b).
  { apply join_rule_vals.
    - intros x Hx. apply (proj2 (proj2 H)). eapply Permutation_in; [apply Hord|exact Hx].
    - intros x Hx. apply Hdelta. eapply Permutation_in; [apply Hord|exact Hx]. }
  revert Hb. generalize (join_rule (fst r) (ord (m_all st)) (ord delta)). intros bs. revert st H.
  induction bs as [|b bs IH]; simpl; intros st H Hb; auto.
  apply IH; [|intros b' Hb'; apply Hb; right; exact Hb'].
  assert (Hvb : vals_in U b) by (apply Hb; left; reflexivity).
  assert (Hc : forall c, In c (snd r) -> incl (pat_ids c) U) by (intros c Hc; eapply Urules; eauto).
  revert st H Hc. generalize (snd r). induction l as [|c l IHl]; simpl; intros st H Hc; auto.
  apply IHl; [|intros c' Hc'; apply Hc; right; exact Hc'].
  apply consider_rgood; auto. apply inst_in_cube; auto.
Qed.

Lemma fold_fire_rgood : forall delta rs, incl rs rules -> incl delta (cube U) ->
  forall A0 st0, rgood A0 st0 -> rgood A0 (fold_left (fire cs ord delta) rs st0).
Proof.
  intros delta. induction rs as [|r rs IH]; simpl; intros Hin Hd A0 st0 H0; auto.
  apply IH; auto.
  - intros r' Hr'. apply Hin. right. exact Hr'.
  - apply fire_rgood; auto. apply Hin. left. reflexivity.
Qed.

Lemma round_rgood : forall delta st, NoDup (m_all st) -> incl (m_all st) (cube U) -> incl delta (cube U) ->
  rgood (m_all st) (round cs rules ord delta st).
Proof.
  intros delta st H1 H2 Hd. unfold round. apply fold_fire_rgood; auto. apply incl_refl.
  split; simpl; auto. rewrite app_nil_r. reflexivity.
Qed.

Lemma mat_loop_terminates : forall fuel delta st,
  NoDup (m_all st) -> incl (m_all st) (cube U) -> incl delta (cube U) ->
  (length (cube U) - length (m_all st) < fuel)%nat ->
  exists st', mat_loop fuel cs rules ord delta st = Some st'.
Proof.
  induction fuel as [|fuel IH]; intros delta st H1 H2 Hd Hlt. lia.
  cbn [mat_loop]. destruct (round_rgood delta st H1 H2 Hd) as [R1 [R2 R3]].
  destruct (m_new (round cs rules ord delta st)) as [|x l] eqn:EN; simpl.
  - eexists. reflexivity.
  - rewrite <- EN. apply IH; auto.
    + intros y Hy. apply R3. rewrite R1. apply in_or_app. right. rewrite <- EN. exact Hy.
    + assert (L : (length (m_all (round cs rules ord delta st)) <= length (cube U))%nat)
        by (apply NoDup_incl_length; auto).
      rewrite R1, app_length in *. simpl in *. lia.
Qed.

End Termination.

Theorem materialise_terminates : forall cs rules ord F,
  NoDup F -> (forall l, Permutation (ord l) l) ->
  exists ds inferred, materialise (mat_fuel rules F) cs rules ord F = Some (ds, inferred).
Proof.
  intros cs rules ord F ND Hord. set (U := universe rules F).
  assert (U0 : In 0 U) by (left; reflexivity).
  assert (UF : incl F (cube U)).
  { intros [[s p] o] Hf. apply in_cube.
    assert (Hi : incl (fact_ids (s, p, o)) U).
    { intros x Hx. right. apply in_or_app. left. apply in_flat_map. exists (s, p, o). auto. }
    repeat split; apply Hi; simpl; auto. }
  assert (Urules : forall r c, In r rules -> In c (snd r) -> incl (pat_ids c) U).
  { intros r c Hr Hc x Hx. right. apply in_or_app. right. apply in_flat_map. exists r. split; auto.
    apply in_flat_map. exists c. auto. }
  assert (Hbase : forall base, NoDup base -> incl base F ->
            exists ds inferred,
              match mat_loop (mat_fuel rules F) cs rules ord base (MState base base [] []) with
              | Some st => Some (m_ds st, m_inferred st)
              | None => None
              end = Some (ds, inferred)).
  { intros base NB HB.
    destruct (mat_loop_terminates cs rules ord Hord U U0 Urules (mat_fuel rules F) base (MState base base [] []))
      as [st' E]; cbn [m_all]; auto.
    - eapply incl_tran; eauto.
    - eapply incl_tran; eauto.
    - unfold mat_fuel. fold U. rewrite cube_length. lia.
    - rewrite E. eauto. }
  unfold materialise. destruct (violates cs F) eqn:EV.
  - assert (ND' : NoDup (ord F)) by (eapply Permutation_NoDup; [apply Permutation_sym; apply Hord|exact ND]).
    destruct (repairs_exact cs (ord F) ND') as [R [HR [HN HS]]]. rewrite HR.
    destruct (max_by_len R) as [best|] eqn:EB.
    + unfold max_by_len in EB. apply max_by_len_In in EB. destruct EB as [EB|EB]; [|discriminate].
      apply HS in EB. destruct EB as [EB1 _]. apply Hbase.
      * eapply sublists_NoDup; eauto.
      * intros x Hx. eapply Permutation_in; [apply Hord|]. eapply sublists_incl; eauto.
    + apply Hbase; auto. apply incl_refl.
  - apply Hbase; auto. apply incl_refl.
Qed.

Theorem materialise_ends_consistent : forall cs rules ord F,
  NoDup F -> (forall l, Permutation (ord l) l) ->
  exists ds inferred, materialise (mat_fuel rules F) cs rules ord F = Some (ds, inferred) /\
                      violates cs ds = false.
Proof.
  intros cs rules ord F ND Hord.
  destruct (materialise_terminates cs rules ord F ND Hord) as [ds [inf E]].
  exists ds, inf. split; auto. eapply materialise_consistent; eauto.
Qed.

(* ---- what the final store consists of ---------------------------------------------------------
   The store is (the start set) ++ (inferred_so_far), without repetition, where the start set is the
   input when it is consistent and otherwise a maximal repair of maximum cardinality among the
   repairs.  (Which one, and which consequences are kept, depends on the iteration order.) *)
Definition mshape (base : list fact) (st : mstate) : Prop :=
  m_ds st = m_all st /\ m_all st = base ++ m_inferred st /\ NoDup (m_all st).

Lemma consider_shape : forall cs base st f, mshape base st -> mshape base (consider cs st f).
Proof.
  intros cs base st f [H1 [H2 H3]]. unfold consider.
  destruct (violates cs (set_add f (m_all st))); simpl; [split; auto|].
  destruct (mem f (m_ds st)) eqn:ED; simpl; [split; auto|].
  rewrite H1 in ED. rewrite ED. simpl. apply mem_false in ED.
  split; [|split]; simpl.
  - rewrite H1. reflexivity.
  - rewrite H2, app_assoc. reflexivity.
  - apply NoDup_snoc; auto.
Qed.

Lemma round_shape : forall cs rules ord delta base st, mshape base st -> mshape base (round cs rules ord delta st).
Proof.
  intros cs rules ord delta base st H. unfold round.
  assert (H0 : mshape base (MState (m_ds st) (m_all st) [] (m_inferred st))) by exact H.
  revert H0. generalize (MState (m_ds st) (m_all st) [] (m_inferred st)). clear H st.
  induction rules as [|r rules IH]; simpl; intros st H; auto.
  apply IH. unfold fire. generalize (join_rule (fst r) (ord (m_all st)) (ord delta)). intros bs.
  revert st H. induction bs as [|b bs IHb]; simpl; intros st H; auto.
  apply IHb. generalize (snd r). intros l. revert st H.
  induction l as [|c l IHl]; simpl; intros st H; auto.
  apply IHl. apply consider_shape. exact H.
Qed.

Lemma mat_loop_shape : forall fuel cs rules ord delta base st st',
  mshape base st -> mat_loop fuel cs rules ord delta st = Some st' -> mshape base st'.
Proof.
  induction fuel as [|fuel IH]; simpl; intros cs rules ord delta base st st' H E. discriminate.
  pose proof (round_shape cs rules ord delta base st H) as H'.
  destruct (is_nil (m_new (round cs rules ord delta st))).
  - inversion E; subst. exact H'.
  - eapply IH; eauto.
Qed.

Lemma max_by_len_max : forall (l : list (list fact)) acc best,
  fold_left (fun best r => match best with
                           | None => Some r
                           | Some b => if (length r <? length b)%nat then Some b else Some r
                           end) l acc = Some best ->
  (forall r, In r l -> (length r <= length best)%nat) /\
  (forall a, acc = Some a -> (length a <= length best)%nat).
Proof.
  induction l as [|x l IH]; simpl; intros acc best H.
  - split; [intros r []|]. intros a Ha. rewrite Ha in H. inversion H; subst. lia.
  - apply IH in H. destruct H as [H1 H2]. destruct acc as [b|].
    + destruct (length x <? length b)%nat eqn:E.
      * apply Nat.ltb_lt in E. pose proof (H2 b eq_refl). split.
        -- intros r [<-|Hr]; auto. lia.
        -- intros a Ha. inversion Ha; subst. auto.
      * apply Nat.ltb_ge in E. pose proof (H2 x eq_refl). split.
        -- intros r [<-|Hr]; auto.
        -- intros a Ha. inversion Ha; subst. lia.
    + pose proof (H2 x eq_refl). split.
      * intros r [<-|Hr]; auto.
      * intros a Ha. discriminate.
Qed.

Theorem materialise_shape : forall fuel cs rules ord F ds inferred,
  NoDup F -> (forall l, Permutation (ord l) l) ->
  materialise fuel cs rules ord F = Some (ds, inferred) ->
  exists base, ds = base ++ inferred /\ NoDup ds /\
    (violates cs F = false -> base = F) /\
    (violates cs F = true ->
       maxrepair (violates cs) F base /\
       forall S, maxrepair (violates cs) F S -> NoDup S -> (length S <= length base)%nat).
Proof.
  intros fuel cs rules ord F ds inferred ND Hord H. unfold materialise in H.
  assert (Hstart : forall base, NoDup base ->
            match mat_loop fuel cs rules ord base (MState base base [] []) with
            | Some st => Some (m_ds st, m_inferred st)
            | None => None
            end = Some (ds, inferred) -> ds = base ++ inferred /\ NoDup ds).
  { intros base NB E.
    destruct (mat_loop fuel cs rules ord base (MState base base [] [])) as [st|] eqn:EL; [|discriminate].
    inversion E; subst. apply (mat_loop_shape _ _ _ _ _ base) in EL.
    - destruct EL as [H1 [H2 H3]]. rewrite H1. split; auto.
    - split; [|split]; simpl; auto. rewrite app_nil_r. reflexivity. }
  destruct (violates cs F) eqn:EV.
  - assert (ND' : NoDup (ord F)) by (eapply Permutation_NoDup; [apply Permutation_sym; apply Hord|exact ND]).
    assert (EF : seteq (ord F) F).
    { split; intros x Hx. eapply Permutation_in; [apply Hord|exact Hx].
      eapply Permutation_in; [apply Permutation_sym; apply Hord|exact Hx]. }
    destruct (repairs_exact cs (ord F) ND') as [R [HR [HN HS]]]. rewrite HR in H.
    assert (Hne : R <> []).
    { apply (exact_nonempty (violates cs) (violates_monotone cs) (violates_nil cs) (ord F)). split; auto. }
    destruct (max_by_len R) as [best|] eqn:EB; [|exfalso; eapply max_by_len_some; eauto].
    unfold max_by_len in EB. pose proof (max_by_len_max _ _ _ EB) as [Hmax _].
    apply max_by_len_In in EB. destruct EB as [EB|EB]; [|discriminate].
    pose proof (proj1 (HS best) EB) as [Hb1 Hb2].
    assert (NB : NoDup best) by (eapply sublists_NoDup; eauto).
    destruct (Hstart best NB H) as [G1 G2]. exists best. split; auto. split; auto.
    split; [discriminate|]. intros _. split.
    + eapply (maxrepair_seteq _ (violates_monotone cs)); [exact EF|apply seteq_refl|exact Hb2].
    + intros S HM NS.
      assert (HM' : maxrepair (violates cs) (ord F) S).
      { eapply (maxrepair_seteq _ (violates_monotone cs)); [apply seteq_sym; exact EF|apply seteq_refl|exact HM]. }
      destruct (exact_rep_of (violates cs) (violates_monotone cs) (ord F) R S (conj HN HS) HM') as [S' [I1 I2]].
      specialize (Hmax S' I1). eapply Nat.le_trans; [|exact Hmax].
      apply NoDup_incl_length; auto. exact (proj2 I2).
  - destruct (Hstart F ND H) as [G1 G2]. exists F. split; auto. split; auto. split; auto. discriminate.
Qed.
