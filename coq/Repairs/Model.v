(* C19 - executable Gallina model of the repair machinery of the Datalog reasoner.

   Anchors (in /repo):
     datalog/src/reasoning/rules.rs      matches_rule_pattern, join_rule, join_remaining
     datalog/src/reasoning.rs            violates_constraints, compute_repairs (with the final
                                         maximality filter of commit 2aecba6)
     datalog/src/reasoning/repairs.rs    query_with_repairs
     datalog/src/reasoning/materialisation/semi_naive_with_repairs.rs
                                         infer_new_facts_semi_naive_with_repairs

   Conventions.
   - A fact is a triple of dictionary ids (u32, modelled as unbounded N).
   - A `HashSet<Triple>` is a duplicate-free `list fact` WHOSE ORDER IS THE ITERATION ORDER of the
     hash set.  Rust randomises that order per process (and per `RandomState`); it is therefore an
     input of the model: the list `F` handed to `compute_repairs` / `query_with_repairs` is "the
     facts in the order in which this process happens to iterate them", and every theorem
     quantifies over all such orders.  `HashSet::clone` keeps the bucket layout and
     `HashSet::remove` does not move the remaining elements, so every set derived inside
     `compute_repairs` iterates in the order inherited from `F`: removal is `filter`.
   - In the materialisation loop sets also grow (`insert` puts the new element at an arbitrary
     position), so there the iteration order is a separate oracle `ord : list fact -> list fact`
     applied at every point where a hash set is iterated.
   - A `HashMap<String,u32>` binding is an association list with unique keys (newest first).
   No proofs in this file. *)
Require Import List NArith Bool Arith.
Import ListNotations.
Open Scope N_scope.

Definition fact := (N * N * N)%type.

(* shared::terms::Term; the payload of a quoted-triple pattern is irrelevant: it never matches *)
Inductive term := Var (v : N) | Const (c : N) | Quoted.
Definition pattern := (term * term * term)%type.
Definition binding := list (N * N).

Definition fact_eqb (a b : fact) : bool :=
  let '(s, p, o) := a in let '(s', p', o') := b in (s =? s') && (p =? p') && (o =? o').

(* ---- finite sets of facts as lists ---------------------------------------------------------- *)
Definition mem (f : fact) (l : list fact) : bool := existsb (fact_eqb f) l.
(* HashSet::remove: the other elements keep their relative iteration order *)
Definition remove (f : fact) (l : list fact) : list fact := filter (fun g => negb (fact_eqb g f)) l.
(* HashSet::insert *)
Definition set_add (f : fact) (l : list fact) : list fact := if mem f l then l else l ++ [f].
(* a.is_superset(b) *)
Definition superset (a b : list fact) : bool := forallb (fun f => mem f a) b.
(* HashSet == : same length and every element of a is in b *)
Definition set_eqb (a b : list fact) : bool := (length a =? length b)%nat && forallb (fun f => mem f b) a.
(* Vec<Triple> == (the keys of `seen`) *)
Fixpoint vec_eqb (a b : list fact) : bool :=
  match a, b with
  | [], [] => true
  | x :: a', y :: b' => fact_eqb x y && vec_eqb a' b'
  | _, _ => false
  end.
Definition vec_mem (s : list fact) (l : list (list fact)) : bool := existsb (vec_eqb s) l.

(* ---- matches_rule_pattern ------------------------------------------------------------------- *)
Fixpoint lookup (v : N) (b : binding) : option N :=
  match b with
  | [] => None
  | (k, x) :: b' => if k =? v then Some x else lookup v b'
  end.

(* one position of the pattern: `Some b'` = the position matches and the bindings become b' *)
Definition match_term (t : term) (x : N) (b : binding) : option binding :=
  match t with
  | Var v => match lookup v b with
             | Some y => if y =? x then Some b else None
             | None => Some ((v, x) :: b)
             end
  | Const c => if c =? x then Some b else None
  | Quoted => None
  end.

(* `matches_rule_pattern(pattern, fact, &mut bindings)`: returns false and leaves the bindings
   untouched (None), or returns true and commits the extended bindings (Some) *)
Definition match_pat (p : pattern) (f : fact) (b : binding) : option binding :=
  let '(ts, tp, to) := p in
  let '(s, pr, o) := f in
  match match_term ts s b with
  | None => None
  | Some b1 =>
      match match_term tp pr b1 with
      | None => None
      | Some b2 => match_term to o b2
      end
  end.

(* ---- join_rule / join_remaining ------------------------------------------------------------- *)
(* all facts of `facts` that extend the partial binding on premise `p`, in iteration order *)
Definition extend_with (p : pattern) (facts : list fact) (pb : binding) : list binding :=
  flat_map (fun f => match match_pat p f pb with Some b => [b] | None => [] end) facts.

(* join_remaining: premises j <> i in order; (the early `break` on an empty intermediate result is
   not modelled separately: continuing with an empty list yields the empty list) *)
Fixpoint join_remaining (prem : list pattern) (j i : nat) (all : list fact) (results : list binding)
  : list binding :=
  match prem with
  | [] => results
  | p :: prem' =>
      if Nat.eqb j i then join_remaining prem' (S j) i all results
      else join_remaining prem' (S j) i all (flat_map (extend_with p all) results)
  end.

(* the loop `for i in 0..n` of join_rule, `todo` = premises i.. still to be used as the delta premise *)
Fixpoint join_from (prem todo : list pattern) (i : nat) (all delta : list fact) : list binding :=
  match todo with
  | [] => []
  | p :: todo' =>
      flat_map (fun f => match match_pat p f [] with
                         | Some b => join_remaining prem 0 i all [b]
                         | None => []
                         end) delta
      ++ join_from prem todo' (S i) all delta
  end.

Definition join_rule (prem : list pattern) (all delta : list fact) : list binding :=
  join_from prem prem 0 all delta.

(* ---- violates_constraints ------------------------------------------------------------------- *)
(* a constraint is a Rule of which only `premise` is read (filters, negative premises and
   conclusions of a constraint are ignored by the code) *)
Definition constraint := list pattern.

Definition is_nil {A} (l : list A) : bool := match l with [] => true | _ => false end.

Definition violates (cs : list constraint) (facts : list fact) : bool :=
  existsb (fun c => negb (is_nil (join_rule c facts facts))) cs.

(* ---- compute_repairs ------------------------------------------------------------------------ *)
Section Search.
  (* `self.violates_constraints`; the search only calls it *)
  Variable viol : list fact -> bool.

  (* work_queue (top of the stack first), seen, repairs *)
  Definition state := (list (list fact) * list (list fact) * list (list fact))%type.

  (* one iteration of `while let Some(current_set) = work_queue.pop()`; None = queue empty *)
  Definition step (st : state) : option state :=
    let '(queue, seen, repairs) := st in
    match queue with
    | [] => None
    | cur :: rest =>
        if vec_mem cur seen then Some (rest, seen, repairs)
        else
          let seen' := cur :: seen in
          if negb (viol cur) then
            let is_maximal := forallb (fun r => negb (superset r cur) || set_eqb r cur) repairs in
            Some (rest, seen', if is_maximal then repairs ++ [cur] else repairs)
          else
            (* children in iteration order of current_set; each is pushed unless already seen;
               the last pushed is popped first *)
            let children := filter (fun c => negb (vec_mem c seen'))
                                   (map (fun f => remove f cur) cur) in
            Some (rev children ++ rest, seen', repairs)
    end.

  Fixpoint iterate (fuel : nat) (st : state) : option (list (list fact)) :=
    match fuel with
    | O => None
    | S k => match step st with
             | None => Some (snd st)
             | Some st' => iterate k st'
             end
    end.

  (* the final maximality filter (commit 2aecba6) *)
  Definition dominated (repairs : list (list fact)) (cand : list fact) : bool :=
    existsb (fun other => negb (set_eqb other cand) && superset other cand) repairs.

  Definition final_filter (repairs : list (list fact)) : list (list fact) :=
    fold_left (fun maximal cand =>
                 if negb (dominated repairs cand) && negb (existsb (fun m => set_eqb m cand) maximal)
                 then maximal ++ [cand] else maximal)
              repairs [].

  (* enough iterations for every search (theorem `search_terminates`): None is never returned *)
  Definition search_fuel (F : list fact) : nat := (2 ^ length F * S (length F) + 2)%nat.

  (* the candidates collected by the loop, i.e. what compute_repairs returned before 2aecba6 *)
  Definition candidates (F : list fact) : option (list (list fact)) :=
    iterate (search_fuel F) ([F], [], []).

  Definition compute_repairs (F : list fact) : option (list (list fact)) :=
    match candidates F with
    | None => None
    | Some reps => Some (final_filter reps)
    end.
End Search.

(* ---- query_with_repairs --------------------------------------------------------------------- *)
(* HashMap == on bindings *)
Definition bind_eqb (a b : binding) : bool :=
  (length a =? length b)%nat &&
  forallb (fun kv => match lookup (fst kv) b with Some y => y =? snd kv | None => false end) a.

Definition matches_as (q : pattern) (b : binding) (f : fact) : bool :=
  match match_pat q f [] with
  | Some b' => bind_eqb b' b
  | None => false
  end.

Definition answers_from (q : pattern) (first : list fact) : list binding :=
  flat_map (fun f => match match_pat q f [] with Some b => [b] | None => [] end) first.

Definition iar_filter (q : pattern) (repairs : list (list fact)) : list binding :=
  match repairs with
  | [] => []
  | first :: others =>
      filter (fun b => forallb (fun r => existsb (matches_as q b) r) others) (answers_from q first)
  end.

(* F = all facts of the store in the iteration order of the `all_facts` hash set *)
Definition query_with_repairs (cs : list constraint) (F : list fact) (q : pattern)
  : option (list binding) :=
  match compute_repairs (violates cs) F with
  | None => None
  | Some repairs => Some (iar_filter q repairs)
  end.

(* ---- infer_new_facts_semi_naive_with_repairs ------------------------------------------------ *)
(* premise, conclusions (filters are not modelled: generated rules carry none; negative premises
   are ignored by join_rule and hence by this strategy) *)
Definition rule := (list pattern * list pattern)%type.

(* replace_variables_with_bound_values; an unbound variable gives 0 in subject/predicate position
   (as the code does) and - deviation - also in object position, where the code invents a
   placeholder id; generated rules are range-restricted, and the consistency theorem does not
   depend on which fact is produced *)
Definition inst_term (t : term) (b : binding) : N :=
  match t with
  | Var v => match lookup v b with Some x => x | None => 0 end
  | Const c => c
  | Quoted => 0
  end.
Definition inst (p : pattern) (b : binding) : fact :=
  let '(ts, tp, to) := p in (inst_term ts b, inst_term tp b, inst_term to b).

Record mstate := MState {
  m_ds : list fact;        (* self.dataset_index (the default graph) *)
  m_all : list fact;       (* all_facts *)
  m_new : list fact;       (* new_delta *)
  m_inferred : list fact   (* inferred_so_far, in order of derivation *)
}.

(* the body of `for conclusion in &rule.conclusion` for one instantiated conclusion *)
Definition consider (cs : list constraint) (st : mstate) (f : fact) : mstate :=
  if negb (violates cs (set_add f (m_all st))) then
    if negb (mem f (m_ds st)) then                      (* dataset_index.insert returned true *)
      let ds' := m_ds st ++ [f] in
      if negb (mem f (m_all st))
      then MState ds' (m_all st ++ [f]) (set_add f (m_new st)) (m_inferred st ++ [f])
      else MState ds' (m_all st) (m_new st) (m_inferred st)
    else st
  else st.

Definition fire (cs : list constraint) (ord : list fact -> list fact) (delta : list fact)
           (st : mstate) (r : rule) : mstate :=
  let bindings := join_rule (fst r) (ord (m_all st)) (ord delta) in
  fold_left (fun st b => fold_left (fun st c => consider cs st (inst c b)) (snd r) st) bindings st.

Definition round (cs : list constraint) (rules : list rule) (ord : list fact -> list fact)
           (delta : list fact) (st : mstate) : mstate :=
  fold_left (fire cs ord delta) rules (MState (m_ds st) (m_all st) [] (m_inferred st)).

Fixpoint mat_loop (fuel : nat) (cs : list constraint) (rules : list rule)
         (ord : list fact -> list fact) (delta : list fact) (st : mstate) : option mstate :=
  match fuel with
  | O => None
  | S k => let st' := round cs rules ord delta st in
           if is_nil (m_new st') then Some st' else mat_loop k cs rules ord (m_new st') st'
  end.

(* Iterator::max_by_key(|r| r.len()): the LAST element of maximal length *)
Definition max_by_len (l : list (list fact)) : option (list fact) :=
  fold_left (fun best r => match best with
                           | None => Some r
                           | Some b => if (length r <? length b)%nat then Some b else Some r
                           end) l None.

(* F = content of the store; returns (final store, inferred_so_far) *)
Definition materialise (fuel : nat) (cs : list constraint) (rules : list rule)
           (ord : list fact -> list fact) (F : list fact) : option (list fact * list fact) :=
  let start :=
    if violates cs F then
      match compute_repairs (violates cs) (ord F) with
      | None => None
      | Some repairs => match max_by_len repairs with
                        | Some best => Some best
                        | None => Some F
                        end
      end
    else Some F in
  match start with
  | None => None
  | Some base =>
      match mat_loop fuel cs rules ord base (MState base base [] []) with
      | None => None
      | Some st => Some (m_ds st, m_inferred st)
      end
  end.

(* enough rounds for every run (theorem materialise_terminates): every fact ever derived is built
   from the ids of the input facts, the constants of rule conclusions and 0 *)
Definition fact_ids (f : fact) : list N := let '(s, p, o) := f in [s; p; o].
Definition term_ids (t : term) : list N := match t with Const c => [c] | _ => [] end.
Definition pat_ids (p : pattern) : list N := let '(a, b, c) := p in term_ids a ++ term_ids b ++ term_ids c.
Definition universe (rules : list rule) (F : list fact) : list N :=
  0 :: flat_map fact_ids F ++ flat_map (fun r => flat_map pat_ids (snd r)) rules.
Definition cube (U : list N) : list fact :=
  flat_map (fun s => flat_map (fun p => map (fun o => (s, p, o)) U) U) U.
Definition mat_fuel (rules : list rule) (F : list fact) : nat :=
  let n := length (universe rules F) in S (n * n * n).
