(* C19 - specification: the objects the property talks about.

   - consistency of a fact set w.r.t. a violation test `viol` (the property's "violates integrity
     constraints"); for pattern constraints `sat_violates` is the mathematical notion "some
     constraint body has a match": one substitution sends every body atom into the set;
   - the repairs: the SUBSET-MAXIMAL consistent subsets of the facts (textbook definition,
     quantifying over all subsets), and an executable brute-force enumeration of them;
   - the inconsistency-tolerant (IAR) answers of a goal pattern: the bindings of the goal's
     variables that hold in every repair.
   Sets are lists read up to `incl` in both directions. *)
Require Import List NArith Bool Arith.
Require Import KV.Repairs.Model.
Import ListNotations.
Open Scope N_scope.

Definition seteq (a b : list fact) : Prop := incl a b /\ incl b a.

(* the two facts about a violation test that the theory needs; both hold for `violates cs`:
   constraints are positive rule bodies, so a superset of a violating set violates, and the empty
   set matches nothing *)
Definition monotone (viol : list fact -> bool) : Prop :=
  forall S T, incl S T -> viol S = true -> viol T = true.

(* S is a repair of F: a consistent subset that no consistent subset of F properly extends *)
Definition maxrepair (viol : list fact -> bool) (F S : list fact) : Prop :=
  incl S F /\ viol S = false /\
  forall T, incl T F -> incl S T -> viol T = false -> incl T S.

(* all sub-sequences of a list (every subset of a duplicate-free list exactly once) *)
Fixpoint sublists (l : list fact) : list (list fact) :=
  match l with
  | [] => [[]]
  | x :: t => map (cons x) (sublists t) ++ sublists t
  end.

(* brute force, textbook shape: consistent, and no consistent subset of F is a proper superset *)
Definition max_repairs_spec (viol : list fact -> bool) (F : list fact) : list (list fact) :=
  filter (fun S => negb (viol S) &&
                   forallb (fun T => negb (superset T S) || viol T || superset S T) (sublists F))
         (sublists F).

(* cheaper enumeration (equal under monotonicity, lemma `max_repairs_local_spec`): consistent and
   adding any further fact of F violates *)
Definition max_repairs_local (viol : list fact -> bool) (F : list fact) : list (list fact) :=
  filter (fun S => negb (viol S) && forallb (fun f => mem f S || viol (f :: S)) F) (sublists F).

(* ---- pattern constraints: "some match" ------------------------------------------------------ *)
Definition sat_term (t : term) (x : N) (sigma : binding) : Prop :=
  match t with
  | Var v => lookup v sigma = Some x
  | Const c => c = x
  | Quoted => False
  end.
Definition sat_pat (p : pattern) (f : fact) (sigma : binding) : Prop :=
  let '(ts, tp, to) := p in let '(s, pr, o) := f in
  sat_term ts s sigma /\ sat_term tp pr sigma /\ sat_term to o sigma.

(* a non-empty constraint body is matched into S by one substitution *)
Definition sat_violates (cs : list constraint) (S : list fact) : Prop :=
  exists c sigma, In c cs /\ c <> [] /\ forall p, In p c -> exists f, In f S /\ sat_pat p f sigma.

(* ---- answers -------------------------------------------------------------------------------- *)
(* the binding b of the goal's variables holds in S: the goal instantiated by b is a fact of S *)
Definition holds (q : pattern) (b : binding) (S : list fact) : Prop :=
  exists f, In f S /\ match_pat q f [] = Some b.

Definition iar_answer (viol : list fact -> bool) (F : list fact) (q : pattern) (b : binding) : Prop :=
  forall S, maxrepair viol F S -> holds q b S.

(* executable: the facts in every brute-force repair, matched against the goal *)
Definition iar_of (reps : list (list fact)) (F : list fact) (q : pattern) : list binding :=
  flat_map (fun f => if forallb (fun r => mem f r) reps
                     then match match_pat q f [] with Some b => [b] | None => [] end
                     else []) F.
Definition iar_spec (viol : list fact -> bool) (F : list fact) (q : pattern) : list binding :=
  iar_of (max_repairs_local viol F) F q.

(* a fact is involved in no conflict: adding it to a consistent subset never violates *)
Definition conflict_free (viol : list fact -> bool) (F : list fact) (f : fact) : Prop :=
  forall S, incl S F -> viol S = false -> viol (f :: S) = false.
