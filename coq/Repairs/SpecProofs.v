(* C19 - the executable enumerations of the Spec (used as oracle by the correspondence check)
   enumerate exactly the objects of the textbook definitions. *)
Require Import List NArith Bool Arith Lia Permutation.
Require Import KV.Repairs.Model KV.Repairs.Spec KV.Repairs.SetProofs KV.Repairs.SearchProofs
               KV.Repairs.MatchProofs KV.Repairs.QueryProofs.
Import ListNotations.

Section SpecProofs.
Variable viol : list fact -> bool.
Hypothesis mono : monotone viol.
Hypothesis vnil : viol [] = false.
Variable F : list fact.
Hypothesis ndF : NoDup F.

Theorem max_repairs_spec_ok : forall S,
  In S (max_repairs_spec viol F) <-> In S (sublists F) /\ maxrepair viol F S.
Proof.
  intros S. unfold max_repairs_spec. rewrite filter_In, andb_true_iff, negb_true_iff, forallb_forall. split.
  - intros [HS [HV HA]]. split; auto. split; [apply sublists_incl; exact HS|]. split; auto.
    intros T HT1 HT2 HT3. specialize (HA (canon F T) (canon_sub F T)).
    destruct (canon_seteq F T HT1) as [C1 C2].
    assert (E1 : superset (canon F T) S = true).
    { apply superset_incl. eapply incl_tran; eauto. }
    assert (E2 : viol (canon F T) = false).
    { rewrite <- HT3. apply (viol_ext viol mono). split; auto. }
    rewrite E1, E2 in HA. simpl in HA. apply superset_incl in HA. eapply incl_tran; eauto.
  - intros [HS [H1 [H2 H3]]]. split; auto. split; auto. intros T HT.
    destruct (superset T S) eqn:E1; simpl; auto. destruct (viol T) eqn:E2; simpl; auto.
    apply superset_incl. apply H3; auto. apply sublists_incl. exact HT. apply superset_incl. exact E1.
Qed.

Theorem max_repairs_local_ok : forall S,
  In S (max_repairs_local viol F) <-> In S (sublists F) /\ maxrepair viol F S.
Proof.
  intros S. unfold max_repairs_local. rewrite filter_In, andb_true_iff, negb_true_iff, forallb_forall. split.
  - intros [HS [HV HA]]. split; auto. apply (maxrepair_local viol mono); auto.
    + apply sublists_incl. exact HS.
    + intros f Hf. specialize (HA f Hf). apply orb_true_iff in HA. destruct HA as [HA|HA]; auto.
      left. apply mem_In. exact HA.
  - intros [HS HM]. split; auto. split; [exact (proj1 (proj2 HM))|].
    intros f Hf. apply orb_true_iff.
    destruct (proj2 (maxrepair_local viol mono F S (proj1 HM) (proj1 (proj2 HM))) HM f Hf) as [H|H]; auto.
    left. apply mem_In. exact H.
Qed.

Lemma max_repairs_local_exact : exact_repairs viol F (max_repairs_local viol F).
Proof.
  split; [|exact max_repairs_local_ok].
  unfold max_repairs_local. apply NoDup_filter. apply sublists_all_NoDup. exact ndF.
Qed.

(* the executable IAR answers are the bindings that hold in every maximal repair *)
Theorem iar_spec_ok : forall q b, In b (iar_spec viol F q) <-> iar_answer viol F q b.
Proof.
  intros q b. unfold iar_spec, iar_of. rewrite in_flat_map. split.
  - intros [f [Hf H]] S HS.
    destruct (forallb (fun r => mem f r) (max_repairs_local viol F)) eqn:EA; [|contradiction].
    destruct (match_pat q f []) as [b0|] eqn:EM; [|contradiction]. destruct H as [->|[]].
    rewrite forallb_forall in EA.
    destruct (exact_rep_of viol mono F _ S max_repairs_local_exact HS) as [S' [H1 H2]].
    exists f. split; auto. apply (proj1 H2). apply mem_In. apply EA. exact H1.
  - intros H.
    pose proof (exact_nonempty viol mono vnil F _ max_repairs_local_exact) as Hne.
    destruct (max_repairs_local viol F) as [|r0 rs] eqn:ER; [congruence|]. clear Hne.
    assert (Hall : forall r, In r (r0 :: rs) -> maxrepair viol F r).
    { intros r Hr. rewrite <- ER in Hr. apply max_repairs_local_ok in Hr. tauto. }
    destruct (H r0 (Hall r0 (or_introl eq_refl))) as [f [Hf EM]].
    exists f. split.
    + exact (proj1 (Hall r0 (or_introl eq_refl)) f Hf).
    + assert (EA : forallb (fun r => mem f r) (r0 :: rs) = true).
      { apply forallb_forall. intros r Hr. apply mem_In.
        destruct (H r (Hall r Hr)) as [f' [Hf' EM']].
        assert (f = f'); [|subst; auto].
        eapply match_pat_inj; eauto. apply bind_eqb_refl. eapply match_pat_ukeys; eauto. }
      rewrite EA, EM. left. reflexivity.
Qed.

End SpecProofs.

Theorem spec_repairs_ok : forall viol, monotone viol -> forall F, NoDup F -> forall S,
  (In S (max_repairs_spec viol F) <-> In S (sublists F) /\ maxrepair viol F S) /\
  (In S (max_repairs_local viol F) <-> In S (sublists F) /\ maxrepair viol F S).
Proof.
  intros viol mono F ND S. split.
  - exact (max_repairs_spec_ok viol mono F S).
  - exact (max_repairs_local_ok viol mono F S).
Qed.
