(* C19 - pattern matching and the join: what `violates_constraints` means.

     match_pat_sound / match_pat_complete   matches_rule_pattern computes most general extensions
     join_rule_nonempty                      join_rule c S S is non-empty iff the body c is non-empty
                                             and one substitution sends every atom of c into S
     violates_iff                            violates cs S = true <-> sat_violates cs S
     violates_monotone, violates_nil         the two facts the search theory needs
     match_pat_inj                           a goal binding determines the matched fact *)
Require Import List NArith Bool Arith Lia.
Require Import KV.Repairs.Model KV.Repairs.Spec KV.Repairs.SetProofs.
Import ListNotations.
Open Scope N_scope.

Definition extends (b b' : binding) : Prop := forall k v, lookup k b = Some v -> lookup k b' = Some v.

Lemma extends_refl : forall b, extends b b.
Proof. intros b k v H. exact H. Qed.

Lemma extends_trans : forall a b c, extends a b -> extends b c -> extends a c.
Proof. intros a b c H1 H2 k v H. apply H2. apply H1. exact H. Qed.

Lemma extends_nil : forall b, extends [] b.
Proof. intros b k v H. discriminate. Qed.

Lemma lookup_In : forall k v b, lookup k b = Some v -> In (k, v) b.
Proof.
  induction b as [|[k' x] b IH]; simpl; intros H. discriminate.
  destruct (k' =? k) eqn:E.
  - apply N.eqb_eq in E. inversion H; subst. left. reflexivity.
  - right. apply IH. exact H.
Qed.

Lemma lookup_None : forall k b, lookup k b = None -> ~ In k (map fst b).
Proof.
  induction b as [|[k' x] b IH]; simpl; intros H. tauto.
  destruct (k' =? k) eqn:E. discriminate. apply N.eqb_neq in E. intros [H1|H1]; auto. apply IH; auto.
Qed.

Definition ukeys (b : binding) : Prop := NoDup (map fst b).

Lemma In_lookup : forall k v b, ukeys b -> In (k, v) b -> lookup k b = Some v.
Proof.
  unfold ukeys. induction b as [|[k' x] b IH]; simpl; intros ND H. contradiction.
  inversion ND as [|? ? Hn ND']; subst. destruct H as [H|H].
  - inversion H; subst. rewrite N.eqb_refl. reflexivity.
  - destruct (k' =? k) eqn:E.
    + apply N.eqb_eq in E. subst. exfalso. apply Hn. apply in_map_iff. exists (k, v). split; auto.
    + apply IH; auto.
Qed.

Lemma sat_term_ext : forall t x b b', extends b b' -> sat_term t x b -> sat_term t x b'.
Proof. intros [v|c|] x b b' H; simpl; auto. Qed.

Lemma sat_pat_ext : forall p f b b', extends b b' -> sat_pat p f b -> sat_pat p f b'.
Proof.
  intros [[ts tp] to] [[s pr] o] b b' H [H1 [H2 H3]]. repeat split; eapply sat_term_ext; eauto.
Qed.

Lemma sat_term_fun : forall t x y b, sat_term t x b -> sat_term t y b -> x = y.
Proof. intros [v|c|] x y b; simpl; intros H1 H2; try congruence. contradiction. Qed.

(* ---- matches_rule_pattern ------------------------------------------------------------------ *)
Lemma match_term_sound : forall t x b b',
  match_term t x b = Some b' -> extends b b' /\ sat_term t x b' /\ (ukeys b -> ukeys b').
Proof.
  intros [v|c|] x b b'; simpl; intros H.
  - destruct (lookup v b) as [y|] eqn:E.
    + destruct (y =? x) eqn:Ey; [|discriminate]. apply N.eqb_eq in Ey. inversion H; subst.
      split; [apply extends_refl|]. split; auto.
    + inversion H; subst. split; [|split].
      * intros k w Hk. simpl. destruct (v =? k) eqn:Ev; auto.
        apply N.eqb_eq in Ev. subst. congruence.
      * simpl. rewrite N.eqb_refl. reflexivity.
      * intros U. unfold ukeys. simpl. constructor; auto. apply lookup_None. exact E.
  - destruct (c =? x) eqn:Ec; [|discriminate]. apply N.eqb_eq in Ec. inversion H; subst.
    split; [apply extends_refl|]. split; auto.
  - discriminate.
Qed.

Lemma match_term_complete : forall t x b sigma,
  extends b sigma -> sat_term t x sigma ->
  exists b', match_term t x b = Some b' /\ extends b' sigma.
Proof.
  intros [v|c|] x b sigma HE HS; simpl in *.
  - destruct (lookup v b) as [y|] eqn:E.
    + apply HE in E. assert (y = x) by congruence. subst. rewrite N.eqb_refl. eauto.
    + eexists. split; [reflexivity|]. intros k w Hk. simpl in Hk. destruct (v =? k) eqn:Ev; auto.
      apply N.eqb_eq in Ev. subst. congruence.
  - subst. rewrite N.eqb_refl. eauto.
  - contradiction.
Qed.

Lemma match_pat_sound : forall p f b b',
  match_pat p f b = Some b' -> extends b b' /\ sat_pat p f b' /\ (ukeys b -> ukeys b').
Proof.
  intros [[ts tp] to] [[s pr] o] b b' H. unfold match_pat in H.
  destruct (match_term ts s b) as [b1|] eqn:E1; [|discriminate].
  destruct (match_term tp pr b1) as [b2|] eqn:E2; [|discriminate].
  apply match_term_sound in E1. apply match_term_sound in E2. apply match_term_sound in H.
  destruct E1 as [A1 [B1 C1]]. destruct E2 as [A2 [B2 C2]]. destruct H as [A3 [B3 C3]].
  split; [|split].
  - eapply extends_trans; eauto. eapply extends_trans; eauto.
  - simpl. split; [|split]; auto.
    + eapply sat_term_ext; [|exact B1]. eapply extends_trans; eauto.
    + eapply sat_term_ext; eauto.
  - auto.
Qed.

Lemma match_pat_complete : forall p f b sigma,
  extends b sigma -> sat_pat p f sigma ->
  exists b', match_pat p f b = Some b' /\ extends b' sigma.
Proof.
  intros [[ts tp] to] [[s pr] o] b sigma HE [H1 [H2 H3]]. unfold match_pat.
  destruct (match_term_complete ts s b sigma HE H1) as [b1 [E1 X1]]. rewrite E1.
  destruct (match_term_complete tp pr b1 sigma X1 H2) as [b2 [E2 X2]]. rewrite E2.
  apply match_term_complete; auto.
Qed.

(* a goal binding determines the matched fact *)
Lemma bind_eqb_extends : forall b' b, bind_eqb b' b = true -> extends b' b.
Proof.
  intros b' b H k v Hk. unfold bind_eqb in H. apply andb_true_iff in H. destruct H as [_ H].
  rewrite forallb_forall in H. specialize (H (k, v) (lookup_In _ _ _ Hk)). simpl in H.
  destruct (lookup k b) as [y|]; [|discriminate]. apply N.eqb_eq in H. congruence.
Qed.

Lemma bind_eqb_refl : forall b, ukeys b -> bind_eqb b b = true.
Proof.
  intros b U. unfold bind_eqb. rewrite Nat.eqb_refl. simpl. apply forallb_forall.
  intros [k v] H. simpl. rewrite (In_lookup k v b U H). apply N.eqb_refl.
Qed.

Lemma sat_pat_fun : forall q f f' b, sat_pat q f b -> sat_pat q f' b -> f = f'.
Proof.
  intros [[ts tp] to] [[s pr] o] [[s' pr'] o'] b [H1 [H2 H3]] [G1 [G2 G3]].
  f_equal; [f_equal|]; eapply sat_term_fun; eauto.
Qed.

Lemma match_pat_inj : forall q f f' b b',
  match_pat q f [] = Some b -> match_pat q f' [] = Some b' -> bind_eqb b' b = true -> f = f'.
Proof.
  intros q f f' b b' H H' E. apply match_pat_sound in H. apply match_pat_sound in H'.
  destruct H as [_ [H _]]. destruct H' as [_ [H' _]].
  apply bind_eqb_extends in E. eapply sat_pat_fun; eauto. eapply sat_pat_ext; eauto.
Qed.

Lemma match_pat_ukeys : forall q f b, match_pat q f [] = Some b -> ukeys b.
Proof.
  intros q f b H. apply match_pat_sound in H. destruct H as [_ [_ H]]. apply H. constructor.
Qed.

(* ---- the join ------------------------------------------------------------------------------- *)
Lemma extend_with_In : forall p all r b1,
  In b1 (extend_with p all r) <-> exists f, In f all /\ match_pat p f r = Some b1.
Proof.
  intros p all r b1. unfold extend_with. rewrite in_flat_map. split.
  - intros [f [Hf H]]. exists f. split; auto. destruct (match_pat p f r) as [b|]; simpl in H.
    + destruct H as [->|[]]. reflexivity.
    + contradiction.
  - intros [f [Hf H]]. exists f. split; auto. rewrite H. left. reflexivity.
Qed.

Definition join_all (ps : list pattern) (all : list fact) (rs : list binding) : list binding :=
  fold_left (fun rs p => flat_map (extend_with p all) rs) ps rs.

(* the premises other than the one at absolute index i, when the list starts at absolute index j *)
Fixpoint others (prem : list pattern) (j i : nat) : list pattern :=
  match prem with
  | [] => []
  | p :: prem' => if Nat.eqb j i then others prem' (S j) i else p :: others prem' (S j) i
  end.

Lemma join_remaining_others : forall prem j i all rs,
  join_remaining prem j i all rs = join_all (others prem j i) all rs.
Proof.
  induction prem as [|p prem IH]; simpl; intros j i all rs; auto.
  destruct (Nat.eqb j i); simpl; apply IH.
Qed.

Lemma others_cover : forall prem j i p, In p prem ->
  (exists k, nth_error prem k = Some p /\ (j + k = i)%nat) \/ In p (others prem j i).
Proof.
  induction prem as [|a prem IH]; simpl; intros j i p H. contradiction.
  destruct (Nat.eqb j i) eqn:E.
  - apply Nat.eqb_eq in E. destruct H as [->|H].
    + left. exists 0%nat. split; auto. lia.
    + destruct (IH (S j) i p H) as [[k [H1 H2]]|H1]; auto. lia.
  - destruct H as [->|H].
    + right. left. reflexivity.
    + destruct (IH (S j) i p H) as [[k [H1 H2]]|H1].
      * left. exists (S k). split; auto. lia.
      * right. right. exact H1.
Qed.

Lemma others_incl : forall prem j i, incl (others prem j i) prem.
Proof.
  induction prem as [|a prem IH]; simpl; intros j i. apply incl_refl.
  destruct (Nat.eqb j i).
  - apply incl_tl. apply IH.
  - intros x [<-|Hx]. left; auto. right. eapply IH; eauto.
Qed.

Lemma join_all_sound : forall ps all rs b',
  In b' (join_all ps all rs) ->
  exists r, In r rs /\ extends r b' /\ forall p, In p ps -> exists f, In f all /\ sat_pat p f b'.
Proof.
  induction ps as [|p ps IH]; simpl; intros all rs b' H.
  - exists b'. split; auto. split; [apply extends_refl|]. intros p [].
  - apply IH in H. destruct H as [r1 [H1 [H2 H3]]].
    apply in_flat_map in H1. destruct H1 as [r [Hr Hr1]].
    apply extend_with_In in Hr1. destruct Hr1 as [f [Hf Hm]].
    apply match_pat_sound in Hm. destruct Hm as [M1 [M2 _]].
    exists r. split; auto. split; [eapply extends_trans; eauto|].
    intros q [<-|Hq]; auto. exists f. split; auto. eapply sat_pat_ext; eauto.
Qed.

Lemma join_all_complete : forall ps all rs r sigma,
  In r rs -> extends r sigma -> (forall p, In p ps -> exists f, In f all /\ sat_pat p f sigma) ->
  exists b', In b' (join_all ps all rs) /\ extends b' sigma.
Proof.
  induction ps as [|p ps IH]; simpl; intros all rs r sigma Hr HE HS.
  - exists r. auto.
  - destruct (HS p (or_introl eq_refl)) as [f [Hf Hsat]].
    destruct (match_pat_complete p f r sigma HE Hsat) as [r1 [Hm HE1]].
    apply (IH all _ r1 sigma); auto.
    apply in_flat_map. exists r. split; auto. apply extend_with_In. exists f. auto.
Qed.

Lemma join_from_In : forall prem todo i all delta b',
  In b' (join_from prem todo i all delta) <->
  exists k p f b, nth_error todo k = Some p /\ In f delta /\ match_pat p f [] = Some b /\
                  In b' (join_remaining prem 0 (i + k) all [b]).
Proof.
  intros prem. induction todo as [|p todo IH]; simpl; intros i all delta b'.
  - split; [contradiction|]. intros [k [p [f [b [H _]]]]]. destruct k; discriminate.
  - rewrite in_app_iff, in_flat_map, IH. split.
    + intros [[f [Hf H]]|[k [p' [f [b [H1 [H2 [H3 H4]]]]]]]].
      * destruct (match_pat p f []) as [b|] eqn:E; [|contradiction].
        exists 0%nat, p, f, b. rewrite Nat.add_0_r. auto.
      * exists (S k), p', f, b. replace (i + S k)%nat with (S i + k)%nat by lia. auto.
    + intros [k [p' [f [b [H1 [H2 [H3 H4]]]]]]]. destruct k as [|k]; simpl in H1.
      * inversion H1; subst. left. exists f. split; auto. rewrite H3. rewrite Nat.add_0_r in H4. exact H4.
      * right. exists k, p', f, b. replace (S i + k)%nat with (i + S k)%nat by lia. auto.
Qed.

Theorem join_rule_nonempty : forall prem S,
  join_rule prem S S <> [] <->
  prem <> [] /\ exists sigma, forall p, In p prem -> exists f, In f S /\ sat_pat p f sigma.
Proof.
  intros prem S. split.
  - intros H. destruct (join_rule prem S S) as [|b' l] eqn:E; [congruence|]. clear H.
    assert (Hb : In b' (join_rule prem S S)) by (rewrite E; left; reflexivity).
    unfold join_rule in Hb. apply join_from_In in Hb.
    destruct Hb as [k [p [f [b [H1 [H2 [H3 H4]]]]]]]. split.
    + intros ->. destruct k; discriminate.
    + exists b'. rewrite join_remaining_others in H4. apply join_all_sound in H4.
      destruct H4 as [r [[<-|[]] [HE HS]]].
      intros q Hq. destruct (others_cover prem 0 (0 + k) q Hq) as [[k' [G1 G2]]|G]; auto.
      assert (k' = k) by lia. subst k'. assert (q = p) by congruence. subst q.
      exists f. split; auto. apply match_pat_sound in H3. destruct H3 as [_ [H3 _]].
      eapply sat_pat_ext; eauto.
  - intros [Hne [sigma HS]]. destruct prem as [|p0 prem']; [congruence|].
    destruct (HS p0 (or_introl eq_refl)) as [f [Hf Hsat]].
    destruct (match_pat_complete p0 f [] sigma (extends_nil _) Hsat) as [b [Hm HE]].
    destruct (join_all_complete (others (p0 :: prem') 0 0) S [b] b sigma) as [b' [Hb' _]]; auto.
    + left. reflexivity.
    + intros q Hq. apply HS. eapply others_incl; eauto.
    + intros E. assert (Hin : In b' (join_rule (p0 :: prem') S S)); [|rewrite E in Hin; contradiction].
      unfold join_rule. apply join_from_In. exists 0%nat, p0, f, b. split; auto. split; auto. split; auto.
      rewrite join_remaining_others. exact Hb'.
Qed.

Lemma is_nil_false : forall {A} (l : list A), negb (is_nil l) = true <-> l <> [].
Proof. intros A [|x l]; simpl; split; intros H; congruence. Qed.

Theorem violates_iff : forall cs S, violates cs S = true <-> sat_violates cs S.
Proof.
  intros cs S. unfold violates, sat_violates. rewrite existsb_exists. split.
  - intros [c [Hc H]]. apply is_nil_false in H. apply join_rule_nonempty in H.
    destruct H as [Hne [sigma Hs]]. exists c, sigma. auto.
  - intros [c [sigma [Hc [Hne Hs]]]]. exists c. split; auto. apply is_nil_false.
    apply join_rule_nonempty. split; auto. exists sigma. exact Hs.
Qed.

Theorem violates_monotone : forall cs, monotone (violates cs).
Proof.
  intros cs S T HI H. apply violates_iff in H. apply violates_iff.
  destruct H as [c [sigma [Hc [Hne Hs]]]]. exists c, sigma. split; auto. split; auto.
  intros p Hp. destruct (Hs p Hp) as [f [Hf Hsat]]. exists f. split; auto.
Qed.

Theorem violates_nil : forall cs, violates cs [] = false.
Proof.
  intros cs. destruct (violates cs []) eqn:E; auto. apply violates_iff in E.
  destruct E as [c [sigma [Hc [Hne Hs]]]]. destruct c as [|p c]; [congruence|].
  destruct (Hs p (or_introl eq_refl)) as [f [[] _]].
Qed.

Lemma violates_monotone_nil : forall cs, monotone (violates cs) /\ violates cs [] = false.
Proof. intros cs. split. apply violates_monotone. apply violates_nil. Qed.

(* a fact that matches no atom of any constraint is involved in no conflict *)
Lemma unmatched_irrelevant : forall cs f S,
  (forall c p, In c cs -> In p c -> match_pat p f [] = None) ->
  violates cs (f :: S) = violates cs S.
Proof.
  intros cs f S H. destruct (violates cs S) eqn:E.
  - apply (violates_monotone cs S); auto. apply incl_tl. apply incl_refl.
  - destruct (violates cs (f :: S)) eqn:E'; auto. exfalso.
    apply violates_iff in E'. destruct E' as [c [sigma [Hc [Hne Hs]]]].
    assert (violates cs S = true); [|congruence].
    apply violates_iff. exists c, sigma. split; auto. split; auto.
    intros p Hp. destruct (Hs p Hp) as [g [[<-|Hg] Hsat]]; eauto.
    exfalso. destruct (match_pat_complete p f [] sigma (extends_nil _) Hsat) as [b [Hm _]].
    rewrite (H c p Hc Hp) in Hm. discriminate.
Qed.
