(* Entry points used by the correspondence check: run the model and the executable Spec on a case
   and render the outputs as numbers / lists (printed by `Eval vm_compute`). *)
Require Import List NArith Bool.
Require Import KV.Repairs.Model KV.Repairs.Spec.
Import ListNotations.
Open Scope N_scope.

Definition rf (f : fact) : list N := let '(s, p, o) := f in [s; p; o].
Definition rset (l : list fact) := map rf l.
Definition rsets (l : list (list fact)) := map rset l.
Definition ropt {A B} (g : A -> B) (o : option A) : option B :=
  match o with Some x => Some (g x) | None => None end.

(* function level: violates_constraints, compute_repairs (model, in the given iteration order),
   the candidates before the final filter, and the brute-force repairs of the Spec (both shapes) *)
Definition run_repairs (cs : list constraint) (F : list fact) :=
  (violates cs F,
   ropt rsets (compute_repairs (violates cs) F),
   rsets (max_repairs_local (violates cs) F)).

Definition run_repairs_full (cs : list constraint) (F : list fact) :=
  (run_repairs cs F, rsets (max_repairs_spec (violates cs) F)).

(* queries: model answers and Spec (IAR) answers for every goal; `query_with_repairs cs F q` is by
   definition `iar_filter q` of the model's repairs and `iar_spec` is `iar_of` the Spec's repairs,
   so both are computed once per case *)
Definition run_queries (cs : list constraint) (F : list fact) (goals : list pattern) :=
  let model_reps := compute_repairs (violates cs) F in
  let spec_reps := max_repairs_local (violates cs) F in
  map (fun q => (ropt (iar_filter q) model_reps, iar_of spec_reps F q)) goals.

(* materialisation with the identity order oracle *)
Definition run_mat (fuel : N) (cs : list constraint) (rules : list rule) (F : list fact) :=
  match materialise (Nat.min (N.to_nat fuel) (mat_fuel rules F)) cs rules (fun l => l) F with
  | None => None
  | Some (ds, inf) => Some (rset ds, rset inf, violates cs ds)
  end.

(* violation test on an arbitrary set (used to validate the implementation's final store) *)
Definition run_viol (cs : list constraint) (S : list fact) := violates cs S.

Definition run_case (fuel : N) (cs : list constraint) (rules : list rule) (F : list fact) (goals : list pattern) :=
  (run_repairs cs F, run_queries cs F goals, run_mat fuel cs rules F).
