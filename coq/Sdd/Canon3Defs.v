(* The bounded canonicity sweep over three variables (definitions; evaluated in Canon3.v). *)
Require Import KV.Sdd.Model KV.Sdd.Sem KV.Sdd.Spec KV.Sdd.History.

Definition FUEL3 : nat := 60.

Section Fuel.
Variable fuel : nat.

(* all 256 functions of variables 0,1,2 (registered in the order given), each as the disjunction of
   its minterms; returns the manager and the 256 handles (index = truth table) *)
Definition run1 (m : mgr) (c : M N) : mgr * N :=
  match c (m, unlimited) with ((m', _), Ok h) => (m', h) | ((m', _), _) => (m', 0) end.

Definition minterm (m : mgr) (k : N) : mgr * N :=
  fold_left (fun st v =>
               let (m1, l) := run1 (fst st) (literal v (N.testbit k v)) in
               run1 m1 (apply_f fuel (snd st) l And)) [0; 1; 2] (m, 1).

Definition build3 (order : list N) : mgr * list N :=
  let m0 := fold_left (fun m v => ensure_variable v (1#2) m) order mgr_new in
  let (m1, mts) := fold_left (fun st k => let (m', h) := minterm (fst st) k in (m', snd st ++ [h]))
                             (map N.of_nat (seq 0 8)) (m0, []) in
  fold_left (fun st t =>
               let (m', h) := fold_left (fun st2 k =>
                                           if N.testbit t k
                                           then run1 (fst st2) (apply_f fuel (snd st2) (nth (N.to_nat k) mts 0) Or)
                                           else st2)
                                        (map N.of_nat (seq 0 8)) (fst st, 0) in
               (m', snd st ++ [h]))
            (map N.of_nat (seq 0 256)) (m1, []).

End Fuel.

Definition bop_tab (o : bop) (a b : N) : N := match o with And => N.land a b | Or => N.lor a b end.

Definition tabs256 : list N := map N.of_nat (seq 0 256).

Section Fuel2.
Variable fuel : nat.

(* one operand pair: the plain apply from the base manager returns exactly the handle of the
   function whose truth table is op(ta, tb) *)
Definition pair_ok (m : mgr) (hs : list N) (ta tb : N) (o : bop) : bool :=
  match apply_f fuel (nth (N.to_nat ta) hs 0) (nth (N.to_nat tb) hs 0) o (m, unlimited) with
  | (_, Ok r) => r =? nth (N.to_nat (bop_tab o ta tb)) hs 0
  | _ => false
  end.
Definition neg_ok (m : mgr) (hs : list N) (ta : N) : bool :=
  match negate_f fuel (nth (N.to_nat ta) hs 0) (m, unlimited) with
  | (_, Ok r) => r =? nth (N.to_nat (255 - ta)) hs 0
  | _ => false
  end.

(* the handle of table t denotes t *)
Definition table_ok (m : mgr) (hs : list N) (t : N) : bool :=
  forallb (fun k => Bool.eqb (den m (nth (N.to_nat t) hs 0) (sigma_of k)) (N.testbit t k)) (map N.of_nat (seq 0 8)).

End Fuel2.

Fixpoint nodupb (l : list N) : bool :=
  match l with [] => true | x :: t => negb (nmem x t) && nodupb t end.

(* the whole check for a given manager and handle table *)
Definition check3 (fuel : nat) (m : mgr) (hs : list N) : bool :=
  (length hs =? 256)%nat && nodupb hs &&
  forallb (table_ok m hs) tabs256 &&
  forallb (fun ta => neg_ok fuel m hs ta &&
                     forallb (fun tb => pair_ok fuel m hs ta tb And && pair_ok fuel m hs ta tb Or) tabs256) tabs256.

Definition check3_some (fuel : nat) (m : mgr) (hs : list N) (tas : list N) : bool :=
  (length hs =? 256)%nat && nodupb hs &&
  forallb (fun ta => neg_ok fuel m hs ta &&
                     forallb (fun tb => pair_ok fuel m hs ta tb And && pair_ok fuel m hs ta tb Or) tabs256) tas.

Definition m3 (order : list N) : mgr := fst (build3 FUEL3 order).
Definition h3 (order : list N) : list N := snd (build3 FUEL3 order).
Definition sweep3 (order : list N) : bool := check3 FUEL3 (m3 order) (h3 order).
Definition sweep3_some (order : list N) (tas : list N) : bool := check3_some FUEL3 (m3 order) (h3 order) tas.
