(* Executable model of shared/src/sdd.rs (SddManager) and shared/src/diff_sdd.rs (wmc_gradient).

   The manager is data: node arena (list), unique table, apply cache, negate cache (association
   lists; first match wins = HashMap overwrite), vtree arena, vtree root, var -> leaf map and the
   weight vectors.  Every operation is written in a state+error monad over (manager, budget); the
   manager survives an error (that is what "interruption-safe" is about).  The Rust file has every
   operation twice (`apply` / `try_apply`, ...): the twins are textually the same algorithm, the
   `try_*` one with `budget.checkpoint()` / `budget.before_allocation()` calls.  The model has ONE
   definition, parameterised by the budget; the unbudgeted operation is the run under the budget
   `unlimited` (no node limit, oracle never expires).  The correspondence check runs both twins of
   the implementation against it.

   Recursion: apply -> apply_inner -> normalize_to/expand -> negate -> unique_d -> compress -> apply.
   `apply_f` / `negate_f` are a mutual fixpoint on fuel; the bodies take the recursive callees as
   parameters.  Out of fuel and Rust panics (`unwrap` on None, `unreachable!`, `vtree_left` of a
   leaf) are explicit outcomes `Fuel` / `Panic`. *)
Require Export List NArith QArith Bool.
Export ListNotations.
Open Scope N_scope.

(* ---- data ------------------------------------------------------------------------------- *)
Definition elem := (N * N)%type.                       (* (prime, sub) *)
Inductive node := NFalse | NTrue | NLit (v : N) (pol : bool) | NDec (vt : N) (els : list elem).
Inductive vnode := VLeaf (v : N) | VInt (l r : N).
Inductive bop := And | Or.
Inductive ukey := KLit (v : N) (pol : bool) | KDec (vt : N) (els : list elem).
Inductive vkind := Indep | Excl (g : N).

Record mgr := Mgr {
  nodes  : list node;                     (* nodes: Vec<SddNode>; 0 = FALSE, 1 = TRUE *)
  utab   : list (ukey * N);               (* unique_table *)
  acache : list ((N * N * bop) * N);      (* apply_cache *)
  ncache : list (N * N);                  (* negate_cache *)
  vnodes : list vnode;                    (* vtree_nodes *)
  vroot  : option N;                      (* vtree_root *)
  var2vt : list (N * N);                  (* var_to_vtree *)
  posw   : list Q;
  negw   : list Q;
  kinds  : list vkind
}.

Definition mgr_new : mgr := Mgr [NFalse; NTrue] [] [] [] [] None [] [] [] [].

Definition ID_FALSE : N := 0.
Definition ID_TRUE : N := 1.

(* ---- budget and monad ------------------------------------------------------------------- *)
Inductive berr := Deadline | NodeBudget.
Inductive res (A : Type) := Ok (a : A) | Err (e : berr) | Fuel | Panic.
Arguments Ok {A} a. Arguments Err {A} e. Arguments Fuel {A}. Arguments Panic {A}.

(* lim: max_nodes (None = no limit); orc: what `deadline_available()` answers at the successive
   checkpoints (true = still available; exhausted list = available); ticks: checkpoints consumed *)
Record budget := Bud { lim : option N; orc : list bool; ticks : N }.
Definition unlimited : budget := Bud None [] 0.

Definition st := (mgr * budget)%type.
Definition M (A : Type) := st -> st * res A.

Definition ret {A} (a : A) : M A := fun s => (s, Ok a).
Definition bind {A B} (c : M A) (f : A -> M B) : M B :=
  fun s => match c s with
           | (s1, Ok a) => f a s1
           | (s1, Err e) => (s1, Err e)
           | (s1, Fuel) => (s1, Fuel)
           | (s1, Panic) => (s1, Panic)
           end.
Definition fail {A} (r : res A) : M A := fun s => (s, r).
Definition getm : M mgr := fun s => (s, Ok (fst s)).
Definition modm (f : mgr -> mgr) : M unit := fun s => ((f (fst s), snd s), Ok tt).

Notation "x <- c ;; f" := (bind c (fun x => f)) (at level 61, c at next level, right associativity).
Notation "c ;;; f" := (bind c (fun _ => f)) (at level 61, right associativity).

(* SddOperationBudget::checkpoint *)
Definition checkpoint : M unit :=
  fun s => let m := fst s in let b := snd s in
    match orc b with
    | [] => ((m, Bud (lim b) [] (ticks b + 1)), Ok tt)
    | true :: t => ((m, Bud (lim b) t (ticks b + 1)), Ok tt)
    | false :: t => ((m, Bud (lim b) t (ticks b + 1)), Err Deadline)
    end.

Definition node_count (m : mgr) : N := N.of_nat (length (nodes m)).

(* SddOperationBudget::before_allocation(self.nodes.len()) *)
Definition before_alloc : M unit :=
  checkpoint ;;;
  fun s => match lim (snd s) with
           | Some L => if L <=? node_count (fst s) then (s, Err NodeBudget) else (s, Ok tt)
           | None => (s, Ok tt)
           end.

Fixpoint mfoldl {A B} (f : A -> B -> M A) (l : list B) (a : A) : M A :=
  match l with
  | [] => ret a
  | x :: l' => a' <- f a x ;; mfoldl f l' a'
  end.

(* ---- lookups ---------------------------------------------------------------------------- *)
Definition elem_eqb (x y : elem) : bool := (fst x =? fst y) && (snd x =? snd y).
Fixpoint els_eqb (a b : list elem) : bool :=
  match a, b with
  | [], [] => true
  | x :: a', y :: b' => elem_eqb x y && els_eqb a' b'
  | _, _ => false
  end.
Definition ukey_eqb (a b : ukey) : bool :=
  match a, b with
  | KLit v p, KLit w q => (v =? w) && Bool.eqb p q
  | KDec v e, KDec w f => (v =? w) && els_eqb e f
  | _, _ => false
  end.
Definition bop_eqb (a b : bop) : bool :=
  match a, b with And, And => true | Or, Or => true | _, _ => false end.
Definition akey_eqb (x y : N * N * bop) : bool :=
  (fst (fst x) =? fst (fst y)) && (snd (fst x) =? snd (fst y)) && bop_eqb (snd x) (snd y).

Fixpoint alookup {K V} (eqb : K -> K -> bool) (k : K) (l : list (K * V)) : option V :=
  match l with
  | [] => None
  | (k', v) :: l' => if eqb k k' then Some v else alookup eqb k l'
  end.

Definition node_at (m : mgr) (id : N) : node := nth (N.to_nat id) (nodes m) NFalse.
Definition vnode_at (m : mgr) (v : N) : vnode := nth (N.to_nat v) (vnodes m) (VLeaf 0).

(* vtree_of *)
Definition vtree_of (m : mgr) (id : N) : option N :=
  match node_at m id with
  | NTrue | NFalse => None
  | NLit v _ => alookup N.eqb v (var2vt m)
  | NDec vt _ => Some vt
  end.

(* vtree_left / vtree_right (panic on a leaf -> None) *)
Definition vtree_children (m : mgr) (v : N) : option (N * N) :=
  match vnode_at m v with VInt l r => Some (l, r) | VLeaf _ => None end.

(* is_descendant_of(descendant, ancestor); children have smaller indices than their parent, so
   fuel = number of vtree nodes is enough *)
Fixpoint is_desc_f (fuel : nat) (vn : list vnode) (d a : N) : bool :=
  if d =? a then true else
  match fuel with
  | O => false
  | S f => match nth (N.to_nat a) vn (VLeaf 0) with
           | VLeaf _ => false
           | VInt l r => is_desc_f f vn d l || is_desc_f f vn d r
           end
  end.
Definition is_desc (m : mgr) (d a : N) : bool := is_desc_f (length (vnodes m)) (vnodes m) d a.

(* vtree_ancestors: the first internal node (in arena order) that has `node` as a child *)
Fixpoint find_parent (vn : list vnode) (idx node : N) : option N :=
  match vn with
  | [] => None
  | VInt l r :: t => if (l =? node) || (r =? node) then Some idx else find_parent t (idx + 1) node
  | VLeaf _ :: t => find_parent t (idx + 1) node
  end.
Fixpoint ancestors_f (fuel : nat) (vn : list vnode) (node : N) : list N :=
  node :: match fuel with
          | O => []
          | S f => match find_parent vn 0 node with
                   | Some p => ancestors_f f vn p
                   | None => []
                   end
          end.
Definition nmem (x : N) (l : list N) : bool := existsb (N.eqb x) l.
(* find_lca; `self.vtree_root.unwrap()` at the end *)
Definition find_lca (m : mgr) (a b : N) : option N :=
  let aa := ancestors_f (length (vnodes m)) (vnodes m) a in
  let bb := ancestors_f (length (vnodes m)) (vnodes m) b in
  match find (fun x => nmem x bb) aa with
  | Some x => Some x
  | None => vroot m
  end.

(* ---- allocation ------------------------------------------------------------------------- *)
(* push the node and register it in the unique table *)
Definition alloc_m (k : ukey) (n : node) (m : mgr) : mgr :=
  Mgr (nodes m ++ [n]) ((k, node_count m) :: utab m) (acache m) (ncache m)
      (vnodes m) (vroot m) (var2vt m) (posw m) (negw m) (kinds m).
Definition alloc (k : ukey) (n : node) : M N :=
  fun s => ((alloc_m k n (fst s), snd s), Ok (node_count (fst s))).

(* try_literal *)
Definition literal (v : N) (pol : bool) : M N :=
  checkpoint ;;;
  m <- getm ;;
  match alookup ukey_eqb (KLit v pol) (utab m) with
  | Some id => ret id
  | None => before_alloc ;;; alloc (KLit v pol) (NLit v pol)
  end.

(* `elements.sort()` on (u32,u32) pairs: lexicographic *)
Definition elem_leb (x y : elem) : bool :=
  (fst x <? fst y) || ((fst x =? fst y) && (snd x <=? snd y)).
Fixpoint ins_sorted (x : elem) (l : list elem) : list elem :=
  match l with
  | [] => [x]
  | y :: l' => if elem_leb x y then x :: l else y :: ins_sorted x l'
  end.
Definition sort_els (l : list elem) : list elem := fold_right ins_sorted [] l.

(* the trimming rules shared by unique_d (twice) and make_decision_raw *)
Definition trim (els : list elem) : option N :=
  match els with
  | [] => Some ID_FALSE
  | [(p, s)] => if p =? ID_TRUE then Some s else None
  | [(p1, s1); (p2, s2)] =>
      if (s1 =? ID_TRUE) && (s2 =? ID_FALSE) then Some p1
      else if (s2 =? ID_TRUE) && (s1 =? ID_FALSE) then Some p2
      else None
  | _ => None
  end.

Definition drop_false_primes (els : list elem) : list elem :=
  filter (fun e => negb (fst e =? ID_FALSE)) els.

(* sort, unique-table lookup, otherwise allocate *)
Definition find_or_alloc (vt : N) (els : list elem) : M N :=
  let els' := sort_els els in
  m <- getm ;;
  match alookup ukey_eqb (KDec vt els') (utab m) with
  | Some id => ret id
  | None => before_alloc ;;; alloc (KDec vt els') (NDec vt els')
  end.

(* try_make_decision_raw *)
Definition make_decision_raw (vt : N) (els : list elem) : M N :=
  checkpoint ;;;
  let els1 := drop_false_primes els in
  match trim els1 with
  | Some r => ret r
  | None => find_or_alloc vt els1
  end.

(* grouping of `compress`: HashMap<sub, Vec<prime>>; groups in first-occurrence order (the Rust
   iteration order over the map is arbitrary; see notes/C07.md) *)
Fixpoint group_add (sub prime : N) (g : list (N * list N)) : list (N * list N) :=
  match g with
  | [] => [(sub, [prime])]
  | (s, ps) :: t => if s =? sub then (s, ps ++ [prime]) :: t else (s, ps) :: group_add sub prime t
  end.
Definition group_by_sub (els : list elem) : list (N * list N) :=
  fold_left (fun g e => group_add (snd e) (fst e) g) els [].

Section Bodies.
  Variable rapply : N -> N -> bop -> M N.
  Variable rnegate : N -> M N.

  (* try_compress *)
  Definition compress (els : list elem) : M (list elem) :=
    checkpoint ;;;
    let g := group_by_sub els in
    if N.of_nat (length g) =? N.of_nat (length els) then ret els
    else mfoldl (fun acc grp =>
                   match snd grp with
                   | [] => fail Panic
                   | p0 :: rest =>
                       merged <- mfoldl (fun a p => rapply a p Or) rest p0 ;;
                       ret (acc ++ [(merged, fst grp)])
                   end) g [].

  (* try_unique_d *)
  Definition unique_d (vt : N) (els : list elem) : M N :=
    checkpoint ;;;
    let els1 := drop_false_primes els in
    match trim els1 with
    | Some r => ret r
    | None =>
        els2 <- compress els1 ;;
        match trim els2 with
        | Some r => ret r
        | None => find_or_alloc vt els2
        end
    end.

  (* try_expand *)
  Definition expand (id vt : N) : M (list elem) :=
    checkpoint ;;;
    if id =? ID_TRUE then ret [(ID_TRUE, ID_TRUE)]
    else if id =? ID_FALSE then ret [(ID_TRUE, ID_FALSE)]
    else
      m <- getm ;;
      let other :=
        match vtree_children m vt, vtree_of m id with
        | Some (lft, _), Some nv =>
            if (nv =? lft) || is_desc m nv lft
            then neg <- rnegate id ;; ret [(id, ID_TRUE); (neg, ID_FALSE)]
            else ret [(ID_TRUE, id)]
        | _, _ => fail Panic
        end in
      match node_at m id with
      | NDec dv els => if dv =? vt then ret els else other
      | _ => other
      end.

  (* try_normalize_to *)
  Definition normalize_to (id target : N) : M N :=
    checkpoint ;;;
    if (id =? ID_TRUE) || (id =? ID_FALSE) then ret id
    else
      m <- getm ;;
      match vtree_of m id with
      | None => ret id
      | Some v =>
          if v =? target then ret id
          else match vtree_children m target with
               | None => fail Panic
               | Some (lft, rgt) =>
                   if is_desc m v lft then
                     neg <- rnegate id ;;
                     make_decision_raw target [(id, ID_TRUE); (neg, ID_FALSE)]
                   else if is_desc m v rgt then unique_d target [(ID_TRUE, id)]
                   else ret id
               end
      end.

  (* try_apply_same_vtree: the nested loops over a's and b's elements, row-major *)
  Definition apply_same_vtree (a b : N) (op : bop) (vt : N) : M N :=
    ea <- expand a vt ;;
    eb <- expand b vt ;;
    els <- mfoldl (fun acc pr =>
                     let ea1 := fst pr in let eb1 := snd pr in
                     checkpoint ;;;
                     prime <- rapply (fst ea1) (fst eb1) And ;;
                     if prime =? ID_FALSE then ret acc
                     else sub <- rapply (snd ea1) (snd eb1) op ;;
                          ret (acc ++ [(prime, sub)]))
                  (list_prod ea eb) [] ;;
    unique_d vt els.

  (* try_apply_different_vtree = try_apply_expanded *)
  Definition apply_norm (a b : N) (op : bop) (target : N) : M N :=
    l <- normalize_to a target ;;
    r <- normalize_to b target ;;
    apply_same_vtree l r op target.

  (* try_apply_inner *)
  Definition apply_inner (a b : N) (op : bop) : M N :=
    checkpoint ;;;
    m <- getm ;;
    match vtree_of m a, vtree_of m b with
    | None, None => fail Panic
    | None, Some vt => apply_norm a b op vt
    | Some vt, None => apply_norm a b op vt
    | Some va, Some vb =>
        if va =? vb then apply_same_vtree a b op va
        else
          let target := if is_desc m va vb then Some vb
                        else if is_desc m vb va then Some va
                        else find_lca m va vb in
          match target with
          | None => fail Panic
          | Some t => apply_norm a b op t
          end
    end.

  Definition terminal (a b : N) (op : bop) : option N :=
    match op with
    | And => if (a =? ID_FALSE) || (b =? ID_FALSE) then Some ID_FALSE
             else if a =? ID_TRUE then Some b
             else if b =? ID_TRUE then Some a
             else if a =? b then Some a else None
    | Or => if (a =? ID_TRUE) || (b =? ID_TRUE) then Some ID_TRUE
            else if a =? ID_FALSE then Some b
            else if b =? ID_FALSE then Some a
            else if a =? b then Some a else None
    end.

  Definition compl_lits (na nb : node) (op : bop) : option N :=
    match na, nb with
    | NLit va pa, NLit vb pb =>
        if (va =? vb) && negb (Bool.eqb pa pb)
        then Some (match op with And => ID_FALSE | Or => ID_TRUE end)
        else None
    | _, _ => None
    end.

  Definition cache_key (a b : N) (op : bop) : N * N * bop :=
    if a <=? b then (a, b, op) else (b, a, op).

  Definition acache_ins (k : N * N * bop) (r : N) (m : mgr) : mgr :=
    Mgr (nodes m) (utab m) ((k, r) :: acache m) (ncache m)
        (vnodes m) (vroot m) (var2vt m) (posw m) (negw m) (kinds m).
  Definition ncache_ins (k r : N) (m : mgr) : mgr :=
    Mgr (nodes m) (utab m) (acache m) ((k, r) :: ncache m)
        (vnodes m) (vroot m) (var2vt m) (posw m) (negw m) (kinds m).

  (* try_apply *)
  Definition apply_body (a b : N) (op : bop) : M N :=
    checkpoint ;;;
    match terminal a b op with
    | Some r => ret r
    | None =>
        m <- getm ;;
        match compl_lits (node_at m a) (node_at m b) op with
        | Some r => ret r
        | None =>
            let key := cache_key a b op in
            match alookup akey_eqb key (acache m) with
            | Some r => ret r
            | None =>
                r <- apply_inner a b op ;;
                modm (acache_ins key r) ;;;
                ret r
            end
        end
    end.

  (* try_negate *)
  Definition negate_body (id : N) : M N :=
    checkpoint ;;;
    if id =? ID_FALSE then ret ID_TRUE
    else if id =? ID_TRUE then ret ID_FALSE
    else
      m <- getm ;;
      match alookup N.eqb id (ncache m) with
      | Some r => ret r
      | None =>
          r <- match node_at m id with
               | NLit v pol => literal v (negb pol)
               | NDec vt els =>
                   negs <- mfoldl (fun acc e => ns <- rnegate (snd e) ;; ret (acc ++ [(fst e, ns)])) els [] ;;
                   unique_d vt negs
               | _ => fail Panic
               end ;;
          modm (ncache_ins id r) ;;;
          ret r
      end.
End Bodies.

Fixpoint apply_f (fuel : nat) (a b : N) (op : bop) {struct fuel} : M N :=
  match fuel with
  | O => fail Fuel
  | S f => apply_body (apply_f f) (negate_f f) a b op
  end
with negate_f (fuel : nat) (id : N) {struct fuel} : M N :=
  match fuel with
  | O => fail Fuel
  | S f => negate_body (apply_f f) (negate_f f) id
  end.

(* try_exactly_one *)
Fixpoint exactly_one (fuel : nat) (vars : list N) : M N :=
  checkpoint ;;;
  match vars with
  | [] => ret ID_FALSE
  | v :: rest =>
      match rest with
      | [] => literal v true
      | _ :: _ =>
          first_true <- literal v true ;;
          first_false <- literal v false ;;
          all_false <- mfoldl (fun acc r => lf <- literal r false ;; apply_f fuel acc lf And) rest ID_TRUE ;;
          lbranch <- apply_f fuel first_true all_false And ;;
          recursive <- exactly_one fuel rest ;;
          rbranch <- apply_f fuel first_false recursive And ;;
          apply_f fuel lbranch rbranch Or
      end
  end.

(* ---- vtree growth: ensure_variable_weights ------------------------------------------------ *)
Definition qclamp (q : Q) : Q := if Qle_bool q 0 then 0%Q else if Qle_bool 1 q then 1%Q else q.

Fixpoint resize {A} (l : list A) (n : nat) (d : A) : list A :=   (* Vec::resize that only grows *)
  match n with
  | O => l
  | S n' => match l with [] => d :: resize [] n' d | x :: t => x :: resize t n' d end
  end.
Fixpoint set_nth {A} (l : list A) (n : nat) (x : A) : list A :=
  match l, n with
  | [], _ => []
  | _ :: t, O => x :: t
  | y :: t, S n' => y :: set_nth t n' x
  end.

Definition ensure_variable_weights (var : N) (pos neg : Q) (kind : vkind) (m : mgr) : mgr :=
  let id := N.to_nat var in
  let grow := Nat.leb (length (posw m)) id in
  let pw := if grow then resize (posw m) (S id) 0%Q else posw m in
  let nw := if grow then resize (negw m) (S id) 1%Q else negw m in
  let kd := if grow then resize (kinds m) (S id) Indep else kinds m in
  let pw := set_nth pw id (qclamp pos) in
  let nw := set_nth nw id (qclamp neg) in
  let kd := set_nth kd id kind in
  match alookup N.eqb var (var2vt m) with
  | Some _ => Mgr (nodes m) (utab m) (acache m) (ncache m) (vnodes m) (vroot m) (var2vt m) pw nw kd
  | None =>
      let leaf := N.of_nat (length (vnodes m)) in
      match vroot m with
      | None =>
          Mgr (nodes m) (utab m) (acache m) (ncache m) (vnodes m ++ [VLeaf var]) (Some leaf)
              ((var, leaf) :: var2vt m) pw nw kd
      | Some old =>
          Mgr (nodes m) (utab m) (acache m) (ncache m)
              (vnodes m ++ [VLeaf var; VInt leaf old]) (Some (leaf + 1))
              ((var, leaf) :: var2vt m) pw nw kd
      end
  end.

(* ensure_variable(var, prob) *)
Definition ensure_variable (var : N) (p : Q) (m : mgr) : mgr :=
  let p' := qclamp p in ensure_variable_weights var p' (1 - p')%Q Indep m.

(* ---- weighted model count ---------------------------------------------------------------- *)
(* wmc_inner is a memoised recursion over the arena; elements refer to earlier nodes, so the memo
   table is the bottom-up table below (entry i = wmc of node i). *)
Definition pos_of (m : mgr) (v : N) : Q := nth (N.to_nat v) (posw m) 1%Q.   (* unwrap_or(&1.0) *)
Definition neg_of (m : mgr) (v : N) : Q := nth (N.to_nat v) (negw m) 0%Q.   (* unwrap_or(&0.0) *)

Definition wmc_node (m : mgr) (tab : list Q) (n : node) : Q :=
  match n with
  | NFalse => 0%Q
  | NTrue => 1%Q
  | NLit v pol => if pol then pos_of m v else neg_of m v
  | NDec _ els =>
      fold_left (fun acc e => (acc + nth (N.to_nat (fst e)) tab 0%Q * nth (N.to_nat (snd e)) tab 0%Q)%Q) els 0%Q
  end.
Definition wmc_table (m : mgr) : list Q :=
  fold_left (fun tab n => tab ++ [wmc_node m tab n]) (nodes m) [].
Definition wmc (m : mgr) (id : N) : Q := nth (N.to_nat id) (wmc_table m) 0%Q.

(* ---- enumerate_models -------------------------------------------------------------------- *)
Definition lit := (N * bool)%type.
Definition lit_leb (x y : lit) : bool :=
  (fst x <? fst y) || ((fst x =? fst y) && (implb (snd x) (snd y))).
Definition lit_eqb (x y : lit) : bool := (fst x =? fst y) && Bool.eqb (snd x) (snd y).
Fixpoint set_ins (x : lit) (l : list lit) : list lit :=      (* BTreeSet insert *)
  match l with
  | [] => [x]
  | y :: t => if lit_eqb x y then l else if lit_leb x y then x :: l else y :: set_ins x t
  end.
Definition set_union (a b : list lit) : list lit := fold_left (fun acc x => set_ins x acc) b a.

Definition models_node (tab : list (list (list lit))) (id : N) (n : node) : list (list lit) :=
  match n with
  | NFalse => []
  | NTrue => [[]]
  | NLit v pol => [[(v, pol)]]
  | NDec _ els =>
      flat_map (fun e =>
                  if snd e =? ID_FALSE then []
                  else flat_map (fun pm => map (fun sm => set_union pm sm) (nth (N.to_nat (snd e)) tab []))
                                (nth (N.to_nat (fst e)) tab [])) els
  end.
Definition models_table (m : mgr) : list (list (list lit)) :=
  fold_left (fun tab n => tab ++ [models_node tab (N.of_nat (length tab)) n]) (nodes m) [].
Definition enumerate_models (m : mgr) (id : N) : list (list lit) := nth (N.to_nat id) (models_table m) [].

(* ---- diff_sdd::wmc_gradient -------------------------------------------------------------- *)
Definition set_weights (v : N) (p n : Q) (m : mgr) : mgr :=
  Mgr (nodes m) (utab m) (acache m) (ncache m) (vnodes m) (vroot m) (var2vt m)
      (set_nth (posw m) (N.to_nat v) p) (set_nth (negw m) (N.to_nat v) n) (kinds m).
Definition kind_of (m : mgr) (v : N) : vkind := nth (N.to_nat v) (kinds m) Indep.
Definition grad_var (m : mgr) (id v : N) : Q :=
  let a := wmc (set_weights v 1 0 m) id in
  match kind_of m v with
  | Indep => (a - wmc (set_weights v 0 1 m) id)%Q
  | Excl _ => a
  end.
(* one entry per registered variable (the Rust map omits entries with |g| <= 1e-15) *)
Definition wmc_gradient (m : mgr) (id : N) : list (N * Q) :=
  map (fun vl => (fst vl, grad_var m id (fst vl))) (var2vt m).
