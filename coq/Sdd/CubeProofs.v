(* wmc for arbitrary weights through the cubes (paths) of a diagram:
     wmc m id == sum over the cubes c of id of the product W c of the literal weights of c      (any arena)
     [den m id sigma] == sum over the cubes of [sigma satisfies c]                                (determinism)
     E vs [sigma satisfies c] == W c * prod over the variables u of vs not in c of (pos u + neg u)  (c consistent)
   hence wmc == truth-table weighted sum as soon as every variable that is not normalised occurs in every
   cube - which is what happens for exclusive-group variables (neg = 1) on functions that entail the group's
   exactly-one constraint. *)
Require Import KV.Sdd.Model KV.Sdd.Sem KV.Sdd.Spec KV.Sdd.Decomp KV.Sdd.History.
Require Import KV.Sdd.SemProofs KV.Sdd.Hoare KV.Sdd.MainProofs KV.Sdd.WmcProofs KV.Sdd.Vtree KV.Sdd.DecompProofs.
Require Import Lia QArith Setoid.

Definition cube := list (N * bool).
Definition sat (s : asg) (c : cube) : bool := forallb (fun l => Bool.eqb (s (fst l)) (snd l)) c.
Definition cvars (c : cube) : list N := map fst c.

Definition cubes_node (tab : list (list cube)) (n : node) : list cube :=
  match n with
  | NFalse => []
  | NTrue => [[]]
  | NLit v p => [[(v, p)]]
  | NDec _ els =>
      flat_map (fun e => flat_map (fun pc => map (fun sc => pc ++ sc) (nth (N.to_nat (snd e)) tab []))
                                  (nth (N.to_nat (fst e)) tab [])) els
  end.
Definition ctab (l : list node) : list (list cube) := gtab node (list cube) cubes_node l.
Definition cubes (m : mgr) (id : N) : list cube := nth (N.to_nat id) (ctab (nodes m)) [].

Definition qsum (l : list Q) : Q := fold_right Qplus 0 l.

(* ---- unfolding the bottom-up tables at a node whose elements refer to earlier nodes -------------------- *)
Lemma gtab_prefix : forall {X T} (F : list T -> X -> T) (d : T) (l : list X) k p,
  (p < k)%nat -> nth p (gtab X T F (firstn k l)) d = nth p (gtab X T F l) d.
Proof. intros. rewrite gtab_firstn. now apply nth_firstn_lt. Qed.

Lemma refs_lt : forall m id vt els, MInv m -> validh m id -> node_at m id = NDec vt els ->
  Forall (fun e => (N.to_nat (fst e) < N.to_nat id)%nat /\ (N.to_nat (snd e) < N.to_nat id)%nat) els.
Proof.
  intros m id vt els Hi Hv Hn. pose proof (inv_arena _ _ (Hi (fun _ => false))) as [_ Hk].
  specialize (Hk _ Hv). unfold node_at in Hn. rewrite Hn in Hk. destruct Hk as [bs [Hh _]].
  unfold validh in Hv. clear Hn. induction Hh as [|e b els bs [[H1 _] [H2 _]] Hh IH]; constructor; auto.
  unfold validL in *. rewrite firstn_length_le in H1, H2 by lia. split; assumption.
Qed.

Lemma cubes_unfold : forall m id, MInv m -> validh m id ->
  cubes m id =
  match node_at m id with
  | NFalse => []
  | NTrue => [[]]
  | NLit v p => [[(v, p)]]
  | NDec _ els => flat_map (fun e => flat_map (fun pc => map (fun sc => pc ++ sc) (cubes m (snd e))) (cubes m (fst e))) els
  end.
Proof.
  intros m id Hi Hv. unfold cubes at 1. unfold ctab.
  rewrite (gtab_nth node (list cube) cubes_node [] (nodes m) (N.to_nat id) NFalse Hv).
  fold (node_at m id). destruct (node_at m id) as [| |v p|vt els] eqn:En; try reflexivity.
  pose proof (refs_lt m id vt els Hi Hv En) as Hr. cbn [cubes_node].
  clear En. induction Hr as [|e els [A B] Hr IH]; [reflexivity|]. cbn [flat_map]. rewrite IH.
  unfold cubes, ctab. rewrite !(gtab_prefix cubes_node []) by assumption. reflexivity.
Qed.

Lemma wmc_unfold : forall m id, MInv m -> validh m id ->
  wmc m id =
  match node_at m id with
  | NFalse => 0
  | NTrue => 1
  | NLit v p => if p then pos_of m v else neg_of m v
  | NDec _ els => fold_left (fun acc e => acc + wmc m (fst e) * wmc m (snd e)) els 0
  end.
Proof.
  intros m id Hi Hv. unfold wmc at 1. unfold wmc_table.
  change (fold_left (fun tab n => tab ++ [wmc_node m tab n]) (nodes m) []) with (gtab node Q (wmc_node m) (nodes m)).
  rewrite (gtab_nth node Q (wmc_node m) 0 (nodes m) (N.to_nat id) NFalse Hv).
  fold (node_at m id). destruct (node_at m id) as [| |v p|vt els] eqn:En; try reflexivity.
  pose proof (refs_lt m id vt els Hi Hv En) as Hr. cbn [wmc_node].
  set (T := gtab node Q (wmc_node m) (firstn (N.to_nat id) (nodes m))).
  assert (G : forall acc : Q,
            fold_left (fun a e => a + nth (N.to_nat (fst e)) T 0 * nth (N.to_nat (snd e)) T 0) els acc =
            fold_left (fun a e => a + wmc m (fst e) * wmc m (snd e)) els acc).
  { clear En. induction Hr as [|e els [A B] Hr IH]; intros acc; [reflexivity|]. cbn [fold_left]. rewrite IH.
    unfold wmc, wmc_table, T.
    change (fold_left (fun tab n => tab ++ [wmc_node m tab n]) (nodes m) []) with (gtab node Q (wmc_node m) (nodes m)).
    rewrite !(gtab_prefix (wmc_node m) 0) by assumption. reflexivity. }
  apply G.
Qed.

Lemma den_unfold : forall m id sigma, MInv m -> validh m id ->
  den m id sigma =
  match node_at m id with
  | NFalse => false
  | NTrue => true
  | NLit v p => Bool.eqb (sigma v) p
  | NDec _ els => existsb (fun e => den m (fst e) sigma && den m (snd e) sigma) els
  end.
Proof.
  intros m id sigma Hi Hv. unfold den at 1. rewrite eval_arena_nth by exact Hv.
  fold (node_at m id). destruct (node_at m id) as [| |v p|vt els] eqn:En; try reflexivity.
  pose proof (refs_lt m id vt els Hi Hv En) as Hr. cbn [eval_node]. unfold eval_els.
  clear En. induction Hr as [|e els [A B] Hr IH]; [reflexivity|]. cbn [existsb]. rewrite IH.
  unfold den. unfold validh in Hv.
  assert (G : forall p, (N.to_nat p < N.to_nat id)%nat ->
            nth (N.to_nat p) (eval_arena sigma (firstn (N.to_nat id) (nodes m))) false =
            nth (N.to_nat p) (eval_arena sigma (nodes m)) false).
  { intros p Hp. rewrite <- (firstn_skipn (N.to_nat id) (nodes m)) at 2.
    symmetry. apply eval_arena_nth_app. rewrite firstn_length_le; lia. }
  rewrite !G by assumption. reflexivity.
Qed.

(* strong induction on handles *)
Lemma handle_ind : forall (m : mgr) (P : N -> Prop),
  (forall id, validh m id -> (forall p, (N.to_nat p < N.to_nat id)%nat -> P p) -> P id) ->
  forall id, validh m id -> P id.
Proof.
  intros m P H id. remember (N.to_nat id) as k eqn:Ek. revert id Ek.
  induction k as [k IH] using lt_wf_ind. intros id Ek Hv. apply H; [exact Hv|].
  intros p Hp. apply (IH (N.to_nat p)); [lia | reflexivity | unfold validh in *; lia].
Qed.

(* ---- sums ------------------------------------------------------------------------------------------------ *)
Lemma qsum_app : forall a b, qsum (a ++ b) == qsum a + qsum b.
Proof. unfold qsum. induction a as [|x a IH]; intros b; cbn [app fold_right]; [ring|]. rewrite IH. ring. Qed.

Lemma qsum_flat_map : forall {X} (f : X -> list Q) l, qsum (flat_map f l) == qsum (map (fun x => qsum (f x)) l).
Proof. intros X f l. induction l as [|x l IH]; cbn [flat_map map]; [reflexivity|]. rewrite qsum_app, IH. reflexivity. Qed.

Lemma map_flat_map_comm : forall {X Y Z} (f : Y -> Z) (g : X -> list Y) l,
  map f (flat_map g l) = flat_map (fun x => map f (g x)) l.
Proof. intros. induction l as [|x l IH]; cbn; [reflexivity|]. now rewrite map_app, IH. Qed.

Lemma qsum_map_ext : forall {X} (f g : X -> Q) l, (forall x, In x l -> f x == g x) -> qsum (map f l) == qsum (map g l).
Proof.
  intros X f g l H. unfold qsum. induction l as [|x l IH]; cbn [map fold_right]; [reflexivity|].
  rewrite (H x (or_introl eq_refl)), IH; [reflexivity|]. intros y Hy. apply H. now right.
Qed.

Lemma qsum_scale : forall {X} (f : X -> Q) c l, qsum (map (fun x => c * f x) l) == c * qsum (map f l).
Proof. intros X f c l. unfold qsum. induction l as [|x l IH]; cbn [map fold_right]; [ring|]. rewrite IH. ring. Qed.

(* products of two families: sum over all concatenations *)
Lemma qsum_prod : forall (h : cube -> Q) (P S : list cube),
  (forall a b, h (a ++ b) == h a * h b) ->
  qsum (map h (flat_map (fun pc => map (fun sc => pc ++ sc) S) P)) == qsum (map h P) * qsum (map h S).
Proof.
  intros h P S Hh. induction P as [|pc P IH]; cbn [flat_map map].
  - unfold qsum at 1 2. cbn [fold_right]. ring.
  - rewrite map_app, qsum_app, IH. rewrite map_map.
    rewrite (qsum_map_ext (fun x => h (pc ++ x)) (fun x => h pc * h x)) by (intros; apply Hh).
    rewrite qsum_scale. change (qsum (h pc :: map h P)) with (h pc + qsum (map h P)). unfold cube in *. ring.
Qed.

Lemma fold_left_qsum : forall {X} (f : X -> Q) l acc, fold_left (fun a x => a + f x) l acc == acc + qsum (map f l).
Proof. intros X f l. unfold qsum. induction l as [|x l IH]; intros acc; cbn [map fold_right fold_left]; [ring|]. rewrite IH. ring. Qed.

(* ---- (A) wmc is the sum of the cube weights ---------------------------------------------------------------- *)
Section Weights.
  Variable m : mgr.
  Hypothesis Hi : MInv m.

  Definition wl (l : N * bool) : Q := if snd l then pos_of m (fst l) else neg_of m (fst l).
  Definition Wc (c : cube) : Q := fold_right (fun l a => wl l * a) 1 c.

  Lemma Wc_app : forall a b, Wc (a ++ b) == Wc a * Wc b.
  Proof. unfold Wc. induction a as [|l a IH]; intros b; cbn [app fold_right]; [ring|]. rewrite IH. ring. Qed.

  Lemma wmc_cubes : forall id, validh m id -> wmc m id == qsum (map Wc (cubes m id)).
  Proof.
    apply (handle_ind m (fun id => wmc m id == qsum (map Wc (cubes m id)))).
    intros id Hv IH. rewrite (wmc_unfold m id Hi Hv), (cubes_unfold m id Hi Hv).
    destruct (node_at m id) as [| |v p|vt els] eqn:En.
    - reflexivity.
    - cbn. ring.
    - cbn. unfold wl. cbn. ring.
    - pose proof (refs_lt m id vt els Hi Hv En) as Hr.
      rewrite fold_left_qsum. rewrite map_flat_map_comm. rewrite qsum_flat_map. rewrite Qplus_0_l.
      apply qsum_map_ext. intros e He. rewrite Forall_forall in Hr. destruct (Hr e He) as [A B].
      rewrite (IH _ A), (IH _ B). symmetry. apply qsum_prod. apply Wc_app.
  Qed.
End Weights.

(* ---- (B) the value of a node is the number of satisfied cubes (0 or 1: determinism) -------------------------- *)
Lemma sat_app : forall s a b, sat s (a ++ b) = sat s a && sat s b.
Proof. intros. unfold sat. apply forallb_app. Qed.

Lemma b2q_and : forall x y, b2q (x && y) == b2q x * b2q y.
Proof. intros [] []; cbn; ring. Qed.

Lemma els_has_vals : forall sigma m els bs, els_has sigma m els bs ->
  bs = map (fun e => (den m (fst e) sigma, den m (snd e) sigma)) els.
Proof.
  intros sigma m els bs H. induction H as [|e [x y] els bs [[_ H1] [_ H2]] H IH]; [reflexivity|].
  cbn [map]. rewrite <- IH. cbn [fst snd] in *. unfold val in H1, H2. unfold den. now rewrite H1, H2.
Qed.

Section Cubes.
  Variable m : mgr.
  Hypothesis Hi : MInv m.

  Lemma sat_cubes : forall sigma id, validh m id ->
    b2q (den m id sigma) == qsum (map (fun c => b2q (sat sigma c)) (cubes m id)).
  Proof.
    intros sigma. apply (handle_ind m (fun id => b2q (den m id sigma) == qsum (map (fun c => b2q (sat sigma c)) (cubes m id)))).
    intros id Hv IH. rewrite (cubes_unfold m id Hi Hv).
    destruct (node_at m id) as [| |v p|vt els] eqn:En.
    - rewrite (den_unfold m id sigma Hi Hv), En. reflexivity.
    - rewrite (den_unfold m id sigma Hi Hv), En. unfold qsum. cbn. ring.
    - rewrite (den_unfold m id sigma Hi Hv), En. unfold qsum, sat. cbn. rewrite andb_true_r. ring.
    - pose proof (refs_lt m id vt els Hi Hv En) as Hr.
      destruct (has_dec sigma m id vt els (Hi sigma) Hv En) as [bs (A & B & C)].
      assert (Hd : den m id sigma = evalE bs) by (destruct C as [_ C]; exact C).
      rewrite Hd, (b2q_exists bs) by (unfold part in B; lia).
      rewrite (els_has_vals _ _ _ _ A). rewrite fold_left_qsum, Qplus_0_l, map_map. cbn [fst snd].
      rewrite map_flat_map_comm, qsum_flat_map.
      apply qsum_map_ext. intros e He. rewrite Forall_forall in Hr. destruct (Hr e He) as [P S].
      rewrite (IH _ P), (IH _ S). symmetry.
      apply (qsum_prod (fun c => b2q (sat sigma c))). intros a b. rewrite sat_app. apply b2q_and.
  Qed.

  (* (E) every cube is an implicant *)
  Lemma cube_sound : forall sigma id, validh m id -> forall c, In c (cubes m id) -> sat sigma c = true -> den m id sigma = true.
  Proof.
    intros sigma. apply (handle_ind m (fun id => forall c, In c (cubes m id) -> sat sigma c = true -> den m id sigma = true)).
    intros id Hv IH c Hc Hs. rewrite (cubes_unfold m id Hi Hv) in Hc. rewrite (den_unfold m id sigma Hi Hv).
    destruct (node_at m id) as [| |v p|vt els] eqn:En.
    - destruct Hc.
    - reflexivity.
    - destruct Hc as [<-|[]]. unfold sat in Hs. cbn in Hs. now rewrite andb_true_r in Hs.
    - pose proof (refs_lt m id vt els Hi Hv En) as Hr. rewrite Forall_forall in Hr.
      apply in_flat_map in Hc as [e [He Hc]]. apply in_flat_map in Hc as [pc [Hpc Hc]].
      apply in_map_iff in Hc as [sc [<- Hsc]]. rewrite sat_app in Hs. apply andb_prop in Hs as [S1 S2].
      destruct (Hr e He) as [P S]. apply existsb_exists. exists e. split; [exact He|].
      rewrite (IH _ P pc Hpc S1), (IH _ S sc Hsc S2). reflexivity.
  Qed.
End Cubes.

(* ---- (C) decomposability: the variables of a cube are pairwise distinct ---------------------------------------- *)
Lemma decomp_all : forall l, snd (decomp_tab l) = true ->
  forall k, (k < length l)%nat -> decomp_node (vars_tab (firstn k l)) (nth k l NFalse) = true.
Proof.
  induction l as [|n l IH] using rev_ind; intros H k Hk; [cbn in Hk; lia|].
  rewrite decomp_tab_snoc in H. apply andb_prop in H as [H1 H2]. rewrite app_length in Hk. cbn in Hk.
  destruct (Nat.eq_dec k (length l)) as [->|Hne].
  - rewrite firstn_app, firstn_all, Nat.sub_diag, app_nil_r. cbn [firstn]. rewrite app_nth2, Nat.sub_diag by lia. exact H2.
  - rewrite firstn_app. replace (k - length l)%nat with 0%nat by lia. cbn [firstn]. rewrite app_nil_r, app_nth1 by lia.
    apply IH; [exact H1 | lia].
Qed.

Lemma disjointb_spec : forall a b, disjointb a b = true -> forall x, In x a -> ~ In x b.
Proof.
  intros a b H x Ha Hb. unfold disjointb in H. rewrite forallb_forall in H. specialize (H x Ha).
  apply negb_true_iff in H. unfold nmem in H.
  assert (existsb (N.eqb x) b = true) by (apply existsb_exists; exists x; split; [assumption | apply N.eqb_refl]).
  congruence.
Qed.

Lemma NoDup_app_intro : forall {A} (a b : list A), NoDup a -> NoDup b -> (forall x, In x a -> ~ In x b) -> NoDup (a ++ b).
Proof.
  intros A a b Ha Hb H. induction Ha as [|x a Hx Ha IH]; [exact Hb|]. cbn. constructor.
  - intros Hin. apply in_app_or in Hin as [Hin|Hin]; [contradiction | exact (H x (or_introl eq_refl) Hin)].
  - apply IH. intros y Hy. apply H. now right.
Qed.

Lemma cube_vars : forall m, MInv m -> decomp_ok m = true ->
  forall id, validh m id -> forall c, In c (cubes m id) -> NoDup (cvars c) /\ incl (cvars c) (vars m id).
Proof.
  intros m Hi Hd.
  apply (handle_ind m (fun id => forall c, In c (cubes m id) -> NoDup (cvars c) /\ incl (cvars c) (vars m id))).
  intros id Hv IH c Hc. rewrite (cubes_unfold m id Hi Hv) in Hc. rewrite (vars_node_at m id Hv).
  pose proof (decomp_all _ Hd _ Hv) as Hdn. fold (node_at m id) in Hdn.
  destruct (node_at m id) as [| |v p|vt els] eqn:En.
  - destruct Hc.
  - destruct Hc as [<-|[]]. split; [constructor | intros x []].
  - destruct Hc as [<-|[]]. cbn. split; [constructor; [intros [] | constructor] | apply incl_refl].
  - pose proof (refs_lt m id vt els Hi Hv En) as Hr. rewrite Forall_forall in Hr.
    apply in_flat_map in Hc as [e [He Hc]]. apply in_flat_map in Hc as [pc [Hpc Hc]].
    apply in_map_iff in Hc as [sc [<- Hsc]]. destruct (Hr e He) as [P S].
    destruct (IH _ P pc Hpc) as [N1 I1]. destruct (IH _ S sc Hsc) as [N2 I2].
    cbn [decomp_node] in Hdn. rewrite forallb_forall in Hdn. specialize (Hdn e He).
    unfold validh in Hv. rewrite !(vars_prefix m) in Hdn by lia.
    unfold cvars in *. rewrite map_app. split.
    + apply NoDup_app_intro; [exact N1 | exact N2 |].
      intros x Hx1 Hx2. exact (disjointb_spec _ _ Hdn x (I1 x Hx1) (I2 x Hx2)).
    + cbn [vars_node]. intros x Hx. apply in_flat_map. exists e. split; [exact He|].
      rewrite !(vars_prefix m) by lia. apply in_or_app. apply in_app_or in Hx as [Hx|Hx]; [left; now apply I1 | right; now apply I2].
Qed.

(* ---- (D) the expectation of "sigma satisfies c" ------------------------------------------------------------------ *)
Section CubeE.
  Variables pos neg : N -> Q.
  Notation E := (wsum pos neg).

  Definition wlp (l : N * bool) : Q := if snd l then pos (fst l) else neg (fst l).
  Definition Wcp (c : cube) : Q := fold_right (fun l a => wlp l * a) 1 c.
  Definition zrest (vs : list N) (c : cube) : Q :=
    fold_right (fun x a => (if nmem x (cvars c) then 1 else pos x + neg x) * a) 1 vs.
  Definition remove_var (u : N) (c : cube) : cube := filter (fun l => negb (fst l =? u)) c.

  Lemma E_scale : forall vs f c s, E vs (fun t => c * f t) s == c * E vs f s.
  Proof. induction vs as [|v vs IH]; intros f c s; cbn [wsum]; [reflexivity|]. rewrite !IH. ring. Qed.

  Lemma E_fixvar : forall vs u (g : bool -> asg -> Q) s, ~ In u vs ->
    E vs (fun t => g (t u) t) s = E vs (fun t => g (s u) t) s.
  Proof.
    induction vs as [|v vs IH]; intros u g s Hu; cbn [wsum]; [reflexivity|].
    assert (Hne : (u =? v) = false) by (apply N.eqb_neq; intros ->; apply Hu; now left).
    assert (Hu' : ~ In u vs) by (intros H; apply Hu; now right).
    rewrite (IH u g _ Hu'), (IH u g (fun x => if x =? v then false else s x) Hu'). cbn beta. now rewrite Hne.
  Qed.

  Lemma remove_notin : forall u c, ~ In u (cvars c) -> remove_var u c = c.
  Proof.
    intros u c. induction c as [|l c IH]; intros H; [reflexivity|]. cbn [remove_var filter].
    destruct (fst l =? u) eqn:E0; [apply N.eqb_eq in E0; exfalso; apply H; left; exact E0|].
    cbn [negb]. f_equal. apply IH. intros Hc. apply H. now right.
  Qed.

  Lemma cvars_remove : forall u c x, In x (cvars (remove_var u c)) <-> In x (cvars c) /\ x <> u.
  Proof.
    intros u c x. unfold cvars, remove_var. rewrite !in_map_iff. split.
    - intros [l [<- Hl]]. apply filter_In in Hl as [Hl Hne]. apply negb_true_iff, N.eqb_neq in Hne. split; [exists l; auto | exact Hne].
    - intros [[l [<- Hl]] Hne]. exists l. split; [reflexivity|]. apply filter_In. split; [exact Hl|].
      apply negb_true_iff, N.eqb_neq. exact Hne.
  Qed.

  Lemma NoDup_remove : forall u c, NoDup (cvars c) -> NoDup (cvars (remove_var u c)).
  Proof.
    intros u c. induction c as [|l c IH]; intros H; [constructor|]. cbn in H. inversion H as [|? ? Hn Hc]; subst.
    cbn [remove_var filter]. destruct (negb (fst l =? u)); [|apply IH; exact Hc].
    cbn. constructor; [|apply IH; exact Hc]. intros Hin. apply cvars_remove in Hin as [Hin _]. contradiction.
  Qed.

  Lemma cube_split : forall u b c, NoDup (cvars c) -> In (u, b) c ->
    (forall s, sat s c = Bool.eqb (s u) b && sat s (remove_var u c)) /\ Wcp c == wlp (u, b) * Wcp (remove_var u c).
  Proof.
    intros u b c. induction c as [|l c IH]; intros Hn Hin; [destruct Hin|].
    cbn in Hn. inversion Hn as [|? ? Hnl Hnc]; subst.
    destruct Hin as [->|Hin].
    - cbn [remove_var filter fst]. rewrite N.eqb_refl. cbn [negb]. fold (remove_var u c).
      rewrite (remove_notin u c Hnl). split; [intros s; reflexivity | reflexivity].
    - assert (Hne : (fst l =? u) = false).
      { apply N.eqb_neq. intros Heq. apply Hnl. rewrite Heq. unfold cvars. apply in_map_iff. exists (u, b). auto. }
      destruct (IH Hnc Hin) as [I1 I2]. cbn [remove_var filter]. rewrite Hne. cbn [negb]. fold (remove_var u c). split.
      + intros s. unfold sat in *. cbn [forallb]. rewrite I1. destruct (Bool.eqb (s (fst l)) (snd l)), (Bool.eqb (s u) b); reflexivity.
      + unfold Wcp in *. cbn [fold_right]. rewrite I2. ring.
  Qed.

  Lemma zrest_remove : forall vs u c, ~ In u vs -> zrest vs (remove_var u c) == zrest vs c.
  Proof.
    induction vs as [|x vs IH]; intros u c Hu; [reflexivity|]. unfold zrest in *. cbn [fold_right].
    rewrite (IH u c) by (intros H; apply Hu; now right).
    assert (Hx : nmem x (cvars (remove_var u c)) = nmem x (cvars c)).
    { assert (Hne : x <> u) by (intros ->; apply Hu; now left).
      unfold nmem. destruct (existsb (N.eqb x) (cvars c)) eqn:E1.
      - apply existsb_exists in E1 as [y [Hy Exy]]. apply N.eqb_eq in Exy. subst y.
        apply existsb_exists. exists x. split; [apply cvars_remove; auto | apply N.eqb_refl].
      - destruct (existsb (N.eqb x) (cvars (remove_var u c))) eqn:E2; [|reflexivity].
        apply existsb_exists in E2 as [y [Hy Exy]]. apply N.eqb_eq in Exy. subst y. apply cvars_remove in Hy as [Hy _].
        assert (existsb (N.eqb x) (cvars c) = true) by (apply existsb_exists; exists x; split; [exact Hy | apply N.eqb_refl]).
        congruence. }
    now rewrite Hx.
  Qed.

  Lemma cube_E : forall vs, NoDup vs -> forall c s0, NoDup (cvars c) -> incl (cvars c) vs ->
    E vs (fun s => b2q (sat s c)) s0 == Wcp c * zrest vs c.
  Proof.
    induction vs as [|u vs IH]; intros Hvs c s0 Hc Hincl.
    - destruct c as [|l c]; [cbn; ring|]. exfalso. apply (Hincl (fst l)). now left.
    - inversion Hvs as [|? ? Hu Hvs']; subst. cbn [wsum]. unfold zrest. cbn [fold_right]. fold (zrest vs c).
      destruct (nmem u (cvars c)) eqn:Em.
      + unfold nmem in Em. apply existsb_exists in Em as [y [Hy Euy]]. apply N.eqb_eq in Euy. subst y.
        unfold cvars in Hy. apply in_map_iff in Hy as [[u' b] [Eu Hin]]. cbn in Eu. subst u'.
        destruct (cube_split u b c Hc Hin) as [S1 S2].
        set (c' := remove_var u c) in *.
        assert (Hc' : NoDup (cvars c')) by now apply NoDup_remove.
        assert (Hi' : incl (cvars c') vs).
        { intros x Hx. apply cvars_remove in Hx as [Hx Hne]. destruct (Hincl x Hx) as [->|H]; [contradiction | exact H]. }
        assert (G : forall s1, E vs (fun s => b2q (sat s c)) s1 == b2q (Bool.eqb (s1 u) b) * (Wcp c' * zrest vs c')).
        { intros s1.
          rewrite (E_ext pos neg vs _ (fun s => b2q (Bool.eqb (s u) b) * b2q (sat s c'))) by (intros s; rewrite S1; apply b2q_and).
          rewrite (E_fixvar vs u (fun x t => b2q (Bool.eqb x b) * b2q (sat t c')) s1 Hu). cbn beta.
          rewrite E_scale. now rewrite (IH Hvs' c' s1 Hc' Hi'). }
        rewrite !G. rewrite N.eqb_refl. rewrite S2. rewrite <- (zrest_remove vs u c Hu). fold c'. unfold wlp. cbn [fst snd].
        destruct b; cbn; ring.
      + assert (Hnu : ~ In u (cvars c)).
        { intros H. unfold nmem in Em. assert (existsb (N.eqb u) (cvars c) = true) by (apply existsb_exists; exists u; split; [exact H | apply N.eqb_refl]). congruence. }
        assert (Hi' : incl (cvars c) vs).
        { intros x Hx. destruct (Hincl x Hx) as [<-|H]; [contradiction | exact H]. }
        rewrite !(IH Hvs' c _ Hc Hi'). ring.
  Qed.
End CubeE.

(* ---- (G) assembly --------------------------------------------------------------------------------------------------- *)
Lemma E_zero : forall pos neg vs s, wsum pos neg vs (fun _ => 0) s == 0.
Proof. intros pos neg vs. induction vs as [|v vs IH]; intros s; cbn [wsum]; [reflexivity|]. rewrite !IH. ring. Qed.

Lemma E_qsum : forall pos neg vs {X} (g : X -> asg -> Q) (L : list X) s,
  wsum pos neg vs (fun t => qsum (map (fun c => g c t) L)) s == qsum (map (fun c => wsum pos neg vs (g c) s) L).
Proof.
  intros pos neg vs X g L s. induction L as [|c L IH]; cbn [map].
  - unfold qsum. cbn [fold_right]. apply E_zero.
  - change (fun t => qsum (g c t :: map (fun c0 => g c0 t) L)) with (fun t => g c t + qsum (map (fun c0 => g c0 t) L)).
    rewrite E_plus, IH. reflexivity.
Qed.

Lemma zrest_one : forall pos neg vs c,
  (forall u, In u vs -> ~ In u (cvars c) -> pos u + neg u == 1) -> zrest pos neg vs c == 1.
Proof.
  intros pos neg vs c. induction vs as [|x vs IH]; intros H; [reflexivity|]. unfold zrest in *. cbn [fold_right].
  rewrite IH by (intros u Hu; apply H; now right).
  destruct (nmem x (cvars c)) eqn:E0; [ring|]. rewrite (H x (or_introl eq_refl)); [ring|].
  intros Hin. unfold nmem in E0.
  assert (existsb (N.eqb x) (cvars c) = true) by (apply existsb_exists; exists x; split; [exact Hin | apply N.eqb_refl]). congruence.
Qed.

Lemma vars_in : forall m vs, MInv m -> lits_in vs m = true -> forall id, validh m id -> incl (vars m id) vs.
Proof.
  intros m vs Hi Hl. apply (handle_ind m (fun id => incl (vars m id) vs)). intros id Hv IH.
  rewrite (vars_node_at m id Hv). destruct (node_at m id) as [| |v p|vt els] eqn:En.
  - intros x Hx. destruct Hx.
  - intros x Hx. destruct Hx.
  - cbn. intros x [<-|[]]. unfold lits_in in Hl. rewrite forallb_forall in Hl.
    assert (Hin : In (NLit v p) (nodes m)) by (unfold node_at in En; rewrite <- En; apply nth_In; exact Hv).
    specialize (Hl _ Hin). cbn in Hl. unfold nmem in Hl. apply existsb_exists in Hl as [y [Hy E0]]. apply N.eqb_eq in E0. now subst.
  - pose proof (refs_lt m id vt els Hi Hv En) as Hr. rewrite Forall_forall in Hr. cbn [vars_node].
    intros x Hx. apply in_flat_map in Hx as [e [He Hx]]. destruct (Hr e He) as [P S]. unfold validh in Hv.
    rewrite !(vars_prefix m) in Hx by lia. apply in_app_or in Hx as [Hx|Hx]; [exact (IH _ P x Hx) | exact (IH _ S x Hx)].
Qed.

Lemma Wc_Wcp : forall m c, Wc m c = Wcp (pos_of m) (neg_of m) c.
Proof. reflexivity. Qed.

(* general form: every variable of vs is normalised or occurs in every cube of the handle *)
Lemma wmc_sum_gen : forall m vs id sigma0,
  MInv m -> decomp_ok m = true -> NoDup vs -> lits_in vs m = true -> validh m id ->
  (forall c u, In c (cubes m id) -> In u vs -> ~ In u (cvars c) -> pos_of m u + neg_of m u == 1) ->
  wmc m id == wsum (pos_of m) (neg_of m) vs (fun s => b2q (den m id s)) sigma0.
Proof.
  intros m vs id s0 Hi Hd Hvs Hl Hv Hfix.
  rewrite (E_ext _ _ vs _ (fun s => qsum (map (fun c => b2q (sat s c)) (cubes m id)))) by (intros s; apply sat_cubes; assumption).
  rewrite (E_qsum (pos_of m) (neg_of m) vs (fun c s => b2q (sat s c))).
  rewrite (wmc_cubes m Hi id Hv). apply qsum_map_ext. intros c Hc.
  destruct (cube_vars m Hi Hd id Hv c Hc) as [N1 I1].
  rewrite (cube_E (pos_of m) (neg_of m) vs Hvs c s0 N1) by (eapply incl_tran; [exact I1 | now apply vars_in]).
  rewrite zrest_one by (intros u Hu Hn; eapply Hfix; eauto). rewrite Wc_Wcp. ring.
Qed.

(* ---- (F) a function that entails "exactly one of G" fixes every variable of G in every cube ----------------------- *)
Definition asg_of (c : cube) : asg :=
  fun u => match find (fun l => fst l =? u) c with Some l => snd l | None => false end.
Definition upd (s : asg) (v : N) (b : bool) : asg := fun x => if x =? v then b else s x.

Lemma asg_of_lit : forall c, NoDup (cvars c) -> forall l, In l c -> asg_of c (fst l) = snd l.
Proof.
  induction c as [|l0 c IH]; intros Hn l Hl; [destruct Hl|]. cbn in Hn. inversion Hn as [|? ? Hn0 Hnc]; subst.
  unfold asg_of. cbn [find]. destruct Hl as [->|Hl]; [now rewrite N.eqb_refl|].
  destruct (fst l0 =? fst l) eqn:E0.
  - apply N.eqb_eq in E0. exfalso. apply Hn0. rewrite E0. unfold cvars. now apply in_map.
  - apply (IH Hnc l Hl).
Qed.

Lemma sat_asg_of : forall c, NoDup (cvars c) -> sat (asg_of c) c = true.
Proof.
  intros c Hn. unfold sat. apply forallb_forall. intros l Hl. rewrite (asg_of_lit c Hn l Hl). apply Bool.eqb_reflx.
Qed.

Lemma sat_upd_notin : forall c s v b, ~ In v (cvars c) -> sat (upd s v b) c = sat s c.
Proof.
  intros c s v b H. unfold sat. induction c as [|l c IH]; [reflexivity|]. cbn [forallb]. rewrite IH by (intros Hc; apply H; now right).
  unfold upd at 1. destruct (fst l =? v) eqn:E0; [apply N.eqb_eq in E0; exfalso; apply H; left; exact E0 | reflexivity].
Qed.

Lemma count_flip : forall G s v, NoDup G -> In v G ->
  count_true (map (upd s v (negb (s v))) G) <> count_true (map s G).
Proof.
  induction G as [|g G IH]; intros s v Hn Hin; [destruct Hin|]. inversion Hn as [|? ? Hg HG]; subst.
  unfold count_true in *. cbn [map filter].
  destruct Hin as [->|Hin].
  - assert (Hsame : map (upd s v (negb (s v))) G = map s G).
    { apply map_ext_in. intros x Hx. unfold upd. destruct (x =? v) eqn:E0; [apply N.eqb_eq in E0; subst; contradiction | reflexivity]. }
    rewrite Hsame. unfold upd at 1. rewrite N.eqb_refl. destruct (s v); cbn; lia.
  - assert (Hne : (g =? v) = false) by (apply N.eqb_neq; intros ->; contradiction).
    unfold upd at 1. rewrite Hne. specialize (IH s v HG Hin). destruct (s g); cbn [length]; lia.
Qed.

Lemma group_fix : forall m id G, MInv m -> validh m id -> NoDup G ->
  (forall s, den m id s = true -> count_true (map s G) = 1%nat) ->
  forall c, In c (cubes m id) -> NoDup (cvars c) -> forall v, In v G -> In v (cvars c).
Proof.
  intros m id G Hi Hv HG Heo c Hc Hn v Hin.
  destruct (in_dec N.eq_dec v (cvars c)) as [H|H]; [exact H|]. exfalso.
  set (s := asg_of c).
  pose proof (cube_sound m Hi s id Hv c Hc (sat_asg_of c Hn)) as D1.
  assert (S2 : sat (upd s v (negb (s v))) c = true) by (rewrite sat_upd_notin by exact H; apply sat_asg_of; exact Hn).
  pose proof (cube_sound m Hi _ id Hv c Hc S2) as D2.
  apply (count_flip G s v HG Hin). now rewrite (Heo _ D1), (Heo _ D2).
Qed.

(* wmc = truth-table weighted sum when every variable is normalised or belongs to a group G (pairwise distinct
   variables) whose exactly-one constraint the function entails *)
Lemma wmc_sum_groups : forall m vs id sigma0,
  MInv m -> decomp_ok m = true -> NoDup vs -> lits_in vs m = true -> validh m id ->
  (forall u, In u vs ->
     pos_of m u + neg_of m u == 1 \/
     exists G, In u G /\ NoDup G /\ forall s, den m id s = true -> count_true (map s G) = 1%nat) ->
  wmc m id == wsum (pos_of m) (neg_of m) vs (fun s => b2q (den m id s)) sigma0.
Proof.
  intros m vs id s0 Hi Hd Hvs Hl Hv Hg. apply wmc_sum_gen; try assumption.
  intros c u Hc Hu Hn. destruct (Hg u Hu) as [H|[G (HuG & HG & Heo)]]; [exact H|]. exfalso. apply Hn.
  destruct (cube_vars m Hi Hd id Hv c Hc) as [N1 _].
  exact (group_fix m id G Hi Hv HG Heo c Hc N1 u HuG).
Qed.
