(* The Hoare logic of Hoare.v for an arbitrary manager invariant `Inv` (used for the structural,
   vtree-respecting invariant of DecompProofs.v).  Same rules, same proofs. *)
Require Import KV.Sdd.Model KV.Sdd.Sem KV.Sdd.Spec KV.Sdd.SemProofs KV.Sdd.Hoare.
Require Import Lia.

Section Generic.
  Variable Inv : mgr -> Prop.
  (* ---- triples ----------------------------------------------------------------------------------- *)
  Definition gtriple {A} (P : mgr -> Prop) (c : M A) (Q : A -> mgr -> Prop) : Prop :=
    forall m b, Inv m -> P m ->
      Inv (fst (fst (c (m, b)))) /\ ext m (fst (fst (c (m, b)))) /\
      forall a, snd (c (m, b)) = Ok a -> Q a (fst (fst (c (m, b)))).

  Definition gstable (P : mgr -> Prop) : Prop := forall m m', P m -> ext m m' -> P m'.

  Lemma gt_ret : forall {A} (P : mgr -> Prop) (a : A) (Q : A -> mgr -> Prop),
    (forall m, Inv m -> P m -> Q a m) -> gtriple P (ret a) Q.
  Proof.
    intros A P a Q H m b Hi Hp. cbn. split; [exact Hi|]. split; [apply ext_refl|].
    intros a' [= <-]. now apply H.
  Qed.

  Lemma gt_fail : forall {A} (P : mgr -> Prop) (r : res A) (Q : A -> mgr -> Prop),
    (forall a, r <> Ok a) -> gtriple P (fail r) Q.
  Proof.
    intros A P r Q H m b Hi Hp. cbn. split; [exact Hi|]. split; [apply ext_refl|].
    intros a Ha. exfalso. eapply H; eauto.
  Qed.

  Lemma gt_bind : forall {A B} (P : mgr -> Prop) (c : M A) (Q : A -> mgr -> Prop) (f : A -> M B) (R : B -> mgr -> Prop),
    gtriple P c Q -> (forall a, gtriple (Q a) (f a) R) -> gtriple P (bind c f) R.
  Proof.
    intros A B P c Q f R Hc Hf m b Hi Hp. unfold bind.
    destruct (Hc m b Hi Hp) as (Hi1 & He1 & Hq).
    destruct (c (m, b)) as [[m1 b1] r] eqn:E. cbn [fst snd] in *.
    destruct r as [a| | |]; try (split; [exact Hi1|]; split; [exact He1|]; cbn; intros; discriminate).
    specialize (Hq a eq_refl).
    destruct (Hf a m1 b1 Hi1 Hq) as (Hi2 & He2 & Hr).
    split; [exact Hi2|]. split; [eapply ext_trans; eauto|]. exact Hr.
  Qed.

  Lemma gt_conseq : forall {A} (P P' : mgr -> Prop) (c : M A) (Q Q' : A -> mgr -> Prop),
    gtriple P' c Q' ->
    (forall m, Inv m -> P m -> P' m) ->
    (forall a m, Inv m -> Q' a m -> Q a m) ->
    gtriple P c Q.
  Proof.
    intros A P P' c Q Q' H HP HQ m b Hi Hp.
    destruct (H m b Hi (HP m Hi Hp)) as (Hi1 & He1 & Hq).
    split; [exact Hi1|]. split; [exact He1|]. intros a Ha. apply HQ; auto.
  Qed.

  Lemma gt_pre : forall {A} (P P' : mgr -> Prop) (c : M A) (Q : A -> mgr -> Prop),
    gtriple P' c Q -> (forall m, Inv m -> P m -> P' m) -> gtriple P c Q.
  Proof. intros. eapply gt_conseq; eauto. Qed.

  Lemma gt_post : forall {A} (P : mgr -> Prop) (c : M A) (Q Q' : A -> mgr -> Prop),
    gtriple P c Q' -> (forall a m, Inv m -> Q' a m -> Q a m) -> gtriple P c Q.
  Proof. intros. eapply gt_conseq; eauto. Qed.

  Lemma gt_frame : forall {A} (P F : mgr -> Prop) (c : M A) (Q : A -> mgr -> Prop),
    gtriple P c Q -> gstable F -> gtriple (fun m => P m /\ F m) c (fun a m => Q a m /\ F m).
  Proof.
    intros A P F c Q H HF m b Hi [Hp Hf].
    destruct (H m b Hi Hp) as (Hi1 & He1 & Hq).
    split; [exact Hi1|]. split; [exact He1|]. intros a Ha. split; [now apply Hq | eapply HF; eauto].
  Qed.

  (* call a procedure whose precondition follows from the (gstable) context, keeping the context *)
  Lemma gt_call : forall {A} (P P1 : mgr -> Prop) (c : M A) (Q : A -> mgr -> Prop),
    gtriple P1 c Q -> gstable P -> (forall m, Inv m -> P m -> P1 m) ->
    gtriple P c (fun a m => Q a m /\ P m).
  Proof.
    intros A P P1 c Q H HS HP.
    eapply gt_pre; [apply (gt_frame P1 P c Q H HS)|]. intros m Hi Hp. split; auto.
  Qed.

  (* bind keeping a gstable precondition *)
  Lemma gt_bindk : forall {A B} (P P1 : mgr -> Prop) (c : M A) (Q : A -> mgr -> Prop) (f : A -> M B) (R : B -> mgr -> Prop),
    gtriple P1 c Q -> gstable P -> (forall m, Inv m -> P m -> P1 m) ->
    (forall a, gtriple (fun m => Q a m /\ P m) (f a) R) -> gtriple P (bind c f) R.
  Proof. intros. eapply gt_bind; [eapply gt_call; eauto|]. auto. Qed.

  Lemma gt_checkpoint : forall (P : mgr -> Prop), gtriple P checkpoint (fun _ m => P m).
  Proof.
    intros P m b Hi Hp. unfold checkpoint. cbn [fst snd].
    destruct (orc b) as [|[|] t]; cbn; (split; [exact Hi|]; split; [apply ext_refl|]; intros; auto).
  Qed.

  Lemma gt_before_alloc : forall (P : mgr -> Prop), gtriple P before_alloc (fun _ m => P m).
  Proof.
    intros P. unfold before_alloc. eapply gt_bind; [apply gt_checkpoint|]. intros _ m b Hi Hp.
    destruct (lim (snd (m, b))) as [L|]; [destruct (L <=? node_count (fst (m, b)))|]; cbn;
      (split; [exact Hi|]; split; [apply ext_refl|]; intros; auto; discriminate).
  Qed.

  Lemma gt_seq : forall {A B} (P : mgr -> Prop) (c : M A) (d : M B) (R : B -> mgr -> Prop),
    gtriple P c (fun _ m => P m) -> gtriple P d R -> gtriple P (bind c (fun _ => d)) R.
  Proof. intros. eapply gt_bind; eauto. Qed.

  (* `m0 <- getm ;; f m0`: the continuation may use that the manager it starts in is m0 *)
  Lemma gt_getm : forall {B} (P : mgr -> Prop) (f : mgr -> M B) (R : B -> mgr -> Prop),
    (forall m0, gtriple (fun m => m = m0 /\ P m) (f m0) R) -> gtriple P (bind getm f) R.
  Proof.
    intros B P f R H m b Hi Hp. unfold bind, getm. cbn [fst].
    apply (H m m b Hi). split; auto.
  Qed.

  (* fix the initial manager (to compute ghost values from it) *)
  Lemma gt_init : forall {A} (P : mgr -> Prop) (c : M A) (Q : A -> mgr -> Prop),
    (forall m0, Inv m0 -> P m0 -> gtriple (fun m => m = m0) c Q) -> gtriple P c Q.
  Proof. intros A P c Q H m b Hi Hp. exact (H m Hi Hp m b Hi eq_refl). Qed.

  Lemma gt_modm : forall (P : mgr -> Prop) (f : mgr -> mgr) (Q : unit -> mgr -> Prop),
    (forall m, Inv m -> P m -> Inv (f m) /\ ext m (f m) /\ Q tt (f m)) -> gtriple P (modm f) Q.
  Proof.
    intros P f Q H m b Hi Hp. unfold modm. cbn [fst snd].
    destruct (H m Hi Hp) as (H1 & H2 & H3). split; [exact H1|]. split; [exact H2|].
    intros [] _. exact H3.
  Qed.

  (* loops: ghost list gl runs in parallel with the list being folded *)
  Lemma gt_mfoldl : forall {A B G} (f : A -> B -> M A) (Pall : mgr -> Prop) (I : A -> list G -> mgr -> Prop)
      (l : list B) (gl : list G),
    gstable Pall ->
    length l = length gl ->
    (forall acc dG x g, In (x, g) (combine l gl) ->
        gtriple (fun m => I acc dG m /\ Pall m) (f acc x) (fun acc' m => I acc' (dG ++ [g]) m /\ Pall m)) ->
    forall a dG, gtriple (fun m => I a dG m /\ Pall m) (mfoldl f l a) (fun a' m => I a' (dG ++ gl) m /\ Pall m).
  Proof.
    intros A B G f Pall I l. induction l as [|x l IH]; intros gl HS Hlen Hstep a dG.
    - destruct gl; [|discriminate]. cbn [mfoldl]. apply gt_ret. intros m _ H. now rewrite app_nil_r.
    - destruct gl as [|g gl]; [discriminate|]. cbn [mfoldl].
      eapply gt_bind.
      + apply Hstep. left. reflexivity.
      + intros a'. eapply gt_post.
        * apply (IH gl HS); [cbn in Hlen; lia|]. intros. apply Hstep. right. assumption.
        * intros a'' m _ H. rewrite <- app_assoc in H. exact H.
  Qed.

End Generic.
