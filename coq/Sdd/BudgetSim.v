(* A budgeted run that returns Ok is step for step the plain run: same final manager, same handle.
   (The budget is only ever consulted by `checkpoint` / `before_alloc`, which do not touch the manager.) *)
Require Import KV.Sdd.Model KV.Sdd.Sem KV.Sdd.Spec KV.Sdd.MainProofs.

Definition unl (b : budget) : Prop := lim b = None /\ orc b = [].

Definition sim {A} (c : M A) : Prop :=
  forall m b m' b' a, c (m, b) = ((m', b'), Ok a) ->
  forall u, unl u -> exists u', unl u' /\ c (m, u) = ((m', u'), Ok a).

Lemma sim_ret : forall {A} (a : A), sim (ret a).
Proof. intros A a m b m' b' a' H u Hu. cbn in *. injection H as <- <- <-. exists u. auto. Qed.

Lemma sim_fail : forall {A} (r : res A), sim (fail r).
Proof. intros A r m b m' b' a H u Hu. cbn in *. injection H as <- <- ->. exists u. auto. Qed.

Lemma sim_bind : forall {A B} (c : M A) (f : A -> M B), sim c -> (forall a, sim (f a)) -> sim (bind c f).
Proof.
  intros A B c f Hc Hf m b m' b' a H u Hu. unfold bind in *.
  destruct (c (m, b)) as [[m1 b1] [a1| | |]] eqn:E; try discriminate.
  destruct (Hc _ _ _ _ _ E u Hu) as [u1 [Hu1 E1]]. rewrite E1.
  exact (Hf a1 _ _ _ _ _ H u1 Hu1).
Qed.

Lemma sim_checkpoint : sim checkpoint.
Proof.
  intros m b m' b' a H u [Hl Ho]. unfold checkpoint in *. cbn [fst snd] in *. rewrite Ho.
  destruct (orc b) as [|[|] t]; try discriminate.
  - injection H as <- _ <-. exists (Bud (lim u) [] (ticks u + 1)). split; [split; [exact Hl | reflexivity] | reflexivity].
  - injection H as <- _ <-. exists (Bud (lim u) [] (ticks u + 1)). split; [split; [exact Hl | reflexivity] | reflexivity].
Qed.

Lemma sim_before_alloc : sim before_alloc.
Proof.
  unfold before_alloc. apply sim_bind; [apply sim_checkpoint|]. intros _ m b m' b' a H u [Hl Ho].
  cbn [fst snd] in *. rewrite Hl.
  assert (G : exists u', unl u' /\ (u, @Ok unit tt) = (u', Ok tt)) by (exists u; split; [split; assumption | reflexivity]).
  destruct (lim b) as [L|].
  - destruct (L <=? node_count m); [discriminate|]. injection H as <- _ <-. exists u. split; [split; assumption | reflexivity].
  - injection H as <- _ <-. exists u. split; [split; assumption | reflexivity].
Qed.

Lemma sim_getm : sim getm.
Proof. intros m b m' b' a H u Hu. unfold getm in *. cbn in *. injection H as <- _ <-. exists u. auto. Qed.
Lemma sim_modm : forall f, sim (modm f).
Proof. intros f m b m' b' a H u Hu. unfold modm in *. cbn in *. injection H as <- _ <-. exists u. auto. Qed.
Lemma sim_alloc : forall k n, sim (alloc k n).
Proof. intros k n m b m' b' a H u Hu. unfold alloc in *. cbn in *. injection H as <- _ <-. exists u. auto. Qed.

Lemma sim_mfoldl : forall {A B} (f : A -> B -> M A) l a, (forall a x, sim (f a x)) -> sim (mfoldl f l a).
Proof.
  intros A B f l. induction l as [|x l IH]; intros a H; cbn [mfoldl]; [apply sim_ret|].
  apply sim_bind; [apply H | intros; apply IH; exact H].
Qed.

Ltac sim_step :=
  first [ apply sim_ret | apply sim_fail | apply sim_checkpoint | apply sim_before_alloc | apply sim_getm
        | apply sim_modm | apply sim_alloc
        | apply sim_bind; [|intro] | apply sim_mfoldl; intros ].
Ltac sim_auto :=
  repeat (sim_step ||
          match goal with
          | |- sim (match ?x with _ => _ end) => destruct x
          | |- sim (if ?x then _ else _) => destruct x
          | |- sim (let _ := _ in _) => cbv zeta
          end).

Lemma sim_literal : forall v pol, sim (literal v pol).
Proof. intros. unfold literal. sim_auto. Qed.
Lemma sim_find_or_alloc : forall vt els, sim (find_or_alloc vt els).
Proof. intros. unfold find_or_alloc. sim_auto. Qed.
Lemma sim_make_decision_raw : forall vt els, sim (make_decision_raw vt els).
Proof. intros. unfold make_decision_raw. sim_auto. Qed.

Section Bodies.
  Variable rapply : N -> N -> bop -> M N.
  Variable rnegate : N -> M N.
  Hypothesis Ha : forall a b o, sim (rapply a b o).
  Hypothesis Hn : forall id, sim (rnegate id).

  Ltac leaf := first [apply Ha | apply Hn | apply sim_literal | apply sim_find_or_alloc | apply sim_make_decision_raw].

  Lemma sim_compress : forall els, sim (compress rapply els).
  Proof. intros. unfold compress. sim_auto; leaf. Qed.
  Lemma sim_unique_d : forall vt els, sim (unique_d rapply vt els).
  Proof. intros. unfold unique_d. sim_auto; leaf. Qed.
  Lemma sim_expand : forall id vt, sim (expand rnegate id vt).
  Proof. intros. unfold expand. sim_auto; leaf. Qed.
  Lemma sim_normalize : forall id t, sim (normalize_to rapply rnegate id t).
  Proof. intros. unfold normalize_to. sim_auto; leaf. Qed.
  Lemma sim_same_vtree : forall a b o vt, sim (apply_same_vtree rapply rnegate a b o vt).
  Proof. intros. unfold apply_same_vtree. sim_auto; leaf. Qed.
  Lemma sim_apply_norm : forall a b o t, sim (apply_norm rapply rnegate a b o t).
  Proof. intros. unfold apply_norm. sim_auto; leaf. Qed.
  Lemma sim_apply_inner : forall a b o, sim (apply_inner rapply rnegate a b o).
  Proof. intros. unfold apply_inner. sim_auto; leaf. Qed.
  Lemma sim_apply_body : forall a b o, sim (apply_body rapply rnegate a b o).
  Proof. intros. unfold apply_body. sim_auto; leaf. Qed.
  Lemma sim_negate_body : forall id, sim (negate_body rapply rnegate id).
  Proof. intros. unfold negate_body. sim_auto; leaf. Qed.
End Bodies.

Lemma sim_fuel : forall fuel, (forall a b o, sim (apply_f fuel a b o)) /\ (forall id, sim (negate_f fuel id)).
Proof.
  induction fuel as [|f [IHa IHn]]; split; intros; cbn [apply_f negate_f]; try apply sim_fail.
  - apply sim_apply_body; assumption.
  - apply sim_negate_body; assumption.
Qed.

Lemma sim_exactly_one : forall fuel vars, sim (exactly_one fuel vars).
Proof.
  intros fuel vars. induction vars as [|v rest IH]; cbn [exactly_one].
  - sim_auto.
  - apply sim_bind; [apply sim_checkpoint | intros _].
    destruct rest as [|w rest']; [apply sim_literal|].
    remember (w :: rest') as rest eqn:Er. clear Er.
    apply sim_bind; [apply sim_literal | intros ft].
    apply sim_bind; [apply sim_literal | intros ff].
    apply sim_bind.
    { apply sim_mfoldl. intros acc r. apply sim_bind; [apply sim_literal | intros lf]. apply (proj1 (sim_fuel fuel)). }
    intros allf.
    apply sim_bind; [apply (proj1 (sim_fuel fuel)) | intros lb].
    apply sim_bind; [exact IH | intros rc].
    apply sim_bind; [apply (proj1 (sim_fuel fuel)) | intros rb].
    apply (proj1 (sim_fuel fuel)).
Qed.

Lemma sim_call : forall fuel c, sim (run_call fuel c).
Proof.
  intros fuel [v pol|a b o|a|vars]; cbn [run_call].
  - apply sim_literal.
  - apply (proj1 (sim_fuel fuel)).
  - apply (proj2 (sim_fuel fuel)).
  - apply sim_exactly_one.
Qed.

(* the literal reading of "a budgeted operation either returns the same result as the unbudgeted one or
   reports exhaustion": whenever the budgeted call returns Ok, the plain call (same fuel) returns the same
   handle and ends in the same manager *)
Lemma budget_same_result : forall fuel c m bud m' bud' r,
  run_call fuel c (m, bud) = ((m', bud'), Ok r) ->
  exists b1, run_call fuel c (m, unlimited) = ((m', b1), Ok r).
Proof.
  intros fuel c m bud m' bud' r H.
  destruct (sim_call fuel c _ _ _ _ _ H unlimited (conj eq_refl eq_refl)) as [u' [_ E]]. exists u'. exact E.
Qed.
