(* Every manager reachable by a history passes the reducedness check, hence is canonical: equal functions get equal
   handles, for every number of variables, every order of registration and every budget. *)
Require Import KV.Sdd.Model KV.Sdd.Sem KV.Sdd.Spec KV.Sdd.Decomp KV.Sdd.Reduced KV.Sdd.History.
Require Import KV.Sdd.SemProofs KV.Sdd.Hoare KV.Sdd.OpsProofs KV.Sdd.MainProofs KV.Sdd.Vtree KV.Sdd.Vtree2.
Require Import KV.Sdd.DecompProofs KV.Sdd.DecompHist KV.Sdd.CubeProofs.
Require KV.Sdd.SafeHist KV.Sdd.CanonProofs KV.Sdd.RedProofs KV.Sdd.RedHist.
Require Import Lia Sorted Permutation.

Module R := KV.Sdd.RedProofs.
Module RH := KV.Sdd.RedHist.

(* ---- the stored element lists are sorted ------------------------------------------------------------------------------ *)
Definition eR (a b : elem) : Prop := elem_leb a b = true.

Lemma elem_leb_total : forall a b, elem_leb a b = false -> elem_leb b a = true.
Proof.
  intros [p s] [q t] H. unfold elem_leb in *. cbn [fst snd] in *.
  apply orb_false_elim in H as [H1 H2]. apply N.ltb_ge in H1.
  destruct (N.eq_dec p q) as [->|Hne].
  - rewrite N.eqb_refl in H2. cbn in H2. apply N.leb_gt in H2.
    rewrite N.ltb_irrefl, N.eqb_refl. cbn. apply N.leb_le. lia.
  - assert (E : (q <? p) = true) by (apply N.ltb_lt; lia). now rewrite E.
Qed.

Lemma ins_sorted_Sorted : forall x l, Sorted eR l -> Sorted eR (ins_sorted x l).
Proof.
  intros x l H. induction H as [|y l Hs IH Hh]; cbn [ins_sorted]; [repeat constructor|].
  destruct (elem_leb x y) eqn:E.
  - constructor; [constructor; assumption | constructor; exact E].
  - constructor; [exact IH|]. destruct l as [|z l]; cbn [ins_sorted].
    + constructor. now apply elem_leb_total.
    + destruct (elem_leb x z); constructor; [now apply elem_leb_total | inversion Hh; assumption].
Qed.

Lemma sort_els_Sorted : forall l, Sorted eR (sort_els l).
Proof. induction l as [|x l IH]; cbn; [constructor | now apply ins_sorted_Sorted]. Qed.

Lemma count_cover : forall {A} (f g : A -> bool) l, (forall e, In e l -> f e || g e = true) ->
  (length l <= length (filter f l) + length (filter g l))%nat.
Proof.
  intros A f g l. induction l as [|e l IH]; intros H; [cbn; lia|].
  pose proof (H e (or_introl eq_refl)) as He. specialize (IH (fun x Hx => H x (or_intror Hx))).
  cbn [filter length]. destruct (f e), (g e); cbn [length] in *; try discriminate; lia.
Qed.

Section Static.
  Variable m : mgr.
  Variable vn : list vnode.
  Variable v2v : list (N * N).
  Variable root : option N.
  Hypothesis Hi : MInv m.
  Hypothesis HVt : VtOk vn v2v root.
  Hypothesis HRL : RH.RL vn.
  Hypothesis Hp : R.PInv vn v2v root m.

  Lemma vnode_vat : forall t, vnode_at m t = vat vn t.
  Proof. intros t. unfold vnode_at, vat. now rewrite (R.p_vn _ _ _ _ Hp). Qed.

  Lemma rl_static : rl_vtree m = true.
  Proof.
    unfold rl_vtree. apply forallb_forall. intros vnd Hin. destruct vnd as [v|l r]; [reflexivity|].
    rewrite (R.p_vn _ _ _ _ Hp) in Hin. apply In_nth with (d := VLeaf 0) in Hin as [i [Hlt Hn]].
    destruct (HRL (N.of_nat i) l r) as [x Hx]; [unfold vvalid; now rewrite Nnat.Nat2N.id | unfold vat; now rewrite Nnat.Nat2N.id|].
    rewrite vnode_vat, Hx. reflexivity.
  Qed.

  Lemma node_static : forall k, (k < length (nodes m))%nat -> reduced_node m (nth k (nodes m) NFalse) = true.
  Proof.
    intros k Hk. pose proof (R.p_nodes _ _ _ _ Hp k Hk) as Hnode.
    destruct (nth k (nodes m) NFalse) as [| |v pol|vt els] eqn:En; try reflexivity.
    cbn in Hnode. destruct Hnode as [(Hnz & Htr & Hnd & (l0 & Hsort)) (l & r & Hat & Hvt & Hall)].
    destruct (HRL vt l r Hvt Hat) as [x Hx].
    destruct (R.pvalid01 _ _ _ _ Hp) as (V0 & V1 & N0 & N1).
    (* the handle k *)
    set (id := N.of_nat k).
    assert (Vid : validh m id) by (unfold validh, id; now rewrite Nnat.Nat2N.id).
    assert (Eid : node_at m id = NDec vt els) by (unfold node_at, id; now rewrite Nnat.Nat2N.id).
    (* classification of the primes *)
    assert (Hcls : forall e, In e els -> fst e = 1 \/ exists pol, node_at m (fst e) = NLit x pol).
    { intros e He. unfold R.nozero in Hnz. rewrite Forall_forall in Hnz, Hall. destruct (Hall e He) as (_ & _ & U & _).
      destruct (N.eq_dec (fst e) 1) as [E1|E1]; [now left | right].
      exact (R.under_leaf_lit vn v2v root HVt m (fst e) l x Hp Hx U (Hnz e He) E1). }
    assert (Hval : forall e, In e els -> validh m (fst e)).
    { intros e He. rewrite Forall_forall in Hall. destruct (Hall e He) as (_ & _ & [U _] & _). exact U. }
    (* exactly one prime holds under every assignment *)
    assert (Hpart : forall s, length (filter (fun e : elem => den m (fst e) s) els) = 1%nat).
    { intros s. destruct (has_dec s m id vt els (Hi s) Vid Eid) as [bs (A & B & _)].
      rewrite (els_has_vals _ _ _ _ A) in B. unfold part, cnt, count_true in B. rewrite map_map in B. cbn [fst] in B.
      rewrite <- B. clear. induction els as [|e l IH]; cbn; [reflexivity|]. destruct (den m (fst e) s); cbn; now rewrite IH. }
    set (sT := fun _ : N => true). set (sF := fun _ : N => false).
    assert (Dlit : forall p pol s, validh m p -> node_at m p = NLit x pol -> den m p s = Bool.eqb (s x) pol).
    { intros p pol s Vp Np. apply (has_den_eq _ _ _ _ (has_lit s m p x pol Vp Np)). }
    assert (D1 : forall s, den m 1 s = true) by (intros s; apply (has_den_eq _ _ _ _ (has1 s m (Hi s)))).
    assert (Hcov : forall e, In e els -> den m (fst e) sT || den m (fst e) sF = true).
    { intros e He. destruct (Hcls e He) as [E1|[pol E1]].
      - rewrite E1, !D1. reflexivity.
      - rewrite !(Dlit (fst e) pol _ (Hval e He) E1). destruct pol; reflexivity. }
    pose proof (count_cover _ _ els Hcov) as Hlen. rewrite (Hpart sT), (Hpart sF) in Hlen.
    destruct els as [|[p1 s1] [|[p2 s2] [|e3 rest]]]; cbn [length] in Hlen; try lia.
    - specialize (Hpart sT). cbn in Hpart. discriminate.
    - (* one element: its prime is TRUE, but then the node would have been trimmed *)
      exfalso. destruct (Hcls (p1, s1) (or_introl eq_refl)) as [E1|[pol E1]]; cbn [fst] in E1.
      + subst p1. cbn in Htr. discriminate.
      + pose proof (Hpart sT) as HT. pose proof (Hpart sF) as HF. cbn [filter fst] in HT, HF.
        rewrite (Dlit p1 pol sT (Hval (p1, s1) (or_introl eq_refl)) E1) in HT. rewrite (Dlit p1 pol sF (Hval (p1, s1) (or_introl eq_refl)) E1) in HF.
        destruct pol; cbn in HT, HF; discriminate.
    - (* two elements *)
      pose proof (Hpart sT) as HT. pose proof (Hpart sF) as HF. cbn [filter fst] in HT, HF.
      assert (I1 : In (p1, s1) [(p1, s1); (p2, s2)]) by now left.
      assert (I2 : In (p2, s2) [(p1, s1); (p2, s2)]) by (right; now left).
      destruct (Hcls _ I1) as [E1|[pol1 E1]]; destruct (Hcls _ I2) as [E2|[pol2 E2]]; cbn [fst] in E1, E2.
      + exfalso. subst. rewrite !D1 in HT. cbn in HT. discriminate.
      + exfalso. subst p1. rewrite D1, (Dlit p2 pol2 sT (Hval _ I2) E2) in HT. rewrite D1, (Dlit p2 pol2 sF (Hval _ I2) E2) in HF. destruct pol2; cbn in HT, HF; discriminate.
      + exfalso. subst p2. rewrite D1, (Dlit p1 pol1 sT (Hval _ I1) E1) in HT. rewrite D1, (Dlit p1 pol1 sF (Hval _ I1) E1) in HF. destruct pol1; cbn in HT, HF; discriminate.
      + rewrite (Dlit p1 pol1 sT (Hval _ I1) E1), (Dlit p2 pol2 sT (Hval _ I2) E2) in HT.
        rewrite (Dlit p1 pol1 sF (Hval _ I1) E1), (Dlit p2 pol2 sF (Hval _ I2) E2) in HF.
        assert (Hpol : pol2 = negb pol1) by (destruct pol1, pol2; cbn in HT, HF; try discriminate; reflexivity).
        subst pol2.
        assert (Hne : p1 <> p2) by (intros ->; rewrite E1 in E2; destruct pol1; discriminate).
        assert (Hlt : p1 < p2).
        { pose proof (sort_els_Sorted l0) as HS. rewrite <- Hsort in HS. inversion HS as [|? ? _ Hh]; subst.
          inversion Hh as [|? ? HR]; subst. unfold eR, elem_leb in HR. cbn [fst snd] in HR.
          apply orb_prop in HR as [HR|HR]; [now apply N.ltb_lt in HR|].
          apply andb_prop in HR as [HR _]. apply N.eqb_eq in HR. contradiction. }
        cbn [reduced_node]. rewrite (vnode_vat vt), Hat. rewrite (vnode_vat l), Hx.
        assert (L1 : (p1 <? p2) = true) by now apply N.ltb_lt. rewrite L1.
        assert (Hs12 : s1 <> s2) by (cbn in Hnd; inversion Hnd as [|? ? Hn _]; subst; intros ->; apply Hn; now left).
        assert (S12 : (s1 =? s2) = false) by now apply N.eqb_neq. rewrite S12.
        cbn in Htr. unfold ID_TRUE, ID_FALSE in Htr.
        destruct ((s1 =? 1) && (s2 =? 0)) eqn:T1; [discriminate|].
        destruct ((s2 =? 1) && (s1 =? 0)) eqn:T2; [discriminate|].
        unfold is_lit. rewrite E1, E2, !N.eqb_refl. destruct pol1; cbn; reflexivity.
  Qed.

  Lemma reduced_static : reduced_ok m = true.
  Proof.
    unfold reduced_ok. rewrite rl_static. cbn [andb]. apply forallb_forall. intros n Hin.
    apply In_nth with (d := NFalse) in Hin as [k [Hk <-]]. now apply node_static.
  Qed.
End Static.

Lemma history_reduced : forall fuel ops s outs,
  run_from fuel rinit ops = (s, outs) -> run_ok fuel rinit ops = true -> (4 * length ops + 3 < fuel)%nat ->
  reduced_ok (rm s) = true.
Proof.
  intros fuel ops s outs E Hok Hf.
  destruct (RH.history_SInvQ _ _ _ _ E Hok Hf) as (vn & v2v & root & HVt & HU & HRL & Hp).
  destruct (history_exact _ _ _ _ E) as [Hi _].
  exact (reduced_static (rm s) vn v2v root Hi HVt HRL Hp).
Qed.

(* canonicity of reachable managers *)
Lemma history_canonical_full : forall fuel ops s outs,
  run_from fuel rinit ops = (s, outs) -> run_ok fuel rinit ops = true -> (4 * length ops + 3 < fuel)%nat ->
  (forall a b, validh (rm s) a -> validh (rm s) b -> (forall sg, den (rm s) a sg = den (rm s) b sg) -> a = b) /\
  (forall i j, (forall sg, feval sg (frm s i) = feval sg (frm s j)) -> hnd s i = hnd s j).
Proof.
  intros fuel ops s outs E Hok Hf. pose proof (history_reduced _ _ _ _ E Hok Hf) as Hr. split.
  - intros a b Va Vb Hden.
    destruct (history_exact _ _ _ _ E) as [Hi _].
    pose proof (runD _ _ _ _ _ HInvD_init Hok E) as [HS _].
    destruct (SafeHist.history_SInvP _ _ _ _ E Hok Hf) as [HP _].
    exact (CanonProofs.canonical_reduced (rm s) a b Hi HS HP Hr Va Vb Hden).
  - intros i j H. exact (CanonProofs.history_canonical fuel ops s outs i j E Hok Hf Hr H).
Qed.
