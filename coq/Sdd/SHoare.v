(* Hoare logic with SAFETY: `striple Inv P c Q` = started in a manager satisfying Inv and P, under ANY budget, the
   computation ends in a manager satisfying Inv that extends the old one, and the outcome is Ok (with Q) or a budget
   error - never out-of-fuel, never a Rust panic path. *)
Require Import KV.Sdd.Model KV.Sdd.Sem KV.Sdd.Spec KV.Sdd.SemProofs KV.Sdd.Hoare.
Require Import Lia.

Definition good {A} (r : res A) (Q : A -> mgr -> Prop) (m : mgr) : Prop :=
  match r with Ok a => Q a m | Err _ => True | Fuel => False | Panic => False end.

Section Generic.
  Variable Inv : mgr -> Prop.

  Definition striple {A} (P : mgr -> Prop) (c : M A) (Q : A -> mgr -> Prop) : Prop :=
    forall m b, Inv m -> P m ->
      Inv (fst (fst (c (m, b)))) /\ ext m (fst (fst (c (m, b)))) /\ good (snd (c (m, b))) Q (fst (fst (c (m, b)))).

  Lemma st_ret : forall {A} (P : mgr -> Prop) (a : A) (Q : A -> mgr -> Prop),
    (forall m, Inv m -> P m -> Q a m) -> striple P (ret a) Q.
  Proof. intros A P a Q H m b Hi Hp. cbn. split; [exact Hi|]. split; [apply ext_refl | now apply H]. Qed.

  Lemma st_false : forall {A} (P : mgr -> Prop) (c : M A) (Q : A -> mgr -> Prop),
    (forall m, Inv m -> P m -> False) -> striple P c Q.
  Proof. intros A P c Q H m b Hi Hp. exfalso. eauto. Qed.

  Lemma st_bind : forall {A B} (P : mgr -> Prop) (c : M A) (Q : A -> mgr -> Prop) (f : A -> M B) (R : B -> mgr -> Prop),
    striple P c Q -> (forall a, striple (Q a) (f a) R) -> striple P (bind c f) R.
  Proof.
    intros A B P c Q f R Hc Hf m b Hi Hp. unfold bind.
    destruct (Hc m b Hi Hp) as (Hi1 & He1 & Hq).
    destruct (c (m, b)) as [[m1 b1] r] eqn:E. cbn [fst snd] in *.
    destruct r as [a| | |]; cbn [good] in Hq; try contradiction.
    - destruct (Hf a m1 b1 Hi1 Hq) as (Hi2 & He2 & Hr).
      split; [exact Hi2|]. split; [eapply ext_trans; eauto | exact Hr].
    - cbn. split; [exact Hi1|]. split; [exact He1 | exact I].
  Qed.

  Lemma st_conseq : forall {A} (P P' : mgr -> Prop) (c : M A) (Q Q' : A -> mgr -> Prop),
    striple P' c Q' -> (forall m, Inv m -> P m -> P' m) -> (forall a m, Inv m -> Q' a m -> Q a m) -> striple P c Q.
  Proof.
    intros A P P' c Q Q' H HP HQ m b Hi Hp.
    destruct (H m b Hi (HP m Hi Hp)) as (Hi1 & He1 & Hq).
    split; [exact Hi1|]. split; [exact He1|]. destruct (snd (c (m, b))); cbn [good] in *; auto.
  Qed.
  Lemma st_pre : forall {A} (P P' : mgr -> Prop) (c : M A) (Q : A -> mgr -> Prop),
    striple P' c Q -> (forall m, Inv m -> P m -> P' m) -> striple P c Q.
  Proof. intros. eapply st_conseq; eauto. Qed.
  Lemma st_post : forall {A} (P : mgr -> Prop) (c : M A) (Q Q' : A -> mgr -> Prop),
    striple P c Q' -> (forall a m, Inv m -> Q' a m -> Q a m) -> striple P c Q.
  Proof. intros. eapply st_conseq; eauto. Qed.

  Lemma st_frame : forall {A} (P F : mgr -> Prop) (c : M A) (Q : A -> mgr -> Prop),
    striple P c Q -> stable F -> striple (fun m => P m /\ F m) c (fun a m => Q a m /\ F m).
  Proof.
    intros A P F c Q H HF m b Hi [Hp Hf].
    destruct (H m b Hi Hp) as (Hi1 & He1 & Hq).
    split; [exact Hi1|]. split; [exact He1|]. destruct (snd (c (m, b))); cbn [good] in *; auto.
    split; [exact Hq | eapply HF; eauto].
  Qed.

  Lemma st_call : forall {A} (P P1 : mgr -> Prop) (c : M A) (Q : A -> mgr -> Prop),
    striple P1 c Q -> stable P -> (forall m, Inv m -> P m -> P1 m) -> striple P c (fun a m => Q a m /\ P m).
  Proof.
    intros A P P1 c Q H HS HP. eapply st_pre; [apply (st_frame P1 P c Q H HS)|]. intros m Hi Hp. split; auto.
  Qed.

  Lemma st_bindk : forall {A B} (P P1 : mgr -> Prop) (c : M A) (Q : A -> mgr -> Prop) (f : A -> M B) (R : B -> mgr -> Prop),
    striple P1 c Q -> stable P -> (forall m, Inv m -> P m -> P1 m) ->
    (forall a, striple (fun m => Q a m /\ P m) (f a) R) -> striple P (bind c f) R.
  Proof. intros. eapply st_bind; [eapply st_call; eauto|]. auto. Qed.

  Lemma st_checkpoint : forall (P : mgr -> Prop), striple P checkpoint (fun _ m => P m).
  Proof.
    intros P m b Hi Hp. unfold checkpoint. cbn [fst snd].
    destruct (orc b) as [|[|] t]; cbn; (split; [exact Hi|]; split; [apply ext_refl|]; auto).
  Qed.

  Lemma st_before_alloc : forall (P : mgr -> Prop), striple P before_alloc (fun _ m => P m).
  Proof.
    intros P. unfold before_alloc. eapply st_bind; [apply st_checkpoint|]. intros _ m b Hi Hp.
    destruct (lim (snd (m, b))) as [L|]; [destruct (L <=? node_count (fst (m, b)))|]; cbn;
      (split; [exact Hi|]; split; [apply ext_refl|]; auto).
  Qed.

  Lemma st_seq : forall {A B} (P : mgr -> Prop) (c : M A) (d : M B) (R : B -> mgr -> Prop),
    striple P c (fun _ m => P m) -> striple P d R -> striple P (bind c (fun _ => d)) R.
  Proof. intros. eapply st_bind; eauto. Qed.

  Lemma st_getm : forall {B} (P : mgr -> Prop) (f : mgr -> M B) (R : B -> mgr -> Prop),
    (forall m0, striple (fun m => m = m0 /\ P m) (f m0) R) -> striple P (bind getm f) R.
  Proof. intros B P f R H m b Hi Hp. unfold bind, getm. cbn [fst]. apply (H m m b Hi). split; auto. Qed.

  Lemma st_init : forall {A} (P : mgr -> Prop) (c : M A) (Q : A -> mgr -> Prop),
    (forall m0, Inv m0 -> P m0 -> striple (fun m => m = m0) c Q) -> striple P c Q.
  Proof. intros A P c Q H m b Hi Hp. exact (H m Hi Hp m b Hi eq_refl). Qed.

  Lemma st_modm : forall (P : mgr -> Prop) (f : mgr -> mgr) (Q : unit -> mgr -> Prop),
    (forall m, Inv m -> P m -> Inv (f m) /\ ext m (f m) /\ Q tt (f m)) -> striple P (modm f) Q.
  Proof.
    intros P f Q H m b Hi Hp. unfold modm. cbn [fst snd good].
    destruct (H m Hi Hp) as (H1 & H2 & H3). auto.
  Qed.

  Lemma st_mfoldl : forall {A B G} (f : A -> B -> M A) (Pall : mgr -> Prop) (I : A -> list G -> mgr -> Prop)
      (l : list B) (gl : list G),
    stable Pall -> length l = length gl ->
    (forall acc dG x g, In (x, g) (combine l gl) ->
        striple (fun m => I acc dG m /\ Pall m) (f acc x) (fun acc' m => I acc' (dG ++ [g]) m /\ Pall m)) ->
    forall a dG, striple (fun m => I a dG m /\ Pall m) (mfoldl f l a) (fun a' m => I a' (dG ++ gl) m /\ Pall m).
  Proof.
    intros A B G f Pall I l. induction l as [|x l IH]; intros gl HS Hlen Hstep a dG.
    - destruct gl; [|discriminate]. cbn [mfoldl]. apply st_ret. intros m _ H. now rewrite app_nil_r.
    - destruct gl as [|g gl]; [discriminate|]. cbn [mfoldl].
      eapply st_bind.
      + apply Hstep. left. reflexivity.
      + intros a'. eapply st_post.
        * apply (IH gl HS); [cbn in Hlen; lia|]. intros. apply Hstep. right. assumption.
        * intros a'' m _ H. rewrite <- app_assoc in H. exact H.
  Qed.
End Generic.
