(* REDUCEDNESS over histories (copy of SafeHist.v for the stronger invariant of RedProofs.v).
   Totality over histories: the positional invariant holds for every manager reachable by a history whose literals are
   over registered variables, so with fuel above 4 * (length of the history) + 4 no operation of the history ever
   runs out of fuel or reaches a Rust panic path. *)
Require Import KV.Sdd.Model KV.Sdd.Sem KV.Sdd.Spec KV.Sdd.Decomp KV.Sdd.History.
Require Import KV.Sdd.SemProofs KV.Sdd.Hoare KV.Sdd.SHoare KV.Sdd.OpsProofs KV.Sdd.TopProofs KV.Sdd.MainProofs.
Require Import KV.Sdd.Vtree KV.Sdd.Vtree2 KV.Sdd.DecompProofs KV.Sdd.DecompHist KV.Sdd.RedProofs.
Require Import Lia.

Definition RL (vn : list vnode) : Prop :=
  forall i l r, vvalid vn i -> vat vn i = VInt l r -> exists x, vat vn l = VLeaf x.

Lemma PInv_new : PInv [] [] None mgr_new.
Proof.
  constructor; cbn; try reflexivity.
  - exists []. reflexivity.
  - intros k Hk. destruct k as [|[|k]]; cbn; try reflexivity; lia.
  - intros key id [].
  - intros k Hk. lia.
  - intros a b o r [].
  - intros id r [].
  - intros a b o r [].
  - intros id r [].
  - intros id r [].
Qed.

Lemma PInv_regrow : forall vn v2v root e v2v' root' m m',
  VtOk vn v2v root -> VtOk (vn ++ e) v2v' root' ->
  PInv vn v2v root m ->
  nodes m' = nodes m -> utab m' = utab m -> acache m' = acache m -> ncache m' = ncache m ->
  vnodes m' = vn ++ e -> var2vt m' = v2v' -> vroot m' = root' ->
  (forall v i, In (v, i) v2v -> alookup N.eqb v v2v' = alookup N.eqb v v2v /\ In (v, i) v2v') ->
  (forall t, vvalid (vn ++ e) t -> ~ vvalid vn t ->
     (forall nv, vvalid vn nv -> desc (vn ++ e) nv t = false) \/ (forall x, vvalid (vn ++ e) x -> desc (vn ++ e) x t = true)) ->
  PInv (vn ++ e) v2v' root' m'.
Proof.
  intros vn v2v root e v2v' root' m m' HVt HVt' Hp En Eu Ea Ec Ev E2 Er Hlook Hnew.
  pose proof (proj1 HVt) as H0.
  assert (Hval : forall id, validh m' id <-> validh m id) by (intros id; unfold validh; now rewrite En).
  assert (Hnode : forall id, node_at m' id = node_at m id) by (intros id; unfold node_at; now rewrite En).
  assert (Hvt : forall id, validh m id -> vtree_of m' id = vtree_of m id).
  { intros id Hv. unfold vtree_of. rewrite Hnode. destruct (node_at m id) as [| |v p|vt els] eqn:Enode; try reflexivity.
    pose proof (p_nodes _ _ _ _ Hp _ Hv) as Hk. unfold node_at in Enode. rewrite Enode in Hk. destruct Hk as [i Hi].
    rewrite E2, (p_v2v _ _ _ _ Hp). exact (proj1 (Hlook v i Hi)). }
  assert (Hnvvalid : forall id nv, validh m id -> vtree_of m id = Some nv -> vvalid vn nv).
  { intros id nv Hv Hnv. unfold vtree_of in Hnv. destruct (node_at m id) as [| |v p|vt els] eqn:Enode; try discriminate.
    - destruct (lit_position vn v2v root HVt m id v p Hp Hv Enode) as (i & A & B & _). unfold vtree_of in A. rewrite Enode in A. congruence.
    - injection Hnv as <-. destruct (dec_position vn v2v root m id vt els Hp Hv Enode) as (l & r & _ & B & _). exact B. }
  assert (Hund : forall id t, validh m id -> vvalid vn t -> (under (vn ++ e) m' id t <-> under vn m id t)).
  { intros id t Hv Ht. unfold under. rewrite Hval, (Hvt id Hv). destruct (vtree_of m id) as [nv|]; [|tauto].
    rewrite (desc_grow vn v2v e nv t H0 Ht). tauto. }
  assert (Hvext : forall t, vvalid vn t -> vvalid (vn ++ e) t) by (intros t H; unfold vvalid in *; rewrite app_length; lia).
  constructor; try assumption.
  - rewrite En. apply (p_head _ _ _ _ Hp).
  - rewrite En. intros k Hk. pose proof (p_nodes _ _ _ _ Hp k Hk) as H.
    destruct (nth k (nodes m) NFalse) as [| |v pol|vt els]; cbn in *; auto.
    + destruct H as [i Hi]. exists i. exact (proj2 (Hlook v i Hi)).
    + destruct H as [Hx (l & r & A & B & C)]. split; [exact Hx|]. exists l, r. rewrite vat_app by exact B. split; [exact A|]. split; [auto|].
      destruct (vt_int _ _ H0 vt l r B A) as (Hl & Hr & _).
      eapply Forall_impl; [|exact C]. intros x (X1 & X2 & X3 & X4).
      split; [exact X1|]. split; [exact X2|].
      split; apply Hund; auto; unfold validh, vvalid in *; lia.
  - rewrite Eu. intros key id Hin. destruct (p_utab _ _ _ _ Hp key id Hin) as [A B]. rewrite Hval, Hnode. auto.
  - rewrite En, Eu. apply (p_utabc _ _ _ _ Hp).
  - rewrite Ea. intros a b o r Hin. destruct (p_acache _ _ _ _ Hp a b o r Hin) as (A & B & [C D]).
    destruct (p_acnc _ _ _ _ Hp a b o r Hin) as (Na0 & Na1 & _).
    rewrite !Hval. split; [exact A|]. split; [exact B|]. split; [now rewrite Hval|].
    intros t Ht Ua Ub. destruct (Nat.lt_ge_cases (N.to_nat t) (length vn)) as [Hold|Hn].
    + apply Hund; auto. apply D; [exact Hold | now apply Hund | now apply Hund].
    + destruct (Hnew t Ht ltac:(unfold vvalid; lia)) as [Hnone|Hall].
      * exfalso. destruct Ua as [_ Ua]. rewrite (Hvt a A) in Ua.
        destruct (vtree_of m a) as [nv|] eqn:Eva.
        -- rewrite (Hnone nv (Hnvvalid a nv A Eva)) in Ua. discriminate.
        -- destruct (vtree_none_const vn v2v root m a Hp A Eva); contradiction.
      * split; [now rewrite Hval|]. rewrite (Hvt r C). destruct (vtree_of m r) as [nv|] eqn:Evr; [|exact I].
        apply Hall. apply Hvext. exact (Hnvvalid r nv C Evr).
  - rewrite Ec. intros id r Hin. destruct (p_ncache _ _ _ _ Hp id r Hin) as (A & [C D]).
    destruct (p_ncnc _ _ _ _ Hp id r Hin) as (N0 & N1).
    rewrite !Hval. split; [exact A|]. split; [now rewrite Hval|].
    intros t Ua. assert (Ht : vvalid (vn ++ e) t \/ ~ vvalid (vn ++ e) t) by (unfold vvalid; lia).
    destruct (Nat.lt_ge_cases (N.to_nat t) (length vn)) as [Hold|Hn].
    + apply Hund; auto. apply D. now apply Hund.
    + destruct Ua as [_ Ua]. rewrite (Hvt id A) in Ua.
      destruct (vtree_of m id) as [nv|] eqn:Eva; [|destruct (vtree_none_const vn v2v root m id Hp A Eva); contradiction].
      assert (Vt : vvalid (vn ++ e) t).
      { destruct (N.eq_dec nv t) as [<-|Hne]; [apply Hvext; exact (Hnvvalid id nv A Eva) | exact (proj1 (desc_valid_int (vn ++ e) nv t Ua Hne))]. }
      destruct (Hnew t Vt ltac:(unfold vvalid; lia)) as [Hnone|Hall].
      * rewrite (Hnone nv (Hnvvalid id nv A Eva)) in Ua. discriminate.
      * split; [now rewrite Hval|]. rewrite (Hvt r C). destruct (vtree_of m r) as [nv'|] eqn:Evr; [|exact I].
        apply Hall. apply Hvext. exact (Hnvvalid r nv' C Evr).
  - rewrite Ea. apply (p_acnc _ _ _ _ Hp).
  - rewrite Ec. apply (p_ncnc _ _ _ _ Hp).
  - rewrite Ec. intros id r Hin x p Hn. rewrite Hnode in *. exact (p_nclit _ _ _ _ Hp id r Hin x p Hn).
Qed.

Definition SInvP (m : mgr) : Prop :=
  exists vn v2v root, VtOk vn v2v root /\ PUniq vn root /\ RL vn /\ PInv vn v2v root m.

Lemma RL_empty : RL [].
Proof. intros i l r H. unfold vvalid in H. cbn in H. lia. Qed.
Lemma RL_first : forall v, RL [VLeaf v].
Proof. intros v i l r H Ha. unfold vvalid in H. cbn in H. assert (i = 0) by lia. subst. discriminate. Qed.
Lemma RL_more : forall vn v2v old var, VtOk0 vn v2v -> RL vn ->
  RL (vn ++ [VLeaf var; VInt (N.of_nat (length vn)) old]).
Proof.
  intros vn v2v old var H0 HR i l r Hv Ha. set (leaf := N.of_nat (length vn)) in *.
  set (e := [VLeaf var; VInt leaf old]) in *.
  assert (Hlen : length (vn ++ e) = S (S (length vn))) by (rewrite app_length; cbn; lia).
  assert (Hatleaf : vat (vn ++ e) leaf = VLeaf var).
  { unfold vat, leaf. rewrite Nnat.Nat2N.id, app_nth2, Nat.sub_diag by lia. reflexivity. }
  destruct (Nat.lt_ge_cases (N.to_nat i) (length vn)) as [Hold|Hn].
  - rewrite vat_app in Ha by exact Hold. destruct (HR i l r Hold Ha) as [x Hx]. exists x.
    destruct (vt_int _ _ H0 i l r Hold Ha) as (Hl & _ & _). rewrite vat_app; [exact Hx | unfold vvalid in *; lia].
  - assert (Hc : i = leaf \/ i = leaf + 1) by (unfold vvalid, leaf in *; lia). destruct Hc as [->| ->].
    + rewrite Hatleaf in Ha. discriminate.
    + assert (Hatroot : vat (vn ++ e) (leaf + 1) = VInt leaf old).
      { unfold vat, leaf. rewrite Nnat.N2Nat.inj_add, Nnat.Nat2N.id, app_nth2 by lia.
        replace (length vn + N.to_nat 1 - length vn)%nat with 1%nat by (cbn; lia). reflexivity. }
      rewrite Hatroot in Ha. injection Ha as <- <-. exists var. exact Hatleaf.
Qed.

Lemma alookup_cons_other : forall v var (leaf : N) l, v <> var -> alookup N.eqb v ((var, leaf) :: l) = alookup N.eqb v l.
Proof. intros v var leaf l H. cbn. apply N.eqb_neq in H. now rewrite H. Qed.

Lemma SInvP_ensure : forall v p n k m, SInvP m -> SInvP (ensure_variable_weights v p n k m).
Proof.
  intros v p n k m (vn & v2v & root & HVt & HU & HRL & Hp).
  pose proof (p_vn _ _ _ _ Hp) as Evn. pose proof (p_v2v _ _ _ _ Hp) as Ev2. pose proof (p_root _ _ _ _ Hp) as Ert.
  unfold ensure_variable_weights.
  destruct (alookup N.eqb v (var2vt m)) as [i|] eqn:El.
  - exists vn, v2v, root. split; [exact HVt|]. split; [exact HU|]. split; [exact HRL|].
    assert (HVt1 : VtOk (vn ++ []) v2v root) by (now rewrite app_nil_r).
    rewrite <- (app_nil_r vn). apply (PInv_regrow vn v2v root [] v2v root m _ HVt HVt1 Hp); try reflexivity.
    + cbn. now rewrite app_nil_r.
    + cbn. exact Ev2.
    + cbn. exact Ert.
    + intros x j Hin. split; [reflexivity | exact Hin].
    + intros t Ht Hn. rewrite app_nil_r in Ht. contradiction.
  - rewrite Ev2 in El. rewrite Ert.
    assert (Hlook : forall leaf x i, In (x, i) v2v -> alookup N.eqb x ((v, leaf) :: v2v) = alookup N.eqb x v2v /\ In (x, i) ((v, leaf) :: v2v)).
    { intros leaf x i Hin. split; [|now right]. apply alookup_cons_other. intros ->. exact (alookupN_none _ _ El i Hin). }
    destruct root as [old|].
    + pose proof (grow_more vn v2v old v HVt El) as HVt'. cbn zeta in HVt'.
      pose proof (PUniq_more vn v2v old v HVt HU) as HU'. cbn zeta in HU'.
      set (leaf := N.of_nat (length vn)) in *. set (e := [VLeaf v; VInt leaf old]) in *.
      eexists _, _, _. split; [exact HVt'|]. split; [exact HU'|]. split; [exact (RL_more vn v2v old v (proj1 HVt) HRL)|].
      apply (PInv_regrow vn v2v (Some old) e _ _ m _ HVt HVt' Hp); try reflexivity.
      * cbn. now rewrite Evn.
      * cbn. now rewrite Ev2, Evn.
      * cbn. now rewrite Evn.
      * intros x i Hin. exact (Hlook leaf x i Hin).
      * intros t Ht Hn.
        assert (Hlen : length (vn ++ e) = S (S (length vn))) by (rewrite app_length; cbn; lia).
        assert (Hc : t = leaf \/ t = leaf + 1) by (unfold vvalid, leaf in *; lia).
        destruct Hc as [->| ->].
        -- left. intros nv Hnv.
           assert (Hat : vat (vn ++ e) leaf = VLeaf v).
           { unfold vat, leaf. rewrite Nnat.Nat2N.id, app_nth2, Nat.sub_diag by lia. reflexivity. }
           rewrite (desc_nonint (vn ++ e) nv leaf) by (intros l r; rewrite Hat; discriminate).
           apply N.eqb_neq. unfold vvalid, leaf in *. lia.
        -- right. intros x Hx. pose proof (proj2 HVt') as HR. unfold RootOk in HR. exact (proj2 HR x Hx).
    + destruct HVt as [H0 HR]. cbn in HR. destruct HR as [-> ->].
      exists [VLeaf v], [(v, 0%N)], (Some 0%N). split; [apply grow_first|]. split; [apply PUniq_first|]. split; [apply RL_first|].
      change [VLeaf v] with ([] ++ [VLeaf v]).
      assert (HVt0 : VtOk [] [] None) by (split; [exact H0 | cbn; auto]).
      apply (PInv_regrow [] [] None [VLeaf v] _ _ m _ HVt0 (grow_first v) Hp); try reflexivity.
      * cbn. now rewrite Evn.
      * cbn. now rewrite Ev2, Evn.
      * cbn. now rewrite Evn.
      * intros x i [].
      * intros t Ht Hn. left. intros nv Hnv. unfold vvalid in Hnv. cbn in Hnv. lia.
Qed.

(* ---- histories ---------------------------------------------------------------------------------------------------------------- *)
Definition okcode (out : N * N * N * N) : Prop :=
  let c := fst (fst (fst out)) in c = 0 \/ c = 1 \/ c = 2 \/ c = 9.

Definition HInvS (n : nat) (s : rstate) : Prop :=
  SInvP (rm s) /\ Forall (validh (rm s)) (rh s) /\ (length (vnodes (rm s)) <= 2 * n)%nat.

Lemma run_striple : forall Inv {A} P (c : M A) Q m b m' b' r,
  striple Inv P c Q -> Inv m -> P m -> c (m, b) = ((m', b'), r) ->
  Inv m' /\ ext m m' /\ good r Q m'.
Proof.
  intros Inv A P c Q m b m' b' r H Hi Hp E. specialize (H m b Hi Hp). rewrite E in H. exact H.
Qed.

Lemma execS : forall n s c b f s' out,
  HInvS n s ->
  (forall vn v2v root, VtOk vn v2v root -> PUniq vn root -> RL vn -> PInv vn v2v root (rm s) -> length vn = length (vnodes (rm s)) ->
     striple (PInv vn v2v root) (fun m => m = rm s) c (fun r m => validh m r)) ->
  exec s c b f = (s', out) -> HInvS n s' /\ okcode out.
Proof.
  intros n s c b f s' out [(vn & v2v & root & HVt & HU & HRL & Hp) [HF Hlen]] Hc E. unfold exec in E.
  destruct (c (rm s, mkbud b)) as [[m' b'] r] eqn:Ec.
  assert (Elen : length vn = length (vnodes (rm s))) by now rewrite (p_vn _ _ _ _ Hp).
  destruct (run_striple _ _ _ _ _ _ _ _ _ (Hc vn v2v root HVt HU HRL Hp Elen) Hp eq_refl Ec) as (Hp' & He & Hr).
  injection E as <- <-. split.
  - split; cbn [rm rh]; [exists vn, v2v, root; auto|]. split.
    + apply Forall_app. split.
      * eapply Forall_impl; [|exact HF]. intros h Hh. eapply validh_ext; eauto.
      * constructor; [|constructor]. destruct r as [h| | |]; cbn [good] in Hr; try contradiction; [exact Hr|].
        apply (pvalid01 vn v2v root m' Hp').
    + destruct He as (_ & Ev & _). now rewrite Ev.
  - unfold okcode. cbn [fst]. destruct r as [h|[]| |]; cbn [good rcode] in *; try contradiction; auto.
Qed.

Lemma hnd_validS : forall n s i, HInvS n s -> validh (rm s) (hnd s i).
Proof.
  intros n s i [(vn & v2v & root & HVt & HU & HRL & Hp) [HF _]]. unfold hnd. generalize (N.to_nat i). clear i.
  induction HF as [|h hs H HF IH]; intros k.
  - destruct k; apply (pvalid01 vn v2v root _ Hp).
  - destruct k; cbn; [exact H | apply IH].
Qed.

Lemma reg_regd' : forall vn v2v root m v, PInv vn v2v root m -> reg m v = true -> regd' v2v v.
Proof.
  intros vn v2v root m v Hd H. unfold reg in H. rewrite (p_v2v _ _ _ _ Hd) in H.
  destruct (alookup N.eqb v v2v) as [i|] eqn:E; [|discriminate]. exists i. now apply alookupN_in.
Qed.

Lemma stepS : forall fuel n s o s' out, HInvS n s -> step_ok s o = true -> (4 * S n + 3 < fuel)%nat ->
  step fuel s o = (s', out) -> HInvS (S n) s' /\ okcode out.
Proof.
  intros fuel n s o s' out HI Hok Hf E. pose proof HI as [HS [HF Hlen]].
  assert (Hmono : forall s1, HInvS n s1 -> HInvS (S n) s1) by (intros s1 (A & B & C); repeat split; auto; lia).
  destruct o as [v p q k|v pol b|i j o b|i b|vs b]; cbn [step step_ok] in *.
  - injection E as <- <-. split; [|unfold okcode; cbn; auto]. split; cbn [rm rh]; [now apply SInvP_ensure|]. split.
    + destruct (ensure_nodes v p q k (rm s)) as (E1 & _).
      eapply Forall_impl; [|exact HF]. intros h Hh. unfold validh in *. now rewrite E1.
    + unfold ensure_variable_weights. destruct (alookup N.eqb v (var2vt (rm s))); [cbn; lia|].
      destruct (vroot (rm s)); cbn; rewrite app_length; cbn; lia.
  - cut (HInvS n s' /\ okcode out); [intros [A B]; split; [now apply Hmono | exact B]|]. eapply execS; [exact HI | | exact E].
    intros vn v2v root HVt HU HRL Hp _.
    eapply st_pre; [apply (literal_top_S vn v2v root v pol); eapply reg_regd'; eauto | intros; exact I].
  - pose proof (hnd_validS n s i HI) as Vi. pose proof (hnd_validS n s j HI) as Vj.
    cut (HInvS n s' /\ okcode out); [intros [A B]; split; [now apply Hmono | exact B]|]. eapply execS; [exact HI | | exact E].
    intros vn v2v root HVt HU HRL Hp El.
    eapply st_pre; [apply (apply_top_S vn v2v root HVt HU HRL fuel (hnd s i) (hnd s j) o); lia | intros m _ ->; split; assumption].
  - pose proof (hnd_validS n s i HI) as Vi.
    cut (HInvS n s' /\ okcode out); [intros [A B]; split; [now apply Hmono | exact B]|]. eapply execS; [exact HI | | exact E].
    intros vn v2v root HVt HU HRL Hp El.
    eapply st_pre; [apply (negate_top_S vn v2v root HVt HU HRL fuel (hnd s i)); lia | intros m _ ->; assumption].
  - cut (HInvS n s' /\ okcode out); [intros [A B]; split; [now apply Hmono | exact B]|]. eapply execS; [exact HI | | exact E].
    intros vn v2v root HVt HU HRL Hp El.
    eapply st_pre; [apply (exactly_one_S vn v2v root HVt HU HRL fuel vs); [|lia] | intros; exact I].
    rewrite forallb_forall in Hok. apply Forall_forall. intros x Hx. eapply reg_regd'; eauto.
Qed.

Lemma runS : forall fuel ops n s s' outs, HInvS n s -> run_ok fuel s ops = true ->
  (4 * (n + length ops) + 3 < fuel)%nat ->
  run_from fuel s ops = (s', outs) -> HInvS (n + length ops) s' /\ Forall okcode outs.
Proof.
  intros fuel ops. induction ops as [|o ops IH]; intros n s s' outs HI Hok Hf E; cbn [run_from run_ok length] in *.
  - injection E as <- <-. rewrite Nat.add_0_r. split; [exact HI | constructor].
  - apply andb_prop in Hok as [Ho Hr].
    destruct (step fuel s o) as [s1 r] eqn:E1. destruct (run_from fuel s1 ops) as [s2 rs] eqn:E2.
    injection E as <- <-. cbn [fst] in Hr.
    destruct (stepS fuel n s o s1 r HI Ho ltac:(lia) E1) as [HI1 Hc1].
    destruct (IH (S n) s1 s2 rs HI1 Hr ltac:(lia) E2) as [HI2 Hc2].
    split; [replace (n + S (length ops))%nat with (S n + length ops)%nat by lia; exact HI2 | constructor; assumption].
Qed.

Lemma HInvS_init : HInvS 0 rinit.
Proof.
  split; [exists [], [], None; split; [apply VtOk_empty | split; [apply PUniq_empty | split; [apply RL_empty | apply PInv_new]]]|].
  split; [constructor | cbn; lia].
Qed.

(* totality: with enough fuel no step of a history reports out-of-fuel (code 3) or a panic path (code 4) *)
Lemma history_total : forall fuel ops s outs,
  run_from fuel rinit ops = (s, outs) -> run_ok fuel rinit ops = true ->
  (4 * length ops + 3 < fuel)%nat ->
  Forall okcode outs.
Proof.
  intros fuel ops s outs E Hok Hf. exact (proj2 (runS fuel ops 0 rinit s outs HInvS_init Hok Hf E)).
Qed.


Lemma history_SInvQ : forall fuel ops s outs,
  run_from fuel rinit ops = (s, outs) -> run_ok fuel rinit ops = true -> (4 * length ops + 3 < fuel)%nat ->
  SInvP (rm s).
Proof.
  intros fuel ops s outs E Hok Hf. destruct (runS fuel ops 0 rinit s outs HInvS_init Hok Hf E) as [[A _] _]. exact A.
Qed.
